import LunaVerif.Model.Usb2.DescriptorRom
/-!
# C09 — specification vocabulary

"For any descriptor collection (including non-consecutive indices) and either descriptor handler,
and any request (type, index, wLength) read in max-packet-size pieces, the concatenated data stage
equals the first min(wLength, descriptor length) bytes of that descriptor, each packet is at most
the max packet size, and the stage ends with a short packet or, when the total is a non-zero
multiple of the packet size below wLength, with a zero-length packet.  Requests for descriptors
that do not exist are STALLed without data."

This file only contains definitions (no model is imported besides the collection type):

* `dataStage d wLength mps` — the packets the host must see;
* `Response`, `specResponse` — what one data-stage IN must be answered with;
* `Beat`, `sendTrace`, `respTrace` — the abstract transmitter on a `USBInStreamInterface`: present
  byte `k` of the packet (`first` on byte 0, `last` on the final byte) until it is accepted by
  `ready`, then the next one; a ZLP is one cycle `valid ∧ last ∧ ¬first`; a STALL one cycle `stall`;
* `hostRead` — the host / `StandardRequestHandler` loop: one IN per packet at
  `start_position = k·mps`, advance on ACK, stop after a short packet, a ZLP, a STALL, silence, or
  once wLength bytes have arrived.
-/
namespace LunaVerif.Desc

/-- the `k`-th max-packet-size piece of the first `wLength` bytes of `d`. -/
def packetAt (d : List Nat) (wLength mps k : Nat) : List Nat :=
  ((d.take wLength).drop (k * mps)).take mps

/-- **Spec**: the data stage of GET_DESCRIPTOR for descriptor `d`: the chunks of `d.take wLength`
of size `mps`, plus a trailing zero-length packet iff the total is a non-zero multiple of `mps` and
smaller than `wLength`. -/
def dataStage (d : List Nat) (wLength mps : Nat) : List (List Nat) :=
  let total := min wLength d.length
  (List.range ((total + mps - 1) / mps)).map (packetAt d wLength mps)
    ++ (if total ≠ 0 ∧ total % mps = 0 ∧ total < wLength then [[]] else [])

/-- What a handler does with one data-stage IN token. -/
inductive Response
  | data (bytes : List Nat)     -- a data packet with a non-empty payload
  | zlp                         -- a zero-length packet
  | stall                       -- STALL handshake, no data
  | silent                      -- nothing (the device NAKs)
deriving Repr, DecidableEq

/-- a packet of the specification as a response. -/
def Response.ofPacket (p : List Nat) : Response := if p.isEmpty then .zlp else .data p

/-- payload bytes carried by a response. -/
def Response.bytes : Response → List Nat
  | .data b => b
  | _ => []

/-- **Spec** for one IN of an in-order read at offset `startPos ≤ min wLength |d|`. -/
def specResponse (d : Option (List Nat)) (wLength mps startPos : Nat) : Response :=
  match d with
  | none => .stall
  | some d =>
    if startPos < min wLength d.length then .data (((d.take wLength).drop startPos).take mps) else .zlp

/-- The abstract transmitter: byte `k` of packet `c` is presented until a cycle with `ready`; after
the last byte has been accepted the stream is idle. -/
def sendTrace (c : List Nat) : Nat → List Bool → List Beat
  | _, [] => []
  | k, r :: rs =>
    if k < c.length then
      ⟨true, k == 0, k + 1 == c.length, c.getD k 0, false⟩ :: sendTrace c (if r then k + 1 else k) rs
    else Beat.quiet :: sendTrace c k rs

def zlpBeat : Beat := ⟨true, false, true, 0, false⟩
def stallBeat : Beat := ⟨false, false, false, 0, true⟩

def idleTrace (rs : List Bool) : List Beat := rs.map (fun _ => Beat.quiet)

/-- a single-cycle pulse followed by idle. -/
def pulseTrace (b : Beat) : List Bool → List Beat
  | [] => []
  | _ :: rs => b :: idleTrace rs

/-- `n` quiet cycles, then `f` on the remaining ready pattern. -/
def delayed : Nat → (List Bool → List Beat) → List Bool → List Beat
  | 0, f, rs => f rs
  | _ + 1, _, [] => []
  | n + 1, f, _ :: rs => Beat.quiet :: delayed n f rs

def bodyTrace : Response → List Bool → List Beat
  | .data c => sendTrace c 0
  | .zlp => pulseTrace zlpBeat
  | .stall => pulseTrace stallBeat
  | .silent => idleTrace

/-- The output trace that answers one request with `r` after `lat` quiet cycles; `rs` is the `tx.ready`
pattern, one entry per cycle, starting with the cycle in which `start` is pulsed. -/
def respTrace (lat : Nat) (r : Response) : List Bool → List Beat := delayed lat (bodyTrace r)

/-- The host's in-order read, as `StandardRequestHandler` drives a handler: the `k`-th IN starts the
handler at `start_position = k·mps` (an 11-bit register); every ACKed full packet advances; the
stage is over after a short packet, a ZLP, a STALL, silence, or when `wLength` bytes have arrived. -/
def hostRead (resp : Nat → Response) (mps wLength : Nat) : Nat → Nat → Nat → List Response
  | 0, _, _ => []
  | fuel + 1, k, received =>
    match resp ((k * mps) % 2048) with
    | .data b =>
      if b.length < mps ∨ received + b.length ≥ wLength then [.data b]
      else .data b :: hostRead resp mps wLength fuel (k + 1) (received + b.length)
    | r => [r]

end LunaVerif.Desc
