import LunaVerif.Model.Usb3.RxAligner
/-!
# C34 — Word alignment places COM sequences on word boundaries without corrupting data

"After a four-COM sequence is received at any byte offset, the aligned output presents that sequence
as a whole word and shifts all following data by the same offset, so that the output is the input
delayed and re-grouped with no symbol lost or duplicated while the offset is unchanged."

Quantifier: all input streams with COM sequences at any of the four offsets, offset changes and
invalid words.

The theorems are stated for both aligners (`Kind.word` = RxWordAligner, criterion COM COM COM COM;
`Kind.packet` = RxPacketAligner, criterion SHP SHP SHP EPF / SLC SLC SLC EPF); the `…_word`
corollaries spell the COM case out.

Timing convention: `next kd s i` is the register state loaded by the clock edge of the cycle in which
`i` is on the sink; the (registered) outputs `outOf (next kd s i)` are what the source shows in the
FOLLOWING cycle.  `after kd s ins` lists these outputs for a whole history; `run_shift` ties it to
the cycle-by-cycle output list `run` that is compared with the gateware.

A byte offset `k ∈ {0,1,2,3}` of a sequence means: the sequence occupies symbols `k … k+3` of the
8-symbol pair (previous valid word ++ current word), i.e. its first `4-k` symbols are the last
symbols of the previous valid word.
-/
namespace LunaVerif.RxAligner
open LunaVerif.Ss

/-! ## Specification vocabulary -/

def COM4 : List Sym := [COM, COM, COM, COM]

/-- Well-formed inputs: every word has four symbols. -/
def WF (ins : List In) : Prop := ∀ i ∈ ins, i.word.length = 4

/-- The input symbol stream: the symbols of the valid words, in order. -/
def validSyms : List In → List Sym
  | [] => []
  | i :: is => (if i.valid then i.word else []) ++ validSyms is

def validCount : List In → Nat
  | [] => 0
  | i :: is => (if i.valid then 1 else 0) + validCount is

/-- The output symbol stream: the symbols of the valid output words, in order. -/
def outSyms : List Out → List Sym
  | [] => []
  | o :: os => (if o.srcValid then o.srcWord else []) ++ outSyms os

/-- "The offset is unchanged" as a predicate on the INPUTS: starting with history word `prev`, no
valid word completes an alignment sequence at an offset other than `e` (the criterion may fire
again at `e` itself — TS1/TS2 sets repeat at the same offset). -/
def NoRealign (kd : Kind) (e : Nat) : List Sym → List In → Prop
  | _, [] => True
  | prev, i :: is =>
    if i.valid then
      (detect kd (prev ++ i.word) = none ∨ detect kd (prev ++ i.word) = some e) ∧ NoRealign kd e i.word is
    else NoRealign kd e prev is

def NoRealign.dec (kd : Kind) (e : Nat) : (prev : List Sym) → (ins : List In) →
    Decidable (NoRealign kd e prev ins)
  | _, [] => isTrue trivial
  | prev, i :: is =>
    have := NoRealign.dec kd e i.word is
    have := NoRealign.dec kd e prev is
    by unfold NoRealign; exact inferInstance

instance (kd : Kind) (e : Nat) (prev : List Sym) (ins : List In) : Decidable (NoRealign kd e prev ins) :=
  NoRealign.dec kd e prev ins

/-! ## The four criterion blocks: last match wins -/

theorem lt_four_cases {j : Nat} (h : j < 4) : j = 0 ∨ j = 1 ∨ j = 2 ∨ j = 3 := by omega

theorem detect_none (kd : Kind) (pair : List Sym) :
    detect kd pair = none ↔ ∀ j, j < 4 → crit kd (window j pair) = false := by
  unfold detect
  simp only [List.foldl_cons, List.foldl_nil]
  constructor
  · intro h j hj
    rcases lt_four_cases hj with rfl | rfl | rfl | rfl <;>
      (cases h0 : crit kd (window 0 pair) <;> cases h1 : crit kd (window 1 pair) <;>
       cases h2 : crit kd (window 2 pair) <;> cases h3 : crit kd (window 3 pair) <;> simp_all)
  · intro h
    simp [h 0 (by omega), h 1 (by omega), h 2 (by omega), h 3 (by omega)]

theorem detect_some (kd : Kind) (pair : List Sym) (k : Nat) (h : detect kd pair = some k) :
    k < 4 ∧ crit kd (window k pair) = true ∧ ∀ j, k < j → j < 4 → crit kd (window j pair) = false := by
  unfold detect at h
  simp only [List.foldl_cons, List.foldl_nil] at h
  cases h0 : crit kd (window 0 pair) <;> cases h1 : crit kd (window 1 pair) <;>
    cases h2 : crit kd (window 2 pair) <;> cases h3 : crit kd (window 3 pair) <;>
    simp [h0, h1, h2, h3] at h <;> subst h <;> refine ⟨by omega, by assumption, ?_⟩ <;>
    intro j hj hj4 <;> rcases lt_four_cases hj4 with rfl | rfl | rfl | rfl <;>
    first | omega | assumption

theorem detect_of_match (kd : Kind) (pair : List Sym) (k : Nat) (hk : k < 4)
    (hc : crit kd (window k pair) = true) :
    ∃ j, detect kd pair = some j ∧ k ≤ j := by
  cases hd : detect kd pair with
  | none => rw [(detect_none kd pair).1 hd k hk] at hc; cases hc
  | some j =>
    refine ⟨j, rfl, ?_⟩
    have := (detect_some kd pair j hd).2.2
    rcases Nat.lt_or_ge j k with hlt | hge
    · rw [this k hlt hk] at hc; cases hc
    · exact hge

/-! ## One clock cycle -/

/-- The offset applied to the pair in this cycle. -/
theorem next_fields (kd : Kind) (s : State) (i : In) :
    (next kd s i).src = window (next kd s i).offset (s.prev ++ i.word) ∧
    (next kd s i).srcValid = i.valid ∧
    (next kd s i).prev = (if i.valid then i.word else s.prev) :=
  ⟨rfl, rfl, rfl⟩

theorem next_no_detect (kd : Kind) (s : State) (i : In)
    (h : i.valid = false ∨ detect kd (s.prev ++ i.word) = none) :
    (next kd s i).offset = s.shift ∧ (next kd s i).shift = s.shift := by
  unfold next
  rcases h with h | h <;> simp [h]

theorem next_detect (kd : Kind) (s : State) (i : In) (k : Nat) (hv : i.valid = true)
    (h : detect kd (s.prev ++ i.word) = some k) :
    (next kd s i).offset = k ∧ (next kd s i).shift = k := by
  unfold next
  by_cases hk : k = s.shift <;> simp [hv, h, hk]

/-- **C34 (a)** for either aligner: when a valid word completes an alignment sequence at byte
offset `k` of the pair, the word presented in the next cycle is valid and is an alignment sequence
as a whole word; the offset applied, reported (`alignment_offset`) and stored (`shift_to_apply`) is
the offset `j ≥ k` of the last matching window — `k` itself when no later window matches. -/
theorem aligned_sequence_becomes_whole_word (kd : Kind) (s : State) (i : In) (k : Nat)
    (hv : i.valid = true) (hk : k < 4) (hseq : crit kd (window k (s.prev ++ i.word)) = true) :
    (next kd s i).srcValid = true ∧ crit kd (next kd s i).src = true ∧
    (next kd s i).offset = (next kd s i).shift ∧ k ≤ (next kd s i).shift ∧ (next kd s i).shift < 4 ∧
    (next kd s i).src = window (next kd s i).shift (s.prev ++ i.word) ∧
    ((∀ j, k < j → j < 4 → crit kd (window j (s.prev ++ i.word)) = false) →
      (next kd s i).shift = k) := by
  obtain ⟨j, hj, hkj⟩ := detect_of_match kd _ k hk hseq
  obtain ⟨hj4, hcj, hlast⟩ := detect_some kd _ j hj
  obtain ⟨ho, hs⟩ := next_detect kd s i j hv hj
  obtain ⟨hsrc, hval, _⟩ := next_fields kd s i
  refine ⟨by rw [hval, hv], by rw [hsrc, ho, hcj], by rw [ho, hs], by rw [hs]; exact hkj,
    by rw [hs]; exact hj4, by rw [hsrc, ho, hs], ?_⟩
  intro hnone
  rw [hs]
  rcases Nat.lt_or_ge k j with hlt | hge
  · rw [hnone j hlt hj4] at hcj; cases hcj
  · omega

theorem crit_word (w : List Sym) : crit .word w = true ↔ w = COM4 := by
  simp [crit, COM4]

/-- **C34 (a), RxWordAligner**: a four-COM sequence at byte offset `k` comes out, one cycle later,
as the whole word COM COM COM COM, and `alignment_offset`/`shift_to_apply` become the offset of the
sequence (`k` when the COM run does not continue beyond it). -/
theorem com_sequence_becomes_whole_word (s : State) (i : In) (k : Nat)
    (hv : i.valid = true) (hk : k < 4) (hseq : window k (s.prev ++ i.word) = COM4) :
    (next .word s i).srcValid = true ∧ (next .word s i).src = COM4 ∧
    (next .word s i).offset = (next .word s i).shift ∧ k ≤ (next .word s i).shift ∧
    (next .word s i).shift < 4 ∧
    ((∀ j, k < j → j < 4 → window j (s.prev ++ i.word) ≠ COM4) → (next .word s i).shift = k) := by
  have h := aligned_sequence_becomes_whole_word .word s i k hv hk ((crit_word _).2 hseq)
  refine ⟨h.1, (crit_word _).1 h.2.1, h.2.2.1, h.2.2.2.1, h.2.2.2.2.1, fun hn => h.2.2.2.2.2.2 ?_⟩
  intro j hkj hj
  cases hc : crit .word (window j (s.prev ++ i.word))
  · rfl
  · exact absurd ((crit_word _).1 hc) (hn j hkj hj)

/-! ## Constant offset = pure delay -/

theorem window_eq (e : Nat) (pair : List Sym) : window e pair = (pair.drop e).take 4 := rfl

/-- Regrouping: the first output word and the rest of the shifted stream. -/
theorem shifted_stream_cons (p w rest : List Sym) (e n : Nat) (hp : p.length = 4) (hw : w.length = 4)
    (he : e < 4) :
    ((p ++ (w ++ rest)).drop e).take (4 * (1 + n)) =
      window e (p ++ w) ++ ((w ++ rest).drop e).take (4 * n) := by
  have h4 : 4 * (1 + n) = 4 + 4 * n := by omega
  rw [h4, List.take_add, List.drop_drop, window_eq]
  congr 1
  · rw [← List.append_assoc, List.drop_append_of_le_length (by simp; omega),
      List.take_append_of_le_length (by simp; omega)]
  · have : e + 4 = p.length + e := by omega
    rw [this, ← List.drop_drop, List.drop_left]

/-- **C34 (b)** for either aligner, any history with invalid words interleaved: while no sequence
is found at another offset, the output symbol stream is the input symbol stream (history register
first) with its first `e` symbols dropped — every later symbol exactly once, in order, regrouped
into words; output validity follows input validity one cycle later; the reported offset stays `e`. -/
theorem constant_offset_is_pure_delay (kd : Kind) (e : Nat) (s : State) (ins : List In)
    (hshift : s.shift = e) (he : e < 4) (hprev : s.prev.length = 4) (hwf : WF ins)
    (hno : NoRealign kd e s.prev ins) :
    outSyms (after kd s ins) = ((s.prev ++ validSyms ins).drop e).take (4 * validCount ins) ∧
    (after kd s ins).map (·.srcValid) = ins.map (·.valid) ∧
    (∀ o ∈ after kd s ins, o.offset = e) ∧
    (final kd s ins).shift = e := by
  induction ins generalizing s with
  | nil => simp [after, outSyms, validSyms, validCount, final, hshift]
  | cons i is ih =>
    have hiw : i.word.length = 4 := hwf i (List.mem_cons_self ..)
    have hwf' : WF is := fun j hj => hwf j (List.mem_cons_of_mem _ hj)
    obtain ⟨hsrc, hval, hpv⟩ := next_fields kd s i
    cases hv : i.valid
    · -- an invalid word: nothing moves
      simp only [NoRealign, hv, Bool.false_eq_true, if_false] at hno
      obtain ⟨ho, hs⟩ := next_no_detect kd s i (Or.inl hv)
      rw [hv] at hval hpv
      simp only [Bool.false_eq_true, if_false] at hpv
      have := ih (next kd s i) (by rw [hs, hshift]) (by rw [hpv]; exact hprev) hwf' (by rw [hpv]; exact hno)
      simp only [after, outSyms, validSyms, validCount, final, outOf, hval, hv, Bool.false_eq_true,
        if_false, List.nil_append, Nat.zero_add, List.map_cons, List.mem_cons, forall_eq_or_imp]
      rw [hpv] at this
      exact ⟨this.1, by rw [this.2.1], ⟨by rw [ho, hshift], this.2.2.1⟩, this.2.2.2⟩
    · -- a valid word
      simp only [NoRealign, hv, if_true] at hno
      have hoff : (next kd s i).offset = e ∧ (next kd s i).shift = e := by
        rcases hno.1 with hn | hs
        · have := next_no_detect kd s i (Or.inr hn); rw [hshift] at this; exact this
        · exact next_detect kd s i e hv hs
      rw [hv] at hval hpv
      simp only [if_true] at hpv
      have := ih (next kd s i) hoff.2 (by rw [hpv]; exact hiw) hwf' (by rw [hpv]; exact hno.2)
      simp only [after, outSyms, validSyms, validCount, final, outOf, hval, hv, if_true,
        List.map_cons, List.mem_cons, forall_eq_or_imp]
      rw [hpv] at this
      refine ⟨?_, by rw [this.2.1], ⟨hoff.1, this.2.2.1⟩, this.2.2.2⟩
      rw [this.1, hsrc, hoff.1]
      exact (shifted_stream_cons s.prev i.word (validSyms is) e (validCount is) hprev hiw he).symm

/-! ## Invalid words -/

/-- The register update reads only `previous` and `shift_to_apply` of the old state. -/
theorem next_congr (kd : Kind) (s t : State) (i : In) (hp : s.prev = t.prev) (hs : s.shift = t.shift) :
    next kd s i = next kd t i := by
  unfold next; rw [hp, hs]

/-- **C34 (c)**, one cycle: an invalid word — whatever it carries, alignment sequences included —
leaves the history word and the offset untouched and is presented as an invalid output. -/
theorem invalid_word_keeps_history (kd : Kind) (s : State) (i : In) (hv : i.valid = false) :
    (next kd s i).prev = s.prev ∧ (next kd s i).shift = s.shift ∧ (next kd s i).srcValid = false := by
  unfold next; simp [hv]

/-- **C34 (c)**, histories: deleting the invalid cycles from an input history changes neither the
sequence of valid output words (with their reported offsets) nor the history word / offset reached. -/
theorem invalid_words_do_not_shift_history (kd : Kind) (s t : State) (ins : List In)
    (hp : s.prev = t.prev) (hs : s.shift = t.shift) :
    (after kd s ins).filter (·.srcValid) = (after kd t (ins.filter (·.valid))).filter (·.srcValid) ∧
    (final kd s ins).prev = (final kd t (ins.filter (·.valid))).prev ∧
    (final kd s ins).shift = (final kd t (ins.filter (·.valid))).shift := by
  induction ins generalizing s t with
  | nil => simp [after, final, hp, hs]
  | cons i is ih =>
    cases hv : i.valid
    · obtain ⟨h1, h2, h3⟩ := invalid_word_keeps_history kd s i hv
      have := ih (next kd s i) t (by rw [h1, hp]) (by rw [h2, hs])
      simp only [after, final, List.filter_cons, hv, outOf, h3, Bool.false_eq_true, if_false]
      exact this
    · have hn : next kd s i = next kd t i := next_congr kd s t i hp hs
      have := ih (next kd s i) (next kd t i) (by rw [hn]) (by rw [hn])
      simp only [after, final, List.filter_cons, hv, if_true]
      rw [this.1, this.2.1, this.2.2, hn]
      simp

/-! ## Tie to the cycle-by-cycle outputs, and the two statements chained -/

/-- The outputs compared with the gateware cycle by cycle are the reset/old outputs followed by the
`after` outputs: one cycle of latency. -/
theorem run_shift (kd : Kind) (s : State) (ins : List In) :
    run kd s ins ++ [outOf (final kd s ins)] = outOf s :: after kd s ins := by
  induction ins generalizing s with
  | nil => simp [run, after, final]
  | cons i is ih => simp only [run, after, final, List.cons_append, ih]

/-- A sequence found at offset `k` (last matching window), then no realignment: from the aligned
sequence on, the output is the input symbol stream shifted by `k`, nothing lost or duplicated. -/
theorem realign_then_pure_delay (kd : Kind) (s : State) (i : In) (is : List In) (k : Nat)
    (hv : i.valid = true) (hdet : detect kd (s.prev ++ i.word) = some k)
    (hprev : s.prev.length = 4) (hwf : WF (i :: is)) (hno : NoRealign kd k i.word is) :
    outSyms (after kd s (i :: is)) =
      ((s.prev ++ validSyms (i :: is)).drop k).take (4 * validCount (i :: is)) ∧
    crit kd (outOf (next kd s i)).srcWord = true := by
  have hiw : i.word.length = 4 := hwf i (List.mem_cons_self ..)
  obtain ⟨hk4, hck, _⟩ := detect_some kd _ k hdet
  obtain ⟨ho, hs⟩ := next_detect kd s i k hv hdet
  obtain ⟨hsrc, hval, hpv⟩ := next_fields kd s i
  rw [hv] at hval hpv; simp only [if_true] at hpv
  have := constant_offset_is_pure_delay kd k (next kd s i) is hs hk4 (by rw [hpv]; exact hiw)
    (fun j hj => hwf j (List.mem_cons_of_mem _ hj)) (by rw [hpv]; exact hno)
  simp only [after, outSyms, validSyms, validCount, outOf, hval, hv, if_true]
  rw [this.1, hpv, hsrc, ho]
  exact ⟨(shifted_stream_cons s.prev i.word (validSyms is) k (validCount is) hprev hiw hk4).symm, hck⟩

/-! ## Non-vacuity -/

private def wd (d c : Nat) : In := ⟨true, unpack 4 d c⟩
private def inv (d c : Nat) : In := ⟨false, unpack 4 d c⟩

/-- COM×4 at byte offset 3 (one COM ends the first word, three start the second), data after it;
the invalid word (itself COM×4) is passed over. -/
example : (after .word init [wd 0xBC112233 8, wd 0x44BCBCBC 7, wd 0x88776655 0, inv 0xBCBCBCBC 15,
      wd 0xCCBBAA99 0]).map (fun o => (o.srcValid, packData o.srcWord, packCtrl o.srcWord, o.offset))
    = [(true, 0, 0, 0), (true, 0xBCBCBCBC, 15, 3), (true, 0x77665544, 0, 3),
       (false, 0xBCBCBC88, 14, 3), (true, 0xBBAA9988, 0, 3)] := by decide

example : NoRealign .word 3 (unpack 4 0x44BCBCBC 7) [wd 0x88776655 0, inv 0xBCBCBCBC 15, wd 0xCCBBAA99 0] := by
  decide

example : detect .word (unpack 4 0xBC112233 8 ++ unpack 4 0x44BCBCBC 7) = some 3 := by decide

/-- A COM run of six symbols: windows 1, 2, 3 all match, the last one wins. -/
example : detect .word (unpack 4 0xBCBCBC33 14 ++ unpack 4 0x44BCBCBC 7) = some 3 := by decide

example : detect .packet (unpack 4 0xFBFB2233 12 ++ unpack 4 0x4455F7FB 3) = some 2 := by decide

end LunaVerif.RxAligner
