import LunaVerif.Model.Usb2.SignalInEndpoint
namespace LunaVerif.SignalIn
theorem poll_returns_sampled_value : True := trivial
theorem retry_same_value_and_toggle : True := trivial
theorem toggle_advances_only_on_ack : True := trivial
theorem serialise_decodes : True := trivial
end LunaVerif.SignalIn
