import LunaVerif.Model.Usb2.SignalInEndpoint
/-!
# C17 — Status (signal) IN endpoints report the latched value consistently

"Each time the host polls the endpoint, it receives the value of the monitored signal sampled when
the request arrived, serialized in the configured byte order; if the host does not acknowledge, the
retry carries the same value and toggle, and the toggle advances only after an ACK."

The property is stated as an *acceptor* `Spec` that reads the endpoint's interface cycle by cycle from
the host's side: a poll is **fresh** when the previous one was acknowledged (or there was none) and
its value is the signal in the cycle of the request; the response must be exactly the serialisation
of that value (`first` on byte 0, `last` on the final byte, `valid` held until the packet generator
has taken all bytes); after the packet the host either ACKs (`status_read_complete` pulses exactly
then, and the toggle flips) or sends a new token and requests again, which must repeat value and
toggle.  `poll_returns_sampled_value` says that every trace of the model, for every configuration
and every input history in which `ack` and `new_token` never coincide, is accepted.
-/
namespace LunaVerif.SignalIn

/-! ## Specification vocabulary -/

/-- `n` little-endian bytes of `v`. -/
def bytesLE : Nat → Nat → List Nat
  | 0, _ => []
  | n + 1, v => v % 256 :: bytesLE n (v / 256)

/-- The number a little-endian byte string denotes. -/
def fromBytesLE : List Nat → Nat
  | [] => 0
  | b :: bs => b + 256 * fromBytesLE bs

/-- The wire format of a value: `ceil(width/8)` bytes, least significant first for "little", most
significant first for "big". -/
def serialise (c : Config) (v : Nat) : List Nat :=
  if c.bigEndian then (bytesLE (nbytes c) v).reverse else bytesLE (nbytes c) v

/-- What a host reading the packet in the configured byte order obtains. -/
def decode (c : Config) (bs : List Nat) : Nat :=
  fromBytesLE (if c.bigEndian then bs.reverse else bs)

/-- Host-side reading of the protocol. -/
inductive Spec
  | fresh   (tog : Bool)                       -- no poll outstanding
  | sending (v : Nat) (tog : Bool) (k : Nat)   -- answering with value `v`; `k` bytes have been taken
  | sent    (v : Nat) (tog : Bool)             -- full packet out; an ACK is acceptable
  | armed   (v : Nat) (tog : Bool)             -- no ACK before the next token: the next request is a retry
deriving Repr, DecidableEq

/-- One observed cycle: `none` = the property is violated in this cycle. -/
def Spec.stepCore (c : Config) : Spec → In → Out → Option Spec
  | .fresh tog, i, o =>
    if !o.valid && !o.complete && o.toggle == tog then
      if packetRequested c i then some (.sending (i.signal % 2 ^ c.width) tog 0) else some (.fresh tog)
    else none
  | .sending v tog k, i, o =>
    if o.valid && !o.complete && o.toggle == tog && (serialise c v)[k]? == some o.payload
        && o.first == (k == 0) && o.last == (k + 1 == nbytes c) then
      if i.txReady then
        if k + 1 == nbytes c then some (.sent v tog) else some (.sending v tog (k + 1))
      else some (.sending v tog k)
    else none
  | .sent v tog, i, o =>
    if !o.valid && o.complete == ackTaken c i && o.toggle == tog then
      if ackTaken c i then some (.fresh (!tog))
      else if i.newToken then some (.armed v tog) else some (.sent v tog)
    else none
  | .armed v tog, i, o =>
    if !o.valid && !o.complete && o.toggle == tog then
      if packetRequested c i then some (.sending v tog 0) else some (.armed v tog)
    else none

/-- ClearFeature(ENDPOINT_HALT) naming this endpoint resets the expected toggle to DATA0. -/
def Spec.withTog (b : Bool) : Spec → Spec
  | .fresh _ => .fresh b
  | .sending v _ k => .sending v b k
  | .sent v _ => .sent v b
  | .armed v _ => .armed v b

def Spec.step (c : Config) (sp : Spec) (i : In) (o : Out) : Option Spec :=
  (sp.stepCore c i o).map (fun sp' => if i.clearHalt then sp'.withTog false else sp')

def accepts (c : Config) : Spec → List (In × Out) → Bool
  | _, [] => true
  | sp, (i, o) :: rest =>
    match sp.step c i o with
    | none => false
    | some sp' => accepts c sp' rest

/-- Environment assumption: a host handshake and a new token are different packets. -/
def LegalEnv (ins : List In) : Prop := ∀ i ∈ ins, ¬ (i.ack = true ∧ i.newToken = true)

instance (ins : List In) : Decidable (LegalEnv ins) := by unfold LegalEnv; infer_instance

/-! ## Serialisation facts -/

theorem bytesLE_length (n v : Nat) : (bytesLE n v).length = n := by
  induction n generalizing v with
  | zero => rfl
  | succ n ih => simp [bytesLE, ih]

theorem fromBytesLE_bytesLE (n v : Nat) : fromBytesLE (bytesLE n v) = v % 256 ^ n := by
  induction n generalizing v with
  | zero => simp [bytesLE, fromBytesLE, Nat.mod_one]
  | succ n ih =>
    simp only [bytesLE, fromBytesLE, ih]
    rw [Nat.pow_succ, Nat.mul_comm (256 ^ n) 256, Nat.mod_mul]

theorem pow_width_le (c : Config) : 2 ^ c.width ≤ 256 ^ nbytes c := by
  have : (256 : Nat) = 2 ^ 8 := by decide
  rw [this, ← Nat.pow_mul]
  apply Nat.pow_le_pow_right (by decide)
  unfold nbytes; omega

/-- The wire format loses nothing: decoding the serialisation of any value that fits the signal
gives the value back (both byte orders, every width). -/
theorem serialise_decodes (c : Config) (v : Nat) (hv : v < 2 ^ c.width) :
    decode c (serialise c v) = v := by
  have h : fromBytesLE (bytesLE (nbytes c) v) = v := by
    rw [fromBytesLE_bytesLE]
    exact Nat.mod_eq_of_lt (Nat.lt_of_lt_of_le hv (pow_width_le c))
  unfold decode serialise
  cases c.bigEndian <;> simp [h]

theorem bytesLE_get (n v k : Nat) (hk : k < n) :
    (bytesLE n v)[k]? = some (v / 2 ^ (8 * k) % 256) := by
  induction n generalizing v k with
  | zero => omega
  | succ n ih =>
    cases k with
    | zero => simp [bytesLE]
    | succ k =>
      simp only [bytesLE, List.getElem?_cons_succ]
      rw [ih (v / 256) k (by omega), Nat.div_div_eq_div_mul]
      have : 256 * 2 ^ (8 * k) = 2 ^ (8 * (k + 1)) := by
        rw [show 8 * (k + 1) = 8 * k + 8 by omega, Nat.pow_add]; omega
      rw [this]

/-- The byte the gateware's multiplexer selects is the `k`-th byte of the wire format. -/
theorem serialise_get (c : Config) (v k : Nat) (hk : k < nbytes c) :
    (serialise c v)[k]? = some (byteAt v (txIndex c k)) := by
  unfold serialise txIndex byteAt
  cases hb : c.bigEndian
  · simp [bytesLE_get _ _ _ hk]
  · simp only [if_true]
    rw [List.getElem?_reverse (by rw [bytesLE_length]; exact hk), bytesLE_length,
      bytesLE_get _ _ _ (by omega)]
    have : nbytes c - 1 - k = nbytes c - k - 1 := by omega
    rw [this]

/-! ## Refinement -/

/-- Abstraction map from the gateware's registers to the host-side reading. -/
def absOf (s : State) : Spec :=
  match s.fsm with
  | .idle => .fresh s.toggle
  | .transmit => .sending s.latched s.toggle s.sent
  | .waitAck => .sent s.latched s.toggle
  | .retransmit => .armed s.latched s.toggle

/-- Invariant: while transmitting, the byte counter is inside the value. -/
def Inv (c : Config) (s : State) : Prop := s.fsm = .transmit → s.sent < nbytes c

theorem inv_init (c : Config) : Inv c init := by simp [Inv, init]

theorem core_refines (c : Config) (hw : 1 ≤ c.width) (s : State) (i : In) (hs : Inv c s)
    (hi : ¬ (i.ack = true ∧ i.newToken = true)) :
    (absOf s).stepCore c i (stepCore c s i).2 = some (absOf (stepCore c s i).1) ∧
      Inv c (stepCore c s i).1 := by
  have hn : 1 ≤ nbytes c := by unfold nbytes; omega
  rcases s with ⟨fsm, latched, sent, toggle⟩
  cases fsm
  · -- IDLE
    by_cases hr : packetRequested c i = true
    · simp [stepCore, absOf, Spec.stepCore, hr, Inv]; omega
    · simp [stepCore, absOf, Spec.stepCore, hr, Inv]
  · -- TRANSMIT_RESPONSE
    have hk : sent < nbytes c := hs rfl
    have hg := serialise_get c latched sent hk
    by_cases hrd : i.txReady = true
    · by_cases hl : sent + 1 = nbytes c
      · simp [stepCore, absOf, Spec.stepCore, hrd, hl, hg, Inv]
      · simp [stepCore, absOf, Spec.stepCore, hrd, hl, hg, Inv]; omega
    · simp [stepCore, absOf, Spec.stepCore, hrd, hg, Inv]; omega
  · -- WAIT_FOR_ACK
    by_cases ha : ackTaken c i = true
    · have hnt : i.newToken = false := by
        cases h : i.newToken
        · rfl
        · exact absurd ⟨by simp [ackTaken] at ha; exact ha.1, h⟩ hi
      simp [stepCore, absOf, Spec.stepCore, ha, hnt, Inv]
    · by_cases hnt : i.newToken = true
      · simp [stepCore, absOf, Spec.stepCore, ha, hnt, Inv]
      · simp [stepCore, absOf, Spec.stepCore, ha, hnt, Inv]
  · -- RETRANSMIT
    by_cases hr : packetRequested c i = true
    · simp [stepCore, absOf, Spec.stepCore, hr, Inv]; omega
    · simp [stepCore, absOf, Spec.stepCore, hr, Inv]

theorem absOf_withTog (s : State) (b : Bool) :
    absOf { s with toggle := b } = (absOf s).withTog b := by
  rcases s with ⟨fsm, latched, sent, toggle⟩
  cases fsm <;> rfl

theorem step_refines (c : Config) (hw : 1 ≤ c.width) (s : State) (i : In) (hs : Inv c s)
    (hi : ¬ (i.ack = true ∧ i.newToken = true)) :
    (absOf s).step c i (step c s i).2 = some (absOf (step c s i).1) ∧ Inv c (step c s i).1 := by
  obtain ⟨h1, h2⟩ := core_refines c hw s i hs hi
  constructor
  · simp only [Spec.step, step, h1, Option.map_some]
    cases i.clearHalt <;> simp [absOf_withTog]
  · simp only [step]
    cases i.clearHalt
    · simpa using h2
    · simpa [Inv] using h2

theorem accepts_from (c : Config) (hw : 1 ≤ c.width) (s : State) (hs : Inv c s) (ins : List In)
    (hl : LegalEnv ins) : accepts c (absOf s) (trace c s ins) = true := by
  induction ins generalizing s with
  | nil => rfl
  | cons i is ih =>
    have h := step_refines c hw s i hs (hl i (by simp))
    simp only [trace, accepts, h.1]
    exact ih _ h.2 (fun j hj => hl j (by simp [hj]))

/-- **C17** (main theorem).  For every width ≥ 1, both byte orders, every endpoint number and every
input history (token fields, requests, ACKs, `tx.ready` stalls, a signal that changes in any cycle)
in which `ack` and `new_token` never coincide, the endpoint's trace from reset is accepted by the
host-side specification: each fresh poll is answered with the serialisation of the signal value of
the request cycle, a retry repeats value and toggle, `status_read_complete` pulses exactly on an ACK
that follows the packet before any new token *while the tokenizer still shows an IN token for this
endpoint* (an ACK belonging to another device's transaction is not taken), and the toggle flips
exactly then. -/
theorem poll_returns_sampled_value (c : Config) (hw : 1 ≤ c.width) (ins : List In)
    (hl : LegalEnv ins) : accepts c (.fresh false) (trace c init ins) = true :=
  accepts_from c hw init (inv_init c) ins hl

/-- One cycle, any state: the latched value changes only when a request is accepted in IDLE, and
the toggle only on an ACK in WAIT_FOR_ACK — so everything sent between a fresh request and its ACK
(first transmission and every retry) carries the same value and the same toggle. -/
theorem retry_same_value_and_toggle (c : Config) (s : State) (i : In) :
    ((step c s i).1.latched ≠ s.latched → s.fsm = .idle ∧ packetRequested c i = true) ∧
    ((step c s i).1.toggle ≠ s.toggle →
      (s.fsm = .waitAck ∧ i.ack = true ∧ targeting c i = true) ∨ i.clearHalt = true) := by
  rcases s with ⟨fsm, latched, sent, toggle⟩
  cases fsm <;> cases hc : i.clearHalt <;> simp [step, stepCore, ackTaken, hc] <;> (try split) <;>
    simp_all <;> (cases i.ack <;> cases i.newToken <;> cases targeting c i <;> simp_all)

/-- Number of `status_read_complete` strobes in a trace. -/
def completes : List (In × Out) → Nat
  | [] => 0
  | (_, o) :: r => (if o.complete then 1 else 0) + completes r

theorem toggle_parity_from (c : Config) (s : State) (ins : List In)
    (hc : ∀ i ∈ ins, i.clearHalt = false) :
    ((runState c s ins).toggle = (s.toggle != (completes (trace c s ins) % 2 == 1))) ∧
    (∀ io ∈ trace c s ins, io.2.complete = true → io.1.ack = true ∧ targeting c io.1 = true) := by
  induction ins generalizing s with
  | nil => simp [runState, trace, completes]
  | cons i is ih =>
    have hci : i.clearHalt = false := hc i (by simp)
    obtain ⟨h1, h2⟩ := ih (step c s i).1 (fun j hj => hc j (by simp [hj]))
    have hstep : (step c s i).1.toggle = (s.toggle != (step c s i).2.complete) ∧
        ((step c s i).2.complete = true → i.ack = true ∧ targeting c i = true) := by
      rcases s with ⟨fsm, latched, sent, toggle⟩
      cases fsm <;> simp [step, stepCore, ackTaken, hci] <;> (try split) <;> simp_all <;>
        (cases i.ack <;> cases i.newToken <;> cases targeting c i <;> simp_all)
    have hm : ∀ n : Nat, ((1 + n) % 2 == 1) = !(n % 2 == 1) := by
      intro n
      rcases Nat.mod_two_eq_zero_or_one n with h | h <;> simp [Nat.add_mod, h]
    constructor
    · simp only [runState, trace, completes, h1, hstep.1]
      cases s.toggle <;> cases (step c s i).2.complete <;> simp [hm]
    · intro io hio
      simp only [trace, List.mem_cons] at hio
      rcases hio with rfl | hio
      · exact hstep.2
      · exact h2 io hio

/-- For every history without a ClearFeature(ENDPOINT_HALT) for this endpoint (no other assumption): the toggle after the history is the parity of
the number of `status_read_complete` strobes, and each strobe coincides with a host ACK received while the tokenizer shows an IN token for this
endpoint — the toggle
advances only on an ACK, once per acknowledged poll. -/
theorem toggle_advances_only_on_ack (c : Config) (ins : List In)
    (hc : ∀ i ∈ ins, i.clearHalt = false) :
    ((runState c init ins).toggle = (completes (trace c init ins) % 2 == 1)) ∧
    (∀ io ∈ trace c init ins, io.2.complete = true → io.1.ack = true ∧ targeting c io.1 = true) := by
  have h := toggle_parity_from c init ins hc
  simpa [init] using h

/-! ## Non-vacuity: a concrete poll, a retry after a lost ACK, and the ACK (width 9, big endian) -/

def exIn (rfr nt ack rdy : Bool) (sig : Nat) : In := ⟨3, true, rfr, nt, ack, rdy, sig, false⟩

def exHist : List In :=
  [exIn false true false false 0x1FF, exIn true false false false 0x1A5,   -- request: 0x1A5 sampled
   exIn false false false true 0x000, exIn false false false false 0x111,  -- byte 0 taken, stall
   exIn false false false true 0x0FF,                                      -- byte 1 taken
   exIn false true false false 0x123, exIn true false false false 0x0AA,   -- no ACK: token, request
   exIn false false false true 0x001, exIn false false false true 0x002,   -- retry
   exIn false false true false 0x003, exIn false false false false 0x004]  -- ACK

example : LegalEnv exHist := by decide
example : (trace ⟨9, true, 3⟩ init exHist).map (fun io => (io.2.valid, io.2.payload, io.2.toggle, io.2.complete))
    = [(false, 0, false, false), (false, 0, false, false),
       (true, 1, false, false), (true, 0xA5, false, false), (true, 0xA5, false, false),
       (false, 0xA5, false, false), (false, 0xA5, false, false),
       (true, 1, false, false), (true, 0xA5, false, false),
       (false, 0xA5, false, true), (false, 0xA5, true, false)] := by decide
example : serialise ⟨9, true, 3⟩ 0x1A5 = [1, 0xA5] := by decide
/-- outside the environment assumption the gateware (and the model) do misbehave: ACK together with
a new token flips the toggle but keeps the old value for the next poll. -/
example : accepts ⟨8, false, 3⟩ (.fresh false) (trace ⟨8, false, 3⟩ init
    [exIn true false false false 7, exIn false false false true 0, exIn false true true false 0,
     exIn true false false false 9, exIn false false false true 0]) = false := by decide

end LunaVerif.SignalIn
