import LunaVerif.Lemmas.C27AllStartsArith
import LunaVerif.Props.C27
/-!
# C27 — the generator and the serializer for EVERY value of the `start_position` port

`Props/C27.lean` proves `emits_slice` under the hypothesis that a request names a start position within the
data (in words).  Here that hypothesis is removed: `emits_all_starts` describes, for every value the
`start_position` port can carry (in fact for every natural number), what the generator emits AS CODED, by the
same forward simulation; the corollaries make visible where "emits exactly the requested slice" holds and
where it does not:

* `sp < words` (`within_data_is_slice`): exactly the slice of `emits_slice`.
* `sp ≥ len(data)` (bytes; `beyond_len_emits_last_word`): the clamp — ONE word, the LAST word of the constant,
  `last` set, `first` NOT set, valid bits `min(max_length, bytes in the last word)`; the requested slice
  `data[sp·wb ..]` is empty (`beyond_data_not_the_slice`).
* `words ≤ sp < len(data)` (multi-byte words only; the port is sized by the BYTE length, the clamp compares with
  the BYTE length, the position register is sized by the WORD count): not clamped, truncated to the position
  width; if the truncated value is again `≥ words` the generator walks through `posMod - e` out-of-range ROM
  addresses (all-zero words in the simulator), wraps to 0 and plays the constant from its beginning, the whole
  limited to `max_length` (`unclamped_beyond_words`); `first` is flagged only if the truncation did not change
  the value (`first_iff`).
-/
namespace LunaVerif.StreamGen

/-! ## the player for every start position -/

inductive SpecA
  | idle (m : Nat)
  | play (sp M k : Nat)
  | done (m : Nat)
deriving DecidableEq, Repr

def specOutA (c : Config) : SpecA → Out
  | .idle m => ⟨0, 0, false, false, false, outLen c m⟩
  | .play sp M k =>
    let x := xferA c sp M k
    ⟨x.valid, x.payload, x.first, x.last, false, outLen c M⟩
  | .done m => ⟨0, 0, false, false, true, outLen c m⟩

def specNextA (c : Config) : SpecA → In → SpecA
  | .idle _, i => if i.start = true ∧ 0 < i.maxLength then .play i.startPosition i.maxLength 0 else .idle i.maxLength
  | .play sp M k, i => if i.ready then (if k + 1 = nXfersA c sp M then .done M else .play sp M (k + 1)) else .play sp M k
  | .done m, _ => .idle m

def specRunA (c : Config) : SpecA → List In → List Out
  | _, [] => []
  | q, x :: xs => specOutA c q :: specRunA c (specNextA c q x) xs

/-- Environment WITHOUT any restriction on the requested start position: `max_length` fits its port;
`start_position` is held while the emission is in progress (`first` is computed from the live input). -/
def EnvA (c : Config) : SpecA → In → Prop
  | .idle _, i => i.maxLength < 2 ^ c.mlw
  | .play sp _ _, i => i.startPosition = sp
  | .done _, _ => True

def EnvRunA (c : Config) : SpecA → List In → Prop
  | _, [] => True
  | q, x :: xs => EnvA c q x ∧ EnvRunA c (specNextA c q x) xs

def RA (c : Config) (σ : State) : SpecA → Prop
  | .idle m => σ.fsm = .idle ∧ σ.maxLen = m
  | .done m => σ.fsm = .done ∧ σ.maxLen = m
  | .play sp M k =>
    σ.fsm = .streaming ∧ σ.pos = posA c (effStart c sp) k ∧ σ.bytesSent = k * c.wb ∧ σ.maxLen = M ∧
    σ.romData = romRead c (posA c (effStart c sp) k) ∧ k < nXfersA c sp M ∧ M < 2 ^ c.mlw

/-! ## lemmas -/

theorem romRead_oob (c : Config) (a : Nat) (h : nWords c ≤ a) : romRead c a = 0 := by
  have : (rom c)[a]? = none := by
    apply List.getElem?_eq_none
    simp [rom]; exact h
  simp [romRead, this]

theorem nWords_le_posMod (c : Config) : nWords c ≤ posMod c := le_two_pow_rangeWidth _

theorem nWords_pos (c : Config) (hc : c.Valid) : 1 ≤ nWords c := by
  obtain ⟨hwb, hlen, _, _⟩ := hc
  unfold nWords
  generalize c.wb = wb at *
  rcases hwb with rfl | rfl | rfl <;> omega

theorem effStart_lt (c : Config) (hc : c.Valid) (sp : Nat) : effStart c sp < posMod c := by
  unfold effStart
  split
  · have := nWords_le_posMod c; have := nWords_pos c hc; omega
  · exact Nat.mod_lt _ (Nat.two_pow_pos _)

/-- The valid mask for any position and byte count below the latched limit: as many low bits as the lesser of
the bytes the limit still allows and — on the last word of the constant — the bytes of that word. -/
theorem validMask_gen (c : Config) (hc : c.Valid) (p b M : Nat) (hb : b < M) :
    validMask c p b M =
      if c.vw = 1 then 1
      else ones (min c.wb (min (M - b) (if p = nWords c - 1 then lastWordBytes c else c.wb))) := by
  obtain ⟨hwb, hlen, hmlw, hvw⟩ := hc
  rcases hvw with hv1 | ⟨hvw, hwb1⟩
  · simp [validMask, hv1]
  · have hvne : c.vw ≠ 1 := by omega
    have hne1 : c.wb ≠ 1 := by omega
    have hP : ∃ P, 2 ^ rangeWidth (c.wb + 1) = P ∧ ((c.wb = 2 ∧ P = 4) ∨ (c.wb = 4 ∧ P = 8)) := by
      rcases hwb with h1 | h1 | h1
      · omega
      · exact ⟨4, by rw [h1]; decide, Or.inl ⟨h1, rfl⟩⟩
      · exact ⟨8, by rw [h1]; decide, Or.inr ⟨h1, rfl⟩⟩
    obtain ⟨P, hP1, hP2⟩ := hP
    have hvb : validBitsLastWord c = lastWordBytes c := by simp [validBitsLastWord, hne1]
    have hl4 : lastWordBytes c ≤ c.wb ∧ 1 ≤ lastWordBytes c := by
      unfold lastWordBytes
      rcases hwb with h1 | h1 | h1 <;> rw [h1] <;> split <;> omega
    have hwb4 : c.wb ≤ 4 := by omega
    have hleft : b + c.wb ≥ M → (M + 2 ^ c.mlw * P - b) % P = M - b ∧ 1 ≤ M - b ∧ M - b ≤ c.wb := by
      intro h
      generalize 2 ^ c.mlw = X
      rcases hP2 with ⟨h1, rfl⟩ | ⟨h1, rfl⟩ <;> omega
    simp only [validMask, hvne, if_false, onLast, endData, endMax, Nat.pow_add, hP1, hvb]
    rw [ones_lt _ _ (by omega : lastWordBytes c ≤ c.vw)]
    by_cases hd : p = nWords c - 1
    · by_cases hm : b + c.wb ≥ M
      · obtain ⟨g1, g2, g3⟩ := hleft hm
        simp only [hd, beq_self_eq_true, hm, decide_true, Bool.or_self, Bool.and_self, if_true, g1, g2, g3,
          and_self]
        rw [ones_and _ _ (by omega) (by omega)]
        congr 1; omega
      · have e2 : decide (b + c.wb ≥ M) = false := by simp; omega
        simp only [hd, beq_self_eq_true, e2, Bool.or_false, Bool.and_false, Bool.false_eq_true, if_true,
          if_false]
        congr 1; omega
    · have e1 : (p == nWords c - 1) = false := beq_eq_false_iff_ne.mpr hd
      by_cases hm : b + c.wb ≥ M
      · obtain ⟨g1, g2, g3⟩ := hleft hm
        simp only [e1, hm, decide_true, Bool.false_or, Bool.false_and, Bool.false_eq_true, if_true, if_false,
          g1, g2, g3, and_self, hd]
        congr 1; omega
      · have e2 : decide (b + c.wb ≥ M) = false := by simp; omega
        simp only [e1, e2, Bool.or_false, Bool.false_eq_true, if_false, hd, hvw]
        congr 1; omega

theorem onLast_of_iff (c : Config) (p b M : Nat) (Q : Prop) [Decidable Q]
    (h : (p = nWords c - 1 ∨ b + c.wb ≥ M) ↔ Q) : onLast c p b M = decide Q := by
  simp only [onLast, endData, endMax]
  by_cases hq : Q
  · rcases h.mpr hq with h' | h' <;> simp [hq, h']
  · have h1 : ¬ (p = nWords c - 1) := fun hh => hq (h.mp (Or.inl hh))
    have h2 : ¬ (b + c.wb ≥ M) := fun hh => hq (h.mp (Or.inr hh))
    simp [hq, h1, h2]

/-- Position, end condition, byte count and successor of word `k` of an emission from effective start `e`. -/
theorem posA_facts (c : Config) (hc : c.Valid) (sp M k : Nat) (hk : k < nXfersA c sp M) :
    let e := effStart c sp
    let p := posA c e k
    ((p = nWords c - 1 ∨ k * c.wb + c.wb ≥ M) ↔ k + 1 = nXfersA c sp M) ∧
    k * c.wb < M ∧
    min c.wb (min (M - k * c.wb) (if p = nWords c - 1 then lastWordBytes c else c.wb)) =
      min c.wb (budgetA c sp M - k * c.wb) ∧
    (k < lead c e → nWords c ≤ p) ∧ (¬ k < lead c e → p < nWords c ∧ p = base c e + (k - lead c e)) ∧
    p < posMod c ∧ (p = e ↔ k = 0) ∧
    (k + 1 < nXfersA c sp M →
      (k + 1) * c.wb < M ∧ k * c.wb + c.wb = (k + 1) * c.wb ∧ (p + 1) % posMod c = posA c e (k + 1)) := by
  intro e p
  have hcV := hc
  obtain ⟨hwb, hlen, hmlw, hvw⟩ := hc
  have hePW : e < posMod c := effStart_lt c hcV sp
  have hWPW := nWords_le_posMod c
  by_cases he : e < nWords c
  · have hlead : lead c e = 0 := by simp [lead, he]
    have hbase : base c e = e := by simp [base, he]
    have hp : p = e + k := by simp [p, posA, hlead, hbase]
    have hp1 : posA c e (k + 1) = e + k + 1 := by simp [posA, hlead, hbase]; omega
    have hB : budgetA c sp M = min M (c.data.length - e * c.wb) := by
      simp [budgetA, availA, hlead, hbase, e]
    obtain ⟨a1, a2, a3, a4, a5, a6⟩ := arithA_in c.wb c.data.length (nWords c) e M k (budgetA c sp M)
      (nXfersA c sp M) (lastWordBytes c) hwb hlen rfl he hB rfl hk rfl
    rw [hp, hlead, hp1]
    refine ⟨a2, a3, ?_, by omega, fun _ => ⟨a1, by rw [hbase]; omega⟩, by omega, by omega, ?_⟩
    · by_cases hd : e + k = nWords c - 1
      · rw [if_pos hd]; exact a4 hd
      · rw [if_neg hd]; exact a5 hd
    · intro h
      obtain ⟨b1, b2, b3⟩ := a6 h
      exact ⟨b1, b2, Nat.mod_eq_of_lt (by omega)⟩
  · have hlead : lead c e = posMod c - e := by simp [lead, he]
    have hbase : base c e = 0 := by simp [base, he]
    have hB : budgetA c sp M = min M ((posMod c - e) * c.wb + (c.data.length - 0 * c.wb)) := by
      simp [budgetA, availA, hlead, hbase, e]
    by_cases hkL : k < posMod c - e
    · have hp : p = e + k := by simp [p, posA, hlead, hkL]
      obtain ⟨a1, a2, a3, a4, a5, a6⟩ := arithA_lead c.wb c.data.length (nWords c) (posMod c) e M k
        (budgetA c sp M) (nXfersA c sp M) hwb hlen rfl hWPW hePW he hB rfl hk hkL
      rw [hp, hlead]
      refine ⟨⟨fun h => a3.mp (h.resolve_left a2), fun h => Or.inr (a3.mpr h)⟩, a4, ?_, fun _ => a1,
        fun h => absurd hkL h, by omega, by omega, ?_⟩
      · rw [if_neg a2]; exact a5
      · intro h
        obtain ⟨b1, b2, b3⟩ := a6 h
        refine ⟨b1, b2, ?_⟩
        rcases b3 with ⟨c1, c2⟩ | ⟨c1, c2, c3⟩
        · have : posA c e (k + 1) = e + (k + 1) := by simp [posA, hlead, c1]
          rw [this, Nat.mod_eq_of_lt (by omega)]; omega
        · have : posA c e (k + 1) = 0 := by simp [posA, hlead, hbase, c1, c3]
          rw [this, c2, Nat.mod_self]
    · have hp : p = k - (posMod c - e) := by simp [p, posA, hlead, hbase, hkL]
      obtain ⟨a1, a2, a3, a4, a5, a6⟩ := arithA_wrapped c.wb c.data.length (nWords c) (posMod c) e M k
        (budgetA c sp M) (nXfersA c sp M) (lastWordBytes c) hwb hlen rfl hWPW hePW he hB rfl hk hkL rfl
      rw [hp, hlead]
      refine ⟨a2, a3, ?_, fun h => absurd h hkL, fun _ => ⟨a1, by rw [hbase]; omega⟩, by omega, by omega, ?_⟩
      · by_cases hd : k - (posMod c - e) = nWords c - 1
        · rw [if_pos hd]; exact a4 hd
        · rw [if_neg hd]; exact a5 hd
      · intro h
        obtain ⟨b1, b2, b3, b4, b5⟩ := a6 h
        have : posA c e (k + 1) = k - (posMod c - e) + 1 := by simp [posA, hlead, hbase, b3, b4]
        rw [this]
        exact ⟨b1, b2, Nat.mod_eq_of_lt (by omega)⟩

theorem effStart_ne (c : Config) (sp : Nat) (h : sp ≠ effStart c sp) :
    c.data.length ≤ sp ∨ posMod c ≤ sp := by
  unfold effStart at h
  split at h
  · left; assumption
  · right
    apply Nat.le_of_not_lt
    intro hlt
    exact h (Nat.mod_eq_of_lt hlt).symm

/-- Everything the simulation needs about word `k` of an emission for start-position value `sp`. -/
theorem wordA (c : Config) (hc : c.Valid) (sp M k : Nat) (hk : k < nXfersA c sp M) (hM : M < 2 ^ c.mlw) :
    let p := posA c (effStart c sp) k
    onLast c p (k * c.wb) M = decide (k + 1 = nXfersA c sp M) ∧
    validMask c p (k * c.wb) M = (xferA c sp M k).valid ∧
    romRead c p = (xferA c sp M k).payload ∧
    (p == sp) = (xferA c sp M k).first ∧
    (k + 1 < nXfersA c sp M →
      (p + 1) % posMod c = posA c (effStart c sp) (k + 1) ∧ (k * c.wb + c.wb) % 2 ^ c.mlw = (k + 1) * c.wb) := by
  intro p
  obtain ⟨f1, f2, f3, f4, f5, f6, f7, f8⟩ := posA_facts c hc sp M k hk
  refine ⟨onLast_of_iff c _ _ _ _ f1, ?_, ?_, ?_, ?_⟩
  · rw [validMask_gen c hc _ _ _ f2]
    simp only [xferA]
    rw [f3]
  · simp only [xferA]
    by_cases hkl : k < lead c (effStart c sp)
    · rw [if_pos hkl]; exact romRead_oob c _ (f4 hkl)
    · obtain ⟨g1, g2⟩ := f5 hkl
      rw [if_neg hkl, romRead_eq c _ g1, g2]
  · simp only [xferA]
    by_cases hse : sp = effStart c sp
    · have : (sp == effStart c sp) = true := beq_iff_eq.mpr hse
      rw [this, Bool.and_true]
      by_cases h0 : k = 0
      · have := f7.mpr h0
        rw [beq_iff_eq.mpr h0, beq_iff_eq.mpr (by omega : posA c (effStart c sp) k = sp)]
      · have hne : ¬ (posA c (effStart c sp) k = effStart c sp) := fun hh => h0 (f7.mp hh)
        rw [beq_eq_false_iff_ne.mpr h0, beq_eq_false_iff_ne.mpr (by omega)]
    · have : (sp == effStart c sp) = false := beq_eq_false_iff_ne.mpr hse
      rw [this, Bool.and_false]
      apply beq_eq_false_iff_ne.mpr
      rcases effStart_ne c sp hse with h | h
      · -- clamped: e = words - 1 < words, so the position is within the words, below the byte length
        have he : effStart c sp = nWords c - 1 := by simp [effStart, h]
        have hW1 := nWords_pos c hc
        have hlead : lead c (effStart c sp) = 0 := by simp [lead, he]; omega
        have := (f5 (by omega)).1
        have := nWords_le_len c hc
        omega
      · omega
  · intro h
    obtain ⟨g1, g2, g3⟩ := f8 h
    refine ⟨g3, ?_⟩
    rw [g2, Nat.mod_eq_of_lt (by omega)]

theorem posA_zero (c : Config) (hc : c.Valid) (sp : Nat) : posA c (effStart c sp) 0 = effStart c sp := by
  have := effStart_lt c hc sp
  unfold posA lead base
  by_cases he : effStart c sp < nWords c
  · simp [he]
  · have : 0 < posMod c - effStart c sp := by omega
    simp [he, this]

theorem nXfersA_pos (c : Config) (hc : c.Valid) (sp M : Nat) (hM : 0 < M) : 0 < nXfersA c sp M := by
  have hlt := effStart_lt c hc sp
  obtain ⟨hwb, hlen, _, _⟩ := hc
  unfold nXfersA budgetA availA lead base
  generalize effStart c sp = e at *
  by_cases he : e < nWords c
  · simp only [he, if_true]
    unfold nWords at he
    generalize c.wb = wb at *
    rcases hwb with rfl | rfl | rfl <;> omega
  · simp only [he, if_false]
    generalize (posMod c - e) = L
    generalize c.wb = wb at *
    rcases hwb with rfl | rfl | rfl <;> omega

/-- One clock cycle, no hypothesis on the requested start position. -/
theorem step_simA (c : Config) (hc : c.Valid) (σ : State) (q : SpecA) (i : In) (hR : RA c σ q) (hE : EnvA c q i) :
    (step c σ i).2 = specOutA c q ∧ RA c (step c σ i).1 (specNextA c q i) := by
  obtain ⟨f, pos, bs, ml, rd⟩ := σ
  cases q with
  | idle m =>
    obtain ⟨hf, hm⟩ := hR
    simp only at hf hm; subst hf hm
    have hml : i.maxLength < 2 ^ c.mlw := hE
    refine ⟨by simp [step, specOutA, outLen_eq], ?_⟩
    have hes : (if i.startPosition ≥ c.data.length then nWords c - 1
        else i.startPosition % 2 ^ rangeWidth (nWords c)) = effStart c i.startPosition := rfl
    by_cases hgo : i.start = true ∧ 0 < i.maxLength
    · simp only [step, hes, specNextA, hgo, and_self, if_true, RA, decide_true, Bool.and_self,
        posA_zero c hc, Nat.zero_mul, true_and]
      exact ⟨nXfersA_pos c hc _ _ hgo.2, hml⟩
    · have : (i.start && decide (i.maxLength > 0)) = false := by
        cases hst : i.start <;> simp_all
      simp [step, specNextA, hgo, this, RA]
  | done m =>
    obtain ⟨hf, hm⟩ := hR
    simp only at hf hm; subst hf hm
    refine ⟨by simp [step, specOutA, outLen_eq], by simp [step, specNextA, RA]⟩
  | play sp M k =>
    obtain ⟨hf, hp, hb, hm, hr, hk, hM⟩ := hR
    simp only at hf hp hb hm hr; subst hf hp hb hr; subst hm
    have hE : i.startPosition = sp := hE
    obtain ⟨w1, w2, w3, w4, w5⟩ := wordA c hc sp ml k hk hM
    constructor
    · have hl2 : decide (k + 1 = nXfersA c sp ml) = (k + 1 == nXfersA c sp ml) := by
        by_cases h0 : k + 1 = nXfersA c sp ml <;> simp [h0]
      have hlast : (xferA c sp ml k).last = (k + 1 == nXfersA c sp ml) := rfl
      simp only [step, specOutA, w1, w2, w3, hE, w4, outLen_eq, hl2, hlast]
    · by_cases hrd : i.ready = true
      · by_cases hl : k + 1 = nXfersA c sp ml
        · simp [step, specNextA, w1, hrd, hl, RA]
        · have hk1 : k + 1 < nXfersA c sp ml := by omega
          obtain ⟨e2, e3⟩ := w5 hk1
          have e2' : (posA c (effStart c sp) k + 1) % 2 ^ rangeWidth (nWords c) =
              posA c (effStart c sp) (k + 1) := e2
          simp only [step, specNextA, w1, hrd, hl, decide_false, Bool.not_false, Bool.and_true,
            Bool.and_false, Bool.false_eq_true, if_true, if_false, e2', e3, RA, true_and]
          exact ⟨hk1, hM⟩
      · have hrd' : i.ready = false := by simpa using hrd
        simp only [step, specNextA, hrd', Bool.false_and, Bool.false_eq_true, if_false, RA, true_and]
        exact ⟨hk, hM⟩

theorem RA_init (c : Config) : RA c (init c) (.idle 0) := by simp [RA, init]

theorem run_simA (c : Config) (hc : c.Valid) (σ : State) (q : SpecA) (hR : RA c σ q) (hist : List In)
    (hE : EnvRunA c q hist) : run c σ hist = specRunA c q hist := by
  induction hist generalizing σ q with
  | nil => rfl
  | cons x xs ih =>
    obtain ⟨h1, h2⟩ := step_simA c hc σ q x hR hE.1
    simp only [run, specRunA]
    rw [h1, ih _ _ h2 hE.2]

/-- **emits_all_starts** (main theorem, no hypothesis on the start position): for every valid configuration and
every input history — any sequence of requests with ANY value on the `start_position` port (within the data,
beyond the last word, beyond the byte length, wider than the position register), any max_length, any ready
pattern — the ports of the generator are, cycle by cycle, those of the player of the words `xferA c sp M k`,
`k < nXfersA c sp M`. -/
theorem emits_all_starts (c : Config) (hc : c.Valid) (hist : List In) (hE : EnvRunA c (.idle 0) hist) :
    run c (init c) hist = specRunA c (.idle 0) hist :=
  run_simA c hc _ _ (RA_init c) hist hE

/-! ## What the words are, by region of the `start_position` value -/

theorem effStart_within (c : Config) (hc : c.Valid) (sp : Nat) (hs : sp < nWords c) : effStart c sp = sp := by
  have h1 := nWords_le_len c hc
  have h2 := nWords_le_posMod c
  unfold effStart
  rw [if_neg (by omega), Nat.mod_eq_of_lt (by omega)]

/-- **within_data_is_slice**: for a start position within the data (in words) the emission is exactly the slice
of `emits_slice`: same number of words, same words. -/
theorem within_data_is_slice (c : Config) (hc : c.Valid) (sp M : Nat) (hs : sp < nWords c) :
    nXfersA c sp M = nXfers c sp M ∧ budgetA c sp M = budget c sp M ∧ ∀ k, xferA c sp M k = xfer c sp M k := by
  have he := effStart_within c hc sp hs
  have hB : budgetA c sp M = budget c sp M := by simp [budgetA, budget, availA, lead, base, he, hs]
  have hN : nXfersA c sp M = nXfers c sp M := by simp [nXfersA, nXfers, hB]
  refine ⟨hN, hB, fun k => ?_⟩
  simp [xferA, xfer, he, lead, base, hs, hB, hN]

/-- **beyond_len_emits_last_word** (the clamp): a `start_position` at or beyond the BYTE length makes the
generator emit exactly ONE word — the LAST word of the constant — with `last` set and `first` NOT set; with
per-byte valid bits it marks `min(max_length, bytes in the last word)` bytes. -/
theorem beyond_len_emits_last_word (c : Config) (hc : c.Valid) (sp M : Nat) (hs : c.data.length ≤ sp) (hM : 0 < M) :
    nXfersA c sp M = 1 ∧
    xferA c sp M 0 = ⟨wordOf c.big ((c.data.drop ((nWords c - 1) * c.wb)).take c.wb),
      if c.vw = 1 then 1 else ones (min M (lastWordBytes c)), false, true⟩ := by
  have hW1 := nWords_pos c hc
  have hWl := nWords_le_len c hc
  have he : effStart c sp = nWords c - 1 := by simp [effStart, hs]
  have heW : nWords c - 1 < nWords c := by omega
  obtain ⟨hwb, hlen, _, _⟩ := hc
  have hav : availA c (nWords c - 1) = lastWordBytes c := by
    have key : ∀ wb len : Nat, (wb = 1 ∨ wb = 2 ∨ wb = 4) → 1 ≤ len →
        0 * wb + (len - ((len + wb - 1) / wb - 1) * wb) = if len % wb = 0 then wb else len % wb := by
      intro wb len h hl
      rcases h with rfl | rfl | rfl <;> split <;> omega
    simp only [availA, lead, base, if_pos heW]
    exact key c.wb c.data.length hwb hlen
  have hl : 1 ≤ lastWordBytes c ∧ lastWordBytes c ≤ c.wb := by
    unfold lastWordBytes
    generalize c.wb = wb at *
    rcases hwb with rfl | rfl | rfl <;> split <;> omega
  have hB : budgetA c sp M = min M (lastWordBytes c) := by simp [budgetA, he, hav]
  have hN : nXfersA c sp M = 1 := by
    rw [nXfersA, hB]
    generalize lastWordBytes c = v at *
    generalize c.wb = wb at *
    rcases hwb with rfl | rfl | rfl <;> omega
  refine ⟨hN, ?_⟩
  have hne : (sp == nWords c - 1) = false := beq_eq_false_iff_ne.mpr (by omega)
  have hmin : min c.wb (min M (lastWordBytes c)) = min M (lastWordBytes c) := by omega
  simp [xferA, he, lead, base, heW, hB, hN, hne, hmin]

/-- **beyond_data_not_the_slice**: for every start position at or beyond the last word the requested slice
`data[sp·wb ..]` is empty, yet a request with a non-zero length limit makes the generator emit at least one
word: "emits exactly the requested slice" does NOT extend beyond the data — the generator clamps (or wraps). -/
theorem beyond_data_not_the_slice (c : Config) (hc : c.Valid) (sp M : Nat) (hs : nWords c ≤ sp) (hM : 0 < M) :
    xfers c sp M = [] ∧ xfersA c sp M ≠ [] := by
  have hpos := nXfersA_pos c hc sp M hM
  obtain ⟨hwb, hlen, _, _⟩ := hc
  have h0 : nXfers c sp M = 0 := by
    unfold nXfers budget
    unfold nWords at hs
    generalize c.wb = wb at *
    rcases hwb with rfl | rfl | rfl <;> omega
  constructor
  · simp [xfers, h0]
  · intro h
    have : (xfersA c sp M).length = nXfersA c sp M := by simp [xfersA]
    rw [h] at this
    simp at this; omega

/-- **first_iff**: `first` is flagged on word 0, and only if the port value survived clamp and truncation
(`sp < len(data)` and `sp < posMod`); a clamped or truncated start position never shows `first`. -/
theorem first_iff (c : Config) (hc : c.Valid) (sp M k : Nat) :
    (xferA c sp M k).first = true ↔ k = 0 ∧ sp < c.data.length ∧ sp < posMod c := by
  have hW1 := nWords_pos c hc
  have hWl := nWords_le_len c hc
  simp only [xferA, Bool.and_eq_true, beq_iff_eq]
  constructor
  · rintro ⟨h0, he⟩
    refine ⟨h0, ?_⟩
    unfold effStart at he
    split at he
    · rename_i h; omega
    · rename_i h
      have : sp % posMod c < posMod c := Nat.mod_lt _ (Nat.two_pow_pos _)
      omega
  · rintro ⟨h0, h1, h2⟩
    refine ⟨h0, ?_⟩
    unfold effStart
    rw [if_neg (by omega), Nat.mod_eq_of_lt h2]

/-- **unclamped_beyond_words**: a start position beyond the last word that is below the byte length and fits the
position register (multi-byte words only) is NOT clamped: the generator emits `posMod - sp` all-zero words
(out-of-range ROM addresses), then the constant from its beginning, the whole limited to `max_length`. -/
theorem unclamped_beyond_words (c : Config) (sp M k : Nat) (h1 : nWords c ≤ sp) (h2 : sp < c.data.length)
    (h3 : sp < posMod c) :
    budgetA c sp M = min M ((posMod c - sp) * c.wb + c.data.length) ∧
    xferA c sp M k = ⟨if k < posMod c - sp then 0
        else wordOf c.big ((c.data.drop ((k - (posMod c - sp)) * c.wb)).take c.wb),
      if c.vw = 1 then 1 else ones (min c.wb (budgetA c sp M - k * c.wb)), k == 0, k + 1 == nXfersA c sp M⟩ := by
  have he : effStart c sp = sp := by
    unfold effStart
    rw [if_neg (by omega), Nat.mod_eq_of_lt h3]
  have hn : ¬ sp < nWords c := by omega
  constructor
  · simp [budgetA, availA, lead, base, he, hn]
  · simp [xferA, lead, base, he, hn]

/-- **first_last_flags_all**: for every start-position value, `last` is on the final word `N-1` only, and `first`
on word 0 only (and only for an unclamped, untruncated start position). -/
theorem first_last_flags_all (c : Config) (hc : c.Valid) (sp M k : Nat) :
    ((xferA c sp M k).first = true ↔ k = 0 ∧ sp < c.data.length ∧ sp < posMod c) ∧
    (xferA c sp M k).last = (k + 1 == nXfersA c sp M) :=
  ⟨first_iff c hc sp M k, rfl⟩

/-- **valid_mask_partial_word_all**: for every start-position value, every word before the final one has all `wb`
valid bits set, the final word exactly the remaining `1..wb` bytes of `budgetA = min(max_length, bytes playable)`. -/
theorem valid_mask_partial_word_all (c : Config) (hc : c.Valid) (hv : c.vw ≠ 1) (sp M k : Nat)
    (hk : k < nXfersA c sp M) :
    (k + 1 < nXfersA c sp M → (xferA c sp M k).valid = ones c.wb) ∧
    (k + 1 = nXfersA c sp M → (xferA c sp M k).valid = ones (budgetA c sp M - k * c.wb) ∧
      1 ≤ budgetA c sp M - k * c.wb ∧ budgetA c sp M - k * c.wb ≤ c.wb ∧
      k * c.wb + (budgetA c sp M - k * c.wb) = budgetA c sp M) := by
  obtain ⟨hwb, _, _, _⟩ := hc
  simp only [xferA, hv, if_false]
  unfold nXfersA at hk ⊢
  generalize budgetA c sp M = B at *
  generalize c.wb = wb at *
  constructor
  · intro h
    have : min wb (B - k * wb) = wb := by rcases hwb with rfl | rfl | rfl <;> omega
    rw [this]
  · intro h
    have : min wb (B - k * wb) = B - k * wb := by rcases hwb with rfl | rfl | rfl <;> omega
    rw [this]
    refine ⟨rfl, ?_⟩
    rcases hwb with rfl | rfl | rfl <;> omega

/-- **done_once_all**: `done` is high exactly in the player's `done` phase, which lasts one cycle, is entered only by
taking the final word of an emission, and is followed by idle — for every start-position value. -/
theorem done_once_all (c : Config) (q : SpecA) (i : In) :
    ((specOutA c q).done = true ↔ ∃ m, q = .done m) ∧
    (∀ m, q = .done m → specNextA c q i = .idle m) ∧
    (∀ m, specNextA c q i = .done m ↔ ∃ sp k, q = .play sp m k ∧ i.ready = true ∧ k + 1 = nXfersA c sp m) := by
  refine ⟨?_, ?_, ?_⟩
  · cases q <;> simp [specOutA]
  · rintro m rfl; rfl
  · intro m
    cases q with
    | idle m' => simp only [specNextA]; split <;> simp
    | done m' => simp [specNextA]
    | play s M k =>
      constructor
      · intro h
        simp only [specNextA] at h
        by_cases hr : i.ready = true
        · by_cases hl : k + 1 = nXfersA c s M
          · simp [hr, hl] at h; subst h; exact ⟨s, k, rfl, hr, hl⟩
          · simp [hr, hl] at h
        · simp [hr] at h
      · rintro ⟨s', k', hq, hr, hl⟩
        injection hq with h1 h2 h3
        subst h1 h2 h3
        simp [specNextA, hr, hl]

/-! ## StreamSerializer for every `start_position` value

`self.start_position` is `Signal(range(data_length))`, as wide as the position register (no truncation); the clamp
`start_position >= data_length → data_length - 1` is reachable when `data_length` is not a power of two. -/

/-- the internal `start_position` of the serializer -/
def serEff (c : SerConfig) (sp : Nat) : Nat := if sp ≥ c.n then c.n - 1 else sp

def serCountA (c : SerConfig) (sp M : Nat) : Nat := min M (c.n - serEff c sp)

inductive SerSpecA
  | idle
  | play (sp M k : Nat)
  | done
deriving DecidableEq, Repr

def serSpecOutA (c : SerConfig) : SerSpecA → SerIn → SerOut
  | .idle, _ => ⟨false, 0, false, false, false⟩
  | .play sp M k, i =>
    ⟨true, (match i.data[serEff c sp + k]? with | some v => v | none => i.data.getLastD 0),
     k == 0 && decide (sp < c.n), k + 1 == serCountA c sp M, false⟩
  | .done, _ => ⟨false, 0, false, false, true⟩

def serSpecNextA (c : SerConfig) : SerSpecA → SerIn → SerSpecA
  | .idle, i => if i.start = true ∧ 0 < serLimit c i then .play i.startPosition (serLimit c i) 0 else .idle
  | .play sp M k, i => if i.ready then (if k + 1 = serCountA c sp M then .done else .play sp M (k + 1)) else .play sp M k
  | .done, _ => .idle

def serSpecRunA (c : SerConfig) : SerSpecA → List SerIn → List SerOut
  | _, [] => []
  | q, x :: xs => serSpecOutA c q x :: serSpecRunA c (serSpecNextA c q x) xs

/-- Environment of the serializer WITHOUT a restriction on the requested start position. -/
def SerEnvA (c : SerConfig) : SerSpecA → SerIn → Prop
  | .idle, i => i.maxLength < 2 ^ c.mlw
  | .play sp M _, i => i.startPosition = sp ∧ serLimit c i = M
  | .done, _ => True

def SerEnvRunA (c : SerConfig) : SerSpecA → List SerIn → Prop
  | _, [] => True
  | q, x :: xs => SerEnvA c q x ∧ SerEnvRunA c (serSpecNextA c q x) xs

def SerRA (c : SerConfig) (σ : SerState) : SerSpecA → Prop
  | .idle => σ.fsm = .idle
  | .done => σ.fsm = .done
  | .play sp M k => σ.fsm = .streaming ∧ σ.pos = serEff c sp + k ∧ σ.bytesSent = k ∧ k < serCountA c sp M ∧
      M < 2 ^ serCountWidth c

theorem serEff_lt (c : SerConfig) (hn : 1 ≤ c.n) (sp : Nat) : serEff c sp < c.n := by
  unfold serEff; split <;> omega

theorem ser_step_simA (c : SerConfig) (hn : 1 ≤ c.n) (σ : SerState) (q : SerSpecA) (i : SerIn)
    (hR : SerRA c σ q) (hE : SerEnvA c q i) :
    (serStep c σ i).2 = serSpecOutA c q i ∧ SerRA c (serStep c σ i).1 (serSpecNextA c q i) := by
  obtain ⟨f, pos, bs⟩ := σ
  cases q with
  | idle =>
    have hf : f = .idle := hR
    subst hf
    have hml : i.maxLength < 2 ^ c.mlw := hE
    refine ⟨by simp [serStep, serSpecOutA], ?_⟩
    have hlim : (if c.mlw != 0 then i.maxLength else c.n) = serLimit c i := rfl
    have hes : (if i.startPosition ≥ c.n then c.n - 1 else i.startPosition) = serEff c i.startPosition := rfl
    by_cases hgo : i.start = true ∧ 0 < serLimit c i
    · have he := serEff_lt c hn i.startPosition
      simp only [serStep, hlim, hes, serSpecNextA, hgo, and_self, if_true, SerRA,
        decide_true, Bool.and_self, Nat.add_zero, true_and]
      refine ⟨?_, serLimit_lt c i hml hn⟩
      unfold serCountA; omega
    · have : (i.start && decide (serLimit c i > 0)) = false := by
        cases hst : i.start <;> simp_all
      simp only [serStep, hlim, serSpecNextA, hgo, this, if_false, SerRA, Bool.false_eq_true]
  | done =>
    have hf : f = .done := hR
    subst hf
    exact ⟨by simp [serStep, serSpecOutA], by simp [serStep, serSpecNextA, SerRA]⟩
  | play sp M k =>
    obtain ⟨hf, hp, hb, hk, hM⟩ := hR
    simp only at hf hp hb
    have hb' := hb.symm
    subst hf hp hb'
    obtain ⟨hsp, hlimM⟩ := hE
    have hlim : (if c.mlw != 0 then i.maxLength else c.n) = M := hlimM
    have he := serEff_lt c hn sp
    generalize hs : serEff c sp = s at *
    have hlast : ((s + k == c.n - 1) || (decide (M ≥ 1) && (k == M - 1))) = decide (k + 1 = serCountA c sp M) := by
      unfold serCountA at hk ⊢
      rw [hs] at hk ⊢
      by_cases h : k + 1 = min M (c.n - s)
      · by_cases h1 : s + k = c.n - 1
        · simp [h, h1]
        · have a : (s + k == c.n - 1) = false := beq_eq_false_iff_ne.mpr h1
          have b : (k == M - 1) = true := beq_iff_eq.mpr (by omega)
          have d : decide (M ≥ 1) = true := decide_eq_true (by omega)
          rw [a, b, d, decide_eq_true h]; rfl
      · have h1 : ¬ (s + k = c.n - 1) := by omega
        have h2 : ¬ (k = M - 1) := by omega
        simp [h, h1, h2]
    have hkn : s + k < c.n := by unfold serCountA at hk; rw [hs] at hk; omega
    have hfirst : (s + k == sp) = (k == 0 && decide (sp < c.n)) := by
      by_cases hin : sp < c.n
      · have : s = sp := by rw [← hs]; simp [serEff]; omega
        subst this
        by_cases h0 : k = 0
        · subst h0; simp [hin]
        · have a : (s + k == s) = false := beq_eq_false_iff_ne.mpr (by omega)
          have b : (k == 0) = false := beq_eq_false_iff_ne.mpr h0
          rw [a, b]; rfl
      · have a : (s + k == sp) = false := beq_eq_false_iff_ne.mpr (by omega)
        rw [a, decide_eq_false hin, Bool.and_false]
    have hl2 : decide (k + 1 = serCountA c sp M) = (k + 1 == serCountA c sp M) := by
      by_cases h0 : k + 1 = serCountA c sp M <;> simp [h0]
    constructor
    · simp only [serStep, hlim, hlast, serSpecOutA, hsp, hfirst, hl2, hs]
      rfl
    · by_cases hrd : i.ready = true
      · by_cases hl : k + 1 = serCountA c sp M
        · simp only [serStep, hlim, hlast, serSpecNextA, hrd, hl, decide_true, Bool.and_self,
            if_true, SerRA]
        · have hk1 : k + 1 < serCountA c sp M := by omega
          have hk1' : k + 1 < min M (c.n - s) := by unfold serCountA at hk1; rw [hs] at hk1; exact hk1
          have hP := le_two_pow_rangeWidth c.n
          have e2 : (s + k + 1) % 2 ^ rangeWidth c.n = s + (k + 1) := by
            rw [Nat.mod_eq_of_lt (by omega)]; omega
          have e3 : (k + 1) % 2 ^ serCountWidth c = k + 1 := by
            rw [Nat.mod_eq_of_lt (by omega)]
          simp only [serStep, hlim, hlast, serSpecNextA, hrd, hl, decide_false, Bool.not_false, Bool.and_true,
            Bool.and_false, Bool.false_eq_true, if_true, if_false, e2, e3, SerRA, hs, true_and]
          exact ⟨hk1, hM⟩
      · have hrd' : i.ready = false := by simpa using hrd
        simp only [serStep, serSpecNextA, hrd', Bool.false_and, Bool.false_eq_true, if_false, SerRA, hs, true_and]
        exact ⟨hk, hM⟩

theorem ser_run_simA (c : SerConfig) (hn : 1 ≤ c.n) (σ : SerState) (q : SerSpecA) (hR : SerRA c σ q)
    (hist : List SerIn) (hE : SerEnvRunA c q hist) : serRun c σ hist = serSpecRunA c q hist := by
  induction hist generalizing σ q with
  | nil => rfl
  | cons x xs ih =>
    obtain ⟨h1, h2⟩ := ser_step_simA c hn σ q x hR hE.1
    simp only [serRun, serSpecRunA]
    rw [h1, ih _ _ h2 hE.2]

/-- **serializer_emits_all_starts**: the serializer for every array length `n ≥ 1` and ANY value on the
`start_position` port: with `e = sp` for `sp < n` and `e = n - 1` otherwise (the clamp), the ports are those of the
player of `data[e], data[e+1], …` (`min(max_length, n - e)` words), `last` on the final one, `first` on the first one
ONLY for `sp < n`, then one cycle of `done`.  For `sp ≥ n` that is the single word `data[n-1]` without `first` —
not the (empty) requested slice. -/
theorem serializer_emits_all_starts (c : SerConfig) (hn : 1 ≤ c.n) (hist : List SerIn)
    (hE : SerEnvRunA c .idle hist) : serRun c serInit hist = serSpecRunA c .idle hist :=
  ser_run_simA c hn _ _ (by simp [SerRA, serInit]) hist hE

/-- within the array the serializer's general player is the one of `serializer_emits_slice` -/
theorem ser_within_is_slice (c : SerConfig) (sp M k : Nat) (hs : sp < c.n) (i : SerIn) :
    serCountA c sp M = serCount c sp M ∧ serSpecOutA c (.play sp M k) i = serSpecOut c (.play sp M k) i := by
  have he : serEff c sp = sp := by simp [serEff]; omega
  have hc : serCountA c sp M = serCount c sp M := by simp [serCountA, serCount, he]
  exact ⟨hc, by simp [serSpecOutA, serSpecOut, he, hc, hs]; rfl⟩

/-- beyond the array: one word, the last element, never `first` -/
theorem ser_beyond_emits_last (c : SerConfig) (hn : 1 ≤ c.n) (sp M : Nat) (hs : c.n ≤ sp) (hM : 0 < M) (i : SerIn) :
    serCountA c sp M = 1 ∧ serCount c sp M = 0 ∧
    serSpecOutA c (.play sp M 0) i =
      ⟨true, (match i.data[c.n - 1]? with | some v => v | none => i.data.getLastD 0), false, true, false⟩ := by
  have he : serEff c sp = c.n - 1 := by simp [serEff, hs]
  have hc : serCountA c sp M = 1 := by simp [serCountA, he]; omega
  have hn' : ¬ sp < c.n := by omega
  exact ⟨hc, by simp [serCount]; omega, by simp [serSpecOutA, he, hc, hn']⟩

/-! ## Non-vacuity and the concrete shapes (17 bytes in 32-bit words: 5 words, 3-bit position, 5-bit port) -/

def c17 : Config := ⟨[1, 2, 3, 4, 5, 6, 7, 8, 9, 10, 11, 12, 13, 14, 15, 16, 17], 4, false, 8, 4⟩

-- within the data: the slice
example : xfersA c17 3 200 = [⟨0x100f0e0d, 0xF, true, false⟩, ⟨0x11, 0x1, false, true⟩] := by decide
-- beyond the last word, below the byte length, fits the position register: 3 zero words, then the whole constant
example : (xfersA c17 5 200).map (fun x => (x.payload, x.valid, x.first, x.last)) =
    [(0, 0xF, true, false), (0, 0xF, false, false), (0, 0xF, false, false), (0x04030201, 0xF, false, false),
     (0x08070605, 0xF, false, false), (0x0c0b0a09, 0xF, false, false), (0x100f0e0d, 0xF, false, false),
     (0x11, 0x1, false, true)] := by decide
-- ... limited to max_length, which counts the zero words too
example : (xfersA c17 6 10).map (fun x => (x.payload, x.valid, x.first, x.last)) =
    [(0, 0xF, true, false), (0, 0xF, false, false), (0x04030201, 0x3, false, true)] := by decide
-- truncated: 16 = 0b10000 -> 0: the whole constant, `first` never flagged
example : (xfersA c17 16 6).map (fun x => (x.payload, x.valid, x.first, x.last)) =
    [(0x04030201, 0xF, false, false), (0x08070605, 0x3, false, true)] := by decide
-- clamped (>= 17): the last word only, no `first`
example : xfersA c17 17 200 = [⟨0x11, 0x1, false, true⟩] ∧ xfersA c17 31 200 = [⟨0x11, 0x1, false, true⟩] := by decide
-- byte stream of 5 bytes, start_position 6 (3-bit port): the last byte, not the empty slice
example : (run ⟨[1, 2, 3, 4, 5], 1, false, 8, 1⟩ (init ⟨[1, 2, 3, 4, 5], 1, false, 8, 1⟩)
    [⟨true, 6, 3, false⟩, ⟨false, 6, 0, false⟩, ⟨false, 6, 0, true⟩, ⟨false, 6, 0, true⟩, ⟨false, 0, 0, true⟩]).map
      (fun o => (o.valid, o.payload, o.first, o.last, o.done)) =
    [(0, 0, false, false, false), (1, 5, false, true, false), (1, 5, false, true, false),
     (0, 0, false, false, true), (0, 0, false, false, false)] := by decide
example : EnvRunA ⟨[1, 2, 3, 4, 5], 1, false, 8, 1⟩ (.idle 0)
    [⟨true, 6, 3, false⟩, ⟨false, 6, 0, false⟩, ⟨false, 6, 0, true⟩, ⟨false, 6, 0, true⟩, ⟨false, 0, 0, true⟩] := by
  have h : nXfersA ⟨[1, 2, 3, 4, 5], 1, false, 8, 1⟩ 6 3 = 1 := by decide
  simp [EnvRunA, EnvA, specNextA, h]

-- serializer, n = 3 (2-bit port), start_position 3: data[2] only, `first` not flagged; the history satisfies SerEnvRunA
example : (serRun ⟨3, 4⟩ serInit
    [⟨true, 3, 2, false, [7, 8, 9]⟩, ⟨false, 3, 2, false, [7, 8, 9]⟩, ⟨false, 3, 2, true, [7, 8, 9]⟩,
     ⟨false, 3, 2, true, [7, 8, 9]⟩]).map (fun o => (o.valid, o.payload, o.first, o.last, o.done)) =
    [(false, 0, false, false, false), (true, 9, false, true, false), (true, 9, false, true, false),
     (false, 0, false, false, true)] := by decide
example : SerEnvRunA ⟨3, 4⟩ .idle
    [⟨true, 3, 2, false, [7, 8, 9]⟩, ⟨false, 3, 2, false, [7, 8, 9]⟩, ⟨false, 3, 2, true, [7, 8, 9]⟩,
     ⟨false, 3, 2, true, [7, 8, 9]⟩] := by
  simp [SerEnvRunA, SerEnvA, serSpecNextA, serLimit, serCountA, serEff]

end LunaVerif.StreamGen
