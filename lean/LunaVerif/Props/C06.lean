import LunaVerif.Model.Usb2.SetupDecoder
/-!
# C06 — SETUP requests are decoded exactly and survive earlier corrupted packets

"The control endpoint reports a new setup request iff a SETUP token addressed to the device's
control endpoint is followed by a CRC-valid data packet of exactly 8 bytes, and the reported
request type, request, value, index and length equal those bytes (little-endian); the SETUP is
acknowledged once, no earlier than the inter-packet gap.  A preceding corrupted, aborted or
unrelated packet never causes a later valid SETUP transaction to be missed."

The model (`Model/Usb2/SetupDecoder.lean`) is the repaired gateware (F2, F2b, F24).  Histories are
rendered packet lists (`Core/Utmi.lean`): arbitrary bytes, lengths, wait cycles, don't-care data.

Environment assumptions, explicit in the theorems:
* `p.wf` for every packet (≥ 1 lead-in cycle, ≥ 1 idle cycle afterwards);
* `gapOk c p`: a packet that starts with a data PID is followed by ≥ delay + 3 idle cycles (the host
  waits for the handshake); every other packet may be followed by a single idle cycle;
* `c.delay ≤ c.counterMax + 1`; bytes of the SETUP data packet are 8-bit values.
-/
namespace LunaVerif.SetupDecoder
open LunaVerif.Utmi LunaVerif.DataCrc LunaVerif.Crc

/-- What an observer of the decoder's ports sees. -/
inductive Event
  | received (requestType request value index length : Nat)   -- `packet.received` with the fields
  | ack                                                        -- `ack`
deriving Repr, DecidableEq

/-- the registered `received` strobe held in a state (on the port in the next cycle) -/
def latched (s : State) : List Event :=
  if s.dec.received then [.received s.dec.requestType s.dec.request s.dec.value s.dec.index s.dec.length] else []

def outEvents (o : Out) : List Event :=
  (if o.received then [.received o.requestType o.request o.value o.index o.length] else []) ++
  (if o.ack then [.ack] else [])

/-- Everything observed on the ports during a history, in cycle order. -/
def observed (c : Config) (s : State) (h : List RxCycle) : List Event := (run c s h).flatMap outEvents

/-- Events caused by one cycle: its combinational `ack`, then the `received` strobe its clock edge latches. -/
def stepEvents (c : Config) (s : State) (i : RxCycle) : List Event :=
  (if (step c s i).2.ack then [.ack] else []) ++ latched (step c s i).1

def trace (c : Config) : State → List RxCycle → List Event
  | _, [] => []
  | s, i :: is => stepEvents c s i ++ trace c (step c s i).1 is

def gapOk (c : Config) (p : RxPacket) : Prop :=
  (∃ pid rest, p.bytes = pid :: rest ∧ isDataPid pid = true) → c.delay + 3 ≤ p.gap.length

/-! ## Bookkeeping -/

theorem trace_append (c : Config) (s : State) (h1 h2 : List RxCycle) :
    trace c s (h1 ++ h2) = trace c s h1 ++ trace c (final c s h1) h2 := by
  induction h1 generalizing s with
  | nil => rfl
  | cons i is ih => simp [trace, final, ih]

theorem final_append (c : Config) (s : State) (h1 h2 : List RxCycle) :
    final c s (h1 ++ h2) = final c (final c s h1) h2 := by
  induction h1 generalizing s with
  | nil => rfl
  | cons i is ih => simp [final, ih]

theorem observed_trace (c : Config) (s : State) (h : List RxCycle) :
    observed c s h ++ latched (final c s h) = latched s ++ trace c s h := by
  induction h generalizing s with
  | nil => simp [observed, run, final, trace]
  | cons i is ih =>
    have := ih (step c s i).1
    simp only [observed] at this
    simp only [observed, run, final, trace, List.flatMap_cons, List.append_assoc, this]
    simp [outEvents, stepEvents, step, latched]
    rfl

/-! ## Packet boundaries -/

/-- The state at a packet boundary of a legal history: token detector and deserializer in IDLE, no
deserializer strobe pending, decoder not waiting for the timer.  Everything else is arbitrary
(stale buffers and CRC snapshots, any CRC register, any timer count, a token strobe may still be
latched, the decoder may be in IDLE or READ_DATA). -/
structure Boundary (s : State) : Prop where
  tok   : s.tok.fsm = .idle
  ds    : s.ds.fsm = .idle
  noPkt : s.ds.newPacket = false
  dec   : s.dec.fsm ≠ .delay
  apLen : s.ds.activePacket.length = 10

/-- no deserializer strobe pending and the decoder not in INTERPACKET_DELAY -/
def Calm (s : State) : Prop := s.ds.newPacket = false ∧ s.dec.fsm ≠ .delay

theorem calm_no_events (c : Config) (s : State) (i : RxCycle) (h : Calm s) : stepEvents c s i = [] := by
  obtain ⟨h1, h2⟩ := h
  cases hf : s.dec.fsm <;> simp_all [stepEvents, step, decStep, latched]
  split <;> simp

theorem calm_active (c : Config) (s : State) (i : RxCycle) (ha : i.active = true) (h : Calm s) :
    Calm (step c s i).1 := by
  obtain ⟨h1, h2⟩ := h
  constructor
  · cases hf : s.ds.fsm <;> simp [step, deserStep, hf, ha] <;> (repeat' split) <;> simp
  · cases hf : s.dec.fsm <;> simp_all [step, decStep]
    · split <;> simp
    · split <;> simp

theorem apLen_step (c : Config) (s : State) (i : RxCycle) (h : s.ds.activePacket.length = 10) :
    (step c s i).1.ds.activePacket.length = 10 := by
  cases hf : s.ds.fsm <;> simp [step, deserStep, hf] <;> (repeat' split) <;> simp [h]

/-- a whole run of `rx_active` cycles keeps the decoder calm and causes nothing -/
theorem calm_active_run (c : Config) (h : List RxCycle) (s : State) (ha : ∀ i ∈ h, i.active = true)
    (hs : Calm s) : trace c s h = [] ∧ Calm (final c s h) := by
  induction h generalizing s with
  | nil => exact ⟨rfl, hs⟩
  | cons i is ih =>
    have h1 := calm_active c s i (ha i (by simp)) hs
    obtain ⟨h2, h3⟩ := ih _ (fun j hj => ha j (by simp [hj])) h1
    simp [trace, final, calm_no_events c s i hs, h2, h3]

theorem apLen_run (c : Config) (h : List RxCycle) (s : State) (hs : s.ds.activePacket.length = 10) :
    (final c s h).ds.activePacket.length = 10 := by
  induction h generalizing s with
  | nil => exact hs
  | cons i is ih => exact ih _ (apLen_step c s i hs)

theorem renderSlots_active (sl : List (Nat × List Nat)) : ∀ i ∈ renderSlots sl, i.active = true := by
  induction sl with
  | nil => simp [renderSlots]
  | cons x rest ih =>
    obtain ⟨b, ws⟩ := x
    intro i hi
    simp only [renderSlots, List.mem_cons, List.mem_append, List.mem_map] at hi
    rcases hi with rfl | ⟨d, _, rfl⟩ | hi
    · rfl
    · rfl
    · exact ih i hi

/-- The first idle cycle after a packet: token detector and deserializer are back in IDLE whatever
they were doing (this is where the F2 repair matters), the decoder still is not in
INTERPACKET_DELAY; a deserializer strobe can only be latched out of CAPTURE_DATA. -/
theorem first_idle (c : Config) (s : State) (g : Nat) (h : Calm s) :
    (step c s (idleC g)).1.tok.fsm = .idle ∧ (step c s (idleC g)).1.ds.fsm = .idle ∧
    (step c s (idleC g)).1.dec.fsm ≠ .delay ∧
    (s.ds.fsm ≠ .capture → (step c s (idleC g)).1.ds.newPacket = false) := by
  obtain ⟨h1, h2⟩ := h
  refine ⟨?_, ?_, ?_, ?_⟩
  · cases hf : s.tok.fsm <;> simp [step, tokStep, hf, idleC] <;> (repeat' split) <;> simp
  · cases hf : s.ds.fsm <;> simp [step, deserStep, hf, idleC] <;> (repeat' split) <;> simp
  · cases hf : s.dec.fsm <;> simp_all [step, decStep]
    · split <;> simp
    · split <;> simp
  · intro hne
    cases hf : s.ds.fsm <;> simp_all [step, deserStep, idleC]

/-- Idle cycles at a boundary keep the boundary and cause nothing. -/
theorem boundary_idle (c : Config) (s : State) (g : Nat) (h : Boundary s) :
    Boundary (step c s (idleC g)).1 ∧ stepEvents c s (idleC g) = [] := by
  refine ⟨⟨?_, ?_, ?_, ?_, apLen_step c s _ h.apLen⟩, calm_no_events c s _ ⟨h.noPkt, h.dec⟩⟩
  · simp [step, tokStep, h.tok, idleC]
  · simp [step, deserStep, h.ds, idleC]
  · simp [step, deserStep, h.ds, idleC]
  · exact (first_idle c s g ⟨h.noPkt, h.dec⟩).2.2.1

theorem boundary_idles (c : Config) (gs : List Nat) (s : State) (h : Boundary s) :
    trace c s (gs.map idleC) = [] ∧ Boundary (final c s (gs.map idleC)) := by
  induction gs generalizing s with
  | nil => exact ⟨rfl, h⟩
  | cons g gs ih =>
    obtain ⟨h1, h2⟩ := boundary_idle c s g h
    obtain ⟨h3, h4⟩ := ih _ h1
    simp [trace, final, h2, h3, h4]

/-- With the line idle, token detector and deserializer idle and no strobe pending, a decoder
that is in INTERPACKET_DELAY leaves it once the timer reaches the delay: after enough idle
cycles the state is a boundary again. -/
theorem settle (c : Config) (hc : c.delay ≤ c.counterMax + 1) (gs : List Nat) (s : State)
    (ht : s.tok.fsm = .idle) (hd : s.ds.fsm = .idle) (hn : s.ds.newPacket = false)
    (hl : s.ds.activePacket.length = 10)
    (hk : s.dec.fsm = .delay → s.counter ≤ c.delay ∧ c.delay - s.counter + 1 ≤ gs.length) :
    Boundary (final c s (gs.map idleC)) := by
  induction gs generalizing s with
  | nil =>
    refine ⟨ht, hd, hn, ?_, hl⟩
    intro h; have := (hk h).2; simp at this
  | cons g gs ih =>
    have h1 : (step c s (idleC g)).1.tok.fsm = .idle := by simp [step, tokStep, ht, idleC]
    have h2 : (step c s (idleC g)).1.ds.fsm = .idle := by simp [step, deserStep, hd, idleC]
    have h3 : (step c s (idleC g)).1.ds.newPacket = false := by simp [step, deserStep, hd, idleC]
    refine ih _ h1 h2 h3 (apLen_step c s _ hl) ?_
    intro hdel
    cases hf : s.dec.fsm with
    | idle => simp [step, decStep, hf, hn] at hdel; split at hdel <;> simp at hdel
    | readData => simp [step, decStep, hf, hn] at hdel; split at hdel <;> simp at hdel
    | delay =>
      obtain ⟨hk1, hk2⟩ := hk hf
      by_cases he : s.counter = c.delay
      · simp [step, decStep, hf, he] at hdel
      · have hlt : s.counter < c.counterMax + 1 := by omega
        have : (step c s (idleC g)).1.counter = s.counter + 1 := by simp [step, counterNext, hn, hlt]
        rw [this]
        simp at hk2
        constructor <;> omega

/-- the cycle after the first idle one: a latched deserializer strobe is consumed; if it sends
the decoder into INTERPACKET_DELAY, the same strobe restarts the timer -/
theorem second_idle (c : Config) (s : State) (g : Nat) (ht : s.tok.fsm = .idle) (hd : s.ds.fsm = .idle)
    (hdec : s.dec.fsm ≠ .delay) :
    (step c s (idleC g)).1.tok.fsm = .idle ∧ (step c s (idleC g)).1.ds.fsm = .idle ∧
    (step c s (idleC g)).1.ds.newPacket = false ∧
    ((step c s (idleC g)).1.dec.fsm = .delay → (step c s (idleC g)).1.counter = 0) := by
  refine ⟨by simp [step, tokStep, ht, idleC], by simp [step, deserStep, hd, idleC],
    by simp [step, deserStep, hd, idleC], ?_⟩
  intro hdel
  cases hn : s.ds.newPacket with
  | true => simp [step, counterNext, hn]
  | false =>
    exfalso
    cases hf : s.dec.fsm with
    | idle => simp [step, decStep, hf, hn] at hdel; split at hdel <;> simp at hdel
    | readData => simp [step, decStep, hf, hn] at hdel; split at hdel <;> simp at hdel
    | delay => exact hdec hf

theorem ds_waits_readPid (c : Config) (ws : List Nat) (s : State) (h : s.ds.fsm = .readPid) :
    (final c s (ws.map waitC)).ds.fsm = .readPid := by
  induction ws generalizing s with
  | nil => exact h
  | cons d ds ih => exact ih _ (by simp [step, deserStep, h, waitC])

theorem ds_lead (c : Config) (d : Nat) (ds : List Nat) (s : State) (h : s.ds.fsm = .idle) :
    (final c s ((d :: ds).map waitC)).ds.fsm = .readPid :=
  ds_waits_readPid c ds _ (by simp [step, deserStep, h, waitC])

theorem ds_irrelevant_run (c : Config) (h : List RxCycle) (s : State) (ha : ∀ i ∈ h, i.active = true)
    (hs : s.ds.fsm = .irrelevant) : (final c s h).ds.fsm = .irrelevant := by
  induction h generalizing s with
  | nil => exact hs
  | cons i is ih =>
    exact ih _ (fun j hj => ha j (by simp [hj])) (by simp [step, deserStep, hs, ha i (by simp)])

/-- **A preceding packet of any kind leaves a packet boundary behind.**  Corrupted, short,
over-long, aborted, PID-only, handshake, foreign or own token, arbitrary bytes: after the packet
and its idle gap, token detector and deserializer are in IDLE, no strobe is pending and the
decoder is not stuck waiting.  (Before the F2 repair the deserializer stayed in CAPTURE_DATA
here.) -/
theorem garbage_keeps_boundary (c : Config) (hc : c.delay ≤ c.counterMax + 1) (p : RxPacket) (s : State)
    (hs : Boundary s) (hw : p.wf) (hg : gapOk c p) : Boundary (final c s (render p)) := by
  obtain ⟨lead, slots, gap⟩ := p
  obtain ⟨hl, hgap⟩ := hw
  match lead, gap, hl, hgap with
  | d :: ds, g :: gs, _, _ =>
    have hact : ∀ i ∈ (d :: ds).map waitC ++ renderSlots slots, i.active = true := by
      intro i hi
      rcases List.mem_append.1 hi with h | h
      · obtain ⟨x, _, rfl⟩ := List.mem_map.1 h; rfl
      · exact renderSlots_active slots i h
    have e : render ⟨d :: ds, slots, g :: gs⟩
        = ((d :: ds).map waitC ++ renderSlots slots) ++ (idleC g :: gs.map idleC) := by
      simp [render]
    rw [e, final_append]
    have hnc0 : (¬ ∃ pid rest, slots.map (·.1) = pid :: rest ∧ isDataPid pid = true) →
        (final c s ((d :: ds).map waitC ++ renderSlots slots)).ds.fsm ≠ .capture := by
      intro hnd
      rw [final_append]
      have h0 := ds_lead c d ds s hs.ds
      generalize final c s ((d :: ds).map waitC) = s0 at h0
      match slots, hnd with
      | [], _ => simp [renderSlots, final, h0]
      | (pid, w) :: rest, hnd =>
        have hp : isDataPid pid = false := by
          cases hx : isDataPid pid with
          | false => rfl
          | true => exact absurd ⟨pid, rest.map (·.1), by simp, hx⟩ hnd
        have h1 : (step c s0 (byteC pid)).1.ds.fsm = .irrelevant := by
          simp [step, deserStep, h0, byteC, hp]
        have h2 := ds_irrelevant_run c (w.map waitC ++ renderSlots rest) _ (by
          intro i hi
          rcases List.mem_append.1 hi with h | h
          · obtain ⟨x, _, rfl⟩ := List.mem_map.1 h; rfl
          · exact renderSlots_active rest i h) h1
        simp only [renderSlots, final]
        rw [h2]; simp
    obtain ⟨_, hcalm⟩ := calm_active_run c _ s hact ⟨hs.noPkt, hs.dec⟩
    have hlen := apLen_run c ((d :: ds).map waitC ++ renderSlots slots) s hs.apLen
    generalize final c s ((d :: ds).map waitC ++ renderSlots slots) = s1 at hcalm hlen hnc0
    obtain ⟨f1, f2, f3, f4⟩ := first_idle c s1 g hcalm
    simp only [final]
    by_cases hdata : ∃ pid rest, slots.map (·.1) = pid :: rest ∧ isDataPid pid = true
    · -- a data packet: the host leaves delay + 3 idle cycles
      have hlong : c.delay + 3 ≤ (g :: gs).length := hg hdata
      match gs, hlong with
      | g2 :: gs2, hlong =>
        obtain ⟨s1', s2', s3', s4'⟩ := second_idle c _ g2 f1 f2 f3
        simp only [List.map_cons, final]
        refine settle c hc gs2 _ s1' s2' s3' (apLen_step c _ _ (apLen_step c _ _ hlen)) ?_
        intro hdel
        rw [s4' hdel]
        simp at hlong
        constructor <;> omega
    · -- anything else never puts the deserializer into CAPTURE_DATA
      have hnc : s1.ds.fsm ≠ .capture := hnc0 hdata
      exact (boundary_idles c gs _ ⟨f1, f2, f4 hnc, f3, apLen_step c _ _ hlen⟩).2

theorem garbage_list_keeps_boundary (c : Config) (hc : c.delay ≤ c.counterMax + 1) (ps : List RxPacket)
    (s : State) (hs : Boundary s) (hw : ∀ p ∈ ps, p.wf) (hg : ∀ p ∈ ps, gapOk c p) :
    Boundary (final c s (renderAll ps)) := by
  induction ps generalizing s with
  | nil => exact hs
  | cons p ps ih =>
    simp only [renderAll, List.flatMap_cons, final_append]
    exact ih _ (garbage_keeps_boundary c hc p s hs (hw p (by simp)) (hg p (by simp)))
      (fun q hq => hw q (by simp [hq])) (fun q hq => hg q (by simp [hq]))

/-! ## The SETUP token -/

/-- the three bytes of a SETUP token this device accepts: valid token PID with nibble 0b1101,
CRC5 (bit-serial definition) over the 11 address/endpoint bits correct, address field = ours -/
def IsSetupTokenFor (addr tp b1 b2 : Nat) : Prop :=
  isTokenPid tp = true ∧ tp % 16 = SETUP_PID ∧
  (b2 / 8) % 32 = usb2Crc5 (b1 % 256 + 256 * (b2 % 8)) ∧ (b1 % 256 + 256 * (b2 % 8)) % 128 = addr

/-- wait cycles do not disturb the token detector once it left IDLE -/
theorem tok_wait (c : Config) (s : State) (d : Nat) (h : s.tok.fsm ≠ .idle) :
    (step c s (waitC d)).1.tok.fsm = s.tok.fsm ∧ (step c s (waitC d)).1.tok.currentPid = s.tok.currentPid ∧
    (step c s (waitC d)).1.tok.tokenData = s.tok.tokenData ∧ (step c s (waitC d)).1.tok.pid = s.tok.pid := by
  cases hf : s.tok.fsm <;> simp_all [step, tokStep, waitC]

theorem tok_waits (c : Config) (ws : List Nat) (s : State) (h : s.tok.fsm ≠ .idle) :
    (final c s (ws.map waitC)).tok.fsm = s.tok.fsm ∧
    (final c s (ws.map waitC)).tok.currentPid = s.tok.currentPid ∧
    (final c s (ws.map waitC)).tok.tokenData = s.tok.tokenData ∧
    (final c s (ws.map waitC)).tok.pid = s.tok.pid := by
  induction ws generalizing s with
  | nil => simp [final]
  | cons d ds ih =>
    obtain ⟨h1, h2, h3, h4⟩ := tok_wait c s d h
    obtain ⟨h5, h6, h7, h8⟩ := ih (step c s (waitC d)).1 (by rw [h1]; exact h)
    simp only [List.map_cons, final]
    exact ⟨by rw [h5, h1], by rw [h6, h2], by rw [h7, h3], by rw [h8, h4]⟩

theorem tok_lead (c : Config) (d : Nat) (ds : List Nat) (s : State) (h : s.tok.fsm = .idle) :
    (final c s ((d :: ds).map waitC)).tok.fsm = .readPid := by
  have h1 : (step c s (waitC d)).1.tok.fsm = .readPid := by simp [step, tokStep, h, waitC]
  have := (tok_waits c ds _ (by rw [h1]; simp)).1
  simp only [List.map_cons, final]
  rw [this, h1]

/-- State after the first idle cycle that follows a SETUP token addressed to this device. -/
structure TokDone (s : State) : Prop where
  tok    : s.tok.fsm = .idle
  strobe : s.tok.newToken = true
  pid    : s.tok.pid = SETUP_PID
  ds     : s.ds.fsm = .idle
  noPkt  : s.ds.newPacket = false
  dec    : s.dec.fsm ≠ .delay
  apLen  : s.ds.activePacket.length = 10

/-- the token detector over the three token bytes (any wait cycles) and the first idle cycle -/
theorem tok_setup (c : Config) (tp b1 b2 g : Nat) (w0 w1 w2 : List Nat) (s : State)
    (hs : s.tok.fsm = .readPid) (ht : IsSetupTokenFor c.addr tp b1 b2) :
    let h := byteC tp :: (w0.map waitC ++ (byteC b1 :: (w1.map waitC ++ (byteC b2 :: (w2.map waitC ++ [idleC g])))))
    (final c s h).tok.fsm = .idle ∧ (final c s h).tok.newToken = true ∧ (final c s h).tok.pid = SETUP_PID := by
  obtain ⟨t1, t2, t3, t4⟩ := ht
  intro h
  -- PID byte
  have a1 : (step c s (byteC tp)).1.tok.fsm = .tok0 := by simp [step, tokStep, hs, byteC, t1]
  have a2 : (step c s (byteC tp)).1.tok.currentPid = SETUP_PID := by simp [step, tokStep, hs, byteC, t1, t2]
  obtain ⟨b1f, b1p, _, _⟩ := tok_waits c w0 _ (by rw [a1]; simp)
  rw [a1] at b1f; rw [a2] at b1p
  generalize hsa : final c (step c s (byteC tp)).1 (w0.map waitC) = sa at b1f b1p
  -- first token byte
  have c1 : (step c sa (byteC b1)).1.tok.fsm = .tok1 := by simp [step, tokStep, b1f, byteC]
  have c2 : (step c sa (byteC b1)).1.tok.currentPid = SETUP_PID := by simp [step, tokStep, b1f, byteC, b1p]
  have c3 : (step c sa (byteC b1)).1.tok.tokenData = b1 % 256 := by simp [step, tokStep, b1f, byteC]
  obtain ⟨d1f, d1p, d1t, _⟩ := tok_waits c w1 _ (by rw [c1]; simp)
  rw [c1] at d1f; rw [c2] at d1p; rw [c3] at d1t
  generalize hsb : final c (step c sa (byteC b1)).1 (w1.map waitC) = sb at d1f d1p d1t
  -- second token byte: CRC5 check
  have hcrc : ((b2 / 8) % 32 == usb2Crc5 (sb.tok.tokenData % 256 + 256 * (b2 % 8))) = true := by
    rw [d1t]; simp [t3]
  have e1 : (step c sb (byteC b2)).1.tok.fsm = .complete := by
    simp only [step, tokStep, d1f, byteC]; simp [hcrc]
  have e2 : (step c sb (byteC b2)).1.tok.currentPid = SETUP_PID := by
    simp only [step, tokStep, d1f, byteC]; simp [hcrc, d1p]
  have e3 : (step c sb (byteC b2)).1.tok.tokenData = b1 % 256 + 256 * (b2 % 8) := by
    simp only [step, tokStep, d1f, byteC]; simp [d1t, t3]
  obtain ⟨f1f, f1p, f1t, _⟩ := tok_waits c w2 _ (by rw [e1]; simp)
  rw [e1] at f1f; rw [e2] at f1p; rw [e3] at f1t
  generalize hsc : final c (step c sb (byteC b2)).1 (w2.map waitC) = sc at f1f f1p f1t
  -- end of packet: address check, strobe
  have hnsof : (sc.tok.currentPid == SOF_PID) = false := by rw [f1p]; decide
  have haddr : (sc.tok.tokenData % 128 == c.addr) = true := by rw [f1t]; simp [t4]
  have g1 : (step c sc (idleC g)).1.tok.fsm = .idle := by
    simp only [step, tokStep, f1f, idleC]; simp [hnsof, haddr]
  have g2 : (step c sc (idleC g)).1.tok.newToken = true := by
    simp only [step, tokStep, f1f, idleC]; simp [hnsof, haddr]
  have g3 : (step c sc (idleC g)).1.tok.pid = SETUP_PID := by
    simp only [step, tokStep, f1f, idleC]; simp [f1p, haddr, show SETUP_PID ≠ SOF_PID by decide]
  have hfin : final c s h = (step c sc (idleC g)).1 := by
    simp only [h, final, final_append, hsa, hsb, hsc]
  rw [hfin]; exact ⟨g1, g2, g3⟩

theorem token_pid_not_data (b : Nat) (h : isTokenPid b = true) : isDataPid b = false := by
  simp only [isTokenPid, isDataPid, Bool.and_eq_true, Bool.or_eq_true, beq_iff_eq] at h ⊢
  cases hd : (b % 4 == 3) with
  | false => simp
  | true => simp at hd; omega

/-- a packet whose first byte is not a data PID never puts the deserializer into CAPTURE_DATA -/
theorem ds_not_capture (c : Config) (d : Nat) (ds : List Nat) (pid : Nat) (w : List Nat)
    (rest : List (Nat × List Nat)) (s : State) (hs : s.ds.fsm = .idle) (hp : isDataPid pid = false) :
    (final c s ((d :: ds).map waitC ++ renderSlots ((pid, w) :: rest))).ds.fsm ≠ .capture := by
  rw [final_append]
  have h0 := ds_lead c d ds s hs
  generalize final c s ((d :: ds).map waitC) = s0 at h0
  have h1 : (step c s0 (byteC pid)).1.ds.fsm = .irrelevant := by simp [step, deserStep, h0, byteC, hp]
  have h2 := ds_irrelevant_run c (w.map waitC ++ renderSlots rest) _ (by
    intro i hi
    rcases List.mem_append.1 hi with h | h
    · obtain ⟨x, _, rfl⟩ := List.mem_map.1 h; rfl
    · exact renderSlots_active rest i h) h1
  simp only [renderSlots, final]
  rw [h2]; simp

/-- the cycles of a token packet up to and including the first idle cycle after it -/
def tokenCycles (d : Nat) (ds : List Nat) (tp : Nat) (w0 : List Nat) (b1 : Nat) (w1 : List Nat) (b2 : Nat)
    (w2 : List Nat) (g : Nat) : List RxCycle :=
  (d :: ds).map waitC ++ (renderSlots [(tp, w0), (b1, w1), (b2, w2)] ++ [idleC g])

/-- **The SETUP token.**  From a packet boundary, a SETUP token for this device (any wait cycles)
and the first idle cycle after it cause nothing yet and leave the token strobe latched. -/
theorem token_phase (c : Config) (tp b1 b2 d g : Nat) (ds w0 w1 w2 : List Nat) (s : State) (hs : Boundary s)
    (ht : IsSetupTokenFor c.addr tp b1 b2) :
    trace c s (tokenCycles d ds tp w0 b1 w1 b2 w2 g) = [] ∧
      TokDone (final c s (tokenCycles d ds tp w0 b1 w1 b2 w2 g)) := by
  have hact : ∀ i ∈ (d :: ds).map waitC ++ renderSlots [(tp, w0), (b1, w1), (b2, w2)], i.active = true := by
    intro i hi
    rcases List.mem_append.1 hi with h | h
    · obtain ⟨x, _, rfl⟩ := List.mem_map.1 h; rfl
    · exact renderSlots_active _ i h
  have e : tokenCycles d ds tp w0 b1 w1 b2 w2 g
      = ((d :: ds).map waitC ++ renderSlots [(tp, w0), (b1, w1), (b2, w2)]) ++ [idleC g] := by
    simp [tokenCycles]
  obtain ⟨t1, hcalm⟩ := calm_active_run c _ s hact ⟨hs.noPkt, hs.dec⟩
  have hlen := apLen_run c ((d :: ds).map waitC ++ renderSlots [(tp, w0), (b1, w1), (b2, w2)]) s hs.apLen
  have hnc := ds_not_capture c d ds tp w0 [(b1, w1), (b2, w2)] s hs.ds (token_pid_not_data tp ht.1)
  -- token detector view of the same run
  have htok := tok_setup c tp b1 b2 g w0 w1 w2 (final c s ((d :: ds).map waitC)) (tok_lead c d ds s hs.tok) ht
  have e2 : tokenCycles d ds tp w0 b1 w1 b2 w2 g = (d :: ds).map waitC ++
      (byteC tp :: (w0.map waitC ++ (byteC b1 :: (w1.map waitC ++ (byteC b2 :: (w2.map waitC ++ [idleC g])))))) := by
    simp [tokenCycles, renderSlots]
  have htok' : (final c s (tokenCycles d ds tp w0 b1 w1 b2 w2 g)).tok.fsm = .idle ∧
      (final c s (tokenCycles d ds tp w0 b1 w1 b2 w2 g)).tok.newToken = true ∧
      (final c s (tokenCycles d ds tp w0 b1 w1 b2 w2 g)).tok.pid = SETUP_PID := by
    rw [e2, final_append]; exact htok
  rw [e] at htok' ⊢
  rw [final_append] at htok' ⊢
  rw [trace_append, t1]
  generalize final c s ((d :: ds).map waitC ++ renderSlots [(tp, w0), (b1, w1), (b2, w2)]) = s1
    at hcalm hlen hnc htok' ⊢
  obtain ⟨f1, f2, f3, f4⟩ := first_idle c s1 g hcalm
  refine ⟨by simp [trace, calm_no_events c s1 _ hcalm], ?_⟩
  simp only [final] at htok' ⊢
  exact ⟨htok'.1, htok'.2.1, htok'.2.2, f2, f4 hnc, f3, apLen_step c _ _ hlen⟩

/-! ## Between the token and its data packet -/

/-- The decoder is waiting for the data packet of a SETUP token of ours. -/
structure Armed (s : State) : Prop where
  dec    : s.dec.fsm = .readData
  pid    : s.tok.pid = SETUP_PID
  noTok  : s.tok.newToken = false
  noPkt  : s.ds.newPacket = false

theorem Armed.calm {s : State} (h : Armed s) : Calm s := ⟨h.noPkt, by rw [h.dec]; simp⟩

/-- the cycle in which the latched token strobe is seen (idle line or the next packet's lead-in) -/
theorem arm_step (c : Config) (s : State) (i : RxCycle) (hv : i.valid = false) (h : TokDone s) :
    Armed (step c s i).1 ∧ (step c s i).1.tok.fsm = (if i.active then .readPid else .idle) ∧
    (step c s i).1.ds.fsm = (if i.active then .readPid else .idle) ∧ stepEvents c s i = [] := by
  refine ⟨⟨?_, ?_, ?_, ?_⟩, ?_, ?_, calm_no_events c s i ⟨h.noPkt, h.dec⟩⟩
  · have := h.dec
    cases hf : s.dec.fsm <;> simp_all [step, decStep, h.strobe, h.pid, h.noPkt, SETUP_PID]
  · simp [step, tokStep, h.tok, h.pid]
  · simp [step, tokStep, h.tok]
  · simp [step, deserStep, h.ds]
  · cases ha : i.active <;> simp [step, tokStep, h.tok, ha]
  · cases ha : i.active <;> simp [step, deserStep, h.ds, ha]

theorem armed_active (c : Config) (s : State) (i : RxCycle) (ha : i.active = true) (h : Armed s) :
    Armed (step c s i).1 := by
  refine ⟨?_, ?_, ?_, (calm_active c s i ha h.calm).1⟩
  · simp [step, decStep, h.dec, h.noTok, h.noPkt]
  · cases hf : s.tok.fsm <;> simp [step, tokStep, hf, ha] <;> (repeat' split) <;> simp [h.pid]
  · cases hf : s.tok.fsm <;> simp [step, tokStep, hf, ha] <;> (repeat' split) <;> simp

theorem armed_active_run (c : Config) (h : List RxCycle) (s : State) (ha : ∀ i ∈ h, i.active = true)
    (hs : Armed s) : trace c s h = [] ∧ Armed (final c s h) := by
  induction h generalizing s with
  | nil => exact ⟨rfl, hs⟩
  | cons i is ih =>
    have h1 := armed_active c s i (ha i (by simp)) hs
    obtain ⟨h2, h3⟩ := ih _ (fun j hj => ha j (by simp [hj])) h1
    simp [trace, final, calm_no_events c s i hs.calm, h2, h3]

theorem armed_idles (c : Config) (gs : List Nat) (s : State) (hs : Armed s) (ht : s.tok.fsm = .idle)
    (hd : s.ds.fsm = .idle) :
    trace c s (gs.map idleC) = [] ∧ Armed (final c s (gs.map idleC)) ∧
      (final c s (gs.map idleC)).tok.fsm = .idle ∧ (final c s (gs.map idleC)).ds.fsm = .idle := by
  induction gs generalizing s with
  | nil => exact ⟨rfl, hs, ht, hd⟩
  | cons g gs ih =>
    have h1 : Armed (step c s (idleC g)).1 := by
      refine ⟨?_, ?_, ?_, ?_⟩
      · simp [step, decStep, hs.dec, hs.noTok, hs.noPkt]
      · simp [step, tokStep, ht, idleC, hs.pid]
      · simp [step, tokStep, ht, idleC]
      · simp [step, deserStep, hd, idleC]
    have h2 : (step c s (idleC g)).1.tok.fsm = .idle := by simp [step, tokStep, ht, idleC]
    have h3 : (step c s (idleC g)).1.ds.fsm = .idle := by simp [step, deserStep, hd, idleC]
    obtain ⟨h4, h5, h6, h7⟩ := ih _ h1 h2 h3
    simp [trace, final, calm_no_events c s _ hs.calm, h4, h5, h6, h7]

/-- **From the token strobe to the data packet's PID**: the rest of the token's idle gap (possibly
empty — 1-cycle packet separation) and the lead-in of the next packet arm the decoder and bring
token detector and deserializer to READ_PID. -/
theorem arm_phase (c : Config) (gs : List Nat) (d : Nat) (ds : List Nat) (s : State) (h : TokDone s) :
    trace c s (gs.map idleC ++ (d :: ds).map waitC) = [] ∧
    Armed (final c s (gs.map idleC ++ (d :: ds).map waitC)) ∧
    (final c s (gs.map idleC ++ (d :: ds).map waitC)).ds.fsm = .readPid ∧
    (final c s (gs.map idleC ++ (d :: ds).map waitC)).ds.activePacket.length = 10 ∧
    (final c s (gs.map idleC ++ (d :: ds).map waitC)).tok.fsm = .readPid := by
  match gs with
  | [] =>
    obtain ⟨a1, a2, a3, a4⟩ := arm_step c s (waitC d) rfl h
    have a2' : (step c s (waitC d)).1.tok.fsm = .readPid := by rw [a2]; rfl
    have a3' : (step c s (waitC d)).1.ds.fsm = .readPid := by rw [a3]; rfl
    have b4 : (final c (step c s (waitC d)).1 (ds.map waitC)).tok.fsm = .readPid := by
      rw [(tok_waits c ds _ (by rw [a2']; simp)).1, a2']
    have hact : ∀ i ∈ ds.map waitC, i.active = true := by
      intro i hi; obtain ⟨x, _, rfl⟩ := List.mem_map.1 hi; rfl
    obtain ⟨b1, b2⟩ := armed_active_run c (ds.map waitC) _ hact a1
    have b3 := ds_waits_readPid c ds _ a3'
    have e : ([] : List Nat).map idleC ++ (d :: ds).map waitC = waitC d :: ds.map waitC := rfl
    rw [e]
    exact ⟨by rw [trace, a4, b1]; rfl, b2, b3, apLen_run c _ _ h.apLen, b4⟩
  | g :: gs' =>
    obtain ⟨a1, a2, a3, a4⟩ := arm_step c s (idleC g) rfl h
    have a2' : (step c s (idleC g)).1.tok.fsm = .idle := by rw [a2]; rfl
    have a3' : (step c s (idleC g)).1.ds.fsm = .idle := by rw [a3]; rfl
    obtain ⟨b1, b2, b3, b4⟩ := armed_idles c gs' _ a1 a2' a3'
    have hact : ∀ i ∈ (d :: ds).map waitC, i.active = true := by
      intro i hi; obtain ⟨x, _, rfl⟩ := List.mem_map.1 hi; rfl
    obtain ⟨c1, c2⟩ := armed_active_run c ((d :: ds).map waitC) _ hact b2
    have c3 := ds_lead c d ds _ b4
    have c4 := tok_lead c d ds _ b3
    have e : (g :: gs').map idleC ++ (d :: ds).map waitC
        = idleC g :: (gs'.map idleC ++ (d :: ds).map waitC) := rfl
    have f : final c s (idleC g :: (gs'.map idleC ++ (d :: ds).map waitC))
        = final c (final c (step c s (idleC g)).1 (gs'.map idleC)) ((d :: ds).map waitC) := by
      rw [final, final_append]
    rw [e, f]
    exact ⟨by rw [trace, trace_append, a4, b1, c1]; rfl, c2, c3,
      apLen_run c _ _ (apLen_run c _ _ (apLen_step c s _ h.apLen)), c4⟩

/-! ## The deserializer over the data packet -/

theorem take_set_succ (l : List Nat) (n x : Nat) (h : n < l.length) :
    (l.set n x).take (n + 1) = l.take n ++ [x] := by
  induction l generalizing n with
  | nil => simp at h
  | cons a l ih =>
    cases n with
    | zero => simp
    | succ n => simp at h; simp [ih n h]

/-- CAPTURE_DATA directly after the data PID: nothing stored yet, CRC unit freshly cleared. -/
structure Cap0 (s : State) : Prop where
  hfsm : s.ds.fsm = .capture
  hpos : s.ds.position = 0
  hcrc : s.crc = usb2Crc16Reg []
  hlen : s.ds.activePacket.length = 10

/-- after one byte `x` -/
structure Cap1 (s : State) (x : Nat) : Prop where
  hfsm : s.ds.fsm = .capture
  hpos : s.ds.position = 1
  hbuf : s.ds.activePacket.take 1 = [x]
  hlw  : (s.ds.lastWord / 256) % 256 = x
  hlbc : s.ds.lastByteCrc = usb2Crc16 []
  hcrc : s.crc = usb2Crc16Reg [x]
  hlen : s.ds.activePacket.length = 10

/-- after `pre…, lo, hi`: buffer prefix, the last-word register, the two CRC snapshots -/
structure CapInv (s : State) (pre : List Nat) (lo hi : Nat) : Prop where
  hfsm : s.ds.fsm = .capture
  hpos : s.ds.position = pre.length + 2
  hbuf : s.ds.activePacket.take (pre.length + 2) = pre ++ [lo, hi]
  hlw  : s.ds.lastWord = lo + 256 * hi
  hlwc : s.ds.lastWordCrc = usb2Crc16 pre
  hlbc : s.ds.lastByteCrc = usb2Crc16 (pre ++ [lo])
  hcrc : s.crc = usb2Crc16Reg (pre ++ [lo, hi])
  hlen : s.ds.activePacket.length = 10
  hlo  : lo < 256
  hhi  : hi < 256

theorem cap_pid (c : Config) (s : State) (pid : Nat) (hs : s.ds.fsm = .readPid) (hp : isDataPid pid = true)
    (hl : s.ds.activePacket.length = 10) : Cap0 (step c s (byteC pid)).1 := by
  refine ⟨?_, ?_, ?_, apLen_step c s _ hl⟩ <;> simp [step, deserStep, hs, byteC, hp, DataCrc.next, reg_nil]

theorem cap0_waits (c : Config) (ws : List Nat) (s : State) (h : Cap0 s) : Cap0 (final c s (ws.map waitC)) := by
  induction ws generalizing s with
  | nil => exact h
  | cons d ds ih =>
    refine ih _ ⟨?_, ?_, ?_, apLen_step c s _ h.hlen⟩ <;>
      simp [step, deserStep, h.hfsm, waitC, h.hpos, DataCrc.next, h.hcrc]

theorem cap0_byte (c : Config) (s : State) (x : Nat) (hx : x < 256) (h : Cap0 s) :
    Cap1 (step c s (byteC x)).1 x := by
  have hm : x % 256 = x := Nat.mod_eq_of_lt hx
  refine ⟨?_, ?_, ?_, ?_, ?_, ?_, apLen_step c s _ h.hlen⟩ <;>
    simp [step, deserStep, h.hfsm, byteC, h.hpos, DataCrc.next, h.hcrc, output_reg, hm]
  · have := take_set_succ s.ds.activePacket 0 x (by rw [h.hlen]; omega)
    simpa using this
  · omega
  · rw [← reg_snoc]; rfl

theorem cap1_waits (c : Config) (x : Nat) (ws : List Nat) (s : State) (h : Cap1 s x) :
    Cap1 (final c s (ws.map waitC)) x := by
  induction ws generalizing s with
  | nil => exact h
  | cons d ds ih =>
    refine ih _ ⟨?_, ?_, ?_, ?_, ?_, ?_, apLen_step c s _ h.hlen⟩ <;>
      simp [step, deserStep, h.hfsm, waitC, h.hpos, h.hbuf, h.hlw, h.hlbc, DataCrc.next, h.hcrc]

theorem cap1_byte (c : Config) (s : State) (x y : Nat) (hx : x < 256) (hy : y < 256) (h : Cap1 s x) :
    CapInv (step c s (byteC y)).1 [] x y := by
  have hm : y % 256 = y := Nat.mod_eq_of_lt hy
  refine ⟨?_, ?_, ?_, ?_, ?_, ?_, ?_, apLen_step c s _ h.hlen, hx, hy⟩ <;>
    simp [step, deserStep, h.hfsm, byteC, h.hpos, DataCrc.next, h.hcrc, output_reg, hm, h.hlw, h.hlbc]
  · have := take_set_succ s.ds.activePacket 1 y (by rw [h.hlen]; omega)
    rw [this, h.hbuf]; rfl
  · rw [← reg_snoc]; rfl

theorem capinv_waits (c : Config) (pre : List Nat) (lo hi : Nat) (ws : List Nat) (s : State)
    (h : CapInv s pre lo hi) : CapInv (final c s (ws.map waitC)) pre lo hi := by
  induction ws generalizing s with
  | nil => exact h
  | cons d ds ih =>
    refine ih _ ⟨?_, ?_, ?_, ?_, ?_, ?_, ?_, apLen_step c s _ h.hlen, h.hlo, h.hhi⟩ <;>
      simp [step, deserStep, h.hfsm, waitC, h.hpos, h.hbuf, h.hlw, h.hlwc, h.hlbc, DataCrc.next, h.hcrc]

theorem capinv_byte (c : Config) (s : State) (pre : List Nat) (lo hi b : Nat) (hb : b < 256)
    (hroom : pre.length + 2 < 10) (h : CapInv s pre lo hi) :
    CapInv (step c s (byteC b)).1 (pre ++ [lo]) hi b := by
  have hm : b % 256 = b := Nat.mod_eq_of_lt hb
  have hge : ¬ (s.ds.position ≥ 10) := by rw [h.hpos]; omega
  have hge' : ¬ (10 ≤ pre.length + 2) := by omega
  have hlo := h.hlo
  have hhi := h.hhi
  refine ⟨?_, ?_, ?_, ?_, ?_, ?_, ?_, apLen_step c s _ h.hlen, h.hhi, hb⟩ <;>
    simp [step, deserStep, h.hfsm, byteC, h.hpos, hge', DataCrc.next, h.hcrc, output_reg, hm, h.hlw, h.hlbc]
  · omega
  · have := take_set_succ s.ds.activePacket (pre.length + 2) b (by rw [h.hlen]; omega)
    rw [this, h.hbuf]; simp
  · omega
  · rw [← reg_snoc]; simp

/-- where the pipeline view `(pre, lo, hi)` is after the further bytes `bs` -/
def capAfter : List Nat → Nat → Nat → List Nat → List Nat × Nat × Nat
  | pre, lo, hi, [] => (pre, lo, hi)
  | pre, lo, hi, b :: bs => capAfter (pre ++ [lo]) hi b bs

theorem capinv_slots (c : Config) (sl : List (Nat × List Nat)) (s : State) (pre : List Nat) (lo hi : Nat)
    (h : CapInv s pre lo hi) (hroom : pre.length + 2 + sl.length ≤ 10) (hb : ∀ x ∈ sl, x.1 < 256) :
    CapInv (final c s (renderSlots sl)) (capAfter pre lo hi (sl.map (·.1))).1
      (capAfter pre lo hi (sl.map (·.1))).2.1 (capAfter pre lo hi (sl.map (·.1))).2.2 := by
  induction sl generalizing s pre lo hi with
  | nil => exact h
  | cons x rest ih =>
    obtain ⟨b, ws⟩ := x
    have h1 := capinv_byte c s pre lo hi b (hb (b, ws) (by simp)) (by simp at hroom; omega) h
    have h2 := capinv_waits c (pre ++ [lo]) hi b ws _ h1
    have h3 := ih _ (pre ++ [lo]) hi b h2 (by simp at hroom ⊢; omega) (fun y hy => hb y (by simp [hy]))
    simpa [renderSlots, final, final_append, capAfter] using h3

/-- End of a CRC-valid data packet with exactly 8 payload bytes: the deserializer strobes,
reports length 8 and hands over the payload. -/
theorem cap_end (c : Config) (s : State) (payload : List Nat) (lo hi g : Nat) (h : CapInv s payload lo hi)
    (hl : payload.length = 8) (hcrc : usb2Crc16 payload = lo + 256 * hi) :
    (step c s (idleC g)).1.ds.newPacket = true ∧ (step c s (idleC g)).1.ds.length = 8 ∧
    (step c s (idleC g)).1.ds.packet = payload ∧ (step c s (idleC g)).1.ds.fsm = .idle := by
  have hm : s.ds.lastWordCrc = s.ds.lastWord := by rw [h.hlwc, h.hlw, hcrc]
  have hp : s.ds.activePacket.take 8 = payload := by
    have := congrArg (List.take 8) h.hbuf
    rw [List.take_take, hl] at this
    simpa [hl] using this
  refine ⟨?_, ?_, ?_, ?_⟩ <;> simp [step, deserStep, h.hfsm, idleC, hm, h.hpos, hl, hp]

/-- the timer brings a decoder waiting in INTERPACKET_DELAY to its ACK: exactly one, then IDLE -/
theorem delay_events (c : Config) (hc : c.delay ≤ c.counterMax + 1) (gs : List Nat) (s : State)
    (ht : s.tok.fsm = .idle) (hd : s.ds.fsm = .idle) (hn : s.ds.newPacket = false)
    (hl : s.ds.activePacket.length = 10) (hdec : s.dec.fsm = .delay)
    (hk : s.counter ≤ c.delay) (hg : c.delay - s.counter + 1 ≤ gs.length) :
    trace c s (gs.map idleC) = [.ack] ∧ Boundary (final c s (gs.map idleC)) := by
  induction gs generalizing s with
  | nil => simp at hg
  | cons g gs ih =>
    have h1 : (step c s (idleC g)).1.tok.fsm = .idle := by simp [step, tokStep, ht, idleC]
    have h2 : (step c s (idleC g)).1.ds.fsm = .idle := by simp [step, deserStep, hd, idleC]
    have h3 : (step c s (idleC g)).1.ds.newPacket = false := by simp [step, deserStep, hd, idleC]
    have h4 := apLen_step c s (idleC g) hl
    by_cases he : s.counter = c.delay
    · have h5 : (step c s (idleC g)).1.dec.fsm = .idle := by simp [step, decStep, hdec, he]
      have h6 : stepEvents c s (idleC g) = [.ack] := by simp [stepEvents, step, decStep, hdec, he, latched]
      obtain ⟨h7, h8⟩ := boundary_idles c gs _ ⟨h1, h2, h3, by rw [h5]; simp, h4⟩
      simp [trace, final, h6, h7, h8]
    · have h5 : (step c s (idleC g)).1.dec.fsm = .delay := by simp [step, decStep, hdec, he]
      have h6 : stepEvents c s (idleC g) = [] := by simp [stepEvents, step, decStep, hdec, he, latched]
      have hlt : s.counter < c.counterMax + 1 := by omega
      have h7 : (step c s (idleC g)).1.counter = s.counter + 1 := by simp [step, counterNext, hn, hlt]
      obtain ⟨h8, h9⟩ := ih _ h1 h2 h3 h4 h5 (by rw [h7]; omega) (by rw [h7]; simp at hg; omega)
      simp [trace, final, h6, h8, h9]

theorem data_pid_not_token (b : Nat) (h : isDataPid b = true) : isTokenPid b = false := by
  cases ht : isTokenPid b with
  | false => rfl
  | true => rw [token_pid_not_data b ht] at h; exact absurd h (by simp)

theorem tok_irrelevant_run (c : Config) (h : List RxCycle) (s : State) (ha : ∀ i ∈ h, i.active = true)
    (hs : s.tok.fsm = .irrelevant) : (final c s h).tok.fsm = .irrelevant := by
  induction h generalizing s with
  | nil => exact hs
  | cons i is ih =>
    exact ih _ (fun j hj => ha j (by simp [hj])) (by simp [step, tokStep, hs, ha i (by simp)])

/-- The deserializer's view of a data packet `dpid, x1, x2, sl…`: after the PID and the bytes,
whatever the wait cycles, the capture invariant holds for the bytes as `capAfter` arranges them. -/
theorem capture_packet (c : Config) (dpid x1 x2 : Nat) (v0 v1 v2 : List Nat) (sl : List (Nat × List Nat))
    (s : State) (hs : s.ds.fsm = .readPid) (hl : s.ds.activePacket.length = 10)
    (hp : isDataPid dpid = true) (hx1 : x1 < 256) (hx2 : x2 < 256) (hroom : sl.length ≤ 8)
    (hb : ∀ x ∈ sl, x.1 < 256) :
    CapInv (final c s (renderSlots ((dpid, v0) :: (x1, v1) :: (x2, v2) :: sl)))
      (capAfter [] x1 x2 (sl.map (·.1))).1 (capAfter [] x1 x2 (sl.map (·.1))).2.1
      (capAfter [] x1 x2 (sl.map (·.1))).2.2 := by
  have a := cap_pid c s dpid hs hp hl
  have b := cap0_waits c v0 _ a
  have d := cap0_byte c _ x1 hx1 b
  have e := cap1_waits c x1 v1 _ d
  have f := cap1_byte c _ x1 x2 hx1 hx2 e
  have g := capinv_waits c [] x1 x2 v2 _ f
  have h := capinv_slots c sl _ [] x1 x2 g (by simp; omega) hb
  simpa [renderSlots, final, final_append] using h

/-! ## The SETUP transaction -/

/-- a SETUP token packet with arbitrary timing -/
def setupTokenPacket (lead : List Nat) (tp : Nat) (w0 : List Nat) (b1 : Nat) (w1 : List Nat) (b2 : Nat)
    (w2 : List Nat) (gap : List Nat) : RxPacket :=
  ⟨lead, [(tp, w0), (b1, w1), (b2, w2)], gap⟩

/-- a data packet: PID then `body` (bytes with their wait cycles), arbitrary timing -/
def dataPacket (lead : List Nat) (dpid : Nat) (v0 : List Nat) (body : List (Nat × List Nat)) (gap : List Nat) :
    RxPacket :=
  ⟨lead, (dpid, v0) :: body, gap⟩

/-- **One valid SETUP transaction from any packet boundary.**  A SETUP token for this device
followed (after ≥ 1 idle cycle) by a data packet with exactly 8 payload bytes and a matching
CRC16 — any wait cycles anywhere — makes the decoder strobe `received` exactly once with the
little-endian decoded fields and raise `ack` exactly once (in the strobe's cycle when the ACK may
go out immediately, otherwise after the timer's delay), and leaves a packet boundary behind. -/
theorem setup_transaction_exact (c : Config) (hc : c.delay ≤ c.counterMax + 1) (s : State) (hs : Boundary s)
    (tl tgap dl dgap w0 w1 w2 v0 : List Nat) (tp b1 b2 dpid p0 p1 p2 p3 p4 p5 p6 p7 lo hi : Nat)
    (body : List (Nat × List Nat))
    (hbody : body.map (·.1) = [p0, p1, p2, p3, p4, p5, p6, p7, lo, hi])
    (hTw : (setupTokenPacket tl tp w0 b1 w1 b2 w2 tgap).wf) (hDw : (dataPacket dl dpid v0 body dgap).wf)
    (htok : IsSetupTokenFor c.addr tp b1 b2) (hdp : isDataPid dpid = true)
    (h8 : ∀ b ∈ [p0, p1, p2, p3, p4, p5, p6, p7, lo, hi], b < 256)
    (hcrc : usb2Crc16 [p0, p1, p2, p3, p4, p5, p6, p7] = lo + 256 * hi)
    (hgap : c.delay + 3 ≤ dgap.length) :
    (trace c s (render (setupTokenPacket tl tp w0 b1 w1 b2 w2 tgap) ++ render (dataPacket dl dpid v0 body dgap))
        = [.received p0 p1 (p2 + 256 * p3) (p4 + 256 * p5) (p6 + 256 * p7), .ack] ∨
     trace c s (render (setupTokenPacket tl tp w0 b1 w1 b2 w2 tgap) ++ render (dataPacket dl dpid v0 body dgap))
        = [.ack, .received p0 p1 (p2 + 256 * p3) (p4 + 256 * p5) (p6 + 256 * p7)]) ∧
    (c.hs = true →
     trace c s (render (setupTokenPacket tl tp w0 b1 w1 b2 w2 tgap) ++ render (dataPacket dl dpid v0 body dgap))
        = [.ack, .received p0 p1 (p2 + 256 * p3) (p4 + 256 * p5) (p6 + 256 * p7)]) ∧
    Boundary (final c s
      (render (setupTokenPacket tl tp w0 b1 w1 b2 w2 tgap) ++ render (dataPacket dl dpid v0 body dgap))) := by
  obtain ⟨htl, htg⟩ := hTw
  obtain ⟨hdl, hdg⟩ := hDw
  simp only [setupTokenPacket, dataPacket] at htl htg hdl hdg
  match tl, tgap, dl, dgap, body, htl, htg, hdl, hdg, hbody, hgap with
  | _, _, _, _, [], _, _, _, _, hbody, _ => simp at hbody
  | _, _, _, _, [_], _, _, _, _, hbody, _ => simp at hbody
  | _, _, _, [_], _ :: _ :: _, _, _, _, _, _, hgap => simp at hgap
  | t :: ts, g :: gs, d :: ds, g1 :: g2 :: gs3, (x1, v1) :: (x2, v2) :: sl, _, _, _, _, hbody, hgap =>
    simp only [List.map_cons, List.cons.injEq] at hbody
    obtain ⟨rfl, rfl, hsl⟩ := hbody
    -- the history, cut into its phases
    have e : render (setupTokenPacket (t :: ts) tp w0 b1 w1 b2 w2 (g :: gs)) ++
        render (dataPacket (d :: ds) dpid v0 ((x1, v1) :: (x2, v2) :: sl) (g1 :: g2 :: gs3))
        = tokenCycles t ts tp w0 b1 w1 b2 w2 g ++ ((gs.map idleC ++ (d :: ds).map waitC) ++
            (renderSlots ((dpid, v0) :: (x1, v1) :: (x2, v2) :: sl) ++ (idleC g1 :: idleC g2 :: gs3.map idleC))) := by
      simp [render, setupTokenPacket, dataPacket, tokenCycles]
    rw [e]
    -- 1. the token
    obtain ⟨t1, hdone⟩ := token_phase c tp b1 b2 t g ts w0 w1 w2 s hs htok
    generalize tokenCycles t ts tp w0 b1 w1 b2 w2 g = A at t1 hdone ⊢
    rw [trace_append, final_append, t1]
    generalize final c s A = s1 at hdone ⊢
    -- 2. rest of the gap and the data packet's lead-in
    obtain ⟨t2, harm, hdsr, hlen2, htokr⟩ := arm_phase c gs d ds s1 hdone
    generalize gs.map idleC ++ (d :: ds).map waitC = B at t2 harm hdsr hlen2 htokr ⊢
    rw [trace_append, final_append, t2]
    generalize final c s1 B = s2 at harm hdsr hlen2 htokr ⊢
    -- 3. the data packet's bytes
    have hact := renderSlots_active ((dpid, v0) :: (x1, v1) :: (x2, v2) :: sl)
    obtain ⟨t3, harm3⟩ := armed_active_run c _ s2 hact harm
    have hx1 : x1 < 256 := h8 x1 (by simp)
    have hx2 : x2 < 256 := h8 x2 (by simp)
    have hslb : ∀ x ∈ sl, x.1 < 256 := by
      intro x hx
      have : x.1 ∈ sl.map (·.1) := List.mem_map.2 ⟨x, hx, rfl⟩
      rw [hsl] at this
      exact h8 x.1 (by simp at this ⊢; omega)
    have hsllen : sl.length ≤ 8 := by
      have := congrArg List.length hsl; simp at this; omega
    have hcap := capture_packet c dpid x1 x2 v0 v1 v2 sl s2 hdsr hlen2 hdp hx1 hx2 hsllen hslb
    rw [hsl] at hcap
    simp only [capAfter, List.nil_append, List.cons_append] at hcap
    have htok3 : (final c s2 (renderSlots ((dpid, v0) :: (x1, v1) :: (x2, v2) :: sl))).tok.fsm = .irrelevant := by
      have h1 : (step c s2 (byteC dpid)).1.tok.fsm = .irrelevant := by
        simp [step, tokStep, htokr, byteC, data_pid_not_token dpid hdp]
      have := tok_irrelevant_run c (v0.map waitC ++ renderSlots ((x1, v1) :: (x2, v2) :: sl)) _ (by
        intro i hi
        rcases List.mem_append.1 hi with h | h
        · obtain ⟨x, _, rfl⟩ := List.mem_map.1 h; rfl
        · exact renderSlots_active _ i h) h1
      simpa [renderSlots, final] using this
    generalize renderSlots ((dpid, v0) :: (x1, v1) :: (x2, v2) :: sl) = C at t3 harm3 hcap htok3 ⊢
    rw [trace_append, final_append, t3]
    generalize final c s2 C = s3 at harm3 hcap htok3 ⊢
    -- 4. end of the data packet: the deserializer strobes
    obtain ⟨n1, n2, n3, n4⟩ := cap_end c s3 [x1, x2, p2, p3, p4, p5, p6, p7] lo hi g1 hcap rfl hcrc
    have e4 : stepEvents c s3 (idleC g1) = [] := calm_no_events c s3 _ harm3.calm
    have k1 : (step c s3 (idleC g1)).1.dec.fsm = .readData := by
      simp [step, decStep, harm3.dec, harm3.noTok, harm3.noPkt]
    have k2 : (step c s3 (idleC g1)).1.tok.fsm = .idle := by simp [step, tokStep, htok3, idleC]
    have k3 : (step c s3 (idleC g1)).1.tok.pid = SETUP_PID := by simp [step, tokStep, htok3, harm3.pid]
    have k4 : (step c s3 (idleC g1)).1.tok.newToken = false := by simp [step, tokStep, htok3]
    have k5 := apLen_step c s3 (idleC g1) hcap.hlen
    simp only [trace, final, e4, List.nil_append]
    generalize (step c s3 (idleC g1)).1 = s4 at n1 n2 n3 n4 k1 k2 k3 k4 k5 ⊢
    -- 5. the report cycle
    have r1 : (step c s4 (idleC g2)).1.tok.fsm = .idle := by simp [step, tokStep, k2, idleC]
    have r2 : (step c s4 (idleC g2)).1.ds.fsm = .idle := by simp [step, deserStep, n4, idleC]
    have r3 : (step c s4 (idleC g2)).1.ds.newPacket = false := by simp [step, deserStep, n4, idleC]
    have r4 := apLen_step c s4 (idleC g2) k5
    have r5 : (step c s4 (idleC g2)).1.counter = 0 := by simp [step, counterNext, n1]
    have r6 : latched (step c s4 (idleC g2)).1
        = [.received x1 x2 (p2 + 256 * p3) (p4 + 256 * p5) (p6 + 256 * p7)] := by
      cases hi : (s4.counter == c.delay || c.hs) <;>
        simp [latched, step, decStep, k1, k4, n1, n2, n3, k3, pk, hi]
    have hlong : c.delay + 1 ≤ gs3.length := by simp at hgap; omega
    cases hi : (s4.counter == c.delay || c.hs) with
    | true =>
      -- immediate ACK (high speed, or the timer happens to read `delay`): decoder back in IDLE
      have q1 : (step c s4 (idleC g2)).2.ack = true := by simp [step, decStep, k1, k4, n1, n2, k3, hi]
      have q2 : (step c s4 (idleC g2)).1.dec.fsm = .idle := by simp [step, decStep, k1, k4, n1, n2, k3, hi]
      obtain ⟨u1, u2⟩ := boundary_idles c gs3 _ ⟨r1, r2, r3, by rw [q2]; simp, r4⟩
      have : stepEvents c s4 (idleC g2) ++ trace c (step c s4 (idleC g2)).1 (gs3.map idleC)
          = [.ack, .received x1 x2 (p2 + 256 * p3) (p4 + 256 * p5) (p6 + 256 * p7)] := by
        simp [stepEvents, q1, r6, u1]
      exact ⟨Or.inr this, fun _ => this, u2⟩
    | false =>
      have q1 : (step c s4 (idleC g2)).2.ack = false := by simp [step, decStep, k1, k4, n1, n2, k3, hi]
      have q2 : (step c s4 (idleC g2)).1.dec.fsm = .delay := by simp [step, decStep, k1, k4, n1, n2, k3, hi]
      obtain ⟨u1, u2⟩ := delay_events c hc gs3 _ r1 r2 r3 r4 q2 (by rw [r5]; omega) (by rw [r5]; omega)
      have : stepEvents c s4 (idleC g2) ++ trace c (step c s4 (idleC g2)).1 (gs3.map idleC)
          = [.received x1 x2 (p2 + 256 * p3) (p4 + 256 * p5) (p6 + 256 * p7), .ack] := by
        simp [stepEvents, q1, r6, u1]
      have hhs : c.hs = false := by
        cases hh : c.hs with
        | false => rfl
        | true => simp [hh] at hi
      exact ⟨Or.inl this, fun h => by rw [hhs] at h; exact absurd h (by simp), u2⟩

theorem boundary_init : Boundary init := ⟨rfl, rfl, rfl, by simp [init], by simp [init]⟩

/-- the `received` events among a list of events / the number of ACKs -/
def receivedOnly : List Event → List Event
  | [] => []
  | .ack :: es => receivedOnly es
  | e :: es => e :: receivedOnly es
def ackCount : List Event → Nat
  | [] => 0
  | .ack :: es => ackCount es + 1
  | _ :: es => ackCount es

/-- **C06, main theorem — earlier garbage is harmless.**  After ANY prefix of legal packets from
reset (corrupted or short or over-long or aborted data packets, PID-only packets, handshakes, own
and foreign tokens, arbitrary bytes; any timing; packets that start with a data PID followed by
the handshake gap), a valid SETUP transaction to this device is reported exactly once, with
exactly the little-endian decoded fields, and ACKed exactly once; nothing else happens during it,
and the decoder is at a packet boundary again afterwards. -/
theorem earlier_garbage_is_harmless (c : Config) (hc : c.delay ≤ c.counterMax + 1) (garbage : List RxPacket)
    (hw : ∀ p ∈ garbage, p.wf) (hg : ∀ p ∈ garbage, gapOk c p)
    (tl tgap dl dgap w0 w1 w2 v0 : List Nat) (tp b1 b2 dpid p0 p1 p2 p3 p4 p5 p6 p7 lo hi : Nat)
    (body : List (Nat × List Nat))
    (hbody : body.map (·.1) = [p0, p1, p2, p3, p4, p5, p6, p7, lo, hi])
    (hTw : (setupTokenPacket tl tp w0 b1 w1 b2 w2 tgap).wf) (hDw : (dataPacket dl dpid v0 body dgap).wf)
    (htok : IsSetupTokenFor c.addr tp b1 b2) (hdp : isDataPid dpid = true)
    (h8 : ∀ b ∈ [p0, p1, p2, p3, p4, p5, p6, p7, lo, hi], b < 256)
    (hcrc : usb2Crc16 [p0, p1, p2, p3, p4, p5, p6, p7] = lo + 256 * hi)
    (hgap : c.delay + 3 ≤ dgap.length) :
    let txn := render (setupTokenPacket tl tp w0 b1 w1 b2 w2 tgap) ++ render (dataPacket dl dpid v0 body dgap)
    let rep := Event.received p0 p1 (p2 + 256 * p3) (p4 + 256 * p5) (p6 + 256 * p7)
    (trace c init (renderAll garbage ++ txn) = trace c init (renderAll garbage) ++ [rep, .ack] ∨
     trace c init (renderAll garbage ++ txn) = trace c init (renderAll garbage) ++ [.ack, rep]) ∧
    Boundary (final c init (renderAll garbage ++ txn)) := by
  intro txn rep
  have hb := garbage_list_keeps_boundary c hc garbage init boundary_init hw hg
  obtain ⟨h1, _, h3⟩ := setup_transaction_exact c hc _ hb tl tgap dl dgap w0 w1 w2 v0 tp b1 b2 dpid
    p0 p1 p2 p3 p4 p5 p6 p7 lo hi body hbody hTw hDw htok hdp h8 hcrc hgap
  rw [trace_append, final_append]
  refine ⟨?_, h3⟩
  rcases h1 with h | h
  · left; rw [h]
  · right; rw [h]

/-- **setup_fields_exact**: the one `received` strobe of a valid SETUP transaction carries
bmRequestType = byte 0, bRequest = byte 1, wValue = bytes 2,3 (LE), wIndex = bytes 4,5, wLength =
bytes 6,7; and there is exactly one ACK. -/
theorem setup_fields_exact (c : Config) (hc : c.delay ≤ c.counterMax + 1) (s : State) (hs : Boundary s)
    (tl tgap dl dgap w0 w1 w2 v0 : List Nat) (tp b1 b2 dpid p0 p1 p2 p3 p4 p5 p6 p7 lo hi : Nat)
    (body : List (Nat × List Nat))
    (hbody : body.map (·.1) = [p0, p1, p2, p3, p4, p5, p6, p7, lo, hi])
    (hTw : (setupTokenPacket tl tp w0 b1 w1 b2 w2 tgap).wf) (hDw : (dataPacket dl dpid v0 body dgap).wf)
    (htok : IsSetupTokenFor c.addr tp b1 b2) (hdp : isDataPid dpid = true)
    (h8 : ∀ b ∈ [p0, p1, p2, p3, p4, p5, p6, p7, lo, hi], b < 256)
    (hcrc : usb2Crc16 [p0, p1, p2, p3, p4, p5, p6, p7] = lo + 256 * hi)
    (hgap : c.delay + 3 ≤ dgap.length) :
    receivedOnly (trace c s
        (render (setupTokenPacket tl tp w0 b1 w1 b2 w2 tgap) ++ render (dataPacket dl dpid v0 body dgap)))
      = [.received p0 p1 (p2 + 256 * p3) (p4 + 256 * p5) (p6 + 256 * p7)] ∧
    ackCount (trace c s
        (render (setupTokenPacket tl tp w0 b1 w1 b2 w2 tgap) ++ render (dataPacket dl dpid v0 body dgap))) = 1 := by
  obtain ⟨h1, _, _⟩ := setup_transaction_exact c hc s hs tl tgap dl dgap w0 w1 w2 v0 tp b1 b2 dpid
    p0 p1 p2 p3 p4 p5 p6 p7 lo hi body hbody hTw hDw htok hdp h8 hcrc hgap
  rcases h1 with h | h <;> rw [h] <;> simp [receivedOnly, ackCount]

/-- **setup_reported_iff, "only if" direction at cycle level (partial)**: whatever the history,
a `received` strobe is only ever latched by a decoder in READ_DATA on a deserializer strobe of
length exactly 8 while the token detector's PID is SETUP (it is cleared by tokens for other
devices and replaced by any other token of ours) — and `ack` is only raised then or out of
INTERPACKET_DELAY. -/
theorem setup_reported_iff_partial (c : Config) (s : State) (i : RxCycle) :
    ((step c s i).1.dec.received = true →
      s.dec.fsm = .readData ∧ s.ds.newPacket = true ∧ s.ds.length = 8 ∧ s.tok.pid = SETUP_PID) ∧
    ((step c s i).2.ack = true →
      s.dec.fsm = .delay ∨ (s.dec.fsm = .readData ∧ s.ds.newPacket = true ∧ s.ds.length = 8 ∧
        s.tok.pid = SETUP_PID)) := by
  constructor
  · intro h
    cases hf : s.dec.fsm with
    | idle => simp [step, decStep, hf] at h
    | delay => simp [step, decStep, hf] at h; split at h <;> simp at h
    | readData =>
      cases hn : s.ds.newPacket with
      | false => simp [step, decStep, hf, hn] at h; split at h <;> simp at h
      | true =>
        by_cases hl : s.ds.length = 8 ∧ s.tok.pid = SETUP_PID
        · exact ⟨rfl, rfl, hl.1, hl.2⟩
        · have : (s.ds.length == 8 && s.tok.pid == SETUP_PID) = false := by
            cases h1 : (s.ds.length == 8) <;> cases h2 : (s.tok.pid == SETUP_PID) <;> simp_all
          simp [step, decStep, hf, hn, this] at h
          split at h <;> simp at h
  · intro h
    cases hf : s.dec.fsm with
    | idle => simp [step, decStep, hf] at h
    | delay => left; rfl
    | readData =>
      right
      cases hn : s.ds.newPacket with
      | false => simp [step, decStep, hf, hn] at h
      | true =>
        by_cases hl : s.ds.length = 8 ∧ s.tok.pid = SETUP_PID
        · exact ⟨rfl, rfl, hl.1, hl.2⟩
        · have : (s.ds.length == 8 && s.tok.pid == SETUP_PID) = false := by
            cases h1 : (s.ds.length == 8) <;> cases h2 : (s.tok.pid == SETUP_PID) <;> simp_all
          simp [step, decStep, hf, hn, this] at h

/-- … and a packet that does not start with a data PID (token, handshake, SOF, garbage PID, empty
burst) causes no `received` and no `ack` at all, from any packet boundary. -/
theorem nondata_packet_silent (c : Config) (p : RxPacket) (s : State) (hs : Boundary s) (hw : p.wf)
    (hnd : ¬ ∃ pid rest, p.bytes = pid :: rest ∧ isDataPid pid = true) : trace c s (render p) = [] := by
  obtain ⟨lead, slots, gap⟩ := p
  obtain ⟨hl, hgap⟩ := hw
  match lead, gap, hl, hgap with
  | d :: ds, g :: gs, _, _ =>
    have hact : ∀ i ∈ (d :: ds).map waitC ++ renderSlots slots, i.active = true := by
      intro i hi
      rcases List.mem_append.1 hi with h | h
      · obtain ⟨x, _, rfl⟩ := List.mem_map.1 h; rfl
      · exact renderSlots_active slots i h
    have e : render ⟨d :: ds, slots, g :: gs⟩
        = ((d :: ds).map waitC ++ renderSlots slots) ++ (idleC g :: gs.map idleC) := by
      simp [render]
    obtain ⟨t1, hcalm⟩ := calm_active_run c _ s hact ⟨hs.noPkt, hs.dec⟩
    have hlen := apLen_run c ((d :: ds).map waitC ++ renderSlots slots) s hs.apLen
    have hnc : (final c s ((d :: ds).map waitC ++ renderSlots slots)).ds.fsm ≠ .capture := by
      match slots, hnd with
      | [], _ =>
        have h0 := ds_lead c d ds s hs.ds
        simp only [renderSlots, List.append_nil]; rw [h0]; simp
      | (pid, w) :: rest, hnd =>
        have hp : isDataPid pid = false := by
          cases hx : isDataPid pid with
          | false => rfl
          | true => exact absurd ⟨pid, rest.map (·.1), by simp [RxPacket.bytes], hx⟩ hnd
        exact ds_not_capture c d ds pid w rest s hs.ds hp
    rw [e, trace_append, t1]
    generalize final c s ((d :: ds).map waitC ++ renderSlots slots) = s1 at hcalm hlen hnc
    obtain ⟨f1, f2, f3, f4⟩ := first_idle c s1 g hcalm
    obtain ⟨u1, _⟩ := boundary_idles c gs _ ⟨f1, f2, f4 hnc, f3, apLen_step c _ _ hlen⟩
    simp [trace, calm_no_events c s1 _ hcalm, u1]

/-! ## Non-vacuity: concrete histories satisfying the hypotheses, evaluated on the model -/

def demoCfg : Config := ⟨0, false, 10, 640⟩
/-- SETUP token to address 0, endpoint 0 -/
def demoToken : RxPacket := setupTokenPacket [0] 0x2D [] 0x00 [3] 0x10 [] [0]
/-- DATA0 GET_DESCRIPTOR(device, 64) with its correct CRC16 -/
def demoBody : List Nat := [0x80, 6, 0, 1, 0, 0, 0x40, 0]
def demoData : RxPacket :=
  dataPacket [0, 0] 0xC3 [] ((demoBody ++ [usb2Crc16 demoBody % 256, usb2Crc16 demoBody / 256]).map (fun b => (b, [])))
    (List.replicate 14 0)
/-- the F2 trigger: a short data packet with a corrupted CRC; the F24 trigger: a foreign OUT token -/
def demoBadData : RxPacket := dataPacket [0] 0x4B [] [(1, []), (2, []), (3, [9]), (0xFF, []), (0xFF, [])] (List.replicate 13 0)
def demoForeignOut : RxPacket := ⟨[0], [(0xE1, []), (0xA1, []), (0xD0, [])], [0]⟩   -- OUT, address 33, endpoint 1

example : IsSetupTokenFor 0 0x2D 0x00 0x10 := by unfold IsSetupTokenFor; decide +kernel
example : demoToken.wf ∧ demoData.wf ∧ demoBadData.wf ∧ demoForeignOut.wf := by decide
example : gapOk demoCfg demoBadData ∧ gapOk demoCfg demoData := ⟨fun _ => by decide, fun _ => by decide⟩
example : usb2Crc16 demoBody = usb2Crc16 demoBody % 256 + 256 * (usb2Crc16 demoBody / 256) ∧
    usb2Crc16 demoBody % 256 < 256 ∧ usb2Crc16 demoBody / 256 < 256 := by decide +kernel
/-- "OUT, corrupted DATA1 (F2), SETUP, corrupted DATA (F2b), foreign OUT + its DATA0 (F24), SETUP, DATA0":
only the last transaction is reported, once, and ACKed once. -/
example : trace demoCfg init (renderAll [demoBadData, demoToken, demoBadData, demoForeignOut, demoData,
      demoToken, demoData])
    = [.received 0x80 6 0x100 0 0x40, .ack] := by decide +kernel

end LunaVerif.SetupDecoder
