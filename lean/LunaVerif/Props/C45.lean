import LunaVerif.Model.Usb3.TransactionPacketGenerator
/-!
# C45 — Transaction packet requests produce the requested transaction packet

"Each request to send an ACK, STALL, NRDY or ERDY made while the generator is ready produces exactly
one transaction packet of that subtype, carrying the device address, endpoint number, retry flag and
sequence number present when the request was made."
Quantifier: all request strobes, field values and header-queue ready timings.

Spec (`packet`): USB 3.2 §8.5 transaction packets, DWORD0 = type 00100b | device address in bits
31:25; DWORD1 = subtype in bits 3:0, Rty bit 6 (ACK), direction bit 7 (0 for ACK/STALL sent for an
OUT endpoint, 1 for NRDY/ERDY of an IN endpoint as the gateware uses them), endpoint number bits
11:8, NumP bits 20:16 (= 1, no bursting), sequence number bits 25:21 (ACK).

The model is the *repaired* gateware (F20); `erdy_yields_nrdy_unrepaired` keeps the defect visible.
When several strobes coincide the gateware's program order decides: ERDY > NRDY > STALL > ACK.
-/
namespace LunaVerif.TransactionPacketGenerator

inductive Kind | ack | stall | nrdy | erdy
deriving DecidableEq, Repr

/-- What a cycle's strobes request (priority as in the gateware when several are high). -/
def requested (i : In) : Option Kind :=
  if i.sendErdy then some .erdy else if i.sendNrdy then some .nrdy
  else if i.sendStall then some .stall else if i.sendAck then some .ack else none

/-- The transaction packet for a request with the given field values. -/
def packet (k : Kind) (addr ep : Nat) (retry : Bool) (seq : Nat) : Header :=
  let dw0 := 0b00100 + 2 ^ 25 * (addr % 128)
  let epf := 2 ^ 8 * (ep % 16)
  match k with
  | .ack   => ⟨dw0, 1 + 2 ^ 6 * b2n retry + epf + 2 ^ 16 + 2 ^ 21 * (seq % 32), 0, 0⟩
  | .nrdy  => ⟨dw0, 2 + 2 ^ 7 + epf, 0, 0⟩
  | .erdy  => ⟨dw0, 3 + 2 ^ 7 + epf + 2 ^ 16, 0, 0⟩
  | .stall => ⟨dw0, 5 + epf + 2 ^ 16, 0, 0⟩

/-- Packets requested in a trace: cycles with `interface.ready` and a request strobe, with the
field values of *that* cycle. -/
def acceptedPkts (tr : List (In × Out)) : List Header :=
  tr.filterMap fun (i, o) =>
    if o.ifReady then (requested i).map fun k => packet k i.address i.ep i.retry i.seq else none

/-- Packets handed to the header queue: cycles with `header_source.valid ∧ ready`. -/
def emittedPkts (tr : List (In × Out)) : List Header :=
  tr.filterMap fun (i, o) => if o.valid && i.hsReady then some o.header else none

/-- The packet a state still owes (it is in a SEND_x state). -/
def pendingPkts (s : State) : List Header :=
  match s.fsm with
  | .dispatch  => []
  | .sendAck   => [packet .ack s.addr s.ep s.err s.seq]
  | .sendNrdy  => [packet .nrdy s.addr s.ep s.err s.seq]
  | .sendErdy  => [packet .erdy s.addr s.ep s.err s.seq]
  | .sendStall => [packet .stall s.addr s.ep s.err s.seq]

theorem mod_lemmas (a e q : Nat) :
    a % 128 % 128 = a % 128 ∧ e % 128 % 16 = e % 16 ∧ q % 32 % 32 = q % 32 := by omega

/-- One cycle: what was owed plus what is requested now = what is emitted now plus what is owed
afterwards. -/
theorem step_conserves (s : State) (i : In) :
    pendingPkts s ++ acceptedPkts [(i, (step repaired s i).2)]
      = emittedPkts [(i, (step repaired s i).2)] ++ pendingPkts (step repaired s i).1 := by
  obtain ⟨f, ep, err, seq, addr⟩ := s
  obtain ⟨iep, irt, isq, a, st, nr, er, iad, rdy⟩ := i
  have ⟨h1, h2, h3⟩ := mod_lemmas iad iep isq
  cases f <;> cases a <;> cases st <;> cases nr <;> cases er <;> cases rdy <;>
    simp [step, pendingPkts, acceptedPkts, emittedPkts, requested, dispatchNext, repaired, packet,
      headerOf, dw0Of, TYPE_TRANSACTION, SUB_ACK, SUB_NRDY, SUB_ERDY, SUB_STALL, h1, h2, h3]

theorem acceptedPkts_cons (x : In × Out) (tr : List (In × Out)) :
    acceptedPkts (x :: tr) = acceptedPkts [x] ++ acceptedPkts tr := by
  simp only [acceptedPkts, List.filterMap_cons, List.filterMap_nil]
  split <;> simp

theorem emittedPkts_cons (x : In × Out) (tr : List (In × Out)) :
    emittedPkts (x :: tr) = emittedPkts [x] ++ emittedPkts tr := by
  simp only [emittedPkts, List.filterMap_cons, List.filterMap_nil]
  split <;> simp

/-- **C45.**  For every start state, every request/field/ready history: the packets handed to the
header queue are exactly the packets of the accepted requests, in order, each once, each built from
the address / endpoint / retry / sequence values of its request cycle — up to the one packet that
may still be waiting for `header_source.ready` at the end of the history. -/
theorem request_yields_matching_packet (s : State) (h : List In) :
    pendingPkts s ++ acceptedPkts (run repaired s h)
      = emittedPkts (run repaired s h) ++ pendingPkts (final repaired s h) := by
  induction h generalizing s with
  | nil => simp [run, final, acceptedPkts, emittedPkts]
  | cons i is ih =>
    simp only [run, final]
    rw [acceptedPkts_cons, emittedPkts_cons, ← List.append_assoc, step_conserves, List.append_assoc,
      ih, List.append_assoc]

/-- From reset nothing is owed. -/
theorem request_yields_matching_packet_from_reset (h : List In) :
    acceptedPkts (run repaired init h)
      = emittedPkts (run repaired init h) ++ pendingPkts (final repaired init h) := by
  have := request_yields_matching_packet init h
  simpa [pendingPkts, init] using this

/-- Back-pressure: while a packet is owed, `valid` is high and the header on the queue *is* that
packet (so it is held unchanged under stalls); while nothing is owed `valid` is low, the generator
is ready, and `done` marks exactly the transfer cycle. -/
theorem outputs_while_pending (s : State) (i : In) :
    let o := (step repaired s i).2
    (o.valid = !(pendingPkts s).isEmpty) ∧ (o.ifReady = (pendingPkts s).isEmpty) ∧
    (o.done = (o.valid && i.hsReady)) ∧ (∀ p ∈ pendingPkts s, o.header = p) := by
  obtain ⟨f, ep, err, seq, addr⟩ := s
  cases f <;>
    simp [step, pendingPkts, packet, headerOf, dw0Of, TYPE_TRANSACTION, SUB_ACK, SUB_NRDY, SUB_ERDY,
      SUB_STALL]

/-- Queue back-pressure of any length: a packet that is owed stays owed, unchanged, through `k`
stalled cycles and is handed over in the first ready cycle, after which the generator is ready
again. -/
theorem stalls_then_transfer (s : State) (p : Header) (hp : pendingPkts s = [p]) (stalls : List In)
    (hst : ∀ i ∈ stalls, i.hsReady = false) (i : In) (hr : i.hsReady = true) :
    emittedPkts (run repaired s (stalls ++ [i])) = [p] ∧
      pendingPkts (final repaired s (stalls ++ [i])) = [] := by
  induction stalls generalizing s with
  | nil =>
    obtain ⟨f, ep, err, seq, addr⟩ := s
    cases f <;> simp_all [run, final, step, emittedPkts, pendingPkts, packet, headerOf, dw0Of,
      TYPE_TRANSACTION, SUB_ACK, SUB_NRDY, SUB_ERDY, SUB_STALL]
  | cons j js ih =>
    have hj : j.hsReady = false := hst j List.mem_cons_self
    have hs' : pendingPkts (step repaired s j).1 = [p] := by
      obtain ⟨f, ep, err, seq, addr⟩ := s
      cases f <;> simp_all [step, pendingPkts]
    have hem : emittedPkts [(j, (step repaired s j).2)] = [] := by
      simp [emittedPkts, hj]
    have := ih (step repaired s j).1 hs' (fun k hk => hst k (List.mem_cons_of_mem _ hk))
    simp only [List.cons_append, run, final]
    rw [emittedPkts_cons, hem]
    simpa using this

/-- F20 witness: with the unrepaired dispatch an ERDY request (endpoint 3, address 5) puts an NRDY
packet (subtype 2) on the queue. -/
theorem erdy_yields_nrdy_unrepaired :
    let erdyReq : In := ⟨3, false, 0, false, false, false, true, 5, true⟩
    emittedPkts (run unrepaired init [erdyReq, erdyReq]) = [packet .nrdy 5 3 false 0] := by
  decide

/-- Non-vacuity: ACK (retry, seq 9) stalled twice, then an ERDY, from reset. -/
example :
    let ack : In := ⟨0x12, true, 9, true, false, false, false, 0x55, false⟩
    let idle (r : Bool) : In := ⟨0, false, 0, false, false, false, false, 0, r⟩
    let erdy : In := ⟨1, false, 0, false, false, false, true, 0x55, false⟩
    emittedPkts (run repaired init [ack, idle false, idle false, idle true, erdy, idle true])
      = [packet .ack 0x55 0x12 true 9, packet .erdy 0x55 1 false 0] := by decide

end LunaVerif.TransactionPacketGenerator
