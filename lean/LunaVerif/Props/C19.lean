import LunaVerif.Model.Usb2.ResetSequencer
/-!
# C19 — USB2 reset, high-speed handshake and suspend follow the line-state timing rules

"The device enters high-speed operation only after a bus reset in which it has driven its chirp K
and then observed at least three host chirp K-J pairs whose every state lasted at least 2.5 us (or
when resuming from a suspend entered at high speed); it never starts that handshake while
restricted to full or low speed, leaves high speed within two cycles of such a restriction, and
falls back to full/low speed when the host chirp does not arrive in time. A bus reset is reported
only while VBUS is absent or after SE0 has persisted continuously for at least 2.5 us (5 us when
active at full/low speed; 3 ms of SE0 followed by 200 us of non-idle at high speed), and suspend is
entered only after 3 ms of continuous idle."

The statements are about *all* input histories: `Reach c s g` says that the sequencer state `s`
and the history summary `g` (`Ghost`: run lengths of the line states, the chirp log since the last
bus reset — computed from the input ports and the output ports only, never from the FSM state) are
what an arbitrary input history leads to from reset.  All theorems hold for every configuration of
cycle constants satisfying `Valid` (the real constants `luna` do: `luna_valid`).
-/
namespace LunaVerif.ResetSeq

/-- What the theorems need of the cycle constants: non-zero, and representable in the timers. -/
structure Valid (c : Config) : Prop where
  pos3   : 0 < c.c3ms
  m3     : c.c3ms < c.M
  m25    : c.c2p5ms < c.M
  m200   : c.c200us < c.M

theorem luna_valid : Valid luna := by constructor <;> decide

/-- High-speed operation as seen on the ports: speed HIGH and normal operating mode
(the chirp handshake runs with speed HIGH but operating mode CHIRP). -/
def hsop (o : Out) : Bool := o.speed == .HIGH && o.opMode == .NORMAL
def hsopS (s : State) : Bool := s.speed == .HIGH && s.opMode == .NORMAL

/-- History summary at the beginning of a cycle (everything refers to the cycles before it). -/
structure Ghost where
  se0Run     : Nat := 0          -- length of the SE0 run ending with the previous cycle
  idleRun    : Nat := 0          -- … of the run of idle line states (idle for the speed reported in that cycle)
  kRun       : Nat := 0          -- … of the K run
  jRun       : Nat := 0          -- … of the J run
  hsSe0      : Nat := 0          -- … of the run of undisturbed high-speed idle (hsop, SE0, VBUS, unrestricted)
  win        : Option Nat := none -- `some k`: this cycle is cycle k of the 200us window that follows 3ms of HS idle
  prep       : Nat := 0          -- since the last bus reset: cycles in chirp mode before the device chirp began
  chirp      : Nat := 0          -- since the last bus reset: cycles in which the device drove its chirp K
  afterChirp : Option Nat := none -- since the last bus reset: `some k` = the device chirp ended k cycles ago
  wantJ      : Bool := false     -- K-J pair recogniser since the device chirp: next wanted state
  pairs      : Nat := 0          -- … complete K-J pairs with every state ≥ 2.5us
  susHs      : Bool := false     -- the present (or last) suspend was entered from the high-speed window
deriving Repr

/-- Update of the history summary by one cycle with inputs `i` and port outputs `o`. -/
def gstep (c : Config) (g : Ghost) (i : In) (o : Out) : Ghost :=
  let arm := hsop o && decide (c.c3ms ≤ g.hsSe0) && !restricted i
  let restart := o.busReset || o.txValid
  let kOk := !g.wantJ && i.line == .K && decide (c.c2p5us ≤ g.kRun + 1)
  let jOk := g.wantJ && i.line == .J && decide (c.c2p5us ≤ g.jRun + 1)
  { se0Run := if i.line == .SE0 then g.se0Run + 1 else 0
    idleRun := if busIdle o.speed i.line then g.idleRun + 1 else 0
    kRun := if i.line == .K then g.kRun + 1 else 0
    jRun := if i.line == .J then g.jRun + 1 else 0
    hsSe0 := if hsop o && i.line == .SE0 && i.vbus && !restricted i then g.hsSe0 + 1 else 0
    win := if arm then some 0 else
             match g.win with
             | some k => if k < c.c200us then some (k + 1) else none
             | none => none
    prep := if o.busReset then 0
            else if o.opMode == .CHIRP && !o.txValid && g.chirp == 0 then g.prep + 1 else g.prep
    chirp := if o.busReset then 0 else if o.txValid then g.chirp + 1 else g.chirp
    afterChirp := if o.busReset then none else if o.txValid then some 0 else g.afterChirp.map (· + 1)
    wantJ := if restart then false else if kOk then true else if jOk then false else g.wantJ
    pairs := if restart then 0 else if jOk then g.pairs + 1 else g.pairs
    susHs := if o.suspended then g.susHs else (g.win == some c.c200us && i.line == .J) }

/-- `(s, g)` is reachable from reset by some input history. -/
inductive Reach (c : Config) : State → Ghost → Prop
  | init : Reach c init {}
  | step {s g} (i : In) : Reach c s g → Reach c (step c s i).1 (gstep c g i (step c s i).2)

/-! ## The invariant relating the FSM registers to the history summary -/

def qOf (s : State) : Nat :=
  2 * s.validPairs + (if s.fsm = .AWAIT_HOST_J ∨ s.fsm = .IN_HOST_J then 1 else 0)
def pOf (g : Ghost) : Nat := 2 * g.pairs + (if g.wantJ then 1 else 0)

/-- Common part for the four host-chirp states. -/
def Hs4 (c : Config) (s : State) (g : Ghost) : Prop :=
  g.afterChirp = some s.timer ∧ s.timer ≤ c.c2p5ms ∧ c.c2ms + 1 ≤ g.prep + g.chirp ∧
  qOf s ≤ pOf g ∧ s.validPairs ≤ 2

def StInv (c : Config) (s : State) (g : Ghost) : Prop :=
  match s.fsm with
  | .LS_FS_NON_RESET      => s.timer ≤ g.se0Run ∧ s.lst ≤ g.idleRun ∧ s.speed ≠ .HIGH
  | .HS_NON_RESET         => s.timer = g.hsSe0 ∧ s.timer ≤ c.c3ms ∧ hsopS s = true
  | .START_HS_DETECTION   => g.chirp = 0 ∧ g.afterChirp = none
  | .PREPARE_FOR_CHIRP_0  => s.timer ≤ g.prep ∧ g.chirp = 0 ∧ g.afterChirp = none ∧ s.opMode = .CHIRP
  | .PREPARE_FOR_CHIRP_1  => s.timer ≤ g.prep ∧ g.chirp = 0 ∧ g.afterChirp = none ∧ s.opMode = .CHIRP
  | .DEVICE_CHIRP         => s.timer ≤ g.prep + g.chirp
  | .AWAIT_HOST_K         => Hs4 c s g
  | .AWAIT_HOST_J         => Hs4 c s g
  | .IN_HOST_K            => Hs4 c s g ∧ s.lst + 1 ≤ g.kRun
  | .IN_HOST_J            => Hs4 c s g ∧ s.lst + 1 ≤ g.jRun
  | .IS_HIGH_SPEED        => s.opMode = .CHIRP → ∃ k, g.afterChirp = some k ∧ k ≤ c.c2p5ms + 1
  | .IS_LOW_OR_FULL_SPEED => s.opMode = .CHIRP → ∃ k, g.afterChirp = some k ∧ k ≤ c.c2p5ms + 1
  | .DETECT_HS_SUSPEND    => g.win = some s.timer ∧ s.timer ≤ c.c200us ∧ s.speed ≠ .HIGH
  | .SUSPENDED            => s.timer ≤ g.se0Run ∧ s.wasHs = g.susHs ∧ s.speed ≠ .HIGH
  | .INITIALIZE           => s.speed ≠ .HIGH
  | .DISCONNECT           => True

structure Inv (c : Config) (s : State) (g : Ghost) : Prop where
  /-- high-speed operation on the ports only in these three states -/
  i1  : hsopS s = true → s.fsm = .HS_NON_RESET ∨ s.fsm = .IS_LOW_OR_FULL_SPEED ∨ s.fsm = .DISCONNECT
  /-- chirp mode on the ports only in these states -/
  i2  : s.opMode = .CHIRP → s.fsm = .PREPARE_FOR_CHIRP_0 ∨ s.fsm = .PREPARE_FOR_CHIRP_1 ∨ s.fsm = .DEVICE_CHIRP ∨
          s.fsm = .AWAIT_HOST_K ∨ s.fsm = .IN_HOST_K ∨ s.fsm = .AWAIT_HOST_J ∨ s.fsm = .IN_HOST_J ∨
          s.fsm = .IS_HIGH_SPEED ∨ s.fsm = .IS_LOW_OR_FULL_SPEED
  hsz : hsopS s = true → s.fsm ≠ .HS_NON_RESET → g.hsSe0 = 0
  win : s.fsm ≠ .DETECT_HS_SUSPEND → g.win = none
  st  : StInv c s g

theorem wrapInc_le (M x : Nat) : wrapInc M x ≤ x + 1 := Nat.mod_le _ _
theorem wrapInc_lt {M x : Nat} (h : x + 1 < M) : wrapInc M x = x + 1 := Nat.mod_eq_of_lt h

theorem inv_init (c : Config) : Inv c init {} := by
  constructor <;> simp [init, hsopS, StInv]

/-- The invariant is preserved by every clock cycle, whatever the inputs. -/
theorem inv_step (c : Config) (hv : Valid c) (s : State) (g : Ghost) (i : In) (h : Inv c s g) :
    Inv c (step c s i).1 (gstep c g i (step c s i).2) := by
  obtain ⟨i1, i2, hsz, win, st⟩ := h
  obtain ⟨p3, m3, m25, m200⟩ := hv
  obtain ⟨fsm, timer, lst, vp, wasHs, tddis, speed, opMode, termSel⟩ := s
  obtain ⟨low, full, busy, vbus, line, disc⟩ := i
  have wt := wrapInc_le c.M timer
  have wl := wrapInc_le c.M lst
  have wt' := @wrapInc_lt c.M timer
  have wl' := @wrapInc_lt c.M lst
  cases fsm <;> simp only [StInv, hsopS, Hs4, qOf, pOf] at * <;> constructor <;>
    simp only [step, stepInitialize, stepLsFs, stepHs, stepStartHs, stepPrepare, stepDeviceChirp, stepAwaitK,
      stepInK, stepAwaitJ, stepInJ, stepIsHs, stepIsLsFs, stepDetectHsSuspend, stepSuspended, stepDisconnect,
      gstep, mkOut, hsop, restricted, StInv, hsopS, Hs4, qOf, pOf] <;> grind

theorem reach_inv (c : Config) (hv : Valid c) {s : State} {g : Ghost} (h : Reach c s g) : Inv c s g := by
  induction h with
  | init => exact inv_init c
  | step i _ ih => exact inv_step c hv _ _ i ih

/-- Executable form of `Reach`: state and history summary after an input history (oldest first). -/
def runG (c : Config) : State × Ghost → List In → State × Ghost
  | sg, [] => sg
  | sg, i :: is => runG c ((step c sg.1 i).1, gstep c sg.2 i (step c sg.1 i).2) is

theorem reach_runG (c : Config) (hist : List In) {s : State} {g : Ghost} (h : Reach c s g) :
    Reach c (runG c (s, g) hist).1 (runG c (s, g) hist).2 := by
  induction hist generalizing s g with
  | nil => exact h
  | cons i is ih => exact ih (Reach.step i h)

/-! ## Port-level facts that need no invariant -/

/-- The registered outputs are the state registers; `suspended` is the SUSPENDED state; the chirp is
driven exactly in DEVICE_CHIRP. -/
theorem out_regs (c : Config) (s : State) (i : In) :
    (step c s i).2.speed = s.speed ∧ (step c s i).2.opMode = s.opMode ∧ (step c s i).2.termSel = s.termSel ∧
    ((step c s i).2.suspended = true ↔ s.fsm = .SUSPENDED) ∧
    ((step c s i).2.txValid = true ↔ s.fsm = .DEVICE_CHIRP) := by
  obtain ⟨fsm, timer, lst, vp, wasHs, tddis, speed, opMode, termSel⟩ := s
  cases fsm <;>
    simp [step, stepInitialize, stepLsFs, stepHs, stepStartHs, stepPrepare, stepDeviceChirp, stepAwaitK,
      stepInK, stepAwaitJ, stepInJ, stepIsHs, stepIsLsFs, stepDetectHsSuspend, stepSuspended, stepDisconnect, mkOut]

theorem hsop_out (c : Config) (s : State) (i : In) : hsop (step c s i).2 = hsopS s := by
  simp [hsop, hsopS, out_regs]

/-- High-speed operation appears on the ports only out of the IS_HIGH_SPEED state. -/
theorem hsop_rises_only_from_is_high_speed (c : Config) (s : State) (i : In) :
    hsopS s = false → hsopS (step c s i).1 = true → s.fsm = .IS_HIGH_SPEED := by
  obtain ⟨fsm, timer, lst, vp, wasHs, tddis, speed, opMode, termSel⟩ := s
  cases fsm <;>
    simp only [step, stepInitialize, stepLsFs, stepHs, stepStartHs, stepPrepare, stepDeviceChirp, stepAwaitK,
      stepInK, stepAwaitJ, stepInJ, stepIsHs, stepIsLsFs, stepDetectHsSuspend, stepSuspended, stepDisconnect,
      hsopS] <;> grind

/-- Chirp mode appears on the ports only out of the START_HS_DETECTION state. -/
theorem chirp_mode_only_via_start (c : Config) (s : State) (i : In) :
    s.opMode ≠ .CHIRP → (step c s i).1.opMode = .CHIRP → s.fsm = .START_HS_DETECTION := by
  obtain ⟨fsm, timer, lst, vp, wasHs, tddis, speed, opMode, termSel⟩ := s
  cases fsm <;>
    simp only [step, stepInitialize, stepLsFs, stepHs, stepStartHs, stepPrepare, stepDeviceChirp, stepAwaitK,
      stepInK, stepAwaitJ, stepInJ, stepIsHs, stepIsLsFs, stepDetectHsSuspend, stepSuspended, stepDisconnect] <;>
    grind

/-! ## The property -/

/-- **never starts the handshake while restricted** (and only together with a bus-reset strobe): the
handshake entry state is entered, from whatever state and inputs, only in a cycle in which neither
`low_speed_only` nor `full_speed_only` is asserted and `bus_reset` is reported. -/
theorem no_chirp_when_restricted (c : Config) (s : State) (i : In) :
    (step c s i).1.fsm = .START_HS_DETECTION → restricted i = false ∧ (step c s i).2.busReset = true := by
  obtain ⟨fsm, timer, lst, vp, wasHs, tddis, speed, opMode, termSel⟩ := s
  cases fsm <;>
    simp only [step, stepInitialize, stepLsFs, stepHs, stepStartHs, stepPrepare, stepDeviceChirp, stepAwaitK,
      stepInK, stepAwaitJ, stepInJ, stepIsHs, stepIsLsFs, stepDetectHsSuspend, stepSuspended, stepDisconnect,
      mkOut, restricted] <;> grind

/-- **high speed only after the handshake**: whenever, after any input history, the sequencer moves
to IS_HIGH_SPEED (the only state from which high-speed operation appears on the ports), then either
since the last `bus_reset` strobe (the history including this cycle) the device chirp and its
preparation lasted 2 ms + 1 cycle and afterwards at least three K-J pairs with every state ≥ 2.5 us
were seen on the line; or the device is suspended and that suspend was entered from the
high-speed window (3 ms of high-speed idle, 200 us, then J). -/
theorem hs_only_after_handshake (c : Config) (hv : Valid c) {s : State} {g : Ghost} (h : Reach c s g) (i : In) :
    (step c s i).1.fsm = .IS_HIGH_SPEED →
      (3 ≤ (gstep c g i (step c s i).2).pairs ∧
        c.c2ms + 1 ≤ (gstep c g i (step c s i).2).prep + (gstep c g i (step c s i).2).chirp) ∨
      ((step c s i).2.suspended = true ∧ g.susHs = true) := by
  obtain ⟨i1, i2, hsz, win, st⟩ := reach_inv c hv h
  obtain ⟨fsm, timer, lst, vp, wasHs, tddis, speed, opMode, termSel⟩ := s
  cases fsm <;> simp only [StInv, hsopS, Hs4, qOf, pOf] at * <;>
    simp only [step, stepInitialize, stepLsFs, stepHs, stepStartHs, stepPrepare, stepDeviceChirp, stepAwaitK,
      stepInK, stepAwaitJ, stepInJ, stepIsHs, stepIsLsFs, stepDetectHsSuspend, stepSuspended, stepDisconnect,
      gstep, mkOut, hsop, restricted] <;> grind

theorem islf_step_not_hs (c : Config) (s : State) (i : In) :
    s.fsm = .IS_LOW_OR_FULL_SPEED → hsopS (step c s i).1 = false := by
  intro hf; cases hl : i.lowOnly <;> simp [step, hf, stepIsLsFs, hsopS, hl]

theorem disc_step_not_hs (c : Config) (s : State) (i : In) :
    s.fsm = .DISCONNECT → hsopS (step c s i).1 = false ∧
      ((step c s i).1.fsm = .DISCONNECT ∨ (step c s i).1.fsm = .INITIALIZE) := by
  intro hf; simp only [step, hf, stepDisconnect, hsopS]; grind

theorem init_step_keeps_not_hs (c : Config) (s : State) (i : In) :
    s.fsm = .INITIALIZE → hsopS s = false → hsopS (step c s i).1 = false := by
  intro hf; simp only [step, hf, stepInitialize, hsopS]; grind

theorem hs_step_restricted (c : Config) (s : State) (i : In) :
    s.fsm = .HS_NON_RESET → restricted i = true → (step c s i).1.fsm = .IS_LOW_OR_FULL_SPEED := by
  intro hf hr; simp [step, hf, stepHs, hr]

/-- **leaves high speed within two cycles of a restriction**: if the ports show high-speed operation
in a cycle in which `low_speed_only` or `full_speed_only` is asserted, they no longer do two cycles
later (whatever the inputs of the cycle in between). -/
theorem leaves_hs_within_two_cycles (c : Config) (hv : Valid c) {s : State} {g : Ghost} (h : Reach c s g)
    (i0 i1 : In) :
    hsopS s = true → restricted i0 = true → hsopS (step c (step c s i0).1 i1).1 = false := by
  intro hh hr
  rcases (reach_inv c hv h).i1 hh with hf | hf | hf
  · exact islf_step_not_hs c _ i1 (hs_step_restricted c s i0 hf hr)
  · have h1 := islf_step_not_hs c s i0 hf
    have hinv := (reach_inv c hv (Reach.step i0 h)).i1
    cases h2 : hsopS (step c (step c s i0).1 i1).1 with
    | false => rfl
    | true =>
      have := hsop_rises_only_from_is_high_speed c _ i1 h1 h2
      -- the state after IS_LOW_OR_FULL_SPEED is never IS_HIGH_SPEED
      exfalso
      revert this
      simp only [step, hf, stepIsLsFs]
      split <;> simp
  · obtain ⟨h1, h2 | h2⟩ := disc_step_not_hs c s i0 hf
    · exact (disc_step_not_hs c _ i1 h2).1
    · exact init_step_keeps_not_hs c _ i1 h2 h1

/-- **falls back on time-out**: while the ports show chirp mode and the device chirp is over, the
chirp ended at most 2.5 ms + 1 cycle ago — i.e. chirp mode ends no later than 2.5 ms + 2 cycles after
the device chirp (`chirp_mode_ends_in_hs_or_fallback`: into high speed or into full/low speed). -/
theorem falls_back_on_timeout (c : Config) (hv : Valid c) {s : State} {g : Ghost} (h : Reach c s g) (i : In)
    (k : Nat) :
    (step c s i).2.opMode = .CHIRP → (step c s i).2.txValid = false → g.afterChirp = some k →
      k ≤ c.c2p5ms + 1 := by
  obtain ⟨i1, i2, hsz, win, st⟩ := reach_inv c hv h
  obtain ⟨fsm, timer, lst, vp, wasHs, tddis, speed, opMode, termSel⟩ := s
  cases fsm <;> simp only [StInv, hsopS, Hs4] at * <;>
    simp only [step, stepInitialize, stepLsFs, stepHs, stepStartHs, stepPrepare, stepDeviceChirp, stepAwaitK,
      stepInK, stepAwaitJ, stepInJ, stepIsHs, stepIsLsFs, stepDetectHsSuspend, stepSuspended, stepDisconnect,
      mkOut] <;> grind

theorem chirp_mode_ends_in_hs_or_fallback (c : Config) (hv : Valid c) {s : State} {g : Ghost} (h : Reach c s g)
    (i : In) :
    s.opMode = .CHIRP → (step c s i).1.opMode ≠ .CHIRP →
      hsopS (step c s i).1 = true ∨ ((step c s i).1.speed ≠ .HIGH ∧ (step c s i).1.opMode = .NORMAL) := by
  obtain ⟨i1, i2, hsz, win, st⟩ := reach_inv c hv h
  obtain ⟨fsm, timer, lst, vp, wasHs, tddis, speed, opMode, termSel⟩ := s
  cases fsm <;> simp only [StInv, hsopS, Hs4] at * <;>
    simp only [step, stepInitialize, stepLsFs, stepHs, stepStartHs, stepPrepare, stepDeviceChirp, stepAwaitK,
      stepInK, stepAwaitJ, stepInJ, stepIsHs, stepIsLsFs, stepDetectHsSuspend, stepSuspended, stepDisconnect] <;>
    grind

/-- **bus reset only if**: after any input history, `bus_reset` is reported only (1) while VBUS is
absent, or (2) in the last cycle of the 200 us window that follows 3 ms of undisturbed high-speed idle,
with a line state other than J, or — outside that window — (3) in suspend after ≥ 2.5 us of SE0, or
(4) at full/low speed after ≥ 5 us of SE0. -/
theorem bus_reset_only_if (c : Config) (hv : Valid c) {s : State} {g : Ghost} (h : Reach c s g) (i : In) :
    (step c s i).2.busReset = true →
      i.vbus = false ∨
      (g.win = some c.c200us ∧ i.line ≠ .J) ∨
      (g.win = none ∧ (step c s i).2.suspended = true ∧ c.c2p5us ≤ g.se0Run) ∨
      (g.win = none ∧ (step c s i).2.suspended = false ∧ (step c s i).2.speed ≠ .HIGH ∧ c.c5us ≤ g.se0Run) := by
  obtain ⟨i1, i2, hsz, win, st⟩ := reach_inv c hv h
  obtain ⟨fsm, timer, lst, vp, wasHs, tddis, speed, opMode, termSel⟩ := s
  cases fsm <;> simp only [StInv, hsopS, Hs4] at * <;>
    simp only [step, stepInitialize, stepLsFs, stepHs, stepStartHs, stepPrepare, stepDeviceChirp, stepAwaitK,
      stepInK, stepAwaitJ, stepInJ, stepIsHs, stepIsLsFs, stepDetectHsSuspend, stepSuspended, stepDisconnect,
      mkOut] <;> grind

/-- **suspend only after 3 ms of idle**: the SUSPENDED state (= the `suspended` output, `out_regs`) is
entered only after ≥ 3 ms of continuous idle line state for the reported speed, or at the end of the
high-speed window (3 ms of high-speed idle = SE0, then 200 us) with the line at J. -/
theorem suspend_only_after_3ms_idle (c : Config) (hv : Valid c) {s : State} {g : Ghost} (h : Reach c s g)
    (i : In) :
    s.fsm ≠ .SUSPENDED → (step c s i).1.fsm = .SUSPENDED →
      c.c3ms ≤ g.idleRun ∨ (g.win = some c.c200us ∧ i.line = .J) := by
  obtain ⟨i1, i2, hsz, win, st⟩ := reach_inv c hv h
  obtain ⟨fsm, timer, lst, vp, wasHs, tddis, speed, opMode, termSel⟩ := s
  cases fsm <;> simp only [StInv, hsopS, Hs4] at * <;>
    simp only [step, stepInitialize, stepLsFs, stepHs, stepStartHs, stepPrepare, stepDeviceChirp, stepAwaitK,
      stepInK, stepAwaitJ, stepInJ, stepIsHs, stepIsLsFs, stepDetectHsSuspend, stepSuspended, stepDisconnect]
    <;> grind

/-! ## Non-vacuity: concrete histories (small constants) that reach the situations the theorems speak about -/

def exCfg : Config := ⟨2, 3, 4, 5, 40, 50, 64⟩
def exLine (l : Line) (n : Nat) : List In := List.replicate n ⟨false, false, false, true, l, false⟩
/-- power-up, bus reset, device chirp, three host K-J pairs (the last J one cycle short of completion). -/
def exHandshake : List In :=
  exLine .J 2 ++ exLine .SE0 4 ++ exLine .K 8 ++ exLine .SE0 2 ++ (exLine .K 4 ++ exLine .J 4) ++
    (exLine .K 4 ++ exLine .J 4) ++ (exLine .K 4 ++ exLine .J 3)
/-- … then high speed, 3 ms of SE0, the 200 us window, and J: suspended out of high speed. -/
def exHsSuspend : List In := exHandshake ++ exLine .J 2 ++ exLine .SE0 55 ++ exLine .J 3

example : Valid exCfg := by constructor <;> decide
/-- the handshake history enters IS_HIGH_SPEED with the next J (first disjunct of `hs_only_after_handshake`) -/
example : (step exCfg (runG exCfg (init, {}) exHandshake).1 ⟨false, false, false, true, .J, false⟩).1.fsm
    = .IS_HIGH_SPEED := by decide +kernel
/-- resume from a high-speed suspend enters IS_HIGH_SPEED (second disjunct) -/
example : (runG exCfg (init, {}) exHsSuspend).1.fsm = .SUSPENDED ∧
    (runG exCfg (init, {}) exHsSuspend).2.susHs = true ∧
    (step exCfg (runG exCfg (init, {}) exHsSuspend).1 ⟨false, false, false, true, .K, false⟩).1.fsm
      = .IS_HIGH_SPEED := by decide +kernel
/-- a bus reset at full speed after 5 us of SE0 (fourth disjunct of `bus_reset_only_if`) -/
example : (step exCfg (runG exCfg (init, {}) (exLine .J 2 ++ exLine .SE0 3)).1
    ⟨false, false, false, true, .SE0, false⟩).2.busReset = true := by decide +kernel

end LunaVerif.ResetSeq
