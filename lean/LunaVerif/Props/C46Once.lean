import LunaVerif.Props.C46
import LunaVerif.Lemmas.C46StepAck
/-!
# C46 — `ss_in_exactly_once`: the SuperSpeed IN endpoint delivers the producer's stream exactly once, in order

Host view, history level.  The observers of `Lemmas/C46Ghost.lean` look at the interface signals only:

* the **producer** observer appends the valid byte lanes of every stream word taken (`stream.valid ≠ 0 ∧ stream.ready`)
  to `prod`;
* the **host** observer reassembles data packets from the tx stream (header = `tx_sequence_number` in the cycle a
  word is first offered, words taken when `tx.ready`, end at `last`; a `tx_zlp` strobe is an empty packet) and
  **accepts a packet iff it carries the sequence number the host expects** (`hseq`) and the link did not lose it
  (the per-cycle oracle `drop`); accepted bytes are appended to `deliv`, `hseq` advances by one (mod 32).

Environment (`EnvOK`, decidable, checked in every cycle of the history):
* no `ep_reset`;
* producer: `stream.valid` is a byte-prefix mask `0/1/3/7/15`, a partial word only together with `last`;
* host: an ACK transaction packet for this endpoint is sent only while no tx word is offered (`tx.valid = 0`: the
  host answers completely received packets, one outstanding packet) and carries `next_sequence = hseq`, the number
  the host expects (Retry bit, NumP arbitrary; nothing is assumed about flow control, `tx.ready` or `done`).
Configuration (`CfgOK`): `max_packet_size` a multiple of 4, at least 8, memories addressable.

`ss_in_exactly_once`: at every reachable cycle
  `deliv ++ pending = prod`
where `pending` = the bytes of the read buffer up to its fill count (unless the host has already accepted that
packet and the endpoint is only waiting for / re-sending on the ACK) ++ the bytes of the write buffer up to its
fill count.  Hence (`ss_in_delivered_prefix`) the host's byte stream is always a prefix of the producer's:
nothing is lost, duplicated or reordered — through retries (lost packets, Retry-bit requests after an accepted
packet, whose duplicates the host discards by number), ZLPs, the follow-up-ZLP branch and buffer swaps.
-/
namespace LunaVerif.SSStreamIn

/-- the invariant holds after reset -/
theorem inv_init (c : Config) (hc : CfgOK c) : Inv c (view (init c)) Ghost.init := by
  obtain ⟨hm4, hm8, haw⟩ := hc
  constructor <;> simp [view, init, Ghost.init, fillW, fillR, endedW, endedR, memW, memR, rdR]

/-- one cycle preserves the invariant, whatever the inputs allowed by the environment -/
theorem inv_step (c : Config) (v : View) (g : Ghost) (i : In) (d : Bool) (hc : CfgOK c)
    (hI : Inv c v g) (he : EnvOK c g i (vout c v i)) :
    Inv c (vnext c v i) (gnext i (vout c v i) d g) := by
  cases hf : v.fsm
  · exact step_waitData c v g i d hc hI he hf
  · exact step_reqIn c v g i d hc hI he hf
  · exact step_waitSend c v g i d hc hI he hf
  · exact step_send c v g i d hc hI he hf
  · cases hack : (i.ack && i.hsEp == c.ep)
    · exact step_waitAck_quiet c v g i d hc hI he hf hack
    · cases hre : (i.retry || !(i.nextSeq == (v.seq + 1) % 32))
      · exact step_waitAck_accept c v g i d hc hI he hf hack hre
      · exact step_waitAck_retry c v g i d hc hI he hf hack hre

instance (c : Config) (g : Ghost) (i : In) (o : Out) : Decidable (EnvOK c g i o) := by
  unfold EnvOK ProdOK HostOK; infer_instance

/-- A history: per cycle the endpoint's inputs and the link oracle (`true` = a packet completed in this cycle
is lost).  `runG` runs the model and the observers, `envAll` checks the environment in every cycle. -/
def runG (c : Config) : State → Ghost → List (In × Bool) → State × Ghost
  | s, g, [] => (s, g)
  | s, g, (i, d) :: r => runG c (next c s i) (gnext i (out c s i) d g) r

def envAll (c : Config) : State → Ghost → List (In × Bool) → Bool
  | _, _, [] => true
  | s, g, (i, d) :: r => decide (EnvOK c g i (out c s i)) && envAll c (next c s i) (gnext i (out c s i) d g) r

theorem inv_run (c : Config) (hc : CfgOK c) (hist : List (In × Bool)) (s : State) (g : Ghost)
    (hI : Inv c (view s) g) (henv : envAll c s g hist = true) :
    Inv c (view (runG c s g hist).1) (runG c s g hist).2 := by
  induction hist generalizing s g with
  | nil => exact hI
  | cons e r ih =>
    obtain ⟨i, d⟩ := e
    simp only [envAll, Bool.and_eq_true, decide_eq_true_eq] at henv
    have h := inv_step c (view s) g i d hc hI (by rw [← out_eq_vout]; exact henv.1)
    rw [← view_next, ← out_eq_vout] at h
    exact ih _ _ h henv.2

/-- bytes the endpoint holds that the host has not accepted yet -/
def pending (s : State) (g : Ghost) : List Nat :=
  (if g.hseq = s.seq then bufBytes (memR s) (fillR s) else []) ++ bufBytes (memW s) (fillW s)

/-- **ss_in_exactly_once**: for every history allowed by the environment, at every reachable cycle, the bytes
the host has accepted followed by the bytes still held by the endpoint are exactly the bytes accepted from the
producer. -/
theorem ss_in_exactly_once (c : Config) (hc : CfgOK c) (hist : List (In × Bool))
    (henv : envAll c (init c) Ghost.init hist = true) :
    (runG c (init c) Ghost.init hist).2.deliv ++
        pending (runG c (init c) Ghost.init hist).1 (runG c (init c) Ghost.init hist).2 =
      (runG c (init c) Ghost.init hist).2.prod := by
  have h := (inv_run c hc hist (init c) Ghost.init (inv_init c hc) henv).data
  rw [pending, ← List.append_assoc]
  exact h

/-- the host's byte stream is a prefix of the producer's: nothing lost, duplicated or reordered -/
theorem ss_in_delivered_prefix (c : Config) (hc : CfgOK c) (hist : List (In × Bool))
    (henv : envAll c (init c) Ghost.init hist = true) :
    (runG c (init c) Ghost.init hist).2.deliv <+: (runG c (init c) Ghost.init hist).2.prod :=
  ⟨_, ss_in_exactly_once c hc hist henv⟩

/-- once both buffers are empty the host has everything -/
theorem ss_in_all_delivered (c : Config) (hc : CfgOK c) (hist : List (In × Bool))
    (henv : envAll c (init c) Ghost.init hist = true)
    (h0 : (runG c (init c) Ghost.init hist).1.fill0 = 0) (h1 : (runG c (init c) Ghost.init hist).1.fill1 = 0) :
    (runG c (init c) Ghost.init hist).2.deliv = (runG c (init c) Ghost.init hist).2.prod := by
  have h := ss_in_exactly_once c hc hist henv
  have hR : fillR (runG c (init c) Ghost.init hist).1 = 0 := by unfold fillR; split <;> assumption
  have hW : fillW (runG c (init c) Ghost.init hist).1 = 0 := by unfold fillW; split <;> assumption
  simpa [pending, hR, hW] using h

/-- the host's expected number is the endpoint's, or one ahead while the endpoint waits for the ACK -/
theorem ss_in_host_seq (c : Config) (hc : CfgOK c) (hist : List (In × Bool))
    (henv : envAll c (init c) Ghost.init hist = true) :
    (runG c (init c) Ghost.init hist).2.hseq = (runG c (init c) Ghost.init hist).1.seq ∨
      (runG c (init c) Ghost.init hist).2.hseq = ((runG c (init c) Ghost.init hist).1.seq + 1) % 32 :=
  (inv_run c hc hist (init c) Ghost.init (inv_init c hc) henv).hs

/-! ## Non-vacuity: concrete histories that satisfy the environment (max_packet_size 8, endpoint 1) and in
which data really flows; and histories showing that the hypotheses cannot be dropped. -/

def ok (l : List In) : List (In × Bool) := l.map (fun i => (i, false))
def lossy (l : List In) : List (In × Bool) := l.map (fun i => (i, true))

example : CfgOK cfg8 := by unfold CfgOK cfg8; decide

/-- a full packet, IN request, two words, accepting ACK: 8 bytes delivered -/
def hPlain : List (In × Bool) := ok (sentOne ++ [tp false 1 0])
/-- the packet is lost on the link, the host repeats its number, the endpoint re-sends, then the ACK -/
def hLost : List (In × Bool) :=
  ok [word 0x11111111 false, word 0x22222222 false, tp false 0 1] ++ lossy [idle, idle, idle] ++
    ok [tp false 0 1, idle, idle, idle, tp false 1 0]
/-- the host accepts the packet but sets the Retry bit: the duplicate is discarded by its number -/
def hDup : List (In × Bool) := ok (sentOne ++ [tp true 1 1, idle, idle, idle, tp false 1 0])
/-- full packet that ends its transfer: follow-up ZLP strobed in the ACK cycle, then acknowledged -/
def hZlp : List (In × Bool) := ok (sentFullLast ++ [tp false 1 1, tp false 2 0])
/-- ... and the follow-up ZLP is lost and repeated -/
def hZlpLost : List (In × Bool) := ok sentFullLast ++ [(tp false 1 1, true)] ++ ok [tp false 1 1, tp false 2 0]
/-- the second packet is buffered while the first is on the wire; the ACK swaps the buffers -/
def hSwap : List (In × Bool) :=
  ok [word 1 false, word 2 false, tp false 0 1, word 3 false, word 4 false, idle, tp false 1 1, idle, idle, idle,
    tp false 2 0]
/-- a three-byte transfer -/
def hShort : List (In × Bool) :=
  ok [{ idle with sValid := 7, sData := 0xAABBCCDD, sLast := true }, idle, tp false 0 1, idle, idle, tp false 1 0]

example : ∀ h ∈ [hPlain, hLost, hDup, hZlp, hZlpLost], envAll cfg8 (init cfg8) Ghost.init h = true ∧
    (runG cfg8 (init cfg8) Ghost.init h).2.deliv = [0x11, 0x11, 0x11, 0x11, 0x22, 0x22, 0x22, 0x22] ∧
    (runG cfg8 (init cfg8) Ghost.init h).2.prod = [0x11, 0x11, 0x11, 0x11, 0x22, 0x22, 0x22, 0x22] := by
  decide

example : envAll cfg8 (init cfg8) Ghost.init hSwap = true ∧
    (runG cfg8 (init cfg8) Ghost.init hSwap).2.deliv = [1, 0, 0, 0, 2, 0, 0, 0, 3, 0, 0, 0, 4, 0, 0, 0] := by decide

example : envAll cfg8 (init cfg8) Ghost.init hShort = true ∧
    (runG cfg8 (init cfg8) Ghost.init hShort).2.deliv = [0xDD, 0xCC, 0xBB] := by decide

/-- the host hypothesis is needed: a host that announces the next number although it lost the packet makes the
endpoint discard data (delivered and pending are empty, 8 bytes were accepted from the producer) -/
def hLie : List (In × Bool) :=
  ok [word 0x11111111 false, word 0x22222222 false, tp false 0 1] ++ lossy [idle, idle, idle] ++ ok [tp false 1 0]

example : envAll cfg8 (init cfg8) Ghost.init hLie = false ∧
    (runG cfg8 (init cfg8) Ghost.init hLie).2.deliv = [] ∧
    pending (runG cfg8 (init cfg8) Ghost.init hLie).1 (runG cfg8 (init cfg8) Ghost.init hLie).2 = [] ∧
    (runG cfg8 (init cfg8) Ghost.init hLie).2.prod.length = 8 := by decide

/-- `8 ≤ max_packet_size` is needed: with max_packet_size 4 (one-word buffers) a word written in the very cycle
of an ACK + IN request that swaps the buffers is read stale (the read port of the buffer being written was
addressed with 0 in the same cycle, the memories are not transparent): the second packet carries 0 instead of
0x22222222.  Replayed on the real gateware (notes/C46.md). -/
def cfg4 : Config := ⟨4, 1, 0⟩
def hStale : List (In × Bool) :=
  ok [word 0x11111111 false, tp false 0 1, idle, idle, idle,
    { tp false 1 1 with sValid := 15, sData := 0x22222222 }, idle, idle, idle, tp false 2 0]

example : envAll cfg4 (init cfg4) Ghost.init hStale = true ∧
    (runG cfg4 (init cfg4) Ghost.init hStale).2.deliv = [0x11, 0x11, 0x11, 0x11, 0, 0, 0, 0] ∧
    (runG cfg4 (init cfg4) Ghost.init hStale).2.prod = [0x11, 0x11, 0x11, 0x11, 0x22, 0x22, 0x22, 0x22] := by
  decide

end LunaVerif.SSStreamIn
