import LunaVerif.Model.Usb2.IsoStreamIn
/-!
# C15 — Isochronous IN endpoints send exactly the requested bytes per frame

"In every frame, the endpoint sends exactly the number of bytes requested for that frame, taken in
order from its stream (zero-filled while the stream has no data), split into packets of at most the
max packet size and labelled DATA2/DATA1/DATA0, DATA1/DATA0 or DATA0 according to how many packets
the frame needs; an IN token in a frame with nothing (left) to send gets a zero-length packet."

The property is written as an assume/guarantee *acceptor* `Spec` reading the endpoint's ports cycle by
cycle.  Its state is what the property talks about: `n` = bytes requested for the current frame
(latched at the SOF, 0 before the first), `done` = how many of them have gone out, `pkts` = data packets
completed in this frame, and the phase (idle / inside a data packet after `k` bytes / ZLP).  In a data
packet every cycle must show `valid`, `first` on byte 0, `last` exactly on the byte that fills the
packet (`k+1 = mps`) or the frame (`done+1 = n`), the stream's byte or zero, `stream.ready = tx.ready`
(a stream byte is consumed exactly when it is sent), fewer than `mps` bytes so far, `done < n`, and
the PID `packetsNeeded n - 1 - pkts`.  A request with `done = n` must be answered by a ZLP.
Environment violations (SOF inside a data packet or together with a request, `bytes_in_frame` above
3·mps or outside the 12-bit port) move the acceptor to `chaos`, which accepts everything.
-/
namespace LunaVerif.IsoIn

/-- Number of packets a frame of `n ≤ 3·mps` bytes needs (`= ⌈n / mps⌉`, see `packetsNeeded_eq_ceil`). -/
def packetsNeeded (mps n : Nat) : Nat :=
  if n > 2 * mps then 3 else if n > mps then 2 else if n > 0 then 1 else 0

inductive Phase
  | idle
  | data (k : Nat)    -- inside a data packet, `k` bytes of it handed over
  | zlp
  | chaos             -- the environment left the assumptions
deriving Repr, DecidableEq

structure Spec where
  n     : Nat
  done  : Nat
  pkts  : Nat
  phase : Phase
deriving Repr, DecidableEq

def Spec.init : Spec := ⟨0, 0, 0, .idle⟩

/-- What a SOF does between packets. -/
def Spec.sof (c : Config) (sp : Spec) (i : In) : Spec :=
  if i.bytesInFrame > 3 * c.mps || i.bytesInFrame ≥ 4096 then { sp with phase := .chaos }
  else ⟨i.bytesInFrame, 0, 0, .idle⟩

/-- The guarantee checked in one cycle. -/
def Spec.ok (c : Config) (sp : Spec) (i : In) (o : Out) : Bool :=
  match sp.phase with
  | .chaos => true
  | .idle =>
    !o.valid && !o.first && !o.last && o.payload == 0 && !o.sReady
      && o.dataRequested == dataRequested c i
  | .data k =>
    o.valid && o.first == (k == 0) && o.last == ((k + 1 == c.mps) || (sp.done + 1 == sp.n))
      && o.payload == (if i.sValid then i.sPayload else 0) && o.sReady == i.txReady
      && !o.dataRequested && o.pid + 1 + sp.pkts == packetsNeeded c.mps sp.n
      && decide (k < c.mps) && decide (sp.done < sp.n)
  | .zlp =>
    o.valid && !o.first && o.last && o.payload == 0 && !o.sReady && !o.dataRequested
      && decide (sp.done = sp.n)

/-- How the host-side reading advances. -/
def Spec.next (c : Config) (sp : Spec) (i : In) : Spec :=
  match sp.phase with
  | .chaos => sp
  | .idle =>
    if i.newFrame then (if dataRequested c i then { sp with phase := .chaos } else sp.sof c i)
    else if dataRequested c i then
      (if sp.done < sp.n then { sp with phase := .data 0 } else { sp with phase := .zlp })
    else sp
  | .data k =>
    if i.newFrame then { sp with phase := .chaos }
    else if i.txReady then
      (if (k + 1 == c.mps) || (sp.done + 1 == sp.n) then ⟨sp.n, sp.done + 1, sp.pkts + 1, .idle⟩
       else ⟨sp.n, sp.done + 1, sp.pkts, .data (k + 1)⟩)
    else sp
  | .zlp => if i.newFrame then sp.sof c i else { sp with phase := .idle }

def accepts (c : Config) : Spec → List (In × Out) → Bool
  | _, [] => true
  | sp, (i, o) :: rest => sp.ok c i o && accepts c (sp.next c i) rest

/-! ## Arithmetic of the packet count -/

/-- `packetsNeeded` is the ceiling of `n / mps` on the documented range. -/
theorem packetsNeeded_eq_ceil (mps n : Nat) (hm : 1 ≤ mps) (hn : n ≤ 3 * mps) :
    packetsNeeded mps n = (n + mps - 1) / mps := by
  unfold packetsNeeded
  symm
  split
  · exact Nat.div_eq_of_lt_le (by omega) (by omega)
  · split
    · exact Nat.div_eq_of_lt_le (by omega) (by omega)
    · split
      · exact Nat.div_eq_of_lt_le (by omega) (by omega)
      · exact Nat.div_eq_of_lt (by omega)

theorem lt_needed (mps n p : Nat) (hn : n ≤ 3 * mps) (hp : p * mps < n) :
    p < packetsNeeded mps n := by
  unfold packetsNeeded
  match p, hp with
  | 0, hp => simp at hp; split <;> (try split) <;> (try split) <;> omega
  | 1, hp => simp at hp; split <;> (try split) <;> omega
  | 2, hp => split <;> omega
  | p + 3, hp =>
    have : 3 * mps ≤ (p + 3) * mps := Nat.mul_le_mul_right mps (by omega)
    omega

theorem needed_le (mps n : Nat) : packetsNeeded mps n ≤ 3 := by
  unfold packetsNeeded; split <;> (try split) <;> (try split) <;> omega

theorem startPid_needed (c : Config) (n : Nat) (h : 0 < n) :
    startPid c n + 1 = packetsNeeded c.mps n := by
  unfold startPid packetsNeeded; split <;> (try split) <;> (try split) <;> omega

/-! ## Refinement -/

/-- What idle and ZLP phases know about the registers. -/
def RelRest (c : Config) (s : State) (sp : Spec) : Prop :=
  s.first = false ∧ s.blf = sp.n - sp.done ∧ sp.done ≤ sp.n ∧ sp.n ≤ 3 * c.mps ∧ sp.n < 4096 ∧
  (0 < sp.n → s.blp = c.mps) ∧ (sp.done = sp.n ∨ sp.done = sp.pkts * c.mps) ∧
  (sp.done < sp.n → s.pid + 1 + sp.pkts = packetsNeeded c.mps sp.n)

def Rel (c : Config) (s : State) (sp : Spec) : Prop :=
  match sp.phase with
  | .chaos => True
  | .idle => s.fsm = .idle ∧ RelRest c s sp
  | .zlp => s.fsm = .sendZlp ∧ sp.done = sp.n ∧ RelRest c s sp
  | .data k =>
    s.fsm = .sendData ∧ s.first = (k == 0) ∧ k < c.mps ∧ s.blp = c.mps - k ∧ sp.done < sp.n ∧
    sp.done = sp.pkts * c.mps + k ∧ s.pid + 1 + sp.pkts = packetsNeeded c.mps sp.n ∧
    s.blf = sp.n - sp.done ∧ sp.n ≤ 3 * c.mps ∧ sp.n < 4096


theorem rel_sof (c : Config) (sp : Spec) (i : In) (s' : State)
    (h1 : s'.fsm = .idle) (h2 : s'.first = false) (h3 : s'.blf = i.bytesInFrame)
    (h4 : s'.blp = c.mps) (h5 : s'.pid = startPid c i.bytesInFrame) :
    Rel c s' (sp.sof c i) := by
  unfold Spec.sof
  split
  · simp [Rel]
  · rename_i hb
    simp only [Bool.or_eq_true, decide_eq_true_eq, not_or, Nat.not_lt, Nat.not_le] at hb
    refine ⟨h1, h2, by simp [h3], by simp, by simp; omega, by simp; omega, fun _ => h4, by simp, ?_⟩
    intro hlt
    have := startPid_needed c i.bytesInFrame (by simpa using hlt)
    simp only [h5]; omega

theorem refines_idle (c : Config) (hm : 1 ≤ c.mps) (s : State) (sp : Spec) (i : In)
    (hp : sp.phase = .idle) (hr : Rel c s sp) :
    sp.ok c i (step c s i).2 = true ∧ Rel c (step c s i).1 (sp.next c i) := by
  rcases sp with ⟨n, done, pkts, phase⟩
  rcases s with ⟨fsm, blf, blp, pid, first, ff⟩
  simp only at hp; subst hp
  obtain ⟨hf, hfirst, hblf, hdn, hn3, hn4, hblp, hdone, hpid⟩ := hr
  simp only at hf hfirst hblf hdn hn3 hn4 hblp hdone hpid
  subst hf hfirst
  refine ⟨by simp [Spec.ok, step], ?_⟩
  by_cases hnf : i.newFrame = true
  · by_cases hq : dataRequested c i = true
    · simp [Spec.next, hnf, hq, Rel]
    · simp only [Spec.next, hnf, hq, if_true]
      apply rel_sof <;> simp [step, hnf, hq]
  · by_cases hq : dataRequested c i = true
    · by_cases hlt : done < n
      · have hb : blf ≠ 0 := by omega
        simp only [Spec.next, hnf, hq, hlt, if_true]
        simp [Rel, step, hnf, hq, hb]
        refine ⟨hm, by rw [hblp (by omega)], hlt, ?_, hpid hlt, hblf, hn3, hn4⟩
        rcases hdone with h | h <;> omega
      · have hb : blf = 0 := by omega
        simp only [Spec.next, hnf, hq, hlt, if_true]
        simp [Rel, RelRest, step, hnf, hq, hb]
        exact ⟨by omega, by omega, hdn, hn3, hn4, hblp, hdone, fun h => absurd h hlt⟩
    · simp only [Spec.next, hnf, hq]
      simp [Rel, RelRest, step, hnf, hq]
      exact ⟨hblf, hdn, hn3, hn4, hblp, hdone, hpid⟩

theorem refines_zlp (c : Config) (s : State) (sp : Spec) (i : In)
    (hp : sp.phase = .zlp) (hr : Rel c s sp) :
    sp.ok c i (step c s i).2 = true ∧ Rel c (step c s i).1 (sp.next c i) := by
  rcases sp with ⟨n, done, pkts, phase⟩
  rcases s with ⟨fsm, blf, blp, pid, first, ff⟩
  simp only at hp; subst hp
  obtain ⟨hf, hdz, hfirst, hblf, hdn, hn3, hn4, hblp, hdone, hpid⟩ := hr
  simp only at hf hdz hfirst hblf hdn hn3 hn4 hblp hdone hpid
  subst hf hfirst
  refine ⟨by simp [Spec.ok, step, hdz], ?_⟩
  by_cases hnf : i.newFrame = true
  · simp only [Spec.next, hnf, if_true]
    apply rel_sof <;> simp [step, hnf]
  · simp only [Spec.next, hnf]
    simp [Rel, RelRest, step, hnf]
    exact ⟨hblf, hdn, hn3, hn4, hblp, hdone, hpid⟩

theorem refines_data (c : Config) (s : State) (sp : Spec) (i : In) (k : Nat)
    (hp : sp.phase = .data k) (hr : Rel c s sp) :
    sp.ok c i (step c s i).2 = true ∧ Rel c (step c s i).1 (sp.next c i) := by
  rcases sp with ⟨n, done, pkts, phase⟩
  rcases s with ⟨fsm, blf, blp, pid, first, ff⟩
  simp only at hp; subst hp
  obtain ⟨hf, hfirst, hk, hblp, hlt, hdone, hpid, hblf, hn3, hn4⟩ := hr
  simp only at hf hfirst hk hblp hlt hdone hpid hblf hn3 hn4
  subst hf
  have hlp : (decide (blp ≤ 1)) = (k + 1 == c.mps) := by
    rw [hblp, Bool.eq_iff_iff]; simp only [decide_eq_true_eq, beq_iff_eq]; omega
  have hlf : (decide (blf ≤ 1)) = (done + 1 == n) := by
    rw [hblf, Bool.eq_iff_iff]; simp only [decide_eq_true_eq, beq_iff_eq]; omega
  constructor
  · by_cases hrd : i.txReady = true <;> simp [Spec.ok, step, hrd, hlp, hlf, hfirst, hpid, hk, hlt]
  · by_cases hnf : i.newFrame = true
    · simp [Spec.next, hnf, Rel]
    · by_cases hrd : i.txReady = true
      · by_cases hlast : ((k + 1 == c.mps) || (done + 1 == n)) = true
        · have hmul : (pkts + 1) * c.mps = pkts * c.mps + c.mps := Nat.succ_mul _ _
          have hpl : pkts < packetsNeeded c.mps n := lt_needed _ _ _ hn3 (by omega)
          have hle := needed_le c.mps n
          simp only [Spec.next, hnf, hrd, hlast, if_true]
          simp only [Bool.or_eq_true, beq_iff_eq] at hlast
          simp [Rel, RelRest, step, hrd, hlp, hlf, hlast]
          refine ⟨by omega, by omega, hn3, hn4, ?_, ?_⟩
          · rw [hmul]; omega
          · intro h
            have h2 : k + 1 = c.mps := by omega
            have := lt_needed c.mps n (pkts + 1) hn3 (by rw [hmul]; omega)
            omega
        · simp only [Spec.next, hnf, hrd, hlast, if_true]
          simp only [Bool.or_eq_true, beq_iff_eq, not_or] at hlast
          simp [Rel, step, hrd, hlp, hlf, hlast, hnf]
          exact ⟨by omega, by omega, by omega, by omega, hpid, by omega, hn3, hn4⟩
      · simp only [Spec.next, hnf, hrd]
        simp [Rel, step, hrd, hnf]
        exact ⟨hfirst, hk, hblp, hlt, hdone, hpid, hblf, hn3, hn4⟩

theorem step_refines (c : Config) (hm : 1 ≤ c.mps) (s : State) (sp : Spec) (i : In)
    (hr : Rel c s sp) :
    sp.ok c i (step c s i).2 = true ∧ Rel c (step c s i).1 (sp.next c i) := by
  cases hp : sp.phase with
  | chaos => simp [Spec.ok, Spec.next, hp, Rel]
  | idle => exact refines_idle c hm s sp i hp hr
  | zlp => exact refines_zlp c s sp i hp hr
  | data k => exact refines_data c s sp i k hp hr

theorem rel_init (c : Config) : Rel c (init c) Spec.init := by
  simp [Rel, RelRest, init, Spec.init]

theorem accepts_from (c : Config) (hm : 1 ≤ c.mps) (s : State) (sp : Spec) (hr : Rel c s sp)
    (ins : List In) : accepts c sp (trace c s ins) = true := by
  induction ins generalizing s sp with
  | nil => rfl
  | cons i is ih =>
    obtain ⟨h1, h2⟩ := step_refines c hm s sp i hr
    simp only [trace, accepts, h1, Bool.true_and]
    exact ih _ _ h2

/-- **C15** (main theorem).  For every max packet size ≥ 1, every endpoint number and every input
history (SOFs with any `bytes_in_frame`, IN tokens at any time — also before the first SOF —,
`tx.ready` stalls, any `stream.valid` pattern), the endpoint's trace from reset is accepted: in each
frame the bytes go out in order (stream byte or zero, `stream.ready` exactly when a byte is handed
over), a data packet is only ever started/continued while fewer than `n` bytes of the frame are out
and ends exactly when the packet or the frame is full, so a frame never sends more than requested
and sends all of it when enough IN tokens arrive; further tokens get ZLPs. -/
theorem frame_sends_exactly_requested (c : Config) (hm : 1 ≤ c.mps) (ins : List In) :
    accepts c Spec.init (trace c (init c) ins) = true :=
  accepts_from c hm (init c) Spec.init (rel_init c) ins

/-- What acceptance of a data-phase cycle says about packet size: a byte is on the interface only
while fewer than `mps` bytes of this packet (and fewer than `n` of the frame) have been handed over,
and `last` is raised on the `mps`-th byte. -/
theorem packets_le_mps (c : Config) (sp : Spec) (k : Nat) (i : In) (o : Out)
    (hp : sp.phase = .data k) (h : sp.ok c i o = true) :
    k < c.mps ∧ sp.done < sp.n ∧ (k + 1 = c.mps → o.last = true) := by
  simp only [Spec.ok, hp, Bool.and_eq_true, decide_eq_true_eq, beq_iff_eq] at h
  refine ⟨h.1.2, h.2, fun hk => ?_⟩
  have := h.1.1.1.1.1.1.2
  simp [hk] at this; exact this

/-- What acceptance of a data-phase cycle says about the PID: packet number `pkts` (0-based) of a
frame needing `packetsNeeded n = ⌈n/mps⌉` packets is sent with PID `⌈n/mps⌉ - 1 - pkts`, i.e.
DATA2-DATA1-DATA0, DATA1-DATA0 or DATA0. -/
theorem pid_sequence (c : Config) (sp : Spec) (k : Nat) (i : In) (o : Out)
    (hp : sp.phase = .data k) (h : sp.ok c i o = true) :
    o.pid + 1 + sp.pkts = packetsNeeded c.mps sp.n := by
  simp only [Spec.ok, hp, Bool.and_eq_true, decide_eq_true_eq, beq_iff_eq] at h
  exact h.1.1.2

/-- A request in a frame with nothing (left) to send — before the first SOF, in a frame of 0 bytes,
or after all of the frame's bytes have gone out — is answered in the next cycle by a zero-length
packet (`valid`, `last`, no `first`, nothing taken from the stream). -/
theorem zlp_when_nothing_left (c : Config) (s : State) (sp : Spec) (i j : In)
    (hr : Rel c s sp) (hp : sp.phase = .idle) (hd : sp.done = sp.n)
    (hq : dataRequested c i = true) :
    (step c (step c s i).1 j).2.valid = true ∧ (step c (step c s i).1 j).2.last = true ∧
    (step c (step c s i).1 j).2.first = false ∧ (step c (step c s i).1 j).2.sReady = false := by
  rcases sp with ⟨n, done, pkts, phase⟩
  rcases s with ⟨fsm, blf, blp, pid, first, ff⟩
  simp only at hp hd; subst hp hd
  obtain ⟨hf, hfirst, hblf, -⟩ := hr
  simp only at hf hfirst hblf; subst hf hfirst
  have : blf = 0 := by omega
  simp [step, hq, this]

/-! ## Non-vacuity: mps = 2, a frame of 5 bytes (DATA2, DATA1, DATA0 of 2+2+1 bytes), then a ZLP -/

def exI (rfr nf rdy sv : Bool) (sp n : Nat) : In := ⟨1, true, rfr, nf, rdy, sv, sp, n⟩

def exHist : List In :=
  [exI true false true true 9 0, exI false false true true 9 0,      -- IN before the first SOF: ZLP
   exI false true false true 9 5,                                    -- SOF, 5 bytes
   exI true false true true 9 0, exI false false true true 11 0, exI false false false true 12 0,
   exI false false true false 12 0,                                  -- packet 1: 11, stall, 0 (no data)
   exI true false true true 9 0, exI false false true true 13 0, exI false false true true 14 0,
   exI true false true true 9 0, exI false false true true 15 0,     -- packet 3: 15
   exI true false true true 9 0, exI false false true true 16 0]     -- nothing left: ZLP

example : (trace ⟨2, 1⟩ (init ⟨2, 1⟩) exHist).map
    (fun io => (io.2.valid, io.2.first, io.2.last, io.2.payload, io.2.pid)) =
    [(false, false, false, 0, 0), (true, false, true, 0, 0), (false, false, false, 0, 0),
     (false, false, false, 0, 2), (true, true, false, 11, 2), (true, false, true, 12, 2),
     (true, false, true, 0, 2),
     (false, false, false, 0, 1), (true, true, false, 13, 1), (true, false, true, 14, 1),
     (false, false, false, 0, 0), (true, true, true, 15, 0),
     (false, false, false, 0, 3), (true, false, true, 0, 3)] := by decide
example : accepts ⟨2, 1⟩ Spec.init (trace ⟨2, 1⟩ (init ⟨2, 1⟩) exHist) = true := by decide
/-- The acceptor is not vacuous: it rejects a trace whose second packet is mislabelled. -/
example : accepts ⟨2, 1⟩ ⟨5, 2, 1, .data 0⟩
    [(exI false false true true 13 0, ⟨true, true, false, 13, 2, true, false, false⟩)] = false := by decide

end LunaVerif.IsoIn
