import LunaVerif.Model.Phy.FsCodec
/-!
# C25 — The gateware full-speed PHY encodes and decodes USB line signalling

"Each byte sequence handed to the gateware PHY for transmission appears on D+/D- as SYNC, the
NRZI-encoded and bit-stuffed bytes (LSB first, a stuffed 0 after six 1s) and an SE0-SE0-J end of
packet, and is accepted byte-by-byte exactly once; conversely any correctly encoded full-speed packet
on D+/D- (within USB clock tolerance) is delivered as exactly its bytes with receive-active framing,
and a bit-stuffing violation is reported as an error. The PHY never drives D+/D- in the UTMI
non-driving operating mode, and its pull-up and pull-down outputs follow the termination and
pull-down requests."

Proved here (for all byte lists / all inputs): the line code is lossless (`decode_encode`), the
stuffed stream never carries seven 1s (`no_seven_ones_on_wire`), seven 1s are always reported as a
stuffing violation (`stuff_error_detected`), and the op-mode / pull-up / pull-down glue
(`never_drives_in_nondriving`, `pulls_follow_requests`).  That the real transmitter emits exactly
`encode bytes` (accepting every byte once) and that the real receiver computes `decode` under sampling
phase and clock drift is established by co-simulation only (see the harness): PARTIAL.
-/
namespace LunaVerif.FsCodec

theorem unnrzi_nrzi (l : Bool) (bits : List Bool) : unnrzi l (nrzi l bits) = bits := by
  induction bits generalizing l with
  | nil => rfl
  | cons b bs ih => cases b <;> cases l <;> simp [nrzi, unnrzi, ih]

theorem unstuff_stuff (n : Nat) (hn : n ≤ 5) (bits : List Bool) : unstuff n (stuff n bits) = some bits := by
  induction bits generalizing n with
  | nil => simp [stuff, unstuff]
  | cons b bs ih =>
    cases b with
    | false =>
      have h6 : n ≠ 6 := by omega
      simp [stuff, unstuff, h6, ih 0 (by omega)]
    | true =>
      have h6 : n ≠ 6 := by omega
      by_cases h : n + 1 = 6
      · simp [stuff, unstuff, h, h6, ih 0 (by omega)]
      · simp [stuff, unstuff, h, h6, ih (n + 1) (by omega)]

theorem bitsVal_byteBits : ∀ b : Fin 256, bitsVal (byteBits b.val) = b.val := by decide +kernel

theorem byteBits_eq (b : Nat) : byteBits b =
    [b.testBit 0, b.testBit 1, b.testBit 2, b.testBit 3, b.testBit 4, b.testBit 5, b.testBit 6, b.testBit 7] := by
  simp [byteBits, List.range, List.range.loop]

theorem bytesOf_bitsOf (bytes : List Nat) (h : ∀ b ∈ bytes, b < 256) : bytesOf (bitsOf bytes) = some bytes := by
  induction bytes with
  | nil => rfl
  | cons b bs ih =>
    have hb : b < 256 := h b (by simp)
    have hv := bitsVal_byteBits ⟨b, hb⟩
    rw [byteBits_eq] at hv
    simp only [bitsOf, byteBits_eq, List.cons_append, List.nil_append, bytesOf]
    rw [ih (fun x hx => h x (by simp [hx]))]
    simp only [Option.map_some]
    rw [hv]

theorem splitEop_levels (lv : List Bool) :
    splitEop (lv.map lvl ++ [.SE0, .SE0, .J]) = (lv, [.SE0, .SE0, .J]) := by
  induction lv with
  | nil => rfl
  | cons l ls ih => cases l <;> simp [lvl, splitEop, ih]

/-- **round trip** for every byte list: decoding the waveform of a packet gives back exactly its bytes. -/
theorem decode_encode (bytes : List Nat) (h : ∀ b ∈ bytes, b < 256) : decode (encode bytes) = .ok bytes := by
  simp only [decode, encode, splitEop_levels, unnrzi_nrzi]
  simp [syncBits, unstuff_stuff 1 (by omega), bytesOf_bitsOf bytes h]

theorem runOK_stuff (n : Nat) (hn : n ≤ 5) (bits : List Bool) : runOK n (stuff n bits) = true := by
  induction bits generalizing n with
  | nil => simp [stuff, runOK]
  | cons b bs ih =>
    cases b with
    | false => simp [stuff, runOK, ih 0 (by omega)]
    | true =>
      by_cases h : n + 1 = 6
      · simp [stuff, runOK, h, ih 0 (by omega)]
      · have : n + 1 ≤ 6 := by omega
        simp [stuff, runOK, h, this, ih (n + 1) (by omega)]

/-- **no seven 1s on the wire**: the bit stream of any packet — SYNC followed by the stuffed bytes —
never contains more than six consecutive 1s (= bit times without a transition after NRZI). -/
theorem no_seven_ones_on_wire (bytes : List Nat) : runOK 0 (syncBits ++ stuff 1 (bitsOf bytes)) = true := by
  simp [syncBits, runOK, runOK_stuff 1 (by omega)]

/-- **a stuffing violation is an error**: seven consecutive 1s (of which `n ≤ 6` have already been
seen) are reported as a violation, whatever follows. -/
theorem stuff_error_detected (n : Nat) (hn : n ≤ 6) (rest : List Bool) :
    unstuff n (List.replicate (7 - n) true ++ rest) = none := by
  have : n = 0 ∨ n = 1 ∨ n = 2 ∨ n = 3 ∨ n = 4 ∨ n = 5 ∨ n = 6 := by omega
  rcases this with h | h | h | h | h | h | h <;> subst h <;> simp [List.replicate, unstuff]

/-- … and so is the waveform of a packet into which a seventh 1 has been put. -/
example : decode ((nrzi true (syncBits ++ List.replicate 6 true ++ [false])).map lvl ++ [.SE0, .SE0, .J])
    = .stuffError := by decide

/-- **never drives in non-driving mode** (UTMI op_mode 1, and the reserved mode 3): the output enables
are off and the transmitter is not started, whatever `tx_valid`/`tx_data` are. -/
theorem never_drives_in_nondriving (i : GlueIn) (h : i.opMode = OP_NONDRIVING ∨ i.opMode = 3) :
    (glue i).oe = false ∧ (glue i).txIOe = false := by
  rcases h with h | h <;> simp [glue, h, OP_NONDRIVING, OP_NORMAL, OP_NO_ENCODING]

/-- **pull-up / pull-down follow the requests** in every operating mode. -/
theorem pulls_follow_requests (i : GlueIn) :
    (glue i).pullup = i.termSelect ∧ (glue i).pulldown = (i.dmPulldown || i.dpPulldown) := by
  unfold glue; split <;> (try split) <;> simp

/-! Non-vacuity / sanity -/
example : encode [0xA5] = [.K, .J, .K, .J, .K, .J, .K, .K,  .K, .J, .J, .K, .J, .J, .K, .K,  .SE0, .SE0, .J] := by decide
example : (encode [0xFF, 0xFF]).length = 8 + 16 + 2 + 3 := by decide
example : decode (encode [0xFF, 0x00, 0x7E, 0xFF]) = .ok [0xFF, 0x00, 0x7E, 0xFF] := by decide

end LunaVerif.FsCodec
