import LunaVerif.Props.C12
/-!
# C14 — Data toggles advance only on success and reset on CLEAR_FEATURE(HALT)

"An endpoint's data toggle advances exactly once per successfully completed transaction (host ACK for IN,
device ACK of new data for OUT) and never otherwise; a CLEAR_FEATURE(ENDPOINT_HALT) request that completes
resets to DATA0 the toggle of exactly the endpoint number and direction it names, and no other."
Quantifier: all histories of transactions and CLEAR_FEATURE(ENDPOINT_HALT) requests naming any endpoint
number/direction, at any point of an IN or OUT transfer.

* cycle level — `in_toggle_advances_iff_acked` (`InGate`: `USBInTransferManager` inside
  `USBStreamInEndpoint`), `out_toggle_advances_iff_acked_new_data` (`StreamOutEndpoint`),
  `sig_toggle_advances_iff_acked` (`SignalIn`), `clear_halt_next_packet_is_data0` (IN, in whichever of the
  states reachable when the strobe arrives, including the coincidence with `packet_ready`: F8, repaired),
  `clear_halt_resets_out_toggle`;
* transaction level (`EpDev`) — `clear_halt_resets_exactly_named_endpoint` (decode of `wIndex[7]`,
  `wIndex[3:0]` by the standard request handler, broadcast through the multiplexer's OR-join —
  `C12.halt_clear_single_driver` — and the per-endpoint match on direction and number),
  `strobe_only_after_zlp` (F5: the strobe is also emitted after a stalled CLEAR_FEATURE, but only a host
  that ACKs a STALL could make that happen), the event-level toggle laws.

The sequence bit of an IN endpoint is `InGate.seq`: the PID of the packet it sends next / is sending / has
sent without having seen the ACK yet.  (The register `data_pid[0]` itself is toggled *before* a packet is
sent, so in WAIT_FOR_DATA it still holds the previous packet's PID.)
-/
set_option linter.unusedSimpArgs false
set_option linter.unusedVariables false

namespace LunaVerif.C14
open LunaVerif

/-! ## 1. Stream IN endpoint, cycle level -/
section InCycle
open InGate C12.InGateLemmas

/-- `seq` after a cycle, from the FSM state and `data_pid[0]` after it. -/
theorem seq_next (c : Config) (s : State) (i : In) :
    seq (next c s i) = (if (next c s i).fsm = .waitData then !(next c s i).pid0 else (next c s i).pid0) := rfl

/-- `data_pid[0]` after a cycle. -/
theorem next_pid0 (c : Config) (s : State) (i : In) :
    (next c s i).pid0 =
      match s.fsm with
      | .waitData =>
        if packetReady c s i then (if c.f8Repaired && i.resetSeq then i.start1 else !s.pid0)
        else (if i.resetSeq then !i.start1 else s.pid0)
      | .waitSend =>
        if i.discard then !s.pid0 else if i.resetSeq then i.start1 else s.pid0
      | .send => if i.resetSeq then !i.start1 else s.pid0
      | .waitAck =>
        if i.discard then (if i.resetSeq then !i.start1 else s.pid0)
        else if i.ack && i.active && i.isIn then
          (if i.genZlp && rFill s == c.mps && rEnded s then !s.pid0
           else if !sReady c s || packetReady c s i then !s.pid0
           else (if i.resetSeq then !i.start1 else s.pid0))
        else (if i.resetSeq then !i.start1 else s.pid0) := by
  rw [next_eq]
  cases hf : s.fsm <;> simp only [] <;> (repeat' split) <;> simp_all

/-- **in_toggle_advances_iff_acked**.  In every cycle without a PID-sequence reset and without the
application's `discard`, and in which the host's ACK does not coincide with a new token (two packets
cannot end in the same cycle), the sequence bit of the IN endpoint flips if and only if the endpoint is
waiting for an ACK and the host's ACK arrives after an IN token for this endpoint. -/
theorem in_toggle_advances_iff_acked (c : Config) (s : State) (i : In)
    (hr : i.resetSeq = false) (hd : i.discard = false) (hx : ¬(i.ack = true ∧ i.newToken = true)) :
    seq (next c s i) ≠ seq s ↔ (s.fsm = .waitAck ∧ i.ack = true ∧ i.active = true ∧ i.isIn = true) := by
  rw [seq_next, next_fsm, next_pid0]
  obtain ⟨fsm, pid0, pid1, toggle, fill0, fill1, ended0, ended1, sendPos, first⟩ := s
  cases fsm <;> simp only [seq, hr, hd] <;> (repeat' split) <;> simp_all <;> (cases pid0 <;> simp_all)

/-- The same for the endpoint (`active = (tokenizer.endpoint == endpoint_number)`, halt-clear decode). -/
theorem in_ep_toggle_advances_iff_acked (c : Config) (s : State) (i : EpIn)
    (hr : clearHalt c i = false) (hd : i.discard = false) (hx : ¬(i.ack = true ∧ i.newToken = true)) :
    seq (epStep c s i).1 ≠ seq s ↔
      (s.fsm = .waitAck ∧ i.ack = true ∧ i.tokEp = c.epNum ∧ i.isIn = true) := by
  have := in_toggle_advances_iff_acked c s (wire c i) (by simpa [wire] using hr) (by simpa [wire] using hd)
    (by simpa [wire] using hx)
  simpa [epStep, step, wire] using this

/-- The PID on the wire while the endpoint transmits is the sequence bit (bit 1 is the register's bit 1). -/
theorem transmitted_pid_is_seq (c : Config) (s : State) (i : In) (hv : (outOf c s i).valid = true) :
    (outOf c s i).pid = (if seq s then 1 else 0) + (if s.pid1 then 2 else 0) := by
  obtain ⟨fsm, pid0, pid1, toggle, fill0, fill1, ended0, ended1, sendPos, first⟩ := s
  cases fsm <;> simp_all [outOf, pidNat, seq]

/-- **clear_halt_next_packet_is_data0** (stream IN).  The halt-clear strobe of the device is caused by a
host ACK on endpoint 0, so it reaches an IN endpoint only after at least one new token, i.e. in
WAIT_FOR_DATA or WAIT_TO_SEND.  In both — and also when the strobe coincides with the producer's byte that
completes a packet (`packet_ready`, F8 repaired) — the sequence bit after the cycle is DATA0 and bit 1 of
the PID register is clear. -/
theorem clear_halt_next_packet_is_data0 (c : Config) (hc : c.f8Repaired = true) (s : State) (i : In)
    (hr : i.resetSeq = true) (h1 : i.start1 = false) (hd : i.discard = false)
    (hs : s.fsm = .waitData ∨ s.fsm = .waitSend) :
    seq (next c s i) = false ∧ (next c s i).pid1 = false := by
  constructor
  · rw [seq_next, next_fsm, next_pid0]
    rcases hs with hs | hs <;> simp only [hs, hr, h1, hd, hc] <;> (repeat' split) <;> simp_all
  · rw [next_eq]
    rcases hs with hs | hs <;> simp only [hs, hr, h1, hd, hc] <;> (repeat' split) <;> simp_all

/-- … and it stays DATA0 until the packet has been sent and acknowledged: by
`in_toggle_advances_iff_acked` the sequence bit only moves on the ACK, and by `transmitted_pid_is_seq`
it is what goes out with the next packet. -/
theorem clear_halt_then_quiet_keeps_data0 (c : Config) (s : State) (i : In)
    (hr : i.resetSeq = false) (hd : i.discard = false) (hx : ¬(i.ack = true ∧ i.newToken = true))
    (hna : ¬(s.fsm = .waitAck ∧ i.ack = true ∧ i.active = true ∧ i.isIn = true)) :
    seq (next c s i) = seq s := by
  apply Classical.byContradiction
  intro hne
  exact hna ((in_toggle_advances_iff_acked c s i hr hd hx).mp hne)

/-- F8 as it was before the repair: with `data_pid[0] = 0` (last packet DATA0, acknowledged) in
WAIT_FOR_DATA, a strobe in the very cycle the producer completes a packet leaves the sequence bit at
DATA1 — the reset is lost. -/
theorem clear_halt_f8_unrepaired_fails :
    ∃ (s : State) (i : In), i.resetSeq = true ∧ i.start1 = false ∧ i.discard = false ∧ s.fsm = .waitData ∧
      seq (next { mps := 4, f8Repaired := false } s i) = true := by
  refine ⟨{ pid0 := false }, ⟨true, false, false, false, false, true, true, false, false, true, false, true, false⟩, ?_⟩
  decide

/-- Outside those two states (a packet of this endpoint is on the wire or awaits its ACK — not reachable
when the strobe comes from the device's own control endpoint) the register is set to 1: the *next new*
packet is DATA0, but a retransmission of the current one would carry DATA1.  Stated to document the
boundary of `clear_halt_next_packet_is_data0`. -/
theorem clear_halt_during_own_transaction (c : Config) (s : State) (i : In)
    (hr : i.resetSeq = true) (h1 : i.start1 = false) (hd : i.discard = false) (ha : i.ack = false)
    (hs : s.fsm = .send ∨ s.fsm = .waitAck) : (next c s i).pid0 = true := by
  rw [next_pid0]
  rcases hs with hs | hs <;> simp [hs, hr, h1, hd, ha]

example : seq (next { mps := 4 } { pid0 := false }
    ⟨true, false, false, false, false, true, true, false, false, true, false, true, false⟩) = false := by decide

end InCycle

/-! ## 2. Stream OUT and status endpoints, cycle level -/
section OutSigCycle

/-- **out_toggle_advances_iff_acked_new_data**.  Without a halt-clear in the same cycle, the expected data
toggle of the OUT endpoint flips exactly in the cycle in which it answers a data packet *with the expected
PID* that it has accepted — and in that cycle it requests an ACK. -/
theorem out_toggle_advances_iff_acked_new_data (c : StreamOutEndpoint.Config) (s : StreamOutEndpoint.State)
    (i : StreamOutEndpoint.In) (hh : i.clearHalt = false) :
    ((StreamOutEndpoint.step c s i).1.expectedToggle ≠ s.expectedToggle ↔
      ((StreamOutEndpoint.comb c s i).dataRequested = true ∧ (StreamOutEndpoint.comb c s i).dataAccepted = true)) ∧
    (((StreamOutEndpoint.comb c s i).dataRequested = true ∧ (StreamOutEndpoint.comb c s i).dataAccepted = true) →
      (StreamOutEndpoint.step c s i).2.ack = true ∧ (StreamOutEndpoint.comb c s i).pidMatch = true ∧
      i.tokEp = c.epNum ∧ i.tokIsOut = true ∧ i.rxReady = true) := by
  constructor
  · simp only [StreamOutEndpoint.step, hh]
    cases s.expectedToggle <;> simp
  · intro ⟨h1, h2⟩
    simp only [StreamOutEndpoint.step, StreamOutEndpoint.outOf, h1, h2]
    simp only [StreamOutEndpoint.comb] at h1 h2
    simp_all [StreamOutEndpoint.comb]

/-- An ACK that does not move the toggle is either the answer to a PING or to a packet with the *other*
PID (a repetition the host sent because it missed our ACK): the packet is not written to the FIFO. -/
theorem out_ack_without_advance (c : StreamOutEndpoint.Config) (s : StreamOutEndpoint.State)
    (i : StreamOutEndpoint.In) (hh : i.clearHalt = false)
    (ha : (StreamOutEndpoint.step c s i).2.ack = true)
    (hn : (StreamOutEndpoint.step c s i).1.expectedToggle = s.expectedToggle) :
    (StreamOutEndpoint.comb c s i).pingRequested = true ∨
    ((StreamOutEndpoint.comb c s i).shouldSkip = true ∧ (StreamOutEndpoint.fifoIn c s i).wen = false) := by
  have h := (out_toggle_advances_iff_acked_new_data c s i hh).1
  have hna : ¬((StreamOutEndpoint.comb c s i).dataRequested = true ∧ (StreamOutEndpoint.comb c s i).dataAccepted = true) :=
    fun hc => (h.mpr hc) hn
  simp only [StreamOutEndpoint.step, StreamOutEndpoint.outOf] at ha
  simp only [StreamOutEndpoint.fifoIn]
  simp only [StreamOutEndpoint.comb] at ha hna ⊢
  revert ha hna
  cases i.tokEp == c.epNum <;> cases i.tokIsOut <;> cases i.rxReady <;> cases i.tokIsPing <;> cases i.tokReady <;>
    cases (i.pidToggle == if s.expectedToggle = true then 1 else 0) <;> simp

/-- **clear_halt (stream OUT)**: a halt-clear naming this endpoint (`enable & ~direction & number ==
endpoint_number`, the `clearHalt` input of the model) leaves the expected toggle at DATA0 whatever else
happens in that cycle. -/
theorem clear_halt_resets_out_toggle (c : StreamOutEndpoint.Config) (s : StreamOutEndpoint.State)
    (i : StreamOutEndpoint.In) (hh : i.clearHalt = true) :
    (StreamOutEndpoint.step c s i).1.expectedToggle = false := by
  simp [StreamOutEndpoint.step, hh]

/-- **sig_toggle_advances_iff_acked**: without a halt-clear naming it, the status endpoint's toggle flips
exactly when it is waiting for the ACK of its packet and the host's ACK arrives after an IN token for it. -/
theorem sig_toggle_advances_iff_acked (c : SignalIn.Config) (s : SignalIn.State) (i : SignalIn.In)
    (hh : i.clearHalt = false) :
    (SignalIn.step c s i).1.toggle ≠ s.toggle ↔ (s.fsm = .waitAck ∧ SignalIn.ackTaken c i = true) := by
  obtain ⟨fsm, latched, sent, toggle⟩ := s
  cases fsm <;> simp [SignalIn.step, SignalIn.stepCore, hh] <;> (repeat' split) <;> simp_all

/-- **clear_halt (status IN)**: a halt-clear naming the status endpoint leaves its toggle at DATA0 in every
FSM state (fix 08e26ae / 61d16f5). -/
theorem clear_halt_resets_sig_toggle (c : SignalIn.Config) (s : SignalIn.State) (i : SignalIn.In)
    (hh : i.clearHalt = true) : (SignalIn.step c s i).1.toggle = false := by
  simp [SignalIn.step, hh]

end OutSigCycle

/-! ## 3. Transaction level -/
section Events
open EpDev
open LunaVerif.Device hiding step run final init LegalHost legalEvent legalFrom

/-- The toggle of an endpoint as the host sees it: PID of the next packet an IN endpoint sends (`some b`:
DATA1 iff `b`), PID an OUT endpoint expects. -/
def toggleOf : EpState → Bool
  | .sin s => s.seq
  | .sout s => s.toggle
  | .sig s => s.toggle

/-- The strobe the standard request handler emits decodes `wIndex` of the latched SETUP packet: direction =
bit 7, endpoint number = bits 3:0 (bits 6:4 and 15:8 are ignored). -/
theorem halt_strobe_decodes_windex (c : DevConfig) (s : DevState) (e : HostEvent) (d : Bool) (n : Nat)
    (h : haltStrobe c s e = some (d, n)) :
    d = decide (s.setup.index / 128 % 2 = 1) ∧ n = s.setup.index % 16 ∧ n < 16 ∧
    e = .handshake PID_ACK ∧ s.hstate = .clearFeature ∧ s.tokEp = 0 ∧ s.tokPid = PID_IN := by
  cases e with
  | handshake pid =>
    simp only [haltStrobe] at h
    split at h
    · rename_i hc
      simp only [Option.some.injEq, Prod.mk.injEq] at h
      refine ⟨h.1.symm, h.2.symm, by omega, by rw [hc.1], hc.2.2.2.2.1, hc.2.1, hc.2.2.1⟩
    · simp at h
  | _ => simp [haltStrobe] at h

theorem haltHits_none (ec : EpCfg) (d : Bool) (sh : Shared) (h : sh.halt = none) : haltHits ec d sh = false := by
  simp [haltHits, h]

/-- **clear_halt_resets_exactly_named_endpoint**.  In the event in which the strobe `(direction, number)`
fires (the host's ACK of the status stage of CLEAR_FEATURE):
 * the endpoint (stream IN, stream OUT or status) whose direction and number are the ones named has toggle
   DATA0 afterwards (stream IN: provided it is not in WAIT_FOR_ACK, which `new_token` has ruled out);
 * every endpoint that is *not* named ends the event exactly as it would have without the strobe. -/
theorem clear_halt_resets_exactly_named_endpoint (ec : EpCfg) (sh : Shared) (d : Bool) (n : Nat)
    (hh : sh.halt = some (d, n)) (st : EpState) (e : HostEvent) (hk : C12.kindOk ec st = true)
    (he : e = .handshake PID_ACK) (htok : sh.tokEp = 0) (hnum : 0 < ec.num) (hnt : sh.newTok = false) :
    ((d = dirIn ec.kind ∧ n = ec.num) →
        (∀ x, st = .sin x → x.fsm ≠ .waitAck) → toggleOf (epStep ec sh st e).1 = false) ∧
    (¬(d = dirIn ec.kind ∧ n = ec.num) → epStep ec sh st e = epStep ec { sh with halt := none } st e) := by
  subst he
  have hne : ¬(sh.tokEp = ec.num) := by omega
  constructor
  · intro ⟨hd, hn⟩ hwa
    cases st with
    | sin x =>
      have hkind : ec.kind = .streamIn := by simpa [C12.kindOk] using hk
      have hfsm := hwa x rfl
      obtain ⟨fsm, pid, wbuf, wended, rbuf, rended⟩ := x
      cases fsm <;> simp_all [epStep, haltHits, dirIn, toggleOf, inClearHalt, InState.seq]
    | sout x =>
      have hkind : ec.kind = .streamOut := by simpa [C12.kindOk] using hk
      simp_all [epStep, haltHits, dirIn, toggleOf]
    | sig x =>
      have hkind : ec.kind = .signalIn := by simpa [C12.kindOk] using hk
      simp_all [epStep, haltHits, dirIn, toggleOf, sigAck]
  · intro hnot
    cases st with
    | sin x =>
      have hkind : ec.kind = .streamIn := by simpa [C12.kindOk] using hk
      have : haltHits ec true sh = false := by
        simp only [haltHits, hh]
        simp only [dirIn, hkind] at hnot
        cases d <;> simp_all
      simp [epStep, this, haltHits_none, hne, hnt]
    | sout x =>
      have hkind : ec.kind = .streamOut := by simpa [C12.kindOk] using hk
      have : haltHits ec false sh = false := by
        simp only [haltHits, hh]
        simp only [dirIn, hkind] at hnot
        cases d <;> simp_all
      simp [epStep, this, haltHits_none, hne, hnt]
    | sig x =>
      have hkind : ec.kind = .signalIn := by simpa [C12.kindOk] using hk
      have : haltHits ec true sh = false := by
        simp only [haltHits, hh]
        simp only [dirIn, hkind] at hnot
        cases d <;> simp_all
      simp [epStep, this, haltHits_none, hne, hnt]

/-! Event-level toggle laws of the three endpoint kinds (the pieces `epStep` is made of). -/

theorem inNewToken_seq (y : InState) : (inNewToken y).seq = y.seq := by
  obtain ⟨fsm, pid, wbuf, wended, rbuf, rended⟩ := y
  cases fsm <;> simp [inNewToken, InState.seq]

theorem inToken_seq (y : InState) : (inToken y).1.seq = y.seq := by
  obtain ⟨fsm, pid, wbuf, wended, rbuf, rended⟩ := y
  cases fsm <;> simp [inToken, InState.seq]

theorem inFeed_seq (mps : Nat) (y : InState) (b : Nat) (last : Bool) : (inFeed mps y b last).1.seq = y.seq := by
  obtain ⟨fsm, pid, wbuf, wended, rbuf, rended⟩ := y
  cases fsm <;> simp only [inFeed, InState.seq] <;> (repeat' split) <;> simp_all

/-- Feeding the producer's bytes never moves the sequence bit (the register is toggled when a packet
becomes ready, but that packet is the *next* one). -/
theorem inProduce_seq (mps : Nat) (bytes : List Nat) (last : Bool) (y : InState) :
    (inProduce mps y bytes last).1.seq = y.seq := by
  induction bytes generalizing y with
  | nil => rfl
  | cons b bs ih =>
    simp only [inProduce]
    split
    · rw [ih, inFeed_seq]
    · rfl

/-- The host's ACK of the endpoint's packet advances the sequence bit exactly once; an ACK in any other
state does nothing. -/
theorem inAck_seq (mps : Nat) (y : InState) :
    (inAck mps y).seq = (if y.fsm = .waitAck then !y.seq else y.seq) := by
  obtain ⟨fsm, pid, wbuf, wended, rbuf, rended⟩ := y
  cases fsm <;> simp only [inAck, InState.seq] <;> (repeat' split) <;> simp_all

/-- After a halt-clear the next packet of an IN stream endpoint is DATA0 (not waiting for an ACK: see
`clear_halt_resets_exactly_named_endpoint`). -/
theorem inClearHalt_seq (y : InState) (h : y.fsm ≠ .waitAck) : (inClearHalt y).seq = false := by
  obtain ⟨fsm, pid, wbuf, wended, rbuf, rended⟩ := y
  cases fsm <;> simp_all [inClearHalt, InState.seq]

/-- OUT stream endpoint: the expected toggle moves exactly when a packet with a good CRC and the expected
PID arrives; that packet is ACKed and its bytes are appended to the FIFO; a good packet with the other PID
is ACKed and dropped. -/
theorem outData_toggle (mps : Nat) (y : OutState) (pid : Nat) (p : List Nat) (crcOk : Bool) :
    ((outData mps y pid p crcOk).1.toggle ≠ y.toggle ↔ (crcOk = true ∧ pidToggleBit pid = y.toggle)) ∧
    ((crcOk = true ∧ pidToggleBit pid = y.toggle) →
        (outData mps y pid p crcOk).2 = .hs PID_ACK ∧
        (outData mps y pid p crcOk).1.fifo = y.fifo ++ outEntries mps y.active p) ∧
    ((crcOk = true ∧ pidToggleBit pid ≠ y.toggle) →
        (outData mps y pid p crcOk).2 = .hs PID_ACK ∧ (outData mps y pid p crcOk).1 = y) := by
  obtain ⟨toggle, fifo, active⟩ := y
  cases crcOk <;> cases hb : pidToggleBit pid <;> cases toggle <;> simp [outData, hb]

theorem sigAck_toggle (y : SigState) : (sigAck y).toggle ≠ y.toggle ↔ y.fsm = .waitAck := by
  obtain ⟨fsm, latched, toggle, signal⟩ := y
  cases fsm <;> simp [sigAck]

theorem sigToken_toggle (w : Nat) (y : SigState) : (sigToken w y).1.toggle = y.toggle := by
  obtain ⟨fsm, latched, toggle, signal⟩ := y
  cases fsm <;> simp [sigToken]

/-! ### F5: the strobe of a stalled CLEAR_FEATURE -/

theorem stdRequest_setup (c : DevConfig) (s : DevState) (r : Req) : (stdRequest c s r).1.setup = s.setup := by
  cases hh : s.hstate <;> cases r <;> simp only [stdRequest, hh] <;> (try split) <;> simp [toIdle]

theorem stdRequest_data (c : DevConfig) (s : DevState) (r : Req) (h : (stdRequest c s r).2.isData = true)
    (hc : (stdRequest c s r).1.hstate = .clearFeature) : clearFeatureStalls s.setup = false := by
  cases hh : s.hstate <;> cases r <;> simp only [stdRequest, hh] at h hc ⊢ <;>
    (try (split at h)) <;> (try (split at hc)) <;> simp_all [toIdle, Resp.isData]

theorem request_setup (c : DevConfig) (s : DevState) (r : Req) : (request c s r).1.setup = s.setup := by
  simp only [request]
  split <;> split <;> first | rfl | exact stdRequest_setup c s r

/-- A DATA answer of the control endpoint that leaves the standard handler in CLEAR_FEATURE with its
outputs selected is the status-stage ZLP of a CLEAR_FEATURE it does not stall. -/
theorem request_data (c : DevConfig) (s : DevState) (r : Req) (h : (request c s r).2.isData = true)
    (hc : (request c s r).1.hstate = .clearFeature) (ho : owner c s.setup = .std)
    (ht : s.setup.type = TYPE_STANDARD) : clearFeatureStalls s.setup = false := by
  simp only [request, ho, ht, if_true] at h hc
  exact stdRequest_data c s r h hc

/-- Every DATA packet the control endpoint transmits is the answer of the request handlers to a data- or
status-stage request. -/
theorem core_data_from_request (c : DevConfig) (s : DevState) (e : HostEvent) (h : (core c s e).2.isData = true) :
    ∃ s1 r, core c s e = request c s1 r := by
  revert h
  cases e <;> simp only [core, onToken, onData, onSetupData] <;> (repeat' split) <;>
    first
      | (intro h; simp [Resp.isData] at h; done)
      | (intro _; exact ⟨_, _, rfl⟩)

/-- **strobe_only_after_zlp** (F5).  The CLEAR_FEATURE state of the standard request handler emits the
halt-clear strobe on the host's ACK without looking at its own stall condition.  `e1` is the event before
the ACK; a legal host sends an ACK to the control endpoint only if the control endpoint answered `e1` with
a DATA packet.  If the ACK then makes the strobe fire, that DATA packet was the status-stage ZLP of a
CLEAR_FEATURE(ENDPOINT_HALT) addressed to an endpoint — a stalled CLEAR_FEATURE never resets a toggle. -/
theorem strobe_only_after_zlp (c : DevConfig) (s : DevState) (e1 : HostEvent) (x : Bool × Nat)
    (hs : haltStrobe c (core c s e1).1 (.handshake PID_ACK) = some x)
    (hd : (core c s e1).2.isData = true) : clearFeatureStalls (core c s e1).1.setup = false := by
  have hcond : (core c s e1).1.hstate = .clearFeature ∧ owner c (core c s e1).1.setup = .std ∧
      (core c s e1).1.setup.type = TYPE_STANDARD := by
    simp only [haltStrobe] at hs
    split at hs
    · rename_i hc; exact ⟨hc.2.2.2.2.1, hc.2.2.2.2.2, hc.2.2.2.1⟩
    · simp at hs
  obtain ⟨s1, r, heq⟩ := core_data_from_request c s e1 hd
  rw [heq] at hd hcond ⊢
  rw [request_setup] at hcond ⊢
  exact request_data c s1 r hd hcond.1 hcond.2.1 hcond.2.2

end Events

end LunaVerif.C14
