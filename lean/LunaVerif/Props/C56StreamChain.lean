import LunaVerif.Props.C56StreamLive
import LunaVerif.Props.C56UartMulti
/-!
# C56 — StreamILA (same clock domain and with `o_domain != domain`): any number of captures in one history

`stream_readout_any` / `cdc_readout_in_order` speak about one capture.  Here they are chained over a whole history (the
structure of `Props/C56UartChain.lean`): the history is cut at the *accepted* triggers (`ChainOK`: each piece starts with a
trigger seen while the wrapper FSM is IDLE, its continuation starts no new capture, and at its end the wrapper is IDLE again —
which is exactly when the gateware accepts the next trigger: the StreamILA blocks its trigger input while SAMPLING / SENDING, so
a read-out in progress can NOT be disturbed by a new trigger, and a new capture cannot start before the previous buffer has been
sent completely).  `stream_capture_chain`: the words transferred on the stream over the whole history are the framed samples of
capture 1, then those of capture 2, ... — each capture's `depth` samples in order, each once, nothing else; in particular no
sample of capture `k-1` appears after capture `k` was started.  `stream_capture_chain_open`: the last capture may still be in
its read-out at the end of the history (a prefix of its frame).  `stream_capture_nth`: localised in time — the words transferred
during piece `k` are exactly capture `k`'s frame.  `stream_capture_chain_total`: "wrapper idle at the end of each piece" replaced
by "the consumer offered `2·depth` ready cycles in each piece".  `cdc_capture_chain*`: the same on the output-domain stream behind
the clock-domain-crossing FIFO (abstract in-order queue, any interleaving of the two clocks), and `cdc_output_prefix`: at EVERY
moment of a legal two-clock history the words received so far are a prefix of (FIFO contents at the start ++) the frames of the
captures in order.
-/
namespace LunaVerif.IlaStream
open LunaVerif.Ila

/-- one capture with its read-out: trigger cycle, `depth` capture cycles, hand-over cycle, continuation -/
structure Capture where
  x0 : In
  xs : List In
  xl : In
  ys : List In

def Capture.hist (b : Capture) : List In := b.x0 :: b.xs ++ b.xl :: b.ys

/-- the samples capture `b` records when it starts in state `σ`: the `depth` consecutive (delayed) samples from the trigger cycle
on (`S[1..depth]` of `captures_depth_consecutive_samples`) -/
def capSamples (c : Config) (σ : State) (b : Capture) : List Nat :=
  ((σ.core.dl ++ inputsOfW (b.x0 :: b.xs)).drop 1).take c.depth

/-- a history cut at the accepted triggers: each piece starts with a trigger, its continuation starts no new capture (trigger
low whenever the wrapper FSM is IDLE; triggers while it is busy are allowed, they are blocked), and at its end the wrapper FSM is
IDLE again (the read-out is finished; the next trigger is accepted) -/
def ChainOK (c : Config) : State → List Capture → Prop
  | _, [] => True
  | σ, b :: bs => b.x0.trigger = true ∧ b.xs.length = c.depth ∧
      noRetrigger c (runState c σ (b.x0 :: b.xs ++ [b.xl])) b.ys ∧
      (runState c σ b.hist).fsm = .idle ∧ ChainOK c (runState c σ b.hist) bs

instance (c : Config) : ∀ σ bs, Decidable (ChainOK c σ bs)
  | _, [] => isTrue trivial
  | σ, b :: bs =>
    have := instDecidableChainOK c (runState c σ b.hist) bs
    inferInstanceAs (Decidable (_ ∧ _ ∧ _ ∧ _ ∧ _))

/-- the spec: the framed buffers of the captures, capture after capture -/
def capturedFrames (c : Config) : State → List Capture → List Xfer
  | _, [] => []
  | σ, b :: bs => frame (capSamples c σ b) ++ capturedFrames c (runState c σ b.hist) bs

/-- the state after the hand-over cycle satisfies the read-out invariant `Resting` -/
theorem handover_resting (c : Config) (hd : 1 ≤ c.depth) (σ : State) (hσ : WIdle c σ)
    (x0 : In) (ht : x0.trigger = true) (xs : List In) (hl : xs.length = c.depth) (xl : In) :
    Resting c (runState c σ (x0 :: xs ++ [xl])) := by
  obtain ⟨_, wpos, dl, hs⟩ := capture_then_sending c hd σ hσ x0 ht xs hl xl
  rw [hs]
  exact ⟨⟨rfl, rfl, samples_length c σ x0 xs hl⟩, by simp, by simp⟩

/-- a capture whose continuation starts no new capture: the wrapper is in a `Resting` state at its end -/
theorem capture_resting (c : Config) (hd : 1 ≤ c.depth) (σ : State) (hσ : WIdle c σ) (b : Capture)
    (ht : b.x0.trigger = true) (hl : b.xs.length = c.depth)
    (hq : noRetrigger c (runState c σ (b.x0 :: b.xs ++ [b.xl])) b.ys) :
    Resting c (runState c σ b.hist) := by
  have hr := resting_run c _ _ (handover_resting c hd σ hσ b.x0 ht b.xs hl b.xl) hq
  have hsplit : b.hist = (b.x0 :: b.xs ++ [b.xl]) ++ b.ys := by simp [Capture.hist]
  rw [hsplit, runState_append]
  exact hr

/-- one link of the chain: a capture at whose end the wrapper is idle transferred exactly its framed buffer and leaves the
start hypotheses for the next capture -/
theorem chain_link (c : Config) (hd : 1 ≤ c.depth) (σ : State) (hσ : WIdle c σ) (b : Capture)
    (ht : b.x0.trigger = true) (hl : b.xs.length = c.depth)
    (hq : noRetrigger c (runState c σ (b.x0 :: b.xs ++ [b.xl])) b.ys) (hi : (runState c σ b.hist).fsm = .idle) :
    transfers c σ b.hist = frame (capSamples c σ b) ∧ WIdle c (runState c σ b.hist) ∧ (runState c σ b.hist).dv = false := by
  obtain ⟨k, h1, h2⟩ := stream_readout_any c hd σ hσ b.x0 ht b.xs hl b.xl b.ys hq
  have hk := h2 hi
  refine ⟨?_, resting_idle c _ (capture_resting c hd σ hσ b ht hl hq) hi⟩
  show transfers c σ (b.x0 :: b.xs ++ b.xl :: b.ys) = _
  rw [h1]
  apply List.take_of_length_le
  rw [frame, frameFrom_length, samples_length c σ b.x0 b.xs hl]
  exact hk

/-- **stream_capture_chain**: any number of captures in one history, cut at the accepted triggers: the words transferred on the
stream (`valid ∧ ready`) over the whole history are the framed buffer of capture 1, then that of capture 2, ... — each capture's
`depth` samples in order, each once, `first` on its sample 0 and `last` on its sample `depth-1`, nothing else; and the wrapper
is in an idle state again. -/
theorem stream_capture_chain (c : Config) (hd : 1 ≤ c.depth) (bs : List Capture) :
    ∀ (σ : State), WIdle c σ → ChainOK c σ bs →
    transfers c σ (bs.flatMap Capture.hist) = capturedFrames c σ bs ∧ WIdle c (runState c σ (bs.flatMap Capture.hist)) := by
  induction bs with
  | nil => intro σ hσ _; exact ⟨rfl, hσ⟩
  | cons b bs ih =>
    intro σ hσ ⟨ht, hl, hq, hi, hrest⟩
    obtain ⟨a1, a2, _⟩ := chain_link c hd σ hσ b ht hl hq hi
    obtain ⟨b1, b2⟩ := ih _ a2 hrest
    simp only [List.flatMap_cons, transfers_append, runState_append, capturedFrames]
    exact ⟨by rw [a1, b1], b2⟩

/-- **stream_capture_chain_open**: as `stream_capture_chain`, the last capture `b` possibly still in its read-out when the history
ends: the words transferred are the complete frames of the earlier captures followed by the first `k` words of `b`'s frame;
`k ≥ depth` (all of it) if the wrapper is idle at the end.  Every history of the wrapper that starts in an idle state is of this
form or a prefix of one (trigger-free idle cycles are part of the continuations: `idle_quiet`). -/
theorem stream_capture_chain_open (c : Config) (hd : 1 ≤ c.depth) (bs : List Capture) (b : Capture) (σ : State)
    (hσ : WIdle c σ) (hok : ChainOK c σ bs) (ht : b.x0.trigger = true) (hl : b.xs.length = c.depth)
    (hq : noRetrigger c (runState c (runState c σ (bs.flatMap Capture.hist)) (b.x0 :: b.xs ++ [b.xl])) b.ys) :
    ∃ k, transfers c σ ((bs ++ [b]).flatMap Capture.hist) =
        capturedFrames c σ bs ++ (frame (capSamples c (runState c σ (bs.flatMap Capture.hist)) b)).take k ∧
      ((runState c σ ((bs ++ [b]).flatMap Capture.hist)).fsm = .idle → c.depth ≤ k) := by
  obtain ⟨a1, a2⟩ := stream_capture_chain c hd bs σ hσ hok
  obtain ⟨k, h1, h2⟩ := stream_readout_any c hd _ a2 b.x0 ht b.xs hl b.xl b.ys hq
  refine ⟨k, ?_, ?_⟩
  · simp only [List.flatMap_append, List.flatMap_cons, List.flatMap_nil, List.append_nil, transfers_append, a1]
    exact congrArg _ h1
  · simp only [List.flatMap_append, List.flatMap_cons, List.flatMap_nil, List.append_nil, runState_append]
    exact h2

theorem chainOK_append (c : Config) (as bs : List Capture) : ∀ σ,
    ChainOK c σ (as ++ bs) ↔ ChainOK c σ as ∧ ChainOK c (runState c σ (as.flatMap Capture.hist)) bs := by
  induction as with
  | nil => intro σ; simp [ChainOK, runState]
  | cons a as ih =>
    intro σ
    simp only [List.cons_append, ChainOK, List.flatMap_cons, runState_append, ih]
    constructor
    · rintro ⟨h1, h2, h3, h4, h5, h6⟩; exact ⟨⟨h1, h2, h3, h4, h5⟩, h6⟩
    · rintro ⟨⟨h1, h2, h3, h4, h5⟩, h6⟩; exact ⟨h1, h2, h3, h4, h5, h6⟩

/-- **stream_capture_nth**: localised in time: in a chain `as ++ b :: cs`, the words transferred during the piece of capture `b`
(from its trigger cycle to the cycle before the next accepted trigger) are exactly the frame of the samples `b` recorded —
whatever the earlier captures recorded: no sample of an earlier capture is transferred once `b` has been triggered. -/
theorem stream_capture_nth (c : Config) (hd : 1 ≤ c.depth) (as : List Capture) (b : Capture) (cs : List Capture) (σ : State)
    (hσ : WIdle c σ) (hok : ChainOK c σ (as ++ b :: cs)) :
    transfers c (runState c σ (as.flatMap Capture.hist)) b.hist =
      frame (capSamples c (runState c σ (as.flatMap Capture.hist)) b) := by
  obtain ⟨ok1, ht, hl, hq, hi, _⟩ := (chainOK_append c as (b :: cs) σ).mp hok
  obtain ⟨_, a2⟩ := stream_capture_chain c hd as σ hσ ok1
  exact (chain_link c hd _ a2 b ht hl hq hi).1

/-- every piece of the chain offers the ready cycles its read-out needs (`2·depth`; the first read-out after reset needs one
less) — a condition on the inputs alone -/
def ChainReady (c : Config) : State → List Capture → Prop
  | _, [] => True
  | σ, b :: bs => b.x0.trigger = true ∧ b.xs.length = c.depth ∧
      noRetrigger c (runState c σ (b.x0 :: b.xs ++ [b.xl])) b.ys ∧
      2 * c.depth ≤ readyCount b.ys ∧ ChainReady c (runState c σ b.hist) bs

instance (c : Config) : ∀ σ bs, Decidable (ChainReady c σ bs)
  | _, [] => isTrue trivial
  | σ, b :: bs =>
    have := instDecidableChainReady c (runState c σ b.hist) bs
    inferInstanceAs (Decidable (_ ∧ _ ∧ _ ∧ _ ∧ _))

theorem chainReady_ok (c : Config) (hd : 1 ≤ c.depth) (bs : List Capture) :
    ∀ (σ : State), WIdle c σ → ChainReady c σ bs → ChainOK c σ bs := by
  induction bs with
  | nil => intro σ _ _; trivial
  | cons b bs ih =>
    intro σ hσ ⟨ht, hl, hq, hn, hrest⟩
    obtain ⟨_, hi⟩ := stream_readout_total c hd σ hσ b.x0 ht b.xs hl b.xl b.ys hq (by omega)
    have hi' : (runState c σ b.hist).fsm = .idle := hi
    exact ⟨ht, hl, hq, hi', ih _ (chain_link c hd σ hσ b ht hl hq hi').2.1 hrest⟩

/-- **stream_capture_chain_total**: any number of captures, each followed by a continuation that starts no new capture and in
which the consumer offers at least `2·depth` ready cycles (at any times): the stream carries the complete framed buffer of every
capture, capture after capture.  No assumption on the state at the end of the pieces. -/
theorem stream_capture_chain_total (c : Config) (hd : 1 ≤ c.depth) (bs : List Capture) (σ : State) (hσ : WIdle c σ)
    (hok : ChainReady c σ bs) :
    transfers c σ (bs.flatMap Capture.hist) = capturedFrames c σ bs ∧ WIdle c (runState c σ (bs.flatMap Capture.hist)) :=
  stream_capture_chain c hd bs σ hσ (chainReady_ok c hd bs σ hσ hok)

/-- the payloads of the spec: the samples of capture 1, then those of capture 2, ... -/
def capturedSamples (c : Config) : State → List Capture → List Nat
  | _, [] => []
  | σ, b :: bs => capSamples c σ b ++ capturedSamples c (runState c σ b.hist) bs

theorem capturedFrames_payloads (c : Config) (bs : List Capture) : ∀ σ,
    (capturedFrames c σ bs).map (·.1) = capturedSamples c σ bs := by
  induction bs with
  | nil => intro σ; rfl
  | cons b bs ih => intro σ; simp [capturedFrames, capturedSamples, frame, frameFrom_payloads, ih]

/-- trigger-free cycles of an idle wrapper: nothing is transferred, the wrapper stays idle (a history may begin with any
number of them; `init_WIdle`) -/
theorem stream_idle_prefix (c : Config) (pre : List In) : ∀ (σ : State), (∀ x ∈ pre, x.trigger = false) → WIdle c σ →
    transfers c σ pre = [] ∧ WIdle c (runState c σ pre) := by
  induction pre with
  | nil => intro σ _ hσ; exact ⟨rfl, hσ⟩
  | cons x pre ih =>
    intro σ hp hσ
    obtain ⟨w1, _, w3⟩ := idle_step c σ hσ x (hp x (by simp))
    obtain ⟨i1, i2⟩ := ih _ (fun y hy => hp y (by simp [hy])) w1
    exact ⟨by simp only [transfers, w3, i1, List.append_nil], i2⟩

/-! ## Non-vacuity: depth 2, pre-trigger 1: two captures, the second trigger held from the middle of the first read-out on
(blocked), one idle cycle, then the second trigger -/
def exC1 : Capture := ⟨⟨true, 10, true⟩, [⟨true, 11, true⟩, ⟨false, 12, false⟩], ⟨false, 13, true⟩,
  [⟨false, 14, true⟩, ⟨true, 15, false⟩, ⟨true, 16, true⟩, ⟨true, 17, true⟩, ⟨false, 18, true⟩]⟩
def exC2 : Capture := ⟨⟨true, 20, true⟩, [⟨false, 21, true⟩, ⟨false, 22, true⟩], ⟨false, 23, true⟩,
  [⟨false, 24, true⟩, ⟨false, 25, true⟩, ⟨false, 26, false⟩, ⟨false, 27, true⟩, ⟨false, 28, true⟩, ⟨false, 29, true⟩]⟩

example : ChainOK ⟨2, 1⟩ (init ⟨2, 1⟩) [exC1, exC2] := by decide
example : ChainReady ⟨2, 1⟩ (init ⟨2, 1⟩) [exC1, exC2] := by decide
example : capturedFrames ⟨2, 1⟩ (init ⟨2, 1⟩) [exC1, exC2] =
    [(10, true, false), (11, false, true), (20, true, false), (21, false, true)] := by decide
example : transfers ⟨2, 1⟩ (init ⟨2, 1⟩) ([exC1, exC2].flatMap Capture.hist) =
    [(10, true, false), (11, false, true), (20, true, false), (21, false, true)] := by decide

end LunaVerif.IlaStream

namespace LunaVerif.IlaCdc
open LunaVerif.Ila

theorem wHist_append (a b : List Ev) : wHist (a ++ b) = wHist a ++ wHist b := by
  induction a with
  | nil => rfl
  | cons e a ih => cases e <;> simp [wHist, ih]

theorem runState_append (c : Config) (a b : List Ev) : ∀ s,
    runState c s (a ++ b) = runState c (runState c s a) b := by
  induction a with
  | nil => intro s; rfl
  | cons x a ih => intro s; simp [runState, ih]

theorem legal_prefix (c : Config) (a b : List Ev) : ∀ s, Legal c s (a ++ b) → Legal c s a := by
  induction a with
  | nil => intro s _; trivial
  | cons e a ih => intro s h; exact ⟨h.1, ih _ h.2⟩

/-- **cdc_capture_chain**: StreamILA with `o_domain != domain`, any legal two-clock history `es` whose capture-domain cycles
form a chain of captures cut at the accepted triggers (`ChainOK`), interleaved in any way with any number of output-domain
cycles: the words transferred on the output-domain stream, followed by the words still in the FIFO at the end, are the words in
the FIFO at the start followed by the framed buffer of capture 1, then that of capture 2, ... — each capture's samples in
order, each once. -/
theorem cdc_capture_chain (c : Config) (hd : 1 ≤ c.depth) (σ : State) (hσ : IlaStream.WIdle c σ.ila) (es : List Ev)
    (bs : List IlaStream.Capture) (hw : wHist es = bs.flatMap IlaStream.Capture.hist)
    (hok : IlaStream.ChainOK c σ.ila bs) (hL : Legal c σ es) :
    outWords c σ es ++ (runState c σ es).q = σ.q ++ IlaStream.capturedFrames c σ.ila bs ∧
    IlaStream.WIdle c (runState c σ es).ila := by
  obtain ⟨h1, h2⟩ := queue_conservation c es σ hL
  obtain ⟨a1, a2⟩ := IlaStream.stream_capture_chain c hd bs σ.ila hσ hok
  rw [hw] at h1 h2
  exact ⟨by rw [h1, a1], by rw [h2]; exact a2⟩

/-- **cdc_capture_chain_complete**: FIFO empty at the start and at the end: the output-domain stream carried exactly the framed
buffers of all captures, in order, each once. -/
theorem cdc_capture_chain_complete (c : Config) (hd : 1 ≤ c.depth) (σ : State) (hσ : IlaStream.WIdle c σ.ila) (es : List Ev)
    (bs : List IlaStream.Capture) (hw : wHist es = bs.flatMap IlaStream.Capture.hist)
    (hok : IlaStream.ChainOK c σ.ila bs) (hL : Legal c σ es) (hq0 : σ.q = []) (hq1 : (runState c σ es).q = []) :
    outWords c σ es = IlaStream.capturedFrames c σ.ila bs := by
  have h := (cdc_capture_chain c hd σ hσ es bs hw hok hL).1
  rwa [hq0, hq1, List.append_nil, List.nil_append] at h

/-- **cdc_capture_chain_open**: the last capture `b` possibly still being read out (or still queued in the FIFO) at the end. -/
theorem cdc_capture_chain_open (c : Config) (hd : 1 ≤ c.depth) (σ : State) (hσ : IlaStream.WIdle c σ.ila) (es : List Ev)
    (bs : List IlaStream.Capture) (b : IlaStream.Capture)
    (hw : wHist es = (bs ++ [b]).flatMap IlaStream.Capture.hist)
    (hok : IlaStream.ChainOK c σ.ila bs) (ht : b.x0.trigger = true) (hl : b.xs.length = c.depth)
    (hq : IlaStream.noRetrigger c (IlaStream.runState c (IlaStream.runState c σ.ila (bs.flatMap IlaStream.Capture.hist))
      (b.x0 :: b.xs ++ [b.xl])) b.ys) (hL : Legal c σ es) :
    ∃ k, outWords c σ es ++ (runState c σ es).q = σ.q ++ (IlaStream.capturedFrames c σ.ila bs ++
        (IlaStream.frame (IlaStream.capSamples c (IlaStream.runState c σ.ila (bs.flatMap IlaStream.Capture.hist)) b)).take k) ∧
      ((runState c σ es).ila.fsm = .idle → c.depth ≤ k) := by
  obtain ⟨h1, h2⟩ := queue_conservation c es σ hL
  obtain ⟨k, a1, a2⟩ := IlaStream.stream_capture_chain_open c hd bs b σ.ila hσ hok ht hl hq
  rw [hw] at h1 h2
  exact ⟨k, by rw [h1, a1], fun h => a2 (by rw [← h2]; exact h)⟩

theorem transfers_prefix (c : Config) (a b : List IlaStream.In) (s : IlaStream.State) :
    IlaStream.transfers c s a <+: IlaStream.transfers c s (a ++ b) := by
  rw [IlaStream.transfers_append]; exact List.prefix_append _ _

/-- **cdc_output_prefix**: at EVERY moment of a legal two-clock history (every prefix `es1` of it) the words the consumer has
received so far are a prefix of: the FIFO contents at the start followed by the words the read-out FSM transfers over the
whole history — with `cdc_capture_chain`: a prefix of the frames of capture 1, capture 2, ... in order.  Nothing is ever
delivered out of order, twice, or from an older capture after a newer one. -/
theorem cdc_output_prefix (c : Config) (σ : State) (es1 es2 : List Ev) (hL : Legal c σ (es1 ++ es2)) :
    outWords c σ es1 <+: σ.q ++ IlaStream.transfers c σ.ila (wHist (es1 ++ es2)) := by
  obtain ⟨h1, _⟩ := queue_conservation c es1 σ (legal_prefix c es1 es2 σ hL)
  rw [wHist_append, IlaStream.transfers_append, ← List.append_assoc, ← h1, List.append_assoc]
  exact List.prefix_append _ _

/-- `cdc_output_prefix` for a chain of captures -/
theorem cdc_chain_output_prefix (c : Config) (hd : 1 ≤ c.depth) (σ : State) (hσ : IlaStream.WIdle c σ.ila)
    (es1 es2 : List Ev) (bs : List IlaStream.Capture) (hw : wHist (es1 ++ es2) = bs.flatMap IlaStream.Capture.hist)
    (hok : IlaStream.ChainOK c σ.ila bs) (hL : Legal c σ (es1 ++ es2)) :
    outWords c σ es1 <+: σ.q ++ IlaStream.capturedFrames c σ.ila bs := by
  have h := cdc_output_prefix c σ es1 es2 hL
  rw [hw, (IlaStream.stream_capture_chain c hd bs σ.ila hσ hok).1] at h
  exact h

/-! ## Non-vacuity: the two captures of the example above as the capture-domain cycles of a two-clock history (`w_rdy` = the
ready column), output-domain cycles interleaved irregularly; at the end the FIFO is empty -/
def exChainEvents : List Ev :=
  [.w true 10 true, .r true false, .w true 11 true, .w false 12 false, .w false 13 true, .r true false, .w false 14 true,
   .w true 15 false, .r true true, .w true 16 true, .w true 17 true, .r false true, .w false 18 true, .w true 20 true, .w false 21 true,
   .r true true, .w false 22 true, .w false 23 true, .w false 24 true, .r true false, .w false 25 true, .w false 26 false,
   .w false 27 true, .r true true, .w false 28 true, .w false 29 true, .r true true, .r true false]

example : wHist exChainEvents = [IlaStream.exC1, IlaStream.exC2].flatMap IlaStream.Capture.hist := rfl
example : Legal ⟨2, 1⟩ (init ⟨2, 1⟩) exChainEvents := by decide
example : outWords ⟨2, 1⟩ (init ⟨2, 1⟩) exChainEvents =
    [(10, true, false), (11, false, true), (20, true, false), (21, false, true)] ∧
    (runState ⟨2, 1⟩ (init ⟨2, 1⟩) exChainEvents).q = [] := by decide

end LunaVerif.IlaCdc
