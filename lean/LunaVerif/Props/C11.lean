import LunaVerif.Model.Usb2.InTransferManager
/-!
# C11 — Bulk/interrupt IN endpoints deliver the stream exactly once, in order

"For any input byte stream with transfer boundaries and flush requests, any timing of IN tokens and
any pattern of lost or missing host ACKs, the data the host accepts (taking each DATA0/DATA1-toggled
packet once) is exactly the input stream in order. Packets never exceed the max packet size, every
transfer ends with a short packet or a zero-length packet, a retried packet repeats the same PID and
payload, and an IN token finding no data is NAKed."

This file holds the structural invariant and the packet-level statements, for all `mps ≥ 1` and
unbounded histories:

* `inv_reachable` — the structural invariant `Inv` (buffer memories keep their size, both fill
  counts stay ≤ mps, the read buffer is empty in WAIT_FOR_DATA, and in SEND_PACKET the byte on the
  packet stream is `read_buffer[send_position]` with `send_position < read_fill_count`: the
  registered-read latency is covered by the pre-fetch of byte 0) for every history without `discard`;
* `packet_len_le_mps`, `nak_when_no_packet`, `retry_repeats_pid_and_payload` (one step and whole
  un-ACKed segments), `pid_flips_only_with_new_packet`;
* `send_packet_streams_buffer` — a whole SEND_PACKET phase hands over exactly
  `read_buffer[send_position ..]`.

The two history-level statements of the property are proved on top of these, by ghost-state induction,
in separate modules (all audited by the C11 check):

* `Lemmas/C11Host.lean` — specification: the observer of the interface trace (host view with DATA0/DATA1
  de-duplication, producer log), the abstraction map `pending`, the boundary checker `endsOk`, the
  environments `LegalInEnv` / `LegalZlpEnv`;
* `Lemmas/C11Refine.lean` — `in_exactly_once`:
  `hostAccepted tr ++ pending (state) (host toggle) = producerAccepted tr` at every cycle of every history
  with `discard = reset_sequence = 0`;
* `Lemmas/C11Ends.lean` — `transfer_ends_short_or_zlp` (additionally `generate_zlps = 1`);
  `Lemmas/C11EndsSpec.lean` — the checker's verdict unfolded into ∀-statements.
-/
namespace LunaVerif.InXfer

/-! ## Structural invariant -/

structure Inv (c : Config) (s : State) : Prop where
  wlen  : s.w.mem.length = c.mps
  rlen  : s.r.mem.length = c.mps
  wfill : s.w.fill ≤ c.mps
  rfill : s.r.fill ≤ c.mps
  idle  : s.fsm = .waitData → s.r.fill = 0
  send  : s.fsm = .sendPacket → s.sendPos < s.r.fill ∧ s.r.mem[s.sendPos]? = some s.r.rdata

theorem le_pow_clog2 (n : Nat) : n ≤ 2 ^ clog2 n := by
  unfold clog2
  split
  · omega
  · have := @Nat.lt_log2_self (n - 1)
    omega

theorem readMem_eq (c : Config) (mem : List Nat) (a : Nat) (hl : mem.length = c.mps) (ha : a < c.mps) :
    mem[a]? = some (readMem c mem a) := by
  have h2 := le_pow_clog2 c.mps
  unfold readMem
  rw [Nat.mod_eq_of_lt (by omega)]
  simp [List.getD, List.getElem?_eq_getElem (by omega : a < mem.length)]

theorem inv_init (c : Config) : Inv c (init c) := by
  constructor <;> simp [init, emptyBuf]

theorem wNext_len (c : Config) (s : State) (i : In) : (wNext c s i).mem.length = s.w.mem.length := by
  unfold wNext; simp only; split <;> simp

theorem wNext_fill_le (c : Config) (s : State) (i : In) (h : s.w.fill ≤ c.mps) :
    (wNext c s i).fill ≤ c.mps := by
  unfold wNext; simp only
  split
  · omega
  · split
    · rename_i hw
      simp [wen, inReady] at hw
      omega
    · exact h

theorem rNext_mem (c : Config) (s : State) (i : In) : (rNext c s i).mem = s.r.mem := rfl
theorem rNext_fill (c : Config) (s : State) (i : In) (hd : i.discard = false) :
    (rNext c s i).fill = s.r.fill := by simp [rNext, hd]

theorem inv_step (c : Config) (s : State) (i : In) (hd : i.discard = false)
    (h : Inv c s) : Inv c (step c s i).1 := by
  have hwl := wNext_len c s i
  have hwf := wNext_fill_le c s i h.wfill
  have hrf := rNext_fill c s i hd
  have hrl : (rNext c s i).mem.length = c.mps := h.rlen
  obtain ⟨wlen, rlen, wfill, rfill, idle, send⟩ := h
  cases hfs : s.fsm with
  | waitData =>
    have hr0 := idle hfs
    refine ⟨?_, ?_, ?_, ?_, ?_, ?_⟩ <;>
      (simp only [step, hfs, hd]; (repeat' split)) <;> simp_all
  | waitSend =>
    refine ⟨?_, ?_, ?_, ?_, ?_, ?_⟩
    iterate 5 (· simp only [step, hfs, hd]; (repeat' split) <;> simp_all)
    · simp only [step, hfs, hd]
      (repeat' split) <;> simp_all
      refine ⟨by omega, ?_⟩
      rw [rNext]; simp only [rAddr, hfs]
      exact readMem_eq c s.r.mem 0 rlen (by omega)
  | sendPacket =>
    obtain ⟨hlt, hrd⟩ := send hfs
    have hb : s.sendPos + 1 < 2 ^ bitsFor c.mps := by
      have := @Nat.lt_log2_self c.mps
      unfold bitsFor; omega
    refine ⟨?_, ?_, ?_, ?_, ?_, ?_⟩
    iterate 5 (· simp only [step, hfs, hd]; (repeat' split) <;> simp_all)
    · simp only [step, hfs, hd]
      split
      · rename_i hrdy
        simp only
        split
        · simp
        · rename_i hl
          intro _
          rw [Nat.mod_eq_of_lt hb]
          simp at hl
          refine ⟨by rw [hrf]; omega, ?_⟩
          rw [rNext]; simp only [rAddr, hfs, hrdy, if_true]
          exact readMem_eq c s.r.mem (s.sendPos + 1) rlen (by omega)
      · rename_i hrdy
        intro _
        refine ⟨by simp; omega, ?_⟩
        simp only [rNext, rAddr, hfs, hrdy]
        exact readMem_eq c s.r.mem s.sendPos rlen (by omega)
  | waitAck =>
    refine ⟨?_, ?_, ?_, ?_, ?_, ?_⟩ <;>
      (simp only [step, hfs, hd]; (repeat' split)) <;> simp_all

def NoDiscard (ins : List In) : Prop := ∀ i ∈ ins, i.discard = false

/-- The structural invariant holds after every history without `discard`. -/
theorem inv_reachable (c : Config) (ins : List In) (hnd : NoDiscard ins) (s : State) (h : Inv c s) :
    Inv c (runState c s ins) := by
  induction ins generalizing s with
  | nil => exact h
  | cons i is ih =>
    exact ih (fun j hj => hnd j (by simp [hj])) _ (inv_step c s i (hnd i (by simp)) h)

/-- **Packets never exceed the max packet size.**  In every reachable state of a history without
`discard`, while a packet is on the stream the number of bytes already handed over
(`send_position`) is below the packet's length `read_fill_count ≤ mps`, and `last` is raised exactly
on byte number `read_fill_count`; a ZLP (the only other `valid` cycle) carries no byte. -/
theorem packet_len_le_mps (c : Config) (ins : List In) (hnd : NoDiscard ins) (i : In) :
    let s := runState c (init c) ins
    ((step c s i).2.valid = true →
      (s.fsm = .sendPacket ∧ s.sendPos + 1 ≤ s.r.fill ∧ s.r.fill ≤ c.mps ∧
        ((step c s i).2.last = true ↔ s.sendPos + 1 = s.r.fill)) ∨
      (s.fsm = .waitSend ∧ s.r.fill = 0 ∧ (step c s i).2.last = true)) := by
  intro s hv
  have hinv : Inv c s := inv_reachable c ins hnd _ (inv_init c)
  cases hfs : s.fsm with
  | waitData => simp [step, hfs] at hv; split at hv <;> simp at hv
  | waitSend =>
    right
    simp only [step, hfs] at hv ⊢
    (repeat' split at hv) <;> simp_all
  | sendPacket =>
    left
    obtain ⟨hlt, -⟩ := hinv.send hfs
    refine ⟨rfl, by omega, hinv.rfill, ?_⟩
    simp only [step, hfs]
    split <;> simp
  | waitAck => simp [step, hfs] at hv

/-- **An IN token finding no data is NAKed.**  `handshakes_out.nak` is raised exactly for an IN token
that arrives in WAIT_FOR_DATA; no data is offered in that cycle; and (invariant) in WAIT_FOR_DATA no
packet is staged: the read buffer is empty. -/
theorem nak_when_no_packet (c : Config) (ins : List In) (hnd : NoDiscard ins) (i : In) :
    let s := runState c (init c) ins
    (step c s i).2.nak = (decide (s.fsm = .waitData) && inTok i) ∧
    ((step c s i).2.nak = true → (step c s i).2.valid = false) ∧
    (s.fsm = .waitData → s.r.fill = 0) := by
  intro s
  have hinv : Inv c s := inv_reachable c ins hnd _ (inv_init c)
  refine ⟨?_, ?_, hinv.idle⟩
  · cases hfs : s.fsm <;> simp only [step, hfs] <;> (repeat' split) <;> simp
  · cases hfs : s.fsm <;> simp only [step, hfs] <;> (repeat' split) <;> simp

/-- One cycle, any state holding a packet: unless the packet is acknowledged (`ack & active & is_in`
in WAIT_FOR_ACK), discarded, or the PID sequence is reset, the read buffer (contents and length), the
PID and the buffer roles are unchanged and the FSM does not fall back to WAIT_FOR_DATA — whatever the
producer, `flush`, tokens and stray handshakes do. -/
theorem read_buffer_frozen (c : Config) (s : State) (i : In)
    (hd : i.discard = false) (hr : i.resetSeq = false) (hst : s.fsm ≠ .waitData)
    (hack : ¬ (s.fsm = .waitAck ∧ ackTaken i = true)) :
    (step c s i).1.r.mem = s.r.mem ∧ (step c s i).1.r.fill = s.r.fill ∧
    (step c s i).1.pid = s.pid ∧ (step c s i).1.toggle = s.toggle ∧
    (step c s i).1.fsm ≠ .waitData := by
  cases hfs : s.fsm with
  | waitData => exact absurd hfs hst
  | waitSend =>
    simp only [step, hfs, hd, hr]
    (repeat' split) <;> simp_all [rNext]
  | sendPacket =>
    simp only [step, hfs, hd, hr]
    (repeat' split) <;> simp_all [rNext]
  | waitAck =>
    have ha : ackTaken i = false := by
      cases h : ackTaken i
      · rfl
      · exact absurd ⟨hfs, h⟩ hack
    simp only [step, hfs, hd, hr, ha]
    (repeat' split) <;> simp_all [rNext]

/-- A run segment in which the staged packet is never acknowledged, discarded or reset. -/
def Unacked (c : Config) : State → List In → Prop
  | _, [] => True
  | s, i :: is =>
    i.discard = false ∧ i.resetSeq = false ∧ ¬ (s.fsm = .waitAck ∧ ackTaken i = true) ∧
    Unacked c (step c s i).1 is

/-- **A retried packet repeats the same PID and payload.**  From any state holding a packet, over
any number of cycles in which it is not acknowledged (lost ACK, time-out, new tokens, repeated IN
requests, concurrent filling of the other buffer, flush …), the packet's bytes, its length and its
PID stay what they were — every retransmission reads the same buffer under the same PID
(`send_packet_streams_buffer` says the transmission is that buffer). -/
theorem retry_repeats_pid_and_payload (c : Config) (s : State) (ins : List In)
    (hst : s.fsm ≠ .waitData) (hu : Unacked c s ins) :
    (runState c s ins).r.mem = s.r.mem ∧ (runState c s ins).r.fill = s.r.fill ∧
    (runState c s ins).pid = s.pid ∧ (runState c s ins).fsm ≠ .waitData := by
  induction ins generalizing s with
  | nil => exact ⟨rfl, rfl, rfl, hst⟩
  | cons i is ih =>
    obtain ⟨hd, hr, ha, hrest⟩ := hu
    obtain ⟨h1, h2, h3, _, h5⟩ := read_buffer_frozen c s i hd hr hst ha
    obtain ⟨g1, g2, g3, g4⟩ := ih (step c s i).1 h5 hrest
    exact ⟨g1.trans h1, g2.trans h2, g3.trans h3, g4⟩

/-- The PID changes only when a new packet is staged: a packet becoming ready in WAIT_FOR_DATA, or an
accepted ACK in WAIT_FOR_ACK (next buffer or the follow-up ZLP). -/
theorem pid_flips_only_with_new_packet (c : Config) (s : State) (i : In)
    (hd : i.discard = false) (hr : i.resetSeq = false) (hp : (step c s i).1.pid ≠ s.pid) :
    (s.fsm = .waitData ∧ packetReady c s i = true) ∨ (s.fsm = .waitAck ∧ ackTaken i = true) := by
  cases hfs : s.fsm with
  | waitData =>
    left; refine ⟨rfl, ?_⟩
    cases h : packetReady c s i
    · simp [step, hfs, h, hr] at hp
    · rfl
  | waitSend =>
    simp only [step, hfs, hd, hr] at hp
    (repeat' split at hp) <;> simp_all
  | sendPacket =>
    simp only [step, hfs, hd, hr] at hp
    (repeat' split at hp) <;> simp_all
  | waitAck =>
    right; refine ⟨rfl, ?_⟩
    cases h : ackTaken i
    · simp only [step, hfs, hd, hr, h] at hp
      (repeat' split at hp) <;> simp_all
    · rfl

/-- Bytes handed over (`valid & ready`) while the FSM stays in SEND_PACKET, and the state in which
that phase ends (or the history runs out). -/
def sendPhase (c : Config) : State → List In → List Nat × State
  | s, [] => ([], s)
  | s, i :: is =>
    if s.fsm = .sendPacket then
      ((if i.txReady then [(step c s i).2.payload] else []) ++ (sendPhase c (step c s i).1 is).1,
       (sendPhase c (step c s i).1 is).2)
    else ([], s)

/-- What is still to be sent of the staged packet. -/
def remaining (s : State) : List Nat :=
  if s.fsm = .sendPacket then (s.r.mem.take s.r.fill).drop s.sendPos else []

theorem drop_take_cons (mem : List Nat) (fill pos v : Nat) (h1 : pos < fill) (h2 : fill ≤ mem.length)
    (hv : mem[pos]? = some v) :
    (mem.take fill).drop pos = v :: (mem.take fill).drop (pos + 1) := by
  have hlen : pos < (mem.take fill).length := by simp; omega
  rw [List.drop_eq_getElem_cons hlen]
  congr 1
  rw [List.getElem_take]
  have := List.getElem?_eq_getElem (l := mem) (i := pos) (by omega)
  rw [this] at hv
  exact Option.some.inj hv

/-- **The transmission is the buffer.**  From any invariant state in SEND_PACKET, for every `ready`
schedule (and whatever else happens on the other ports, `discard` excepted), the bytes handed over
until the phase ends, followed by what is still to be sent, are exactly
`read_buffer[send_position .. read_fill_count)`; when the phase has ended the FSM is in WAIT_FOR_ACK
and nothing remains — so a complete transmission is `read_buffer[0 .. read_fill_count)`. -/
theorem send_packet_streams_buffer (c : Config) (s : State) (ins : List In) (hnd : NoDiscard ins)
    (h : Inv c s) (hfs : s.fsm = .sendPacket) :
    (sendPhase c s ins).1 ++ remaining (sendPhase c s ins).2 = remaining s ∧
    ((sendPhase c s ins).2.fsm ≠ .sendPacket → (sendPhase c s ins).2.fsm = .waitAck) := by
  induction ins generalizing s with
  | nil => simp [sendPhase, hfs]
  | cons i is ih =>
    have hd := hnd i (by simp)
    have hnd' : NoDiscard is := fun j hj => hnd j (by simp [hj])
    have hinv' := inv_step c s i hd h
    obtain ⟨hlt, hrd⟩ := h.send hfs
    have hb : s.sendPos + 1 < 2 ^ bitsFor c.mps := by
      have := @Nat.lt_log2_self c.mps
      have := h.rfill
      unfold bitsFor; omega
    simp only [sendPhase, hfs, if_true]
    by_cases hrdy : i.txReady = true
    · by_cases hl : (s.sendPos + 1 == s.r.fill) = true
      · -- last byte: the phase ends in WAIT_FOR_ACK
        have hs' : (step c s i).1.fsm = .waitAck := by simp [step, hfs, hrdy, hl]
        have hp : (step c s i).2.payload = s.r.rdata := by simp [step, hfs, hrdy]
        have hph : sendPhase c (step c s i).1 is = ([], (step c s i).1) := by
          cases is <;> simp [sendPhase, hs']
        simp only [hrdy, if_true, hph, hp]
        refine ⟨?_, fun _ => hs'⟩
        simp only [remaining, hs', hfs, if_true]
        simp at hl
        rw [drop_take_cons s.r.mem s.r.fill s.sendPos s.r.rdata hlt (by rw [h.rlen]; exact h.rfill) hrd]
        have : (List.take s.r.fill s.r.mem).drop (s.sendPos + 1) = [] := by
          apply List.drop_eq_nil_of_le; simp; omega
        simp [this]
      · -- a byte in the middle
        have hs' : (step c s i).1.fsm = .sendPacket := by simp [step, hfs, hrdy, hl]
        have hp : (step c s i).2.payload = s.r.rdata := by simp [step, hfs, hrdy]
        have hpos : (step c s i).1.sendPos = s.sendPos + 1 := by
          simp [step, hfs, hrdy, hl, Nat.mod_eq_of_lt hb]
        have hmem : (step c s i).1.r.mem = s.r.mem := by simp [step, hfs, hrdy, hl, rNext]
        have hfill : (step c s i).1.r.fill = s.r.fill := by simp [step, hfs, hrdy, hl, rNext, hd]
        obtain ⟨ih1, ih2⟩ := ih (step c s i).1 hnd' hinv' hs'
        refine ⟨?_, ih2⟩
        simp only [hrdy, if_true, hp, List.cons_append, List.nil_append, ih1]
        simp only [remaining, hs', hfs, if_true, hpos, hmem, hfill]
        rw [drop_take_cons s.r.mem s.r.fill s.sendPos s.r.rdata hlt (by rw [h.rlen]; exact h.rfill) hrd]
    · -- stalled
      have hs' : (step c s i).1.fsm = .sendPacket := by simp [step, hfs, hrdy]
      have hpos : (step c s i).1.sendPos = s.sendPos := by simp [step, hfs, hrdy]
      have hmem : (step c s i).1.r.mem = s.r.mem := by simp [step, hfs, hrdy, rNext]
      have hfill : (step c s i).1.r.fill = s.r.fill := by simp [step, hfs, hrdy, rNext, hd]
      obtain ⟨ih1, ih2⟩ := ih (step c s i).1 hnd' hinv' hs'
      have hrdy' : i.txReady = false := by simpa using hrdy
      refine ⟨?_, ih2⟩
      simp only [hrdy', Bool.false_eq_true, if_false, List.nil_append]
      rw [ih1]
      simp only [remaining, hs', hfs, if_true, hpos, hmem, hfill]

/-! ## Non-vacuity: mps = 2; bytes 5,6 fill a packet; IN token; the ACK is lost; retry; ACK -/

def exI (rfr nt ack v : Bool) (p : Nat) (rdy : Bool) : In :=
  ⟨true, true, rfr, nt, ack, v, p, false, false, false, true, false, false, rdy⟩

def exHist : List In :=
  [exI false false false true 5 true, exI false false false true 6 true,   -- producer: 5, 6
   exI false true false false 0 true, exI true false false false 0 true,   -- IN token
   exI false false false false 0 true, exI false false false false 0 true, -- bytes go out
   exI false true false false 0 true, exI true false false false 0 true,   -- no ACK: token again
   exI false false false false 0 true, exI false false false false 0 true, -- same bytes, same PID
   exI false false true false 0 true, exI true false false false 0 true]   -- ACK; next IN is NAKed

example : NoDiscard exHist := by unfold NoDiscard; decide
example : (trace ⟨2⟩ (init ⟨2⟩) exHist).map
      (fun io => (io.2.valid, if io.2.valid then io.2.payload else 0, io.2.pid, io.2.nak)) =
    [(false, 0, true, false), (false, 0, true, false), (false, 0, false, false), (false, 0, false, false),
     (true, 5, false, false), (true, 6, false, false), (false, 0, false, false), (false, 0, false, false),
     (true, 5, false, false), (true, 6, false, false), (false, 0, false, false), (false, 0, false, true)] := by
  decide

end LunaVerif.InXfer
