import LunaVerif.Lemmas.C57CycRuns
/-!
# C57 — rx / tx order on the cycle-level endpoints

`rx_in_order` / `tx_in_order` (Props/C57Streams.lean) are statements about event histories of the whole-device model
`Full.step`.  Here they are transferred to the CYCLE-LEVEL models of the serial device's data endpoints:

* rx = `USBStreamOutEndpoint(endpoint_number = 4, max_packet_size = 64)` (buffer_size = 2·64 − 1 = 127): C13's
  `StreamOutEndpoint.step` (boundary detector + transactional FIFO + ACK / NAK / toggle glue),
* tx = `USBStreamInEndpoint(endpoint_number = 4, max_packet_size = 64)`: C11's `InXfer.step` (`USBInTransferManager`
  with both packet memories) under `USBStreamInEndpoint`'s wiring,
* (the status endpoint, `USBStreamInEndpoint(endpoint_number = 3, max_packet_size = 64)`, likewise: `acm_status_cycles`),

each run over the clock-cycle expansion (C12's `expand`: any idle-cycle counts, stall patterns, free input values, any
acceptor-legal cycle sequence per data packet) of a history of the whole device, the token registers / `new_token` /
halt-clear strobe being those of the whole-device model's control endpoint.

1. `acm_rx_cycles`, `acm_tx_cycles`, `acm_status_cycles`: the decoded cycle-level outputs are, event by event, the outputs
   of the whole-device model's endpoints, and the final cycle-level states are related to the whole-device model's final
   endpoint states (instances of `C57Cyc.out_cycles_refine` / `in_cycles_refine`; the configuration hypotheses of C12's
   lemmas — endpoint number ≠ 0, max packet size ≥ 1 — are discharged by `decide`; since a002d0d C13's acceptor bounds
   a packet by the max packet size only in transactions addressed to the endpoint, so SETUP packets and other
   endpoints' packets pass whatever their length).
2. `cycle_ghost_eq`: the ghost history (`acked`, `delivered`, `produced`, `kept`, …) computed from the CYCLE-LEVEL wires
   (ACK requests, consumer transfers, producer bytes accepted, NAK / beats / zero-length packets) is the ghost history of
   the event-level run.
3. `rx_in_order_cycles`, `tx_in_order_cycles`: the transfer theorems; `delivered_is_stream`: `delivered` is the payload
   sequence of ALL consumer transfers of the cycle-level run.
-/
set_option linter.unusedSimpArgs false
set_option linter.unusedVariables false

namespace LunaVerif.C57
open LunaVerif LunaVerif.Device LunaVerif.Device.Full LunaVerif.C57Cyc

/-! ## The three endpoints of `USBSerialDevice` as C12 configurations -/

def st3 : EpDev.EpCfg := inCfg ep3
def rx4 : EpDev.EpCfg := outCfg ep4o
def tx4 : EpDev.EpCfg := inCfg ep4i

example : st3 = ⟨.streamIn, 3, 64, 0⟩ ∧ rx4 = ⟨.streamOut, 4, 64, 127⟩ ∧ tx4 = ⟨.streamIn, 4, 64, 0⟩ := by decide

theorem isAcm_stdOwned (c : FullConfig) (ha : IsAcm c) : StdOwned c.dev := by
  intro h hh
  rw [ha.2] at hh
  simp only [List.mem_singleton] at hh
  subst hh
  decide

example : IsAcm acmCfg ∧ IsSerial acmCfg := ⟨⟨rfl, rfl⟩, rfl⟩

/-- the status endpoint's state -/
def stEp (s : FullState) : InEp := match s.eps with | [.sIn a, _, _] => a | _ => {}

def ShapeOk (s : FullState) : Prop := ∃ a b d, Shape s a b d

theorem shapeOk_init (c : FullConfig) (hc : IsSerial c) : ShapeOk (Full.init c) := ⟨_, _, _, shape_init c hc⟩

theorem shapeOk_step (c : FullConfig) (hc : IsSerial c) (s : FullState) (ev : HostEvent) (h : ShapeOk s) :
    ShapeOk (Full.step c s ev).1 := by
  obtain ⟨a, b, d, hs⟩ := h
  exact shape_step c hc s a b d hs ev

theorem out4_step (b : OutEp) (x : Ctx) (ev : HostEvent) : ∃ b', (epStep ep4o (.sOut b) x ev).1 = .sOut b' := by
  cases ev <;> simp only [epStep] <;> (repeat' split) <;> exact ⟨_, rfl⟩

theorem eps_step (c : FullConfig) (hc : IsSerial c) (s : FullState) (ev : HostEvent) (h : ShapeOk s) :
    (epStep ep3 (.sIn (stEp s)) (ctxOf s.ctl ev) ev).1 = .sIn (stEp (Full.step c s ev).1) ∧
    (epStep ep4o (.sOut (rxEp s)) (ctxOf s.ctl ev) ev).1 = .sOut (rxEp (Full.step c s ev).1) ∧
    (epStep ep4i (.sIn (txEp s)) (ctxOf s.ctl ev) ev).1 = .sIn (txEp (Full.step c s ev).1) := by
  obtain ⟨a, b, d, hs⟩ := h
  have he := step_eps c hc s a b d hs ev
  obtain ⟨a', ha'⟩ := ep3_step a (ctxOf s.ctl ev) ev
  obtain ⟨b', hb'⟩ := out4_step b (ctxOf s.ctl ev) ev
  obtain ⟨d', hd'⟩ := in4_step d (ctxOf s.ctl ev) ev
  rw [ha', hb', hd'] at he
  unfold Shape at hs
  simp only [stEp, rxEp, txEp, hs, he, ha', hb', hd', and_self]

/-! ## 1. Cycles refine events, from reset -/

/-- **The rx endpoint (OUT 4), cycle level = whole-device event level.**  For every history of the whole serial device
from reset satisfying `outLegal` (data packets follow tokens, are acceptor-legal cycle sequences of bytes, and fit into
the FIFO while the registers name OUT 4): C13's cycle-level endpoint, run from reset over the expansion, requests
exactly the handshakes (ACK / NAK) and hands the consumer exactly the entries (payload, first, last) that the
whole-device model's rx endpoint does, event by event; its final state is related (`C12Out.Rel`: toggle,
`transfer_active`, FIFO contents, …) to an event-level state `e'` that is the whole-device model's final rx state
(`ROut`). -/
theorem acm_rx_cycles (c : FullConfig) (hc : IsSerial c) (ha : IsAcm c) (h : List (HostEvent × C12Out.Gaps))
    (hl : outLegal c ep4o rxEp (Full.init c) false h = true) :
    ∃ e' a', ROut (rxEp (Full.final c (Full.init c) (h.map (·.1)))) e' ∧
      C12Out.Rel (C12Out.cfgOf rx4) e'
        (StreamOutEndpoint.runState (C12Out.cfgOf rx4) StreamOutEndpoint.init (outCycles c rx4 (Full.init c) h))
        (C12Out.phOf a' (C12Out.tkD (Full.final c (Full.init c) (h.map (·.1))).ctl)) ∧
      outWires c rx4 (Full.init c) StreamOutEndpoint.init h
        = (epOuts c ep4o (fun s => .sOut (rxEp s)) (Full.init c) (h.map (·.1))).map outWiresOf := by
  have hrx0 : rxEp (Full.init c) = {} := by
    have := shape_init c hc; unfold Shape at this; simp [rxEp, this]
  exact out_cycles_refine c (isAcm_stdOwned c ha) ep4o (by decide) (by decide) rxEp ShapeOk (shapeOk_step c hc)
    (fun s ev hs => (eps_step c hc s ev hs).2.1) h (Full.init c) {} false false StreamOutEndpoint.init
    (shapeOk_init c hc) hl (by simp) (by rw [hrx0]; exact rout_init) (C12Out.rel_init _)

/-- **The tx endpoint (IN 4), cycle level = whole-device event level.**  For every history of the whole serial device
from reset whose `produce` events carry bytes: C11's cycle-level transfer manager, run from reset over the expansion,
accepts exactly as many producer bytes, requests exactly the NAKs and transmits exactly the DATA packets (PID
`data_pid[0]`, the beats with `first` / `last`, zero-length packets) that the whole-device model's tx endpoint does,
event by event; its final state is related (`C12In.Rel`: FSM state, data PID, both packet memories, …) to an
event-level state `e'` that is the whole-device model's final tx state (`RIn`). -/
theorem acm_tx_cycles (c : FullConfig) (hc : IsSerial c) (ha : IsAcm c) (h : List (HostEvent × C12In.Gaps))
    (hev : ∀ x ∈ h, C12In.EvOk x.1) :
    ∃ e', RIn 64 (txEp (Full.final c (Full.init c) (h.map (·.1)))) e' ∧
      C12In.Rel (C12In.cfgOf tx4) e'
        (InXfer.runState (C12In.cfgOf tx4) (InXfer.init (C12In.cfgOf tx4)) (inCycles c tx4 (Full.init c) {} h)) ∧
      inWires c tx4 (Full.init c) {} (InXfer.init (C12In.cfgOf tx4)) h
        = (epOuts c ep4i (fun s => .sIn (txEp s)) (Full.init c) (h.map (·.1))).map inWiresOf := by
  have htx0 : txEp (Full.init c) = {} := by
    have := shape_init c hc; unfold Shape at this; simp [txEp, this]
  exact in_cycles_refine c (isAcm_stdOwned c ha) ep4i (by decide) (by decide) txEp ShapeOk (shapeOk_step c hc)
    (fun s ev hs => (eps_step c hc s ev hs).2.2) h hev (Full.init c) {} (InXfer.init _)
    (shapeOk_init c hc) (by rw [htx0]; exact rin_init 64) (C12In.rel_init _)

/-- … and the status endpoint (IN 3; `USBSerialDevice` never feeds its stream). -/
theorem acm_status_cycles (c : FullConfig) (hc : IsSerial c) (ha : IsAcm c) (h : List (HostEvent × C12In.Gaps))
    (hev : ∀ x ∈ h, C12In.EvOk x.1) :
    ∃ e', RIn 64 (stEp (Full.final c (Full.init c) (h.map (·.1)))) e' ∧
      C12In.Rel (C12In.cfgOf st3) e'
        (InXfer.runState (C12In.cfgOf st3) (InXfer.init (C12In.cfgOf st3)) (inCycles c st3 (Full.init c) {} h)) ∧
      inWires c st3 (Full.init c) {} (InXfer.init (C12In.cfgOf st3)) h
        = (epOuts c ep3 (fun s => .sIn (stEp s)) (Full.init c) (h.map (·.1))).map inWiresOf := by
  have hst0 : stEp (Full.init c) = {} := by
    have := shape_init c hc; unfold Shape at this; simp [stEp, this]
  exact in_cycles_refine c (isAcm_stdOwned c ha) ep3 (by decide) (by decide) stEp ShapeOk (shapeOk_step c hc)
    (fun s ev hs => (eps_step c hc s ev hs).1) h hev (Full.init c) {} (InXfer.init _)
    (shapeOk_init c hc) (by rw [hst0]; exact rin_init 64) (C12In.rel_init _)

/-! C12's history lemmas for the slice machines `control endpoint × endpoint` (`C12.sliceRun`), instantiated with the
three configurations (the configuration hypotheses by `decide`). -/

theorem acm_rx_slice (c : DevConfig) (h : List (HostEvent × C12Out.Gaps))
    (hl : C12Out.legalOk c rx4 Device.init {} false h = true) :
    ∃ e' a', (C12.sliceFinal c rx4 (Device.init, .sout {}) (h.map (·.1))).2 = .sout e' ∧
      C12Out.Rel (C12Out.cfgOf rx4) e'
        (StreamOutEndpoint.runState (C12Out.cfgOf rx4) StreamOutEndpoint.init (C12Out.expandAll c rx4 Device.init h))
        (C12Out.phOf a' (C12Out.tkD (C12.sliceFinal c rx4 (Device.init, .sout {}) (h.map (·.1))).1)) ∧
      C12Out.cycObs c rx4 Device.init StreamOutEndpoint.init h
        = (C12.sliceRun c rx4 (Device.init, .sout {}) (h.map (·.1))).map C12Out.wiresOf :=
  C12Out.out_cycle_refines_legal c rx4 (by decide) (by decide) h hl

theorem acm_tx_slice (c : DevConfig) (h : List (HostEvent × C12In.Gaps)) (hev : ∀ x ∈ h, C12In.EvOk x.1) :
    ∃ e', (C12.sliceFinal c tx4 (Device.init, .sin {}) (h.map (·.1))).2 = .sin e' ∧
      C12In.Rel (C12In.cfgOf tx4) e'
        (InXfer.runState (C12In.cfgOf tx4) (InXfer.init (C12In.cfgOf tx4)) (C12In.expandAll c tx4 Device.init {} h)) ∧
      C12In.cycWires c tx4 Device.init {} (InXfer.init (C12In.cfgOf tx4)) h
        = (C12.sliceRun c tx4 (Device.init, .sin {}) (h.map (·.1))).map C12In.wiresOf :=
  C12In.in_cycle_refines_run c tx4 (by decide) (by decide) h hev Device.init {} _ (C12In.rel_init _)

theorem acm_status_slice (c : DevConfig) (h : List (HostEvent × C12In.Gaps)) (hev : ∀ x ∈ h, C12In.EvOk x.1) :
    ∃ e', (C12.sliceFinal c st3 (Device.init, .sin {}) (h.map (·.1))).2 = .sin e' ∧
      C12In.Rel (C12In.cfgOf st3) e'
        (InXfer.runState (C12In.cfgOf st3) (InXfer.init (C12In.cfgOf st3)) (C12In.expandAll c st3 Device.init {} h)) ∧
      C12In.cycWires c st3 Device.init {} (InXfer.init (C12In.cfgOf st3)) h
        = (C12.sliceRun c st3 (Device.init, .sin {}) (h.map (·.1))).map C12In.wiresOf :=
  C12In.in_cycle_refines_run c st3 (by decide) (by decide) h hev Device.init {} _ (C12In.rel_init _)

/-! ## 2. The ghost history read off the cycle-level wires -/

/-- the entries the cycle-level consumer took (`stream.valid ∧ stream.ready`), in the whole-device model's layout -/
def xfers : List C12Out.Wire → List Entry
  | [] => []
  | .xfer x :: ws => (x.1, x.2.2, x.2.1) :: xfers ws
  | _ :: ws => xfers ws

/-- What the rx endpoint's cycle-level outputs during one event say: handshake requested, entries handed over. -/
def rxObs (w : List C12Out.Wire) : Obs :=
  { resp := if C12Out.Wire.ack ∈ w then .hs PID_ACK else if C12Out.Wire.nak ∈ w then .hs PID_NAK else .none
    delivery := { count := (xfers w).length, items := xfers w } }

def accs : List C12In.Wire → Nat
  | [] => 0
  | .acc :: ws => accs ws + 1
  | _ :: ws => accs ws

def beatBytes : List C12In.Wire → List Nat
  | [] => []
  | .beat b _ _ _ :: ws => b :: beatBytes ws
  | _ :: ws => beatBytes ws

/-- the transmission of the tx endpoint during one event: NAK, or a DATA packet (PID from `data_pid[0]`, the payloads of
its beats), or nothing -/
def txResp : List C12In.Wire → Resp
  | [] => .none
  | .acc :: ws => txResp ws
  | .nak :: _ => .hs PID_NAK
  | .zlp pid :: _ => .data (dataPidOf pid) []
  | .beat b _ _ pid :: ws => .data (dataPidOf pid) (b :: beatBytes ws)

/-- What the tx endpoint's cycle-level outputs during one event say: transmission, producer bytes accepted. -/
def txObs (w : List C12In.Wire) : Obs := { resp := txResp w, delivery := { count := accs w } }

/-- The observation `ghostStep` needs for an event, taken from the cycle-level wires of the two data endpoints: data
packets and consumer reads concern rx, everything else (IN tokens, producer writes) tx. -/
def cycObsOf (ev : HostEvent) (wr : List C12Out.Wire) (wt : List C12In.Wire) : Obs :=
  match ev with
  | .data _ _ _ => rxObs wr
  | .consume _ _ => rxObs wr
  | _ => txObs wt

/-- The ghost history computed from the cycle-level wires (per event: `wr` of the rx endpoint, `wt` of the tx endpoint)
instead of the event-level model's answers; token registers, address and halt-clear strobe from the control endpoint
of the whole-device model. -/
def runGw (c : FullConfig) : FullState → Ghost → List AEvent → List (List C12Out.Wire) → List (List C12In.Wire) → Ghost
  | s, g, a :: as, wr :: wrs, wt :: wts =>
    runGw c (Full.step c s a.ev).1 (ghostStep s g a (cycObsOf a.ev wr wt)) as wrs wts
  | _, g, _, _, _ => g

theorem xfers_hs (l : List C12Out.Wire) (hl : ∀ w ∈ l, w = .ack ∨ w = .nak) (r : List Entry) :
    xfers (l ++ r.map (fun x => C12Out.Wire.xfer (x.1, x.2.2, x.2.1))) = r := by
  induction l with
  | nil =>
    induction r with
    | nil => rfl
    | cons x xs ih => simp only [List.nil_append, List.map_cons, xfers] at ih ⊢; rw [ih]
  | cons w ws ih =>
    rcases hl w (by simp) with h | h <;> subst h <;>
      simpa only [List.cons_append, xfers] using ih (fun w hw => hl w (by simp [hw]))

theorem rxObs_items (r : Resp × Delivery) : (rxObs (outWiresOf r)).delivery.items = r.2.items := by
  simp only [rxObs, outWiresOf]
  apply xfers_hs
  intro w hw
  split at hw
  · split at hw
    · simp at hw; exact Or.inl hw
    · split at hw
      · simp at hw; exact Or.inr hw
      · simp at hw
  · simp at hw

theorem rxObs_ack (r : Resp × Delivery) : (rxObs (outWiresOf r)).resp = .hs PID_ACK ↔ r.1 = .hs PID_ACK := by
  obtain ⟨r1, r2⟩ := r
  have hx : ∀ (l : List Entry), C12Out.Wire.ack ∉ l.map (fun x => C12Out.Wire.xfer (x.1, x.2.2, x.2.1)) := by
    intro l; simp
  have hn : ¬ (PID_NAK = PID_ACK) := by decide
  cases r1 with
  | none => simp [rxObs, outWiresOf, hn]
  | data p b => simp [rxObs, outWiresOf, hn]
  | hs pid =>
    by_cases h1 : pid = PID_ACK
    · subst h1; simp [rxObs, outWiresOf]
    · by_cases h2 : pid = PID_NAK
      · subst h2; simp [rxObs, outWiresOf, hn]
      · simp [rxObs, outWiresOf, h1, h2, hn]

theorem accs_replicate (k : Nat) (l : List C12In.Wire) : accs (List.replicate k C12In.Wire.acc ++ l) = k + accs l := by
  induction k with
  | zero => simp
  | succ n ih => simp only [List.replicate_succ, List.cons_append, accs, ih]; omega

theorem beatBytes_beats (pid : Bool) (n : Nat) (bs : List Nat) : ∀ k, beatBytes (C12In.beatsFrom pid n k bs) = bs := by
  induction bs with
  | nil => intro k; rfl
  | cons b t ih => intro k; simp only [C12In.beatsFrom, beatBytes, ih]

theorem accs_beats (pid : Bool) (n : Nat) (bs : List Nat) : ∀ k, accs (C12In.beatsFrom pid n k bs) = 0 := by
  induction bs with
  | nil => intro k; rfl
  | cons b t ih => intro k; simp only [C12In.beatsFrom, accs, ih]

theorem txObs_count (r : Resp × Delivery) : (txObs (inWiresOf r)).delivery.count = r.2.count := by
  obtain ⟨r1, r2⟩ := r
  simp only [txObs, inWiresOf, C12In.wiresOf, accs_replicate]
  cases r1 with
  | none => simp [accs]
  | hs pid => by_cases h : pid = PID_NAK <;> simp [h, accs]
  | data p bs =>
    cases bs with
    | nil => simp [accs]
    | cons b t => simp [accs_beats]

theorem dataPid_round (p : Bool) : (dataPidOf p == PID_DATA1) = p := by cases p <;> decide

/-- the transmission is read back from the wires of an answer of `USBInTransferManager` -/
theorem txResp_inToken (num : Nat) (d : InEp) (pid ep : Nat) :
    txResp (inWiresOf ((inToken num d pid ep).2, {})) = (inToken num d pid ep).2 := by
  have key : ∀ (p : Bool) (bs : List Nat), txResp (inWiresOf (.data (dataPidOf p) bs, {})) = .data (dataPidOf p) bs := by
    intro p bs
    cases bs with
    | nil => simp [inWiresOf, C12In.wiresOf, txResp, dataPid_round]
    | cons b t => simp [inWiresOf, C12In.wiresOf, C12In.beatsFrom, txResp, dataPid_round, beatBytes_beats]
  simp only [inToken]
  split
  · split
    · simp [inWiresOf, C12In.wiresOf, txResp]
    · exact key _ _
    · simp [inWiresOf, C12In.wiresOf, txResp]
  · simp [inWiresOf, C12In.wiresOf, txResp]

/-- **One event: the ghost step from the cycle-level wires = the ghost step from the event-level answer.** -/
theorem ghost_obs_eq (c : FullConfig) (hc : IsSerial c) (s : FullState) (a : InEp) (b : OutEp) (d : InEp)
    (hs : Shape s a b d) (g : Ghost) (ae : AEvent) :
    ghostStep s g ae (cycObsOf ae.ev (outWiresOf (epStep ep4o (.sOut b) (ctxOf s.ctl ae.ev) ae.ev).2)
      (inWiresOf (epStep ep4i (.sIn d) (ctxOf s.ctl ae.ev) ae.ev).2)) = ghostStep s g ae (Full.step c s ae.ev).2 := by
  obtain ⟨ev, got⟩ := ae
  cases ev with
  | data pid p ok =>
    by_cases h12 : s.ctl.tokPid = PID_OUT ∧ s.ctl.tokEp = 4
    · obtain ⟨h1, h2⟩ := h12
      have hr := resp_out_data c hc s a b d hs pid p ok h1 h2
      have hep : (epStep ep4o (.sOut b) (ctxOf s.ctl (.data pid p ok)) (.data pid p ok)).2.1
          = (outData ep4o b PID_OUT 4 pid p ok).2 := by
        simp only [epStep, ctxOf, h1, h2]
      have hiff := rxObs_ack (epStep ep4o (.sOut b) (ctxOf s.ctl (.data pid p ok)) (.data pid p ok)).2
      rw [hep, ← hr] at hiff
      simp only [ghostStep, cycObsOf, hiff]
    · have n1 : ∀ o : Obs, ¬(s.ctl.tokPid = PID_OUT ∧ s.ctl.tokEp = 4 ∧ o.resp = .hs PID_ACK ∧ pidToggle pid = g.rxBit) :=
        fun o h => h12 ⟨h.1, h.2.1⟩
      simp only [ghostStep, if_neg (n1 _)]
  | consume ep n =>
    by_cases he : ep = 4
    · subst he
      have hdel : (Full.step c s (.consume 4 n)).2.delivery = { count := (b.fifo.take n).length, items := b.fifo.take n } := by
        rw [step_delivery c hc s a b d hs]
        simp [epStep, ep4o, firstDelivery_mid]
      have hit := rxObs_items (epStep ep4o (.sOut b) (ctxOf s.ctl (.consume 4 n)) (.consume 4 n)).2
      have hep : (epStep ep4o (.sOut b) (ctxOf s.ctl (.consume 4 n)) (.consume 4 n)).2.2.items = b.fifo.take n := by
        simp [epStep, ep4o]
      rw [hep] at hit
      simp only [ghostStep, cycObsOf, if_true, hit, hdel]
    · simp only [ghostStep, if_neg he]
  | produce ep bytes last =>
    by_cases he : ep = 4
    · subst he
      have hdel : (Full.step c s (.produce 4 bytes last)).2.delivery = { count := (inProduce 64 d bytes last).2 } := by
        rw [step_delivery c hc s a b d hs]
        have h43 : ¬ ((4 : Nat) = ep3.num) := by decide
        simp [epStep, ep4i, h43, firstDelivery_last]
      have hct := txObs_count (epStep ep4i (.sIn d) (ctxOf s.ctl (.produce 4 bytes last)) (.produce 4 bytes last)).2
      have hep : (epStep ep4i (.sIn d) (ctxOf s.ctl (.produce 4 bytes last)) (.produce 4 bytes last)).2.2.count
          = (inProduce 64 d bytes last).2 := by
        simp [epStep, ep4i]
      rw [hep] at hct
      simp only [ghostStep, cycObsOf, if_true, hct, hdel]
    · simp only [ghostStep, if_neg he]
  | token pid addr ep =>
    by_cases h : pid = PID_IN ∧ addr = s.ctl.address ∧ ep = 4
    · obtain ⟨h1, h2, h3⟩ := h
      subst h1 h2 h3
      have hr := resp_in_token c hc s a b d hs
      have hep : (epStep ep4i (.sIn d) (ctxOf s.ctl (.token PID_IN s.ctl.address 4)) (.token PID_IN s.ctl.address 4)).2
          = ((inToken 4 d PID_IN 4).2, {}) := by
        simp [epStep, ctxOf, ep4i]
      have ht := txResp_inToken 4 d PID_IN 4
      simp only [ghostStep, cycObsOf, txObs, hep, ht, hr]
    · simp only [ghostStep, if_neg h]
  | handshake pid => rfl
  | sof f => rfl
  | malformed x => rfl
  | quiet => rfl
  | busReset => rfl
  | setSignal e v => rfl

theorem runGw_eq (c : FullConfig) (hc : IsSerial c) (h : List AEvent) : ∀ (s : FullState) (g : Ghost), ShapeOk s →
    runGw c s g h ((epOuts c ep4o (fun s => .sOut (rxEp s)) s (h.map (·.ev))).map outWiresOf)
      ((epOuts c ep4i (fun s => .sIn (txEp s)) s (h.map (·.ev))).map inWiresOf) = (runG c s g h).2 := by
  induction h with
  | nil => intro s g _; rfl
  | cons ae rest ih =>
    intro s g hok
    obtain ⟨a, b, d, hs⟩ := hok
    have hrx : rxEp s = b := by unfold Shape at hs; simp [rxEp, hs]
    have htx : txEp s = d := by unfold Shape at hs; simp [txEp, hs]
    simp only [List.map_cons, epOuts, runGw, runG, hrx, htx, ghost_obs_eq c hc s a b d hs g ae]
    exact ih _ _ (shapeOk_step c hc s ae.ev ⟨a, b, d, hs⟩)

/-! ## 3. The transfer theorems -/

/-- A host event with its annotation (`got`, see `AEvent`) and the free parameters of its clock-cycle expansion for
the rx endpoint (`go`) and for the tx endpoint (`gi`). -/
structure CEvent where
  ev  : HostEvent
  got : Bool := true
  go  : C12Out.Gaps
  gi  : C12In.Gaps

def aevs (h : List CEvent) : List AEvent := h.map (fun x => ⟨x.ev, x.got⟩)
def rxHist (h : List CEvent) : List (HostEvent × C12Out.Gaps) := h.map (fun x => (x.ev, x.go))
def txHist (h : List CEvent) : List (HostEvent × C12In.Gaps) := h.map (fun x => (x.ev, x.gi))

/-- the cycle-level rx endpoint's decoded outputs, event by event, from reset -/
def rxWires (c : FullConfig) (h : List CEvent) : List (List C12Out.Wire) :=
  outWires c rx4 (Full.init c) StreamOutEndpoint.init (rxHist h)
/-- the cycle-level tx endpoint's decoded outputs, event by event, from reset -/
def txWires (c : FullConfig) (h : List CEvent) : List (List C12In.Wire) :=
  inWires c tx4 (Full.init c) {} (InXfer.init (C12In.cfgOf tx4)) (txHist h)
/-- the cycle-level rx endpoint's state after the history -/
def rxFinal (c : FullConfig) (h : List CEvent) : StreamOutEndpoint.State :=
  StreamOutEndpoint.runState (C12Out.cfgOf rx4) StreamOutEndpoint.init (outCycles c rx4 (Full.init c) (rxHist h))
/-- the cycle-level tx endpoint's state after the history -/
def txFinal (c : FullConfig) (h : List CEvent) : InXfer.State :=
  InXfer.runState (C12In.cfgOf tx4) (InXfer.init (C12In.cfgOf tx4)) (inCycles c tx4 (Full.init c) {} (txHist h))
/-- the ghost history read off the cycle-level wires -/
def cycGhost (c : FullConfig) (h : List CEvent) : Ghost := runGw c (Full.init c) {} (aevs h) (rxWires c h) (txWires c h)

/-- **Environment hypotheses of the transfer theorems** (decidable): producer bytes are bytes; data packets directly
follow a token, are acceptor-legal cycle sequences (C13's `LegalHost`) of bytes, and — while the token registers name
OUT 4 — fit into the rx FIFO (a host that respects NAK / PING flow control; the overflow path, which `rx_in_order`
covers at event level, is C13's `nak_iff_cannot_take_partial` at cycle level and is not part of this transfer). -/
def CycLegal (c : FullConfig) (h : List CEvent) : Prop :=
  (∀ x ∈ h, C12In.EvOk x.ev) ∧ outLegal c ep4o rxEp (Full.init c) false (rxHist h) = true

theorem hist_evs (h : List CEvent) : (rxHist h).map (·.1) = (aevs h).map (·.ev) ∧ (txHist h).map (·.1) = (aevs h).map (·.ev) := by
  simp [rxHist, txHist, aevs, Function.comp_def]

/-- **The ghost history of the cycle-level run is the ghost history of the event-level run**: `acked` / `delivered` /
`rxBit` read off the rx endpoint's ACK requests and consumer transfers, `produced` / `kept` / `hostBit` / … off the tx
endpoint's accepted producer bytes and transmitted beats, are exactly the ghost variables `rx_in_order` /
`tx_in_order` speak about. -/
theorem cycle_ghost_eq (c : FullConfig) (hc : IsSerial c) (ha : IsAcm c) (h : List CEvent) (hl : CycLegal c h) :
    cycGhost c h = (runG c (Full.init c) {} (aevs h)).2 := by
  obtain ⟨_, _, _, _, hwr⟩ := acm_rx_cycles c hc ha (rxHist h) hl.2
  obtain ⟨_, _, _, hwt⟩ := acm_tx_cycles c hc ha (txHist h) (by
    intro x hx
    simp only [txHist, List.mem_map] at hx
    obtain ⟨y, hy, rfl⟩ := hx
    exact hl.1 y hy)
  simp only [cycGhost, rxWires, txWires, hwr, hwt, (hist_evs h).1, (hist_evs h).2]
  exact runGw_eq c hc (aevs h) (Full.init c) {} (shapeOk_init c hc)

theorem cyc_final (c : FullConfig) (h : List CEvent) :
    Full.final c (Full.init c) ((rxHist h).map (·.1)) = (runG c (Full.init c) {} (aevs h)).1 ∧
    Full.final c (Full.init c) ((txHist h).map (·.1)) = (runG c (Full.init c) {} (aevs h)).1 := by
  rw [runG_state, (hist_evs h).1, (hist_evs h).2]
  exact ⟨rfl, rfl⟩

/-- **C57, rx in order, on the cycle-level endpoint.**  Run C13's cycle-level model of the rx endpoint from reset over
the clock-cycle expansion of ANY history of the whole serial device satisfying `CycLegal` (tokens for any address and
endpoint, good / corrupted / retransmitted data packets, control transfers incl. CLEAR_FEATURE(ENDPOINT_HALT), other
endpoints' and devices' traffic, bus resets, producer and consumer activity; arbitrary idle-cycle counts, byte spacing
and response delays).  Then the bytes its consumer has taken from the stream (`delivered`: payloads of the transfers
`valid ∧ ready`, in order) followed by the committed, unread entries of its FIFO memory (`q.C`, nothing uncommitted) are
exactly the payloads of the data packets for OUT 4 for which it requested an ACK while the packet's PID had the
sequence bit the USB toggle rule prescribes (`acked`, each packet once, in order); and its `expected_data_toggle`
register is that sequence bit (a halt-clear of OUT 4 restarting it at DATA0). -/
theorem rx_in_order_cycles (c : FullConfig) (hc : IsSerial c) (ha : IsAcm c) (h : List CEvent) (hl : CycLegal c h) :
    (∃ q, TxnFifo.Rel 127 (rxFinal c h).fifo q ∧ q.W = [] ∧
      (cycGhost c h).delivered ++ q.C.map (· % 256) = (cycGhost c h).acked) ∧
    (rxFinal c h).expectedToggle = (cycGhost c h).rxBit := by
  obtain ⟨e', a', hro, hrel, _⟩ := acm_rx_cycles c hc ha (rxHist h) hl.2
  obtain ⟨q, hq, hW, hC⟩ := C12Out.rel0_fifo hrel.1 (C12Out.phOf_quiet a' _)
  have hreg := C12Out.rel0_regs hrel.1
  have hrx := rx_in_order c hc (aevs h)
  simp only at hrx
  rw [cycle_ghost_eq c hc ha h hl]
  rw [(cyc_final c h).1] at hro
  refine ⟨⟨q, hq, hW, ?_⟩, ?_⟩
  · rw [← hrx.1, ← hro.fifo]
    congr 1
    have h1 : q.C.map (· % 256) = (q.C.map StreamOutEndpoint.dec).map (·.1) := by
      simp [StreamOutEndpoint.dec, Function.comp_def]
    rw [h1, hC]
    simp [bytesOf, decF, flipE, Function.comp_def]
  · rw [← hrx.2, ← hro.toggle]
    exact hreg

/-- **C57, tx in order, on the cycle-level endpoint.**  Run C11's cycle-level model of the tx endpoint
(`USBInTransferManager` with both packet memories, `USBStreamInEndpoint`'s wiring) from reset over the clock-cycle
expansion of ANY history of the whole serial device satisfying `CycLegal` in which the host ACKs tx packets only when it
has received them.  Then the bytes the host has accepted from its transmitted beats by the toggle rule (`kept`),
followed by the packet in its read memory that is still to get across (unless the host already has it) and the bytes
collected in its write memory, are exactly the bytes it accepted from the producer (`produced`: `stream.valid ∧ ready`)
— nothing lost, duplicated or reordered; the only other packets the host accepts are the re-deliveries after an
ambiguous halt-clear of IN 4 (`redone`, each equal to the packet accepted before it, at most one per such halt-clear). -/
theorem tx_in_order_cycles (c : FullConfig) (hc : IsSerial c) (ha : IsAcm c) (h : List CEvent) (hl : CycLegal c h)
    (hacks : HostAcksWhatItGot c (aevs h) = true) :
    (cycGhost c h).kept ++
      (if (txFinal c h).fsm ≠ .waitData ∧ (cycGhost c h).hostBit = (txFinal c h).pid ∧ (cycGhost c h).redo = false
       then InXfer.bufBytes (txFinal c h).r else []) ++ InXfer.bufBytes (txFinal c h).w = (cycGhost c h).produced ∧
    (∀ y ∈ (cycGhost c h).redone, y.1 = y.2) ∧
    (cycGhost c h).redone.length + (if (cycGhost c h).redo then 1 else 0) ≤ (cycGhost c h).ambiguousClears := by
  obtain ⟨e', hri, hrel, _⟩ := acm_tx_cycles c hc ha (txHist h) (by
    intro x hx
    simp only [txHist, List.mem_map] at hx
    obtain ⟨y, hy, rfl⟩ := hx
    exact hl.1 y hy)
  have htx := tx_in_order c hc (aevs h) hacks
  simp only at htx
  rw [cycle_ghost_eq c hc ha h hl]
  rw [(cyc_final c h).2] at hri
  refine ⟨?_, htx.2⟩
  have hf : (txFinal c h).fsm ≠ .waitData ↔ (txEp (runG c (Full.init c) {} (aevs h)).1).fsm ≠ .waitData := by
    have h1 : (txFinal c h).fsm = C12In.fsmOf e'.fsm := hrel.fsm
    rw [h1, hri.fsm]
    cases (txEp (runG c (Full.init c) {} (aevs h)).1).fsm <;> simp [C12In.fsmOf, fsmIn]
  have hp : (txFinal c h).pid = (txEp (runG c (Full.init c) {} (aevs h)).1).pid := by
    have h1 : (txFinal c h).pid = e'.pid := hrel.pid
    rw [h1, hri.pid]
  have hr : InXfer.bufBytes (txFinal c h).r = (txEp (runG c (Full.init c) {} (aevs h)).1).rbuf := by
    have h1 : InXfer.bufBytes (txFinal c h).r = e'.rbuf := hrel.rbuf
    rw [h1, hri.rbuf]
  have hw : InXfer.bufBytes (txFinal c h).w = (txEp (runG c (Full.init c) {} (aevs h)).1).wbuf := by
    have h1 : InXfer.bufBytes (txFinal c h).w = e'.wbuf := hrel.wbuf
    rw [h1, hri.wbuf]
  rw [hr, hw, hp]
  simp only [hf]
  exact htx.1

/-- Without an ambiguous halt-clear of IN 4 nothing is delivered twice (cycle-level version of `tx_exactly_once`). -/
theorem tx_exactly_once_cycles (c : FullConfig) (hc : IsSerial c) (ha : IsAcm c) (h : List CEvent) (hl : CycLegal c h)
    (hacks : HostAcksWhatItGot c (aevs h) = true) (hn : (cycGhost c h).ambiguousClears = 0) :
    (cycGhost c h).redone = [] ∧ (cycGhost c h).redo = false := by
  rw [cycle_ghost_eq c hc ha h hl] at hn ⊢
  exact tx_exactly_once c hc (aevs h) hacks hn

/-! ### `delivered` is the byte stream the cycle-level consumer saw -/

theorem xfers_append (a b : List C12Out.Wire) : xfers (a ++ b) = xfers a ++ xfers b := by
  induction a with
  | nil => rfl
  | cons w ws ih => cases w <;> simp [xfers, ih]

theorem xfers_outWiresOf (r : Resp × Delivery) : xfers (outWiresOf r) = r.2.items := rxObs_items r

theorem ghostStep_delivered (s : FullState) (g : Ghost) (a : AEvent) (o : Obs) :
    (ghostStep s g a o).delivered = g.delivered ++
      (match a.ev with
       | .consume ep _ => if ep = 4 then bytesOf o.delivery.items else []
       | _ => []) := by
  obtain ⟨ev, got⟩ := a
  cases ev with
  | consume ep n => by_cases he : ep = 4 <;> simp [ghostStep, he]
  | handshake pid => simp [(ghost_hs_rx s g got pid o).2.2]
  | token pid addr ep =>
    simp only [ghostStep]
    repeat' split
    all_goals simp
  | data pid p ok =>
    simp only [ghostStep]
    repeat' split
    all_goals simp
  | produce ep bytes last =>
    simp only [ghostStep]
    repeat' split
    all_goals simp
  | _ => simp [ghostStep]

/-- the rx endpoint hands entries to the consumer in `consume 4` events only -/
theorem rx_items_only_consume (b : OutEp) (x : Ctx) (ev : HostEvent) (h : ∀ n, ev ≠ .consume 4 n) :
    (epStep ep4o (.sOut b) x ev).2.2.items = [] := by
  cases ev with
  | consume ep n =>
    have : ep ≠ ep4o.num := fun he => h n (by rw [he]; rfl)
    simp [epStep, this]
  | _ => simp only [epStep] <;> (repeat' split) <;> rfl

theorem runG_delivered (c : FullConfig) (hc : IsSerial c) (h : List AEvent) : ∀ (s : FullState) (g : Ghost), ShapeOk s →
    (runG c s g h).2.delivered = g.delivered ++
      bytesOf (xfers ((epOuts c ep4o (fun s => .sOut (rxEp s)) s (h.map (·.ev))).map outWiresOf).flatten) := by
  induction h with
  | nil => intro s g _; simp [runG, epOuts, xfers, bytesOf]
  | cons ae rest ih =>
    intro s g hok
    obtain ⟨a, b, d, hs⟩ := hok
    have hrx : rxEp s = b := by unfold Shape at hs; simp [rxEp, hs]
    simp only [runG, List.map_cons, epOuts, List.flatten_cons, xfers_append, bytesOf_append, xfers_outWiresOf, hrx]
    rw [ih _ _ (shapeOk_step c hc s ae.ev ⟨a, b, d, hs⟩), ghostStep_delivered, List.append_assoc]
    congr 2
    obtain ⟨ev, got⟩ := ae
    by_cases hcons : ∃ n, ev = .consume 4 n
    · obtain ⟨n, rfl⟩ := hcons
      have hdel : (Full.step c s (.consume 4 n)).2.delivery = { count := (b.fifo.take n).length, items := b.fifo.take n } := by
        rw [step_delivery c hc s a b d hs]
        simp [epStep, ep4o, firstDelivery_mid]
      simp [hdel, epStep, ep4o]
    · have hn : ∀ n, ev ≠ .consume 4 n := fun n he => hcons ⟨n, he⟩
      rw [rx_items_only_consume b _ ev hn]
      cases ev with
      | consume ep n =>
        have : ep ≠ 4 := fun he => hn n (by rw [he])
        simp [this, bytesOf]
      | _ => simp [bytesOf]

/-- **`delivered` is the byte stream of the cycle-level rx endpoint**: the payloads of ALL the transfers
`stream.valid ∧ stream.ready` of the whole cycle-level run, in order. -/
theorem delivered_is_stream (c : FullConfig) (hc : IsSerial c) (ha : IsAcm c) (h : List CEvent) (hl : CycLegal c h) :
    (cycGhost c h).delivered = bytesOf (xfers (rxWires c h).flatten) := by
  obtain ⟨_, _, _, _, hwr⟩ := acm_rx_cycles c hc ha (rxHist h) hl.2
  rw [cycle_ghost_eq c hc ha h hl, rxWires, hwr, (hist_evs h).1,
    runG_delivered c hc (aevs h) (Full.init c) {} (shapeOk_init c hc)]
  rfl

/-! ## Non-vacuity: a history with everything in it, cycle by cycle

Device at address 0 (not yet enumerated).  OUT 4: DATA0 `[1,2,3]` (ACK), the same packet again (ACK, dropped), the
consumer reads 2 entries, DATA1 `[4]` corrupted (nothing), then good (ACK); IN 4: `[10,11]` produced, sent but lost on
the way (`got = false`), an OUT transaction of another device in between, sent again, ACKed; CLEAR_FEATURE(ENDPOINT_HALT)
for OUT 4 (SETUP, status IN, ACK); DATA0 `[5]` is fresh again (ACK); the consumer reads the rest.  Every event with
"wrong" free inputs, idle cycles, byte pauses and stalls (`C12Out.exGaps`, `C12In.exGaps`, `C12Out.exData`). -/

def cev (ev : HostEvent) (got : Bool := true) : CEvent := { ev := ev, got := got, go := C12Out.exGaps, gi := C12In.exGaps }

def cdata (tk : C12Sig.Tk) (pid : Nat) (payload : List Nat) (ok : Bool) : CEvent :=
  { ev := .data pid payload ok, go := (C12Out.exData tk pid payload ok).2, gi := C12In.exGaps }

def out4 : C12Sig.Tk := ⟨PID_OUT, 4⟩

def demoCyc : List CEvent :=
  [cev (.token PID_OUT 0 4), cdata out4 PID_DATA0 [1, 2, 3] true,
   cev (.token PID_OUT 0 4), cdata out4 PID_DATA0 [1, 2, 3] true,
   cev (.consume 4 2),
   cev (.token PID_OUT 0 4), cdata out4 PID_DATA1 [4] false,
   cev (.token PID_OUT 0 4), cdata out4 PID_DATA1 [4] true,
   cev (.produce 4 [10, 11] true),
   cev (.token PID_IN 0 4) false,
   cev (.token PID_OUT 7 4), cdata ⟨0, 4⟩ PID_DATA1 [9] true,
   cev (.token PID_IN 0 4), cev (.handshake PID_ACK),
   cev (.token PID_SETUP 0 0), cdata ⟨PID_SETUP, 0⟩ PID_DATA0 (setupBytes 0x02 1 0 0x04 0) true,
   cev (.token PID_IN 0 0), cev (.handshake PID_ACK),
   cev (.token PID_OUT 0 4), cdata out4 PID_DATA0 [5] true,
   cev (.consume 4 10)]

instance (c : FullConfig) (h : List CEvent) : Decidable (CycLegal c h) := by unfold CycLegal; infer_instance

example : CycLegal acmCfg demoCyc ∧ HostAcksWhatItGot acmCfg (aevs demoCyc) = true := by decide +kernel

/-- the ghost history read off the cycle-level wires of this history -/
example : cycGhost acmCfg demoCyc =
    { rxBit := true, acked := [1, 2, 3, 4, 5], delivered := [1, 2, 3, 4, 5], produced := [10, 11],
      hostBit := true, kept := [10, 11], lastPkt := [10, 11] } := by decide +kernel

example : (rxWires acmCfg demoCyc).take 5 =
    [[], [.ack], [], [.ack], [.xfer (1, true, false), .xfer (2, false, false)]] ∧
    ((txWires acmCfg demoCyc).drop 9).take 2 =
    [[.acc, .acc], [.beat 10 true false false, .beat 11 false true false]] := by decide +kernel

example : bytesOf (xfers (rxWires acmCfg demoCyc).flatten) = [1, 2, 3, 4, 5] := by decide +kernel

example : (outCycles acmCfg rx4 (Full.init acmCfg) (rxHist demoCyc)).length = 228 ∧
    (inCycles acmCfg tx4 (Full.init acmCfg) {} (txHist demoCyc)).length = 108 := by decide +kernel

/-- a packet that does not fit (the FIFO holds 127 entries: two full packets do not fit) violates `CycLegal` -/
example : CycLegal acmCfg
    [cev (.token PID_OUT 0 4), cdata out4 PID_DATA0 (List.replicate 64 7) true,
     cev (.token PID_OUT 0 4), cdata out4 PID_DATA1 (List.replicate 64 7) true] = False := by
  simp only [eq_iff_iff, iff_false]; decide +kernel

end LunaVerif.C57
