import LunaVerif.Model.Usb3.CtcSkipRemover
/-!
# C32 — Receive CTC removes exactly the SKP symbols and nothing else

"With the downstream always ready, as it is wired in the physical layer, the output of the receive
clock-tolerance-compensation stage is the input symbol sequence with every SKP symbol removed, in the
same order, without loss or duplication, regrouped into 4-symbol words."

Quantifier: all input word sequences with SKPs at any byte positions and any number of consecutive
SKP words (and any `sink.valid` gaps).

Environment (`Env`): `source.ready = 1` in every cycle (physical/layer.py: `aligner.sink.stream_eq(
rx_ctc.source)` and `RxWordAligner` drives `sink.ready = 1`), and every input word has 4 symbols.

Shape: refinement of the 8-symbol shift buffer to a list.  Abstraction `pending s` = the top
`bytes_in_buffer` symbols of the buffer; invariant `Inv` = buffer length 8 ∧ `bytes_in_buffer ≤ 7`;
one commuting lemma for the clock step (`step_refines`); induction over the input history.
-/
namespace LunaVerif.CtcRemover
open LunaVerif.Ss

/-! ## Specification -/

/-- The symbols offered to the module: the words of the cycles with `sink.valid`. -/
def inSyms : List In → List Sym
  | [] => []
  | i :: is => (if i.valid then i.word else []) ++ inSyms is

/-- What must come out: the same symbols, SKPs deleted, order kept. -/
def spec (ins : List In) : List Sym := (inSyms ins).filter (fun x => !isSkp x)

/-- The symbols that left the module: the words of the cycles with `source.valid` (and ready). -/
def outSyms : List Out → List Sym
  | [] => []
  | o :: os => (if o.srcValid then o.srcWord else []) ++ outSyms os

/-- The words that left the module. -/
def outWords : List Out → List (List Sym)
  | [] => []
  | o :: os => if o.srcValid then o.srcWord :: outWords os else outWords os

/-- Abstraction: the symbols the module still holds (oldest first). -/
def pending (s : State) : List Sym := s.buf.drop (8 - s.bib)

def Inv (s : State) : Prop := s.buf.length = 8 ∧ s.bib ≤ 7

/-- Environment assumption of the property. -/
def Env (ins : List In) : Prop := ∀ i ∈ ins, i.ready = true ∧ i.word.length = 4

theorem inv_init : Inv init := by simp [Inv, init]
theorem pending_init : pending init = [] := by simp [pending, init]

/-! ## The 16-way compaction is "delete the masked positions" -/

theorem compact_map (p : Sym → Bool) (w : List Sym) :
    compact (w.map p) w = w.filter (fun x => !p x) := by
  induction w with
  | nil => rfl
  | cons x xs ih => cases h : p x <;> simp [compact, h, ih]

/-- All 16 `Case(skip_mask)` bodies, spelled out as the Python generator produces them. -/
example (a b c d : Sym) :
    [compact [false, false, false, false] [a, b, c, d], compact [true, false, false, false] [a, b, c, d],
     compact [false, true, false, false] [a, b, c, d], compact [true, true, false, false] [a, b, c, d],
     compact [false, false, true, false] [a, b, c, d], compact [true, false, true, false] [a, b, c, d],
     compact [false, true, true, false] [a, b, c, d], compact [true, true, true, false] [a, b, c, d],
     compact [false, false, false, true] [a, b, c, d], compact [true, false, false, true] [a, b, c, d],
     compact [false, true, false, true] [a, b, c, d], compact [true, true, false, true] [a, b, c, d],
     compact [false, false, true, true] [a, b, c, d], compact [true, false, true, true] [a, b, c, d],
     compact [false, true, true, true] [a, b, c, d], compact [true, true, true, true] [a, b, c, d]]
    = [[a, b, c, d], [b, c, d], [a, c, d], [c, d], [a, b, d], [b, d], [a, d], [d],
       [a, b, c], [b, c], [a, c], [c], [a, b], [b], [a], []] := rfl

theorem filter_length_le_four (w : List Sym) (h : w.length = 4) (p : Sym → Bool) :
    (w.filter p).length ≤ 4 := h ▸ List.length_filter_le p w

/-! ## List facts about the shift buffer -/

theorem drop_prefix {α : Type} (X Y : List α) (n : Nat) (h : X.length = n) :
    (X ++ Y).drop n = Y := by
  subst h; simp

theorem take_pad {α : Type} (f : List α) (k : Nat) (z : α) :
    (f ++ List.replicate k z).take f.length = f := by simp

/-- Pushing `v` (≤ 4 symbols) while nothing is popped: the held symbols become `P ++ v`. -/
theorem push_only {α : Type} (J P v : List α) (hJP : J.length + P.length = 8)
    (hP : P.length ≤ 3) (hv : v.length ≤ 4) :
    ((J ++ P).drop v.length ++ v).drop (8 - (P.length + v.length)) = P ++ v := by
  have h1 : (J ++ P).drop v.length = J.drop v.length ++ P :=
    List.drop_append_of_le_length (by omega)
  rw [h1, List.append_assoc]
  exact drop_prefix _ _ _ (by simp; omega)

/-- Pushing `v` while the oldest word is popped: the held symbols become `P.drop 4 ++ v`. -/
theorem push_pop {α : Type} (J P v : List α) (hJP : J.length + P.length = 8)
    (hP4 : 4 ≤ P.length) (hv : v.length ≤ 4) :
    ((J ++ P).drop v.length ++ v).drop (8 - (P.length + v.length - 4)) = P.drop 4 ++ v := by
  have hP : P = P.take 4 ++ P.drop 4 := (List.take_append_drop 4 P).symm
  have h1 : (J ++ P).drop v.length = (J ++ P.take 4).drop v.length ++ P.drop 4 := by
    conv => lhs; rw [hP, ← List.append_assoc]
    exact List.drop_append_of_le_length (by simp; omega)
  rw [h1, List.append_assoc]
  exact drop_prefix _ _ _ (by simp; omega)

/-- Popping without a push. -/
theorem pop_only {α : Type} (J P : List α) (hJP : J.length + P.length = 8) (hP4 : 4 ≤ P.length) :
    (J ++ P).drop (8 - (P.length - 4)) = P.drop 4 := by
  have hP : P = P.take 4 ++ P.drop 4 := (List.take_append_drop 4 P).symm
  conv => lhs; rw [hP, ← List.append_assoc]
  exact drop_prefix _ _ _ (by simp; omega)

/-- The buffer as junk ++ held symbols. -/
theorem buf_split (s : State) (h : Inv s) :
    s.buf = s.buf.take (8 - s.bib) ++ pending s ∧
    (s.buf.take (8 - s.bib)).length + (pending s).length = 8 ∧ (pending s).length = s.bib := by
  obtain ⟨hl, hb⟩ := h
  refine ⟨(List.take_append_drop _ _).symm, ?_, ?_⟩ <;> simp [pending, hl] <;> omega

/-! ## The commuting lemma for one clock cycle -/

/-- What one cycle adds to the held symbols. -/
def accepted (i : In) : List Sym := if i.valid then i.word.filter (fun x => !isSkp x) else []

/-- What one cycle emits. -/
def emitted (o : Out) : List Sym := if o.srcValid then o.srcWord else []

/-- The register update of one cycle, with the 4-bit wrap and the `sink.ready` gate discharged by
the invariant. -/
theorem step_state (s : State) (i : In) (hb : s.bib ≤ 7) (hr : i.ready = true)
    (hw : i.word.length = 4) :
    (step s i).1 =
      if i.valid then
        ⟨s.buf.drop (accepted i).length ++ accepted i,
         if 4 ≤ s.bib then s.bib + (accepted i).length - 4 else s.bib + (accepted i).length⟩
      else ⟨s.buf, if 4 ≤ s.bib then s.bib - 4 else s.bib⟩ := by
  have hsr : decide (s.bib ≤ 8) = true := by simp; omega
  cases hv : i.valid
  · by_cases h4 : 4 ≤ s.bib
    · have hb' : (s.bib - 4) % 16 = s.bib - 4 := by omega
      simp [step, hv, hr, h4, hb']
    · simp [step, hv, h4]
  · have hfr : compact (i.word.map isSkp) i.word = i.word.filter (fun x => !isSkp x) := compact_map _ _
    have hacc : accepted i = i.word.filter (fun x => !isSkp x) := by simp [accepted, hv]
    have hvl : (i.word.filter (fun x => !isSkp x)).length ≤ 4 := filter_length_le_four _ hw _
    generalize i.word.filter (fun x => !isSkp x) = v at hfr hacc hvl
    by_cases h4 : 4 ≤ s.bib
    · have hb' : (s.bib + v.length - 4) % 16 = s.bib + v.length - 4 := by omega
      simp [step, hv, hr, hsr, h4, hfr, hacc, hb']
    · have hb' : (s.bib + v.length) % 16 = s.bib + v.length := by omega
      simp [step, hv, hsr, h4, hfr, hacc, hb']

theorem step_refines (s : State) (i : In) (hs : Inv s) (hr : i.ready = true) (hw : i.word.length = 4) :
    Inv (step s i).1 ∧
    emitted (step s i).2 ++ pending (step s i).1 = pending s ++ accepted i ∧
    (step s i).2.srcValid = decide (4 ≤ (pending s).length) ∧
    ((step s i).2.srcValid = true → (step s i).2.srcWord = (pending s).take 4 ∧ 4 ≤ (pending s).length) := by
  obtain ⟨hsplit, hJP, hPl⟩ := buf_split s hs
  obtain ⟨hl, hb⟩ := hs
  -- the outputs depend on the state only
  have eValid : (step s i).2.srcValid = decide (4 ≤ s.bib) := rfl
  have eWord : 4 ≤ s.bib → (step s i).2.srcWord = (pending s).take 4 := by
    intro h4
    have : 4 ≤ s.bib ∧ s.bib < 8 := ⟨h4, by omega⟩
    simp [step, this, pending]
  have eEmit : emitted (step s i).2 = if 4 ≤ s.bib then (pending s).take 4 else [] := by
    unfold emitted; rw [eValid]
    by_cases h4 : 4 ≤ s.bib <;> simp [h4, eWord]
  refine ⟨?_, ?_, by rw [eValid, hPl], fun h => ⟨eWord (by simpa [eValid] using h), by
    rw [hPl]; simpa [eValid] using h⟩⟩
  · -- invariant
    rw [step_state s i hb hr hw]
    have hvl : (accepted i).length ≤ 4 := by
      unfold accepted; split
      · exact filter_length_le_four _ hw _
      · simp
    cases i.valid <;> by_cases h4 : 4 ≤ s.bib <;> simp [Inv, h4, hl] <;> omega
  · -- refinement
    rw [eEmit, step_state s i hb hr hw]
    have hvl : (accepted i).length ≤ 4 := by
      unfold accepted; split
      · exact filter_length_le_four _ hw _
      · simp
    have hacc0 : i.valid = false → accepted i = [] := by intro h; simp [accepted, h]
    generalize accepted i = v at hvl hacc0
    generalize hJ : s.buf.take (8 - s.bib) = J at hsplit hJP
    generalize pending s = P at hsplit hJP hPl
    cases hv : i.valid
    · rw [hacc0 hv]
      by_cases h4 : 4 ≤ s.bib
      · have hpop := pop_only J P hJP (by omega)
        simp only [h4, if_true, if_false, Bool.false_eq_true, pending, List.append_nil]
        rw [hsplit, ← hPl, hpop, List.take_append_drop]
      · simp only [h4, if_false, Bool.false_eq_true, pending, List.append_nil, List.nil_append]
        rw [hsplit, ← hPl]; exact drop_prefix _ _ _ (by omega)
    · by_cases h4 : 4 ≤ s.bib
      · have hpp := push_pop J P v hJP (by omega) hvl
        simp only [h4, if_true, pending]
        rw [hsplit, ← hPl, hpp, ← List.append_assoc, List.take_append_drop]
      · have hpo := push_only J P v hJP (by omega) hvl
        simp only [h4, if_true, if_false, pending, List.nil_append]
        rw [hsplit, ← hPl, hpo]

/-! ## Whole histories -/

theorem run_refines (s : State) (ins : List In) (hs : Inv s) (he : Env ins) :
    Inv (run s ins).2 ∧
    outSyms (run s ins).1 ++ pending (run s ins).2 = pending s ++ spec ins := by
  induction ins generalizing s with
  | nil => simp [run, outSyms, spec, inSyms, hs]
  | cons i is ih =>
    have hi := he i (List.mem_cons_self ..)
    have hst := step_refines s i hs hi.1 hi.2
    have hrest := ih (step s i).1 hst.1 (fun j hj => he j (List.mem_cons_of_mem _ hj))
    refine ⟨hrest.1, ?_⟩
    have hspec : spec (i :: is) = accepted i ++ spec is := by
      simp only [spec, accepted, inSyms]
      cases i.valid <;> simp [List.filter_append]
    show (emitted (step s i).2 ++ outSyms (run (step s i).1 is).1) ++ pending (run (step s i).1 is).2 = _
    rw [List.append_assoc, hrest.2, ← List.append_assoc, hst.2.1, hspec, List.append_assoc]

/-- **C32, main theorem.**  For every input history (any SKP positions, any number of SKP-only
words, any `sink.valid` gaps) with the downstream always ready: the symbols output so far followed
by the symbols still held are exactly the input symbols with the SKPs deleted — nothing lost,
nothing duplicated, order kept.  As it holds for every history it holds at every cycle. -/
theorem skp_removal_exact (ins : List In) (he : Env ins) :
    outSyms (run init ins).1 ++ pending (run init ins).2 = spec ins := by
  have h := (run_refines init ins inv_init he).2
  rwa [pending_init, List.nil_append] at h

/-- The module never holds more than 7 symbols, the counter is the number of held symbols, and
hence (with the main theorem) at most 7 input symbols are ever waiting to be output. -/
theorem bytes_in_buffer_le_seven (ins : List In) (he : Env ins) :
    (run init ins).2.bib ≤ 7 ∧ (pending (run init ins).2).length = (run init ins).2.bib ∧
    (run init ins).2.buf.length = 8 := by
  have h := (run_refines init ins inv_init he).1
  exact ⟨h.2, (buf_split _ h).2.2, h.1⟩

/-- The ports in every cycle: `sink.ready` is high, the `bytes_in_buffer` port (3 bits) shows the
true fill level, `source.valid` is high exactly when four symbols are held, and then the output word
is the oldest four. -/
theorem ports_from_invariant (s : State) (i : In) (hs : Inv s) :
    (step s i).2.sinkReady = true ∧ (step s i).2.bytesInBuffer = (pending s).length ∧
    (step s i).2.srcValid = decide (4 ≤ (pending s).length) ∧
    ((step s i).2.srcValid = true → (step s i).2.srcWord = (pending s).take 4) := by
  have hPl := (buf_split s hs).2.2
  obtain ⟨hl, hb⟩ := hs
  refine ⟨by simp [step]; omega, by simp only [step, hPl]; omega, by simp [step, hPl], ?_⟩
  intro h
  have h4 : 4 ≤ s.bib := by simpa [step] using h
  have : 4 ≤ s.bib ∧ s.bib < 8 := ⟨h4, by omega⟩
  simp [step, this, pending]

/-- `skip_removed` strobes in exactly the cycles whose (valid) input word contains an SKP. -/
theorem skip_removed_iff_word_has_skp (s : State) (i : In) (hs : Inv s) :
    (step s i).2.skipRemoved = (i.valid && i.word.any isSkp) := by
  have hsr : decide (s.bib ≤ 8) = true := by simp; have := hs.2; omega
  cases hv : i.valid <;> simp [step, hv, hsr, List.any_map]

/-- … and over a whole history from reset. -/
theorem skip_removed_history (ins : List In) (he : Env ins) :
    (run init ins).1.map (·.skipRemoved) = ins.map (fun i => i.valid && i.word.any isSkp) := by
  suffices h : ∀ s, Inv s → ∀ ins, Env ins →
      (run s ins).1.map (·.skipRemoved) = ins.map (fun i => i.valid && i.word.any isSkp) from
    h init inv_init ins he
  intro s hs ins
  induction ins generalizing s with
  | nil => intro _; rfl
  | cons i is ih =>
    intro he
    have hi := he i (List.mem_cons_self ..)
    simp only [run, List.map_cons]
    rw [skip_removed_iff_word_has_skp s i hs,
      ih _ (step_refines s i hs hi.1 hi.2).1 (fun j hj => he j (List.mem_cons_of_mem _ hj))]

/-! ## Regrouping into 4-symbol words -/

theorem outSyms_eq_flatten (os : List Out) : outSyms os = (outWords os).flatten := by
  induction os with
  | nil => rfl
  | cons o os ih => cases h : o.srcValid <;> simp [outSyms, outWords, h, ih]

theorem run_words_len (s : State) (ins : List In) (hs : Inv s) (he : Env ins) :
    ∀ w ∈ outWords (run s ins).1, w.length = 4 := by
  induction ins generalizing s with
  | nil => simp [run, outWords]
  | cons i is ih =>
    have hi := he i (List.mem_cons_self ..)
    have hst := step_refines s i hs hi.1 hi.2
    have hrest := ih (step s i).1 hst.1 (fun j hj => he j (List.mem_cons_of_mem _ hj))
    intro w hwm
    simp only [run, outWords] at hwm
    split at hwm
    · rename_i hv
      rcases List.mem_cons.1 hwm with rfl | hm
      · have := hst.2.2.2 hv
        rw [this.1, List.length_take]; omega
      · exact hrest w hm
    · exact hrest w hwm

theorem chunk_of_flatten {α : Type} (ws : List (List α)) (rest S : List α)
    (hlen : ∀ w ∈ ws, w.length = 4) (h : ws.flatten ++ rest = S) (k : Nat) (hk : k < ws.length) :
    ws[k] = (S.drop (4 * k)).take 4 := by
  induction ws generalizing S k with
  | nil => simp at hk
  | cons w ws ih =>
    have hw : w.length = 4 := hlen w (List.mem_cons_self ..)
    subst h
    cases k with
    | zero =>
      simp only [List.flatten_cons, List.append_assoc, Nat.mul_zero, List.drop_zero,
        List.getElem_cons_zero]
      rw [List.take_append_of_le_length (by omega), ← hw, List.take_length]
    | succ k =>
      have := ih (ws.flatten ++ rest) (fun x hx => hlen x (List.mem_cons_of_mem _ hx)) rfl k
        (by simpa using hk)
      simp only [List.getElem_cons_succ, List.flatten_cons, List.append_assoc]
      rw [this]
      have h4 : 4 * (k + 1) = w.length + 4 * k := by omega
      rw [h4, ← List.drop_drop, drop_prefix w _ _ rfl]

/-- "Regrouped into 4-symbol words": the k-th word that leaves the module is symbols
`4k … 4k+3` of the SKP-free input symbol stream. -/
theorem output_words_are_consecutive_chunks (ins : List In) (he : Env ins) (k : Nat)
    (hk : k < (outWords (run init ins).1).length) :
    (outWords (run init ins).1)[k] = ((spec ins).drop (4 * k)).take 4 ∧
    (outWords (run init ins).1)[k].length = 4 := by
  have hlen := run_words_len init ins inv_init he
  have hmain := skp_removal_exact ins he
  rw [outSyms_eq_flatten] at hmain
  exact ⟨chunk_of_flatten _ _ _ hlen hmain k hk, hlen _ (List.getElem_mem hk)⟩

/-! ## Non-vacuity: the four directed tests of tests/test_usb3_ctc.py and an all-SKP run -/

private def w (d c : Nat) : In := ⟨true, unpack 4 d c, true⟩

example : Env [w 0xAABBCCDD 0, w 0x71BA3C3C 3, w 0x11223344 12, w 0 0, w 0 0] := by
  intro i hi; simp [w] at hi; rcases hi with rfl | rfl | rfl | rfl <;> decide

example : (outWords (run init [w 0xAABBCCDD 0, w 0x71BA3C3C 3, w 0x11223344 12, w 0 0, w 0 0]).1).map
    (fun x => (packData x, packCtrl x)) = [(0xAABBCCDD, 0), (0x334471BA, 0), (0x00001122, 3)] := by decide

example : (outWords (run init [w 0xAABBCCDD 0, w 0x3C3C3C3C 15, w 0x3C3C3C3C 15, ⟨false, unpack 4 1 0, true⟩,
    w 0x3C3C3C3C 0, w 0x3C556677 8, w 0 0, w 0 0]).1).map (fun x => (packData x, packCtrl x))
    = [(0xAABBCCDD, 0), (0x3C3C3C3C, 0), (0x00556677, 0)] := by decide

end LunaVerif.CtcRemover
