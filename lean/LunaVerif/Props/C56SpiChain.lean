import LunaVerif.Props.C56SpiPins
/-!
# C56 — `SyncSerialILA`: any number of captures and read-outs in one history

`spi_readout_words` / `_bits` / `_pins` speak about the first chip-select window after one capture.  Here they are restated from
any state in which the analyzer *holds* a completed buffer `M` (`Holds`: core idle, write enable low, memory `M`, `complete` high
— `window_words` / `window_bits` / `window_pins`), `Holds` is shown to be kept by every cycle without a trigger, whatever the SPI
pins do (`quiet_run`: complete, partial, aborted and repeated read-outs do not change what the analyzer holds), to be established
by every capture (`capture_holds`) and to imply the start hypothesis of the next capture (`holds_idle`).  Hence the chain
(`spi_capture_chain_words` / `_bits` / `_pins`): a history cut at the accepted triggers into rounds = trigger cycle, `depth`
capture cycles (anything on the pins, further triggers ignored), then any trigger-free cycles.  In round `k`, EVERY chip-select
window that is preceded by four cycles with chip select low — the first read-out, a re-read, a read-out after an aborted or a
partial one — returns the samples recorded by capture `k`, sample 0 first, each MSB first: never a sample of capture `k-1`.

What the code does NOT do (unlike `StreamILA`): block the trigger during a read-out.  A trigger that arrives while the analyzer
is idle is always accepted, also in the middle of a chip-select window; the memory is then overwritten while it is being read.
The guarantee therefore covers exactly the windows described above: the four chip-select-low cycles and the window itself lie
after the `depth` capture cycles of round `k` and before the next accepted trigger.  A window (or its four lead-in cycles) that
overlaps a capture returns a mixture: e.g. a word latched before the trigger is still shifted out (stale, from capture `k-1`)
after `complete` has risen again, and the following words come from capture `k` (`stale_window_example`, co-simulated by the
harness's "trigger during the read-out" windows).  Such a word was addressed before capture `k` completed, so this is not a
violation of "after `complete`, reading back sample n returns the n-th recorded sample"; it is the reason why the environment
hypothesis "no trigger from the lead-in cycles to the end of the window" is needed and cannot be weakened for this wrapper.
-/
namespace LunaVerif.IlaSpi
open LunaVerif.Ila

/-- no trigger; anything on the SPI pins and the sampled inputs -/
def NoTrig (xs : List In) : Prop := ∀ x ∈ xs, x.trigger = false

instance (xs : List In) : Decidable (NoTrig xs) := by unfold NoTrig; infer_instance

/-- the analyzer holds the completed buffer `M` -/
structure Holds (c : Config) (M : List Nat) (s : State) : Prop where
  fsm : s.core.fsm = .idle
  wen : s.core.wen = false
  mem : s.core.mem = M
  cpl : s.core.complete = true

/-- a cycle without a trigger does not change what the analyzer holds — whatever happens on the SPI pins -/
theorem quiet_step (c : Config) (M : List Nat) (s : State) (h : Holds c M s) (i : In) (htr : i.trigger = false) :
    Holds c M (step c s i).1 := by
  obtain ⟨p1, _⟩ := step_proj c s i
  rw [htr] at p1
  obtain ⟨r1, r2, r3, _, r5⟩ := core_rest c.ila s.core h.fsm h.wen i.inputs s.rdaddr
  rw [← p1] at r1 r2 r3 r5
  exact ⟨r1, r2, by rw [r3, h.mem], by rw [r5, h.cpl]⟩

theorem quiet_run (c : Config) (M : List Nat) (xs : List In) : ∀ s : State, Holds c M s → NoTrig xs →
    Holds c M (runState c s xs) := by
  induction xs with
  | nil => intro s h _; exact h
  | cons x xs ih =>
    intro s h hq
    exact ih _ (quiet_step c M s h x (hq x (by simp))) (fun y hy => hq y (by simp [hy]))

theorem holds_idle (c : Config) (M : List Nat) (s : State) (h : Holds c M s) (hm : M.length = c.ila.depth) :
    IdleState c.ila s.core := ⟨h.fsm, h.wen, by rw [h.mem, hm]⟩

/-- trigger-free cycles keep the idle analyzer idle (a history may begin with any number of them) -/
theorem idle_quiet_run (c : Config) (xs : List In) : ∀ s : State, IdleState c.ila s.core → NoTrig xs →
    IdleState c.ila (runState c s xs).core := by
  induction xs with
  | nil => intro s h _; exact h
  | cons x xs ih =>
    intro s h hq
    refine ih _ ?_ (fun y hy => hq y (by simp [hy]))
    obtain ⟨p1, _⟩ := step_proj c s x
    rw [hq x (by simp)] at p1
    obtain ⟨r1, r2, r3, _, _⟩ := core_rest c.ila s.core h.1 h.2.1 x.inputs s.rdaddr
    rw [← p1] at r1 r2 r3
    exact ⟨r1, r2, by rw [r3]; exact h.2.2⟩

/-- the samples recorded by a capture that starts in state `σ` with trigger cycle `x0` and capture cycles `xs`: the `depth`
consecutive (delayed) samples from the trigger cycle on -/
def roundSamples (c : Config) (σ : State) (x0 : In) (xs : List In) : List Nat :=
  ((σ.core.dl ++ (x0 :: xs).map (·.inputs)).drop 1).take c.ila.depth

theorem roundSamples_length (c : Config) (σ : State) (x0 : In) (xs : List In) (hl : xs.length = c.ila.depth) :
    (roundSamples c σ x0 xs).length = c.ila.depth := by
  simp only [roundSamples, List.length_take, List.length_drop, List.length_append, List.length_map, List.length_cons, hl]
  omega

/-- a trigger seen by the idle analyzer and the `depth` capture cycles (anything on the pins, further triggers): the analyzer
holds the recorded samples -/
theorem capture_holds (c : Config) (hd : 1 ≤ c.ila.depth) (σ : State) (hσ : IdleState c.ila σ.core) (x0 : In)
    (ht : x0.trigger = true) (xs : List In) (hl : xs.length = c.ila.depth) :
    Holds c (roundSamples c σ x0 xs) (runState c σ (x0 :: xs)) := by
  have hc := core_run c (x0 :: xs) σ
  obtain ⟨hi, hlen⟩ := coreHist_inputs c (x0 :: xs) σ
  have hcap := captures_depth_consecutive_samples c.ila hd σ.core hσ ⟨x0.trigger, x0.inputs, σ.rdaddr⟩ ht
    (coreHist c (step c σ x0).1 xs) (by simpa [coreHist, hl] using hlen)
  obtain ⟨k1, k2, k3, k4, _⟩ := hcap
  have hh : coreHist c σ (x0 :: xs) = ⟨x0.trigger, x0.inputs, σ.rdaddr⟩ :: coreHist c (step c σ x0).1 xs := rfl
  rw [← hh, ← hc] at k1 k2 k3 k4
  rw [hi] at k4
  exact ⟨k1, k2, k4, k3⟩

/-! ## a chip-select window read from a state that holds `M` -/

/-- `spi_readout_words` from any state that holds `M`: four cycles with chip select low, then a window without a trigger -/
theorem window_words (c : Config) (hw : 4 ≤ c.spi.w) (hcs : c.spi.csIdlesHigh = false) (M : List Nat) (s : State)
    (h : Holds c M s) (g1 g2 g3 g4 : In) (hg : AtRest [g1, g2, g3, g4]) (ws : List In) (hws : InWindow ws) :
    (runState c s [g1, g2, g3, g4]).spi.tx = sampleWord c M 0 ∧
    (runState c s [g1, g2, g3, g4]).core.complete = true ∧
    ∃ n, latchedWords c (runState c s [g1, g2, g3, g4]) ws = (List.range' 1 n).map (sampleWord c M) := by
  obtain ⟨w1, w2, w3⟩ := window_start c hcs M s h.fsm h.wen h.mem g1 g2 g3 g4 hg
  refine ⟨w2, by rw [w3, h.cpl], ?_⟩
  obtain ⟨n, _, e, _⟩ := win_run c hw hcs M ws 0 0 _ w1 hws
  exact ⟨n, by simpa using e⟩

/-- `spi_readout_bits` from any state that holds `M` -/
theorem window_bits (c : Config) (hw : 4 ≤ c.spi.w) (hcs : c.spi.csIdlesHigh = false) (hm : c.spi.msbFirst = true)
    (M : List Nat) (s : State) (h : Holds c M s) (g1 g2 g3 g4 : In) (hg : AtRest [g1, g2, g3, g4]) (ws : List In)
    (hws : InWindow ws) (y : In) :
    let s0 := runState c s [g1, g2, g3, g4]
    let p := track c (0, 0) s0 ws
    1 ≤ p.2 → some (step c (runState c s0 ws) y).2.sdo = (sampleWord c M p.1)[c.spi.w - p.2]? := by
  intro s0 p hn
  obtain ⟨w1, w2, _⟩ := window_start c hcs M s h.fsm h.wen h.mem g1 g2 g3 g4 hg
  obtain ⟨j', _, hb⟩ := bits_run c hw hcs M ws 0 0 0 s0 w1 ⟨by rw [w2]; rfl, fun h => absurd h (by omega)⟩ hws
  have hout : (step c (runState c s0 ws) y).2.sdo = (runState c s0 ws).spi.sdo := by
    simp [step, (spi_step_out c.spi (runState c s0 ws).spi (spiIn c (runState c s0 ws) y)).2]
  rw [hout, hb.sdo hn, SpiDevice.shiftOutBit_iter c.spi _ (by rw [sampleWord_length]; omega) p.2 hn]
  simp only [SpiDevice.sdoBit, hm, if_true, sampleWord_length]
  rfl

/-- the SPI interface at the start of the window: bit counter 0, `past_clk` = the level of `sck` in `g4` -/
theorem window_spi_state' (c : Config) (hcs : c.spi.csIdlesHigh = false) (M : List Nat) (s : State)
    (h : Holds c M s) (g1 g2 g3 g4 : In) (hg : AtRest [g1, g2, g3, g4]) :
    (runState c s [g1, g2, g3, g4]).spi.bitCount = 0 ∧
    (runState c s [g1, g2, g3, g4]).spi.pastClk = (g4.sck != c.spi.pol) := by
  obtain ⟨w1, _, _⟩ := window_start c hcs M s h.fsm h.wen h.mem g1 g2 g3 g4 hg
  refine ⟨by have := w1.bc; omega, ?_⟩
  have h3 : runState c s [g1, g2, g3, g4] = (step c (runState c s [g1, g2, g3]) g4).1 := by
    have : [g1, g2, g3, g4] = [g1, g2, g3] ++ [g4] := rfl
    rw [this, runState_append]; rfl
  rw [h3, (step_proj c _ g4).2.1, spi_step_pastClk]; rfl

/-- `spi_readout_pins` from any state that holds `M`: the controller's sampling edge number `E` of the window reads bit
`bits_per_word - 1 - E mod bits_per_word` of `M[⌊E / bits_per_word⌋]` -/
theorem window_pins (c : Config) (hw : 4 ≤ c.spi.w) (hcs : c.spi.csIdlesHigh = false) (hm : c.spi.msbFirst = true)
    (M : List Nat) (s : State) (h : Holds c M s) (g1 g2 g3 g4 : In) (hg : AtRest [g1, g2, g3, g4])
    (hclk : (g4.sck != c.spi.pol) = !c.spi.phase) (ws : List In) (hws : InWindow ws)
    (hout : clkAfter c.spi (g4.sck != c.spi.pol) ws = c.spi.phase) (y : In) :
    let s0 := runState c s [g1, g2, g3, g4]
    let E := sampleEdges c.spi (g4.sck != c.spi.pol) ws
    some (step c (runState c s0 ws) y).2.sdo = (sampleWord c M (E / c.spi.w))[c.spi.w - 1 - E % c.spi.w]? := by
  intro s0 E
  obtain ⟨hb0, hpc⟩ := window_spi_state' c hcs M s h g1 g2 g3 g4 hg
  have hb0' : s0.spi.bitCount = 0 := hb0
  have hpc' : s0.spi.pastClk = (g4.sck != c.spi.pol) := hpc
  obtain ⟨hprog, hwords⟩ := track_words c (by omega) hcs ws 0 0 s0 (by rw [hb0']; omega) hws
  simp only [hb0', hpc', Nat.zero_add] at hprog hwords
  have hbits := track_bits c (by omega) hcs ws 0 0 s0 (by rw [hb0']; omega)
    (by rw [hb0', hpc', hclk]; cases c.spi.phase <;> rfl) hws
  have hpe : (runState c s0 ws).spi.pastClk = c.spi.phase := by
    rw [pastClk_run, hpc']; exact hout
  have hao : afterOut c.spi.phase c.spi.phase = 1 := by cases c.spi.phase <;> rfl
  have hp2 : (track c (0, 0) s0 ws).2 = E % c.spi.w + 1 := by rw [hbits, hpe, hao, hwords]
  have hbitsThm := window_bits c hw hcs hm M s h g1 g2 g3 g4 hg ws hws y
  simp only at hbitsThm
  have := hbitsThm (by rw [hp2]; omega)
  rw [this, hprog, hp2]
  congr 1
  omega

/-! ## the chain of captures -/

/-- one round of a history cut at the accepted triggers: the trigger cycle, the `depth` capture cycles, then trigger-free
cycles (read-outs, pauses, anything on the SPI pins) up to the next accepted trigger -/
structure Round where
  x0 : In
  xs : List In
  qs : List In

def Round.hist (r : Round) : List In := r.x0 :: r.xs ++ r.qs

def RoundsOK (c : Config) (rs : List Round) : Prop :=
  ∀ r ∈ rs, r.x0.trigger = true ∧ r.xs.length = c.ila.depth ∧ NoTrig r.qs

instance (c : Config) (rs : List Round) : Decidable (RoundsOK c rs) := by unfold RoundsOK; infer_instance

/-- after any number of complete rounds the analyzer is idle again: the next trigger is accepted -/
theorem rounds_idle (c : Config) (hd : 1 ≤ c.ila.depth) (rs : List Round) : ∀ σ : State, IdleState c.ila σ.core →
    RoundsOK c rs → IdleState c.ila (runState c σ (rs.flatMap Round.hist)).core := by
  induction rs with
  | nil => intro σ h _; exact h
  | cons r rs ih =>
    intro σ hσ hok
    obtain ⟨ht, hl, hq⟩ := hok r (by simp)
    have h1 := capture_holds c hd σ hσ r.x0 ht r.xs hl
    have h2 := quiet_run c _ r.qs _ h1 hq
    have h3 := holds_idle c _ _ h2 (roundSamples_length c σ r.x0 r.xs hl)
    have happ : runState c σ ((r :: rs).flatMap Round.hist) =
        runState c (runState c (runState c σ (r.x0 :: r.xs)) r.qs) (rs.flatMap Round.hist) := by
      simp only [List.flatMap_cons, Round.hist]
      rw [runState_append, runState_append]
    rw [happ]
    exact ih _ h3 (fun r' hr' => hok r' (by simp [hr']))

/-- in the round that follows any number of complete rounds, after the capture and any trigger-free cycles `a`, the analyzer
holds exactly the samples of THIS round's capture -/
theorem chain_holds (c : Config) (hd : 1 ≤ c.ila.depth) (σ : State) (hσ : IdleState c.ila σ.core) (rs : List Round)
    (hok : RoundsOK c rs) (x0 : In) (ht : x0.trigger = true) (xs : List In) (hl : xs.length = c.ila.depth)
    (a : List In) (ha : NoTrig a) :
    Holds c (roundSamples c (runState c σ (rs.flatMap Round.hist)) x0 xs)
      (runState c (runState c σ (rs.flatMap Round.hist)) (x0 :: xs ++ a)) := by
  have h0 := rounds_idle c hd rs σ hσ hok
  have h1 := capture_holds c hd _ h0 x0 ht xs hl
  rw [runState_append]
  exact quiet_run c _ a _ h1 ha

/-- **spi_capture_chain_words**: any number of complete rounds `rs` (captures with their read-outs), then a round with trigger
cycle `x0`, capture cycles `xs`, any trigger-free cycles `a` (earlier read-outs of this capture — complete, partial, aborted —
and pauses), four cycles with chip select low, and a chip-select window `ws` without a trigger: `complete` is high, the SPI
transmit register holds sample 0 of THIS capture when the window opens, and the words loaded at the completing sample edges
are samples 1, 2, 3, … of THIS capture, in order. -/
theorem spi_capture_chain_words (c : Config) (hw : 4 ≤ c.spi.w) (hcs : c.spi.csIdlesHigh = false) (hd : 1 ≤ c.ila.depth)
    (σ : State) (hσ : IdleState c.ila σ.core) (rs : List Round) (hok : RoundsOK c rs)
    (x0 : In) (ht : x0.trigger = true) (xs : List In) (hl : xs.length = c.ila.depth) (a : List In) (ha : NoTrig a)
    (g1 g2 g3 g4 : In) (hg : AtRest [g1, g2, g3, g4]) (ws : List In) (hws : InWindow ws) :
    let σk := runState c σ (rs.flatMap Round.hist)
    let s0 := runState c σk (x0 :: xs ++ a ++ [g1, g2, g3, g4])
    let S := roundSamples c σk x0 xs
    s0.spi.tx = sampleWord c S 0 ∧ s0.core.complete = true ∧
    ∃ n, latchedWords c s0 ws = (List.range' 1 n).map (sampleWord c S) := by
  intro σk s0 S
  have h := chain_holds c hd σ hσ rs hok x0 ht xs hl a ha
  have := window_words c hw hcs S _ h g1 g2 g3 g4 hg ws hws
  rw [← runState_append] at this
  exact this

/-- **spi_capture_chain_bits**: in the same situation, at ANY point of the window: with `K` words completed in the window and
`n ≥ 1` output edges since the last word boundary, `sdo` carries bit `bits_per_word - n` of sample `K` of THIS capture. -/
theorem spi_capture_chain_bits (c : Config) (hw : 4 ≤ c.spi.w) (hcs : c.spi.csIdlesHigh = false)
    (hm : c.spi.msbFirst = true) (hd : 1 ≤ c.ila.depth)
    (σ : State) (hσ : IdleState c.ila σ.core) (rs : List Round) (hok : RoundsOK c rs)
    (x0 : In) (ht : x0.trigger = true) (xs : List In) (hl : xs.length = c.ila.depth) (a : List In) (ha : NoTrig a)
    (g1 g2 g3 g4 : In) (hg : AtRest [g1, g2, g3, g4]) (ws : List In) (hws : InWindow ws) (y : In) :
    let σk := runState c σ (rs.flatMap Round.hist)
    let s0 := runState c σk (x0 :: xs ++ a ++ [g1, g2, g3, g4])
    let S := roundSamples c σk x0 xs
    let p := track c (0, 0) s0 ws
    1 ≤ p.2 → some (step c (runState c s0 ws) y).2.sdo = (sampleWord c S p.1)[c.spi.w - p.2]? := by
  intro σk s0 S
  have h := chain_holds c hd σ hσ rs hok x0 ht xs hl a ha
  have := window_bits c hw hcs hm S _ h g1 g2 g3 g4 hg ws hws y
  rw [← runState_append] at this
  exact this

/-- **spi_capture_chain_pins**: the statement on the pins alone, for every capture of a history and every read-out of it: if
moreover `sck` rests before the window at the level it has after a sampling edge, then at any point of the window at which the
clock sits after an output edge, with `E` = the sampling edges of `sck` in the window so far, `sdo` carries bit
`bits_per_word - 1 - E mod bits_per_word` of sample `⌊E / bits_per_word⌋` of THIS capture (`sampleWord_lt`: that is
`S[⌊E / bits_per_word⌋]` while `E < depth · bits_per_word`) — the controller reads back sample `n` of the latest capture as
word `n`, whatever was captured and read before. -/
theorem spi_capture_chain_pins (c : Config) (hw : 4 ≤ c.spi.w) (hcs : c.spi.csIdlesHigh = false)
    (hm : c.spi.msbFirst = true) (hd : 1 ≤ c.ila.depth)
    (σ : State) (hσ : IdleState c.ila σ.core) (rs : List Round) (hok : RoundsOK c rs)
    (x0 : In) (ht : x0.trigger = true) (xs : List In) (hl : xs.length = c.ila.depth) (a : List In) (ha : NoTrig a)
    (g1 g2 g3 g4 : In) (hg : AtRest [g1, g2, g3, g4]) (hclk : (g4.sck != c.spi.pol) = !c.spi.phase)
    (ws : List In) (hws : InWindow ws) (hout : clkAfter c.spi (g4.sck != c.spi.pol) ws = c.spi.phase) (y : In) :
    let σk := runState c σ (rs.flatMap Round.hist)
    let s0 := runState c σk (x0 :: xs ++ a ++ [g1, g2, g3, g4])
    let S := roundSamples c σk x0 xs
    let E := sampleEdges c.spi (g4.sck != c.spi.pol) ws
    some (step c (runState c s0 ws) y).2.sdo = (sampleWord c S (E / c.spi.w))[c.spi.w - 1 - E % c.spi.w]? := by
  intro σk s0 S
  have h := chain_holds c hd σ hσ rs hok x0 ht xs hl a ha
  have := window_pins c hw hcs hm S _ h g1 g2 g3 g4 hg hclk ws hws hout y
  rw [← runState_append] at this
  exact this

/-- the reset state: the analyzer is idle -/
theorem init_idle (c : Config) : IdleState c.ila (init c).core := by
  simp [IdleState, init, Ila.init]

/-! ## Non-vacuity (configuration of `Props/C56Spi.lean`: depth 2, pre-trigger 1, 4-bit words): round 1 records 5, 6 and is read
out (two words); round 2 records 9, 10, is read partially (aborted after 3 bits), then — after four rest cycles — read again:
the words are those of round 2 -/
def cap2X : List In := [⟨false, 10, false, false, false⟩, ⟨false, 11, false, false, false⟩]
def round1X : Round := ⟨⟨true, 5, false, false, false⟩, [⟨false, 6, false, false, false⟩, ⟨true, 7, false, false, false⟩],
  [restX, restX, restX, restX] ++ winX ++ [restX, restX]⟩
def abortX : List In := [restX, restX, restX, restX] ++ bitX ++ bitX ++ bitX

example : RoundsOK cfgX [round1X] := by decide
example : NoTrig abortX := by decide
example : roundSamples cfgX (runState cfgX (init cfgX) ([round1X].flatMap Round.hist)) ⟨true, 9, false, false, false⟩ cap2X
    = [9, 10] := by decide
example : (runState cfgX (runState cfgX (init cfgX) ([round1X].flatMap Round.hist))
      (⟨true, 9, false, false, false⟩ :: cap2X ++ abortX ++ [restX, restX, restX, restX])).spi.tx = SpiDevice.natToBits 4 9 ∧
    latchedWords cfgX (runState cfgX (runState cfgX (init cfgX) ([round1X].flatMap Round.hist))
      (⟨true, 9, false, false, false⟩ :: cap2X ++ abortX ++ [restX, restX, restX, restX])) winX
    = [SpiDevice.natToBits 4 10, SpiDevice.natToBits 4 9] := by decide

/-- **stale_window_example** (what is NOT guaranteed, and why the "no trigger in the window" hypothesis cannot be dropped): the
trigger of round 2 arrives in the first cycle of a chip-select window opened after round 1 (samples 5, 6).  The wrapper does not
block it.  The transmit register was loaded with sample 0 of round 1 (5) before the trigger; it is shifted out while capture 2
(9, 10) runs and completes — `complete` is high again at the end of the window — and the word loaded at the first word boundary
is sample 1 of round 2 (10): the window returns 5 (stale, capture 1), then 10 (capture 2). -/
theorem stale_window_example :
    let s1 := runState cfgX (init cfgX) (round1X.hist ++ [restX, restX, restX, restX])
    let trigWin : List In := [⟨true, 9, true, false, true⟩, ⟨false, 10, false, false, true⟩] ++ bitX ++ bitX ++ bitX ++ bitX ++ bitX
    s1.spi.tx = SpiDevice.natToBits 4 5 ∧
    latchedWords cfgX s1 trigWin = [SpiDevice.natToBits 4 10] ∧
    (runState cfgX s1 trigWin).core.complete = true ∧ (runState cfgX s1 trigWin).core.mem = [9, 10] := by
  decide

end LunaVerif.IlaSpi
