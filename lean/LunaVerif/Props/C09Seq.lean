import LunaVerif.Props.C09Mux
import LunaVerif.Lemmas.C09MuxIdle
/-!
# C09 — return to idle between requests, and sequences of requests

Every per-request theorem of `Props/C09.lean` / `Props/C09Mux.lean` starts from an arbitrary idle
(quiescent) state.  Here: when the response is over within the request's window of cycles
(`Complete`: the window is longer than the handler's latency and — for a data packet — every byte has
been accepted by `tx.ready`), the handler is idle (quiescent) again at the end of the window; hence
(`*_requests_exact`) **any sequence** of such requests is answered request by request with the
specified responses (`AnswersAll`), from the first idle state on.

The distributed handler needs one more cycle (its generator passes through DONE): its window must
contain a further cycle after the response is over (`Complete … rs.dropLast`).
-/
namespace LunaVerif.Desc

theorem Complete.mono (L L' : Nat) (r : Response) (rs : List Bool) (h : Complete L r rs) (hl : L' ≤ L) :
    Complete L' r rs :=
  ⟨by have := h.1; omega, fun c hc => Nat.le_trans (h.2 c hc) (count_drop_le rs L' L hl)⟩

/-! ## block-ROM handler -/

/-- **block_returns_idle**: under the hypotheses of `block_packet_exact`, if the response is over
within the window `rs`, the block handler model is in IDLE at the end of `rs`. -/
theorem block_returns_idle (coll : Collection) (mps : Nat) (s0 : Block.State)
    (ty idx l p : Nat) (rs : List Bool)
    (hwf : wellFormed coll = true)
    (hm : mps = 8 ∨ mps = 16 ∨ mps = 32 ∨ mps = 64)
    (hpw : 2 ≤ (Rom.layout coll).maxLen)
    (hty : ty < 256) (hidx : idx < 256) (hl : l < 65536)
    (h0 : s0.fsm = .idle)
    (hp : ∀ d, descrBytes coll ty idx = some d → p ≤ min l d.length)
    (hc : Complete 4 (specResponse (descrBytes coll ty idx) l mps p) rs) :
    (Block.final (blockOf coll mps) s0 (Block.reqInputs (ty * 256 + idx) l p rs)).fsm = .idle := by
  obtain ⟨lat, _, hlat, htr⟩ :=
    block_packet_exact coll mps s0 ty idx l p (rs ++ [false]) hwf hm hpw hty hidx hl h0 hp
  exact Block.final_idle_of_trace _ s0 _ l p lat _ rs h0 (by have := hc.1; omega) (hc.at 4 lat _ _ hlat) htr

/-! ## distributed handler -/

theorem window_split (rs : List Bool) (h : 3 ≤ rs.length) :
    ∃ r0 mid y x, rs = r0 :: (mid ++ [y]) ++ [x] := by
  rcases List.eq_nil_or_concat rs with rfl | ⟨dl, x, rfl⟩
  · simp at h
  · cases dl with
    | nil => simp at h
    | cons r0 t =>
      rcases List.eq_nil_or_concat t with rfl | ⟨mid, y, rfl⟩
      · simp at h
      · exact ⟨r0, mid, y, x, by simp [List.concat_eq_append]⟩

/-- which entry of a distributed handler built from a collection a wValue selects. -/
theorem dist_selects (coll : Collection) (F : Descr → Dist.Entry) (hF : ∀ d, (F d).key = key d) (mps : Nat)
    (ty idx : Nat) (hn : (coll.map key).Nodup)
    (d : Descr) (hf : find? coll ty idx = some d) :
    ∃ j, Dist.Selects ⟨coll.map F, mps⟩ (ty * 256 + idx) j (F d)
      ∧ ∀ (k : Nat) (e' : Dist.Entry), k ≠ j → (coll.map F)[k]? = some e' → e'.key ≠ ty * 256 + idx := by
  obtain ⟨j, hj, hP, hbefore⟩ := find_index coll _ d hf
  have hkey : key d = ty * 256 + idx := by
    simp only [Bool.and_eq_true, beq_iff_eq] at hP
    unfold key; rw [hP.1, hP.2]
  have hjlt : j < coll.length := (List.getElem?_eq_some_iff.mp hj).1
  have huniq : ∀ (k : Nat) (e' : Dist.Entry), k ≠ j → (coll.map F)[k]? = some e' → e'.key ≠ ty * 256 + idx := by
    intro k e' hkj hget
    rw [List.getElem?_map] at hget
    cases hck : coll[k]? with
    | none => rw [hck] at hget; simp at hget
    | some d' =>
      rw [hck] at hget
      simp only [Option.map_some, Option.some.injEq] at hget
      subst hget
      rw [hF, ← hkey]
      intro heq
      have h1 : (coll.map key)[k]? = (coll.map key)[j]? := by
        rw [List.getElem?_map, List.getElem?_map, hck, hj]; simp [heq]
      have hklt : k < (coll.map key).length := by
        rw [List.length_map]; exact (List.getElem?_eq_some_iff.mp hck).1
      exact hkj ((List.getElem?_inj hklt hn).mp h1)
  refine ⟨j, ⟨?_, by rw [hF]; exact hkey, fun k e' hk hget => huniq k e' (by omega) hget⟩, huniq⟩
  show (coll.map F)[j]? = _
  rw [List.getElem?_map, hj]; rfl

theorem dist_selects_none (coll : Collection) (F : Descr → Dist.Entry) (hF : ∀ d, (F d).key = key d)
    (ty idx : Nat) (hidx : idx < 256) (hwf : ∀ d ∈ coll, d.idx < 256)
    (hf : find? coll ty idx = none) : ∀ e ∈ coll.map F, e.key ≠ ty * 256 + idx := by
  intro e' he'
  rw [List.mem_map] at he'
  obtain ⟨d', hd', rfl⟩ := he'
  have := List.find?_eq_none.mp hf d' hd'
  rw [hF]
  exact key_ne_of_not_match d' ty idx hidx (hwf d' hd') (by simpa using this)

/-- generic form of the two `dist_*_returns_quiescent` theorems. -/
theorem dist_returns_quiescent_of (coll : Collection) (F : Descr → Dist.Entry) (hF : ∀ d, (F d).key = key d)
    (mps : Nat) (s0 : Dist.State) (ty idx l p lat : Nat) (r : Response) (rs : List Bool)
    (hwf : ∀ d ∈ coll, d.idx < 256) (hn : (coll.map key).Nodup) (hidx : idx < 256)
    (h0 : Dist.Quiet ⟨coll.map F, mps⟩ s0)
    (htr : Dist.run ⟨coll.map F, mps⟩ s0 (Dist.reqInputs (ty * 256 + idx) l p rs) = respTrace lat r rs)
    (hc : CompleteAt lat r rs.dropLast) (h3 : 3 ≤ rs.length) :
    Dist.Quiet ⟨coll.map F, mps⟩ (Dist.final ⟨coll.map F, mps⟩ s0 (Dist.reqInputs (ty * 256 + idx) l p rs)) := by
  obtain ⟨r0, mid, y, x, rfl⟩ := window_split rs h3
  cases hf : find? coll ty idx with
  | some d =>
    obtain ⟨j, hs, huniq⟩ := dist_selects coll F hF mps ty idx hn d hf
    rw [List.dropLast_concat] at hc
    exact Dist.final_quiet_sel _ s0 _ l p lat j (F d) r r0 y x mid h0 hs huniq hc htr
  | none =>
    exact Dist.final_quiet_none _ s0 _ l p r0 _ h0 (dist_selects_none coll F hF ty idx hidx hwf hf)

/-- **dist_returns_quiescent**: under the hypotheses of `dist_packet_exact` (+ distinct keys), if the
response is over one cycle before the end of the window `rs`, the distributed handler model is
quiescent at the end of `rs`. -/
theorem dist_returns_quiescent (coll : Collection) (mps : Nat) (s0 : Dist.State)
    (ty idx l p : Nat) (rs : List Bool)
    (hm : mps = 8 ∨ mps = 16 ∨ mps = 32 ∨ mps = 64)
    (hwf : ∀ d ∈ coll, d.idx < 256) (hn : (coll.map key).Nodup)
    (hidx : idx < 256) (hl : l < 65536)
    (h0 : Dist.Quiescent (distOf coll mps) s0)
    (hp : ∀ d, descrBytes coll ty idx = some d → p ≤ min l d.length ∧ p < l)
    (hc : Complete 2 (specResponse (descrBytes coll ty idx) l mps p) rs.dropLast) :
    Dist.Quiescent (distOf coll mps) (Dist.final (distOf coll mps) s0 (Dist.reqInputs (ty * 256 + idx) l p rs)) := by
  obtain ⟨lat, hlat, htr⟩ := dist_packet_exact coll mps s0 ty idx l p rs hm hwf hidx hl h0 hp
  have h3 : 3 ≤ rs.length := by have := hc.1; simp at this; omega
  exact dist_returns_quiescent_of coll _ (fun _ => rfl) mps s0 ty idx l p lat _ rs hwf hn hidx h0 htr
    (hc.at 2 lat _ _ hlat) h3

/-- **dist_runtime_returns_quiescent**: the same for the distributed handler over runtime descriptors. -/
theorem dist_runtime_returns_quiescent (coll : Collection) (mps : Nat) (s0 : Dist.State)
    (ty idx l p : Nat) (rs : List Bool)
    (hm : mps = 8 ∨ mps = 16 ∨ mps = 32 ∨ mps = 64)
    (hwf : ∀ d ∈ coll, d.idx < 256) (hn : (coll.map key).Nodup)
    (hidx : idx < 256) (hl : l < 65536)
    (h0 : Dist.Quiescent (distRuntimeOf coll mps) s0)
    (hp : ∀ d, descrBytes coll ty idx = some d → p < min l d.length)
    (hc : Complete 2 (specResponse (descrBytes coll ty idx) l mps p) rs.dropLast) :
    Dist.Quiescent (distRuntimeOf coll mps)
      (Dist.final (distRuntimeOf coll mps) s0 (Dist.reqInputs (ty * 256 + idx) l p rs)) := by
  have htr := dist_runtime_packet_exact coll mps s0 ty idx l p rs hm hwf hidx hl h0 hp
  have h3 : 3 ≤ rs.length := by have := hc.1; simp at this; omega
  exact dist_returns_quiescent_of coll _ (fun _ => rfl) mps s0 ty idx l p _ _ rs hwf hn hidx h0 htr
    (hc.at 2 _ _ _ (by split <;> omega)) h3

/-! ## mux -/

/-- both handlers of the mux at rest (the stall latches may hold anything). -/
def Mux.Idle (c : Mux.Config) (s : Mux.State) : Prop := s.b.fsm = .idle ∧ Dist.Quiescent c.dist s.d

/-- **mux_returns_idle**: under the hypotheses of `mux_packet_exact` (+ distinct runtime keys), if the
response is over one cycle before the end of the window `rs`, both handlers are at rest at the end of `rs`. -/
theorem mux_returns_idle (fixed runtime : Collection) (mps : Nat) (s0 : Mux.State)
    (ty idx l p : Nat) (rs : List Bool)
    (hwf : wellFormed fixed = true)
    (hm : mps = 8 ∨ mps = 16 ∨ mps = 32 ∨ mps = 64)
    (hpw : 2 ≤ (Rom.layout fixed).maxLen)
    (hty : ty < 256) (hidx : idx < 256) (hl : l < 65536)
    (hrt : ∀ d ∈ runtime, d.idx < 256) (hrn : (runtime.map key).Nodup)
    (hdisj : descrBytes fixed ty idx = none ∨ descrBytes runtime ty idx = none)
    (h0 : Mux.Idle (muxOf fixed runtime mps) s0)
    (hpf : ∀ d, descrBytes fixed ty idx = some d → p ≤ min l d.length)
    (hpr : ∀ d, descrBytes runtime ty idx = some d → p < min l d.length)
    (hc : Complete 4 (specResponse (descrBytes (fixed ++ runtime) ty idx) l mps p) rs.dropLast) :
    Mux.Idle (muxOf fixed runtime mps)
      (Mux.final (muxOf fixed runtime mps) s0 (Block.reqInputs (ty * 256 + idx) l p rs)) := by
  obtain ⟨hb, hd⟩ := Mux.final_parts (muxOf fixed runtime mps) (Block.reqInputs (ty * 256 + idx) l p rs) s0
  rw [descrBytes_append] at hc
  refine ⟨?_, ?_⟩
  · rw [hb]
    apply block_returns_idle fixed mps s0.b ty idx l p rs hwf hm hpw hty hidx hl h0.1 hpf
    apply Complete.of_dropLast
    cases hf : descrBytes fixed ty idx with
    | some d => rw [hf] at hc; exact hc
    | none => exact hc.stall
  · rw [hd, Mux.toDist_reqInputs]
    apply dist_runtime_returns_quiescent runtime mps s0.d ty idx l p rs hm hrt hrn hidx hl h0.2 hpr
    apply Complete.mono 4 2 _ _ _ (by omega)
    cases hr : descrBytes runtime ty idx with
    | none => exact hc.stall
    | some d =>
      have hf : descrBytes fixed ty idx = none := by
        rcases hdisj with h | h
        · exact h
        · rw [hr] at h; simp at h
      rw [hf, hr] at hc
      exact hc

/-! ## sequences of requests -/

/-- the environment hypotheses of one request on the block handler, and its window. -/
def BlockOk (coll : Collection) (mps : Nat) (q : Req) : Prop :=
  q.ty < 256 ∧ q.idx < 256 ∧ q.l < 65536
  ∧ (∀ d, descrBytes coll q.ty q.idx = some d → q.p ≤ min q.l d.length)
  ∧ Complete 4 (specResponse (descrBytes coll q.ty q.idx) q.l mps q.p) q.rs

/-- **block_requests_exact**: any sequence of in-order requests, each with a window in which its
response is over, is answered request by request with the specified responses, and the handler is
idle at the end — return-to-idle between requests is a theorem, not an assumption. -/
theorem block_requests_exact (coll : Collection) (mps : Nat)
    (hwf : wellFormed coll = true)
    (hm : mps = 8 ∨ mps = 16 ∨ mps = 32 ∨ mps = 64)
    (hpw : 2 ≤ (Rom.layout coll).maxLen)
    (qs : List Req) (s0 : Block.State) (h0 : s0.fsm = .idle) (hq : ∀ q ∈ qs, BlockOk coll mps q) :
    AnswersAll (fun q => specResponse (descrBytes coll q.ty q.idx) q.l mps q.p) 4 qs
      (Block.run (blockOf coll mps) s0 (qs.flatMap (fun q => Block.reqInputs (q.ty * 256 + q.idx) q.l q.p q.rs)))
    ∧ (Block.final (blockOf coll mps) s0
        (qs.flatMap (fun q => Block.reqInputs (q.ty * 256 + q.idx) q.l q.p q.rs))).fsm = .idle := by
  apply answersAll_of (Block.run (blockOf coll mps)) (Block.final (blockOf coll mps))
    (fun s a b => Block.run_append _ a b s) (fun s a b => Block.final_append _ a b s) (fun _ => ⟨rfl, rfl⟩)
    (fun s => s.fsm = .idle) _ _ 4 (BlockOk coll mps) ?_ ?_ qs s0 h0 hq
  · intro s q hs ⟨h1, h2, h3, h4, _⟩
    obtain ⟨lat, _, hlat, h⟩ := block_packet_exact coll mps s q.ty q.idx q.l q.p q.rs hwf hm hpw h1 h2 h3 hs h4
    exact ⟨lat, hlat, h⟩
  · intro s q hs ⟨h1, h2, h3, h4, h5⟩
    exact block_returns_idle coll mps s q.ty q.idx q.l q.p q.rs hwf hm hpw h1 h2 h3 hs h4 h5

/-- the environment hypotheses of one request on the distributed handler, and its window. -/
def DistOk (coll : Collection) (mps : Nat) (q : Req) : Prop :=
  q.idx < 256 ∧ q.l < 65536
  ∧ (∀ d, descrBytes coll q.ty q.idx = some d → q.p ≤ min q.l d.length ∧ q.p < q.l)
  ∧ Complete 2 (specResponse (descrBytes coll q.ty q.idx) q.l mps q.p) q.rs.dropLast

/-- **dist_requests_exact**: the same for the distributed handler (fixed descriptors). -/
theorem dist_requests_exact (coll : Collection) (mps : Nat)
    (hm : mps = 8 ∨ mps = 16 ∨ mps = 32 ∨ mps = 64)
    (hwf : ∀ d ∈ coll, d.idx < 256) (hn : (coll.map key).Nodup)
    (qs : List Req) (s0 : Dist.State) (h0 : Dist.Quiescent (distOf coll mps) s0)
    (hq : ∀ q ∈ qs, DistOk coll mps q) :
    AnswersAll (fun q => specResponse (descrBytes coll q.ty q.idx) q.l mps q.p) 2 qs
      (Dist.run (distOf coll mps) s0 (qs.flatMap (fun q => Dist.reqInputs (q.ty * 256 + q.idx) q.l q.p q.rs)))
    ∧ Dist.Quiescent (distOf coll mps) (Dist.final (distOf coll mps) s0
        (qs.flatMap (fun q => Dist.reqInputs (q.ty * 256 + q.idx) q.l q.p q.rs))) := by
  apply answersAll_of (Dist.run (distOf coll mps)) (Dist.final (distOf coll mps))
    (fun s a b => Dist.run_append _ a b s) (fun s a b => Dist.final_append _ a b s) (fun _ => ⟨rfl, rfl⟩)
    (Dist.Quiescent (distOf coll mps)) _ _ 2 (DistOk coll mps) ?_ ?_ qs s0 h0 hq
  · intro s q hs ⟨h2, h3, h4, _⟩
    exact dist_packet_exact coll mps s q.ty q.idx q.l q.p q.rs hm hwf h2 h3 hs h4
  · intro s q hs ⟨h2, h3, h4, h5⟩
    exact dist_returns_quiescent coll mps s q.ty q.idx q.l q.p q.rs hm hwf hn h2 h3 hs h4 h5

/-- the environment hypotheses of one request on the mux, and its window. -/
def MuxOk (fixed runtime : Collection) (mps : Nat) (q : Req) : Prop :=
  q.ty < 256 ∧ q.idx < 256 ∧ q.l < 65536
  ∧ (descrBytes fixed q.ty q.idx = none ∨ descrBytes runtime q.ty q.idx = none)
  ∧ (∀ d, descrBytes fixed q.ty q.idx = some d → q.p ≤ min q.l d.length)
  ∧ (∀ d, descrBytes runtime q.ty q.idx = some d → q.p < min q.l d.length)
  ∧ Complete 4 (specResponse (descrBytes (fixed ++ runtime) q.ty q.idx) q.l mps q.p) q.rs.dropLast

/-- **mux_requests_exact**: any sequence of requests on the mux — fixed and runtime descriptors and
absent ones in any order — is answered request by request with the specified responses; the stall
latches left by one request do not disturb the next. -/
theorem mux_requests_exact (fixed runtime : Collection) (mps : Nat)
    (hwf : wellFormed fixed = true)
    (hm : mps = 8 ∨ mps = 16 ∨ mps = 32 ∨ mps = 64)
    (hpw : 2 ≤ (Rom.layout fixed).maxLen)
    (hrt : ∀ d ∈ runtime, d.idx < 256) (hrn : (runtime.map key).Nodup)
    (qs : List Req) (s0 : Mux.State) (h0 : Mux.Idle (muxOf fixed runtime mps) s0)
    (hq : ∀ q ∈ qs, MuxOk fixed runtime mps q) :
    AnswersAll (fun q => specResponse (descrBytes (fixed ++ runtime) q.ty q.idx) q.l mps q.p) 4 qs
      (Mux.run (muxOf fixed runtime mps) s0
        (qs.flatMap (fun q => Block.reqInputs (q.ty * 256 + q.idx) q.l q.p q.rs)))
    ∧ Mux.Idle (muxOf fixed runtime mps) (Mux.final (muxOf fixed runtime mps) s0
        (qs.flatMap (fun q => Block.reqInputs (q.ty * 256 + q.idx) q.l q.p q.rs))) := by
  apply answersAll_of (Mux.run (muxOf fixed runtime mps)) (Mux.final (muxOf fixed runtime mps))
    (fun s a b => Mux.run_append _ a b s) (fun s a b => Mux.final_append _ a b s) (fun _ => ⟨rfl, rfl⟩)
    (Mux.Idle (muxOf fixed runtime mps)) _ _ 4 (MuxOk fixed runtime mps) ?_ ?_ qs s0 h0 hq
  · intro s q hs ⟨h1, h2, h3, h4, h5, h6, _⟩
    obtain ⟨lat, _, hlat, h⟩ := mux_packet_exact fixed runtime mps s q.ty q.idx q.l q.p q.rs hwf hm hpw h1 h2 h3
      hrt h4 hs.1 hs.2 h5 h6
    exact ⟨lat, hlat, h⟩
  · intro s q hs ⟨h1, h2, h3, h4, h5, h6, h7⟩
    exact mux_returns_idle fixed runtime mps s q.ty q.idx q.l q.p q.rs hwf hm hpw h1 h2 h3 hrt hrn h4 hs h5 h6 h7

/-! ## Non-vacuity: three requests in a row on the mux of `sample` (fixed) and `sampleRuntime` -/

/-- runtime string 0xEE (5 bytes), then the fixed language string with wLength 2, then an absent string. -/
def sampleReqs : List Req :=
  [⟨3, 0xEE, 255, 0, [true, true, true, false, true, true, true, true, true, true, true]⟩,
   ⟨3, 0, 2, 0, [true, true, true, true, true, true, true, true]⟩,
   ⟨3, 7, 255, 0, [true, true, true, true, true, true]⟩]

theorem sampleReqs_ok : ∀ q ∈ sampleReqs, MuxOk sample sampleRuntime 8 q := by
  intro q hq
  simp only [sampleReqs, List.mem_cons, List.not_mem_nil, or_false] at hq
  rcases hq with rfl | rfl | rfl
  · have h1 : descrBytes sample 3 0xEE = none := by decide +kernel
    have h2 : descrBytes sampleRuntime 3 0xEE = some [5, 3, 88, 0, 89] := by decide +kernel
    refine ⟨by decide, by decide, by decide, Or.inl h1, ?_, ?_, ?_⟩
    · intro d hd; rw [h1] at hd; cases hd
    · intro d hd; rw [h2] at hd; injection hd with hd; subst hd; decide
    · rw [descrBytes_append, h1, h2]; decide +kernel
  · have h1 : descrBytes sample 3 0 = some [4, 3, 9, 4] := by decide +kernel
    have h2 : descrBytes sampleRuntime 3 0 = none := by decide +kernel
    refine ⟨by decide, by decide, by decide, Or.inr h2, ?_, ?_, ?_⟩
    · intro d hd; rw [h1] at hd; injection hd with hd; subst hd; decide
    · intro d hd; rw [h2] at hd; cases hd
    · rw [descrBytes_append, h1, h2]; decide +kernel
  · have h1 : descrBytes sample 3 7 = none := by decide +kernel
    have h2 : descrBytes sampleRuntime 3 7 = none := by decide +kernel
    refine ⟨by decide, by decide, by decide, Or.inl h1, ?_, ?_, ?_⟩
    · intro d hd; rw [h1] at hd; cases hd
    · intro d hd; rw [h2] at hd; cases hd
    · rw [descrBytes_append, h1, h2]; decide +kernel

-- the remaining hypotheses of `mux_requests_exact`
example : (∀ d ∈ sampleRuntime, d.idx < 256) ∧ (sampleRuntime.map key).Nodup := by decide
-- … and what it yields here, evaluated: the three answers back to back (latencies 2, 4, 2)
set_option maxRecDepth 100000 in
example : Mux.run (muxOf sample sampleRuntime 8) (Mux.init (muxOf sample sampleRuntime 8))
      (sampleReqs.flatMap (fun q => Block.reqInputs (q.ty * 256 + q.idx) q.l q.p q.rs))
    = respTrace 2 (.data [5, 3, 88, 0, 89]) [true, true, true, false, true, true, true, true, true, true, true]
      ++ respTrace 4 (.data [4, 3]) [true, true, true, true, true, true, true, true]
      ++ respTrace 2 .stall [true, true, true, true, true, true] := by decide +kernel
-- a window that is too short is rejected by `Complete` (the last byte is accepted in its last cycle)
example : ¬ Complete 4 (.data [5, 3, 88, 0, 89]) [true, true, true, true, true, true, true, true, true].dropLast := by
  decide

end LunaVerif.Desc
