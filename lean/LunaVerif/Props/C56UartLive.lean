import LunaVerif.Lemmas.C56UartRank
/-!
# C56 — AsyncSerialILA: duration of the UART read-out, and the read-out theorem without end-of-history assumptions

`uart_readout_complete` (Props/C56Uart.lean) assumes a history at whose end wrapper and transmitter are idle again.  Here that
assumption is discharged: by the ranking function of `Lemmas/C56UartRank.lean` (decreases by exactly one per cycle, zero exactly
in the quiescent states) the read-out takes **exactly** `readoutCycles = 10·divisor·bytes_per_sample·depth + 3 - data_valid`
cycles after the hand-over cycle (`data_valid` is 1 only for the very first read-out after reset) — for all depths, byte widths
and divisors.  `uart_readout_total` / `uart_readout_total_decoded` are the resulting unconditional forms: every history that
extends that far past `complete` carries all `depth` samples, each once, in order, on the `tx` waveform.
-/
namespace LunaVerif.IlaUart
open LunaVerif.Uart LunaVerif.Ila

/-- the exact duration of a read-out, counted from the cycle after the hand-over cycle (the cycle in which the wrapper
sees `complete`) -/
def readoutCycles (c : Config) (dv : Bool) : Nat := 10 * c.d * c.w * c.ila.depth + 3 - dv.toNat

/-- a quiescent transmitter stays quiescent in a cycle in which the stream offers no word -/
theorem quiet_step (c : Config) (s : State) (i : In) (hq : UartQuiet s)
    (hv : (IlaStream.step c.ila s.ila (ilaIn c s i)).2.valid = false) : UartQuiet (step c s i).1 := by
  obtain ⟨ila, ⟨f, shift, bytes, ⟨uf, baud, ush, bits⟩⟩⟩ := s
  obtain ⟨h1, h2⟩ := hq
  simp only at h1 h2; subst h1 h2
  have hv' : (uartIn c ⟨ila, ⟨.idle, shift, bytes, ⟨.idle, baud, ush, bits⟩⟩⟩ i).valid = false := hv
  simp [UartQuiet, step, mbStep, Uart.step, hv']

theorem quiet_ready (c : Config) (s : State) (hq : UartQuiet s) : uartReady c s.uart = true := by
  obtain ⟨ila, ⟨f, shift, bytes, u⟩⟩ := s
  obtain ⟨h1, _⟩ := hq
  simp only at h1; subst h1
  simp [uartReady, mbStep]

theorem quiet_run (c : Config) (h : List In) : ∀ s, UartQuiet s →
    IlaStream.transfers c.ila s.ila (ilaHist c s h) = [] → UartQuiet (runState c s h) := by
  induction h with
  | nil => intro s hq _; exact hq
  | cons x h ih =>
    intro s hq ht
    simp only [ilaHist, IlaStream.transfers, List.append_eq_nil_iff] at ht
    have hr : (ilaIn c s x).ready = true := quiet_ready c s hq
    have hv : (IlaStream.step c.ila s.ila (ilaIn c s x)).2.valid = false := by
      have := ht.1
      simp only [IlaStream.xferOf, hr, Bool.and_true] at this
      cases hvv : (IlaStream.step c.ila s.ila (ilaIn c s x)).2.valid
      · rfl
      · simp [hvv] at this
    exact ih _ (quiet_step c s x hq hv) ht.2


/-- the state after the hand-over cycle: read-out FSM in SENDING at sample 0, transmitter still quiescent; its rank is the
closed form `readoutCycles` -/
theorem handover_rank (c : Config) (hD : 1 ≤ c.ila.depth) (hw : 1 ≤ c.w) (σ : State)
    (hσ : IlaStream.WIdle c.ila σ.ila) (hu : UartQuiet σ)
    (x0 : In) (ht : x0.trigger = true) (xs : List In) (hl : xs.length = c.ila.depth) (xl : In) :
    Live c (runState c σ (x0 :: xs ++ [xl])) ∧
    rankOf c (runState c σ (x0 :: xs ++ [xl])) = readoutCycles c σ.ila.dv := by
  have hpre : ilaHist c σ (x0 :: xs ++ [xl]) = ilaIn c σ x0 :: ilaHist c (step c σ x0).1 xs ++
      [ilaIn c (runState c σ (x0 :: xs)) xl] := by
    have : x0 :: xs ++ [xl] = (x0 :: xs) ++ [xl] := rfl
    rw [this, ilaHist_append]
    simp [ilaHist, runState]
  obtain ⟨t0, wpos, dl, hs⟩ := IlaStream.capture_then_sending c.ila hD σ.ila hσ (ilaIn c σ x0) ht
    (ilaHist c (step c σ x0).1 xs) (by rw [ilaHist_length, hl]) (ilaIn c (runState c σ (x0 :: xs)) xl)
  rw [← hpre] at t0 hs
  have hq := quiet_run c (x0 :: xs ++ [xl]) σ hu t0
  have hi := ila_view c (x0 :: xs ++ [xl]) σ
  rw [hs] at hi
  generalize runState c σ (x0 :: xs ++ [xl]) = s1 at hq hi
  obtain ⟨ila1, u1⟩ := s1
  simp only at hi; subst hi
  obtain ⟨q1, q2⟩ := hq
  simp only at q1 q2
  have hP : (pend u1).length = 0 := by rw [pend_length, q1]
  have hL : (Uart.abs c.d u1.uart).length = 0 := by rw [abs_idle _ _ q2]; rfl
  refine ⟨⟨by simp, fun _ => by simp; omega, fun h => by rw [q2] at h; cases h⟩, ?_⟩
  have hw0 : c.w * c.ila.depth ≠ 0 := Nat.mul_ne_zero (by omega) (by omega)
  simp only [rankOf, rank, tsOf, hP, hL, readoutCycles, Nat.sub_zero, Nat.zero_add, hw0, if_false]
  rw [Nat.mul_assoc (10 * c.d)]
  cases σ.ila.dv <;> simp <;> omega


/-- **uart_readout_duration** (liveness, exact): a trigger seen while the wrapper is idle and the transmitter quiescent
(`x0`), the `depth` capture cycles `xs`, the hand-over cycle `xl` (the wrapper sees `complete`), then ANY continuation `ys`
that starts no new capture.  At the end of the history the wrapper is idle again and the transmitter quiescent **if and only
if** `ys` has at least `readoutCycles = 10·divisor·bytes_per_sample·depth + 3 - data_valid` cycles — for every depth ≥ 1,
divisor ≥ 1, byte width ≥ 1, pre-trigger count, waveform and trigger activity while the wrapper is busy (the UART exerts
no back-pressure beyond its own timing: there is no environment input that could stall the read-out). -/
theorem uart_readout_duration (c : Config) (hD : 1 ≤ c.ila.depth) (hd : 1 ≤ c.d) (hw : 1 ≤ c.w) (σ : State)
    (hσ : IlaStream.WIdle c.ila σ.ila) (hu : UartQuiet σ)
    (x0 : In) (ht : x0.trigger = true) (xs : List In) (hl : xs.length = c.ila.depth) (xl : In) (ys : List In)
    (hq : noRetrigger c (runState c σ (x0 :: xs ++ [xl])) ys) :
    ((runState c σ (x0 :: xs ++ xl :: ys)).ila.fsm = .idle ∧ UartQuiet (runState c σ (x0 :: xs ++ xl :: ys))) ↔
      readoutCycles c σ.ila.dv ≤ ys.length := by
  obtain ⟨hL, hr⟩ := handover_rank c hD hw σ hσ hu x0 ht xs hl xl
  obtain ⟨r1, r2⟩ := rank_run c hd hw ys _ hL hq
  have hsplit : x0 :: xs ++ xl :: ys = (x0 :: xs ++ [xl]) ++ ys := by simp
  rw [hsplit, runState_append, ← rank_zero_iff c hw _ r2, r1, hr]
  omega

theorem readoutCycles_le (c : Config) (dv : Bool) : readoutCycles c dv ≤ 10 * c.d * c.w * c.ila.depth + 3 := by
  simp only [readoutCycles]; omega

/-- **uart_readout_within** (the upper bound alone): `10·divisor·bytes_per_sample·depth + 3` cycles after the hand-over cycle
wrapper and transmitter are idle again -/
theorem uart_readout_within (c : Config) (hD : 1 ≤ c.ila.depth) (hd : 1 ≤ c.d) (hw : 1 ≤ c.w) (σ : State)
    (hσ : IlaStream.WIdle c.ila σ.ila) (hu : UartQuiet σ)
    (x0 : In) (ht : x0.trigger = true) (xs : List In) (hl : xs.length = c.ila.depth) (xl : In) (ys : List In)
    (hq : noRetrigger c (runState c σ (x0 :: xs ++ [xl])) ys)
    (hn : 10 * c.d * c.w * c.ila.depth + 3 ≤ ys.length) :
    (runState c σ (x0 :: xs ++ xl :: ys)).ila.fsm = .idle ∧ UartQuiet (runState c σ (x0 :: xs ++ xl :: ys)) :=
  (uart_readout_duration c hD hd hw σ hσ hu x0 ht xs hl xl ys hq).mpr
    (Nat.le_trans (readoutCycles_le c σ.ila.dv) hn)

/-- **uart_readout_total**: `uart_readout_complete` without any assumption on the end of the history.  Every history that
extends at least `10·divisor·bytes_per_sample·depth + 3` cycles past the hand-over cycle (and starts no new capture): the
`tx` waveform of the whole history consists of idle-high cycles and complete 8N1 frames, and the bytes of the frames are exactly
the little-endian bytes of all `depth` captured samples, in order, each once. -/
theorem uart_readout_total (c : Config) (hD : 1 ≤ c.ila.depth) (hd : 1 ≤ c.d) (hw : 1 ≤ c.w) (σ : State)
    (hσ : IlaStream.WIdle c.ila σ.ila) (hu : UartQuiet σ)
    (x0 : In) (ht : x0.trigger = true) (xs : List In) (hl : xs.length = c.ila.depth) (xl : In) (ys : List In)
    (hq : noRetrigger c (runState c σ (x0 :: xs ++ [xl])) ys)
    (hn : 10 * c.d * c.w * c.ila.depth + 3 ≤ ys.length) :
    ∃ segs, (run c σ (x0 :: xs ++ xl :: ys)).map (·.tx) = wave c.d segs ∧
      segBytes segs = (samples c σ x0 xs).flatMap (bytesLE c.w) := by
  obtain ⟨h1, h2⟩ := uart_readout_within c hD hd hw σ hσ hu x0 ht xs hl xl ys hq hn
  exact uart_readout_complete c hD hd hw σ hσ hu x0 ht xs hl xl ys hq h1 h2

/-- **uart_readout_total_decoded**: under the same hypotheses an independent 8N1 receiver listening to `tx` over the whole
history receives exactly the little-endian bytes of the `depth` captured samples, in order, each once. -/
theorem uart_readout_total_decoded (c : Config) (hD : 1 ≤ c.ila.depth) (hd : 1 ≤ c.d) (hw : 1 ≤ c.w) (σ : State)
    (hσ : IlaStream.WIdle c.ila σ.ila) (hu : UartQuiet σ)
    (x0 : In) (ht : x0.trigger = true) (xs : List In) (hl : xs.length = c.ila.depth) (xl : In) (ys : List In)
    (hq : noRetrigger c (runState c σ (x0 :: xs ++ [xl])) ys)
    (hn : 10 * c.d * c.w * c.ila.depth + 3 ≤ ys.length) :
    decode c.d ((run c σ (x0 :: xs ++ xl :: ys)).map (·.tx)) = (samples c σ x0 xs).flatMap (bytesLE c.w) := by
  obtain ⟨h1, h2⟩ := uart_readout_within c hD hd hw σ hσ hu x0 ht xs hl xl ys hq hn
  exact uart_readout_decoded c hD hd hw σ hσ hu x0 ht xs hl xl ys hq h1 h2

/-! ## Non-vacuity (the example of `Props/C56Uart.lean`: depth 2, divisor 1, 2 bytes per sample, first read-out after reset):
the read-out takes exactly `10·1·2·2 + 3 - 1 = 42` cycles after the hand-over cycle -/
example : readoutCycles exCfg (init exCfg).ila.dv = 42 := by decide
example : noRetrigger exCfg (runState exCfg (init exCfg) exHead) (exTail.take 43) := by decide +kernel
example : 10 * exCfg.d * exCfg.w * exCfg.ila.depth + 3 ≤ (exTail.take 43).length := by decide
example : ¬ UartQuiet (runState exCfg (init exCfg) (exHead ++ exTail.take 41)) := by decide +kernel
example : (runState exCfg (init exCfg) (exHead ++ exTail.take 42)).ila.fsm = .idle ∧
    UartQuiet (runState exCfg (init exCfg) (exHead ++ exTail.take 42)) := by decide +kernel

end LunaVerif.IlaUart
