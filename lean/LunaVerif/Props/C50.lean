import LunaVerif.Model.Periph.SpiDevice
namespace LunaVerif.SpiDevice
theorem stub_c50 : True := trivial
end LunaVerif.SpiDevice
