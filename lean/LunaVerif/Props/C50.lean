import LunaVerif.Model.Periph.SpiDevice
/-!
# C50 — The SPI device exchanges whole words for every word size

"While chip select is active, the device assembles every word_size consecutive sample edges into
one received word (in the configured bit order) and reports it once, for every word of the
transaction and for any word size; in modes where data changes on the leading edge it returns the
bits of the word presented for transmission, most significant bit first."

The specification is the machine `Spec` below, which is a function of the *pin history only*: it
remembers the previous serial-clock level (to know what an edge is), the bits sampled so far in the
current word, the word that was presented on `word_out` when the current word started, and the
number of output edges since then.  A word is emitted exactly when the `word_size`-th sample edge
of a word arrives while selected; deselecting discards the partial word.

The model is that of the REPAIRED gateware; `unrepaired_code_misframes` is a witness that the
code before the fix violates the statement (word size 3, second word of a transaction).
-/
namespace LunaVerif.SpiDevice

structure Spec where
  past    : Bool
  pending : List Bool     -- bits sampled in the current word, oldest first
  latched : List Bool     -- word presented for transmission when the current word started
  nOut    : Nat           -- output edges since then
deriving Repr

def specInit (c : Config) : Spec := ⟨false, [], zeros c.w, 0⟩

/-- Register image of `word_size` bits in arrival order (index 0 = bit 0): MSB first means the
first bit to arrive is the most significant one. -/
def encode (c : Config) (bits : List Bool) : List Bool := if c.msbFirst then bits.reverse else bits

def specStep (c : Config) (g : Spec) (i : In) : Spec × Option (List Bool) :=
  if selected c i then
    if sampleEdge c g.past i then
      if g.pending.length + 1 = c.w then
        (⟨serialClock c i, [], i.wordOut, 0⟩, some (encode c (g.pending ++ [i.sdi])))
      else
        ({ g with past := serialClock c i, pending := g.pending ++ [i.sdi] }, none)
    else
      ({ g with past := serialClock c i, nOut := if outputEdge c g.past i then g.nOut + 1 else g.nOut }, none)
  else
    (⟨serialClock c i, [], i.wordOut, 0⟩, none)

/-- The words the specification emits over a history. -/
def specRun (c : Config) : Spec → List In → List (List Bool)
  | _, [] => []
  | g, i :: is =>
    match (specStep c g i).2 with
    | some wd => wd :: specRun c (specStep c g i).1 is
    | none => specRun c (specStep c g i).1 is

def specAfter (c : Config) : Spec → List In → Spec
  | g, [] => g
  | g, i :: is => specAfter c (specStep c g i).1 is

def stateAfter (c : Config) : State → List In → State
  | s, [] => s
  | s, i :: is => stateAfter c (step c s i).1 is

/-- What the application sees: the values of `word_in` in the cycles where `word_complete` is high. -/
def reports : List Out → List (List Bool)
  | [] => []
  | o :: os => if o.wordComplete then o.wordIn :: reports os else reports os

/-! ## transmit shift register as a function of the number of shifts -/

def iter (f : List Bool → List Bool) : Nat → List Bool → List Bool
  | 0, l => l
  | n + 1, l => f (iter f n l)

theorem shiftTx_length (c : Config) (l : List Bool) : (shiftTx c l).length = l.length := by
  unfold shiftTx
  split
  · cases l with
    | nil => rfl
    | cons b t => simp [List.length_dropLast]
  · cases h : l.getLast? with
    | none => simp [List.getLast?_eq_none_iff] at h; simp [h]
    | some x =>
      cases l with
      | nil => simp at h
      | cons b t => simp

theorem iter_length (c : Config) (n : Nat) (l : List Bool) : (iter (shiftTx c) n l).length = l.length := by
  induction n with
  | zero => rfl
  | succ n ih => simp [iter, shiftTx_length, ih]

theorem shiftTx_msb_get (c : Config) (hm : c.msbFirst = true) (l : List Bool) (i : Nat) (hi : i < l.length) :
    (shiftTx c l)[i]? = l[i - 1]? := by
  unfold shiftTx
  simp only [hm, if_true]
  cases l with
  | nil => simp at hi
  | cons b t =>
    cases i with
    | zero => simp
    | succ k =>
      simp only [List.getElem?_cons_succ, Nat.add_sub_cancel]
      rw [List.dropLast_eq_take, List.getElem?_take]
      simp at hi ⊢
      omega

theorem shiftTx_lsb_get (c : Config) (hm : c.msbFirst = false) (l : List Bool) (i : Nat) (hi : i < l.length) :
    (shiftTx c l)[i]? = l[min (i + 1) (l.length - 1)]? := by
  unfold shiftTx
  simp only [hm]
  cases l with
  | nil => simp at hi
  | cons b t =>
    have hne : (b :: t) ≠ [] := by simp
    rw [List.getLast?_eq_some_getLast hne]
    simp only [Bool.false_eq_true, if_false, List.tail_cons]
    simp only [List.length_cons] at hi ⊢
    by_cases h : i < t.length
    · rw [List.getElem?_append_left h]
      have : min (i + 1) (t.length + 1 - 1) = i + 1 := by omega
      rw [this]; simp
    · have hi' : i = t.length := by omega
      subst hi'
      rw [List.getElem?_append_right (Nat.le_refl _)]
      have : min (t.length + 1) (t.length + 1 - 1) = t.length := by omega
      rw [this]
      simp [List.getLast_eq_getElem]

theorem iter_msb_get (c : Config) (hm : c.msbFirst = true) (l : List Bool) (n i : Nat) (hi : i < l.length) :
    (iter (shiftTx c) n l)[i]? = l[i - n]? := by
  induction n generalizing i with
  | zero => rfl
  | succ n ih =>
    simp only [iter]
    rw [shiftTx_msb_get c hm _ _ (by rw [iter_length]; exact hi)]
    rw [ih (i - 1) (by omega)]
    congr 1
    omega

theorem iter_lsb_get (c : Config) (hm : c.msbFirst = false) (l : List Bool) (n i : Nat) (hi : i < l.length) :
    (iter (shiftTx c) n l)[i]? = l[min (i + n) (l.length - 1)]? := by
  induction n generalizing i with
  | zero =>
    simp only [iter, Nat.add_zero]
    congr 1; omega
  | succ n ih =>
    simp only [iter]
    rw [shiftTx_lsb_get c hm _ _ (by rw [iter_length]; exact hi)]
    rw [iter_length]
    rw [ih _ (by omega)]
    congr 1
    omega

/-- The bit put on `sdo` by the `n`-th output edge after the word `l` was latched. -/
def sdoBit (c : Config) (l : List Bool) (n : Nat) : Option Bool :=
  if c.msbFirst then l[l.length - n]? else l[min (n - 1) (l.length - 1)]?

theorem shiftOutBit_iter (c : Config) (l : List Bool) (hl : 1 ≤ l.length) (n : Nat) (hn : 1 ≤ n) :
    some (shiftOutBit c (iter (shiftTx c) (n - 1) l)) = sdoBit c l n := by
  unfold shiftOutBit sdoBit
  cases hm : c.msbFirst
  · simp only [Bool.false_eq_true, if_false]
    have h0 := iter_lsb_get c hm l (n - 1) 0 (by omega)
    rw [Nat.zero_add] at h0
    rw [← h0]
    have hlen := iter_length c (n - 1) l
    cases hh : iter (shiftTx c) (n - 1) l with
    | nil => rw [hh] at hlen; simp at hlen; omega
    | cons a t => simp
  · simp only [if_true]
    have h0 := iter_msb_get c hm l (n - 1) (l.length - 1) (by omega)
    have : l.length - 1 - (n - 1) = l.length - n := by omega
    rw [this] at h0
    rw [← h0]
    have hlen := iter_length c (n - 1) l
    rw [List.getLast?_eq_getElem?, hlen]
    cases hh : (iter (shiftTx c) (n - 1) l)[l.length - 1]? with
    | none =>
      rw [List.getElem?_eq_none_iff] at hh
      omega
    | some x => simp

/-! ## the invariant tying the gateware model to the specification machine -/

structure Rel (c : Config) (g : Spec) (s : State) : Prop where
  past    : s.pastClk = g.past
  count   : s.bitCount = g.pending.length
  lt      : g.pending.length < c.w
  rxLen   : s.rx.length = c.w
  rxMsb   : c.msbFirst = true → s.rx.take g.pending.length = g.pending.reverse
  rxLsb   : c.msbFirst = false → s.rx.drop (c.w - g.pending.length) = g.pending
  latLen  : g.latched.length = c.w
  tx      : s.tx = iter (shiftTx c) g.nOut g.latched
  sdo     : 1 ≤ g.nOut → s.sdo = shiftOutBit c (iter (shiftTx c) (g.nOut - 1) g.latched)

theorem rel_init (c : Config) (hw : 1 ≤ c.w) : Rel c (specInit c) (init c) := by
  constructor <;> simp [specInit, init, zeros, iter] <;> omega

theorem edges_exclusive (c : Config) (p : Bool) (i : In) :
    sampleEdge c p i = true → outputEdge c p i = false := by
  unfold sampleEdge outputEdge leading trailing
  cases c.phase <;> cases p <;> cases serialClock c i <;> simp

theorem bc_wrap (w n : Nat) (h : n + 1 < w) : (n + 1) % 2 ^ bcWidth w = n + 1 := by
  apply Nat.mod_eq_of_lt
  unfold bcWidth
  have h1 : ¬ w ≤ 1 := by omega
  simp only [h1, if_false]
  have := @Nat.lt_log2_self (w - 1)
  omega

theorem shiftRx_length (c : Config) (rx : List Bool) (b : Bool) (h : 1 ≤ rx.length) :
    (shiftRx c rx b).length = rx.length := by
  unfold shiftRx
  split <;> simp <;> omega

theorem shiftRx_msb (c : Config) (hm : c.msbFirst = true) (rx p : List Bool) (b : Bool)
    (hlt : p.length < rx.length) (h : rx.take p.length = p.reverse) :
    (shiftRx c rx b).take (p.length + 1) = (p ++ [b]).reverse := by
  unfold shiftRx
  simp only [hm, if_true, List.take_succ_cons, List.reverse_append, List.reverse_cons, List.reverse_nil,
    List.nil_append, List.singleton_append]
  congr 1
  rw [List.dropLast_eq_take, List.take_take, ← h]
  congr 1
  omega

theorem shiftRx_lsb (c : Config) (hm : c.msbFirst = false) (rx p : List Bool) (b : Bool)
    (hlt : p.length < rx.length) (h : rx.drop (rx.length - p.length) = p) :
    (shiftRx c rx b).drop (rx.length - (p.length + 1)) = p ++ [b] := by
  unfold shiftRx
  simp only [hm, Bool.false_eq_true, if_false]
  rw [List.drop_append_of_le_length (by simp; omega)]
  congr 1
  have : (rx.tail).drop (rx.length - (p.length + 1)) = rx.drop (rx.length - p.length) := by
    rw [← List.drop_one, List.drop_drop]
    congr 1
    omega
  rw [this, h]

/-- One clock cycle preserves the invariant, and the two pipeline registers behind the shift
register behave as: `word_complete' = word_accepted`, `word_in' = rx` when accepted, and a word is
accepted exactly when the specification emits one, with `rx'` equal to that word. -/
theorem step_rel (c : Config) (g : Spec) (s : State) (i : In) (hout : i.wordOut.length = c.w)
    (r : Rel c g s) :
    Rel c (specStep c g i).1 (step c s i).1 ∧
    (step c s i).1.wordComplete = s.wordAccepted ∧
    (step c s i).1.wordIn = (if s.wordAccepted then s.rx else s.wordIn) ∧
    (step c s i).1.wordAccepted = (specStep c g i).2.isSome ∧
    (∀ wd, (specStep c g i).2 = some wd → (step c s i).1.rx = wd) := by
  obtain ⟨hpast, hcount, hlt, hrxLen, hrxMsb, hrxLsb, hlatLen, htx, hsdo⟩ := r
  unfold step stepGen specStep
  simp only [hpast, hcount]
  by_cases hsel : selected c i = true
  · simp only [hsel, if_true]
    by_cases hsmp : sampleEdge c g.past i = true
    · have hoe := edges_exclusive c g.past i hsmp
      simp only [hsmp, hoe, if_true, Bool.false_eq_true, if_false, Bool.true_and]
      by_cases hcomp : g.pending.length + 1 = c.w
      · have hb : (g.pending.length + 1 == c.w) = true := by simp [hcomp]
        simp only [hcomp, if_true]
        have hrx' : shiftRx c s.rx i.sdi = encode c (g.pending ++ [i.sdi]) := by
          unfold encode
          cases hm : c.msbFirst
          · have := shiftRx_lsb c hm s.rx g.pending i.sdi (by omega) (by rw [hrxLen]; exact hrxLsb hm)
            rw [hrxLen, ← hcomp] at this
            simpa using this
          · have := shiftRx_msb c hm s.rx g.pending i.sdi (by omega) (hrxMsb hm)
            rw [hcomp, ← hrxLen, ← shiftRx_length c s.rx i.sdi (by omega), List.take_length] at this
            simpa using this
        refine ⟨?_, by simp, by simp, by simp, ?_⟩
        · constructor <;> simp [iter, hout] <;> first | omega | (rw [shiftRx_length] <;> omega)
        · intro wd h; simp at h; rw [← h]; exact hrx'
      · have hb : (g.pending.length + 1 == c.w) = false := by simp [hcomp]
        simp only [hb, hcomp, if_false, Bool.false_eq_true]
        refine ⟨?_, by simp, by simp, by simp, ?_⟩
        · constructor
          · rfl
          · simp [bc_wrap c.w g.pending.length (by omega)]
          · simp; omega
          · simp; rw [shiftRx_length] <;> omega
          · intro hm
            have := shiftRx_msb c hm s.rx g.pending i.sdi (by omega) (hrxMsb hm)
            simpa using this
          · intro hm
            have := shiftRx_lsb c hm s.rx g.pending i.sdi (by omega) (by rw [hrxLen]; exact hrxLsb hm)
            rw [hrxLen] at this
            simpa using this
          · exact hlatLen
          · exact htx
          · exact hsdo
        · intro wd h; simp at h
    · simp only [hsmp, Bool.false_eq_true, if_false]
      by_cases hoe : outputEdge c g.past i = true
      · simp only [hoe, if_true]
        refine ⟨?_, by simp, by simp, by simp, ?_⟩
        · constructor
          · rfl
          · rfl
          · exact hlt
          · exact hrxLen
          · exact hrxMsb
          · exact hrxLsb
          · exact hlatLen
          · simp [iter, htx]
          · intro _; simp [htx]
        · intro wd h; simp at h
      · simp only [hoe, Bool.false_eq_true, if_false]
        refine ⟨?_, by simp, by simp, by simp, ?_⟩
        · exact ⟨rfl, rfl, hlt, hrxLen, hrxMsb, hrxLsb, hlatLen, htx, hsdo⟩
        · intro wd h; simp at h
  · simp only [hsel, Bool.false_eq_true, if_false]
    refine ⟨?_, by simp, by simp, by simp, ?_⟩
    · constructor <;> simp [iter, hout, hrxLen] <;> omega
    · intro wd h; simp at h

/-! ## the theorems -/

theorem step_wc (c : Config) (s : State) (i : In) : (step c s i).1.wordComplete = s.wordAccepted := by
  simp only [step, stepGen]
  split <;> (try split) <;> (try split) <;> rfl

theorem step_wi (c : Config) (s : State) (i : In) :
    (step c s i).1.wordIn = (if s.wordAccepted then s.rx else s.wordIn) := by
  simp only [step, stepGen]
  split <;> (try split) <;> (try split) <;> rfl

/-- Generalised form: from related states, the reports over `h` followed by two more cycles (the
depth of the `word_accepted → word_complete` pipeline) are the words still in the pipeline followed
by the words of the specification. -/
theorem reports_from (c : Config) (h : List In) (x y : In) :
    ∀ (g : Spec) (s : State), Rel c g s → (∀ i ∈ h, i.wordOut.length = c.w) →
    reports (run c s (h ++ [x, y])) =
      (if s.wordComplete then [s.wordIn] else []) ++ (if s.wordAccepted then [s.rx] else []) ++
      specRun c g h := by
  induction h with
  | nil =>
    intro g s _ _
    have ho : ∀ (s : State) (i : In), (step c s i).2 = outOf s := fun _ _ => rfl
    simp only [List.nil_append, run, reports, ho, outOf, specRun, List.append_nil, step_wc, step_wi]
    cases s.wordComplete <;> cases s.wordAccepted <;> simp
  | cons i is ih =>
    intro g s r hlen
    have hi : i.wordOut.length = c.w := hlen i (by simp)
    obtain ⟨r', hwc, hwi, hwa, hrx⟩ := step_rel c g s i hi r
    have ih' := ih (specStep c g i).1 (step c s i).1 r' (fun j hj => hlen j (by simp [hj]))
    simp only [List.cons_append, run, reports, specRun]
    have ho : (step c s i).2 = outOf s := rfl
    rw [ih', hwc, hwi, hwa, ho]
    simp only [outOf]
    cases hev : (specStep c g i).2 with
    | none => by_cases h1 : s.wordComplete = true <;> by_cases h2 : s.wordAccepted = true <;> simp [h1, h2]
    | some wd =>
      rw [hrx wd hev]
      by_cases h1 : s.wordComplete = true <;> by_cases h2 : s.wordAccepted = true <;> simp [h1, h2]

/-- **C50 (receive)** — for every word size ≥ 1, every clock polarity / phase, bit order and chip
select polarity, and EVERY pin history `h` from reset: the words reported by the device
(`word_in` in the cycles where `word_complete` is high; the two trailing cycles `x y` flush the
report pipeline) are exactly the words of the specification: every `word_size` consecutive sample
edges inside a chip-select window form one word, in order, each once, nothing else. -/
theorem every_word_reported_once (c : Config) (hw : 1 ≤ c.w) (h : List In) (x y : In)
    (hlen : ∀ i ∈ h, i.wordOut.length = c.w) :
    reports (run c (init c) (h ++ [x, y])) = specRun c (specInit c) h := by
  rw [reports_from c h x y (specInit c) (init c) (rel_init c hw) hlen]
  simp [init]

theorem rel_after (c : Config) (h : List In) :
    ∀ (g : Spec) (s : State), Rel c g s → (∀ i ∈ h, i.wordOut.length = c.w) →
    Rel c (specAfter c g h) (stateAfter c s h) := by
  induction h with
  | nil => intro g s r _; exact r
  | cons i is ih =>
    intro g s r hlen
    exact ih _ _ (step_rel c g s i (hlen i (by simp)) r).1 (fun j hj => hlen j (by simp [hj]))

/-- **C50 (transmit)** — after ANY pin history from reset, if `n ≥ 1` output edges have occurred
since the current word started (chip select asserted / previous word completed, when `word_out`
was latched as `latched`), the `sdo` register holds bit `word_size - n` of the latched word when
MSB first (bit `n - 1` when LSB first): the word is returned most significant bit first. -/
theorem sdo_msb_first (c : Config) (hw : 1 ≤ c.w) (h : List In)
    (hlen : ∀ i ∈ h, i.wordOut.length = c.w) :
    let g := specAfter c (specInit c) h
    let s := stateAfter c (init c) h
    1 ≤ g.nOut → some s.sdo = sdoBit c g.latched g.nOut := by
  intro g s hn
  have r := rel_after c h (specInit c) (init c) (rel_init c hw) hlen
  rw [r.sdo hn]
  exact shiftOutBit_iter c g.latched (by rw [r.latLen]; exact hw) g.nOut hn

/-- A transaction is *clean* when output edges and sample edges alternate starting with an output
edge, i.e. chip select was asserted while the serial clock idled.  (Phase-1 modes.) -/
def Clean (g : Spec) : Prop := g.nOut = g.pending.length + (if g.past then 1 else 0)

theorem clean_established (c : Config) (g : Spec) (i : In)
    (hsel : selected c i = false) (hidle : serialClock c i = false) : Clean (specStep c g i).1 := by
  simp [specStep, hsel, hidle, Clean]

theorem clean_preserved (c : Config) (hp : c.phase = true) (g : Spec) (i : In)
    (hsel : selected c i = true) (hc : Clean g) : Clean (specStep c g i).1 := by
  unfold Clean at *
  unfold specStep sampleEdge outputEdge leading trailing
  simp only [hsel, hp, if_true]
  cases hpast : g.past <;> cases hsc : serialClock c i <;> simp [hpast] at hc ⊢ <;>
    (try split) <;> simp_all <;> omega

/-- **C50 (transmit, what the controller samples)** — phase-1 modes, clean transaction: in the
cycle of the `k`-th sample edge of a word (`k` = bits already sampled, counted from 0) the `sdo`
output carries bit `word_size-1-k` of the presented word (MSB first; bit `k` when LSB first). -/
theorem sdo_bit_at_sample_edge (c : Config) (hw : 1 ≤ c.w) (hp : c.phase = true) (h : List In)
    (hlen : ∀ i ∈ h, i.wordOut.length = c.w) (i : In) :
    let g := specAfter c (specInit c) h
    let s := stateAfter c (init c) h
    Clean g → sampleEdge c g.past i = true →
    some (step c s i).2.sdo =
      (if c.msbFirst then g.latched[c.w - 1 - g.pending.length]? else g.latched[g.pending.length]?) := by
  intro g s hc hs
  have r : Rel c g s := rel_after c h (specInit c) (init c) (rel_init c hw) hlen
  have hsd : 1 ≤ g.nOut → some s.sdo = sdoBit c g.latched g.nOut := sdo_msb_first c hw h hlen
  clear_value g s
  have hpast : g.past = true := by
    unfold sampleEdge trailing at hs
    simp [hp] at hs
    exact hs.1
  unfold Clean at hc
  simp only [hpast, if_true] at hc
  show some s.sdo = _
  rw [hsd (by omega)]
  unfold sdoBit
  have hl := r.latLen
  have hlt := r.lt
  rw [hl, hc]
  cases c.msbFirst
  · simp only [Bool.false_eq_true, if_false]; congr 1; omega
  · simp only [if_true]; congr 1; omega

/-! ## the words are the consecutive `word_size`-bit chunks of the sampled stream -/

/-- Streaming chunker: `p` = bits of the unfinished chunk. -/
def chunkFrom (w : Nat) : List Bool → List Bool → List (List Bool)
  | _, [] => []
  | p, b :: bs => if p.length + 1 = w then (p ++ [b]) :: chunkFrom w [] bs else chunkFrom w (p ++ [b]) bs

/-- The bits sampled during a history in which chip select stays asserted. -/
def sampledBits (c : Config) : Bool → List In → List Bool
  | _, [] => []
  | p, i :: is =>
    if sampleEdge c p i then i.sdi :: sampledBits c (serialClock c i) is else sampledBits c (serialClock c i) is

theorem specRun_selected (c : Config) (h : List In) :
    ∀ (g : Spec), (∀ i ∈ h, selected c i = true) →
    specRun c g h = (chunkFrom c.w g.pending (sampledBits c g.past h)).map (encode c) := by
  induction h with
  | nil => intro g _; rfl
  | cons i is ih =>
    intro g hs
    have hsel := hs i (by simp)
    have ih' := fun g' => ih g' (fun j hj => hs j (by simp [hj]))
    simp only [specRun, sampledBits, specStep, hsel, if_true]
    by_cases hsmp : sampleEdge c g.past i = true
    · simp only [hsmp, if_true, chunkFrom]
      by_cases hcomp : g.pending.length + 1 = c.w
      · simp only [hcomp, if_true, List.map_cons]
        rw [ih']
      · simp only [hcomp, if_false]
        rw [ih']
    · simp only [hsmp, Bool.false_eq_true, if_false]
      rw [ih']


theorem chunkFrom_eq (w : Nat) (hw : 1 ≤ w) (bits : List Bool) :
    ∀ p : List Bool, p.length < w →
    chunkFrom w p bits =
      (List.range ((p.length + bits.length) / w)).map (fun k => ((p ++ bits).drop (k * w)).take w) := by
  induction bits with
  | nil =>
    intro p hp
    simp [chunkFrom, Nat.div_eq_of_lt hp]
  | cons b bs ih =>
    intro p hp
    simp only [chunkFrom]
    have happ : p ++ b :: bs = (p ++ [b]) ++ bs := by simp
    by_cases hc : p.length + 1 = w
    · simp only [hc, if_true]
      have hpb : (p ++ [b]).length = w := by simp; omega
      have hdiv : (p.length + (b :: bs).length) / w = bs.length / w + 1 := by
        simp only [List.length_cons]
        have : p.length + (bs.length + 1) = bs.length + w := by omega
        rw [this, Nat.add_div_right _ (by omega)]
      rw [hdiv, List.range_succ_eq_map, List.map_cons, List.map_map, happ]
      congr 1
      · simp only [Nat.zero_mul, List.drop_zero]
        rw [List.take_append_of_le_length (by omega), ← hpb, List.take_length]
      · rw [ih [] (by simp; omega)]
        simp only [List.length_nil, Nat.zero_add, List.nil_append]
        apply List.map_congr_left
        intro k _
        simp only [Function.comp]
        have : (k + 1) * w = (p ++ [b]).length + k * w := by rw [hpb, Nat.succ_mul]; omega
        rw [this, List.drop_append]
        rw [List.drop_eq_nil_of_le (Nat.le_add_right _ _), Nat.add_sub_cancel_left, List.nil_append]
    · simp only [hc, if_false]
      rw [ih (p ++ [b]) (by simp; omega), ← happ]
      have : (p ++ [b]).length + bs.length = p.length + (b :: bs).length := by simp; omega
      rw [this]

/-- **C50 (receive, chunk form)** — within one chip-select window that starts at a word boundary,
word `k` reported is made of bits `[k·w, (k+1)·w)` of the stream of bits sampled in that window
(`encode` puts them into the configured bit order); a trailing partial word is never reported. -/
theorem words_are_consecutive_chunks (c : Config) (hw : 1 ≤ c.w) (h : List In)
    (hsel : ∀ i ∈ h, selected c i = true) (past : Bool) (latched : List Bool) (n : Nat) :
    specRun c ⟨past, [], latched, n⟩ h =
      (List.range ((sampledBits c past h).length / c.w)).map
        (fun k => encode c (((sampledBits c past h).drop (k * c.w)).take c.w)) := by
  rw [specRun_selected c h _ hsel]
  simp only
  rw [chunkFrom_eq c.w hw _ [] (by simp; omega)]
  simp [List.map_map, Function.comp_def]

/-! ## concrete instances: non-vacuity, and the witness against the unrepaired code -/

/-- word size 3 (not a power of two), mode 0, MSB first -/
def cfg3 : Config := ⟨3, false, false, true, false⟩

/-- one clock pulse carrying bit `b`, chip select asserted -/
def pulse (b : Bool) : List In := [⟨false, b, true, [true, false, true]⟩, ⟨true, b, true, [true, false, true]⟩]
def idleIn : In := ⟨false, false, false, [false, false, false]⟩

/-- six bits 1,1,0, 0,1,0 in one transaction = words 6 and 2 -/
def hist6 : List In := pulse true ++ pulse true ++ pulse false ++ pulse false ++ pulse true ++ pulse false

example : specRun cfg3 (specInit cfg3) hist6 = [[false, true, true], [false, true, false]] := by decide +kernel
example : reports (run cfg3 (init cfg3) (hist6 ++ [idleIn, idleIn])) = [[false, true, true], [false, true, false]] := by
  decide +kernel
example : ∀ i ∈ hist6, i.wordOut.length = cfg3.w := by decide

/-- The code before the fix does NOT satisfy `every_word_reported_once`: with a 3-bit word the
counter is 2 bits wide and runs 0,1,2,3,0,… so the second word of a transaction is not reported
after 3 further sample edges. -/
theorem unrepaired_code_misframes :
    ∃ (c : Config) (h : List In) (x y : In), 1 ≤ c.w ∧ (∀ i ∈ h, i.wordOut.length = c.w) ∧
      reports (runBroken c (init c) (h ++ [x, y])) ≠ specRun c (specInit c) h :=
  ⟨cfg3, hist6, idleIn, idleIn, by decide, by decide, by decide +kernel⟩

/-- the transmit side on the same kind of stimulus, phase 1: the first output edge presents the MSB -/
example : (stateAfter ⟨3, false, true, true, false⟩ (init ⟨3, false, true, true, false⟩)
    [⟨false, false, false, [true, false, false]⟩, ⟨true, false, true, [false, false, false]⟩]).sdo = false := by
  decide +kernel
example : (stateAfter ⟨3, false, true, true, false⟩ (init ⟨3, false, true, true, false⟩)
    [⟨false, false, false, [false, false, true]⟩, ⟨true, false, true, [false, false, false]⟩]).sdo = true := by
  decide +kernel

end LunaVerif.SpiDevice
