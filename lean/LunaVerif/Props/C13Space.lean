import LunaVerif.Props.C13Handshake
/-!
# C13 — "cannot take a whole packet", arithmetically

`nak_iff_cannot_take` says NAK ⇔ a byte of the packet met a full FIFO.  Here: if, when the OUT token has
arrived, `space_available` is at least the length of the packet that follows, no byte meets a full FIFO —
whatever the consumer does meanwhile — and the packet is ACKed (`ack_when_space`).  With
`ping_ack_iff_space` (`space_available ≥ max_packet_size`) this is the promise of a PING ACK.
-/
namespace LunaVerif.StreamOutEndpoint
open LunaVerif

/-- entries held by the FIFO (committed, uncommitted and un-finalised), from `space_available` -/
def used (c : Config) (s : State) : Nat := c.depth - TxnFifo.space c.depth s.fifo

/-- With `read_commit = 1`, no write commit and no discard, the queue grows by at most the entry written. -/
theorem held_step_le {α : Type} (q : TxnFifo.Queue α) (d : Nat) (i : TxnFifo.In α)
    (hc : i.wcommit = false) (hd : i.wdiscard = false) (hrc : i.rcommit = true) (hrd : i.rdiscard = false) :
    (q.step d i).held ≤ q.held + (if (i.wen && !(q.held == d)) = true then 1 else 0) := by
  obtain ⟨R, C, W⟩ := q
  simp only [TxnFifo.Queue.step, TxnFifo.Queue.held]
  by_cases h1 : (i.ren && !C.isEmpty) = true <;>
  by_cases h2 : (i.wen && !(R.length + C.length + W.length == d)) = true <;>
    simp [h1, h2, hc, hd, hrc, hrd, List.length_take] <;> omega

/-- bytes of the running packet the host has sent so far -/
def Phase.seen : Phase → Nat
  | .idle => 0
  | .tok _ => 0
  | .rx _ _ sent now _ => sent.length + now.toList.length + 1
  | .finByte _ _ sent now _ => sent.length + now.toList.length
  | .finStrobe _ _ bytes _ _ => bytes.length
  | .finWait _ _ bytes => bytes.length

theorem seen_mono {c : Config} {p p' : Phase} {i : In} (hs : p.step c i = some p') (hn : i.tokNew = false) :
    p' = .idle ∨ p.seen ≤ p'.seen := by
  cases p with
  | idle =>
    obtain ⟨_, _, h3⟩ := step_idle_inv hs
    rcases h3 with ⟨h, _⟩ | ⟨_, rfl⟩
    · simp [hn] at h
    · left; rfl
  | tok t => right; simp [Phase.seen]
  | rx t pid sent now buf =>
    obtain ⟨_, _, h3⟩ := step_rx_inv hs
    right
    rcases h3 with ⟨_, _, _, rfl⟩ | ⟨_, _, _, rfl⟩ | ⟨_, _, _, rfl⟩ <;> simp [Phase.seen] <;> omega
  | finByte t pid sent now ok =>
    obtain ⟨_, _, _, rfl⟩ := step_finByte_inv hs
    right; simp [Phase.seen]
  | finStrobe t pid bytes ok responded =>
    obtain ⟨_, _, _, h3⟩ := step_finStrobe_inv hs
    rcases h3 with ⟨_, rfl⟩ | ⟨_, _, _, rfl⟩
    · left; rfl
    · right; simp [Phase.seen]
  | finWait t pid bytes =>
    obtain ⟨_, _, h3⟩ := step_finWait_inv hs
    rcases h3 with ⟨_, rfl⟩ | ⟨_, rfl⟩
    · left; rfl
    · right; simp [Phase.seen]

theorem run_idle_stays {c : Config} {mid : List In} {pk : Phase} (hn : ∀ j ∈ mid, j.tokNew = false)
    (h : Phase.run c .idle mid = some pk) : pk = .idle := by
  induction mid with
  | nil => simp only [Phase.run, Option.some.injEq] at h; exact h.symm
  | cons m ms ih =>
    simp only [Phase.run] at h
    cases hs : Phase.step c .idle m with
    | none => simp [hs] at h
    | some p1 =>
      simp only [hs] at h
      obtain ⟨_, _, h3⟩ := step_idle_inv hs
      rcases h3 with ⟨hnew, _⟩ | ⟨_, rfl⟩
      · simp [hn m (by simp)] at hnew
      · exact ih (fun j hj => hn j (by simp [hj])) h

theorem answered_seen {c : Config} {pk : Phase} {i : In} {pid : Nat} {bytes : List Nat}
    (ha : pk.answered c i = some (pid, bytes)) : pk.seen = bytes.length := by
  cases pk <;> simp only [Phase.answered] at ha
  case idle => exact absurd ha (by simp)
  case tok => exact absurd ha (by simp)
  case rx => exact absurd ha (by simp)
  all_goals
    split at ha
    · simp only [Option.some.injEq, Prod.mk.injEq] at ha
      simp [Phase.seen, ← ha.2]
    · exact absurd ha (by simp)

/-- what the host has sent so far never exceeds the length of the packet that is finally answered -/
theorem seen_le_answered {c : Config} {p pk : Phase} {mid : List In} {i : In} {pid : Nat} {bytes : List Nat}
    (hn : ∀ j ∈ mid, j.tokNew = false) (h : Phase.run c p mid = some pk)
    (ha : pk.answered c i = some (pid, bytes)) : p.seen ≤ bytes.length := by
  induction mid generalizing p with
  | nil =>
    simp only [Phase.run, Option.some.injEq] at h; subst h
    exact Nat.le_of_eq (answered_seen ha)
  | cons m ms ih =>
    simp only [Phase.run] at h
    cases hs : p.step c m with
    | none => simp [hs] at h
    | some p1 =>
      simp only [hs] at h
      have hn' : ∀ j ∈ ms, j.tokNew = false := fun j hj => hn j (by simp [hj])
      rcases seen_mono hs (hn m (by simp)) with rfl | hle
      · have := run_idle_stays hn' h
        subst this
        simp [Phase.answered] at ha
      · exact Nat.le_trans hle (ih hn' h)

theorem used_eq_held {c : Config} {s : State} {q : TxnFifo.Queue Nat} (h : TxnFifo.Rel c.depth s.fifo q) :
    used c s = q.held := by
  have := h.hlen
  simp only [used, TxnFifo.rel_space h]; omega

/-- while the detector raises no strobe, the FIFO grows by at most the byte written in this cycle -/
theorem used_step_le {c : Config} {p : Phase} {s : State} {w : WState} {del : List Entry} (i : In)
    (hsim : Sim c p s w del) (hco : s.det.out.completeOut = false) (hio : s.det.out.invalidOut = false) :
    used c (step c s i).1 ≤ used c s + (if (comb c s i).writeEn = true then 1 else 0) := by
  obtain ⟨q, hrel, _, _⟩ := hsim.fifo
  have hlegal := fifo_inputs_legal c s i (by simp [hco])
  have hrel' := TxnFifo.rel_step hrel hlegal
  have h1 : (step c s i).1.fifo = (TxnFifo.step c.depth s.fifo (fifoIn c s i)).1 := rfl
  rw [used_eq_held hrel, used_eq_held (c := c) (s := (step c s i).1) (by rw [h1]; exact hrel')]
  have hle := held_step_le q c.depth (fifoIn c s i) (by simp [fifoIn, comb, hco]) (by simp [fifoIn, comb, hco, hio])
    rfl rfl
  have hw : ((fifoIn c s i).wen && !(q.held == c.depth)) = (comb c s i).writeEn := by
    simp only [fifoIn, comb, TxnFifo.rel_full hrel]
    cases (q.held == c.depth) <;> simp
  rw [hw] at hle
  exact hle

/-- the occupancy bound that keeps the running packet from meeting a full FIFO -/
def HeldInv (c : Config) (H0 : Nat) (p : Phase) (s : State) : Prop :=
  match p with
  | .tok _ => used c s ≤ H0
  | .rx _ _ sent _ _ => used c s ≤ H0 + sent.length
  | .finByte _ _ sent _ _ => used c s ≤ H0 + sent.length
  | _ => True

theorem lost_imp {c : Config} {s : State} {i : In} (h : (comb c s i).dataIsLost = true) :
    s.det.out.next = true ∧ TxnFifo.full c.depth s.fifo = true ∧ (comb c s i).writeEn = false := by
  simp only [comb] at h ⊢
  grind

theorem writeEn_imp {c : Config} {s : State} {i : In} (h : (comb c s i).writeEn = true) :
    s.det.out.next = true := by
  simp only [comb] at h
  grind

theorem full_imp_used {c : Config} {p : Phase} {s : State} {w : WState} {del : List Entry}
    (hsim : Sim c p s w del) (h : TxnFifo.full c.depth s.fifo = true) : used c s = c.depth := by
  obtain ⟨q, hrel, _, _⟩ := hsim.fifo
  rw [used_eq_held hrel]
  rw [TxnFifo.rel_full hrel] at h
  simpa using h

/-- one cycle: with the packet's length (`N`) fitting into the space at the token (`H0` entries held), no byte
is lost and the occupancy bound is kept -/
theorem no_loss_step {c : Config} {H0 N : Nat} {p p1 : Phase} {s : State} {w : WState} {del : List Entry} {m : In}
    (hfit : H0 + N ≤ c.depth) (hsim : Sim c p s w del) (hh : HeldInv c H0 p s) (hs : p.step c m = some p1)
    (hn : m.tokNew = false) (hseen : p.seen ≤ N) :
    (comb c s m).dataIsLost = false ∧ HeldInv c H0 p1 (step c s m).1 := by
  have hview := hsim.det.view
  cases p with
  | idle =>
    obtain ⟨hnx, _, _⟩ := hview
    obtain ⟨_, _, h3⟩ := step_idle_inv hs
    refine ⟨?_, ?_⟩
    · cases hl : (comb c s m).dataIsLost
      · rfl
      · have := (lost_imp hl).1; simp [hnx] at this
    · rcases h3 with ⟨h, _⟩ | ⟨_, rfl⟩
      · simp [hn] at h
      · trivial
  | tok t =>
    obtain ⟨hnx, hco, hio⟩ := hview
    have hnw : (comb c s m).writeEn = false := by
      cases hw : (comb c s m).writeEn
      · rfl
      · have := writeEn_imp hw; simp [hnx] at this
    have hu := used_step_le m hsim hco hio
    simp only [hnw, Bool.false_eq_true, if_false, Nat.add_zero] at hu
    simp only [HeldInv] at hh
    obtain ⟨_, h3⟩ := step_tok_inv hs
    refine ⟨?_, ?_⟩
    · cases hl : (comb c s m).dataIsLost
      · rfl
      · have := (lost_imp hl).1; simp [hnx] at this
    · rcases h3 with ⟨h, _⟩ | ⟨_, _, _, _, _, rfl⟩ | ⟨_, _, _, _, rfl⟩ | ⟨_, _, _, _, rfl⟩
      · simp [hn] at h
      all_goals (simp only [HeldInv, List.length_nil]; omega)
  | rx t pid sent now buf =>
    obtain ⟨hco, hio, hvn⟩ := hview
    have hu := used_step_le m hsim hco hio
    simp only [HeldInv] at hh
    simp only [Phase.seen] at hseen
    obtain ⟨_, _, h3⟩ := step_rx_inv hs
    cases now with
    | none =>
      simp only at hvn
      have hnw : (comb c s m).writeEn = false := by
        cases hw : (comb c s m).writeEn
        · rfl
        · have := writeEn_imp hw; simp [hvn] at this
      simp only [hnw, Bool.false_eq_true, if_false, Nat.add_zero] at hu
      refine ⟨?_, ?_⟩
      · cases hl : (comb c s m).dataIsLost
        · rfl
        · have := (lost_imp hl).1; simp [hvn] at this
      · rcases h3 with ⟨_, _, _, rfl⟩ | ⟨_, _, _, rfl⟩ | ⟨_, _, _, rfl⟩ <;>
          (simp only [HeldInv, Option.toList, List.append_nil]; omega)
    | some x =>
      have hnl : (comb c s m).dataIsLost = false := by
        cases hl : (comb c s m).dataIsLost
        · rfl
        · have := full_imp_used hsim (lost_imp hl).2.1
          simp only [Option.toList, List.length_singleton] at hseen
          omega
      refine ⟨hnl, ?_⟩
      have hb : (if (comb c s m).writeEn = true then 1 else 0) ≤ 1 := by split <;> omega
      rcases h3 with ⟨_, _, _, rfl⟩ | ⟨_, _, _, rfl⟩ | ⟨_, _, _, rfl⟩ <;>
        (simp only [HeldInv, Option.toList, List.length_append, List.length_singleton]; omega)
  | finByte t pid sent now ok =>
    obtain ⟨hco, hio, hvn⟩ := hview
    simp only [HeldInv] at hh
    simp only [Phase.seen] at hseen
    obtain ⟨_, _, _, rfl⟩ := step_finByte_inv hs
    refine ⟨?_, trivial⟩
    cases now with
    | none =>
      simp only at hvn
      cases hl : (comb c s m).dataIsLost
      · rfl
      · have := (lost_imp hl).1; simp [hvn] at this
    | some x =>
      cases hl : (comb c s m).dataIsLost
      · rfl
      · have := full_imp_used hsim (lost_imp hl).2.1
        simp only [Option.toList, List.length_singleton] at hseen
        omega
  | finStrobe t pid bytes ok responded =>
    obtain ⟨hnx, _, _⟩ := hview
    obtain ⟨_, _, _, h3⟩ := step_finStrobe_inv hs
    refine ⟨?_, ?_⟩
    · cases hl : (comb c s m).dataIsLost
      · rfl
      · have := (lost_imp hl).1; simp [hnx] at this
    · rcases h3 with ⟨_, rfl⟩ | ⟨_, _, _, rfl⟩ <;> trivial
  | finWait t pid bytes =>
    obtain ⟨hnx, _, _⟩ := hview
    obtain ⟨_, _, h3⟩ := step_finWait_inv hs
    refine ⟨?_, ?_⟩
    · cases hl : (comb c s m).dataIsLost
      · rfl
      · have := (lost_imp hl).1; simp [hnx] at this
    · rcases h3 with ⟨_, rfl⟩ | ⟨_, rfl⟩ <;> trivial

theorem answered_tokNew {c : Config} {pk p' : Phase} {i : In} {x : Nat × List Nat}
    (hs : pk.step c i = some p') (ha : pk.answered c i = some x) : i.tokNew = false := by
  cases pk with
  | idle => simp [Phase.answered] at ha
  | tok t => simp [Phase.answered] at ha
  | rx t pid sent now buf => simp [Phase.answered] at ha
  | finByte t pid sent now ok => exact (stable_inv (step_finByte_inv hs).1).2.2.1
  | finStrobe t pid bytes ok responded => exact (stable_inv (step_finStrobe_inv hs).1).2.2.1
  | finWait t pid bytes => exact (stable_inv (step_finWait_inv hs).1).2.2.1

theorem no_loss_run {c : Config} (hmps : 1 ≤ c.mps) {H0 N : Nat} (hfit : H0 + N ≤ c.depth) {pk p' : Phase} {i : In}
    {pid : Nat} {bytes : List Nat} (h3 : pk.step c i = some p') (h4 : pk.answered c i = some (pid, bytes))
    (hN : bytes.length ≤ N) (mid : List In) :
    ∀ {p : Phase} {s : State} {w : WState} {del : List Entry}, Sim c p s w del → HeldInv c H0 p s →
      Phase.run c p mid = some pk → (∀ j ∈ mid, j.tokNew = false) → anyLost c s (mid ++ [i]) = false := by
  induction mid with
  | nil =>
    intro p s w del hsim hh hrun _
    simp only [Phase.run, Option.some.injEq] at hrun; subst hrun
    have hseen : p.seen ≤ N := by rw [answered_seen h4]; exact hN
    have := (no_loss_step hfit hsim hh h3 (answered_tokNew h3 h4) hseen).1
    simp [anyLost, this]
  | cons m ms ih =>
    intro p s w del hsim hh hrun hn
    have hseen : p.seen ≤ N := Nat.le_trans (seen_le_answered hn hrun h4) hN
    simp only [Phase.run] at hrun
    cases hs : p.step c m with
    | none => simp [hs] at hrun
    | some p1 =>
      simp only [hs] at hrun
      obtain ⟨hl, hh1⟩ := no_loss_step hfit hsim hh hs (hn m (by simp)) hseen
      have := ih (sim_step hmps hsim hs) hh1 hrun (fun j hj => hn j (by simp [hj]))
      simp only [List.cons_append, anyLost, hl, Bool.false_or]
      exact this

/-- **ack_when_space** (the arithmetic half of `nak_iff_cannot_take`; with `ping_ack_iff_space` the promise of
a PING ACK).  In the setting of `nak_iff_cannot_take`: if `space_available`, when the token has arrived, is at
least the length of the data packet that follows, then — whatever the consumer does meanwhile — no byte of
the packet meets a full FIFO and the response is ACK, not NAK. -/
theorem ack_when_space (c : Config) (hmps : 1 ≤ c.mps) (pre mid : List In) (i : In) (t : Tok) (pk p' : Phase)
    (pid : Nat) (bytes : List Nat)
    (h1 : Phase.run c .idle pre = some (.tok t)) (h2 : Phase.run c (.tok t) mid = some pk)
    (hnt : ∀ j ∈ mid, j.tokNew = false) (h3 : pk.step c i = some p')
    (h4 : pk.answered c i = some (pid, bytes))
    (hspace : bytes.length ≤ TxnFifo.space c.depth (runState c init pre).fifo) :
    let s0 := runState c init pre
    let s := runState c s0 mid
    anyLost c s0 (mid ++ [i]) = false ∧ (outOf c s i).ack = true ∧ (outOf c s i).nak = false := by
  intro s0 s
  obtain ⟨w0, _, hsim0, _⟩ := sim_after hmps h1
  obtain ⟨q, hrel, _, _⟩ := hsim0.fifo
  have hfit : used c s0 + bytes.length ≤ c.depth := by
    have h5 := TxnFifo.rel_space hrel
    have h6 := hrel.hlen
    have h7 := used_eq_held hrel
    have hsp : bytes.length ≤ c.depth - q.held := by rw [← h5]; exact hspace
    show used c (runState c init pre) + bytes.length ≤ c.depth
    omega
  have hnl : anyLost c s0 (mid ++ [i]) = false :=
    no_loss_run hmps hfit h3 h4 (Nat.le_refl _) mid hsim0 (by simp [HeldInv, s0]) h2 hnt
  obtain ⟨hnak, hack⟩ := nak_iff_cannot_take c hmps pre mid i t pk p' pid bytes h1 h2 hnt h3 h4
  refine ⟨hnl, ?_, ?_⟩
  · exact hack.mpr (by simp [s0, hnl])
  · cases hk : (outOf c s i).nak
    · rfl
    · have := (hnak.mp hk).2
      rw [hnl] at this; exact absurd this (by simp)

/-- the running transaction is addressed to the endpoint (its token names the endpoint, OUT) -/
def Phase.forUs (c : Config) : Phase → Bool
  | .idle => false
  | .tok t => t.targets c
  | .rx t _ _ _ _ => t.targets c
  | .finByte t _ _ _ _ => t.targets c
  | .finStrobe t _ _ _ _ => t.targets c
  | .finWait t _ _ => t.targets c

theorem answered_forUs {c : Config} {pk : Phase} {i : In} {x : Nat × List Nat}
    (ha : pk.answered c i = some x) : pk.forUs c = true := by
  cases pk <;> simp only [Phase.answered] at ha
  case idle => exact absurd ha (by simp)
  case tok => exact absurd ha (by simp)
  case rx => exact absurd ha (by simp)
  all_goals
    split at ha
    · rename_i h
      simp only [Bool.and_eq_true] at h
      exact h.2
    · exact absurd ha (by simp)

theorem seen_le_mps_step {c : Config} {p p' : Phase} {i : In} (hs : p.step c i = some p')
    (h : p.forUs c = true → p.seen ≤ c.mps) : p'.forUs c = true → p'.seen ≤ c.mps := by
  cases p with
  | idle =>
    obtain ⟨_, _, h3⟩ := step_idle_inv hs
    rcases h3 with ⟨_, _, rfl⟩ | ⟨_, rfl⟩ <;> simp [Phase.seen]
  | tok t =>
    obtain ⟨_, h3⟩ := step_tok_inv hs
    rcases h3 with ⟨_, _, _, rfl⟩ | ⟨_, _, _, _, hm, rfl⟩ | ⟨_, _, _, _, rfl⟩ | ⟨_, _, _, _, rfl⟩ <;>
      simp [Phase.seen, Phase.forUs]
    exact lenOk_inv hm
  | rx t pid sent now buf =>
    obtain ⟨_, _, h3⟩ := step_rx_inv hs
    simp only [Phase.seen, Phase.forUs] at h
    rcases h3 with ⟨_, _, hm, rfl⟩ | ⟨_, _, _, rfl⟩ | ⟨_, _, _, rfl⟩ <;> simp only [Phase.seen, Phase.forUs] <;>
      intro hT
    · have := lenOk_inv hm hT
      simp only [List.length_append, Option.toList]
      cases now <;> simp_all <;> omega
    · have := h hT
      cases now <;> simp_all
    · have := h hT
      cases now <;> simp_all <;> omega
  | finByte t pid sent now ok =>
    obtain ⟨_, _, _, rfl⟩ := step_finByte_inv hs
    simpa [Phase.seen, Phase.forUs] using h
  | finStrobe t pid bytes ok responded =>
    obtain ⟨_, _, _, h3⟩ := step_finStrobe_inv hs
    rcases h3 with ⟨_, rfl⟩ | ⟨_, _, _, rfl⟩ <;> simp [Phase.seen, Phase.forUs] <;> exact h
  | finWait t pid bytes =>
    obtain ⟨_, _, h3⟩ := step_finWait_inv hs
    rcases h3 with ⟨_, rfl⟩ | ⟨_, rfl⟩ <;> simp [Phase.seen, Phase.forUs] <;> exact h

/-- the packets of `LegalHost` transactions addressed to the endpoint are never longer than `max_packet_size`
(packets of other transactions may have any length) -/
theorem seen_le_mps {c : Config} {p pk : Phase} {ins : List In} (h : Phase.run c p ins = some pk)
    (hp : p.forUs c = true → p.seen ≤ c.mps) : pk.forUs c = true → pk.seen ≤ c.mps := by
  induction ins generalizing p with
  | nil => simp only [Phase.run, Option.some.injEq] at h; subst h; exact hp
  | cons m ms ih =>
    simp only [Phase.run] at h
    cases hs : p.step c m with
    | none => simp [hs] at h
    | some p1 => simp only [hs] at h; exact ih h (seen_le_mps_step hs hp)

/-- **ping_ack_promise**: if `space_available ≥ max_packet_size` when the OUT token has arrived (the condition
under which a PING is ACKed, `ping_ack_iff_space`), the data packet that follows is ACKed. -/
theorem ping_ack_promise (c : Config) (hmps : 1 ≤ c.mps) (pre mid : List In) (i : In) (t : Tok) (pk p' : Phase)
    (pid : Nat) (bytes : List Nat)
    (h1 : Phase.run c .idle pre = some (.tok t)) (h2 : Phase.run c (.tok t) mid = some pk)
    (hnt : ∀ j ∈ mid, j.tokNew = false) (h3 : pk.step c i = some p')
    (h4 : pk.answered c i = some (pid, bytes))
    (hspace : c.mps ≤ TxnFifo.space c.depth (runState c init pre).fifo) :
    (outOf c (runState c (runState c init pre) mid) i).ack = true ∧
    (outOf c (runState c (runState c init pre) mid) i).nak = false := by
  have hlen : bytes.length ≤ c.mps := by
    rw [← answered_seen h4]
    exact seen_le_mps h2 (by simp [Phase.seen]) (answered_forUs h4)
  exact (ack_when_space c hmps pre mid i t pk p' pid bytes h1 h2 hnt h3 h4 (Nat.le_trans hlen hspace)).2

/-! ### Non-vacuity: a 4-byte packet into an empty 7-entry FIFO with a stalled consumer -/
example :
    let c : Config := ⟨2, 4, 7⟩
    let idl := idleIn 2 0 false
    let pre := [idl, { idl with tokNew := true }]
    let mid := [idl] ++ [11, 12, 13, 14].map (fun b => { idl with rx := ⟨true, true, b, false, false⟩ }) ++
      [{ idl with rx := ⟨true, false, 0, false, false⟩ }, { idl with rx := ⟨false, false, 0, true, false⟩ }]
    let i := { idl with rxReady := true }
    Phase.run c .idle pre = some (.tok ⟨2, true, false⟩) ∧
    Phase.run c (.tok ⟨2, true, false⟩) mid = some (.finByte ⟨2, true, false⟩ 0 [11, 12, 13] (some 14) true) ∧
    mid.all (fun j => !j.tokNew) = true ∧
    (Phase.finByte ⟨2, true, false⟩ 0 [11, 12, 13] (some 14) true).step c i
      = some (.finStrobe ⟨2, true, false⟩ 0 [11, 12, 13, 14] true true) ∧
    (Phase.finByte ⟨2, true, false⟩ 0 [11, 12, 13] (some 14) true).answered c i = some (0, [11, 12, 13, 14]) ∧
    c.mps ≤ TxnFifo.space c.depth (runState c init pre).fifo := by decide +kernel

end LunaVerif.StreamOutEndpoint
