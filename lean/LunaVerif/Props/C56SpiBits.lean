import LunaVerif.Props.C56Spi
import LunaVerif.Props.C50
/-!
# C56 — `SyncSerialILA`: the bit-level statement about `sdo`

`spi_readout_words` (which word is loaded into the SPI transmit register for word `k` of a chip-select window) merged
with C50's serialisation argument (`SpiDevice.iter` / `shiftOutBit_iter` / `sdoBit`, the argument behind
`sdo_msb_first`) into one statement about the `sdo` pin: at any point of a chip-select window, if `K` words have been
completed in the window and `n ≥ 1` output edges have occurred since the last word boundary, `sdo` carries bit
`bits_per_word - n` of recorded sample `K` — the samples go out in order, most significant bit first.
-/
namespace LunaVerif.IlaSpi
open LunaVerif.Ila

/-- transmit register and `sdo` after one cycle with chip select asserted -/
theorem spi_step_tx (c : SpiDevice.Config) (s : SpiDevice.State) (i : SpiDevice.In)
    (hsel : SpiDevice.selected c i = true) :
    (SpiDevice.step c s i).1.tx =
      (if SpiDevice.outputEdge c s.pastClk i then SpiDevice.shiftTx c s.tx
       else if completing c s i then i.wordOut else s.tx) ∧
    (SpiDevice.step c s i).1.sdo =
      (if SpiDevice.outputEdge c s.pastClk i then SpiDevice.shiftOutBit c s.tx else s.sdo) := by
  have hex := edges_excl c s.pastClk i
  unfold completing
  cases hs : SpiDevice.sampleEdge c s.pastClk i <;> cases ho : SpiDevice.outputEdge c s.pastClk i <;>
    cases hc : (s.bitCount + 1 == c.w) <;>
    simp [SpiDevice.step, SpiDevice.stepGen, hsel, hs, ho, hc] <;> simp_all

/-- position in the read-out: (words completed in the window, output edges since the last word boundary) -/
def track (c : Config) : Nat × Nat → State → List In → Nat × Nat
  | p, _, [] => p
  | p, s, x :: xs =>
    track c (if completing c.spi s.spi (spiIn c s x) then (p.1 + 1, 0)
             else if SpiDevice.outputEdge c.spi s.spi.pastClk (spiIn c s x) then (p.1, p.2 + 1) else p)
      (step c s x).1 xs

/-- the transmit register is sample `K` shifted `n` times; `sdo` is the bit shifted out last -/
structure BitInv (c : Config) (M : List Nat) (K n : Nat) (s : State) : Prop where
  tx  : s.spi.tx = SpiDevice.iter (SpiDevice.shiftTx c.spi) n (sampleWord c M K)
  sdo : 1 ≤ n → s.spi.sdo =
    SpiDevice.shiftOutBit c.spi (SpiDevice.iter (SpiDevice.shiftTx c.spi) (n - 1) (sampleWord c M K))

theorem bits_run (c : Config) (hw : 4 ≤ c.spi.w) (hcs : c.spi.csIdlesHigh = false) (M : List Nat) (xs : List In) :
    ∀ (K j n : Nat) (s : State), WinInv c M K j s → BitInv c M K n s → InWindow xs →
      ∃ j', WinInv c M (track c (K, n) s xs).1 j' (runState c s xs) ∧
        BitInv c M (track c (K, n) s xs).1 (track c (K, n) s xs).2 (runState c s xs) := by
  induction xs with
  | nil => intro K j n s h hb _; exact ⟨j, by simpa [track, runState] using h, by simpa [track, runState] using hb⟩
  | cons x xs ih =>
    intro K j n s h hb hin
    have hx := hin x (by simp)
    have hrest : InWindow xs := fun y hy => hin y (by simp [hy])
    obtain ⟨hT, hF⟩ := win_step c hw hcs M K j s h x hx.1 hx.2
    have hselS : SpiDevice.selected c.spi (spiIn c s x) = true := by simp [SpiDevice.selected, spiIn, hcs, hx.1]
    obtain ⟨t1, t2⟩ := spi_step_tx c.spi s.spi (spiIn c s x) hselS
    obtain ⟨_, p2, _⟩ := step_proj c s x
    rw [← p2] at t1 t2
    simp only [track, runState]
    cases hc : completing c.spi s.spi (spiIn c s x)
    · -- inside a word
      have hinv := hF hc
      cases ho : SpiDevice.outputEdge c.spi s.spi.pastClk (spiIn c s x)
      · simp only [hc, ho, Bool.false_eq_true, if_false] at t1 t2 ⊢
        exact ih K (j + 1) n _ hinv ⟨by rw [t1]; exact hb.tx, fun h1 => by rw [t2]; exact hb.sdo h1⟩ hrest
      · simp only [ho, if_true, Bool.false_eq_true, if_false] at t1 t2 ⊢
        refine ih K (j + 1) (n + 1) _ hinv ⟨?_, fun _ => ?_⟩ hrest
        · rw [t1, hb.tx]; rfl
        · rw [t2, hb.tx]; rfl
    · -- word boundary: the next sample is loaded
      obtain ⟨_, htx, hinv⟩ := hT hc
      simp only [if_true]
      exact ih (K + 1) 0 0 _ hinv ⟨by rw [htx]; rfl, fun h1 => absurd h1 (by omega)⟩ hrest

theorem sampleWord_length (c : Config) (M : List Nat) (q : Nat) : (sampleWord c M q).length = c.spi.w := by
  unfold sampleWord
  generalize memRead M (q % wd c) = v
  generalize c.spi.w = w
  induction w generalizing v with
  | zero => rfl
  | succ w ih => simp [SpiDevice.natToBits, ih]

/-- **spi_readout_bits**: under the hypotheses of `spi_readout_words` (trigger seen by the idle analyzer, `depth` capture
cycles, chip select low and no trigger for at least four cycles, then a chip-select window `ws` without a trigger and with
any SPI clock activity), at ANY point of the window: let `K` be the number of words completed in the window so far and
`n` the number of output edges since the last word boundary (`track`).  If `n ≥ 1`, the `sdo` pin (in the following cycle
`y`, whatever its inputs) carries bit `bits_per_word - n` of recorded sample `K` (`sampleWord c S K`, `= S[K]` for
`K < depth`: `sampleWord_lt`; index 0 = least significant bit): the recorded samples leave in order, each most
significant bit first. -/
theorem spi_readout_bits (c : Config) (hw : 4 ≤ c.spi.w) (hcs : c.spi.csIdlesHigh = false) (hm : c.spi.msbFirst = true)
    (hd : 1 ≤ c.ila.depth)
    (σ : State) (hσ : IdleState c.ila σ.core) (x0 : In) (ht : x0.trigger = true) (xs : List In)
    (hl : xs.length = c.ila.depth) (gs : List In) (hgs : AtRest gs) (g1 g2 g3 g4 : In)
    (hg : AtRest [g1, g2, g3, g4]) (ws : List In) (hws : InWindow ws) (y : In) :
    let s0 := runState c σ (x0 :: xs ++ gs ++ [g1, g2, g3, g4])
    let S := ((σ.core.dl ++ (x0 :: xs).map (·.inputs)).drop 1).take c.ila.depth
    let p := track c (0, 0) s0 ws
    1 ≤ p.2 → some (step c (runState c s0 ws) y).2.sdo = (sampleWord c S p.1)[c.spi.w - p.2]? := by
  intro s0 S p hn
  have hc := core_run c (x0 :: xs) σ
  obtain ⟨hi, hlen⟩ := coreHist_inputs c (x0 :: xs) σ
  have hcap := captures_depth_consecutive_samples c.ila hd σ.core hσ ⟨x0.trigger, x0.inputs, σ.rdaddr⟩ ht
    (coreHist c (step c σ x0).1 xs) (by simpa [coreHist, hl] using hlen)
  obtain ⟨k1, k2, k3, k4, _⟩ := hcap
  have hh : coreHist c σ (x0 :: xs) = ⟨x0.trigger, x0.inputs, σ.rdaddr⟩ :: coreHist c (step c σ x0).1 xs := rfl
  rw [← hh, ← hc] at k1 k2 k3 k4
  rw [hi] at k4
  obtain ⟨r1, r2, r3, r4⟩ := rest_run c hcs _ gs (runState c σ (x0 :: xs)) k1 k2 k4 hgs
  obtain ⟨w1, w2, w3⟩ := window_start c hcs _ (runState c (runState c σ (x0 :: xs)) gs) r1 r2 r3 g1 g2 g3 g4 hg
  have happ : s0 = runState c (runState c (runState c σ (x0 :: xs)) gs) [g1, g2, g3, g4] := by
    simp only [s0]; rw [runState_append, runState_append]
  rw [← happ] at w1 w2
  obtain ⟨j', _, hb⟩ := bits_run c hw hcs S ws 0 0 0 s0 w1 ⟨by rw [w2]; rfl, fun h => absurd h (by omega)⟩ hws
  have hout : (step c (runState c s0 ws) y).2.sdo = (runState c s0 ws).spi.sdo := by
    simp [step, (spi_step_out c.spi (runState c s0 ws).spi (spiIn c (runState c s0 ws) y)).2]
  rw [hout, hb.sdo hn, SpiDevice.shiftOutBit_iter c.spi _ (by rw [sampleWord_length]; omega) p.2 hn]
  simp only [SpiDevice.sdoBit, hm, if_true, sampleWord_length]
  rfl

/-! ## Non-vacuity (the configuration of `Props/C56Spi.lean`: depth 2, 4-bit words, samples 5 = 0101b and 6 = 0110b):
after the first output edge `sdo` carries bit 3 of sample 0; after 4 bits and 2 more output edges bit 2 of sample 1 -/
example : track cfgX (0, 0) (runState cfgX (init cfgX) (capX ++ [restX, restX, restX, restX])) (bitX.take 1) = (0, 1) := by
  decide
example : track cfgX (0, 0) (runState cfgX (init cfgX) (capX ++ [restX, restX, restX, restX]))
    (bitX ++ bitX ++ bitX ++ bitX ++ bitX ++ bitX.take 1) = (1, 2) := by decide
example : (step cfgX (runState cfgX (runState cfgX (init cfgX) (capX ++ [restX, restX, restX, restX]))
    (bitX ++ bitX ++ bitX ++ bitX ++ bitX ++ bitX.take 1)) restX).2.sdo = true ∧
    (SpiDevice.natToBits 4 6)[4 - 2]? = some true := by decide

end LunaVerif.IlaSpi
