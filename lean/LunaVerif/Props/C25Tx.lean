import LunaVerif.Lemmas.C25Tx12
import LunaVerif.Lemmas.C25TxIo
/-!
# C25 (transmit direction) — the cycle-level TxPipeline emits `encode bytes` and accepts every byte once

"Each byte sequence handed to the gateware PHY for transmission appears on D+/D- as SYNC, the NRZI-encoded and
bit-stuffed bytes (LSB first, a stuffed 0 after six 1s) and an SE0-SE0-J end of packet, and is accepted byte-by-byte
exactly once."

The model is `FsTx.step phase` (Model/Phy/FsTx.lean): the registers of `TxShifter`, `TxBitstuffer`, the `TxPipeline`
controller (12 MHz `usb` domain), the two 3-stage synchronizers, `TxNRZIEncoder` and the bit-strobe counter (48 MHz
`usb_io` domain), one step per `usb_io` cycle -- the same function the co-simulation compares with the real
`GatewarePHY` / `TxPipeline` cycle by cycle, for all four phases between the `usb` clock and the bit-strobe counter.

Environment (explicit, decidable hypotheses): the UTMI producer `Prod` keeps `tx_valid` and the byte until `tx_ready`,
then offers the next byte, and drops `tx_valid` after the last `tx_ready`; `tx_data` is arbitrary while it offers
nothing; the transmit path is `Quiescent` when the packet starts (true `phase + 1` cycles after reset and again five bit
times after the last data bit of every packet -- `reset_quiescent`, `tx_pipeline_emits_encode`, `idle_stays_quiescent`,
which together cover any number of packets with arbitrary gaps of at least that length).

Proof structure: `Lemmas/C25Tx12` (12 MHz part: invariants over SYNC and data phase, induction over the bits),
`Lemmas/C25TxIo` (48 MHz part: one lemma per `usb` cycle for each phase, induction over the `usb` cycles, staggering of
the per-cycle encoder states into the `usb_io` output stream), and here the decoupling of the two clock domains
(`loopIo_split`) and the theorems of the property.
-/
set_option linter.unusedSimpArgs false
namespace LunaVerif.FsTx
open LunaVerif.FsCodec

def Out.line (o : Out) : Line := if o.oe then .d o.dP o.dN else .z

structure RIo where
  outs : List Out        -- one per `usb_io` cycle (four per `usb` cycle)
  acc  : List Nat        -- `tx_data` at the `usb` edges with `tx_ready`
  st   : St
  prod : Prod

/-- The whole transmit path (`FsTx.step`, the function the co-simulation runs against the gateware) in closed loop
with the producer: one `usb` cycle = four `usb_io` cycles with the producer's outputs held; the producer sees
`tx_ready` at the `usb` edge, i.e. in the last of the four. -/
def loopIo (φ : Nat) : St → Prod → List Nat → RIo
  | s, p, [] => ⟨[], [], s, p⟩
  | s, p, g :: gs =>
    let i : In := ⟨p.valid, p.data g⟩
    let r1 := step φ s i
    let r2 := step φ r1.1 i
    let r3 := step φ r2.1 i
    let r4 := step φ r3.1 i
    let r := loopIo φ r4.1 (p.next r4.2.ready) gs
    ⟨r1.2 :: r2.2 :: r3.2 :: r4.2 :: r.outs, (if r4.2.ready then [i.data] else []) ++ r.acc, r.st, r.prod⟩

theorem usb_cycle (φ : Nat) (hφ : φ < 4) (s : St) (i : In) (hc : s.io.counter = (φ + 1) % 4) :
    (step φ (step φ (step φ (step φ s i).1 i).1 i).1 i).1 =
      ⟨s.tx.next i.valid i.data, (ioRun s.io (List.replicate 4 (s.tx.fitOe, s.tx.fitDat))).2⟩ ∧
    [(step φ s i).2.line, (step φ (step φ s i).1 i).2.line, (step φ (step φ (step φ s i).1 i).1 i).2.line,
      (step φ (step φ (step φ (step φ s i).1 i).1 i).1 i).2.line] =
      (ioRun s.io (List.replicate 4 (s.tx.fitOe, s.tx.fitDat))).1 ∧
    (step φ (step φ (step φ (step φ s i).1 i).1 i).1 i).2.ready = s.tx.ready i.valid ∧
    (step φ (step φ (step φ (step φ s i).1 i).1 i).1 i).1.io.counter = (φ + 1) % 4 := by
  have : φ = 0 ∨ φ = 1 ∨ φ = 2 ∨ φ = 3 := by omega
  rcases this with h | h | h | h <;> subst h <;>
    simp [step, St.next, St.out, Out.line, Io.line, ioRun, Io.next, hc, List.replicate]

theorem held_cons (x : Bool × Bool) (xs : List (Bool × Bool)) : held (x :: xs) = List.replicate 4 x ++ held xs := by
  simp [held, List.replicate]

/-- **the two clock domains decouple**: the closed loop over the whole path is the 12 MHz loop, whose
(`fit_oe`, `fit_dat`) stream, each value held four `usb_io` cycles, drives the 48 MHz part. -/
theorem loopIo_split (φ : Nat) (hφ : φ < 4) (gs : List Nat) : ∀ (s : St) (p : Prod), s.io.counter = (φ + 1) % 4 →
    (loopIo φ s p gs).outs.map Out.line = (ioRun s.io (held ((loop12 s.tx p gs).outs.map O12.fit))).1 ∧
    (loopIo φ s p gs).acc = accepted (loop12 s.tx p gs).outs ∧
    (loopIo φ s p gs).st = ⟨(loop12 s.tx p gs).st, (ioRun s.io (held ((loop12 s.tx p gs).outs.map O12.fit))).2⟩ ∧
    (loopIo φ s p gs).prod = (loop12 s.tx p gs).prod := by
  induction gs with
  | nil => intro s p _; simp [loopIo, loop12, held, ioRun, accepted]
  | cons g gs ih =>
    intro s p hc
    obtain ⟨u1, u2, u3, u4⟩ := usb_cycle φ hφ s ⟨p.valid, p.data g⟩ hc
    have := ih _ (p.next (s.tx.ready p.valid)) u4
    rw [u1] at this
    obtain ⟨i1, i2, i3, i4⟩ := this
    simp only [loopIo, loop12_cons_outs, loop12_cons_st, loop12_cons_prod, List.map_cons, O12.fit, held_cons,
      ioRun_append, u3, u1]
    refine ⟨?_, ?_, ?_, ?_⟩
    · rw [← u2, i1]; simp [O12.fit]
    · rw [i2]; cases hr : s.tx.ready p.valid <;> simp [accepted, hr]
    · rw [i3]
    · rw [i4]

/-- nothing is being sent anywhere in the transmit path: the 12 MHz controller idle, the synchronizers flushed, the
encoder in IDLE with its output flops not driving; `usb` cycle boundary (counter = phase + 1) -/
def Quiescent (φ : Nat) (s : St) : Prop :=
  Quiet12 s.tx ∧ Shape φ xI s.io ∧ s.io.nrzi = .idle ∧ s.io.line = .z

theorem idle12 (gs : List Nat) : ∀ (s : Tx12), Quiet12 s →
    (loop12 s ⟨[]⟩ gs).outs.map O12.fit = List.replicate gs.length xI ∧ accepted (loop12 s ⟨[]⟩ gs).outs = [] ∧
    Quiet12 (loop12 s ⟨[]⟩ gs).st ∧ (loop12 s ⟨[]⟩ gs).prod.rest = [] := by
  induction gs with
  | nil => intro s h; simp [loop12, accepted, h]
  | cons g gs ih =>
    intro s h
    obtain ⟨q1, q2, q3⟩ := quiet_out s h
    have hv : Prod.valid ⟨[]⟩ = false := rfl
    have hn : Prod.next ⟨[]⟩ false = ⟨[]⟩ := rfl
    obtain ⟨i1, i2, i3, i4⟩ := ih _ (quiet_idle s h (Prod.data ⟨[]⟩ g))
    simp only [loop12_cons_outs, loop12_cons_st, loop12_cons_prod, hv, q3, hn]
    refine ⟨?_, ?_, i3, i4⟩
    · simp [O12.fit, q1, q2, i1, xI, List.replicate_succ]
    · unfold accepted at i2 ⊢; simp [i2]

/-! ## The theorems of the property -/

/-- what `encode bytes` looks like on the pins: every symbol driven for four `usb_io` cycles (one bit time) -/
def waveform (bytes : List Nat) : List Line := (encode bytes).flatMap (fun x => List.replicate 4 (Sym.line x))

theorem nrzi_length (bs : List Bool) : ∀ l, (nrzi l bs).length = bs.length := by
  induction bs with
  | nil => intro l; rfl
  | cons b bs ih => intro l; simp [nrzi, ih]

theorem encode_length (bytes : List Nat) : (encode bytes).length = 11 + (stuff 1 (bitsOf bytes)).length := by
  simp [encode, nrzi_length, syncBits]; omega

theorem waveform_eq (bytes : List Nat) :
    waveform bytes = wave ([false, false, false, false, false, false, true] ++ stuff 1 (bitsOf bytes)) := by
  simp only [waveform, wave, encode, syncBits, List.cons_append, List.nil_append]

theorem loop12_append_outs (s : Tx12) (p : Prod) (g1 g2 : List Nat) : (loop12 s p (g1 ++ g2)).outs =
    (loop12 s p g1).outs ++ (loop12 (loop12 s p g1).st (loop12 s p g1).prod g2).outs := by rw [loop12_append]
theorem loop12_append_st (s : Tx12) (p : Prod) (g1 g2 : List Nat) : (loop12 s p (g1 ++ g2)).st =
    (loop12 (loop12 s p g1).st (loop12 s p g1).prod g2).st := by rw [loop12_append]
theorem loop12_append_prod (s : Tx12) (p : Prod) (g1 g2 : List Nat) : (loop12 s p (g1 ++ g2)).prod =
    (loop12 (loop12 s p g1).st (loop12 s p g1).prod g2).prod := by rw [loop12_append]

theorem prod_eta (p : Prod) (h : p.rest = []) : p = ⟨[]⟩ := by cases p; simp_all

/-- both theorems at once (they share the decomposition) -/
theorem tx_packet (φ : Nat) (hφ : φ < 4) (bytes : List Nat) (hne : bytes ≠ []) (hb : ∀ b ∈ bytes, b < 256)
    (s : St) (hq : Quiescent φ s) (gs : List Nat) (hlen : gs.length = (encode bytes).length + 3) :
    (loopIo φ s ⟨bytes⟩ gs).outs.map Out.line =
      List.replicate (lat φ) Line.z ++ waveform bytes ++ List.replicate (tailZ φ) Line.z ∧
    (loopIo φ s ⟨bytes⟩ gs).acc = bytes ∧
    Quiescent φ (loopIo φ s ⟨bytes⟩ gs).st ∧ (loopIo φ s ⟨bytes⟩ gs).prod.rest = [] := by
  obtain ⟨hq1, hq2, hq3, hq4⟩ := hq
  rw [encode_length] at hlen
  obtain ⟨gsP, gsT, rfl, hP, hT⟩ : ∃ gsP gsT, gs = gsP ++ gsT ∧ gsP.length = cycles12 bytes ∧ gsT.length = 5 :=
    ⟨gs.take (cycles12 bytes), gs.drop (cycles12 bytes), by simp, by simp [cycles12]; omega, by simp [cycles12]; omega⟩
  obtain ⟨l1, l2, l3, l4⟩ := loopIo_split φ hφ (gsP ++ gsT) s ⟨bytes⟩ hq2.1
  obtain ⟨p1, p2, p3, p4⟩ := packet12 bytes hne hb s.tx hq1 gsP hP
  have p4' := prod_eta _ p4
  obtain ⟨t1, t2, t3, t4⟩ := idle12 gsT _ p3
  simp only [loop12_append_outs, loop12_append_st, loop12_append_prod, p4'] at l1 l2 l3 l4
  have hfit : ((loop12 s.tx ⟨bytes⟩ gsP).outs ++ (loop12 (loop12 s.tx ⟨bytes⟩ gsP).st ⟨[]⟩ gsT).outs).map O12.fit
      = fitStream ([false, false, false, false, false, false, true] ++ stuff 1 (bitsOf bytes)) := by
    rw [List.map_append, p1, t1, hT]
    simp [fitStream, syncBits, xI]
  rw [hfit] at l1 l3
  obtain ⟨w1, w2, w3, w4⟩ := io_packet φ hφ ([false, false, false, false, false, false, true] ++ stuff 1 (bitsOf bytes)) s.io hq2 hq3 hq4
  have hacc : accepted ((loop12 s.tx ⟨bytes⟩ gsP).outs ++ (loop12 (loop12 s.tx ⟨bytes⟩ gsP).st ⟨[]⟩ gsT).outs)
      = bytes := by
    unfold accepted at p2 t2 ⊢
    rw [List.filterMap_append, p2, t2]; simp
  generalize ioRun s.io (held (fitStream ([false, false, false, false, false, false, true] ++ stuff 1 (bitsOf bytes))))
    = R at l1 l3 w1 w2 w3 w4
  generalize loop12 (loop12 s.tx ⟨bytes⟩ gsP).st ⟨[]⟩ gsT = T at l3 l4 t3 t4
  refine ⟨?_, ?_, ?_, ?_⟩
  · rw [l1, w1, waveform_eq]
  · rw [l2, hacc]
  · rw [l3]; exact ⟨t3, w2, w3, w4⟩
  · rw [l4]; exact t4

/-- **C25, transmit direction.**  For every clock phase, every non-empty byte list and a producer that keeps
`tx_valid` (and the byte) until `tx_ready` and drops it after the last one: started with the transmit path quiescent,
the D+/D- pins are undriven for `lat φ` `usb_io` cycles, then carry exactly `encode bytes` -- SYNC, the bytes LSB first
with a 0 stuffed after six 1s (the 1 ending SYNC counted), NRZI, SE0 SE0 J -- every symbol for one bit time (four
`usb_io` cycles), then are undriven again; three `usb` cycles after the end of the EOP (i.e. `tx_valid` low for five bit
times after the last data bit) the path is quiescent again, so that the statement applies to the next packet. -/
theorem tx_pipeline_emits_encode (φ : Nat) (hφ : φ < 4) (bytes : List Nat) (hne : bytes ≠ [])
    (hb : ∀ b ∈ bytes, b < 256) (s : St) (hq : Quiescent φ s) (gs : List Nat)
    (hlen : gs.length = (encode bytes).length + 3) :
    (loopIo φ s ⟨bytes⟩ gs).outs.map Out.line =
      List.replicate (lat φ) Line.z ++ waveform bytes ++ List.replicate (tailZ φ) Line.z ∧
    Quiescent φ (loopIo φ s ⟨bytes⟩ gs).st ∧ (loopIo φ s ⟨bytes⟩ gs).prod.rest = [] := by
  obtain ⟨h1, _, h3, h4⟩ := tx_packet φ hφ bytes hne hb s hq gs hlen
  exact ⟨h1, h3, h4⟩

/-- **every byte is accepted exactly once**: the `tx_data` values at the `usb` edges with `tx_ready`, over the whole
packet (SYNC, data, EOP, idle tail), are exactly the bytes offered, in order. -/
theorem each_byte_accepted_once (φ : Nat) (hφ : φ < 4) (bytes : List Nat) (hne : bytes ≠ [])
    (hb : ∀ b ∈ bytes, b < 256) (s : St) (hq : Quiescent φ s) (gs : List Nat)
    (hlen : gs.length = (encode bytes).length + 3) :
    (loopIo φ s ⟨bytes⟩ gs).acc = bytes :=
  (tx_packet φ hφ bytes hne hb s hq gs hlen).2.1

/-- `tx_ready` is never raised while `tx_valid` is low (whatever the state) -/
theorem no_ready_without_valid (φ : Nat) (s : St) (d : Nat) : (step φ s ⟨false, d⟩).2.ready = false := by
  simp [step, St.out, Tx12.ready]

/-! ## Idle, reset, several packets -/

theorem io_idle (φ : Nat) (hφ : φ < 4) (n : Nat) : ∀ io : Io, Shape φ xI io → io.nrzi = .idle → io.line = .z →
    (ioRun io (held (List.replicate n xI))).1 = List.replicate (4 * n) Line.z ∧
    Shape φ xI (ioRun io (held (List.replicate n xI))).2 ∧
    (ioRun io (held (List.replicate n xI))).2.nrzi = .idle ∧ (ioRun io (held (List.replicate n xI))).2.line = .z := by
  induction n with
  | zero => intro io h1 h2 h3; simp [held, ioRun, h1, h2, h3]
  | succ n ih =>
    intro io h1 h2 h3
    obtain ⟨b1, b2, b3, b4⟩ := block φ hφ xI xI io h1
    have hs : sample φ xI xI = xI := by simp [sample]
    have hi : Nrzi.idle.next true xI.1 xI.2 = .idle := rfl
    rw [hs, h2, hi] at b1 b3 b4
    have hfb : fsmBlock φ .idle .idle = List.replicate 4 .idle := by
      have : φ = 0 ∨ φ = 1 ∨ φ = 2 ∨ φ = 3 := by omega
      rcases this with h | h | h | h <;> subst h <;> simp [fsmBlock, List.replicate]
    have hfl : fsmLast φ .idle .idle = .idle := by simp [fsmLast]
    rw [hfb, h3] at b1
    rw [hfl] at b4
    obtain ⟨i1, i2, i3, i4⟩ := ih _ b2 b3 b4
    have hh : held (List.replicate (n + 1) xI) = [xI, xI, xI, xI] ++ held (List.replicate n xI) := by
      simp [held, List.replicate_succ]
    rw [hh, ioRun_append]
    refine ⟨?_, i2, i3, i4⟩
    simp only [b1, i1]
    rw [show 4 * (n + 1) = 4 + 4 * n by omega, rep_add]
    rfl

/-- **idle**: while `tx_valid` stays low a quiescent transmit path never drives D+/D-, never raises `tx_ready`, and
stays quiescent -- for any number of `usb` cycles and whatever is on `tx_data`. -/
theorem idle_stays_quiescent (φ : Nat) (hφ : φ < 4) (s : St) (hq : Quiescent φ s) (gs : List Nat) :
    (loopIo φ s ⟨[]⟩ gs).outs.map Out.line = List.replicate (4 * gs.length) Line.z ∧
    (loopIo φ s ⟨[]⟩ gs).acc = [] ∧ Quiescent φ (loopIo φ s ⟨[]⟩ gs).st ∧ (loopIo φ s ⟨[]⟩ gs).prod.rest = [] := by
  obtain ⟨hq1, hq2, hq3, hq4⟩ := hq
  obtain ⟨l1, l2, l3, l4⟩ := loopIo_split φ hφ gs s ⟨[]⟩ hq2.1
  obtain ⟨t1, t2, t3, t4⟩ := idle12 gs s.tx hq1
  rw [t1] at l1 l3
  obtain ⟨w1, w2, w3, w4⟩ := io_idle φ hφ gs.length s.io hq2 hq3 hq4
  generalize ioRun s.io (held (List.replicate gs.length xI)) = R at l1 l3 w1 w2 w3 w4
  generalize loop12 s.tx ⟨[]⟩ gs = T at l2 l3 l4 t2 t3 t4
  exact ⟨by rw [l1, w1], by rw [l2, t2], by rw [l3]; exact ⟨t3, w2, w3, w4⟩, by rw [l4, t4]⟩

/-- `usb_io` cycles with `tx_valid` low -/
def idleSteps (φ : Nat) : St → List Nat → St
  | s, [] => s
  | s, d :: ds => idleSteps φ (step φ s ⟨false, d⟩).1 ds

/-- **reset**: `phase + 1` `usb_io` cycles after reset (i.e. at the first `usb` cycle boundary) the path is quiescent,
provided `tx_valid` was low until then. -/
theorem reset_quiescent (φ : Nat) (hφ : φ < 4) (ds : List Nat) (hd : ds.length = φ + 1) :
    Quiescent φ (idleSteps φ {} ds) := by
  have : φ = 0 ∨ φ = 1 ∨ φ = 2 ∨ φ = 3 := by omega
  rcases this with h | h | h | h <;> subst h
  · match ds, hd with
    | [d0], _ =>
      refine ⟨⟨?_, ?_, ?_⟩, ?_, ?_, ?_⟩ <;>
        simp [idleSteps, step, St.next, Io.next, Tx12.next, Tx12.nextFsm, Tx12.nextSync, Tx12.nextGray, Shape, xI,
          Tx12.fitDat, Tx12.fitOe, Tx12.stateData, Tx12.stateSync, Tx12.spBit, Tx12.shData, Tx12.stall, Io.line,
          Nrzi.next, Nrzi.oe]
  · match ds, hd with
    | [d0, d1], _ =>
      refine ⟨⟨?_, ?_, ?_⟩, ?_, ?_, ?_⟩ <;>
        simp [idleSteps, step, St.next, Io.next, Tx12.next, Tx12.nextFsm, Tx12.nextSync, Tx12.nextGray, Shape, xI,
          Tx12.fitDat, Tx12.fitOe, Tx12.stateData, Tx12.stateSync, Tx12.spBit, Tx12.shData, Tx12.stall, Io.line,
          Nrzi.next, Nrzi.oe]
  · match ds, hd with
    | [d0, d1, d2], _ =>
      refine ⟨⟨?_, ?_, ?_⟩, ?_, ?_, ?_⟩ <;>
        simp [idleSteps, step, St.next, Io.next, Tx12.next, Tx12.nextFsm, Tx12.nextSync, Tx12.nextGray, Shape, xI,
          Tx12.fitDat, Tx12.fitOe, Tx12.stateData, Tx12.stateSync, Tx12.spBit, Tx12.shData, Tx12.stall, Io.line,
          Nrzi.next, Nrzi.oe]
  · match ds, hd with
    | [d0, d1, d2, d3], _ =>
      refine ⟨⟨?_, ?_, ?_⟩, ?_, ?_, ?_⟩ <;>
        simp [idleSteps, step, St.next, Io.next, Tx12.next, Tx12.nextFsm, Tx12.nextSync, Tx12.nextGray, Shape, xI,
          Tx12.fitDat, Tx12.fitOe, Tx12.stateData, Tx12.stateSync, Tx12.spBit, Tx12.shData, Tx12.stall, Io.line,
          Nrzi.next, Nrzi.oe]

/-- a transmission job: the bytes, the idle `tx_data` values of the packet's `usb` cycles, and those of the gap after it -/
structure Job where
  bytes : List Nat
  during : List Nat
  gap : List Nat

def Job.ok (j : Job) : Prop :=
  j.bytes ≠ [] ∧ (∀ b ∈ j.bytes, b < 256) ∧ j.during.length = (encode j.bytes).length + 3

/-- packet after packet: the producer offers the bytes of a job, waits `gap` further `usb` cycles, offers the next -/
def jobsLoop (φ : Nat) : St → List Job → List Line × List (List Nat) × St
  | s, [] => ([], [], s)
  | s, j :: js =>
    let r1 := loopIo φ s ⟨j.bytes⟩ j.during
    let r2 := loopIo φ r1.st ⟨[]⟩ j.gap
    let r := jobsLoop φ r2.st js
    (r1.outs.map Out.line ++ r2.outs.map Out.line ++ r.1, (r1.acc ++ r2.acc) :: r.2.1, r.2.2)

/-- **any number of packets**: every packet appears as `encode` of its bytes, its bytes -- and nothing else -- are
accepted, and between the packets the pins are not driven. -/
theorem tx_packets (φ : Nat) (hφ : φ < 4) (js : List Job) : ∀ (s : St), Quiescent φ s → (∀ j ∈ js, j.ok) →
    (jobsLoop φ s js).1 = js.flatMap (fun j => List.replicate (lat φ) Line.z ++ waveform j.bytes ++
      List.replicate (tailZ φ) Line.z ++ List.replicate (4 * j.gap.length) Line.z) ∧
    (jobsLoop φ s js).2.1 = js.map Job.bytes ∧ Quiescent φ (jobsLoop φ s js).2.2 := by
  induction js with
  | nil => intro s hq _; exact ⟨rfl, rfl, hq⟩
  | cons j js ih =>
    intro s hq hj
    obtain ⟨h1, h2, h3⟩ := hj j (by simp)
    obtain ⟨p1, p2, p3, _⟩ := tx_packet φ hφ j.bytes h1 h2 s hq j.during h3
    obtain ⟨g1, g2, g3, _⟩ := idle_stays_quiescent φ hφ _ p3 j.gap
    obtain ⟨i1, i2, i3⟩ := ih _ g3 (fun x hx => hj x (by simp [hx]))
    simp only [jobsLoop, List.flatMap_cons, List.map_cons]
    exact ⟨by rw [p1, g1, i1], by rw [p2, g2, i2]; simp, i3⟩

/-! ### non-vacuity: the hypotheses are satisfiable and the statement says what it should on a concrete packet -/

example : Quiescent 0 (idleSteps 0 {} [0x55]) := reset_quiescent 0 (by decide) [0x55] rfl
example : ([0xA5] : List Nat) ≠ [] ∧ (∀ b ∈ ([0xA5] : List Nat), b < 256) ∧
    (List.replicate 22 (0x3C : Nat)).length = (encode [0xA5]).length + 3 := by decide
/-- the model run itself (no theorem involved): reset, one `usb_io` cycle, then the packet [0xA5] -/
example : ((loopIo 0 (idleSteps 0 {} [0x55]) ⟨[0xA5]⟩ (List.replicate 22 0x3C)).outs.map Out.line) =
    List.replicate 9 Line.z ++ waveform [0xA5] ++ List.replicate 3 Line.z := by decide +kernel
example : (loopIo 0 (idleSteps 0 {} [0x55]) ⟨[0xA5]⟩ (List.replicate 22 0x3C)).acc = [0xA5] := by decide +kernel
/-- a packet whose last bit is the sixth 1 (STUFF_LAST_BIT), phase 2 -/
example : ((loopIo 2 (idleSteps 2 {} [1, 2, 3]) ⟨[0xFC]⟩ (List.replicate 23 0xFF)).outs.map Out.line) =
    List.replicate (lat 2) Line.z ++ waveform [0xFC] ++ List.replicate (tailZ 2) Line.z := by decide +kernel

example : Job.ok ⟨[0xC3, 0xFF, 0x00], List.replicate 39 0, [1, 2, 3]⟩ := by
  refine ⟨by decide, by decide, by decide⟩

end LunaVerif.FsTx
