import LunaVerif.Lemmas.C25RxCdcDriftPacket
/-!
# C25 (receive direction, end to end, under CLOCK DRIFT) — bytes, framing and error as the 12 MHz side sees them

`rx_delivers_to_usb` / `stuff_error_seen_by_usb` (`Props/C25RxUsb.lean`, `Props/C25RxUsbErr.lean`) generalised from "four
samples per bit" to the drift + skew envelope of `Props/C25RxDrift.lean` (`DriftOk`: 3, 4 or 5 samples per bit cell, two
cells of length ≠ 4 at least 8 cells apart; `SkewOk`).  Same model `FsRxCdc.step φ` (co-simulated against the `usb`-domain
outputs of the real `RxPipeline`): the receive chain `FsRx.step` unchanged, and the two `AsyncFIFOBuffered` modelled
register by register exactly as in the nominal-rate theorems (`FsRxCdc.Fifo`; that model of Amaranth's FIFO is the
abstraction both sets of theorems rest on).

Under drift the bit strobes are 3, 4 or 5 `usb_io` cycles apart and the `usb` edge moves through the bit time, so the
per-bit-time latency analysis of `fifo_stream` does not apply.  Instead: a write into an empty, settled FIFO followed by
16 cycles without a write is shown to the `usb` side exactly once, at the 4th `usb`-edge cycle strictly after the write
cycle, and leaves the FIFO empty and settled (`fifo_write17`, all pointer values × 4 × 4 clock positions with tagged data,
lifted by `runFifo_mapData`); payload writes are ≥ 8 strobes ≥ 24 cycles apart whatever the data (`pays_spaced7_any`), so
each FIFO holds at most one entry at any time and delivers every write once, in order (`fifo_vstream`); the start flag is
followed by ≥ 7 quiet strobes; the only two writes ever in flight together are the last byte and the end flag, and the
byte is seen no later than the flag because the position of the ready sample is monotone in the write cycle
(`seg_last`).  The timeline is cut into segments at whose ends both FIFOs are empty and settled (`Seg`, `seg_append`).
-/
set_option linter.unusedSimpArgs false
namespace LunaVerif.FsRxCdc
open LunaVerif.FsRx LunaVerif.FsCodec

/-! ### block lists -/

/-- total number of cycles of a block list -/
def lsum : List (Nat × (Bool × Bool)) → Nat
  | [] => 0
  | (n, _) :: l => n + lsum l

theorem lsum_append (x y : List (Nat × (Bool × Bool))) : lsum (x ++ y) = lsum x + lsum y := by
  induction x with
  | nil => simp [lsum]
  | cons a x ih => obtain ⟨n, b⟩ := a; simp only [List.cons_append, lsum, ih]; omega

theorem lsum_ge (l : List (Nat × (Bool × Bool))) (hl : ∀ p ∈ l, 3 ≤ p.1) : 3 * l.length ≤ lsum l := by
  induction l with
  | nil => simp [lsum]
  | cons a r ih =>
    obtain ⟨n, w⟩ := a
    have hn : 3 ≤ n := hl (n, w) (by simp)
    have := ih (fun x hx => hl x (by simp [hx]))
    simp only [lsum, List.length_cons]; omega

theorem lenSum_blkP (l : List (Nat × (Bool × Bool))) : ∀ a, lenSum (blkP a l) = lsum l := by
  induction l with
  | nil => intro a; rfl
  | cons x l ih => intro a; obtain ⟨n, b⟩ := x; simp only [blkP, lenSum, lsum, ih]

theorem lenSum_blkF (l : List (Nat × (Bool × Bool))) : ∀ a, lenSum (blkF a l) = lsum l := by
  induction l with
  | nil => intro a; rfl
  | cons x l ih => intro a; obtain ⟨n, b⟩ := x; simp only [blkF, lenSum, lsum, ih]

theorem blkP_lens (l : List (Nat × (Bool × Bool))) (hl : ∀ p ∈ l, 3 ≤ p.1) : ∀ a, ∀ x ∈ blkP a l, 3 ≤ x.1 := by
  induction l with
  | nil => intro a x hx; simp [blkP] at hx
  | cons p l ih =>
    intro a x hx
    obtain ⟨n, b⟩ := p
    simp only [blkP, List.mem_cons] at hx
    rcases hx with rfl | hx
    · exact hl (n, b) (by simp)
    · exact ih (fun p hp => hl p (by simp [hp])) _ x hx

theorem blkF_lens (l : List (Nat × (Bool × Bool))) (hl : ∀ p ∈ l, 3 ≤ p.1) : ∀ a, ∀ x ∈ blkF a l, 3 ≤ x.1 := by
  induction l with
  | nil => intro a x hx; simp [blkF] at hx
  | cons p l ih =>
    intro a x hx
    obtain ⟨n, b⟩ := p
    simp only [blkF, List.mem_cons] at hx
    rcases hx with rfl | hx
    · exact hl (n, b) (by simp)
    · exact ih (fun p hp => hl p (by simp [hp])) _ x hx

/-- blocks without a payload write -/
theorem flatP_quiet (l : List (Nat × (Bool × Bool))) (hl : ∀ p ∈ l, 3 ≤ p.1) (a : BB) (n : Nat)
    (h : bitPays a (l.map (·.2)) = List.replicate n none) : flatV 2 (blkP a l) = List.replicate (lsum l) none := by
  rw [flatV_quiet 2 _ (blkP_lens l hl a) (all_none_of_map _ n (by rw [blkP_snd, h])), lenSum_blkP]

/-- blocks without a flags write -/
theorem flatF_quiet (l : List (Nat × (Bool × Bool))) (hl : ∀ p ∈ l, 3 ≤ p.1) (a : BB) (n : Nat)
    (h : bitFlgs a (l.map (·.2)) = List.replicate n none) : flatV 0 (blkF a l) = List.replicate (lsum l) none := by
  rw [flatV_quiet 0 _ (blkF_lens l hl a) (all_none_of_map _ n (by rw [blkF_snd, h])), lenSum_blkF]

theorem bitSEsD_append (x y : List (Nat × (Bool × Bool))) : ∀ a,
    bitSEsD a (x ++ y) = bitSEsD a x ++ bitSEsD (bitRun a (x.map (·.2))) y := by
  induction x with
  | nil => intro a; rfl
  | cons p x ih => intro a; obtain ⟨n, b⟩ := p; simp only [List.cons_append, bitSEsD, List.map, bitRun, ih, List.append_assoc]

theorem bitSEsD_length (l : List (Nat × (Bool × Bool))) (hl : ∀ p ∈ l, 3 ≤ p.1) : ∀ a, (bitSEsD a l).length = lsum l := by
  induction l with
  | nil => intro a; rfl
  | cons p l ih =>
    intro a
    obtain ⟨n, b⟩ := p
    have hn : 3 ≤ n := hl (n, b) (by simp)
    simp only [bitSEsD, List.length_append, ih (fun p hp => hl p (by simp [hp])), lsum, bitSEn, List.length_cons,
      List.length_nil, List.length_replicate]
    omega

/-- no error, no start flag at nominal rate ⇒ none under drift -/
theorem bitSEsD_clean (l : List (Nat × (Bool × Bool))) (hl : ∀ p ∈ l, 3 ≤ p.1) : ∀ a,
    (∀ p ∈ bitSEs a (l.map (·.2)), p = (false, false)) →
    (bitSEsD a l).map (·.2) = List.replicate (lsum l) false := by
  intro a h
  apply List.eq_replicate_iff.mpr
  refine ⟨by simp [bitSEsD_length l hl a], ?_⟩
  intro x hx
  obtain ⟨p, hp, rfl⟩ := List.mem_map.mp hx
  suffices hh : ∀ (l : List (Nat × (Bool × Bool))) a, (∀ p ∈ l, 3 ≤ p.1) → ∀ p ∈ bitSEsD a l, p ∈ bitSEs a (l.map (·.2)) by
    rw [h p (hh l a hl p hp)]
  intro l
  induction l with
  | nil => intro a _ p hp; simp [bitSEsD] at hp
  | cons q l ih =>
    intro a hl p hp
    obtain ⟨n, b⟩ := q
    simp only [bitSEsD, List.mem_append] at hp
    simp only [List.map, bitSEs, List.mem_append]
    rcases hp with hp | hp
    · left
      simp only [bitSEn, List.mem_append, List.mem_cons, List.mem_replicate, List.not_mem_nil, or_false] at hp
      simp only [bitSE, List.mem_cons, List.not_mem_nil, or_false]
      rcases hp with (hp | hp) | hp
      · exact Or.inl hp
      · exact Or.inr (Or.inl hp)
      · exact Or.inr (Or.inr (Or.inl hp.2))
    · right; exact ih _ (fun p hp => hl p (by simp [hp])) p hp

/-! ### bit-level facts -/

theorem sync7 : ∀ (c : Fin 7) (e : Bool),
    bitRun ⟨0, c.val, srInit, e⟩ (List.replicate 7 (false, false)) = ⟨5, 0, srInit, e⟩ ∧
    bitPays ⟨0, c.val, srInit, e⟩ (List.replicate 7 (false, false)) = List.replicate 7 none ∧
    bitFlgs ⟨0, c.val, srInit, e⟩ (List.replicate 7 (false, false)) = List.replicate 7 none := by
  decide

theorem sync8 (e : Bool) :
    bitStep ⟨5, 0, srInit, e⟩ (true, false) = ⟨6, 1, srInit, false⟩ ∧
    bitPay ⟨5, 0, srInit, e⟩ (true, false) = none ∧ bitFlg ⟨5, 0, srInit, e⟩ (true, false) = some 2 := by
  cases e <;> decide

theorem bitEvs_pays (bits : List Bool) : ∀ (n : Nat) (sr : List Bool) (e : Bool),
    bitEvs ⟨6, n, sr, e⟩ (fbits bits) = (writesOf (bitPays ⟨6, n, sr, e⟩ (fbits bits))).map Ev.byte := by
  induction bits with
  | nil => intro n sr e; rfl
  | cons b bs ih =>
    intro n sr e
    have hs : bitStep ⟨6, n, sr, e⟩ (b, false) =
        ⟨6, bsStep n b, (bitStep ⟨6, n, sr, e⟩ (b, false)).sr, (bitStep ⟨6, n, sr, e⟩ (b, false)).err⟩ := by
      simp [bitStep, detStep]
    simp only [fbits, List.map, bitEvs, bitPays]
    rw [hs]
    have := ih (bsStep n b) (bitStep ⟨6, n, sr, e⟩ (b, false)).sr (bitStep ⟨6, n, sr, e⟩ (b, false)).err
    simp only [fbits] at this
    rw [this]
    simp only [bitEv, bitPay, show ((6 : Nat) == 5) = false from rfl, Bool.false_and, Bool.not_false,
      Bool.and_false, Bool.false_eq_true, if_false, List.nil_append]
    split <;> rfl

theorem evbyte_inj (xs : List Nat) : ∀ ys : List Nat, xs.map Ev.byte = ys.map Ev.byte → xs = ys := by
  induction xs with
  | nil => intro ys h; cases ys <;> simp_all
  | cons x xs ih =>
    intro ys h
    cases ys with
    | nil => simp at h
    | cons y ys =>
      simp only [List.map, List.cons.injEq, Ev.byte.injEq] at h
      rw [h.1, ih ys h.2]

theorem map_snd_cons {α β : Type} (l : List (α × β)) (b : β) (bs : List β) (h : l.map (·.2) = b :: bs) :
    ∃ n l', l = (n, b) :: l' ∧ l'.map (·.2) = bs := by
  match l, h with
  | (n, b') :: l', h =>
    simp only [List.map, List.cons.injEq] at h
    exact ⟨n, l', by rw [h.1], h.2⟩

/-! ### a good packet as a sequence of segments -/

/-- the blocks of a correctly encoded packet (strobes ≥ 3 cycles apart), after `npre` quiet cycles: the 12 MHz side sees
start, the bytes, end -/
theorem packet_seg (φ : Nat) (hφ : φ < 4) (bytes : List Nat) (hne : bytes ≠ []) (hb : ∀ b ∈ bytes, b < 256)
    (c0 : Nat) (hc0 : c0 ≤ 6) (e : Bool) (m : Nat) (l : List (Nat × (Bool × Bool))) (hl : ∀ p ∈ l, 3 ≤ p.1)
    (hbits : l.map (·.2) = packetBits (stuff 1 (bitsOf bytes)) (m + 4)) (npre : Nat) (Epre : List Bool)
    (hEpre : Epre.length = npre) :
    Seg φ false (List.replicate npre none ++ flatV 2 (blkP ⟨0, c0, srInit, e⟩ l))
      (List.replicate npre none ++ flatV 0 (blkF ⟨0, c0, srInit, e⟩ l))
      (Epre ++ (bitSEsD ⟨0, c0, srInit, e⟩ l).map (·.2)) ([.start] ++ bytes.map EvU.byte ++ [.fin]) false := by
  -- the bits
  let x := !lastLvl true (nrzi true (syncBits ++ stuff 1 (bitsOf bytes)))
  have hpb : packetBits (stuff 1 (bitsOf bytes)) (m + 4) =
      (List.replicate 7 (false, false) ++ [(true, false)]) ++ (fbits (stuff 1 (bitsOf bytes)) ++
        ((x, true) :: (true, true) :: (false, false) :: List.replicate (m + 5) (true, false))) := by
    simp only [packetBits, x]; rfl
  rw [hpb] at hbits
  obtain ⟨lS, lr, rfl, hS, hr⟩ := List.map_eq_append_iff.mp hbits
  obtain ⟨lA, lB, rfl, hA, hB⟩ := List.map_eq_append_iff.mp hS
  obtain ⟨n8, lB', rfl, hB'⟩ := map_snd_cons lB _ _ hB
  have : lB' = [] := by simpa using hB'
  subst this
  obtain ⟨lD, lT, rfl, hD, hT⟩ := List.map_eq_append_iff.mp hr
  obtain ⟨nT, lT', rfl, hT'⟩ := map_snd_cons lT _ _ hT
  have hlA : ∀ p ∈ lA, 3 ≤ p.1 := fun p hp => hl p (by simp [hp])
  have hn8 : 3 ≤ n8 := hl (n8, (true, false)) (by simp)
  have hlD : ∀ p ∈ lD, 3 ≤ p.1 := fun p hp => hl p (by simp [hp])
  have hnT : 3 ≤ nT := hl (nT, (x, true)) (by simp)
  have hlT' : ∀ p ∈ lT', 3 ≤ p.1 := fun p hp => hl p (by simp [hp])
  -- SYNC
  obtain ⟨s1, s2, s3⟩ := sync7 ⟨c0, by omega⟩ e
  simp only at s1 s2 s3
  obtain ⟨t1, t2, t3⟩ := sync8 e
  -- data
  obtain ⟨⟨n', hn', d1⟩, d2, d3⟩ := unstuff_run (bitsOf bytes) 1 srInit (by omega)
  obtain ⟨_, a2⟩ := shifter_bytes bytes hb srInit (Or.inr rfl)
  have hsp := pays_spaced7_any (stuff 1 (bitsOf bytes)) 1 srInit false 0 0 rfl (by simp [need])
  have hflD := active_flgs (stuff 1 (bitsOf bytes)) 1 srInit false
  have hlen8 : 8 ≤ lD.length := by
    have h1 := stuff_length (bitsOf bytes) 1
    have h2 := bitsOf_length bytes
    have h3 : 1 ≤ bytes.length := by
      cases bytes with
      | nil => exact absurd rfl hne
      | cons _ _ => simp
    have : lD.length = (fbits (stuff 1 (bitsOf bytes))).length := by rw [← hD]; simp
    simp only [fbits, List.length_map] at this
    omega
  have hwr : writesOf (bitPays ⟨6, 1, srInit, false⟩ (fbits (stuff 1 (bitsOf bytes)))) = bytes := by
    apply evbyte_inj
    rw [← bitEvs_pays, d2, a2]
  -- the first seven data blocks
  have hsplitD : lD = lD.take 7 ++ lD.drop 7 := (List.take_append_drop 7 lD).symm
  have hl7 : (lD.take 7).length = 7 := by simp; omega
  have hS7 : bitPays ⟨6, 1, srInit, false⟩ (lD.map (·.2)) =
      bitPays ⟨6, 1, srInit, false⟩ ((lD.take 7).map (·.2)) ++
        bitPays (bitRun ⟨6, 1, srInit, false⟩ ((lD.take 7).map (·.2))) ((lD.drop 7).map (·.2)) := by
    conv => lhs; rw [hsplitD, List.map_append, bitPays_append]
  rw [hD] at hS7
  obtain ⟨p1, p2⟩ := prefix_none 7 7 _ 0 hsp (by omega) (by rw [← hD, bitPays_length]; simp; omega)
  have hl7' : (bitPays ⟨6, 1, srInit, false⟩ ((lD.take 7).map (·.2))).length = 7 := by
    rw [bitPays_length]; simp; omega
  rw [hS7, List.take_left' hl7'] at p1
  rw [hS7, List.drop_left' hl7'] at p2
  have hwr' : writesOf (bitPays (bitRun ⟨6, 1, srInit, false⟩ ((lD.take 7).map (·.2))) ((lD.drop 7).map (·.2))) = bytes := by
    rw [← hwr, hS7, writesOf_append, p1, writesOf_nones, List.nil_append]
  -- end of packet and idle
  obtain ⟨⟨c1, hc1, e1⟩, _, _⟩ := eop_run n' (shRun srInit (bitsOf bytes)) x false (by omega)
  obtain ⟨q1, q2⟩ := eop_streams n' (shRun srInit (bitsOf bytes)) x false
  obtain ⟨r1, r2⟩ := idle_streams (m + 5) 1 c1 srInit false (by omega)
  have hTP : bitPays ⟨6, n', shRun srInit (bitsOf bytes), false⟩ (((nT, (x, true)) :: lT').map (·.2)) =
      List.replicate (3 + (m + 5)) none := by
    have : ((nT, (x, true)) :: lT').map (·.2) = [(x, true), (true, true), (false, false)] ++
        List.replicate (m + 5) (true, false) := by simp [hT']
    rw [this, bitPays_append, q1, e1, r1]
    exact List.replicate_append_replicate (n := 3) (m := m + 5) (a := (none : Option Nat))
  have hxs : bitStep ⟨6, n', shRun srInit (bitsOf bytes), false⟩ (x, true) = ⟨0, bsStep n' x, srInit, false⟩ := by
    simp [bitStep, detStep]
  have hTF : bitFlg ⟨6, n', shRun srInit (bitsOf bytes), false⟩ (x, true) = some 1 ∧
      bitFlgs ⟨0, bsStep n' x, srInit, false⟩ (lT'.map (·.2)) = List.replicate (2 + (m + 5)) none := by
    have h0 : bitFlgs ⟨6, n', shRun srInit (bitsOf bytes), false⟩ ((x, true) :: ((true, true) :: (false, false) ::
        List.replicate (m + 5) (true, false))) = some 1 :: (List.replicate 2 none ++ List.replicate (m + 5) none) := by
      have := bitFlgs_append [(x, true), (true, true), (false, false)] (List.replicate (m + 5) (true, false))
        ⟨6, n', shRun srInit (bitsOf bytes), false⟩
      simp only [List.cons_append, List.nil_append] at this
      rw [this, q2, e1, r2]; rfl
    rw [bitFlgs, hxs] at h0
    injection h0 with h1 h2
    exact ⟨h1, by rw [hT', h2, List.replicate_append_replicate]⟩
  have hlT'len : lT'.length = m + 7 := by
    have : lT'.length = (lT'.map (·.2)).length := by simp
    rw [this, hT']; simp
  -- errors after the start flag
  have hclean : ∀ p ∈ bitSEs ⟨6, 1, srInit, false⟩ ((lD ++ (nT, (x, true)) :: lT').map (·.2)), p = (false, false) := by
    obtain ⟨_, _, _, _, _, tse, _, _⟩ := packet_streams bytes hne hb x m
    have : (lD ++ (nT, (x, true)) :: lT').map (·.2) = restBits bytes x m ++ List.replicate 5 (true, false) := by
      rw [List.map_append, hD, List.map_cons, hT']
      have : List.replicate (m + 5) (true, false) = List.replicate m (true, false) ++ List.replicate 5 (true, false) := by
        rw [List.replicate_append_replicate]
      simp only [restBits, this, List.append_assoc, List.cons_append, List.nil_append]
    rw [this]; exact tse
  -- the streams, part by part
  have hrunA : bitRun ⟨0, c0, srInit, e⟩ (lA.map (·.2)) = ⟨5, 0, srInit, e⟩ := by rw [hA]; exact s1
  have hrunS : bitRun ⟨0, c0, srInit, e⟩ ((lA ++ [(n8, (true, false))]).map (·.2)) = ⟨6, 1, srInit, false⟩ := by
    rw [List.map_append, bitRun_append, hrunA]; simp only [List.map, bitRun, t1]
  have hrunD : bitRun ⟨6, 1, srInit, false⟩ (lD.map (·.2)) = ⟨6, n', shRun srInit (bitsOf bytes), false⟩ := by
    rw [hD]; exact d1
  have hlT : ∀ p ∈ (nT, (x, true)) :: lT', 3 ≤ p.1 := by
    intro p hp
    rcases List.mem_cons.mp hp with rfl | hp
    · exact hnT
    · exact hlT' p hp
  have hlDT : ∀ p ∈ lD ++ (nT, (x, true)) :: lT', 3 ≤ p.1 := by
    intro p hp
    rcases List.mem_append.mp hp with hp | hp
    · exact hlD p hp
    · exact hlT p hp
  have hPA : flatV 2 (blkP ⟨0, c0, srInit, e⟩ lA) = List.replicate (lsum lA) none :=
    flatP_quiet lA hlA _ 7 (by rw [hA]; exact s2)
  have hFA : flatV 0 (blkF ⟨0, c0, srInit, e⟩ lA) = List.replicate (lsum lA) none :=
    flatF_quiet lA hlA _ 7 (by rw [hA]; exact s3)
  have hP7 : flatV 2 (blkP ⟨6, 1, srInit, false⟩ (lD.take 7)) = List.replicate (lsum (lD.take 7)) none :=
    flatP_quiet _ (fun p hp => hlD p (List.mem_of_mem_take hp)) _ 7 p1
  have hFD : flatV 0 (blkF ⟨6, 1, srInit, false⟩ lD) = List.replicate (lsum lD) none :=
    flatF_quiet lD hlD _ _ (by rw [hD]; exact hflD)
  have hPT : flatV 2 (blkP ⟨6, n', shRun srInit (bitsOf bytes), false⟩ ((nT, (x, true)) :: lT')) =
      List.replicate (lsum ((nT, (x, true)) :: lT')) none :=
    flatP_quiet _ hlT _ _ hTP
  have hFT : flatV 0 (blkF ⟨0, bsStep n' x, srInit, false⟩ lT') = List.replicate (lsum lT') none :=
    flatF_quiet lT' hlT' _ _ hTF.2
  -- the three segments
  let W := blkP (bitRun ⟨6, 1, srInit, false⟩ ((lD.take 7).map (·.2))) (lD.drop 7)
  have hWl : ∀ x ∈ W, 3 ≤ x.1 := blkP_lens _ (fun p hp => hlD p (List.mem_of_mem_drop hp)) _
  have hWs : SpacedGt 7 (0 + 7) (W.map (·.2)) = true := by rw [blkP_snd]; exact p2
  have hK2 : 16 ≤ nT - 1 + lsum lT' := by
    have := lsum_ge lT' hlT'
    rw [hlT'len] at this
    omega
  have segA := seg_idle φ hφ (npre + lsum lA) (Epre ++ (bitSEsD ⟨0, c0, srInit, e⟩ lA).map (·.2))
    (by simp [hEpre, bitSEsD_length lA hlA])
  have hKB : 16 ≤ n8 - 1 + lsum (lD.take 7) := by
    have := lsum_ge (lD.take 7) (fun p hp => hlD p (List.mem_of_mem_take hp))
    rw [hl7] at this
    omega
  have segB := seg_start φ hφ (n8 - 1 + lsum (lD.take 7)) hKB e
  have segC := data_tail_seg φ hφ W hWl _ hWs (nT - 1 + lsum lT') hK2
  have segAll := seg_append φ false false false _ _ _ _ _ _ _ _ segA
    (seg_append φ false true false _ _ _ _ _ _ _ _ segB segC)
  have hWsum : lenSum W = lsum (lD.drop 7) := lenSum_blkP _ _
  have hsumD : lsum lD = lsum (lD.take 7) + lsum (lD.drop 7) := by
    conv => lhs; rw [hsplitD, lsum_append]
  -- rewrite the three streams into that shape
  have hP : List.replicate npre none ++ flatV 2 (blkP ⟨0, c0, srInit, e⟩
        ((lA ++ [(n8, (true, false))]) ++ (lD ++ (nT, (x, true)) :: lT'))) =
      List.replicate (npre + lsum lA) none ++ (List.replicate (n8 - 1 + lsum (lD.take 7) + 1) none ++
        (flatV 2 W ++ List.replicate (1 + (nT - 1 + lsum lT')) none)) := by
    have hblkD : blkP ⟨6, 1, srInit, false⟩ lD = blkP ⟨6, 1, srInit, false⟩ (lD.take 7) ++ W := by
      conv => lhs; rw [hsplitD]
      rw [blkP_append]
    have hPB : flatV 2 (blkP ⟨5, 0, srInit, e⟩ [(n8, (true, false))]) = List.replicate n8 none := by
      simp only [blkP, flatV, t2, vblk_none 2 n8 hn8, List.append_nil]
    rw [blkP_append, hrunS, blkP_append, hrunA, blkP_append, hrunD, hblkD]
    simp only [flatV_append, hPA, hPT, hP7, hPB, lsum]
    simp only [← List.append_assoc, List.replicate_append_replicate]
    simp only [List.append_assoc, List.replicate_append_replicate]
    congr 2
    · omega
    · congr 1; omega
  have hF : List.replicate npre none ++ flatV 0 (blkF ⟨0, c0, srInit, e⟩
        ((lA ++ [(n8, (true, false))]) ++ (lD ++ (nT, (x, true)) :: lT'))) =
      List.replicate (npre + lsum lA) none ++ ((some 2 :: List.replicate (n8 - 1 + lsum (lD.take 7)) none) ++
        (List.replicate (lenSum W) none ++ some 1 :: List.replicate (nT - 1 + lsum lT') none)) := by
    have hFB : flatV 0 (blkF ⟨5, 0, srInit, e⟩ [(n8, (true, false))]) = some 2 :: List.replicate (n8 - 1) none := by
      simp only [blkF, flatV, t3, vblk, beq_self_eq_true, if_true, List.append_nil]
    have hFT2 : flatV 0 (blkF ⟨6, n', shRun srInit (bitsOf bytes), false⟩ ((nT, (x, true)) :: lT')) =
        some 1 :: List.replicate (nT - 1 + lsum lT') none := by
      simp only [blkF, flatV, hTF.1, hxs, hFT, vblk, beq_self_eq_true, if_true, List.cons_append,
        List.replicate_append_replicate]
    rw [blkF_append, hrunS, blkF_append, hrunA, blkF_append, hrunD]
    simp only [flatV_append, hFA, hFD, hFB, hFT2, hWsum, hsumD, ← List.replicate_append_replicate]
    simp only [List.append_assoc, List.cons_append, List.nil_append]
  have hE : Epre ++ (bitSEsD ⟨0, c0, srInit, e⟩
        ((lA ++ [(n8, (true, false))]) ++ (lD ++ (nT, (x, true)) :: lT'))).map (·.2) =
      (Epre ++ (bitSEsD ⟨0, c0, srInit, e⟩ lA).map (·.2)) ++ ((e :: List.replicate (n8 - 1 + lsum (lD.take 7)) false) ++
        List.replicate (lenSum W + 1 + (nT - 1 + lsum lT')) false) := by
    rw [bitSEsD_append, hrunS, bitSEsD_append, hrunA, List.map_append, List.map_append,
      bitSEsD_clean _ hlDT _ hclean,
      lsum_append, hsumD, hWsum]
    obtain ⟨n8', rfl⟩ : ∃ k, n8 = k + 2 := ⟨n8 - 2, by omega⟩
    simp only [bitSEsD, bitSEn, sync8 e, List.map_append, List.map_cons, List.map_nil, List.map_replicate, lsum,
      List.append_nil, List.append_assoc, List.cons_append, List.nil_append, beq_self_eq_true, Bool.not_false,
      Bool.and_self, if_true, Nat.add_sub_cancel]
    have hr1 : ∀ (a b : Nat), List.replicate (a + b) false = List.replicate a false ++ List.replicate b false :=
      fun a b => (List.replicate_append_replicate ..).symm
    have hL : false :: (List.replicate n8' false ++
        List.replicate (lsum (List.take 7 lD) + lsum (List.drop 7 lD) + (nT + lsum lT')) false) =
        List.replicate (1 + n8' + (lsum (List.take 7 lD) + lsum (List.drop 7 lD) + (nT + lsum lT'))) false := by
      rw [hr1 (1 + n8'), hr1 1 n8', hr1, hr1]; simp only [List.replicate_succ, List.replicate_zero, List.append_assoc, List.cons_append, List.nil_append]
    have hR : List.replicate (n8' + 2 - 1 + lsum (List.take 7 lD)) false ++
        List.replicate (lsum (List.drop 7 lD) + 1 + (nT - 1 + lsum lT')) false =
        List.replicate (1 + n8' + (lsum (List.take 7 lD) + lsum (List.drop 7 lD) + (nT + lsum lT'))) false := by
      rw [List.replicate_append_replicate]; congr 1; omega
    rw [hL, hR]
  have hev : ([.start] ++ bytes.map EvU.byte ++ [.fin] : List EvU) =
      [] ++ ([.start] ++ ((writesOf (W.map (·.2))).map EvU.byte ++ [.fin])) := by
    rw [blkP_snd, hwr']; simp
  rw [hP, hF, hE, hev]
  exact segAll

/-! ### the theorems -/

/-- **end to end under clock drift and skew**: for every phase `φ` of the `usb` clock and position `c0` of the stimulus
against it, every non-empty list of bytes < 256, every stream of bit cells whose symbols are those of `encode bytes` (the
final J merging with the idle line), whose lengths satisfy `DriftOk` (3, 4 or 5 samples per cell, two cells of length ≠ 4
at least 8 cells apart; ±0.25 % has them ≥ 100 apart, `floor_cells_driftOk`) and whose first samples satisfy `SkewOk`,
starting after any number `k` of idle samples, from any idle state of the receive path with its clock-domain crossing
(`idleCdc`: both FIFOs empty and settled with arbitrary pointers and memory contents): what the 12 MHz side sees at its
clock edges is exactly `o_pkt_start`; then each byte once, in order, on `o_data_payload` with `o_data_strobe` while
`o_pkt_in_progress` is high (`rx_valid` with `rx_active`); then `o_pkt_end`; `o_receive_error` is never high at a `usb`
edge while in progress; and `4 (m + 7) + 3` idle samples after the second SE0 the whole path is `idleCdc` again. -/
theorem rx_delivers_to_usb_drift (φ c0 : Nat) (hφ : φ < 4) (hc0 : c0 < 4)
    (bytes : List Nat) (hne : bytes ≠ []) (hb : ∀ b ∈ bytes, b < 256)
    (cells : List Cell) (hs : cells.map (·.1) ++ [.J] = encode bytes) (hd : DriftOk (cells.map (·.2.1)))
    (hk : SkewOk cells)
    (c : Nat) (e : Bool) (hc : c ≤ 6) (pp pf : Nat) (hpp : pp < 8) (hpf : pf < 8) (memp memf : List Nat)
    (hmp : memp.length = 4) (hmf : memf.length = 4) (k m : Nat) :
    evsU (runCdc φ (idleCdc c e pp memp pf memf c0) (rxInputD k cells (m + 4))).2 =
      [.start] ++ bytes.map EvU.byte ++ [.fin] ∧
    ∃ c' pp' memp' pf' memf' cyc', c' ≤ 6 ∧ pp' < 8 ∧ pf' < 8 ∧ memp'.length = 4 ∧ memf'.length = 4 ∧ cyc' < 4 ∧
      (runCdc φ (idleCdc c e pp memp pf memf c0) (rxInputD k cells (m + 4))).1 =
        idleCdc c' false pp' memp' pf' memf' cyc' := by
  obtain ⟨ht, hs'⟩ := trackable_encode bytes (m + 4) cells hs hd hk
  obtain ⟨a0c, pre, l, h0, hprel, hquiet, hl, hbits, houts⟩ :=
    run_packetD_outs c e hc k (stuff 1 (bitsOf bytes)) (m + 4) cells hs' ht
  obtain ⟨_, _, c', hc', hfin⟩ := rx_pipeline_decodes_encode_drift bytes hb cells hs hd hk c e hc k (m + 4)
  obtain ⟨qp, qf, _⟩ := quiet_map_pay e pre hquiet
  obtain ⟨os1, os2⟩ := outs_vstreams l hl ⟨0, a0c, srInit, e⟩ true
  obtain ⟨_, _, hS⟩ := packet_seg φ hφ bytes hne hb a0c h0 e m l hl hbits (k + 7) (pre.map (·.rxErr))
    (by simp [hprel])
  obtain ⟨pp', memp', pf', memf', x1, x2, x3, x4, x5, x6, x7, x8⟩ := hS c0 pp pf memp memf hc0 hpp hpf hmp hmf
  have hpayS : (FsRx.run (idleSt c e) (rxInputD k cells (m + 4))).2.map payW =
      List.replicate (k + 7) none ++ flatV 2 (blkP ⟨0, a0c, srInit, e⟩ l) := by
    rw [houts, List.map_append, qp, hprel, os1]
  have hflgS : (FsRx.run (idleSt c e) (rxInputD k cells (m + 4))).2.map flgW =
      List.replicate (k + 7) none ++ flatV 0 (blkF ⟨0, a0c, srInit, e⟩ l) := by
    rw [houts, List.map_append, qf, hprel, os2]
  have hErr : errSamples φ c0 (FsRx.run (idleSt c e) (rxInputD k cells (m + 4))).2 =
      smpB φ c0 (pre.map (·.rxErr) ++ (bitSEsD ⟨0, a0c, srInit, e⟩ l).map (·.2)) := by
    rw [errSamples_smpB, houts, List.map_append, outs_verrs l hl]
  obtain ⟨sp1, sp2⟩ := cdc_split φ (rxInputD k cells (m + 4)) (idleCdc c e pp memp pf memf c0) hc0
  simp only [idleCdc] at sp1 sp2
  constructor
  · simp only [idleCdc]
    rw [sp2, hpayS, hflgS, hErr, usbEv_eq_O]
    exact x7
  · refine ⟨c', pp', memp', pf', memf', (c0 + (rxInputD k cells (m + 4)).length) % 4, hc', x1, x2, x3, x4,
      Nat.mod_lt _ (by omega), ?_⟩
    simp only [idleCdc]
    rw [sp1, hfin, hpayS, hflgS, x5, x6, ipFinal_eq_O, x8]

/-! ### any number of packets -/

theorem runCdc_append (φ : Nat) (a b : List FsRx.In) : ∀ s : St,
    runCdc φ s (a ++ b) = ((runCdc φ (runCdc φ s a).1 b).1, (runCdc φ s a).2 ++ (runCdc φ (runCdc φ s a).1 b).2) := by
  induction a with
  | nil => intro s; rfl
  | cons i is ih => intro s; simp only [List.cons_append, runCdc, ih, List.append_assoc]

/-- the stimulus of a packet of `rx_delivers_to_usb_drift` -/
def DPkt.inputU (p : DPkt) : List FsRx.In := rxInputD p.k p.cells (p.m + 4)
def DPkt.eventsU (p : DPkt) : List EvU := [.start] ++ p.bytes.map EvU.byte ++ [.fin]

/-- **any number of packets, each with its own drift pattern, skew and sampling phase**: from an idle state of the receive
path with its clock-domain crossing, for every `usb` clock phase, the 12 MHz side sees, packet after packet, start, the
bytes (each once, in order, while in progress), end -- nothing else -- and the path ends idle. -/
theorem rx_packets_to_usb_drift (φ : Nat) (hφ : φ < 4) (ps : List DPkt) (h : ∀ p ∈ ps, p.Ok ∧ p.bytes ≠ []) :
    ∀ (c : Nat) (e : Bool) (pp pf : Nat) (memp memf : List Nat) (c0 : Nat), c ≤ 6 → pp < 8 → pf < 8 →
      memp.length = 4 → memf.length = 4 → c0 < 4 →
    evsU (runCdc φ (idleCdc c e pp memp pf memf c0) (ps.flatMap DPkt.inputU)).2 = ps.flatMap DPkt.eventsU ∧
    ∃ c' e' pp' memp' pf' memf' cyc', c' ≤ 6 ∧ pp' < 8 ∧ pf' < 8 ∧ memp'.length = 4 ∧ memf'.length = 4 ∧ cyc' < 4 ∧
      (runCdc φ (idleCdc c e pp memp pf memf c0) (ps.flatMap DPkt.inputU)).1 =
        idleCdc c' e' pp' memp' pf' memf' cyc' := by
  induction ps with
  | nil =>
    intro c e pp pf memp memf c0 hc hpp hpf hmp hmf hc0
    exact ⟨rfl, c, e, pp, memp, pf, memf, c0, hc, hpp, hpf, hmp, hmf, hc0, rfl⟩
  | cons p ps ih =>
    intro c e pp pf memp memf c0 hc hpp hpf hmp hmf hc0
    obtain ⟨⟨hb, hs, hd, hk⟩, hne⟩ := h p (by simp)
    obtain ⟨h1, c1, pp1, memp1, pf1, memf1, cyc1, y1, y2, y3, y4, y5, y6, h3⟩ :=
      rx_delivers_to_usb_drift φ c0 hφ hc0 p.bytes hne hb p.cells hs hd hk c e hc pp pf hpp hpf memp memf hmp hmf p.k p.m
    obtain ⟨i1, i2⟩ := ih (fun q hq => h q (by simp [hq])) c1 false pp1 pf1 memp1 memf1 cyc1 y1 y2 y3 y4 y5 y6
    simp only [List.flatMap_cons, runCdc_append, evsU_append, DPkt.inputU, DPkt.eventsU] at *
    rw [h3]
    exact ⟨by rw [h1, i1], i2⟩

/-! ### non-vacuity: runs of the model itself -/

/-- `[0xA5]` on a drifting line (cells 3 and 12 have five samples), from reset, every `usb` clock phase -/
example : ∀ φ : Fin 4, evsU (runCdc φ.val {} (jn 15 ++ rxInputD 2
    (cellsOf [0xA5] [4, 4, 4, 5, 4, 4, 4, 4, 4, 4, 4, 4, 5, 4, 4, 4, 4, 4]) 4)).2 = [.start, .byte 0xA5, .fin] := by
  decide +kernel

/-- `[0x0F, 0xFC]` (a stuffed 0 between the last data bit and the EOP) on a fast line with three-sample cells, `usb` phase 1 -/
example : evsU (runCdc 1 {} (jn 15 ++ rxInputD 3 (cellsOf [0x0F, 0xFC]
    [3, 4, 4, 4, 4, 4, 4, 4, 4, 4, 4, 4, 4, 4, 4, 4, 4, 4, 4, 4, 4, 4, 3, 4, 4, 4, 4]) 4)).2 =
    [.start, .byte 0x0F, .byte 0xFC, .fin] := by
  decide +kernel

/-- the hypotheses of `rx_packets_to_usb_drift` hold for such a packet -/
example : (⟨[0xA5], cellsOf [0xA5] [4, 4, 4, 5, 4, 4, 4, 4, 4, 4, 4, 4, 5, 4, 4, 4, 4, 4], 2, 0⟩ : DPkt).Ok ∧
    (⟨[0xA5], cellsOf [0xA5] [4, 4, 4, 5, 4, 4, 4, 4, 4, 4, 4, 4, 5, 4, 4, 4, 4, 4], 2, 0⟩ : DPkt).bytes ≠ [] := by
  refine ⟨⟨by decide, by decide, by decide, by decide⟩, by decide⟩

end LunaVerif.FsRxCdc
