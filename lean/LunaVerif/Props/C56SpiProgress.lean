import LunaVerif.Props.C56SpiBits
/-!
# C56 — `SyncSerialILA`: the pace of the read-out is the SPI controller's

`spi_readout_bits` says which bit `sdo` carries as a function of `K` (words completed in the chip-select window) and `n` (output
edges since the last word boundary).  Here `K` is tied to the pins: `K = ⌊E / bits_per_word⌋` where `E` counts the sampling edges
of `sck` in the window (`sampleEdges`, a function of the `sck` waveform, the clock polarity / phase, and the level of `sck` in
the cycle before the window).  The device side never stalls; there is no time bound other than the controller's clocking:
the explicit hypothesis is `InWindow` (chip select high, no trigger) plus the number of sampling edges the controller has
produced (`spi_readout_covers`: `depth · bits_per_word` of them complete all `depth` words).
-/

namespace LunaVerif.IlaSpi
open LunaVerif.Ila

/-- number of sampling edges of the SPI clock in a stretch of cycles, computed from the `sck` pin alone (`p` = level of the
polarity-corrected clock in the cycle before) -/
def sampleEdges (c : SpiDevice.Config) : Bool → List In → Nat
  | _, [] => 0
  | p, x :: xs =>
    (if SpiDevice.sampleEdge c p ⟨x.sck, x.sdi, x.cs, []⟩ then 1 else 0) + sampleEdges c (x.sck != c.pol) xs

theorem sampleEdge_pin (c : Config) (s : State) (x : In) (p : Bool) :
    SpiDevice.sampleEdge c.spi p (spiIn c s x) = SpiDevice.sampleEdge c.spi p ⟨x.sck, x.sdi, x.cs, []⟩ := rfl

theorem spi_step_pastClk (c : SpiDevice.Config) (s : SpiDevice.State) (i : SpiDevice.In) :
    (SpiDevice.step c s i).1.pastClk = (i.sck != c.pol) := by
  simp only [SpiDevice.step, SpiDevice.stepGen, SpiDevice.serialClock]
  split <;> (try split) <;> (try split) <;> rfl


/-- the words completed in a chip-select window are counted by the controller's sampling edges alone: `bits_per_word` edges per
word, the device never stalls -/
theorem track_words (c : Config) (hw : 1 ≤ c.spi.w) (hcs : c.spi.csIdlesHigh = false) (ws : List In) :
    ∀ (K n : Nat) (s : State), s.spi.bitCount < c.spi.w → InWindow ws →
      (track c (K, n) s ws).1 = K + (s.spi.bitCount + sampleEdges c.spi s.spi.pastClk ws) / c.spi.w ∧
      (runState c s ws).spi.bitCount = (s.spi.bitCount + sampleEdges c.spi s.spi.pastClk ws) % c.spi.w := by
  induction ws with
  | nil =>
    intro K n s hb _
    simp [track, sampleEdges, runState, Nat.div_eq_of_lt hb, Nat.mod_eq_of_lt hb]
  | cons x xs ih =>
    intro K n s hb hin
    have hx := hin x (by simp)
    have hrest : InWindow xs := fun y hy => hin y (by simp [hy])
    have hselS : SpiDevice.selected c.spi (spiIn c s x) = true := by simp [SpiDevice.selected, spiIn, hcs, hx.1]
    obtain ⟨q1, _, _⟩ := spi_step_sel c.spi s.spi (spiIn c s x) hselS
    obtain ⟨_, p2, _⟩ := step_proj c s x
    have hpc : (step c s x).1.spi.pastClk = (x.sck != c.spi.pol) := by
      rw [p2, spi_step_pastClk]; rfl
    rw [← p2] at q1
    simp only [track, runState, sampleEdges, ← sampleEdge_pin c s x]
    rcases Bool.eq_false_or_eq_true (SpiDevice.sampleEdge c.spi s.spi.pastClk (spiIn c s x)) with he | he
    · by_cases hlast : s.spi.bitCount + 1 = c.spi.w
      · -- the completing edge
        have hc : completing c.spi s.spi (spiIn c s x) = true := by simp [completing, he, hselS, hlast]
        have hbeq : (s.spi.bitCount + 1 == c.spi.w) = true := by simp [hlast]
        simp only [he, if_true, hbeq] at q1
        simp only [hc, he, if_true]
        obtain ⟨i1, i2⟩ := ih (K + 1) 0 (step c s x).1 (by rw [q1]; omega) hrest
        rw [q1, hpc, Nat.zero_add] at i1 i2
        have e : s.spi.bitCount + (1 + sampleEdges c.spi (x.sck != c.spi.pol) xs) =
            c.spi.w + sampleEdges c.spi (x.sck != c.spi.pol) xs := by omega
        refine ⟨?_, ?_⟩
        · rw [i1, e, Nat.add_div_left _ (by omega)]; omega
        · rw [i2, e, Nat.add_mod_left]
      · have hc : completing c.spi s.spi (spiIn c s x) = false := by simp [completing, he, hlast]
        have hbeq : (s.spi.bitCount + 1 == c.spi.w) = false := by simp [hlast]
        simp only [he, if_true, hbeq, Bool.false_eq_true, if_false,
          SpiDevice.bc_wrap c.spi.w s.spi.bitCount (by omega)] at q1
        simp only [hc, he, if_true, Bool.false_eq_true, if_false]
        have e : s.spi.bitCount + (1 + sampleEdges c.spi (x.sck != c.spi.pol) xs) =
            s.spi.bitCount + 1 + sampleEdges c.spi (x.sck != c.spi.pol) xs := by omega
        have h1 : ∀ m : Nat, (track c (K, m) (step c s x).1 xs).1 =
            K + (s.spi.bitCount + 1 + sampleEdges c.spi (x.sck != c.spi.pol) xs) / c.spi.w := by
          intro m
          have := (ih K m (step c s x).1 (by rw [q1]; omega) hrest).1
          rw [q1, hpc] at this
          exact this
        refine ⟨?_, ?_⟩
        · rw [e]; split <;> exact h1 _
        · have := (ih K n (step c s x).1 (by rw [q1]; omega) hrest).2
          rw [q1, hpc] at this; rw [e]; exact this
    · -- no sampling edge
      have hc : completing c.spi s.spi (spiIn c s x) = false := by simp [completing, he]
      simp only [he, Bool.false_eq_true, if_false] at q1
      simp only [hc, he, Bool.false_eq_true, if_false, Nat.zero_add]
      have h1 : ∀ m : Nat, (track c (K, m) (step c s x).1 xs).1 =
          K + (s.spi.bitCount + sampleEdges c.spi (x.sck != c.spi.pol) xs) / c.spi.w := by
        intro m
        have := (ih K m (step c s x).1 (by rw [q1]; exact hb) hrest).1
        rw [q1, hpc] at this
        exact this
      refine ⟨?_, ?_⟩
      · split <;> exact h1 _
      · have := (ih K n (step c s x).1 (by rw [q1]; exact hb) hrest).2
        rw [q1, hpc] at this; exact this

/-- **spi_readout_progress**: under the hypotheses of `spi_readout_words` / `spi_readout_bits` (trigger seen by the idle
analyzer, `depth` capture cycles, chip select low and no trigger for at least four cycles `g1 .. g4`, then a chip-select
window `ws` without a trigger), the number of words completed at any point of the window is determined by the SPI
controller's clock alone: `⌊E / bits_per_word⌋`, `E` = number of sampling edges of `sck` in the window so far (counted on the
pin, starting from the level `sck` had in `g4`).  The device never stalls: the read-out lasts exactly as long as the
controller takes to produce `depth · bits_per_word` clock periods. -/
theorem spi_readout_progress (c : Config) (hw : 4 ≤ c.spi.w) (hcs : c.spi.csIdlesHigh = false) (hd : 1 ≤ c.ila.depth)
    (σ : State) (hσ : IdleState c.ila σ.core) (x0 : In) (ht : x0.trigger = true) (xs : List In)
    (hl : xs.length = c.ila.depth) (gs : List In) (hgs : AtRest gs) (g1 g2 g3 g4 : In)
    (hg : AtRest [g1, g2, g3, g4]) (ws : List In) (hws : InWindow ws) :
    let s0 := runState c σ (x0 :: xs ++ gs ++ [g1, g2, g3, g4])
    (track c (0, 0) s0 ws).1 = sampleEdges c.spi (g4.sck != c.spi.pol) ws / c.spi.w := by
  intro s0
  have hc := core_run c (x0 :: xs) σ
  obtain ⟨hi, hlen⟩ := coreHist_inputs c (x0 :: xs) σ
  have hcap := captures_depth_consecutive_samples c.ila hd σ.core hσ ⟨x0.trigger, x0.inputs, σ.rdaddr⟩ ht
    (coreHist c (step c σ x0).1 xs) (by simpa [coreHist, hl] using hlen)
  obtain ⟨k1, k2, k3, k4, _⟩ := hcap
  have hh : coreHist c σ (x0 :: xs) = ⟨x0.trigger, x0.inputs, σ.rdaddr⟩ :: coreHist c (step c σ x0).1 xs := rfl
  rw [← hh, ← hc] at k1 k2 k3 k4
  obtain ⟨r1, r2, r3, r4⟩ := rest_run c hcs _ gs (runState c σ (x0 :: xs)) k1 k2 k4 hgs
  obtain ⟨w1, _, _⟩ := window_start c hcs _ (runState c (runState c σ (x0 :: xs)) gs) r1 r2 r3 g1 g2 g3 g4 hg
  have happ : s0 = runState c (runState c (runState c σ (x0 :: xs)) gs) [g1, g2, g3, g4] := by
    simp only [s0]; rw [runState_append, runState_append]
  rw [← happ] at w1
  have hb0 : s0.spi.bitCount = 0 := by have := w1.bc; omega
  have hpc : s0.spi.pastClk = (g4.sck != c.spi.pol) := by
    have h3 : s0 = (step c (runState c (runState c (runState c σ (x0 :: xs)) gs) [g1, g2, g3]) g4).1 := by
      rw [happ]
      have : [g1, g2, g3, g4] = [g1, g2, g3] ++ [g4] := rfl
      rw [this, runState_append]; rfl
    rw [h3, (step_proj c _ g4).2.1, spi_step_pastClk]; rfl
  have := (track_words c (by omega) hcs ws 0 0 s0 (by omega) hws).1
  rw [hb0, hpc, Nat.zero_add, Nat.zero_add] at this
  exact this

/-- a window in which the controller has produced `depth · bits_per_word` sampling edges has completed all `depth` words -/
theorem spi_readout_covers (c : Config) (hw : 4 ≤ c.spi.w) (hcs : c.spi.csIdlesHigh = false) (hd : 1 ≤ c.ila.depth)
    (σ : State) (hσ : IdleState c.ila σ.core) (x0 : In) (ht : x0.trigger = true) (xs : List In)
    (hl : xs.length = c.ila.depth) (gs : List In) (hgs : AtRest gs) (g1 g2 g3 g4 : In)
    (hg : AtRest [g1, g2, g3, g4]) (ws : List In) (hws : InWindow ws)
    (he : c.ila.depth * c.spi.w ≤ sampleEdges c.spi (g4.sck != c.spi.pol) ws) :
    c.ila.depth ≤ (track c (0, 0) (runState c σ (x0 :: xs ++ gs ++ [g1, g2, g3, g4])) ws).1 := by
  have := spi_readout_progress c hw hcs hd σ hσ x0 ht xs hl gs hgs g1 g2 g3 g4 hg ws hws
  simp only at this
  rw [this]
  exact (Nat.le_div_iff_mul_le (by omega)).mpr he

/-! ## Non-vacuity (the configuration of `Props/C56Spi.lean`: 4-bit words): 5 clock periods and the first half of the sixth =
5 sampling edges = 1 word completed -/
example : sampleEdges cfgX.spi (restX.sck != cfgX.spi.pol) (bitX ++ bitX ++ bitX ++ bitX ++ bitX ++ bitX.take 1) / cfgX.spi.w = 1 := by
  decide

end LunaVerif.IlaSpi
