import LunaVerif.Lemmas.DeviceSteps
/-!
# C07 — Control transfers follow the setup/data/status stage protocol

"For any host sequence of control transactions on endpoint 0, the device answers data-stage IN tokens only
after a device-to-host SETUP with a non-zero length, answers the status stage in the direction opposite to
the data stage (IN when there is no data stage), and treats every new SETUP as the start of a fresh control
transfer, even if the previous transfer was abandoned mid-way. Tokens for other endpoints never advance or
disturb the control transfer."

Theorems about the event-level model `Device.step` (Model/Device/Control.lean; tied to the real `USBDevice`
event by event on every run).  `final c init h` is the state after ANY event history `h` from reset — the
stage theorems need no legality assumption at all (they rest on `inv_reachable`, an invariant proved by
induction over the history); `core c s e` is the control endpoint's own reaction to the event `e`
(registers, and what it transmits), `step` merges it with the other endpoints' transmissions.
-/
namespace LunaVerif.Device

/-- The control endpoint's stage always agrees with the latched SETUP packet: a data-IN stage (and the
status-OUT stage that follows it) exists only for a device-to-host request with `wLength ≠ 0`, a data-OUT
stage only for a host-to-device request with `wLength ≠ 0`, and the status-IN stage only when there is no
device-to-host data stage. -/
theorem stage_follows_setup (c : DevConfig) (h : List Stim) :
    let s := final c init h
    (s.stage = .dataIn → s.setup.isIn = true ∧ s.setup.length ≠ 0) ∧
    (s.stage = .dataOut → s.setup.isIn = false ∧ s.setup.length ≠ 0) ∧
    (s.stage = .statusOut → s.setup.isIn = true ∧ s.setup.length ≠ 0) ∧
    (s.stage = .statusIn → ¬ (s.setup.isIn = true ∧ s.setup.length ≠ 0)) :=
  have i := inv_reachable c h
  ⟨i.data_in, i.data_out, i.status_out, i.status_in⟩

/-- A status-stage answer of any request handler never carries data bytes. -/
theorem status_answer_has_no_payload (c : DevConfig) (s : DevState) (pid : Nat) (p : List Nat)
    (h : (request c s .status).2 = .data pid p) : p = [] := by
  unfold request at h
  cases ho : owner c s.setup <;> simp only [ho] at h
  · split at h
    · unfold stdRequest at h
      cases hs : s.hstate <;> simp [hs, toIdle] at h
      all_goals (first | exact h.2 | (split at h <;> simp at h; exact h.2))
    · cases h
  · simp at h; exact h.2
  · cases h

/-- The same for every state that satisfies the model's invariant (used for the model with the `start_position`
advance by `max_packet_size`, Lemmas/C07Mps.lean). -/
theorem data_in_only_after_in_setup_of_inv (c : DevConfig) (s : DevState) (i : Inv s) (e : HostEvent) (pid : Nat)
    (p : List Nat) (hr : (core c s e).2 = .data pid p) (hp : p ≠ []) :
    e = .token PID_IN s.address 0 ∧ s.setup.isIn = true ∧ s.setup.length ≠ 0 ∧ (core c s e).1.stage = .dataIn := by
  cases e with
  | token tp addr ep =>
    unfold core at hr ⊢
    simp only [] at hr ⊢
    split at hr
    · rename_i ha
      subst ha
      simp only [if_true]
      have i1 := inv_afterToken s tp ep i
      have hctl := onToken_ctl c s tp ep
      unfold onToken at hr
      simp only [] at hr
      split at hr
      · rename_i hep
        subst hep
        cases hst : (afterToken s tp 0).stage <;> simp only [hst] at hr
        · cases hr
        · split at hr
          · rename_i htp
            subst htp
            have := i1.data_in hst
            exact ⟨rfl, this.1, this.2, by rw [hctl.stage]; exact hst⟩
          · cases hr
        · split at hr <;> cases hr
        · split at hr
          · exact absurd (status_answer_has_no_payload c _ pid p hr) hp
          · cases hr
        · split at hr <;> cases hr
      · cases hr
    · cases hr
  | data dp payload ok =>
    unfold core onData at hr
    simp only [] at hr
    split at hr
    · cases hr
    · split at hr
      · split at hr
        · split at hr
          · unfold onSetupData at hr; cases hr
          · cases hr
        · cases hr
      · split at hr
        · exact absurd (status_answer_has_no_payload c _ pid p hr) hp
        · cases hr
  | handshake hp' => cases hr
  | sof f => cases hr
  | malformed b => cases hr
  | quiet => cases hr
  | busReset => cases hr
  | produce e' b l => cases hr
  | consume e' n => cases hr
  | setSignal e' v => cases hr

/-- **C07 (data stage).** Whatever the history: if the control endpoint answers an event with a DATA packet
that carries payload bytes, the event is an IN token for endpoint 0 at the device's address, the latched
SETUP packet is device-to-host with `wLength ≠ 0`, and the endpoint is in its data-IN stage. -/
theorem data_in_only_after_in_setup (c : DevConfig) (h : List Stim) (e : HostEvent) (pid : Nat) (p : List Nat)
    (hr : (core c (final c init h) e).2 = .data pid p) (hp : p ≠ []) :
    e = .token PID_IN (final c init h).address 0 ∧
    (final c init h).setup.isIn = true ∧ (final c init h).setup.length ≠ 0 ∧
    (core c (final c init h) e).1.stage = .dataIn :=
  data_in_only_after_in_setup_of_inv c (final c init h) (inv_reachable c h) e pid p hr hp

/-- The same for every state that satisfies the model's invariant. -/
theorem in_token_answered_only_in_data_or_status_in_of_inv (c : DevConfig) (s : DevState) (i : Inv s) (addr ep : Nat)
    (hr : (core c s (.token PID_IN addr ep)).2 ≠ .none) :
    addr = s.address ∧ ep = 0 ∧
    (((core c s (.token PID_IN addr ep)).1.stage = .dataIn ∧ s.setup.isIn = true ∧ s.setup.length ≠ 0) ∨
     ((core c s (.token PID_IN addr ep)).1.stage = .statusIn ∧ ¬ (s.setup.isIn = true ∧ s.setup.length ≠ 0))) := by
  unfold core at hr ⊢
  simp only [] at hr ⊢
  split at hr
  · rename_i ha
    subst ha
    simp only [if_true]
    have i1 := inv_afterToken s PID_IN ep i
    have hctl := onToken_ctl c s PID_IN ep
    refine ⟨trivial, ?_⟩
    unfold onToken at hr
    simp only [] at hr
    split at hr
    · rename_i hep
      subst hep
      refine ⟨rfl, ?_⟩
      rw [hctl.stage]
      cases hst : (afterToken s PID_IN 0).stage <;> simp only [hst] at hr
      · exact absurd rfl hr
      · exact Or.inl ⟨rfl, i1.data_in hst⟩
      · simp [PID_IN, PID_PING] at hr
      · exact Or.inr ⟨rfl, i1.status_in hst⟩
      · simp [PID_IN, PID_PING] at hr
    · exact absurd rfl hr
  · exact absurd rfl hr

/-- **C07 (status direction, IN).** If the control endpoint answers an IN token (with anything), it does so
either in the data-IN stage of a device-to-host request with data, or in the status-IN stage — and the
status-IN stage exists only when the request has NO device-to-host data stage. -/
theorem in_token_answered_only_in_data_or_status_in (c : DevConfig) (h : List Stim) (addr ep : Nat)
    (hr : (core c (final c init h) (.token PID_IN addr ep)).2 ≠ .none) :
    addr = (final c init h).address ∧ ep = 0 ∧
    (((core c (final c init h) (.token PID_IN addr ep)).1.stage = .dataIn ∧
        (final c init h).setup.isIn = true ∧ (final c init h).setup.length ≠ 0) ∨
     ((core c (final c init h) (.token PID_IN addr ep)).1.stage = .statusIn ∧
        ¬ ((final c init h).setup.isIn = true ∧ (final c init h).setup.length ≠ 0))) :=
  in_token_answered_only_in_data_or_status_in_of_inv c (final c init h) (inv_reachable c h) addr ep hr

/-- The same for every state that satisfies the model's invariant. -/
theorem out_data_answered_only_in_status_out_of_inv (c : DevConfig) (s : DevState) (i : Inv s) (pid : Nat) (p : List Nat)
    (ok : Bool) (hw : s.sdWait = false) (hr : (core c s (.data pid p ok)).2 ≠ .none) :
    s.stage = .statusOut ∧ s.tokEp = 0 ∧ s.tokPid = PID_OUT ∧ s.setup.isIn = true ∧ s.setup.length ≠ 0 ∧ ok = true := by
  unfold core onData at hr
  simp only [hw] at hr
  split at hr
  · exact absurd rfl hr
  · rename_i hok
    simp only [Bool.false_eq_true, if_false] at hr
    split at hr
    · rename_i g
      exact ⟨g.1, g.2.1, g.2.2, (i.status_out g.1).1, (i.status_out g.1).2, by simpa using hok⟩
    · exact absurd rfl hr

/-- **C07 (status direction, OUT).** If the control endpoint answers a host data packet that is not the
SETUP packet itself, the packet is the status-OUT stage of a device-to-host request with `wLength ≠ 0`
(last token: OUT for endpoint 0). -/
theorem out_data_answered_only_in_status_out (c : DevConfig) (h : List Stim) (pid : Nat) (p : List Nat) (ok : Bool)
    (hw : (final c init h).sdWait = false)
    (hr : (core c (final c init h) (.data pid p ok)).2 ≠ .none) :
    (final c init h).stage = .statusOut ∧ (final c init h).tokEp = 0 ∧ (final c init h).tokPid = PID_OUT ∧
    (final c init h).setup.isIn = true ∧ (final c init h).setup.length ≠ 0 ∧ ok = true :=
  out_data_answered_only_in_status_out_of_inv c (final c init h) (inv_reachable c h) pid p ok hw hr

/-- **C07 (every SETUP starts a fresh transfer).** From ANY state whatsoever (abandoned transfer in any
stage, handler in any state), a SETUP transaction for the device puts the control endpoint and — for a
standard request — the standard handler into exactly the state they would have after the same SETUP
directly after reset, and is ACKed. -/
theorem setup_always_restarts (c : DevConfig) (s : DevState) (bytes : List Nat) (f₁ f₂ : Resp)
    (hlen : bytes.length = 8) :
    let tx : List Stim := [⟨.token PID_SETUP s.address 0, f₁⟩, ⟨.data PID_DATA0 bytes true, f₂⟩]
    let s₂ := final c s tx
    let r₂ := final c { init with address := s.address } tx
    s₂.stage = r₂.stage ∧ s₂.setup = r₂.setup ∧ s₂.setup = parseSetup bytes ∧ s₂.sdWait = r₂.sdWait ∧
    s₂.tokPid = r₂.tokPid ∧ s₂.tokEp = r₂.tokEp ∧
    ((parseSetup bytes).type = TYPE_STANDARD →
        s₂.hstate = r₂.hstate ∧ s₂.startPos = r₂.startPos ∧ s₂.txPid = r₂.txPid) ∧
    (run c s tx).map (·.2) = [.none, .hs PID_ACK] := by
  simp only [final, run, step, core, if_true, onToken, afterToken, tokenStage, onData, onSetupData, hlen,
    Resp.isNone, Resp.isData, Resp.dataLen, init]
  by_cases hty : (parseSetup bytes).type = TYPE_STANDARD <;> simp [hty]

/-- **C07 (other endpoints are stutter), tokens.** A non-SETUP token for another endpoint of the device
changes nothing but the token detector's outputs (and makes the setup decoder drop a half-received SETUP):
stage, latched SETUP, handler state, descriptor position, toggle and both registers are untouched, and the
control endpoint transmits nothing. -/
theorem other_endpoint_tokens_are_stutter (c : DevConfig) (s : DevState) (pid ep : Nat)
    (hep : ep ≠ 0) (hpid : pid ≠ PID_SETUP) :
    core c s (.token pid s.address ep) = ({ s with tokPid := pid, tokEp := ep, sdWait := false }, .none) := by
  unfold core onToken afterToken tokenStage
  simp [hep, hpid]

/-- **C07 (other endpoints are stutter), rest of the transaction.** While the last token names another
endpoint, neither the data packet nor the handshake of that transaction reaches the control endpoint: the
state is unchanged and the control endpoint transmits nothing (the bus carries the other endpoint's answer). -/
theorem other_endpoint_transactions_are_stutter (c : DevConfig) (s : DevState) (x : Stim)
    (hep : s.tokEp ≠ 0) (hw : s.sdWait = false)
    (hx : (∃ pid p ok, x.ev = .data pid p ok) ∨ (∃ pid, x.ev = .handshake pid)) :
    core c s x.ev = (s, .none) ∧ (step c s x).2 = x.foreign := by
  have key : core c s x.ev = (s, .none) := by
    rcases hx with ⟨pid, p, ok, hx⟩ | ⟨pid, hx⟩
    · rw [hx]; unfold core onData; simp [hw, hep]
    · rw [hx]; unfold core; simp only []
      rw [onHandshake_noreach]
      exact fun g => hep g.2.1
  refine ⟨key, ?_⟩
  rw [step_resp, key]
  simp [Resp.isNone, hep]

/-! ### Non-vacuity -/

def cfgOneDescriptor : DevConfig :=
  { descriptors := [(1, 0, [18, 1, 0, 2, 0, 0, 0, 64, 9, 18, 1, 0, 0, 1, 1, 2, 3, 1])], posBits := 5 }

/-- An abandoned SET_ADDRESS (the host never runs its status stage), then GET_DESCRIPTOR(device, 18) with its
data stage, and a bulk IN on endpoint 1 between the data and the status stage. -/
def abandonedThenGetDescriptor : List Stim :=
  [⟨.token PID_SETUP 0 0, .none⟩, ⟨.data PID_DATA0 [0x00, 5, 9, 0, 0, 0, 0, 0] true, .none⟩,
   ⟨.token PID_SETUP 0 0, .none⟩, ⟨.data PID_DATA0 [0x80, 6, 0, 1, 0, 0, 18, 0] true, .none⟩,
   ⟨.token PID_IN 0 0, .none⟩, ⟨.handshake PID_ACK, .none⟩,
   ⟨.token PID_IN 0 1, .data PID_DATA0 [7]⟩, ⟨.handshake PID_ACK, .none⟩,
   ⟨.token PID_OUT 0 0, .none⟩, ⟨.data PID_DATA1 [] true, .none⟩]

example : LegalHost cfgOneDescriptor abandonedThenGetDescriptor = true := by decide
example : (run cfgOneDescriptor init abandonedThenGetDescriptor).map (·.2) =
    [.none, .hs PID_ACK, .none, .hs PID_ACK,
     .data PID_DATA1 [18, 1, 0, 2, 0, 0, 0, 64, 9, 18, 1, 0, 0, 1, 1, 2, 3, 1], .none,
     .data PID_DATA0 [7], .none, .none, .hs PID_ACK] := by decide
example : (final cfgOneDescriptor init abandonedThenGetDescriptor).address = 0 := by decide

end LunaVerif.Device
