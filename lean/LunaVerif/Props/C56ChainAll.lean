import LunaVerif.Props.C56StreamChain
import LunaVerif.Props.C56SpiChain
/-!
# C56 — the multi-capture theorems cover EVERY history

`stream_capture_chain` / `spi_capture_chain_*` assume that the history is given cut at the accepted triggers (`ChainOK` /
`RoundsOK`).  Here: every history can be cut that way, so the hypothesis is no restriction.

* `spi_history_decomposes`: every input history of the SyncSerialILA is `pre ++ rounds ++ tail`: trigger-free cycles, complete
  rounds (trigger cycle, `depth` capture cycles, trigger-free cycles), and possibly a last trigger followed by fewer than `depth`
  cycles (a capture still running when the history ends).  Purely a fact about the trigger column: the SyncSerialILA accepts
  every trigger that arrives while the analyzer is idle.
* `stream_history_decomposes`: every input history of the StreamILA, from any idle state, is `pre ++ chain ++ tail` with
  `ChainOK` for the chain; the tail is empty, a trigger followed by at most `depth` cycles (capture not yet handed over), or a
  capture whose read-out is still in progress at the end.  `stream_history_frames`: hence the words transferred over ANY history
  are the complete frames of the captures of the chain followed by a prefix of the frame of the capture in progress.
-/

namespace LunaVerif.IlaSpi
open LunaVerif.Ila

theorem split_notrig (xs : List In) :
    ∃ a b, xs = a ++ b ∧ NoTrig a ∧ (b = [] ∨ ∃ x rest, b = x :: rest ∧ x.trigger = true) := by
  induction xs with
  | nil => exact ⟨[], [], rfl, (by simp [NoTrig]), Or.inl rfl⟩
  | cons x xs ih =>
    cases hx : x.trigger
    · obtain ⟨a, b, e, ha, hb⟩ := ih
      refine ⟨x :: a, b, by rw [e]; rfl, ?_, hb⟩
      intro y hy
      rcases List.mem_cons.mp hy with h | h
      · rw [h]; exact hx
      · exact ha y h
    · exact ⟨[], x :: xs, rfl, (by simp [NoTrig]), Or.inr ⟨x, xs, rfl, hx⟩⟩

/-- a history that is empty or starts with a trigger: complete rounds, then possibly a capture cut short by the end -/
theorem rounds_of (c : Config) : ∀ (n : Nat) (h : List In), h.length ≤ n →
    (h = [] ∨ ∃ x rest, h = x :: rest ∧ x.trigger = true) →
    ∃ rs tail, h = rs.flatMap Round.hist ++ tail ∧ RoundsOK c rs ∧
      (tail = [] ∨ ∃ x0 rest, tail = x0 :: rest ∧ x0.trigger = true ∧ rest.length < c.ila.depth) := by
  intro n
  induction n with
  | zero =>
    intro h hn _
    have : h = [] := List.eq_nil_of_length_eq_zero (by omega)
    exact ⟨[], [], by simp [this], (by simp [RoundsOK]), Or.inl rfl⟩
  | succ n ih =>
    intro h hn hh
    rcases hh with hh | ⟨x0, rest, e, ht⟩
    · exact ⟨[], [], by simp [hh], (by simp [RoundsOK]), Or.inl rfl⟩
    · by_cases hlen : rest.length < c.ila.depth
      · exact ⟨[], h, by simp, (by simp [RoundsOK]), Or.inr ⟨x0, rest, e, ht, hlen⟩⟩
      · obtain ⟨qs, b, e2, hq, hb⟩ := split_notrig (rest.drop c.ila.depth)
        have hbl : b.length ≤ n := by
          have h1 : (rest.drop c.ila.depth).length = qs.length + b.length := by rw [e2, List.length_append]
          rw [List.length_drop] at h1
          rw [e] at hn; simp only [List.length_cons] at hn
          omega
        obtain ⟨rs, tail, e3, hok, htail⟩ := ih b hbl hb
        refine ⟨⟨x0, rest.take c.ila.depth, qs⟩ :: rs, tail, ?_, ?_, htail⟩
        · rw [e]
          simp only [List.flatMap_cons, Round.hist, List.append_assoc, List.cons_append]
          rw [← e3, ← e2, List.take_append_drop]
        · intro r hr
          rcases List.mem_cons.mp hr with h1 | h1
          · rw [h1]
            exact ⟨ht, by simp only [List.length_take]; omega, hq⟩
          · exact hok r h1

/-- **spi_history_decomposes**: EVERY input history of the SyncSerialILA is of the form the chain theorems speak about: trigger-free
cycles, then complete rounds (`RoundsOK`), then possibly a trigger followed by fewer than `depth` cycles. -/
theorem spi_history_decomposes (c : Config) (h : List In) :
    ∃ pre rs tail, h = pre ++ rs.flatMap Round.hist ++ tail ∧ NoTrig pre ∧ RoundsOK c rs ∧
      (tail = [] ∨ ∃ x0 rest, tail = x0 :: rest ∧ x0.trigger = true ∧ rest.length < c.ila.depth) := by
  obtain ⟨pre, b, e, hp, hb⟩ := split_notrig h
  obtain ⟨rs, tail, e2, hok, htail⟩ := rounds_of c b.length b (Nat.le_refl _) hb
  exact ⟨pre, rs, tail, by rw [e, e2, List.append_assoc], hp, hok, htail⟩

/-- **spi_history_pins**: the whole-history form of `spi_capture_chain_pins`.  ANY history `u` from an idle analyzer (by
`spi_history_decomposes` it is `pre ++ rounds ++ tail`); if no capture is running at its end (`tail = []`) and at least one
capture was made (`rounds = rs ++ [r]`), then a chip-select window `ws` after four chip-select-low cycles, all without a trigger,
reads — at the controller's sampling edge number `E` — bit `bits_per_word - 1 - E mod bits_per_word` of sample
`⌊E / bits_per_word⌋` of the LAST capture `r`, whatever the earlier rounds captured and however often and how far they were read. -/
theorem spi_history_pins (c : Config) (hw : 4 ≤ c.spi.w) (hcs : c.spi.csIdlesHigh = false) (hm : c.spi.msbFirst = true)
    (hd : 1 ≤ c.ila.depth) (σ : State) (hσ : IdleState c.ila σ.core) (pre : List In) (hp : NoTrig pre)
    (rs : List Round) (r : Round) (hok : RoundsOK c (rs ++ [r]))
    (g1 g2 g3 g4 : In) (hg : AtRest [g1, g2, g3, g4]) (hclk : (g4.sck != c.spi.pol) = !c.spi.phase)
    (ws : List In) (hws : InWindow ws) (hout : clkAfter c.spi (g4.sck != c.spi.pol) ws = c.spi.phase) (y : In) :
    let σk := runState c σ (pre ++ rs.flatMap Round.hist)
    let s0 := runState c σ (pre ++ (rs ++ [r]).flatMap Round.hist ++ [g1, g2, g3, g4])
    let S := roundSamples c σk r.x0 r.xs
    let E := sampleEdges c.spi (g4.sck != c.spi.pol) ws
    some (step c (runState c s0 ws) y).2.sdo = (sampleWord c S (E / c.spi.w))[c.spi.w - 1 - E % c.spi.w]? := by
  intro σk s0 S E
  have hσ' := idle_quiet_run c pre σ hσ hp
  have hok1 : RoundsOK c rs := fun r' hr' => hok r' (by simp [hr'])
  obtain ⟨ht, hl, hq⟩ := hok r (by simp)
  have := spi_capture_chain_pins c hw hcs hm hd _ hσ' rs hok1 r.x0 ht r.xs hl r.qs hq g1 g2 g3 g4 hg hclk ws hws hout y
  simp only at this
  have e1 : σk = runState c (runState c σ pre) (rs.flatMap Round.hist) := by
    simp only [σk]; rw [runState_append]
  have e2 : s0 = runState c (runState c (runState c σ pre) (rs.flatMap Round.hist))
      (r.x0 :: r.xs ++ r.qs ++ [g1, g2, g3, g4]) := by
    simp only [s0, List.flatMap_append, List.flatMap_cons, List.flatMap_nil, List.append_nil, Round.hist]
    rw [runState_append, runState_append, runState_append, ← runState_append c (r.x0 :: r.xs ++ r.qs)]
  simp only [S]
  rw [e1, e2]
  exact this

/-! Non-vacuity (configuration and rounds of `Props/C56SpiChain.lean`): two rounds, the second one read partially before; then four
rest cycles and a window: after five clock periods and the output edge of the sixth (`E = 5`) `sdo` carries bit 2 of sample 1 of
round 2 (10 = 1010b: bit 2 is 0) -/
def round2X : Round := ⟨⟨true, 9, false, false, false⟩, cap2X, abortX⟩

example : RoundsOK cfgX ([round1X] ++ [round2X]) := by decide
example : NoTrig [restX, restX] := by decide
example : (step cfgX (runState cfgX (runState cfgX (init cfgX)
      ([restX, restX] ++ ([round1X] ++ [round2X]).flatMap Round.hist ++ [restX, restX, restX, restX]))
      (bitX ++ bitX ++ bitX ++ bitX ++ bitX ++ bitX.take 1)) restX).2.sdo = false ∧
    roundSamples cfgX (runState cfgX (init cfgX) ([restX, restX] ++ [round1X].flatMap Round.hist)) round2X.x0 round2X.xs = [9, 10] ∧
    (SpiDevice.natToBits 4 10)[4 - 1 - 5 % 4]? = some false := by decide +kernel

end LunaVerif.IlaSpi

namespace LunaVerif.IlaStream
open LunaVerif.Ila

theorem split_notrigger (xs : List In) :
    ∃ a b, xs = a ++ b ∧ (∀ x ∈ a, x.trigger = false) ∧ (b = [] ∨ ∃ x rest, b = x :: rest ∧ x.trigger = true) := by
  induction xs with
  | nil => exact ⟨[], [], rfl, (by simp), Or.inl rfl⟩
  | cons x xs ih =>
    cases hx : x.trigger
    · obtain ⟨a, b, e, ha, hb⟩ := ih
      refine ⟨x :: a, b, by rw [e]; rfl, ?_, hb⟩
      intro y hy
      rcases List.mem_cons.mp hy with h | h
      · rw [h]; exact hx
      · exact ha y h
    · exact ⟨[], x :: xs, rfl, (by simp), Or.inr ⟨x, xs, rfl, hx⟩⟩

/-- cut a continuation at the first cycle in which a new capture would start (wrapper idle and trigger high) -/
theorem split_retrigger (c : Config) (ys : List In) : ∀ s : State,
    ∃ a b, ys = a ++ b ∧ noRetrigger c s a ∧
      (b = [] ∨ ∃ y rest, b = y :: rest ∧ (runState c s a).fsm = .idle ∧ y.trigger = true) := by
  induction ys with
  | nil => intro s; exact ⟨[], [], rfl, trivial, Or.inl rfl⟩
  | cons y ys ih =>
    intro s
    by_cases hh : s.fsm = .idle ∧ y.trigger = true
    · exact ⟨[], y :: ys, rfl, trivial, Or.inr ⟨y, ys, rfl, hh.1, hh.2⟩⟩
    · obtain ⟨a, b, e, ha, hb⟩ := ih (step c s y).1
      refine ⟨y :: a, b, by rw [e]; rfl, ⟨?_, ha⟩, hb⟩
      intro hf
      cases ht : y.trigger
      · rfl
      · exact absurd ⟨hf, ht⟩ hh

/-- how a history can end: nothing pending; a trigger followed by at most `depth` cycles (capture not yet handed over); a capture
whose continuation starts no new capture (read-out possibly still in progress) -/
def TailOK (c : Config) (s : State) (tail : List In) : Prop :=
  tail = [] ∨ (∃ x0 rest, tail = x0 :: rest ∧ x0.trigger = true ∧ rest.length ≤ c.depth) ∨
  (∃ b : Capture, tail = b.hist ∧ b.x0.trigger = true ∧ b.xs.length = c.depth ∧
    noRetrigger c (runState c s (b.x0 :: b.xs ++ [b.xl])) b.ys)

theorem chain_of (c : Config) (hd : 1 ≤ c.depth) : ∀ (n : Nat) (h : List In) (σ : State), h.length ≤ n → WIdle c σ →
    (h = [] ∨ ∃ x rest, h = x :: rest ∧ x.trigger = true) →
    ∃ bs tail, h = bs.flatMap Capture.hist ++ tail ∧ ChainOK c σ bs ∧
      TailOK c (runState c σ (bs.flatMap Capture.hist)) tail := by
  intro n
  induction n with
  | zero =>
    intro h σ hn _ _
    have : h = [] := List.eq_nil_of_length_eq_zero (by omega)
    exact ⟨[], [], by simp [this], trivial, Or.inl rfl⟩
  | succ n ih =>
    intro h σ hn hσ hh
    rcases hh with hh | ⟨x0, rest, e, ht⟩
    · exact ⟨[], [], by simp [hh], trivial, Or.inl rfl⟩
    · by_cases hlen : rest.length ≤ c.depth
      · exact ⟨[], h, by simp, trivial, Or.inr (Or.inl ⟨x0, rest, e, ht, hlen⟩)⟩
      · cases hdrop : rest.drop c.depth with
        | nil =>
          have := congrArg List.length hdrop
          simp only [List.length_drop, List.length_nil] at this
          omega
        | cons xl r2 =>
          have hrest : rest = rest.take c.depth ++ xl :: r2 := by rw [← hdrop, List.take_append_drop]
          have hxs : (rest.take c.depth).length = c.depth := by simp only [List.length_take]; omega
          obtain ⟨ys, b', e2, hq, hb⟩ := split_retrigger c r2 (runState c σ (x0 :: rest.take c.depth ++ [xl]))
          have hhist : h = Capture.hist ⟨x0, rest.take c.depth, xl, ys⟩ ++ b' := by
            rw [e]
            simp only [Capture.hist, List.cons_append, List.append_assoc]
            rw [← e2, ← hrest]
          rcases hb with hb | ⟨y, rest', eb, hidle, hy⟩
          · refine ⟨[], h, by simp, trivial, Or.inr (Or.inr ⟨⟨x0, rest.take c.depth, xl, ys⟩, ?_, ht, hxs, hq⟩)⟩
            rw [hhist, hb, List.append_nil]
          · have hi : (runState c σ (Capture.hist ⟨x0, rest.take c.depth, xl, ys⟩)).fsm = .idle := by
              have hsplit : Capture.hist ⟨x0, rest.take c.depth, xl, ys⟩ = (x0 :: rest.take c.depth ++ [xl]) ++ ys := by
                simp [Capture.hist]
              rw [hsplit, runState_append]; exact hidle
            obtain ⟨_, hW, _⟩ := chain_link c hd σ hσ ⟨x0, rest.take c.depth, xl, ys⟩ ht hxs hq hi
            have hbl : b'.length ≤ n := by
              have h1 := congrArg List.length hhist
              simp only [List.length_append, Capture.hist, List.length_cons] at h1
              omega
            obtain ⟨bs, tail, e3, hok, htail⟩ := ih b' _ hbl hW (Or.inr ⟨y, rest', eb, hy⟩)
            refine ⟨⟨x0, rest.take c.depth, xl, ys⟩ :: bs, tail, ?_, ⟨ht, hxs, hq, hi, hok⟩, ?_⟩
            · rw [hhist, e3]; simp only [List.flatMap_cons, List.append_assoc]
            · simp only [List.flatMap_cons, runState_append]; exact htail

/-- **stream_history_decomposes**: EVERY input history of the StreamILA, from any idle state (`init_WIdle`), is of the form the
chain theorems speak about: trigger-free cycles, a chain of captures cut at the accepted triggers (`ChainOK`), and a tail
(`TailOK`). -/
theorem stream_history_decomposes (c : Config) (hd : 1 ≤ c.depth) (h : List In) (σ : State) (hσ : WIdle c σ) :
    ∃ pre bs tail, h = pre ++ bs.flatMap Capture.hist ++ tail ∧ (∀ x ∈ pre, x.trigger = false) ∧
      ChainOK c (runState c σ pre) bs ∧ TailOK c (runState c σ (pre ++ bs.flatMap Capture.hist)) tail := by
  obtain ⟨pre, b, e, hp, hb⟩ := split_notrigger h
  obtain ⟨_, hW⟩ := stream_idle_prefix c pre σ hp hσ
  obtain ⟨bs, tail, e2, hok, htail⟩ := chain_of c hd b.length b _ (Nat.le_refl _) hW hb
  refine ⟨pre, bs, tail, by rw [e, e2, List.append_assoc], hp, hok, ?_⟩
  rw [runState_append]; exact htail

/-- a trigger followed by at most `depth` cycles: nothing is transferred yet -/
theorem truncated_quiet (c : Config) (hd : 1 ≤ c.depth) (σ : State) (hσ : WIdle c σ) (x0 : In) (ht : x0.trigger = true)
    (rest : List In) (hl : rest.length ≤ c.depth) : transfers c σ (x0 :: rest) = [] := by
  let full := rest ++ List.replicate (c.depth + 1 - rest.length) x0
  have hfl : full.length = c.depth + 1 := by simp only [full, List.length_append, List.length_replicate]; omega
  have hne : full ≠ [] := by intro h; rw [h] at hfl; simp at hfl
  have hsplit : full = full.dropLast ++ [full.getLast hne] := (List.dropLast_concat_getLast hne).symm
  have hdl : full.dropLast.length = c.depth := by rw [List.length_dropLast, hfl]; rfl
  obtain ⟨t0, _⟩ := capture_then_sending c hd σ hσ x0 ht full.dropLast hdl (full.getLast hne)
  have e : x0 :: full.dropLast ++ [full.getLast hne] = (x0 :: rest) ++ List.replicate (c.depth + 1 - rest.length) x0 := by
    rw [List.cons_append, ← hsplit]; rfl
  rw [e, transfers_append] at t0
  exact (List.append_eq_nil_iff.mp t0).1

/-- **stream_history_frames**: the words transferred over ANY history `h` of the StreamILA from an idle state: with the
decomposition of `stream_history_decomposes`, they are the complete framed buffers of the captures of the chain, in order,
followed by the first `k` words of the frame of the capture whose read-out is in progress at the end (none if no capture has been
handed over yet; all `depth` if the wrapper is idle at the end) — each captured sample at most once, in order, never a sample of
an earlier capture after one of a later capture. -/
theorem stream_history_frames (c : Config) (hd : 1 ≤ c.depth) (h : List In) (σ : State) (hσ : WIdle c σ) :
    ∃ pre bs tail, h = pre ++ bs.flatMap Capture.hist ++ tail ∧ (∀ x ∈ pre, x.trigger = false) ∧
      ChainOK c (runState c σ pre) bs ∧
      ((tail = [] ∨ (∃ x0 rest, tail = x0 :: rest ∧ x0.trigger = true ∧ rest.length ≤ c.depth)) ∧
          transfers c σ h = capturedFrames c (runState c σ pre) bs ∨
       ∃ (b : Capture) (k : Nat), tail = b.hist ∧ b.x0.trigger = true ∧ b.xs.length = c.depth ∧
          transfers c σ h = capturedFrames c (runState c σ pre) bs ++
            (frame (capSamples c (runState c σ (pre ++ bs.flatMap Capture.hist)) b)).take k ∧
          ((runState c σ h).fsm = .idle → c.depth ≤ k)) := by
  obtain ⟨pre, bs, tail, e, hp, hok, htail⟩ := stream_history_decomposes c hd h σ hσ
  obtain ⟨p1, hW⟩ := stream_idle_prefix c pre σ hp hσ
  obtain ⟨c1, hW2⟩ := stream_capture_chain c hd bs _ hW hok
  have hT : transfers c σ h = capturedFrames c (runState c σ pre) bs ++
      transfers c (runState c σ (pre ++ bs.flatMap Capture.hist)) tail := by
    rw [e, transfers_append, transfers_append, p1, c1, List.nil_append, runState_append]
  have hR : runState c σ h = runState c (runState c σ (pre ++ bs.flatMap Capture.hist)) tail := by
    rw [e, runState_append]
  rw [← runState_append] at hW2
  refine ⟨pre, bs, tail, e, hp, hok, ?_⟩
  rcases htail with ht | ⟨x0, rest, et, ht, hl⟩ | ⟨b, eb, ht, hl, hq⟩
  · exact Or.inl ⟨Or.inl ht, by rw [hT, ht]; simp [transfers]⟩
  · refine Or.inl ⟨Or.inr ⟨x0, rest, et, ht, hl⟩, ?_⟩
    rw [hT, et, truncated_quiet c hd _ hW2 x0 ht rest hl, List.append_nil]
  · obtain ⟨k, h1, h2⟩ := stream_readout_any c hd _ hW2 b.x0 ht b.xs hl b.xl b.ys hq
    refine Or.inr ⟨b, k, eb, ht, hl, ?_, ?_⟩
    · rw [hT, eb]; exact congrArg _ h1
    · rw [hR, eb]; exact h2

end LunaVerif.IlaStream

namespace LunaVerif.IlaCdc
open LunaVerif.Ila

/-- **cdc_history_frames**: StreamILA with `o_domain != domain`, ANY legal two-clock history from an idle wrapper: with the
capture-domain cycles decomposed as in `stream_history_decomposes`, the words received on the output-domain stream followed by the
words still in the FIFO are the FIFO contents at the start followed by the complete frames of the captures of the chain, in
order, and a prefix of the frame of the capture whose read-out is in progress at the end. -/
theorem cdc_history_frames (c : Config) (hd : 1 ≤ c.depth) (σ : State) (hσ : IlaStream.WIdle c σ.ila) (es : List Ev)
    (hL : Legal c σ es) :
    ∃ pre bs tail, wHist es = pre ++ bs.flatMap IlaStream.Capture.hist ++ tail ∧ (∀ x ∈ pre, x.trigger = false) ∧
      IlaStream.ChainOK c (IlaStream.runState c σ.ila pre) bs ∧
      ((tail = [] ∨ (∃ x0 rest, tail = x0 :: rest ∧ x0.trigger = true ∧ rest.length ≤ c.depth)) ∧
          outWords c σ es ++ (runState c σ es).q =
            σ.q ++ IlaStream.capturedFrames c (IlaStream.runState c σ.ila pre) bs ∨
       ∃ (b : IlaStream.Capture) (k : Nat), tail = b.hist ∧ b.x0.trigger = true ∧ b.xs.length = c.depth ∧
          outWords c σ es ++ (runState c σ es).q =
            σ.q ++ (IlaStream.capturedFrames c (IlaStream.runState c σ.ila pre) bs ++
              (IlaStream.frame (IlaStream.capSamples c
                (IlaStream.runState c σ.ila (pre ++ bs.flatMap IlaStream.Capture.hist)) b)).take k) ∧
          ((runState c σ es).ila.fsm = .idle → c.depth ≤ k)) := by
  obtain ⟨h1, h2⟩ := queue_conservation c es σ hL
  obtain ⟨pre, bs, tail, e, hp, hok, hcase⟩ := IlaStream.stream_history_frames c hd (wHist es) σ.ila hσ
  refine ⟨pre, bs, tail, e, hp, hok, ?_⟩
  rcases hcase with ⟨ht, hx⟩ | ⟨b, k, eb, ht, hl, hx, hi⟩
  · exact Or.inl ⟨ht, by rw [h1, hx]⟩
  · exact Or.inr ⟨b, k, eb, ht, hl, by rw [h1, hx], fun h => hi (by rw [← h2]; exact h)⟩

end LunaVerif.IlaCdc
