import LunaVerif.Model.Usb2.IsoStreamOut
import LunaVerif.Props.C18
/-!
# C16 — Isochronous OUT endpoints deliver only whole, CRC-valid packets   (glue over the queue; end to end: `Props/C16Stream.lean`)

"The output stream consists of complete payloads of CRC-valid packets addressed to the endpoint, each
marked first on its first byte and last on its final byte, in order; when buffer space runs out a
packet is dropped as a whole rather than truncated, and corrupted packets contribute nothing."

The model (`Model/Usb2/IsoStreamOut.lean`) is the *repaired* endpoint (accept decision taken on the
first byte of a packet and latched); it is co-simulated cycle by cycle against the gateware.

Proved here, on the endpoint glue over the commit/rollback queue that C18 shows the FIFO to be
(`fifo_refines_queue`), for every depth, max packet size, fill level and consumer behaviour:

* `iso_fifo_inputs_legal` — the glue always drives the FIFO inside C18's precondition;
* `queue_accepts_burst` — if `k` writes are requested while at least `k` entries are free at the start,
  none is refused, whatever the reader does in between;
* `iso_out_whole_packets_only_partial` — the uncommitted part of the queue after the byte cycles of one
  packet (≤ max_packet_size bytes, any wait cycles, any consumer behaviour) is either *all* of the
  packet's entries, with their first/last marks (when `max_packet_size` entries were free at its first
  byte), or *nothing*: never a proper prefix.  The completion strobe then commits exactly that
  (`Queue.step`: commit appends W to the readable part, discard erases it), so by `queue_conserves` the
  consumer is handed whole packets only, in order.

Full statement — proved end to end over raw cycle-level receive histories in `Props/C16Stream.lean`
(`iso_out_whole_packets_only`, with `Lemmas/C16Host.lean` for the detector by phase and C18's `Rel`/`rel_step`
for the FIFO):
  `iso_out_whole_packets_only` : consumer transfers = concatenation, in order, of `marked` payloads of the
  CRC-valid packets addressed to the endpoint whose first byte found `max_packet_size` free entries.
-/
namespace LunaVerif.IsoStreamOut
open LunaVerif LunaVerif.TxnFifo

theorem iso_fifo_inputs_legal (c : Config) (s : State) (i : In)
    (hdet : ¬(s.det.out.completeOut = true ∧ s.det.out.invalidOut = true)) :
    Legal (fifoIn c s i) := by
  simp only [Legal, fifoIn]
  grind

/-! ## The queue never refuses a burst that fits -/

/-- a cycle that neither commits nor discards on the write side and does not discard reads -/
def Plain (i : TxnFifo.In α) : Prop := i.wcommit = false ∧ i.wdiscard = false ∧ i.rdiscard = false

def runQ (depth : Nat) : Queue α → List (TxnFifo.In α) → Queue α
  | q, [] => q
  | q, i :: is => runQ depth (q.step depth i) is

def writesOf (is : List (TxnFifo.In α)) : List α := (is.filter (·.wen)).map (·.wdata)

theorem plain_step (depth : Nat) (q : Queue α) (i : TxnFifo.In α) (hp : Plain i)
    (hroom : i.wen = true → q.held < depth) :
    (q.step depth i).W = q.W ++ (if i.wen then [i.wdata] else []) ∧
    (q.step depth i).held ≤ q.held + (if i.wen then 1 else 0) := by
  obtain ⟨R, C, W⟩ := q
  obtain ⟨wdata, wen, wcommit, wdiscard, ren, rcommit, rdiscard⟩ := i
  obtain ⟨h1, h2, h3⟩ := hp
  simp only at h1 h2 h3 hroom
  subst h1 h2 h3
  have hne : wen = true → ((R.length + C.length + W.length == depth) = false) := by
    intro h; have := hroom h; simp only [Queue.held] at this; simp; omega
  cases wen <;> cases rcommit <;> cases C <;> cases ren <;>
    simp_all [Queue.step, Queue.held] <;> omega

theorem queue_accepts_burst (depth : Nat) (q : Queue α) (is : List (TxnFifo.In α))
    (hp : ∀ i ∈ is, Plain i) (hroom : q.held + (writesOf is).length ≤ depth) :
    (runQ depth q is).W = q.W ++ writesOf is ∧ (runQ depth q is).held ≤ q.held + (writesOf is).length := by
  induction is generalizing q with
  | nil => simp [runQ, writesOf]
  | cons i is ih =>
    have hpi := hp i (by simp)
    have hlen : (writesOf (i :: is)).length = (if i.wen then 1 else 0) + (writesOf is).length := by
      cases h : i.wen <;> simp [writesOf, h] <;> omega
    have hr : i.wen = true → q.held < depth := by
      intro h; rw [hlen, h] at hroom; simp at hroom; omega
    obtain ⟨hW, hH⟩ := plain_step depth q i hpi hr
    have := ih (q.step depth i) (fun j hj => hp j (by simp [hj])) (by rw [hlen] at hroom; omega)
    simp only [runQ]
    refine ⟨?_, ?_⟩
    · rw [this.1, hW]; cases h : i.wen <;> simp [writesOf, h]
    · rw [hlen]; omega

/-! ## The glue over the queue: one packet -/

/-- one cycle of a packet as the glue sees it: a byte of the processed stream (payload, first, last) or
a wait cycle, and what the consumer does -/
structure Cyc where
  byte  : Option (Nat × Bool × Bool)
  ready : Bool

/-- the glue (`fifoIn` / `packet_fits` of the model) over the queue, while the endpoint is targeted and
no completion strobe is present -/
def glueIn (mps depth : Nat) (q : Queue Nat) (fits : Bool) (cy : Cyc) : TxnFifo.In Nat :=
  match cy.byte with
  | none => ⟨0, false, false, false, cy.ready, true, false⟩
  | some (p, f, l) =>
    let accept := if f then decide (mps ≤ depth - q.held) else fits
    ⟨entry p l f, accept, false, false, cy.ready, true, false⟩

def glueFits (mps depth : Nat) (q : Queue Nat) (fits : Bool) (cy : Cyc) : Bool :=
  match cy.byte with
  | some (_, true, _) => decide (mps ≤ depth - q.held)
  | _ => fits

def glueRun (mps depth : Nat) : Queue Nat × Bool → List Cyc → Queue Nat × Bool
  | s, [] => s
  | (q, fits), cy :: cs =>
    glueRun mps depth (q.step depth (glueIn mps depth q fits cy), glueFits mps depth q fits cy) cs

def entriesOf (cs : List Cyc) : List Nat :=
  cs.filterMap (fun cy => cy.byte.map (fun (p, f, l) => entry p l f))

/-- the cycles after the first byte: no further byte is marked first -/
def NoFirst (cs : List Cyc) : Prop := ∀ cy ∈ cs, ∀ p f l, cy.byte = some (p, f, l) → f = false

theorem glue_rest (mps depth : Nat) (q : Queue Nat) (fits : Bool) (cs : List Cyc) (hnf : NoFirst cs)
    (hroom : fits = true → q.held + (entriesOf cs).length ≤ depth) :
    (glueRun mps depth (q, fits) cs).1.W = q.W ++ (if fits then entriesOf cs else []) := by
  induction cs generalizing q with
  | nil => cases fits <;> simp [glueRun, entriesOf]
  | cons cy cs ih =>
    have hnf' : NoFirst cs := fun c hc => hnf c (by simp [hc])
    obtain ⟨byte, ready⟩ := cy
    cases byte with
    | none =>
      have hp : Plain (glueIn mps depth q fits ⟨none, ready⟩) := by simp [glueIn, Plain]
      obtain ⟨hW, hH⟩ := plain_step depth q _ hp (by simp [glueIn])
      have := ih (q.step depth (glueIn mps depth q fits ⟨none, ready⟩)) hnf'
        (by intro h; have := hroom h; simp [entriesOf, glueIn] at this hH ⊢; omega)
      simp only [glueRun, glueFits]
      rw [this, hW]; simp [glueIn, entriesOf]
    | some b =>
      obtain ⟨p, f, l⟩ := b
      have hf : f = false := hnf ⟨some (p, f, l), ready⟩ (by simp) p f l rfl
      subst hf
      have hp : Plain (glueIn mps depth q fits ⟨some (p, false, l), ready⟩) := by simp [glueIn, Plain]
      have hlen : (entriesOf (⟨some (p, false, l), ready⟩ :: cs)).length = 1 + (entriesOf cs).length := by
        simp [entriesOf]; omega
      obtain ⟨hW, hH⟩ := plain_step depth q _ hp
        (by intro h; simp [glueIn] at h; have := hroom h; rw [hlen] at this; omega)
      have hw : (glueIn mps depth q fits ⟨some (p, false, l), ready⟩).wen = fits := by simp [glueIn]
      have := ih (q.step depth (glueIn mps depth q fits ⟨some (p, false, l), ready⟩)) hnf'
        (by intro h; subst h; have := hroom rfl; rw [hlen] at this; rw [hw] at hH; simp at hH; omega)
      simp only [glueRun, glueFits]
      rw [this, hW]
      cases fits <;> simp [glueIn, entriesOf]

/-- **C16 (partial)**: a packet is written as a whole or not at all.  From any queue state, for the
cycles of one packet starting at its first byte (marked first), with at most `mps` bytes, any wait
cycles and any consumer behaviour: the uncommitted part grows by *all* entries of the packet if `mps`
entries were free at the first byte, and by *nothing* otherwise. -/
theorem iso_out_whole_packets_only_partial (mps depth : Nat) (q : Queue Nat) (fits0 : Bool)
    (p : Nat) (l ready : Bool) (rest : List Cyc) (hq : q.held ≤ depth) (hnf : NoFirst rest)
    (hsize : 1 + (entriesOf rest).length ≤ mps) :
    (glueRun mps depth (q, fits0) (⟨some (p, true, l), ready⟩ :: rest)).1.W
      = q.W ++ (if mps ≤ depth - q.held then entriesOf (⟨some (p, true, l), ready⟩ :: rest) else []) := by
  have hp : Plain (glueIn mps depth q fits0 ⟨some (p, true, l), ready⟩) := by simp [glueIn, Plain]
  obtain ⟨hW, hH⟩ := plain_step depth q _ hp (by intro h; simp [glueIn] at h; omega)
  have hw : (glueIn mps depth q fits0 ⟨some (p, true, l), ready⟩).wen = decide (mps ≤ depth - q.held) := by
    simp [glueIn]
  simp only [glueRun, glueFits]
  rw [glue_rest mps depth _ _ rest hnf
    (by intro h; simp at h; rw [hw] at hH; simp [h] at hH; omega), hW]
  by_cases h : mps ≤ depth - q.held <;> simp [glueIn, entriesOf, h]

/-- Non-vacuity / the F9 witness on the repaired glue: depth 8, mps 4, five entries resident (one free
slot more than needed is *not* there: 3 free) → the 2-byte packet is dropped whole; with four free
entries it is written whole. -/
example : (glueRun 4 8 (⟨[], [1, 2, 3, 4, 9], []⟩, false)
    [⟨some (5, true, false), false⟩, ⟨none, true⟩, ⟨some (6, false, true), false⟩]).1.W = [] := by decide
example : (glueRun 4 8 (⟨[], [1, 2, 3, 4], []⟩, false)
    [⟨some (5, true, false), false⟩, ⟨none, false⟩, ⟨some (6, false, true), false⟩]).1.W
      = [entry 5 false true, entry 6 true false] := by decide

end LunaVerif.IsoStreamOut
