import LunaVerif.Lemmas.StreamGenSpec
/-!
# C27 — Constant-stream generators emit exactly the requested slice

"For any constant data, payload width, start position within the data and maximum length, a started
generator emits the data from the start position onward, limited to the maximum length in bytes, with
'first' on the first word, 'last' on the final word, per-byte valid bits covering exactly the bytes
sent in a partial final word, and then pulses 'done'; it emits nothing when the length limit is zero.
The serializer variant behaves the same for its runtime data array."

The specification (`Lemmas/StreamGenSpec.lean`) is a *player* `Spec`: a request (start strobe with
`max_length > 0` while idle) selects the words `xfer c s M 0 … xfer c s M (N-1)`, computed directly from
the constant bytes (`budget` = min(max_length, bytes from the start position), `N = ⌈budget / wb⌉`); the
player presents word `k` unchanged until it is taken, after the last word it pulses `done` for one cycle
and is idle again.
-/
namespace LunaVerif.StreamGen

theorem nWords_le_len (c : Config) (hc : c.Valid) : nWords c ≤ c.data.length := by
  obtain ⟨hwb, hlen, _, _⟩ := hc
  unfold nWords
  generalize c.wb = wb at *
  rcases hwb with rfl | rfl | rfl <;> omega

theorem nXfers_pos (c : Config) (hc : c.Valid) (s M : Nat) (hs : s < nWords c) (hM : 0 < M) :
    0 < nXfers c s M := by
  obtain ⟨hwb, hlen, _, _⟩ := hc
  unfold nXfers budget
  unfold nWords at hs
  generalize c.wb = wb at *
  rcases hwb with rfl | rfl | rfl <;> omega

theorem pos_in_range (c : Config) (hc : c.Valid) (s M k : Nat) (hs : s < nWords c) (hk : k < nXfers c s M) :
    s + k < nWords c := by
  obtain ⟨hwb, hlen, _, _⟩ := hc
  unfold nXfers budget at hk
  unfold nWords at hs ⊢
  generalize c.wb = wb at *
  rcases hwb with rfl | rfl | rfl <;> omega

theorem outLen_eq (c : Config) (m : Nat) :
    (if m < c.data.length then m else c.data.length) = outLen c m := by
  unfold outLen; split <;> omega

theorem bytes_no_wrap (c : Config) (hc : c.Valid) (s M k : Nat) (hk : k + 1 < nXfers c s M) :
    k * c.wb + c.wb = (k + 1) * c.wb ∧ (k + 1) * c.wb < M := by
  obtain ⟨hwb, hlen, _, _⟩ := hc
  unfold nXfers budget at hk
  generalize c.wb = wb at *
  rcases hwb with rfl | rfl | rfl <;> omega

/-- One clock cycle: related states produce the same port values and stay related. -/
theorem step_sim (c : Config) (hc : c.Valid) (σ : State) (q : Spec) (i : In) (hR : R c σ q) (hE : Env c q i) :
    (step c σ i).2 = specOut c q ∧ R c (step c σ i).1 (specNext c q i) := by
  obtain ⟨f, pos, bs, ml, rd⟩ := σ
  cases q with
  | idle m =>
    obtain ⟨hf, hm⟩ := hR
    simp only at hf hm; subst hf hm
    obtain ⟨hml, hsp⟩ := hE
    refine ⟨by simp [step, specOut, outLen_eq], ?_⟩
    by_cases hgo : i.start = true ∧ 0 < i.maxLength
    · have hs := hsp hgo.1 hgo.2
      have hW := nWords_le_len c hc
      have hP := le_two_pow_rangeWidth (nWords c)
      have e1 : ¬ (i.startPosition ≥ c.data.length) := by omega
      have e2 : i.startPosition % 2 ^ rangeWidth (nWords c) = i.startPosition := Nat.mod_eq_of_lt (by omega)
      simp only [step, specNext, hgo, and_self, if_true, e1, if_false, e2, R, decide_true,
        Bool.and_self, Nat.add_zero, Nat.zero_mul, true_and]
      exact ⟨nXfers_pos c hc _ _ hs hgo.2, hs, hml⟩
    · have : (i.start && decide (i.maxLength > 0)) = false := by
        cases hst : i.start <;> simp_all
      simp [step, specNext, hgo, this, R]
  | done m =>
    obtain ⟨hf, hm⟩ := hR
    simp only at hf hm; subst hf hm
    refine ⟨by simp [step, specOut, outLen_eq], by simp [step, specNext, R]⟩
  | play s M k =>
    obtain ⟨hf, hp, hb, hm, hr, hk, hs, hM⟩ := hR
    simp only at hf hp hb hm hr; subst hf hp hb hr; subst hm
    have hE : i.startPosition = s := hE
    have hpos := pos_in_range c hc s ml k hs hk
    have hlast := onLast_eq c hc s ml k hpos hk
    have hmask := validMask_eq c hc s ml k hpos hk
    constructor
    · have hfirst : (s + k == s) = (k == 0) := by
        by_cases h0 : k = 0
        · subst h0; simp
        · have a : (s + k == s) = false := beq_eq_false_iff_ne.mpr (by omega)
          have b : (k == 0) = false := beq_eq_false_iff_ne.mpr h0
          rw [a, b]
      have hl2 : decide (k + 1 = nXfers c s ml) = (k + 1 == nXfers c s ml) := by
        by_cases h0 : k + 1 = nXfers c s ml <;> simp [h0]
      simp only [step, specOut, hlast, hmask, xfer, romRead_eq c _ hpos, hE, outLen_eq, hfirst, hl2]
    · by_cases hrd : i.ready = true
      · by_cases hl : k + 1 = nXfers c s ml
        · simp [step, specNext, hlast, hrd, hl, R]
        · have hk1 : k + 1 < nXfers c s ml := by omega
          obtain ⟨b1, b2⟩ := bytes_no_wrap c hc s ml k hk1
          have hpos1 := pos_in_range c hc s ml (k + 1) hs hk1
          have hP := le_two_pow_rangeWidth (nWords c)
          have e2 : (s + k + 1) % 2 ^ rangeWidth (nWords c) = s + (k + 1) := by
            rw [Nat.mod_eq_of_lt (by omega)]; omega
          have e3 : (k * c.wb + c.wb) % 2 ^ c.mlw = (k + 1) * c.wb := by
            rw [b1, Nat.mod_eq_of_lt (by omega)]
          simp only [step, specNext, hlast, hrd, hl, decide_false, Bool.not_false, Bool.and_true,
            Bool.and_false, Bool.false_eq_true, if_true, if_false, e2, e3, R, true_and]
          exact ⟨hk1, hs, hM⟩
      · have hrd' : i.ready = false := by simpa using hrd
        simp only [step, specNext, hrd', Bool.false_and, Bool.false_eq_true, if_false, R, true_and]
        exact ⟨hk, hs, hM⟩

theorem R_init (c : Config) : R c (init c) (.idle 0) := by simp [R, init]

theorem run_sim (c : Config) (hc : c.Valid) (σ : State) (q : Spec) (hR : R c σ q) (hist : List In)
    (hE : EnvRun c q hist) : run c σ hist = specRun c q hist := by
  induction hist generalizing σ q with
  | nil => rfl
  | cons x xs ih =>
    obtain ⟨h1, h2⟩ := step_sim c hc σ q x hR hE.1
    simp only [run, specRun]
    rw [h1, ih _ _ h2 hE.2]

/-- **emits_slice** (main theorem): for every valid configuration and every input history — any
sequence of requests (start position within the data, any max_length), any ready pattern including
stalls on the last word, starts while busy — the ports of the generator (valid mask, payload, first,
last, done, output_length) are, cycle by cycle, those of the player of the requested slices. -/
theorem emits_slice (c : Config) (hc : c.Valid) (hist : List In) (hE : EnvRun c (.idle 0) hist) :
    run c (init c) hist = specRun c (.idle 0) hist :=
  run_sim c hc _ _ (R_init c) hist hE


/-! ## The clauses of the property, read off the player -/

/-- **first_last_flags**: word `k` of an emission carries `first` iff it is word 0 and `last` iff it is the
final word `N-1`; its payload is the `wb` bytes of the constant at word offset `s + k`. -/
theorem first_last_flags (c : Config) (s M k : Nat) :
    (xfer c s M k).first = (k == 0) ∧ (xfer c s M k).last = (k + 1 == nXfers c s M) ∧
    (xfer c s M k).payload = wordOf c.big ((c.data.drop ((s + k) * c.wb)).take c.wb) := ⟨rfl, rfl, rfl⟩

/-- **valid_mask_partial_word**: with per-byte valid bits, every word before the final one has all `wb`
bits set, and the final word has exactly as many (low) bits set as bytes of the budget remain — between
1 and `wb`; over the whole emission exactly `budget = min(max_length, bytes from the start position)`
bytes are marked valid. -/
theorem valid_mask_partial_word (c : Config) (hc : c.Valid) (hv : c.vw ≠ 1) (s M k : Nat)
    (hk : k < nXfers c s M) :
    (k + 1 < nXfers c s M → (xfer c s M k).valid = ones c.wb) ∧
    (k + 1 = nXfers c s M → (xfer c s M k).valid = ones (budget c s M - k * c.wb) ∧
      1 ≤ budget c s M - k * c.wb ∧ budget c s M - k * c.wb ≤ c.wb ∧
      k * c.wb + (budget c s M - k * c.wb) = budget c s M) := by
  obtain ⟨hwb, _, _, _⟩ := hc
  simp only [xfer, hv, if_false]
  unfold nXfers at hk ⊢
  generalize budget c s M = B at *
  generalize c.wb = wb at *
  constructor
  · intro h
    have : min wb (B - k * wb) = wb := by rcases hwb with rfl | rfl | rfl <;> omega
    rw [this]
  · intro h
    have : min wb (B - k * wb) = B - k * wb := by rcases hwb with rfl | rfl | rfl <;> omega
    rw [this]
    refine ⟨rfl, ?_⟩
    rcases hwb with rfl | rfl | rfl <;> omega

/-- **done_once**: `done` is high exactly in the player's `done` phase, which lasts one cycle, is entered
only by taking the final word of an emission, and is followed by idle. -/
theorem done_once (c : Config) (q : Spec) (i : In) :
    ((specOut c q).done = true ↔ ∃ m, q = .done m) ∧
    (∀ m, q = .done m → specNext c q i = .idle m) ∧
    (∀ m, specNext c q i = .done m ↔ ∃ s k, q = .play s m k ∧ i.ready = true ∧ k + 1 = nXfers c s m) := by
  refine ⟨?_, ?_, ?_⟩
  · cases q <;> simp [specOut]
  · rintro m rfl; rfl
  · intro m
    cases q with
    | idle m' => simp only [specNext]; split <;> simp
    | done m' => simp [specNext]
    | play s M k =>
      constructor
      · intro h
        simp only [specNext] at h
        by_cases hr : i.ready = true
        · by_cases hl : k + 1 = nXfers c s M
          · simp [hr, hl] at h; subst h; exact ⟨s, k, rfl, hr, hl⟩
          · simp [hr, hl] at h
        · simp [hr] at h
      · rintro ⟨s', k', hq, hr, hl⟩
        injection hq with h1 h2 h3
        subst h1 h2 h3
        simp [specNext, hr, hl]

/-- a word is presented unchanged until it is taken -/
theorem word_held_until_taken (c : Config) (s M k : Nat) (i : In) (h : i.ready = false) :
    specNext c (.play s M k) i = .play s M k := by simp [specNext, h]

/-- **nothing_when_len_zero**: while the length limit is zero an idle generator emits nothing and never
reports `done`, whatever `start` does. -/
theorem nothing_when_len_zero (c : Config) (σ : State) (hσ : σ.fsm = .idle) (hist : List In)
    (h0 : ∀ x ∈ hist, x.maxLength = 0) :
    ∀ o ∈ run c σ hist, o.valid = 0 ∧ o.first = false ∧ o.last = false ∧ o.done = false := by
  induction hist generalizing σ with
  | nil => intro o ho; simp [run] at ho
  | cons x xs ih =>
    have hx := h0 x (List.mem_cons_self ..)
    obtain ⟨f, pos, bs, ml, rd⟩ := σ
    simp only at hσ; subst hσ
    intro o ho
    simp only [run, List.mem_cons] at ho
    rcases ho with rfl | ho
    · simp [step]
    · refine ih _ ?_ (fun y hy => h0 y (List.mem_cons_of_mem _ hy)) o ho
      simp [step, hx]

/-! ## StreamSerializer -/

/-- player for the serializer: words are counted, data and max_length are live inputs -/
inductive SerSpec
  | idle
  | play (s M k : Nat)
  | done
deriving DecidableEq, Repr

/-- number of words of a serializer emission -/
def serCount (c : SerConfig) (s M : Nat) : Nat := min M (c.n - s)

def serLimit (c : SerConfig) (i : SerIn) : Nat := if c.mlw != 0 then i.maxLength else c.n

def serSpecOut (c : SerConfig) : SerSpec → SerIn → SerOut
  | .idle, _ => ⟨false, 0, false, false, false⟩
  | .play s M k, i =>
    ⟨true, (match i.data[s + k]? with | some v => v | none => i.data.getLastD 0), k == 0, k + 1 == serCount c s M, false⟩
  | .done, _ => ⟨false, 0, false, false, true⟩

def serSpecNext (c : SerConfig) : SerSpec → SerIn → SerSpec
  | .idle, i => if i.start = true ∧ 0 < serLimit c i then .play i.startPosition (serLimit c i) 0 else .idle
  | .play s M k, i => if i.ready then (if k + 1 = serCount c s M then .done else .play s M (k + 1)) else .play s M k
  | .done, _ => .idle

def serSpecRun (c : SerConfig) : SerSpec → List SerIn → List SerOut
  | _, [] => []
  | q, x :: xs => serSpecOut c q x :: serSpecRun c (serSpecNext c q x) xs

/-- Environment of the serializer: requests name a position within the array; `start_position` and
`max_length` are held during an emission (neither is latched); `max_length` fits its port. -/
def SerEnv (c : SerConfig) : SerSpec → SerIn → Prop
  | .idle, i => i.maxLength < 2 ^ c.mlw ∧ (i.start = true → 0 < serLimit c i → i.startPosition < c.n)
  | .play s M _, i => i.startPosition = s ∧ serLimit c i = M
  | .done, _ => True

def SerEnvRun (c : SerConfig) : SerSpec → List SerIn → Prop
  | _, [] => True
  | q, x :: xs => SerEnv c q x ∧ SerEnvRun c (serSpecNext c q x) xs

def SerR (c : SerConfig) (σ : SerState) : SerSpec → Prop
  | .idle => σ.fsm = .idle
  | .done => σ.fsm = .done
  | .play s M k => σ.fsm = .streaming ∧ σ.pos = s + k ∧ σ.bytesSent = k ∧ k < serCount c s M ∧ s < c.n ∧
      M < 2 ^ serCountWidth c

theorem serLimit_lt (c : SerConfig) (i : SerIn) (h : i.maxLength < 2 ^ c.mlw) (_hn : 1 ≤ c.n) :
    serLimit c i < 2 ^ serCountWidth c := by
  unfold serLimit serCountWidth
  by_cases hm : c.mlw = 0
  · simp only [hm, bne_self_eq_false, Bool.false_eq_true, if_false]
    have := Nat.lt_log2_self (n := c.n)
    have h2 : 2 ^ (c.n.log2 + 1) ≤ 2 ^ max 1 (c.n.log2 + 1) := Nat.pow_le_pow_right (by decide) (by omega)
    omega
  · have : (c.mlw != 0) = true := by simpa using hm
    simp only [this, if_true]; exact h

theorem ser_step_sim (c : SerConfig) (hn : 1 ≤ c.n) (σ : SerState) (q : SerSpec) (i : SerIn)
    (hR : SerR c σ q) (hE : SerEnv c q i) :
    (serStep c σ i).2 = serSpecOut c q i ∧ SerR c (serStep c σ i).1 (serSpecNext c q i) := by
  obtain ⟨f, pos, bs⟩ := σ
  cases q with
  | idle =>
    have hf : f = .idle := hR
    subst hf
    obtain ⟨hml, hsp⟩ := hE
    refine ⟨by simp [serStep, serSpecOut], ?_⟩
    have hlim : (if c.mlw != 0 then i.maxLength else c.n) = serLimit c i := rfl
    by_cases hgo : i.start = true ∧ 0 < serLimit c i
    · have hs := hsp hgo.1 hgo.2
      have e1 : ¬ (i.startPosition ≥ c.n) := by omega
      simp only [serStep, hlim, serSpecNext, hgo, and_self, if_true, e1, if_false, SerR,
        decide_true, Bool.and_self, Nat.add_zero, true_and]
      refine ⟨?_, hs, serLimit_lt c i hml hn⟩
      unfold serCount; omega
    · have : (i.start && decide (serLimit c i > 0)) = false := by
        cases hst : i.start <;> simp_all
      simp only [serStep, hlim, serSpecNext, hgo, this, if_false, SerR, Bool.false_eq_true]
  | done =>
    have hf : f = .done := hR
    subst hf
    exact ⟨by simp [serStep, serSpecOut], by simp [serStep, serSpecNext, SerR]⟩
  | play s M k =>
    obtain ⟨hf, hp, hb, hk, hs, hM⟩ := hR
    simp only at hf hp hb
    have hb' := hb.symm
    subst hf hp hb'
    obtain ⟨hsp, hlimM⟩ := hE
    have hlim : (if c.mlw != 0 then i.maxLength else c.n) = M := hlimM
    have hlast : ((s + k == c.n - 1) || (decide (M ≥ 1) && (k == M - 1))) = decide (k + 1 = serCount c s M) := by
      unfold serCount at hk ⊢
      by_cases h : k + 1 = min M (c.n - s)
      · by_cases h1 : s + k = c.n - 1
        · simp [h, h1]
        · have a : (s + k == c.n - 1) = false := beq_eq_false_iff_ne.mpr h1
          have b : (k == M - 1) = true := beq_iff_eq.mpr (by omega)
          have d : decide (M ≥ 1) = true := decide_eq_true (by omega)
          rw [a, b, d, decide_eq_true h]; rfl
      · have h1 : ¬ (s + k = c.n - 1) := by omega
        have h2 : ¬ (k = M - 1) := by omega
        simp [h, h1, h2]
    have hfirst : (s + k == s) = (k == 0) := by
      by_cases h0 : k = 0
      · subst h0; simp
      · have a : (s + k == s) = false := beq_eq_false_iff_ne.mpr (by omega)
        have b : (k == 0) = false := beq_eq_false_iff_ne.mpr h0
        rw [a, b]
    have hl2 : decide (k + 1 = serCount c s M) = (k + 1 == serCount c s M) := by
      by_cases h0 : k + 1 = serCount c s M <;> simp [h0]
    constructor
    · simp only [serStep, hlim, hlast, serSpecOut, hsp, hfirst, hl2]
      rfl
    · by_cases hrd : i.ready = true
      · by_cases hl : k + 1 = serCount c s M
        · simp only [serStep, hlim, hlast, serSpecNext, hrd, hl, decide_true, Bool.and_self,
            if_true, SerR]
        · have hk1 : k + 1 < serCount c s M := by omega
          have hP := le_two_pow_rangeWidth c.n
          have e2 : (s + k + 1) % 2 ^ rangeWidth c.n = s + (k + 1) := by
            rw [Nat.mod_eq_of_lt (by unfold serCount at hk1; omega)]; omega
          have e3 : (k + 1) % 2 ^ serCountWidth c = k + 1 := by
            rw [Nat.mod_eq_of_lt (by unfold serCount at hk1; omega)]
          simp only [serStep, hlim, hlast, serSpecNext, hrd, hl, decide_false, Bool.not_false, Bool.and_true,
            Bool.and_false, Bool.false_eq_true, if_true, if_false, e2, e3, SerR, true_and]
          exact ⟨hk1, hs, hM⟩
      · have hrd' : i.ready = false := by simpa using hrd
        simp only [serStep, serSpecNext, hrd', Bool.false_and, Bool.false_eq_true, if_false, SerR, true_and]
        exact ⟨hk, hs, hM⟩

theorem ser_run_sim (c : SerConfig) (hn : 1 ≤ c.n) (σ : SerState) (q : SerSpec) (hR : SerR c σ q)
    (hist : List SerIn) (hE : SerEnvRun c q hist) : serRun c σ hist = serSpecRun c q hist := by
  induction hist generalizing σ q with
  | nil => rfl
  | cons x xs ih =>
    obtain ⟨h1, h2⟩ := ser_step_sim c hn σ q x hR hE.1
    simp only [serRun, serSpecRun]
    rw [h1, ih _ _ h2 hE.2]

/-- **serializer_emits_slice**: the same statement for the serializer — for every array length `n ≥ 1`, with or
without a max_length port, and every input history in which a request names a position within the array
and `start_position`/`max_length` are held during the emission, the ports are those of the player of
`data[s], data[s+1], …` (`min(max_length, n - s)` words, `first` on the first, `last` on the final one,
then one cycle of `done`). -/
theorem serializer_emits_slice (c : SerConfig) (hn : 1 ≤ c.n) (hist : List SerIn)
    (hE : SerEnvRun c .idle hist) : serRun c serInit hist = serSpecRun c .idle hist :=
  ser_run_sim c hn _ _ (by simp [SerR, serInit]) hist hE

/-! ## Non-vacuity -/
example : xfers ⟨[1, 2, 3, 4, 5, 6, 7], 4, false, 8, 4⟩ 0 6 =
    [⟨0x04030201, 0xF, true, false⟩, ⟨0x00070605, 0x3, false, true⟩] := by decide
example : xfers ⟨[1, 2, 3, 4, 5, 6, 7], 4, true, 8, 4⟩ 1 200 = [⟨0x050607, 0x7, true, true⟩] := by decide
example : EnvRun ⟨[1, 2, 3], 1, false, 8, 1⟩ (.idle 0)
    [⟨true, 1, 5, false⟩, ⟨false, 1, 0, false⟩, ⟨false, 1, 0, true⟩, ⟨false, 1, 0, true⟩, ⟨false, 0, 0, true⟩] := by
  simp [EnvRun, Env, specNext, nWords, nXfers, budget]
example : (run ⟨[1, 2, 3], 1, false, 8, 1⟩ (init ⟨[1, 2, 3], 1, false, 8, 1⟩)
    [⟨true, 1, 5, false⟩, ⟨false, 1, 0, false⟩, ⟨false, 1, 0, true⟩, ⟨false, 1, 0, true⟩, ⟨false, 0, 0, true⟩]).map
      (fun o => (o.valid, o.payload, o.first, o.last, o.done)) =
    [(0, 0, false, false, false), (1, 2, true, false, false), (1, 2, true, false, false),
     (1, 3, false, true, false), (0, 0, false, false, true)] := by decide

end LunaVerif.StreamGen
