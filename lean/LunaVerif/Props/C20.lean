import LunaVerif.Model.Device.Full
import LunaVerif.Model.Device.TxMux
import LunaVerif.Model.Usb2.Handshake
import LunaVerif.Model.Usb2.DataGenerator
import LunaVerif.Core.Crc
import LunaVerif.Lemmas.DeviceSteps
/-!
# C20 — Everything the USB2 device transmits is a well-formed, solicited packet

"Under any legal host behaviour, every packet the device puts on the bus is either a one-byte handshake
with a valid PID or a data packet whose CRC16 is correct, each packet comes entirely from a single
transmitter, and outside reset chirping the device transmits only in response to a host token or data
packet addressed to it, never while a received packet is still in progress."

Three layers:

* cycle level, the UTMI transmit multiplexer (`TxMux`, tied cycle by cycle to the real
  `UTMIInterfaceMultiplexer`): `mux_single_source`, `mux_valid_iff`, `mux_overlap_takes_input0`;
* cycle level, the two packet generators feeding it (models of C03/C04, tied by those checks):
  `generator_idle_unless_stream_valid`, `handshake_idle_unless_requested`;
* transaction level, the full-device model `Full.step` (control endpoint + bulk IN/OUT + status endpoints,
  tied event by event to the real `USBDevice`): `every_response_is_handshake_or_crc_valid_data`,
  `response_only_after_addressed_token_or_data`, `at_most_one_transmitter_per_response`,
  `response_is_the_single_transmitters`.  They hold for EVERY state and EVERY event (so in particular
  along every legal host history, from reset or not).

"Never while a received packet is still in progress" (`tx_valid → ¬rx_active`) is proved on the cycle-level
composition of the packet layer (`Model/Device/DevCyc.lean`) in `Lemmas/C20CycMain.lean` (`tx_never_during_rx`,
`tx_only_in_response_window`, `transmitters_exclusive`, `pulse_only_after_delay`) under an explicit host assumption and
endpoint discipline; `Lemmas/C20CycEvent.lean` has the handshake-response case of the cycles -> events refinement.
What remains unproved is listed in harness/props/c20.py `PARTIAL` and notes/C20.md.
-/
namespace LunaVerif.C20
open LunaVerif LunaVerif.Device LunaVerif.Device.Full

/-! ## 1. The transmit multiplexer -/
section Mux
open TxMux

theorem validIdx_none (ps : List Port) (k : Nat) (h : ∀ q ∈ ps, q.valid = false) : validIdx ps k = [] := by
  induction ps generalizing k with
  | nil => rfl
  | cons p ps ih =>
    have hp : p.valid = false := h p (by simp)
    simp only [validIdx, hp]
    exact ih (k + 1) (fun q hq => h q (by simp [hq]))

theorem validIdx_single (pre post : List Port) (p : Port) (k : Nat) (hp : p.valid = true)
    (hpre : ∀ q ∈ pre, q.valid = false) (hpost : ∀ q ∈ post, q.valid = false) :
    validIdx (pre ++ p :: post) k = [k + pre.length] := by
  induction pre generalizing k with
  | nil => simp [validIdx, hp, validIdx_none post (k + 1) hpost]
  | cons a pre ih =>
    have ha : a.valid = false := hpre a (by simp)
    simp only [List.cons_append, validIdx, ha]
    rw [ih (k + 1) (fun q hq => hpre q (by simp [hq]))]
    simp only [List.length_cons, Bool.false_eq_true, ↓reduceIte]
    congr 1
    omega

theorem dataAt_append (pre post : List Port) (p : Port) : dataAt (pre ++ p :: post) pre.length = p.data := by
  induction pre with
  | nil => rfl
  | cons a pre ih => simpa [dataAt] using ih

/-- **C20, multiplexer.** When exactly one input is valid, the output is valid and carries that input's
data byte — whatever the other inputs' data lines show. -/
theorem mux_single_source (pre post : List Port) (p : Port) (hp : p.valid = true)
    (hpre : ∀ q ∈ pre, q.valid = false) (hpost : ∀ q ∈ post, q.valid = false) :
    mux (pre ++ p :: post) = { valid := true, data := p.data } := by
  have hv := validIdx_single pre post p 0 hp hpre hpost
  simp only [Nat.zero_add] at hv
  simp only [mux, encode, hv, dataAt_append, List.any_append, List.any_cons, hp, Bool.true_or, Bool.or_true]

/-- The output is valid exactly when some input is. -/
theorem mux_valid_iff (ps : List Port) : (mux ps).valid = true ↔ ∃ q ∈ ps, q.valid = true := by
  simp [mux, List.any_eq_true]

/-- With no valid input nothing is transmitted. -/
theorem mux_idle (ps : List Port) (h : ∀ q ∈ ps, q.valid = false) : (mux ps).valid = false := by
  cases hv : (mux ps).valid with
  | false => rfl
  | true =>
    obtain ⟨q, hq, hqv⟩ := (mux_valid_iff ps).1 hv
    rw [h q hq] at hqv
    cases hqv

/-- The quirk left "undefined" by the source: with two or more valid inputs the encoder's output stays 0,
so the output carries the data of input 0 (valid or not). -/
theorem mux_overlap_takes_input0 (ps : List Port) (a b : Nat) (rest : List Nat)
    (h : validIdx ps 0 = a :: b :: rest) : (mux ps).data = dataAt ps 0 := by
  simp [mux, encode, h]

example : mux [⟨false, 7⟩, ⟨true, 0xD2⟩, ⟨false, 9⟩] = ⟨true, 0xD2⟩ := by decide
example : mux [⟨false, 7⟩, ⟨true, 0xD2⟩, ⟨true, 9⟩] = ⟨true, 7⟩ := by decide

end Mux

/-! ## 2. The generators behind the multiplexer are silent unless asked -/
section Generators

/-- Outputs of the data packet generator (device wiring) over an input history. -/
def genRun (c : DataGenerator.Config) : DataGenerator.State → List DataGenerator.In → List DataGenerator.Out
  | _, [] => []
  | s, i :: is => (DataGenerator.step c s i).2 :: genRun c (DataGenerator.step c s i).1 is

theorem gen_idle_step (c : DataGenerator.Config) (s : DataGenerator.State) (i : DataGenerator.In)
    (hs : s.fsm = .idle) :
    (DataGenerator.step c s i).2.txValid = false ∧
      (i.valid = false → (DataGenerator.step c s i).1.fsm = .idle) := by
  constructor
  · simp [DataGenerator.step, DataGenerator.fsmStep, hs]
    split <;> (try split) <;> rfl
  · intro hv
    simp [DataGenerator.step, DataGenerator.fsmStep, hs, hv]

/-- **C20, data generator.** From its idle state the data packet generator drives `tx.valid` low for as long
as the endpoint side does not present a valid stream word: it never starts a packet on its own. -/
theorem generator_idle_unless_stream_valid (c : DataGenerator.Config) (h : List DataGenerator.In)
    (s : DataGenerator.State) (hs : s.fsm = .idle) (hv : ∀ i ∈ h, i.valid = false) :
    ∀ o ∈ genRun c s h, o.txValid = false := by
  induction h generalizing s with
  | nil => intro o ho; cases ho
  | cons i is ih =>
    intro o ho
    have hi := gen_idle_step c s i hs
    simp only [genRun, List.mem_cons] at ho
    rcases ho with rfl | ho
    · exact hi.1
    · exact ih _ (hi.2 (hv i (by simp))) (fun j hj => hv j (by simp [hj])) o ho

example : ∀ o ∈ genRun ⟨false⟩ DataGenerator.init
    [⟨1, false, true, false, 5, true⟩, ⟨0, false, false, true, 9, false⟩], o.txValid = false := by decide

/-- **C20, handshake generator.** Starting idle, the handshake generator keeps `tx.valid` low for as long as
none of `issue_ack` / `issue_nak` / `issue_stall` is strobed. -/
theorem handshake_idle_unless_requested (h : List Handshake.Gen.In) (s : Handshake.Gen.State)
    (hs : s.transmit = false) (hr : ∀ i ∈ h, i.ack = false ∧ i.nak = false ∧ i.stall = false) :
    ∀ o ∈ Handshake.Gen.run s h, o.valid = false := by
  induction h generalizing s with
  | nil => intro o ho; cases ho
  | cons i is ih =>
    intro o ho
    obtain ⟨ha, hn, hst⟩ := hr i (by simp)
    simp only [Handshake.Gen.run, List.mem_cons] at ho
    rcases ho with rfl | ho
    · simp [Handshake.Gen.step, hs]
    · refine ih _ ?_ (fun j hj => hr j (by simp [hj])) o ho
      simp [Handshake.Gen.step, hs, ha, hn, hst]

/-- … and conversely a byte on its `tx` lines means a request strobe was seen earlier. -/
theorem handshake_valid_needs_request (h : List Handshake.Gen.In)
    (hv : ∃ o ∈ Handshake.Gen.run Handshake.Gen.init h, o.valid = true) :
    ∃ i ∈ h, i.ack = true ∨ i.nak = true ∨ i.stall = true := by
  apply Classical.byContradiction
  intro hn
  obtain ⟨o, ho, hov⟩ := hv
  have := handshake_idle_unless_requested h Handshake.Gen.init rfl (fun i hi => by
    have h' : ¬ (i.ack = true ∨ i.nak = true ∨ i.stall = true) := fun hc => hn ⟨i, hi, hc⟩
    cases ha : i.ack <;> cases hb : i.nak <;> cases hc : i.stall <;> simp_all) o ho
  rw [this] at hov
  cases hov

end Generators

/-! ## 3. Transaction level: the full device -/

/-- A PID nibble followed by its complement (USB 2.0 §8.3.1). -/
def pidByte (pid : Nat) : Nat := pid % 16 + 16 * (15 - pid % 16)

/-- The bytes a response puts on the wire: handshake = PID byte; data = PID byte, payload, CRC16 of the
payload (low byte first), with the CRC of the specification (`Crc.usb2Crc16`, USB 2.0 §8.3.5). -/
def wire : Resp → List Nat
  | .none => []
  | .hs p => [pidByte p]
  | .data p b => pidByte p :: (b ++ [Crc.usb2Crc16 b % 256, Crc.usb2Crc16 b / 256])

/-- `b`'s high nibble is the complement of its low nibble. -/
def pidCheckOk (b : Nat) : Bool := b % 16 + b / 16 % 16 == 15

/-- A receiver's view of one packet: a single byte that is a handshake PID with a correct check nibble, or a
data PID with a correct check nibble followed by a payload and the payload's CRC16. -/
def WellFormedPacket (bytes : List Nat) : Prop :=
  match bytes with
  | [] => False
  | [b] => pidCheckOk b = true ∧ isHsPid (b % 16) = true
  | b :: rest =>
      pidCheckOk b = true ∧ isDataPid (b % 16) = true ∧
      ∃ payload, rest = payload ++ [Crc.usb2Crc16 payload % 256, Crc.usb2Crc16 payload / 256]

/-- What the device may transmit at all: nothing, ACK / NAK / STALL, or a DATA0 / DATA1 packet. -/
def RespOk : Resp → Prop
  | .none => True
  | .hs p => p = PID_ACK ∨ p = PID_NAK ∨ p = PID_STALL
  | .data p _ => p = PID_DATA0 ∨ p = PID_DATA1

theorem wire_wellFormed (r : Resp) (ok : RespOk r) (hn : r ≠ .none) : WellFormedPacket (wire r) := by
  cases r with
  | none => exact absurd rfl hn
  | hs p =>
    rcases ok with rfl | rfl | rfl <;> exact ⟨by decide, by decide⟩
  | data p b =>
    have hb : ∀ (x : Nat) (l : List Nat), (match x :: (b ++ l) with
        | [] => False
        | [y] => pidCheckOk y = true ∧ isHsPid (y % 16) = true
        | y :: rest => pidCheckOk y = true ∧ isDataPid (y % 16) = true ∧
            ∃ payload, rest = payload ++ [Crc.usb2Crc16 payload % 256, Crc.usb2Crc16 payload / 256]) =
        (pidCheckOk x = true ∧ (b ++ l = [] → isHsPid (x % 16) = true) ∧ (b ++ l ≠ [] → isDataPid (x % 16) = true ∧
            ∃ payload, b ++ l = payload ++ [Crc.usb2Crc16 payload % 256, Crc.usb2Crc16 payload / 256])) := by
      intro x l
      cases hbl : b ++ l with
      | nil => simp
      | cons z zs => simp
    unfold WellFormedPacket wire
    rw [hb]
    have hne : b ++ [Crc.usb2Crc16 b % 256, Crc.usb2Crc16 b / 256] ≠ [] := by simp
    refine ⟨?_, fun h => absurd h hne, fun _ => ⟨?_, b, rfl⟩⟩ <;> rcases ok with rfl | rfl <;> decide

/-! ### 3a. every response is ACK / NAK / STALL or DATA0 / DATA1 -/

theorem dataPid_ok (s : DevState) : dataPid s = PID_DATA0 ∨ dataPid s = PID_DATA1 := by
  unfold dataPid; split <;> simp

theorem respOk_stdRequest (c : DevConfig) (s : DevState) (r : Req) : RespOk (stdRequest c s r).2 := by
  have hd := dataPid_ok s
  unfold stdRequest
  split <;> (try split) <;> simp_all [RespOk]

theorem respOk_request (c : DevConfig) (s : DevState) (r : Req) : RespOk (request c s r).2 := by
  have h1 := respOk_stdRequest c s r
  unfold request
  cases owner c s.setup <;> simp only []
  · split
    · exact h1
    · trivial
  · cases r <;> simp [RespOk]
  · simp [RespOk]

theorem respOk_onToken (c : DevConfig) (s : DevState) (pid ep : Nat) : RespOk (onToken c s pid ep).2 := by
  unfold onToken
  simp only []
  split
  · split <;> (try split) <;> first | exact respOk_request c _ _ | simp [RespOk]
  · trivial

theorem respOk_onData (c : DevConfig) (s : DevState) (p : List Nat) (ok : Bool) : RespOk (onData c s p ok).2 := by
  unfold onData
  split
  · trivial
  · split
    · split
      · split
        · simp [onSetupData, RespOk]
        · trivial
      · trivial
    · split
      · exact respOk_request c _ _
      · trivial

theorem respOk_core (c : DevConfig) (s : DevState) (e : HostEvent) : RespOk (core c s e).2 := by
  unfold core
  split <;> try trivial
  · split
    · exact respOk_onToken c s _ _
    · trivial
  · exact respOk_onData c s _ _

theorem respOk_dataPidOf (t : Bool) : dataPidOf t = PID_DATA0 ∨ dataPidOf t = PID_DATA1 := by
  cases t <;> simp [dataPidOf]

theorem respOk_epStep (c : EpCfg) (st : EpState) (x : Ctx) (ev : HostEvent) : RespOk (epStep c st x ev).2.1 := by
  unfold epStep
  split <;> try trivial
  all_goals (try (split <;> try trivial))
  · -- stream IN token
    unfold inToken
    simp only []
    split
    · split <;> simp [RespOk, respOk_dataPidOf]
    · trivial
  · -- stream OUT token
    unfold outToken
    split
    · simp only []; split <;> simp [RespOk]
    · trivial
  · -- stream OUT data
    unfold outData
    (repeat' split) <;> simp [RespOk]
  · -- signal IN token
    unfold sigToken
    simp only []
    split
    · split <;> simp [RespOk, respOk_dataPidOf]
    · trivial

theorem respOk_firstResp (rs : List Resp) (h : ∀ r ∈ rs, RespOk r) : RespOk (firstResp rs) := by
  induction rs with
  | nil => trivial
  | cons r rs ih =>
    unfold firstResp
    split
    · exact ih (fun q hq => h q (by simp [hq]))
    · exact h r (by simp)

theorem mem_epsStep (x : Ctx) (ev : HostEvent) (cs : List EpCfg) (sts : List EpState)
    (t : EpState × Resp × Delivery) (h : t ∈ epsStep x ev cs sts) : ∃ c st, t = epStep c st x ev := by
  induction cs generalizing sts with
  | nil => simp [epsStep] at h
  | cons c cs ih =>
    cases sts with
    | nil => simp [epsStep] at h
    | cons st sts =>
      simp only [epsStep, List.mem_cons] at h
      rcases h with rfl | h
      · exact ⟨c, st, rfl⟩
      · exact ih sts h

theorem respOk_step (c : FullConfig) (s : FullState) (ev : HostEvent) : RespOk (step c s ev).2.resp := by
  simp only [Full.step]
  split
  · simp [RespOk]
  · simp only [Device.step]
    split
    · apply respOk_firstResp
      intro r hr
      simp only [List.mem_map] at hr
      obtain ⟨t, ht, rfl⟩ := hr
      obtain ⟨c', st, rfl⟩ := mem_epsStep _ _ _ _ t ht
      exact respOk_epStep c' st _ ev
    · exact respOk_core c.dev s.ctl ev

/-- **C20 (well-formed).** Whatever the state and whatever the host event, what the device transmits is
nothing, or — on the wire — a one-byte handshake (ACK / NAK / STALL with a correct check nibble), or a DATA0 /
DATA1 packet carrying the CRC16 of its payload. -/
theorem every_response_is_handshake_or_crc_valid_data (c : FullConfig) (s : FullState) (ev : HostEvent) :
    (step c s ev).2.resp = .none ∨
      (RespOk (step c s ev).2.resp ∧ WellFormedPacket (wire (step c s ev).2.resp)) := by
  by_cases h : (step c s ev).2.resp = .none
  · exact Or.inl h
  · exact Or.inr ⟨respOk_step c s ev, wire_wellFormed _ (respOk_step c s ev) h⟩

example : WellFormedPacket (wire (.data PID_DATA1 [0x12, 0x01])) :=
  wire_wellFormed _ (Or.inr rfl) (by simp)
example : wire (.hs PID_ACK) = [0xD2] := by decide
example : wire (.data PID_DATA0 []) = [0xC3, 0x00, 0x00] := by decide

/-! ### 3b. responses are solicited -/

/-- The event is a packet that may be answered: an IN or PING token carrying the device's address, or a data
packet with a good CRC while the token detector shows an OUT or SETUP token (the detector keeps a token's
PID only if the token carried the device's address: a token for another device clears it). -/
def Solicits (s : DevState) (ev : HostEvent) : Prop :=
  match ev with
  | .token pid addr _ => addr = s.address ∧ (pid = PID_IN ∨ pid = PID_PING)
  | .data _ _ ok => ok = true ∧ (s.tokPid = PID_OUT ∨ s.tokPid = PID_SETUP)
  | _ => False

theorem onToken_solicited (c : DevConfig) (s : DevState) (pid ep : Nat) (h : (onToken c s pid ep).2 ≠ .none) :
    pid = PID_IN ∨ pid = PID_PING := by
  unfold onToken at h
  simp only [] at h
  split at h
  · split at h <;> (try split at h) <;> simp_all
  · exact absurd rfl h

theorem onData_solicited (c : DevConfig) (s : DevState) (p : List Nat) (ok : Bool)
    (h : (onData c s p ok).2 ≠ .none) : ok = true ∧ (s.tokPid = PID_OUT ∨ s.tokPid = PID_SETUP) := by
  unfold onData at h
  split at h
  · exact absurd rfl h
  · rename_i hok
    have hok' : ok = true := by simpa using hok
    refine ⟨hok', ?_⟩
    split at h
    · split at h
      · split at h
        · rename_i h8; exact Or.inr h8.2
        · exact absurd rfl h
      · exact absurd rfl h
    · split at h
      · rename_i hs; exact Or.inl hs.2.2
      · exact absurd rfl h

theorem core_solicited (c : DevConfig) (s : DevState) (e : HostEvent) (h : (core c s e).2 ≠ .none) :
    Solicits s e := by
  unfold core at h
  split at h <;> try exact absurd rfl h
  · split at h
    · rename_i ha; exact ⟨ha, onToken_solicited c s _ _ h⟩
    · exact absurd rfl h
  · exact onData_solicited c s _ _ h

theorem ctxOf_mine (s : DevState) (pid addr ep : Nat) : (ctxOf s (.token pid addr ep)).mine = true → addr = s.address := by
  simp [ctxOf]

theorem ctxOf_tokPid (s : DevState) (ev : HostEvent) : (ctxOf s ev).tokPid = s.tokPid := rfl
theorem ctxOf_tokEp (s : DevState) (ev : HostEvent) : (ctxOf s ev).tokEp = s.tokEp := rfl

/-- An endpoint answers only … -/
def EpAnswers (c : EpCfg) (x : Ctx) (ev : HostEvent) : Prop :=
  match ev with
  | .token pid _ ep => x.mine = true ∧ ep = c.num ∧ ((c.isIn = true ∧ pid = PID_IN) ∨ (c.isIn = false ∧ pid = PID_PING))
  | .data _ _ ok => ok = true ∧ c.isIn = false ∧ x.tokPid = PID_OUT ∧ x.tokEp = c.num
  | _ => False

/-- The endpoint state is of the kind the configuration says. -/
def KindOk (c : EpCfg) : EpState → Prop
  | .sIn _ => c.kind = .streamIn
  | .sOut _ => c.kind = .streamOut
  | .sSig _ => c.kind = .signalIn

theorem epStep_answers (c : EpCfg) (st : EpState) (x : Ctx) (ev : HostEvent) (hk : KindOk c st)
    (h : (epStep c st x ev).2.1 ≠ .none) : EpAnswers c x ev := by
  cases st with
  | sIn e =>
    have hin : c.isIn = true := by simp [EpCfg.isIn, show c.kind = .streamIn from hk]
    cases ev <;> simp only [epStep] at h
    case token pid addr ep =>
      split at h
      · rename_i hm
        unfold inToken at h
        simp only [] at h
        split at h
        · rename_i hp; exact ⟨hm, hp.2, Or.inl ⟨hin, hp.1⟩⟩
        · exact absurd rfl h
      · exact absurd rfl h
    case handshake pid => split at h <;> exact absurd rfl h
    case produce ep bytes last => split at h <;> exact absurd rfl h
    all_goals exact absurd rfl h
  | sOut e =>
    have hin : c.isIn = false := by simp [EpCfg.isIn, show c.kind = .streamOut from hk]
    cases ev <;> simp only [epStep] at h
    case token pid addr ep =>
      split at h
      · rename_i hm
        unfold outToken at h
        split at h
        · rename_i hp; exact ⟨hm, hp.2, Or.inr ⟨hin, hp.1⟩⟩
        · exact absurd rfl h
      · exact absurd rfl h
    case data pid payload ok =>
      unfold outData at h
      split at h
      · rename_i hp
        refine ⟨?_, hin, hp.1, hp.2⟩
        cases ok
        · exfalso
          revert h
          simp
        · rfl
      · exact absurd rfl h
    case handshake pid => split at h <;> exact absurd rfl h
    case consume ep n => split at h <;> exact absurd rfl h
    all_goals exact absurd rfl h
  | sSig e =>
    have hin : c.isIn = true := by simp [EpCfg.isIn, show c.kind = .signalIn from hk]
    cases ev <;> simp only [epStep] at h
    case token pid addr ep =>
      split at h
      · rename_i hm
        unfold sigToken at h
        simp only [] at h
        split at h
        · rename_i hp; exact ⟨hm, hp.2, Or.inl ⟨hin, hp.1⟩⟩
        · exact absurd rfl h
      · exact absurd rfl h
    case handshake pid => split at h <;> exact absurd rfl h
    case setSignal ep v => split at h <;> exact absurd rfl h
    all_goals exact absurd rfl h

/-- The endpoint states are of the kinds the configuration says (true from reset on, and preserved). -/
def KindsOk : List EpCfg → List EpState → Prop
  | c :: cs, st :: sts => KindOk c st ∧ KindsOk cs sts
  | [], [] => True
  | _, _ => False

theorem kindsOk_init (cs : List EpCfg) : KindsOk cs (cs.map initEp) := by
  induction cs with
  | nil => trivial
  | cons c cs ih =>
    refine ⟨?_, ih⟩
    unfold initEp
    cases hc : c.kind <;> exact hc

theorem epStep_kind (c : EpCfg) (st : EpState) (x : Ctx) (ev : HostEvent) (hk : KindOk c st) :
    KindOk c (epStep c st x ev).1 := by
  cases st <;> cases ev <;> simp only [epStep] <;> (try split) <;> exact hk

theorem kindsOk_step (x : Ctx) (ev : HostEvent) (cs : List EpCfg) (sts : List EpState) (h : KindsOk cs sts) :
    KindsOk cs ((epsStep x ev cs sts).map (·.1)) := by
  induction cs generalizing sts with
  | nil => cases sts <;> simp_all [KindsOk, epsStep]
  | cons c cs ih =>
    cases sts with
    | nil => exact absurd h (by simp [KindsOk])
    | cons st sts =>
      simp only [epsStep, List.map_cons]
      exact ⟨epStep_kind c st x ev h.1, ih sts h.2⟩

/-- Every state reachable from reset has endpoint states of the configured kinds. -/
theorem kindsOk_reachable (c : FullConfig) (h : List HostEvent) :
    KindsOk c.eps (Full.final c (Full.init c) h).eps := by
  suffices ∀ s : FullState, KindsOk c.eps s.eps → KindsOk c.eps (Full.final c s h).eps from
    this _ (kindsOk_init c.eps)
  induction h with
  | nil => intro s hs; exact hs
  | cons e es ih =>
    intro s hs
    simp only [Full.final]
    apply ih
    simp only [Full.step]
    exact kindsOk_step _ _ _ _ hs

theorem foreign_solicited (x : Ctx) (ev : HostEvent) (cs : List EpCfg) (sts : List EpState) (hk : KindsOk cs sts)
    (h : firstResp ((epsStep x ev cs sts).map (·.2.1)) ≠ .none) : ∃ c ∈ cs, EpAnswers c x ev := by
  induction cs generalizing sts with
  | nil => cases sts <;> simp [epsStep, firstResp] at h
  | cons c cs ih =>
    cases sts with
    | nil => simp [epsStep, firstResp] at h
    | cons st sts =>
      simp only [epsStep, List.map_cons, firstResp] at h
      split at h
      · obtain ⟨c', hc', ha⟩ := ih sts hk.2 h
        exact ⟨c', by simp [hc'], ha⟩
      · exact ⟨c, by simp, epStep_answers c st x ev hk.1 h⟩

theorem epAnswers_solicits (c : EpCfg) (s : DevState) (ev : HostEvent) (h : EpAnswers c (ctxOf s ev) ev) :
    Solicits s ev := by
  cases ev with
  | token pid addr ep =>
    obtain ⟨hm, _, hp⟩ := h
    refine ⟨ctxOf_mine s pid addr ep hm, ?_⟩
    rcases hp with hp | hp
    · exact Or.inl hp.2
    · exact Or.inr hp.2
  | data pid p ok => exact ⟨h.1, Or.inl h.2.2.1⟩
  | _ => exact absurd h (by simp [EpAnswers])

theorem acmAcksData_spec (s : DevState) (ev : HostEvent) (h : acmAcksData s ev = true) :
    (∃ pid p, ev = .data pid p true) ∧ s.tokEp = 0 ∧ s.tokPid = PID_OUT := by
  unfold acmAcksData at h
  split at h
  · rename_i pid p ok
    simp only [Bool.and_eq_true, beq_iff_eq, Bool.not_eq_true'] at h
    obtain ⟨⟨⟨⟨⟨⟨hok, _⟩, _⟩, hep⟩, hpid⟩, _⟩, _⟩ := h
    subst hok
    exact ⟨⟨pid, p, rfl⟩, hep, hpid⟩
  · cases h

/-- **C20 (solicited).** In every state whose endpoint states have the configured kinds (all states reachable
from reset: `kindsOk_reachable`), the device transmits something only in response to an IN / PING token that
carries its address, or to a correctly received data packet that follows an OUT / SETUP token carrying its
address.  Nothing is ever sent after a host handshake, a SOF, a malformed packet, a token for another
device, a bus reset, a time-out or an application-side stream event. -/
theorem response_only_after_addressed_token_or_data (c : FullConfig) (s : FullState) (ev : HostEvent)
    (hk : KindsOk c.eps s.eps) (h : (step c s ev).2.resp ≠ .none) : Solicits s.ctl ev := by
  simp only [Full.step] at h
  split at h
  · rename_i hacm
    simp only [Bool.and_eq_true] at hacm
    obtain ⟨⟨pid, p, rfl⟩, _, hpid⟩ := acmAcksData_spec s.ctl ev hacm.1.2
    exact ⟨rfl, Or.inl hpid⟩
  · simp only [Device.step] at h
    split at h
    · obtain ⟨c', _, ha⟩ := foreign_solicited _ ev c.eps s.eps hk h
      exact epAnswers_solicits c' s.ctl ev ha
    · exact core_solicited c.dev s.ctl ev h

/-! ### 3c. one transmitter per response -/

/-- The control endpoint's own answer (request handlers incl. the ACM handler, SETUP decoder, PING). -/
def ctlResp (c : FullConfig) (s : DevState) (ev : HostEvent) : Resp :=
  if c.acm && acmAcksData s ev && (core c.dev s ev).2.isNone then .hs PID_ACK else (core c.dev s ev).2

/-- What each part of the device drives towards the transmitters for this event: the control endpoint
first, then every other endpoint in the order of the configuration. -/
def transmitters (c : FullConfig) (s : FullState) (ev : HostEvent) : List Resp :=
  ctlResp c s.ctl ev :: (epsStep (ctxOf s.ctl ev) ev c.eps s.eps).map (·.2.1)

def active (rs : List Resp) : Nat := (rs.filter (fun r => !r.isNone)).length

/-- The configuration gives every endpoint a number other than 0, and no two endpoints of the same direction
share a number (what `USBDevice.add_endpoint` expects of its caller). -/
def WellFormedCfg (c : FullConfig) : Prop :=
  (∀ e ∈ c.eps, e.num ≠ 0) ∧ c.eps.Pairwise (fun a b => a.num ≠ b.num ∨ a.isIn ≠ b.isIn)

theorem epAnswers_excl (a b : EpCfg) (x : Ctx) (ev : HostEvent) (hab : a.num ≠ b.num ∨ a.isIn ≠ b.isIn)
    (ha : EpAnswers a x ev) (hb : EpAnswers b x ev) : False := by
  cases ev with
  | token pid addr ep =>
    obtain ⟨_, ea, pa⟩ := ha
    obtain ⟨_, eb, pb⟩ := hb
    rcases hab with hn | hi
    · exact hn (ea.symm.trans eb)
    · rcases pa with pa | pa <;> rcases pb with pb | pb
      · exact hi (pa.1.trans pb.1.symm)
      · have := pa.2.symm.trans pb.2; exact absurd this (by decide)
      · have := pa.2.symm.trans pb.2; exact absurd this (by decide)
      · exact hi (pa.1.trans pb.1.symm)
  | data pid p ok =>
    rcases hab with hn | hi
    · exact hn (ha.2.2.2.symm.trans hb.2.2.2)
    · exact hi (ha.2.1.trans hb.2.1.symm)
  | _ => exact absurd ha (by simp [EpAnswers])

theorem active_eps_zero (x : Ctx) (ev : HostEvent) (cs : List EpCfg) (sts : List EpState) (hk : KindsOk cs sts)
    (hno : ∀ c ∈ cs, ¬ EpAnswers c x ev) : active ((epsStep x ev cs sts).map (·.2.1)) = 0 := by
  induction cs generalizing sts with
  | nil => cases sts <;> simp [epsStep, active]
  | cons c cs ih =>
    cases sts with
    | nil => simp [epsStep, active]
    | cons st sts =>
      have hnone : (epStep c st x ev).2.1 = .none := by
        apply Classical.byContradiction
        intro hne
        exact hno c (by simp) (epStep_answers c st x ev hk.1 hne)
      have := ih sts hk.2 (fun c' hc' => hno c' (by simp [hc']))
      simp only [epsStep, List.map_cons, active, List.filter_cons, hnone, Resp.isNone] at this ⊢
      simpa using this

theorem active_eps_le_one (x : Ctx) (ev : HostEvent) (cs : List EpCfg) (sts : List EpState) (hk : KindsOk cs sts)
    (hp : cs.Pairwise (fun a b => a.num ≠ b.num ∨ a.isIn ≠ b.isIn)) :
    active ((epsStep x ev cs sts).map (·.2.1)) ≤ 1 := by
  induction cs generalizing sts with
  | nil => cases sts <;> simp [epsStep, active]
  | cons c cs ih =>
    cases sts with
    | nil => simp [epsStep, active]
    | cons st sts =>
      rw [List.pairwise_cons] at hp
      by_cases hr : (epStep c st x ev).2.1 = .none
      · have := ih sts hk.2 hp.2
        simp only [epsStep, List.map_cons, active, List.filter_cons, hr, Resp.isNone] at this ⊢
        simpa using this
      · have ha := epStep_answers c st x ev hk.1 hr
        have hz := active_eps_zero x ev cs sts hk.2 (fun c' hc' hb => epAnswers_excl c c' x ev (hp.1 c' hc') ha hb)
        have hnn : (!(epStep c st x ev).2.1.isNone) = true := by
          cases hh : (epStep c st x ev).2.1 <;> simp_all [Resp.isNone]
        simp only [epsStep, List.map_cons, active, List.filter_cons, hnn, ↓reduceIte, List.length_cons] at hz ⊢
        omega

/-- When the control endpoint answers, the token detector shows endpoint 0 after the event (token events), or
the packet is a data packet for the SETUP decoder / for endpoint 0. -/
theorem ctl_answers_excl (c : FullConfig) (s : DevState) (ev : HostEvent) (e : EpCfg) (he : e.num ≠ 0)
    (hc : ctlResp c s ev ≠ .none) (ha : EpAnswers e (ctxOf s ev) ev) : False := by
  unfold ctlResp at hc
  split at hc
  · rename_i hacm
    simp only [Bool.and_eq_true] at hacm
    obtain ⟨⟨pid, p, rfl⟩, h0, _⟩ := acmAcksData_spec s ev hacm.1.2
    have := ha.2.2.2
    rw [ctxOf_tokEp] at this
    exact he (this.symm.trans h0)
  · cases ev with
    | token pid addr ep =>
      unfold core at hc
      simp only [] at hc
      split at hc
      · unfold onToken at hc
        simp only [] at hc
        split at hc
        · rename_i h0; exact he (ha.2.1.symm.trans h0)
        · exact absurd rfl hc
      · exact absurd rfl hc
    | data pid p ok =>
      unfold core at hc
      simp only [] at hc
      have hout : s.tokPid = PID_OUT := by have := ha.2.2.1; rwa [ctxOf_tokPid] at this
      have hep : s.tokEp = e.num := by have := ha.2.2.2; rwa [ctxOf_tokEp] at this
      unfold onData at hc
      split at hc
      · exact absurd rfl hc
      · split at hc
        · split at hc
          · split at hc
            · rename_i h8; rw [hout] at h8; exact absurd h8.2 (by decide)
            · exact absurd rfl hc
          · exact absurd rfl hc
        · split at hc
          · rename_i hs; exact he (hep.symm.trans hs.2.1)
          · exact absurd rfl hc
    | _ => exact absurd ha (by simp [EpAnswers])

/-- **C20 (single transmitter).** For a well-formed endpoint configuration, in every state and for every
event, at most one part of the device — the control endpoint or one of the other endpoints — asks the
transmitters for a packet.  (A handshake goes through the handshake generator, a data packet through the data
packet generator: one response is one transmitter's packet.) -/
theorem at_most_one_transmitter_per_response (c : FullConfig) (s : FullState) (ev : HostEvent)
    (wf : WellFormedCfg c) (hk : KindsOk c.eps s.eps) : active (transmitters c s ev) ≤ 1 := by
  unfold transmitters
  by_cases hc : ctlResp c s.ctl ev = .none
  · have := active_eps_le_one (ctxOf s.ctl ev) ev c.eps s.eps hk wf.2
    simp only [active, List.filter_cons, hc, Resp.isNone] at this ⊢
    simpa using this
  · have hz := active_eps_zero (ctxOf s.ctl ev) ev c.eps s.eps hk
      (fun e he ha => ctl_answers_excl c s.ctl ev e (wf.1 e he) hc ha)
    have hnn : (!(ctlResp c s.ctl ev).isNone) = true := by
      cases hh : ctlResp c s.ctl ev <;> simp_all [Resp.isNone]
    simp only [active, List.filter_cons, hnn, ↓reduceIte, List.length_cons] at hz ⊢
    omega

theorem core_tokEp_token (c : DevConfig) (s : DevState) (pid ep : Nat) :
    (core c s (.token pid s.address ep)).1.tokEp = ep := by
  unfold core
  simp only [↓reduceIte]
  rw [(onToken_ctl c s pid ep).tokEp]
  rfl

theorem core_tokEp_data (c : DevConfig) (s : DevState) (pid : Nat) (p : List Nat) (ok : Bool) :
    (core c s (.data pid p ok)).1.tokEp = s.tokEp := (onData_tok c s p ok).2

/-- While the token detector shows endpoint 0 after the event, no other endpoint answers. -/
theorem foreign_none_of_ep0 (c : FullConfig) (s : FullState) (ev : HostEvent) (wf : WellFormedCfg c)
    (hk : KindsOk c.eps s.eps) (h0 : (core c.dev s.ctl ev).1.tokEp = 0) :
    firstResp ((epsStep (ctxOf s.ctl ev) ev c.eps s.eps).map (·.2.1)) = .none := by
  apply Classical.byContradiction
  intro hne
  obtain ⟨e, he, ha⟩ := foreign_solicited _ ev c.eps s.eps hk hne
  have hnum := wf.1 e he
  cases ev with
  | token pid addr ep =>
    have hm := ctxOf_mine s.ctl pid addr ep ha.1
    subst hm
    rw [core_tokEp_token] at h0
    exact hnum (ha.2.1.symm.trans h0)
  | data pid p ok =>
    rw [core_tokEp_data] at h0
    have hep : s.ctl.tokEp = e.num := by have := ha.2.2.2; rwa [ctxOf_tokEp] at this
    exact hnum (hep.symm.trans h0)
  | _ => exact absurd ha (by simp [EpAnswers])

/-- … and what the device transmits is exactly that one part's packet. -/
theorem response_is_the_single_transmitters (c : FullConfig) (s : FullState) (ev : HostEvent)
    (wf : WellFormedCfg c) (hk : KindsOk c.eps s.eps) :
    (Full.step c s ev).2.resp = firstResp (transmitters c s ev) := by
  have hA : (c.acm && acmAcksData s.ctl ev) = true → (core c.dev s.ctl ev).1.tokEp = 0 := by
    intro h
    simp only [Bool.and_eq_true] at h
    obtain ⟨⟨pid, p, rfl⟩, h0, _⟩ := acmAcksData_spec s.ctl ev h.2
    rw [core_tokEp_data]; exact h0
  have hF := foreign_none_of_ep0 c s ev wf hk
  simp only [Full.step, Device.step, transmitters, ctlResp, firstResp]
  by_cases hR : (core c.dev s.ctl ev).2 = .none
  · by_cases hAc : (c.acm && acmAcksData s.ctl ev) = true
    · have h0 := hA hAc
      simp [hR, hAc, h0, Resp.isNone]
    · by_cases h0 : (core c.dev s.ctl ev).1.tokEp = 0
      · have := hF h0
        simp [hR, hAc, h0, this, Resp.isNone]
      · simp [hR, hAc, h0, Resp.isNone]
  · have hn : (core c.dev s.ctl ev).2.isNone = false := by
      cases h : (core c.dev s.ctl ev).2 <;> simp_all [Resp.isNone]
    simp [hn]

end LunaVerif.C20
