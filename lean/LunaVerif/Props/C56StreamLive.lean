import LunaVerif.Lemmas.C56UartRank
import LunaVerif.Props.C56Cdc
/-!
# C56 — StreamILA / CDC read-out: completeness without assumptions on the end of the history

`stream_readout_total`: the StreamILA read-out FSM waits for nothing but `ready`; once the consumer has offered
`2·depth - data_valid` ready cycles (ranking function `srank`: decreases by one per ready cycle, `sending_within`), all `depth`
words have been transferred and the wrapper is idle.  `cdc_readout_counted`: for the clock-domain-crossing variant the
assumptions "wrapper idle and FIFO empty at the end" of `cdc_readout_complete` are replaced by the observable "the consumer has
received `depth` words"; `cdc_readout_fair`: by "`w_rdy` was high often enough".  What these theorems still assume about the
FIFO is only the in-order-queue contract (`Legal`); that the library FIFO eventually raises `w_rdy` / `r_rdy` is not proved.
-/

namespace LunaVerif.IlaStream
open LunaVerif.Ila

/-- ready cycles the read-out FSM still needs: two per word (one for the synchronous read port, one for the transfer), one less
when `data_valid` is already high -/
def srank (c : Config) (s : State) : Nat :=
  match s.fsm with
  | .sending => 2 * (c.depth - s.csn) - s.dv.toNat
  | _ => 0

theorem idle_stays (c : Config) (ys : List In) : ∀ s, s.fsm = .idle → noRetrigger c s ys →
    (runState c s ys).fsm = .idle := by
  induction ys with
  | nil => intro s h _; exact h
  | cons y ys ih =>
    intro s h hq
    exact ih _ (IlaUart.wrap_idle c s y h (hq.1 h)).2.2.1 hq.2

/-- the read-out FSM is idle again as soon as the consumer has offered `srank` ready cycles -/
theorem sending_within (c : Config) (ys : List In) : ∀ s, s.fsm ≠ .sampling → (s.fsm = .sending → s.csn < c.depth) →
    noRetrigger c s ys → srank c s ≤ readyCount ys → (runState c s ys).fsm = .idle := by
  induction ys with
  | nil =>
    intro s hns hj _ hr
    cases hf : s.fsm
    · exact hf
    · exact absurd hf hns
    · have := hj hf
      simp only [srank, hf, readyCount, List.countP_nil] at hr
      cases hdv : s.dv <;> simp [hdv] at hr <;> omega
  | cons y ys ih =>
    intro s hns hj hq hr
    cases hf : s.fsm
    · exact idle_stays c (y :: ys) s hf hq
    · exact absurd hf hns
    · have hjj := hj hf
      have hP := le_two_pow_rangeWidth c.depth
      obtain ⟨_, wd, wf, wc⟩ := IlaUart.wrap_sending c s y hf
      simp only [runState]
      simp only [srank, hf, readyCount, List.countP_cons] at hr
      apply ih _ _ _ hq.2
      · -- srank decreases by one per ready cycle
        simp only [srank, wf, wd, wc, readyCount] at hr ⊢
        cases hry : y.ready <;> cases hdv : s.dv <;> simp [hry, hdv] at hr ⊢
        · omega
        · omega
        · omega
        · by_cases hl : s.csn = c.depth - 1
          · simp [hl]
          · have hmod : (s.csn + 1) % 2 ^ rangeWidth c.depth = s.csn + 1 := Nat.mod_eq_of_lt (by omega)
            simp [hl, hmod]; omega
      · rw [wf]; split <;> simp
      · intro h
        rw [wf] at h
        rw [wc]
        cases hry : y.ready <;> cases hdv : s.dv <;> simp [hry, hdv] at h ⊢
        · exact hjj
        · exact hjj
        · exact hjj
        · rw [Nat.mod_eq_of_lt (by omega)]; omega

/-- **stream_readout_total** (StreamILA, liveness relative to the consumer): a trigger seen while the wrapper is idle, the
`depth` capture cycles, the hand-over cycle, then ANY continuation `ys` that starts no new capture and in which the consumer
offers at least `2·depth - data_valid` ready cycles (at any times): the words transferred on the stream during the whole
history are exactly the `depth` captured samples, framed, in order, each once, and the wrapper is idle again.  (The wrapper
never stalls by itself: the only thing it waits for is `ready`.) -/
theorem stream_readout_total (c : Config) (hd : 1 ≤ c.depth) (σ : State) (hσ : WIdle c σ)
    (x0 : In) (ht : x0.trigger = true) (xs : List In) (hl : xs.length = c.depth) (xl : In) (ys : List In)
    (hq : noRetrigger c (runState c σ (x0 :: xs ++ [xl])) ys) (hn : 2 * c.depth - σ.dv.toNat ≤ readyCount ys) :
    transfers c σ (x0 :: xs ++ xl :: ys) = frame (((σ.core.dl ++ inputsOfW (x0 :: xs)).drop 1).take c.depth) ∧
    (runState c σ (x0 :: xs ++ xl :: ys)).fsm = .idle := by
  obtain ⟨k, h1, h2⟩ := stream_readout_any c hd σ hσ x0 ht xs hl xl ys hq
  obtain ⟨_, wpos, dl, hs⟩ := capture_then_sending c hd σ hσ x0 ht xs hl xl
  have hidle : (runState c σ (x0 :: xs ++ xl :: ys)).fsm = .idle := by
    have hsplit : x0 :: xs ++ xl :: ys = (x0 :: xs ++ [xl]) ++ ys := by simp
    rw [hsplit, runState_append]
    apply sending_within c ys _ _ _ hq
    · rw [hs]; simpa [srank] using hn
    · rw [hs]; simp
    · rw [hs]; intro _; show 0 < c.depth; omega
  refine ⟨?_, hidle⟩
  rw [h1]
  apply List.take_of_length_le
  rw [frame, frameFrom_length, samples_length c σ x0 xs hl]
  exact h2 hidle

/-! Non-vacuity: the continuation of the example of `Lemmas/C56StreamAny.lean` offers 7 ≥ 2·3 - 1 ready cycles -/
example : 2 * 3 - (init ⟨3, 1⟩).dv.toNat ≤ readyCount
    [⟨true, 15, false⟩, ⟨true, 15, true⟩, ⟨true, 15, true⟩, ⟨false, 15, true⟩, ⟨true, 15, true⟩, ⟨false, 15, true⟩,
     ⟨false, 15, true⟩, ⟨false, 15, true⟩] := by decide

end LunaVerif.IlaStream

namespace LunaVerif.IlaCdc
open LunaVerif.Ila

/-- **cdc_readout_counted**: `cdc_readout_complete` with the assumptions on the end of the history replaced by an observable
one: as soon as the consumer has received `depth` words on the output-domain stream (FIFO empty at the start, any legal
two-clock history, no new capture started), those words are exactly the `depth` captured samples, framed, in order, each
once, and the FIFO is empty again — the FIFO cannot hold back, duplicate or invent a word. -/
theorem cdc_readout_counted (c : Config) (hd : 1 ≤ c.depth) (σ : State) (hσ : IlaStream.WIdle c σ.ila) (es : List Ev)
    (x0 : IlaStream.In) (xs : List IlaStream.In) (xl : IlaStream.In) (ys : List IlaStream.In)
    (hw : wHist es = x0 :: xs ++ xl :: ys) (ht : x0.trigger = true) (hl : xs.length = c.depth)
    (hq : IlaStream.noRetrigger c (IlaStream.runState c σ.ila (x0 :: xs ++ [xl])) ys) (hL : Legal c σ es)
    (hq0 : σ.q = []) (hcnt : c.depth ≤ (outWords c σ es).length) :
    outWords c σ es = IlaStream.frame (((σ.ila.core.dl ++ IlaStream.inputsOfW (x0 :: xs)).drop 1).take c.depth) ∧
    (runState c σ es).q = [] := by
  obtain ⟨k, h1, _⟩ := cdc_readout_in_order c hd σ hσ es x0 xs xl ys hw ht hl hq hL
  rw [hq0, List.nil_append] at h1
  have hlen : (IlaStream.frame (((σ.ila.core.dl ++ IlaStream.inputsOfW (x0 :: xs)).drop 1).take c.depth)).length
      = c.depth := by
    rw [IlaStream.frame, IlaStream.frameFrom_length, IlaStream.samples_length c σ.ila x0 xs hl]
  have hL2 := congrArg List.length h1
  simp only [List.length_append, List.length_take, hlen] at hL2
  have hqe : (runState c σ es).q = [] := List.eq_nil_of_length_eq_zero (by omega)
  refine ⟨?_, hqe⟩
  rw [hqe, List.append_nil] at h1
  rw [h1]
  apply List.take_of_length_le
  rw [hlen]; omega

/-- **cdc_readout_fair**: the same conclusion from hypotheses on the FIFO oracle and the consumer alone: if `w_rdy` was high in at
least `2·depth - data_valid` capture-domain cycles after the hand-over cycle, the read-out FSM is idle again and has handed all `depth`
words to the FIFO: what came out followed by what is still queued is the whole frame. -/
theorem cdc_readout_fair (c : Config) (hd : 1 ≤ c.depth) (σ : State) (hσ : IlaStream.WIdle c σ.ila) (es : List Ev)
    (x0 : IlaStream.In) (xs : List IlaStream.In) (xl : IlaStream.In) (ys : List IlaStream.In)
    (hw : wHist es = x0 :: xs ++ xl :: ys) (ht : x0.trigger = true) (hl : xs.length = c.depth)
    (hq : IlaStream.noRetrigger c (IlaStream.runState c σ.ila (x0 :: xs ++ [xl])) ys) (hL : Legal c σ es)
    (hq0 : σ.q = []) (hn : 2 * c.depth - σ.ila.dv.toNat ≤ IlaStream.readyCount ys) :
    outWords c σ es ++ (runState c σ es).q =
      IlaStream.frame (((σ.ila.core.dl ++ IlaStream.inputsOfW (x0 :: xs)).drop 1).take c.depth) ∧
    (runState c σ es).ila.fsm = .idle := by
  obtain ⟨h1, h2⟩ := queue_conservation c es σ hL
  obtain ⟨t1, t2⟩ := IlaStream.stream_readout_total c hd σ.ila hσ x0 ht xs hl xl ys hq hn
  rw [hw] at h1 h2
  rw [h1, hq0, List.nil_append, h2]
  exact ⟨t1, t2⟩

/-! Non-vacuity (the history `exEvents` of `Props/C56Cdc.lean`): the consumer receives `depth = 2` words; `w_rdy` is high in 3 =
2·2 - 1 capture-domain cycles after the hand-over cycle -/
example : 2 ≤ (outWords ⟨2, 1⟩ (init ⟨2, 1⟩) exEvents).length := by decide
example : 2 * 2 - (init ⟨2, 1⟩).ila.dv.toNat ≤ IlaStream.readyCount
    [⟨true, 14, true⟩, ⟨false, 15, false⟩, ⟨false, 15, true⟩, ⟨false, 15, true⟩] := by decide

end LunaVerif.IlaCdc
