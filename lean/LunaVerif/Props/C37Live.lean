import LunaVerif.Lemmas.C37LiveAck
import LunaVerif.Lemmas.C37LiveCrd
/-!
# C37 — liveness of the header receiver (owed link commands are eventually sent, with explicit bounds)

Environment: that of `Props/C37.lean` (`EnvOk`: link enabled, no USB reset, partner honours credits and the
four-unacknowledged-headers limit, LRTY answers a completed LBAD) plus **bounded fairness** of the sink of the
link-command generator: never `K` consecutive cycles without `source.ready` (`FairOk K`, `K` universally
quantified).

The proofs (Lemmas/C37Live*.lean) use one ranking function per kind of command, counted in *ready cycles*:
it never increases, drops in every ready cycle, is raised by at most a constant by a cycle that brings new
higher-priority work, and is 0 exactly when the command has completed on the wire.  A fair history of
length `K·R` contains `R` ready cycles (`fair_ready_ge`), which gives the bounds below.

* `lgood_within` — every header accepted so far has its LGOOD on the wire (by `lgood_carries_seq`: carrying
  its sequence number) within `B1 = K·(40 + 4·r)` cycles, `r` = number of `retry_required` pulses in the
  window (each puts one LRTY ahead of the LGOOD).
* `lcrd_within` — every buffer freed so far has its LCRD on the wire within `B2 = K·(52 + 4·r)` cycles.
-/
namespace LunaVerif.HeaderRx

/-- **C37 liveness (1): LGOOD.**  After any history `pre` from reset, every header accepted during `pre`
has been acknowledged (LGOOD #(k+1) for accepted header #k, see `lgood_carries_seq`) at the end of every fair
continuation `post` of length at least `K·(40 + 4·#retry_required)`. -/
theorem lgood_within (c : Config) (K : Nat) (pre post : List In) (e : EnvOk c init Ghost.init (pre ++ post))
    (hK : 0 < K) (hf : FairOk K 0 post)
    (hl : K * (40 + 4 * countIn (·.retryRequired) post) ≤ post.length) :
    (runG c init Ghost.init pre).2.accepted.length + 1 ≤
      (runG c init Ghost.init (pre ++ post)).2.lgoods.length := by
  obtain ⟨e1, e2⟩ := envOk_append c pre post _ _ e
  have hI := inv_reachable c pre e1
  rw [runG_append]
  exact lgood_live c _ _ _ hI (by have := hI.hack; omega) post e2 (fair_ready_ge K _ post hf hK hl)

/-- **C37 liveness (2): LCRD.**  After any history `pre` from reset, every buffer freed during `pre` (plus the
four initial ones) has been advertised by an LCRD at the end of every fair continuation `post` of length at
least `K·(52 + 4·#retry_required)`. -/
theorem lcrd_within (c : Config) (K : Nat) (pre post : List In) (e : EnvOk c init Ghost.init (pre ++ post))
    (hK : 0 < K) (hf : FairOk K 0 post)
    (hl : K * (52 + 4 * countIn (·.retryRequired) post) ≤ post.length) :
    (runG c init Ghost.init pre).2.delivered.length + 4 ≤
      (runG c init Ghost.init (pre ++ post)).2.lcrds.length := by
  obtain ⟨e1, e2⟩ := envOk_append c pre post _ _ e
  have hI := inv_reachable c pre e1
  rw [runG_append]
  exact lcrd_live c _ _ _ hI (by have := hI.hcti; omega) post e2 (fair_ready_ge K _ post hf hK hl)

/-! ## Non-vacuity -/

def decFairOk (K : Nat) : (w : Nat) → (is : List In) → Decidable (FairOk K w is)
  | _, [] => isTrue trivial
  | w, i :: is =>
    match (inferInstance : Decidable (i.srcReady = true ∨ w + 1 < K)),
        decFairOk K (if i.srcReady then 0 else w + 1) is with
    | isTrue a, isTrue b => isTrue ⟨a, b⟩
    | isFalse a, _ => isFalse (fun h => a h.1)
    | _, isFalse b => isFalse (fun h => b h.2)

instance (K w : Nat) (is : List In) : Decidable (FairOk K w is) := decFairOk K w is

/-- an idle cycle in which the sink of the generator does not accept -/
def stall : In := { cyc false 0 0 with srcReady := false }

/-- bring-up, a good header, the protocol layer takes it -/
def livePre : List In := List.replicate 20 (cyc false 0 0) ++ sendHdr hdrA ++ [cyc false 0 0 true]
/-- two stalled cycles, then a granted one, 70 times: fair for `K = 3` -/
def livePost : List In := (List.replicate 70 [stall, stall, cyc false 0 0]).flatten

example : EnvOk ⟨true, false⟩ init Ghost.init (livePre ++ livePost) ∧ FairOk 3 0 livePost ∧
    3 * (52 + 4 * countIn (·.retryRequired) livePost) ≤ livePost.length ∧
    (runG ⟨true, false⟩ init Ghost.init livePre).2.accepted.length = 1 ∧
    (runG ⟨true, false⟩ init Ghost.init livePre).2.delivered.length = 1 ∧
    (runG ⟨true, false⟩ init Ghost.init livePre).2.lgoods.length = 1 ∧
    (runG ⟨true, false⟩ init Ghost.init livePre).2.lcrds.length = 4 := by decide +kernel

end LunaVerif.HeaderRx
