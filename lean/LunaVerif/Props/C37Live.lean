import LunaVerif.Lemmas.C37LiveAck
import LunaVerif.Lemmas.C37LiveCrd
import LunaVerif.Lemmas.C37LiveBad
import LunaVerif.Lemmas.C37LiveRty
import LunaVerif.Lemmas.C37LiveLxu
import LunaVerif.Lemmas.C37LiveKa
/-!
# C37 — liveness of the header receiver (owed link commands are eventually sent, with explicit bounds)

Environment: that of `Props/C37.lean` (`EnvOk`: link enabled, no USB reset, partner honours credits and the
four-unacknowledged-headers limit, LRTY answers a completed LBAD) plus **bounded fairness** of the sink of the
link-command generator: never `K` consecutive cycles without `source.ready` (`FairOk K`, `K` universally
quantified).

The proofs (Lemmas/C37Live*.lean) use one ranking function per kind of command, counted in *ready cycles*:
it never increases, drops in every ready cycle, is raised by at most a constant by a cycle that brings new
higher-priority work, and is 0 exactly when the command has completed on the wire.  A fair history of
length `K·R` contains `R` ready cycles (`fair_ready_ge`), which gives the bounds below.

* `lgood_within` — every header accepted so far has its LGOOD on the wire (by `lgood_carries_seq`: carrying
  its sequence number) within `B1 = K·(40 + 4·r)` cycles, `r` = number of `retry_required` pulses in the
  window (each puts one LRTY ahead of the LGOOD).
* `lcrd_within` — every buffer freed so far has its LCRD on the wire within `B2 = K·(52 + 4·r)` cycles.
* `lbad_within` — every corrupted header noticed so far has its LBAD on the wire within `B3 = K·(44 + 4·r)`.
* `lrty_within` — a pending LRTY completes within `B4 = 28·K` cycles (highest priority: only the session in
  progress is ahead of it).  `lrty_request_latched`: a `retry_required` pulse makes the LRTY pending unless an
  LRTY completes in that very cycle (as coded the completion's clear wins; the request is merged with it).
* `lxu_within`, `keepalive_within` — lowest priorities: a pending LXU / keepalive completes within
  `K·(48 + 16·b)` / `K·(52 + 20·b)` cycles, `b` = number of cycles of the window that bring new higher-priority
  work (header accepted, buffer freed, corrupted header, `retry_required`; for the keepalive also
  `reject_power_state`).  Under saturating traffic these two can be postponed for as long as the traffic
  lasts — that is the priority order of DISPATCH_COMMAND as coded, so the bound necessarily counts `b`.
* `wire_lrty`, `wire_lxu`, `wire_keepalive` — what the counts count: a command of that kind completing on
  the source stream.
-/
namespace LunaVerif.HeaderRx

/-- **C37 liveness (1): LGOOD.**  After any history `pre` from reset, every header accepted during `pre`
has been acknowledged (LGOOD #(k+1) for accepted header #k, see `lgood_carries_seq`) at the end of every fair
continuation `post` of length at least `K·(40 + 4·#retry_required)`. -/
theorem lgood_within (c : Config) (K : Nat) (pre post : List In) (e : EnvOk c init Ghost.init (pre ++ post))
    (hK : 0 < K) (hf : FairOk K 0 post)
    (hl : K * (40 + 4 * countIn (·.retryRequired) post) ≤ post.length) :
    (runG c init Ghost.init pre).2.accepted.length + 1 ≤
      (runG c init Ghost.init (pre ++ post)).2.lgoods.length := by
  obtain ⟨e1, e2⟩ := envOk_append c pre post _ _ e
  have hI := inv_reachable c pre e1
  rw [runG_append]
  exact lgood_live c _ _ _ hI (by have := hI.hack; omega) post e2 (fair_ready_ge K _ post hf hK hl)

/-- **C37 liveness (2): LCRD.**  After any history `pre` from reset, every buffer freed during `pre` (plus the
four initial ones) has been advertised by an LCRD at the end of every fair continuation `post` of length at
least `K·(52 + 4·#retry_required)`. -/
theorem lcrd_within (c : Config) (K : Nat) (pre post : List In) (e : EnvOk c init Ghost.init (pre ++ post))
    (hK : 0 < K) (hf : FairOk K 0 post)
    (hl : K * (52 + 4 * countIn (·.retryRequired) post) ≤ post.length) :
    (runG c init Ghost.init pre).2.delivered.length + 4 ≤
      (runG c init Ghost.init (pre ++ post)).2.lcrds.length := by
  obtain ⟨e1, e2⟩ := envOk_append c pre post _ _ e
  have hI := inv_reachable c pre e1
  rw [runG_append]
  exact lcrd_live c _ _ _ hI (by have := hI.hcti; omega) post e2 (fair_ready_ge K _ post hf hK hl)

/-- **C37 liveness (3): LBAD.**  Every corrupted header noticed during `pre` has been answered by a completed
LBAD at the end of every fair continuation `post` of length at least `K·(44 + 4·#retry_required)`. -/
theorem lbad_within (c : Config) (K : Nat) (pre post : List In) (e : EnvOk c init Ghost.init (pre ++ post))
    (hK : 0 < K) (hf : FairOk K 0 post)
    (hl : K * (44 + 4 * countIn (·.retryRequired) post) ≤ post.length) :
    (runG c init Ghost.init pre).2.bads ≤ (runG c init Ghost.init (pre ++ post)).2.lbads := by
  obtain ⟨e1, e2⟩ := envOk_append c pre post _ _ e
  have hI := inv_reachable c pre e1
  rw [runG_append]
  refine lbad_live c _ _ _ hI ?_ post e2 (fair_ready_ge K _ post hf hK hl)
  have := hI.hlbc
  simp only [b2]; omega

/-- the command the dispatch FSM asks the generator for, per state -/
def cmdOf (c : Config) : Fsm → Nat
  | .dispatch => 0 | .sendAcks => LGOOD | .issueCredits => LCRD | .sendLbad => LBAD
  | .sendLrty => LRTY | .sendKeepalive => if c.downstream then LDN else LUP | .sendLxu => LXU

theorem genCmd_eq (c : Config) (s : State) : genCmd c s = cmdOf c s.fsm := by
  unfold genCmd cmdOf; cases s.fsm <;> rfl

theorem cmdOf_inj (c : Config) (f f' : Fsm) (hf : f ≠ .dispatch) (hf' : f' ≠ .dispatch)
    (h : cmdOf c f = cmdOf c f') : f = f' := by
  cases f <;> cases f' <;> cases hd : c.downstream <;>
    simp_all [cmdOf, LGOOD, LCRD, LBAD, LRTY, LXU, LUP, LDN]

/-- under the invariant, a command of the kind of dispatch state `f` completes on the wire iff the dispatch
FSM is in `f` and the generator's command word is taken -/
theorem wire_cmd {c : Config} {s : State} {g : Ghost} (i : In) (h : Inv c s g) (f : Fsm) (hf : f ≠ .dispatch) :
    wire s i (cmdOf c f) = (s.fsm == f && done s i) := by
  unfold wire done
  by_cases hg : s.gen = .command
  · have h1 := (h.hgen1 (by simp [hg])).1
    have hnd : s.fsm ≠ .dispatch := fun hd => by have := h.hgen0 hd; simp [hg] at this
    rw [h1, genCmd_eq]
    by_cases hs : s.fsm = f
    · simp [hs, hg]
    · have e1 : (s.fsm == f) = false := by simpa using hs
      have e2 : (cmdOf c s.fsm == cmdOf c f) = false := by
        simp only [beq_eq_false_iff_ne, ne_eq]
        exact fun hc => hs (cmdOf_inj c _ _ hnd hf hc)
      simp [e1, e2]
  · have hb : (s.gen == Gen.command) = false := by cases hx : s.gen <;> simp_all
    simp [hb]

/-- a command completing on the wire is an LRTY iff the dispatch FSM is in SEND_LRTY -/
theorem wire_lrty {c : Config} {s : State} {g : Ghost} (i : In) (h : Inv c s g) :
    wire s i LRTY = (s.fsm == .sendLrty && done s i) := wire_cmd i h .sendLrty (by simp)

/-- a command completing on the wire is an LXU iff the dispatch FSM is in SEND_LXU -/
theorem wire_lxu {c : Config} {s : State} {g : Ghost} (i : In) (h : Inv c s g) :
    wire s i LXU = (s.fsm == .sendLxu && done s i) := wire_cmd i h .sendLxu (by simp)

/-- a command completing on the wire is the keepalive (LUP, or LDN on a downstream-facing port) iff the
dispatch FSM is in SEND_KEEPALIVE -/
theorem wire_keepalive {c : Config} {s : State} {g : Ghost} (i : In) (h : Inv c s g) :
    wire s i (if c.downstream then LDN else LUP) = (s.fsm == .sendKeepalive && done s i) :=
  wire_cmd i h .sendKeepalive (by simp)

/-- **C37 liveness (4a): LRTY.**  If an LRTY is pending after `pre`, one completes on the wire during every
fair continuation of at least `28·K` cycles. -/
theorem lrty_within (c : Config) (K : Nat) (pre post : List In) (e : EnvOk c init Ghost.init (pre ++ post))
    (hK : 0 < K) (hf : FairOk K 0 post) (hl : K * 28 ≤ post.length)
    (hp : (runG c init Ghost.init pre).1.lrty = true) :
    1 ≤ lrtysRun c (runG c init Ghost.init pre).1 0 post := by
  obtain ⟨e1, e2⟩ := envOk_append c pre post _ _ e
  exact lrty_live c _ _ (inv_reachable c pre e1) hp post e2 (fair_ready_ge K _ post hf hK hl)

/-- **C37 liveness (4b): LXU.**  If an LXU is pending after `pre`, one completes on the wire during every fair
continuation of at least `K·(48 + 16·b)` cycles, `b` = cycles of the continuation that bring new
higher-priority work. -/
theorem lxu_within (c : Config) (K : Nat) (pre post : List In) (e : EnvOk c init Ghost.init (pre ++ post))
    (hK : 0 < K) (hf : FairOk K 0 post)
    (hl : K * (48 + 16 * badXCount c (runG c init Ghost.init pre).1 (runG c init Ghost.init pre).2 post) ≤ post.length)
    (hp : (runG c init Ghost.init pre).1.lxu = true) :
    1 ≤ lxusRun c (runG c init Ghost.init pre).1 0 post := by
  obtain ⟨e1, e2⟩ := envOk_append c pre post _ _ e
  exact lxu_live c _ _ (inv_reachable c pre e1) hp post e2 (fair_ready_ge K _ post hf hK hl)

/-- **C37 liveness (4c): keepalive.**  Same for a pending keepalive, `K·(52 + 20·b)` cycles. -/
theorem keepalive_within (c : Config) (K : Nat) (pre post : List In) (e : EnvOk c init Ghost.init (pre ++ post))
    (hK : 0 < K) (hf : FairOk K 0 post)
    (hl : K * (52 + 20 * badKCount c (runG c init Ghost.init pre).1 (runG c init Ghost.init pre).2 post) ≤ post.length)
    (hp : (runG c init Ghost.init pre).1.keepalive = true) :
    1 ≤ kasRun c (runG c init Ghost.init pre).1 0 post := by
  obtain ⟨e1, e2⟩ := envOk_append c pre post _ _ e
  exact keepalive_live c _ _ (inv_reachable c pre e1) hp post e2 (fair_ready_ge K _ post hf hK hl)

/-! ## Non-vacuity -/

def decFairOk (K : Nat) : (w : Nat) → (is : List In) → Decidable (FairOk K w is)
  | _, [] => isTrue trivial
  | w, i :: is =>
    match (inferInstance : Decidable (i.srcReady = true ∨ w + 1 < K)),
        decFairOk K (if i.srcReady then 0 else w + 1) is with
    | isTrue a, isTrue b => isTrue ⟨a, b⟩
    | isFalse a, _ => isFalse (fun h => a h.1)
    | _, isFalse b => isFalse (fun h => b h.2)

instance (K w : Nat) (is : List In) : Decidable (FairOk K w is) := decFairOk K w is

/-- an idle cycle in which the sink of the generator does not accept -/
def stall : In := { cyc false 0 0 with srcReady := false }

/-- bring-up, a good header, the protocol layer takes it -/
def livePre : List In := List.replicate 20 (cyc false 0 0) ++ sendHdr hdrA ++ [cyc false 0 0 true]
/-- two stalled cycles, then a granted one, 70 times: fair for `K = 3` -/
def livePost : List In := (List.replicate 70 [stall, stall, cyc false 0 0]).flatten

example : EnvOk ⟨true, false, false⟩ init Ghost.init (livePre ++ livePost) ∧ FairOk 3 0 livePost ∧
    3 * (52 + 4 * countIn (·.retryRequired) livePost) ≤ livePost.length ∧
    (runG ⟨true, false, false⟩ init Ghost.init livePre).2.accepted.length = 1 ∧
    (runG ⟨true, false, false⟩ init Ghost.init livePre).2.delivered.length = 1 ∧
    (runG ⟨true, false, false⟩ init Ghost.init livePre).2.lgoods.length = 1 ∧
    (runG ⟨true, false, false⟩ init Ghost.init livePre).2.lcrds.length = 4 := by decide +kernel


/-- bring-up, then a corrupted header (LBAD owed), with retry / keepalive / power-state requests pending -/
def livePre2 : List In :=
  List.replicate 20 (cyc false 0 0) ++ sendHdr hdrBad ++
  [{ cyc false 0 0 with retryRequired := true, keepaliveRequired := true, rejectPower := true }]

example : EnvOk ⟨true, false, false⟩ init Ghost.init (livePre2 ++ livePost) ∧
    (runG ⟨true, false, false⟩ init Ghost.init livePre2).2.bads = 1 ∧
    (runG ⟨true, false, false⟩ init Ghost.init livePre2).2.lbads = 0 ∧
    (runG ⟨true, false, false⟩ init Ghost.init livePre2).1.lrty = true ∧
    (runG ⟨true, false, false⟩ init Ghost.init livePre2).1.lxu = true ∧
    (runG ⟨true, false, false⟩ init Ghost.init livePre2).1.keepalive = true ∧
    3 * (52 + 20 * badKCount ⟨true, false, false⟩ (runG ⟨true, false, false⟩ init Ghost.init livePre2).1
      (runG ⟨true, false, false⟩ init Ghost.init livePre2).2 livePost) ≤ livePost.length ∧
    lrtysRun ⟨true, false, false⟩ (runG ⟨true, false, false⟩ init Ghost.init livePre2).1 0 livePost = 1 ∧
    kasRun ⟨true, false, false⟩ (runG ⟨true, false, false⟩ init Ghost.init livePre2).1 0 livePost = 1 := by decide +kernel

end LunaVerif.HeaderRx
