import LunaVerif.Model.Usb2.TokenDetector
import LunaVerif.Core.UtmiTrack
/-!
# C01 — USB2 tokens are reported iff well-formed and addressed to the device

"A token event (IN, OUT, SETUP, PING) is reported exactly when the host sent a complete 3-byte token
whose PID check nibble is valid, whose CRC5 matches the standard USB CRC5, and whose address equals
the device's current address; its endpoint and PID are reported unchanged.  A start-of-frame updates
the frame number iff it is a well-formed SOF, regardless of address.  Truncated, over-long, corrupted
or foreign-address tokens never produce an event."

Quantified over all UTMI receive histories (rx_active/rx_valid timing, any byte values, any packet
lengths, aborted packets) and all 7-bit device addresses.

The received packets of a raw history are defined by the tracker of `Core/UtmiTrack.lean` (bytes
between `rx_active` rising and falling).  `tokenOf` is the packet-level specification; `report`
says what a completed packet does to the interface registers; `specRun` is the cycle-by-cycle
specification: the registers seen in a cycle are those after every packet completed in an earlier
cycle, the two strobes being high only in the cycle directly after the completion.
-/
namespace LunaVerif.TokenDetector
open LunaVerif.Utmi

inductive TokenEvent
  | token (pid addr ep : Nat)
  | sof (frame : Nat)
deriving Repr, DecidableEq

/-- Upper nibble = complement of the PID nibble (USB 2.0 §8.3.1). -/
def checkNibbleOk (p : Nat) : Bool := p / 16 == 15 - p % 16

/-- Packet-level specification (USB 2.0 §8.4.1/8.4.3): PID byte, then 11 payload bits (LSB first)
and the 5-bit CRC.  PIDs: OUT 1, IN 9, SETUP 13, PING 4; SOF 5. -/
def tokenOf (bytes : List Nat) : Option TokenEvent :=
  match bytes with
  | [p, a, b] =>
    let d := a + 256 * (b % 8)
    if checkNibbleOk p && (b / 8 == Crc.usb2Crc5 d) then
      if p % 16 == 5 then some (.sof d)
      else if p % 16 == 1 || p % 16 == 9 || p % 16 == 13 || p % 16 == 4 then
        some (.token (p % 16) (d % 128) (d / 128))
      else none
    else none
  | _ => none

def clearStrobes (r : Regs) : Regs := { r with newToken := false, newFrame := false }

/-- Effect of a completed packet on the interface registers, the device address being `addr`. -/
def report (cfg : Config) (addr : Nat) (r : Regs) : Option TokenEvent → Regs
  | some (.sof n) => { clearStrobes r with frame := n, newFrame := true }
  | some (.token pid a ep) =>
    if !cfg.filterByAddress || a == addr then
      { clearStrobes r with pid := pid, address := a, endpoint := ep, newToken := true }
    else { clearStrobes r with pid := 0 }    -- quirk: a foreign token clears the reported PID
  | none => clearStrobes r

def specNextRegs (cfg : Config) (cur : Track) (r : Regs) (i : In) : Regs :=
  match trackDone cur i.rx with
  | some pkt => report cfg i.address r (tokenOf pkt)
  | none => clearStrobes r

def specRun (cfg : Config) : Track → Regs → List In → List Regs
  | _, _, [] => []
  | cur, r, i :: is => r :: specRun cfg (trackNext cur i.rx) (specNextRegs cfg cur r i) is

/-! ## Bridging lemmas between the bit-slice tests of the code and the specification -/

theorem isTokenPid_spec : ∀ p, p < 256 → isTokenPid p =
    (checkNibbleOk p && (p % 16 == 5 || p % 16 == 1 || p % 16 == 9 || p % 16 == 13 || p % 16 == 4)) := by
  decide +kernel

theorem crcOk_spec (a b : Nat) (ha : a < 256) (hb : b < 256) :
    crcOk a b = (b / 8 == Crc.usb2Crc5 (a + 256 * (b % 8))) := by
  unfold crcOk
  rw [Nat.mod_eq_of_lt ha, Nat.mod_eq_of_lt (show b / 8 < 32 by omega)]

/-- `tokenOf` of a three-byte packet in terms of the tests the FSM makes. -/
theorem tokenOf_three (p a b : Nat) (hp : p < 256) (ha : a < 256) (hb : b < 256) :
    tokenOf [p, a, b] =
      if isTokenPid p && crcOk a b then
        (if p % 16 == 5 then some (.sof (a + 256 * (b % 8)))
         else some (.token (p % 16) ((a + 256 * (b % 8)) % 128) ((a + 256 * (b % 8)) / 128)))
      else none := by
  rw [isTokenPid_spec p hp, crcOk_spec a b ha hb]
  simp only [tokenOf]
  cases checkNibbleOk p <;> cases (b / 8 == Crc.usb2Crc5 (a + 256 * (b % 8))) <;>
    cases (p % 16 == 5) <;> cases (p % 16 == 1) <;> cases (p % 16 == 9) <;>
    cases (p % 16 == 13) <;> cases (p % 16 == 4) <;> rfl

/-! ## Refinement invariant: FSM state as a function of the packet received so far -/

def Inv (s : State) (cur : Track) : Prop :=
  match cur with
  | none => s.fsm = .idle
  | some [] => s.fsm = .readPid
  | some [p] => p < 256 ∧
      if isTokenPid p then s.fsm = .readToken0 ∧ s.currentPid = p % 16 else s.fsm = .irrelevant
  | some [p, a] => p < 256 ∧ a < 256 ∧
      if isTokenPid p then s.fsm = .readToken1 ∧ s.currentPid = p % 16 ∧ s.tokenData = a
      else s.fsm = .irrelevant
  | some [p, a, b] => p < 256 ∧ a < 256 ∧ b < 256 ∧
      if isTokenPid p && crcOk a b then
        s.fsm = .tokenComplete ∧ s.currentPid = p % 16 ∧ s.tokenData = a + 256 * (b % 8)
      else s.fsm = .irrelevant
  | some (_ :: _ :: _ :: _ :: _) => s.fsm = .irrelevant

theorem inv_init : Inv init none := rfl

theorem step_inv (cfg : Config) (s : State) (cur : Track) (i : In) (hd : i.rx.data < 256)
    (h : Inv s cur) :
    Inv (tokStep cfg s i).1 (trackNext cur i.rx) ∧
    (tokStep cfg s i).1.regs = specNextRegs cfg cur s.regs i := by
  obtain ⟨⟨active, valid, data⟩, addr⟩ := i
  simp only at hd
  match cur, h with
  | none, hf =>
    simp only [Inv] at hf
    cases active <;>
      simp [Inv, tokStep, hf, trackNext, trackDone, specNextRegs, clearStrobes]
  | some [], hf =>
    simp only [Inv] at hf
    cases active <;> cases valid <;>
      simp [Inv, tokStep, hf, trackNext, trackDone, specNextRegs, clearStrobes, tokenOf, report, hd]
    cases hv : isTokenPid data <;> simp
  | some [p], hf =>
    simp only [Inv] at hf
    obtain ⟨hp, hf⟩ := hf
    cases hv : isTokenPid p
    · simp [hv] at hf
      cases active <;> cases valid <;>
        simp [Inv, tokStep, hf, trackNext, trackDone, specNextRegs, clearStrobes, tokenOf, report, hd, hp, hv]
    · simp [hv] at hf
      obtain ⟨hf, hc⟩ := hf
      cases active <;> cases valid <;>
        simp [Inv, tokStep, hf, hc, trackNext, trackDone, specNextRegs, clearStrobes, tokenOf, report, hd, hp, hv,
          Nat.mod_eq_of_lt hd]
  | some [p, a], hf =>
    simp only [Inv] at hf
    obtain ⟨hp, ha, hf⟩ := hf
    cases hv : isTokenPid p
    · simp [hv] at hf
      cases active <;> cases valid <;>
        simp [Inv, tokStep, hf, trackNext, trackDone, specNextRegs, clearStrobes, tokenOf, report, hd, hp, ha, hv]
    · simp [hv] at hf
      obtain ⟨hf, hc, ht⟩ := hf
      cases active <;> cases valid <;>
        simp [Inv, tokStep, hf, hc, ht, trackNext, trackDone, specNextRegs, clearStrobes, tokenOf, report, hd, hp, ha,
          hv, Nat.mod_eq_of_lt ha]
      cases hcrc : crcOk a data <;> simp
  | some [p, a, b], hf =>
    simp only [Inv] at hf
    obtain ⟨hp, ha, hb, hf⟩ := hf
    have h3 := tokenOf_three p a b hp ha hb
    cases hv : (isTokenPid p && crcOk a b)
    · simp [hv] at hf
      rw [hv] at h3
      simp only [Bool.false_eq_true, if_false] at h3
      have hv2 := hv
      simp at hv2
      cases active <;> cases valid <;>
        simp [Inv, tokStep, hf, trackNext, trackDone, specNextRegs, clearStrobes, h3, report, hp, ha, hb] <;>
        exact hv2
    · simp [hv] at hf
      rw [hv] at h3
      simp only [if_true] at h3
      obtain ⟨hf, hc, ht⟩ := hf
      have hv2 := hv
      simp at hv2
      cases active <;> cases valid <;>
        simp [Inv, tokStep, hf, hc, ht, trackNext, trackDone, specNextRegs, clearStrobes, h3, report, sofPid,
          hp, ha, hb, hv2]
      · -- the packet ends: SOF, own token, foreign token
        cases hs : (p % 16 == 5) <;> cases hfl : cfg.filterByAddress <;>
          simp [report, clearStrobes, hs, hfl] <;> simp at hs <;> simp [hs]
        · split <;> simp_all
      · cases hs : (p % 16 == 5) <;> cases hfl : cfg.filterByAddress <;>
          simp [report, clearStrobes, hs, hfl] <;> simp at hs <;> simp [hs]
        · split <;> simp_all
  | some (b1 :: b2 :: b3 :: b4 :: rest), hf =>
    simp only [Inv] at hf
    cases active <;> cases valid <;>
      simp [Inv, tokStep, hf, trackNext, trackDone, specNextRegs, clearStrobes, tokenOf, report]

theorem token_events_exact_from (cfg : Config) (s : State) (cur : Track) (h : Inv s cur)
    (hist : List In) (hd : ∀ i ∈ hist, i.rx.data < 256) :
    tokRun cfg s hist = specRun cfg cur s.regs hist := by
  induction hist generalizing s cur with
  | nil => rfl
  | cons i is ih =>
    have hs := step_inv cfg s cur i (hd i (by simp)) h
    simp only [tokRun, specRun]
    congr 1
    rw [← hs.2]
    exact ih _ _ hs.1 (fun x hx => hd x (by simp [hx]))

/-- **C01, cycle level.**  For both `filter_by_address` settings, every receive history (8-bit
data) and every schedule of the address input, the interface registers (pid, address, endpoint,
frame, new_token, new_frame) are in every cycle exactly those the specification prescribes: each
completed packet is judged by `tokenOf` and reported — one strobe, in the cycle after `rx_active`
fell — iff it is a well-formed token for the address present at that moment, or a well-formed SOF. -/
theorem token_events_exact (cfg : Config) (hist : List In) (hd : ∀ i ∈ hist, i.rx.data < 256) :
    tokRun cfg init hist = specRun cfg none initRegs hist :=
  token_events_exact_from cfg init none inv_init hist hd

/-! ## Corollaries about what is and is not an event -/

/-- Truncated (0, 1, 2 bytes — including `rx_active` dropping mid-token) and over-long packets are
never events. -/
theorem no_event_unless_three_bytes (bytes : List Nat) (h : bytes.length ≠ 3) : tokenOf bytes = none := by
  match bytes, h with
  | [], _ => rfl
  | [_], _ => rfl
  | [_, _], _ => rfl
  | [_, _, _], h => simp at h
  | _ :: _ :: _ :: _ :: _, _ => rfl

/-- A bad check nibble or a CRC5 mismatch is never an event. -/
theorem no_event_on_corruption (p a b : Nat)
    (h : checkNibbleOk p = false ∨ (b / 8 == Crc.usb2Crc5 (a + 256 * (b % 8))) = false) :
    tokenOf [p, a, b] = none := by
  simp only [tokenOf]
  rcases h with h | h <;> simp [h]

/-- PIDs other than OUT/IN/SETUP/PING/SOF are never events. -/
theorem no_event_other_pid (p a b : Nat)
    (h : p % 16 ≠ 5 ∧ p % 16 ≠ 1 ∧ p % 16 ≠ 9 ∧ p % 16 ≠ 13 ∧ p % 16 ≠ 4) :
    tokenOf [p, a, b] = none := by
  simp only [tokenOf]
  split <;> simp [h]

/-- An event carries the packet's own PID, address and endpoint / frame bits. -/
theorem event_fields (p a b : Nat) (ev : TokenEvent) (h : tokenOf [p, a, b] = some ev) :
    ev = .sof (a + 256 * (b % 8)) ∧ p % 16 = 5 ∨
    ev = .token (p % 16) ((a + 256 * (b % 8)) % 128) ((a + 256 * (b % 8)) / 128) ∧
      (p % 16 = 1 ∨ p % 16 = 9 ∨ p % 16 = 13 ∨ p % 16 = 4) := by
  simp only [tokenOf] at h
  split at h
  · split at h
    · rename_i h5; simp at h5; left; exact ⟨by simpa using h.symm, h5⟩
    · split at h
      · rename_i hk; simp at hk; right; exact ⟨by simpa using h.symm, by omega⟩
      · simp at h
  · simp at h

/-- With address filtering, a well-formed token for another address raises no strobe and leaves
address, endpoint and frame untouched. -/
theorem no_event_foreign_address (cfg : Config) (hf : cfg.filterByAddress = true) (addr : Nat) (r : Regs)
    (pid a ep : Nat) (ha : a ≠ addr) :
    let r' := report cfg addr r (some (.token pid a ep))
    r'.newToken = false ∧ r'.newFrame = false ∧ r'.address = r.address ∧ r'.endpoint = r.endpoint ∧
    r'.frame = r.frame := by
  simp [report, hf, ha, clearStrobes]

/-- A token for the device's address (or any token without filtering) is reported with its fields. -/
theorem event_own_address (cfg : Config) (addr : Nat) (r : Regs) (pid a ep : Nat)
    (h : cfg.filterByAddress = false ∨ a = addr) :
    report cfg addr r (some (.token pid a ep)) =
      { r with pid := pid, address := a, endpoint := ep, newToken := true, newFrame := false } := by
  rcases h with h | h <;> simp [report, h, clearStrobes]

/-- A well-formed SOF updates the frame number whatever the address and the filter setting. -/
theorem sof_ignores_address (cfg : Config) (addr : Nat) (r : Regs) (n : Nat) :
    report cfg addr r (some (.sof n)) = { r with frame := n, newFrame := true, newToken := false } := by
  simp [report, clearStrobes]

/-- A packet that is not an event only clears the strobes. -/
theorem no_event_keeps_registers (cfg : Config) (addr : Nat) (r : Regs) :
    report cfg addr r none = { r with newToken := false, newFrame := false } := rfl

/-- An aborted packet (`rx_active` falls) always returns the tracker — hence by `token_events_exact`
the detector — to the idle line; what was received so far is judged as a packet of its own. -/
theorem aborted_packet_resets (bs : List Nat) (c : RxCycle) (h : c.active = false) :
    trackNext (some bs) c = none ∧ trackDone (some bs) c = some bs := by
  simp [trackNext, trackDone, h]

/-! ## Packet-level form -/

/-- The event a register snapshot announces. -/
def eventOf (r : Regs) : Option TokenEvent :=
  if r.newToken then some (.token r.pid r.address r.endpoint)
  else if r.newFrame then some (.sof r.frame) else none

/-- The events a device with address `addr` must see. -/
def visible (cfg : Config) (addr : Nat) : Option TokenEvent → Option TokenEvent
  | some (.token pid a ep) => if !cfg.filterByAddress || a == addr then some (.token pid a ep) else none
  | e => e

theorem eventOf_report (cfg : Config) (addr : Nat) (r : Regs) (e : Option TokenEvent) :
    eventOf (report cfg addr r e) = visible cfg addr e := by
  match e with
  | none => simp [report, clearStrobes, eventOf, visible]
  | some (.sof n) => simp [report, clearStrobes, eventOf, visible]
  | some (.token pid a ep) =>
    simp only [report, visible]
    split <;> simp [clearStrobes, eventOf]

theorem specRun_events (cfg : Config) (addr : Nat) (cur : Track) (r : Regs) (hist : List In) (x : In)
    (ha : ∀ i ∈ hist, i.address = addr) :
    (specRun cfg cur r (hist ++ [x])).filterMap eventOf
      = (eventOf r).toList ++
        (packetsOf cur (hist.map (·.rx))).filterMap (fun p => visible cfg addr (tokenOf p)) := by
  induction hist generalizing cur r with
  | nil =>
    simp only [List.nil_append, specRun, List.filterMap_cons, List.filterMap_nil, List.map_nil, packetsOf,
      List.append_nil]
    cases eventOf r <;> rfl
  | cons i is ih =>
    have hi : i.address = addr := ha i (by simp)
    simp only [List.cons_append, specRun, List.filterMap_cons, List.map_cons, packetsOf,
      ih _ _ (fun j hj => ha j (by simp [hj]))]
    cases hdn : trackDone cur i.rx with
    | none =>
      have : eventOf (specNextRegs cfg cur r i) = none := by
        simp [specNextRegs, hdn, clearStrobes, eventOf]
      rw [this]
      cases eventOf r <;> simp
    | some p =>
      have : eventOf (specNextRegs cfg cur r i) = visible cfg addr (tokenOf p) := by
        simp [specNextRegs, hdn, eventOf_report, hi]
      rw [this]
      cases eventOf r <;> cases hvis : visible cfg addr (tokenOf p) <;> simp [hvis]

/-- **C01, packet level.**  With a fixed device address, the sequence of events raised during a
history (observed one cycle beyond its end) is exactly the sequence of well-formed, visible tokens
and SOFs among the received packets, in order, each once. -/
theorem token_events_eq_packets (cfg : Config) (addr : Nat) (hist : List In) (x : In)
    (hd : ∀ i ∈ hist ++ [x], i.rx.data < 256) (ha : ∀ i ∈ hist, i.address = addr) :
    (tokRun cfg init (hist ++ [x])).filterMap eventOf
      = (packetsOf none (hist.map (·.rx))).filterMap (fun p => visible cfg addr (tokenOf p)) := by
  rw [token_events_exact cfg _ hd, specRun_events cfg addr none initRegs hist x ha]
  rfl

/-- The same for any list of well-formed rendered packets with arbitrary byte timing. -/
theorem token_events_rendered (cfg : Config) (addr : Nat) (ps : List RxPacket) (hw : ∀ p ∈ ps, p.wf)
    (x : In) (hd : ∀ c ∈ renderAll ps, c.data < 256) (hx : x.rx.data < 256) :
    (tokRun cfg init ((renderAll ps).map (fun c => ⟨c, addr⟩) ++ [x])).filterMap eventOf
      = ps.filterMap (fun p => visible cfg addr (tokenOf p.bytes)) := by
  rw [token_events_eq_packets cfg addr _ x]
  · simp only [List.map_map]
    have : (fun c => (⟨c, addr⟩ : In).rx) = id := rfl
    rw [show ((fun (i : In) => i.rx) ∘ fun c => (⟨c, addr⟩ : In)) = id from rfl, List.map_id,
      (packetsOf_renderAll ps hw).1, List.filterMap_map]
    rfl
  · intro i hi
    simp only [List.mem_append, List.mem_map, List.mem_singleton] at hi
    rcases hi with ⟨c, hc, rfl⟩ | rfl
    · exact hd c hc
    · exact hx
  · intro i hi
    simp only [List.mem_map] at hi
    obtain ⟨c, _, rfl⟩ := hi
    rfl

/-! ## Non-vacuity -/

/-- SETUP to address 0x3A endpoint 2 (bytes 2D 3A 99), received by a device
at that address with a wait cycle in the middle; then an OUT token for address 0 (ignored), a
truncated token, and SOF 0x2AD. -/
example :
    (tokRun ⟨true, ⟨false, false⟩⟩ init
      (([waitC 0, byteC 0x2D, byteC 0x3A, waitC 9, byteC 0x99, idleC 0]
        ++ [waitC 0, byteC 0xE1, byteC 0x00, byteC 0x10, idleC 0]
        ++ [waitC 0, byteC 0x2D, byteC 0x3A, idleC 0]
        ++ [waitC 0, byteC 0xA5, byteC 0xAD, byteC 0xCA, idleC 0, idleC 0]).map (fun c => ⟨c, 0x3A⟩))).filterMap eventOf
    = [.token 13 0x3A 2, .sof 0x2AD] := by decide +kernel

end LunaVerif.TokenDetector
