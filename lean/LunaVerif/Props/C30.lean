import LunaVerif.Model.Crc.Gateware
import LunaVerif.Lemmas.CrcReference
/-!
# C30 — Every CRC implementation equals its standard definition

"For every CRC state and every input, the USB2 token CRC5, USB2 data CRC16, USB3 link-command
CRC5, USB3 header CRC16 and USB3 payload CRC32 (including its 1-, 2- and 3-byte trailing-word
variants) produce exactly the value of the bit-serial CRC defined by the USB specifications
(polynomial, reflection, initial value and output inversion), so a packet is accepted exactly when
its check field is correct."

Structure of the proof (no enumeration of the 2^24 … 2^64 inputs anywhere):

1. `*_table`: the XOR table the translator regenerated from /repo (`Generated.Affine.*`), run on the
   symbolic unit vectors, equals the bit-serial standard CRC run on the same symbolic inputs.
   A finite comparison of coefficient vectors, closed by kernel evaluation.
2. `XorAlg.transfer_*` (proved once in `Core/XorAlg.lean` from `evalHom`): because both sides are
   written without branching on data, the symbolic equality holds under every assignment, i.e.
   for all register states and all data words (`*_generated_eq_serial`).
3. Induction over the byte / word / cycle history lifts the one-step facts to "the CRC the
   gateware holds after any history = the reference CRC (`Core/Crc.lean`) of the bytes accepted
   since the last clear" (`*_history`), and to the acceptance corollaries.
-/
namespace LunaVerif.CrcGw
open LunaVerif.Crc LunaVerif.XorAlg LunaVerif.Generated

/-! ## Polynomials (USB 2.0 §8.3.5, USB 3.2 §7.2) -/
def poly5   : List Bool := lsbBits 0x05 5            -- x^5 + x^2 + 1
def poly16  : List Bool := lsbBits 0x8005 16         -- x^16 + x^15 + x^2 + 1
def poly16h : List Bool := lsbBits 0x100B 16         -- x^16 + x^12 + x^3 + x + 1
def poly32  : List Bool := lsbBits 0x04C11DB7 32

/-! ## 1. The finite tables -/

theorem tables_wellFormed :
    wellFormed 11 Affine.usb2Crc5 ∧ wellFormed 24 Affine.usb2Crc16Step ∧ wellFormed 11 Affine.usb3Crc5 ∧
    wellFormed 48 Affine.usb3Crc16Word ∧ wellFormed 64 Affine.usb3Crc32Word ∧
    wellFormed 56 Affine.usb3Crc32Tail3 ∧ wellFormed 48 Affine.usb3Crc32Tail2 ∧
    wellFormed 40 Affine.usb3Crc32Tail1 := by decide +kernel

theorem usb2_crc5_table : net symOne (symIn 11) Affine.usb2Crc5
    = fieldBits symOne (serial poly5 (List.replicate 5 symOne) (symIn 11)) := by decide +kernel

theorem usb2_crc16_step_table : net symOne (symIn 24) Affine.usb2Crc16Step
    = serial poly16 ((symIn 24).take 16) ((symIn 24).drop 16) := by decide +kernel

theorem usb3_crc5_table : net symOne (symIn 11) Affine.usb3Crc5
    = fieldBits symOne (serial poly5 (List.replicate 5 symOne) (symIn 11)) := by decide +kernel

theorem usb3_crc16_word_table : net symOne (symIn 48) Affine.usb3Crc16Word
    = serial poly16h ((symIn 48).take 16) ((symIn 48).drop 16) := by decide +kernel

theorem usb3_crc32_word_table : net symOne (symIn 64) Affine.usb3Crc32Word
    = serial poly32 ((symIn 64).take 32) ((symIn 64).drop 32) := by decide +kernel

theorem usb3_crc32_3B_table : net symOne (symIn 56) Affine.usb3Crc32Tail3
    = serial poly32 ((symIn 56).take 32) ((symIn 56).drop 32) := by decide +kernel

theorem usb3_crc32_2B_table : net symOne (symIn 48) Affine.usb3Crc32Tail2
    = serial poly32 ((symIn 48).take 32) ((symIn 48).drop 32) := by decide +kernel

theorem usb3_crc32_1B_table : net symOne (symIn 40) Affine.usb3Crc32Tail1
    = serial poly32 ((symIn 40).take 32) ((symIn 40).drop 32) := by decide +kernel

/-! ## 2. All register states, all data words -/

theorem length_lsbBits (v n : Nat) : (lsbBits v n).length = n := by simp [lsbBits]

theorem take_append_len {α} (a b : List α) (k : Nat) (h : a.length = k) : (a ++ b).take k = a := by
  subst h; simp
theorem drop_append_len {α} (a b : List α) (k : Nat) (h : a.length = k) : (a ++ b).drop k = b := by
  subst h; simp

/-- generic shape of a step theorem -/
theorem step_eq (t : List (List Nat × Bool)) (poly : List Bool) (k n : Nat)
    (table : net symOne (symIn n) t = serial poly ((symIn n).take k) ((symIn n).drop k))
    (reg data : List Bool) (hr : reg.length = k) (hd : k + data.length = n) :
    evalNet t (reg ++ data) = Crc.serial poly reg data := by
  have := transfer_step t poly k table (reg ++ data) (by simp [hr, hd])
  rw [take_append_len _ _ _ hr, drop_append_len _ _ _ hr] at this
  exact this

/-- **USB2 data CRC16, one byte**: for every 16-bit register state and every data byte the
gateware's next-state network is eight steps of the serial CRC16, data LSB first. -/
theorem usb2_crc16_step_generated_eq_serial (reg : Reg) (byte : Nat) (hr : reg.length = 16) :
    DataCrc.next reg byte = Crc.serial poly16 reg (lsbBits byte 8) :=
  step_eq _ _ 16 24 usb2_crc16_step_table reg _ hr (by simp [length_lsbBits])

/-- **USB3 header CRC16, one 32-bit word** = 32 serial steps. -/
theorem usb3_crc16_word_generated_eq_serial (reg : Reg) (word : Nat) (hr : reg.length = 16) :
    HeaderCrc.next reg word = Crc.serial poly16h reg (lsbBits word 32) :=
  step_eq _ _ 16 48 usb3_crc16_word_table reg _ hr (by simp [length_lsbBits])

/-- **USB3 payload CRC32, full word** = 32 serial steps. -/
theorem usb3_crc32_word_generated_eq_serial (reg : Reg) (word : Nat) (hr : reg.length = 32) :
    PayloadCrc.nextW reg word = Crc.serial poly32 reg (lsbBits word 32) :=
  step_eq _ _ 32 64 usb3_crc32_word_table reg _ hr (by simp [length_lsbBits])

/-- **3-byte tail** = 24 serial steps over `data_input[0:24]`. -/
theorem usb3_crc32_3B_generated_eq_serial (reg : Reg) (word : Nat) (hr : reg.length = 32) :
    PayloadCrc.next3 reg word = Crc.serial poly32 reg (lsbBits word 24) :=
  step_eq _ _ 32 56 usb3_crc32_3B_table reg _ hr (by simp [length_lsbBits])

/-- **2-byte tail** = 16 serial steps. -/
theorem usb3_crc32_2B_generated_eq_serial (reg : Reg) (word : Nat) (hr : reg.length = 32) :
    PayloadCrc.next2 reg word = Crc.serial poly32 reg (lsbBits word 16) :=
  step_eq _ _ 32 48 usb3_crc32_2B_table reg _ hr (by simp [length_lsbBits])

/-- **1-byte tail** = 8 serial steps. -/
theorem usb3_crc32_1B_generated_eq_serial (reg : Reg) (word : Nat) (hr : reg.length = 32) :
    PayloadCrc.next1 reg word = Crc.serial poly32 reg (lsbBits word 8) :=
  step_eq _ _ 32 40 usb3_crc32_1B_table reg _ hr (by simp [length_lsbBits])

theorem crcOut_eq_field (reg : Reg) : crcOut reg = Crc.field reg := rfl

theorem field_eq (t : List (List Nat × Bool)) (poly : List Bool) (w n : Nat)
    (table : net symOne (symIn n) t = fieldBits symOne (serial poly (List.replicate w symOne) (symIn n)))
    (v : Nat) : ofLsbBits (evalNet t (lsbBits v n)) = Crc.field (Crc.serial poly (ones w) (lsbBits v n)) := by
  have := transfer_field t poly w table (lsbBits v n) (length_lsbBits v n)
  rw [fieldBits_bool] at this
  simp only [evalNet, this, Crc.field, ones]
  rfl

/-- **USB2 token CRC5**: for all 2^11 token values (indeed all naturals; only bits 0…10 are read)
the gateware's network is the USB 2.0 CRC5 check field. -/
theorem usb2_crc5_generated_eq_serial (token11 : Nat) : tokenCrc5 token11 = usb2Crc5 token11 :=
  field_eq _ _ 5 11 usb2_crc5_table token11

/-- **USB3 link-command / link-control-word CRC5**. -/
theorem usb3_crc5_generated_eq_serial (bits11 : Nat) : linkCrc5 bits11 = usb3Crc5 bits11 :=
  field_eq _ _ 5 11 usb3_crc5_table bits11

/-! ## 3. Histories: the running CRC modules hold the reference CRC of what they were fed -/

theorem length_serial_bool (poly reg bits : List Bool) (h : reg.length = poly.length)
    (hp : 0 < poly.length) : (Crc.serial poly reg bits).length = poly.length :=
  length_serial poly reg bits h hp

theorem bytesBits_append (a b : List Nat) : bytesBits (a ++ b) = bytesBits a ++ bytesBits b := by
  simp [bytesBits]

theorem serial_append_bool (poly reg a b : List Bool) :
    Crc.serial poly reg (a ++ b) = Crc.serial poly (Crc.serial poly reg a) b :=
  serial_append poly reg a b

/-- little-endian bytes of a word: the order in which a SuperSpeed word's bytes are transmitted -/
def leBytes (w : Nat) : Nat → List Nat
  | 0 => []
  | k + 1 => w % 256 :: leBytes (w / 256) k

theorem lsbBits_add (v a b : Nat) : lsbBits v (a + b) = lsbBits v a ++ lsbBits (v / 2 ^ a) b := by
  simp only [lsbBits, List.range_add, List.map_append, List.map_map]
  congr 1
  apply List.map_congr_left
  intro i _
  simp [Nat.testBit_div_two_pow, Nat.add_comm]

theorem lsbBits_mod (v k n : Nat) (h : n ≤ k) : lsbBits (v % 2 ^ k) n = lsbBits v n := by
  simp only [lsbBits]
  apply List.map_congr_left
  intro i hi
  have : i < k := by have := List.mem_range.mp hi; omega
  simp [Nat.testBit_mod_two_pow, this]

/-- the bits of `data_input[0:8k]`, LSB first, are the bits of its `k` low bytes in wire order -/
theorem lsbBits_eq_bytesBits (w k : Nat) : lsbBits w (8 * k) = bytesBits (leBytes w k) := by
  induction k generalizing w with
  | zero => rfl
  | succ k ih =>
    have : 8 * (k + 1) = 8 + 8 * k := by omega
    rw [this, lsbBits_add, ih]
    simp only [leBytes, bytesBits, List.flatMap_cons]
    congr 1
    exact (lsbBits_mod w 8 8 (Nat.le_refl _)).symm

/-! ### USBDataPacketCRC -/
namespace DataCrc

/-- the bytes that entered the CRC since the last `start`, for a cycle history (oldest first) -/
def accepted (past : List Nat) (i : In) : List Nat :=
  if i.start then [] else if i.rxValid then past ++ [i.rxData]
  else if i.txValid then past ++ [i.txData] else past

/-- **USB2 data CRC16 over all histories**: whatever the sequence of `start` / `rx_valid` /
`tx_valid` cycles, the `crc` output the module presents (default `initial_value`) is the USB 2.0
CRC16 — polynomial x^16+x^15+x^2+1, LSB first, seed all ones, complemented, MSB first — of
exactly the bytes accepted since the last `start`. -/
theorem usb2_crc16_history (h : List In) :
    let fin := h.foldl (fun (s : Reg × List Nat) i => ((step 0xFFFF s.1 i).1, accepted s.2 i)) (init 0xFFFF, [])
    (step 0xFFFF fin.1 ⟨false, false, 0, false, 0⟩).2 = usb2Crc16 fin.2 := by
  have inv : ∀ (h : List In) (reg : Reg) (past : List Nat), reg = usb2Crc16Reg past →
      let fin := h.foldl (fun (s : Reg × List Nat) i => ((step 0xFFFF s.1 i).1, accepted s.2 i)) (reg, past)
      fin.1 = usb2Crc16Reg fin.2 := by
    intro h
    induction h with
    | nil => intro reg past hr; exact hr
    | cons i is ih =>
      intro reg past hr
      simp only [List.foldl_cons]
      apply ih
      have hl : reg.length = 16 := by
        rw [hr]; exact length_serial_bool _ _ _ (by simp [ones, length_lsbBits]) (by simp [length_lsbBits])
      have nx : ∀ b, next reg b = usb2Crc16Reg (past ++ [b]) := by
        intro b
        rw [usb2_crc16_step_generated_eq_serial reg b hl, hr]
        simp only [usb2Crc16Reg, bytesBits_append, serial_append_bool]
        simp [bytesBits, poly16]
      simp only [step, accepted]
      split
      · rfl
      · split
        · exact nx _
        · split
          · exact nx _
          · exact hr
  exact congrArg Crc.field (inv h (init 0xFFFF) [] rfl)

/-- Feeding a payload byte by byte (receive side) from a cleared register: the `crc` output is the
reference CRC16 of the payload. -/
theorem usb2_crc16_after_payload (payload : List Nat) :
    crcOut (payload.foldl next (init 0xFFFF)) = usb2Crc16 payload := by
  have : ∀ (reg : Reg) (past : List Nat), reg = usb2Crc16Reg past →
      payload.foldl next reg = usb2Crc16Reg (past ++ payload) := by
    induction payload with
    | nil => intro reg past hr; simpa using hr
    | cons b bs ih =>
      intro reg past hr
      have hl : reg.length = 16 := by
        rw [hr]; exact length_serial_bool _ _ _ (by simp [ones, length_lsbBits]) (by simp [length_lsbBits])
      rw [List.foldl_cons, ih (next reg b) (past ++ [b])]
      · simp
      · rw [usb2_crc16_step_generated_eq_serial reg b hl, hr]
        simp only [usb2Crc16Reg, bytesBits_append, serial_append_bool]
        simp [bytesBits, poly16]
  have h := this (init 0xFFFF) [] rfl
  simp only [List.nil_append] at h
  rw [h]; rfl

/-- **A data packet is accepted exactly when its check field is correct**: the receivers compare
the two received CRC bytes (as a 16-bit little-endian integer `field16`) with the module's `crc`
output after the payload. -/
theorem data_accept_iff_check_field_correct (payload : List Nat) (field16 : Nat) :
    (crcOut (payload.foldl next (init 0xFFFF)) == field16) = true ↔ field16 = usb2Crc16 payload := by
  rw [usb2_crc16_after_payload]
  exact beq_iff_eq.trans eq_comm

end DataCrc

/-! ### USB3: HeaderPacketCRC and DataPacketPayloadCRC -/

/-- running register of a reference CRC (seed all ones) after the bytes `past` -/
def refReg (poly : List Bool) (past : List Nat) : Reg :=
  Crc.serial poly (ones poly.length) (bytesBits past)

theorem usb3Crc16_eq (bytes : List Nat) : usb3Crc16 bytes = Crc.field (refReg poly16h bytes) := rfl
theorem usb3Crc32_eq (bytes : List Nat) : usb3Crc32 bytes = Crc.field (refReg poly32 bytes) := rfl

theorem length_refReg (poly : List Bool) (hp : 0 < poly.length) (past : List Nat) :
    (refReg poly past).length = poly.length :=
  length_serial_bool _ _ _ (by simp [ones]) hp

/-- one gateware advance that is `8k` serial steps appends the `k` low bytes of the data word -/
theorem refReg_advance (poly : List Bool) (w : Nat) (hw : poly.length = w) (hp : 0 < w)
    (past : List Nat) (data k : Nat) (nextf : Reg → Reg)
    (hn : ∀ reg : Reg, reg.length = w → nextf reg = Crc.serial poly reg (lsbBits data (8 * k))) :
    nextf (refReg poly past) = refReg poly (past ++ leBytes data k) := by
  rw [hn _ (by rw [length_refReg poly (by omega) past, hw]), lsbBits_eq_bytesBits]
  simp only [refReg, bytesBits_append, serial_append_bool]

namespace HeaderCrc

/-- header bytes (in wire order) that entered the CRC since the last `clear` -/
def accepted (past : List Nat) (i : In) : List Nat :=
  if i.clear then [] else if i.advance then past ++ leBytes i.data 4 else past

/-- **USB3 header CRC16 over all histories**: the `crc` output (default `initial_value`) is the
USB 3.2 §7.2.1.1.2 CRC-16 (polynomial 100Bh, seed FFFFh, LSB first, complemented, bit-reversed) of
the bytes of the words advanced since the last `clear`. -/
theorem usb3_crc16_history (h : List In) :
    let fin := h.foldl (fun (s : Reg × List Nat) i => ((step 0xFFFF s.1 i).1, accepted s.2 i)) (init 0xFFFF, [])
    (step 0xFFFF fin.1 ⟨false, false, 0⟩).2 = usb3Crc16 fin.2 := by
  have inv : ∀ (h : List In) (reg : Reg) (past : List Nat), reg = refReg poly16h past →
      let fin := h.foldl (fun (s : Reg × List Nat) i => ((step 0xFFFF s.1 i).1, accepted s.2 i)) (reg, past)
      fin.1 = refReg poly16h fin.2 := by
    intro h
    induction h with
    | nil => intro reg past hr; exact hr
    | cons i is ih =>
      intro reg past hr
      simp only [List.foldl_cons]
      apply ih
      simp only [step, accepted]
      split
      · rfl
      · split
        · rw [hr]
          exact refReg_advance poly16h 16 (length_lsbBits _ _) (by decide) past i.data 4 (fun r => next r i.data)
            (fun r hl => usb3_crc16_word_generated_eq_serial r i.data hl)
        · exact hr
  exact congrArg Crc.field (inv h (init 0xFFFF) [] rfl)

/-- **A header packet's CRC-16 is accepted exactly when it is correct**: after the three header
words, the comparison `crc16.crc != packet.crc16` of the receivers tests the reference CRC. -/
theorem header_accept_iff_check_field_correct (w0 w1 w2 field16 : Nat) :
    (crcOut (next (next (next (init 0xFFFF) w0) w1) w2) == field16) = true
      ↔ field16 = usb3Crc16 (leBytes w0 4 ++ leBytes w1 4 ++ leBytes w2 4) := by
  have a0 := refReg_advance poly16h 16 (length_lsbBits _ _) (by decide) [] w0 4 (fun r => next r w0)
    (fun r hl => usb3_crc16_word_generated_eq_serial r w0 hl)
  have a1 := refReg_advance poly16h 16 (length_lsbBits _ _) (by decide) ([] ++ leBytes w0 4) w1 4 (fun r => next r w1)
    (fun r hl => usb3_crc16_word_generated_eq_serial r w1 hl)
  have a2 := refReg_advance poly16h 16 (length_lsbBits _ _) (by decide) ([] ++ leBytes w0 4 ++ leBytes w1 4) w2 4 (fun r => next r w2)
    (fun r hl => usb3_crc16_word_generated_eq_serial r w2 hl)
  have e : init 0xFFFF = refReg poly16h [] := rfl
  rw [e, a0, a1, a2, crcOut_eq_field, ← usb3Crc16_eq, List.nil_append]
  exact beq_iff_eq.trans eq_comm

end HeaderCrc

namespace PayloadCrc

/-- payload bytes (in wire order) that entered the CRC since the last `clear`; the priority of
the advance strobes is the gateware's (`word` > `3B` > `2B` > `1B`) -/
def accepted (past : List Nat) (i : In) : List Nat :=
  if i.clear then [] else if i.advW then past ++ leBytes i.data 4
  else if i.adv3 then past ++ leBytes i.data 3
  else if i.adv2 then past ++ leBytes i.data 2
  else if i.adv1 then past ++ leBytes i.data 1 else past

theorem nextW_ref (past : List Nat) (d : Nat) : nextW (refReg poly32 past) d = refReg poly32 (past ++ leBytes d 4) :=
  refReg_advance poly32 32 (length_lsbBits _ _) (by decide) past d 4 (fun r => nextW r d) (fun r hl => usb3_crc32_word_generated_eq_serial r d hl)
theorem next3_ref (past : List Nat) (d : Nat) : next3 (refReg poly32 past) d = refReg poly32 (past ++ leBytes d 3) :=
  refReg_advance poly32 32 (length_lsbBits _ _) (by decide) past d 3 (fun r => next3 r d) (fun r hl => usb3_crc32_3B_generated_eq_serial r d hl)
theorem next2_ref (past : List Nat) (d : Nat) : next2 (refReg poly32 past) d = refReg poly32 (past ++ leBytes d 2) :=
  refReg_advance poly32 32 (length_lsbBits _ _) (by decide) past d 2 (fun r => next2 r d) (fun r hl => usb3_crc32_2B_generated_eq_serial r d hl)
theorem next1_ref (past : List Nat) (d : Nat) : next1 (refReg poly32 past) d = refReg poly32 (past ++ leBytes d 1) :=
  refReg_advance poly32 32 (length_lsbBits _ _) (by decide) past d 1 (fun r => next1 r d) (fun r hl => usb3_crc32_1B_generated_eq_serial r d hl)

/-- **USB3 payload CRC32 over all histories, including the 1-, 2- and 3-byte tails**: in every
cycle, after any sequence of clear / word / tail advances, `crc` is the USB 3.2 CRC-32 (polynomial
04C11DB7h, seed all ones, LSB first, complemented, bit-reversed) of the bytes accepted since the
last clear, and `next_crc_kB` is the CRC-32 of those bytes followed by the `k` low bytes of the
current `data_input`. -/
theorem usb3_crc32_history (h : List In) (cur : In) :
    let fin := h.foldl (fun (s : Reg × List Nat) i => ((step 0xFFFFFFFF s.1 i).1, accepted s.2 i)) (init 0xFFFFFFFF, [])
    let o := (step 0xFFFFFFFF fin.1 cur).2
    o.crc = usb3Crc32 fin.2 ∧ o.next3 = usb3Crc32 (fin.2 ++ leBytes cur.data 3) ∧
    o.next2 = usb3Crc32 (fin.2 ++ leBytes cur.data 2) ∧ o.next1 = usb3Crc32 (fin.2 ++ leBytes cur.data 1) := by
  have inv : ∀ (h : List In) (reg : Reg) (past : List Nat), reg = refReg poly32 past →
      let fin := h.foldl (fun (s : Reg × List Nat) i => ((step 0xFFFFFFFF s.1 i).1, accepted s.2 i)) (reg, past)
      fin.1 = refReg poly32 fin.2 := by
    intro h
    induction h with
    | nil => intro reg past hr; exact hr
    | cons i is ih =>
      intro reg past hr
      simp only [List.foldl_cons]
      apply ih
      simp only [step, accepted]
      subst hr
      split
      · rfl
      · split
        · exact nextW_ref past i.data
        · split
          · exact next3_ref past i.data
          · split
            · exact next2_ref past i.data
            · split
              · exact next1_ref past i.data
              · rfl
  intro fin o
  have hfin : fin.1 = refReg poly32 fin.2 := inv h (init 0xFFFFFFFF) [] rfl
  refine ⟨?_, ?_, ?_, ?_⟩
  · show crcOut fin.1 = _
    rw [hfin]; rfl
  · show crcOut (next3 fin.1 cur.data) = _
    rw [hfin, next3_ref]; rfl
  · show crcOut (next2 fin.1 cur.data) = _
    rw [hfin, next2_ref]; rfl
  · show crcOut (next1 fin.1 cur.data) = _
    rw [hfin, next1_ref]; rfl

/-- The way the link layer uses the module: `payload` is fed four bytes at a time, a final
partial word through the matching tail strobe.  `feed` is that schedule. -/
def feed : Reg → List Nat → Reg
  | reg, b0 :: b1 :: b2 :: b3 :: rest =>
      feed (nextW reg (b0 % 256 + 256 * (b1 % 256) + 65536 * (b2 % 256) + 16777216 * (b3 % 256))) rest
  | reg, [b0, b1, b2] => next3 reg (b0 % 256 + 256 * (b1 % 256) + 65536 * (b2 % 256))
  | reg, [b0, b1] => next2 reg (b0 % 256 + 256 * (b1 % 256))
  | reg, [b0] => next1 reg (b0 % 256)
  | reg, [] => reg

theorem leBytes4 (b0 b1 b2 b3 : Nat) :
    leBytes (b0 % 256 + 256 * (b1 % 256) + 65536 * (b2 % 256) + 16777216 * (b3 % 256)) 4
      = [b0 % 256, b1 % 256, b2 % 256, b3 % 256] := by
  simp only [leBytes, List.cons.injEq, and_true]; omega
theorem leBytes3 (b0 b1 b2 : Nat) :
    leBytes (b0 % 256 + 256 * (b1 % 256) + 65536 * (b2 % 256)) 3 = [b0 % 256, b1 % 256, b2 % 256] := by
  simp only [leBytes, List.cons.injEq, and_true]; omega
theorem leBytes2 (b0 b1 : Nat) : leBytes (b0 % 256 + 256 * (b1 % 256)) 2 = [b0 % 256, b1 % 256] := by
  simp only [leBytes, List.cons.injEq, and_true]; omega
theorem leBytes1 (b0 : Nat) : leBytes (b0 % 256) 1 = [b0 % 256] := by
  simp only [leBytes, List.cons.injEq, and_true]; omega

theorem bytesBits_mod (bs : List Nat) : bytesBits (bs.map (· % 256)) = bytesBits bs := by
  simp only [bytesBits, List.flatMap_map]
  congr 1; funext b
  exact lsbBits_mod b 8 8 (Nat.le_refl _)

theorem refReg_mod (poly : List Bool) (past bs : List Nat) :
    refReg poly (past ++ bs.map (· % 256)) = refReg poly (past ++ bs) := by
  simp only [refReg, bytesBits_append, bytesBits_mod]

/-- **Payload CRC32 for every payload length** (any number of full words and any tail):
the CRC the gateware holds after a payload equals the reference CRC-32 of the payload bytes. -/
theorem usb3_crc32_after_payload (payload : List Nat) :
    crcOut (feed (init 0xFFFFFFFF) payload) = usb3Crc32 payload := by
  have key : ∀ (reg : Reg) (payload past : List Nat), reg = refReg poly32 past →
      feed reg payload = refReg poly32 (past ++ payload) := by
    intro reg payload
    fun_induction feed reg payload with
    | case1 reg b0 b1 b2 b3 rest ih =>
      intro past hr
      rw [ih (past ++ [b0, b1, b2, b3])]
      · simp
      · rw [hr, nextW_ref, leBytes4]
        exact refReg_mod poly32 past [b0, b1, b2, b3]
    | case2 reg b0 b1 b2 =>
      intro past hr
      rw [hr, next3_ref, leBytes3]
      exact refReg_mod poly32 past [b0, b1, b2]
    | case3 reg b0 b1 =>
      intro past hr
      rw [hr, next2_ref, leBytes2]
      exact refReg_mod poly32 past [b0, b1]
    | case4 reg b0 =>
      intro past hr
      rw [hr, next1_ref, leBytes1]
      exact refReg_mod poly32 past [b0]
    | case5 reg => intro past hr; simpa using hr
  have h := key (init 0xFFFFFFFF) payload [] rfl
  rw [h, crcOut_eq_field, List.nil_append]; rfl

end PayloadCrc

/-- **A token is accepted exactly when its CRC5 field is correct.** -/
theorem token_accept_iff_check_field_correct (word16 : Nat) :
    tokenAccept word16 = true ↔ (word16 / 2 ^ 11) % 2 ^ 5 = usb2Crc5 (word16 % 2 ^ 11) := by
  unfold tokenAccept
  rw [usb2_crc5_generated_eq_serial]
  exact beq_iff_eq

/-! ## Non-vacuity: concrete instances through the gateware model

(The reference definitions themselves are checked against externally known values in
`Lemmas/CrcReference.lean`.) -/
/-- the 18-byte flash-drive payload of the repository's test through the gateware model: four
words and a 2-byte tail -/
example : crcOut (PayloadCrc.feed (PayloadCrc.init 0xFFFFFFFF)
    [18, 1, 0, 3, 0, 0, 0, 9, 254, 19, 0, 82, 0, 1, 1, 2, 3, 1]) = 0x540AA487 := by decide +kernel
example : tokenAccept 0x3D3A = true ∧ tokenAccept 0x353A = false := by decide +kernel
example : crcOut (HeaderCrc.next (HeaderCrc.next (HeaderCrc.next (HeaderCrc.init 0xFFFF) 0x00000280) 0x00010004) 0)
    = 0x1845 := by decide +kernel

end LunaVerif.CrcGw
