/-
C25 — the whole `GatewarePHY` transmit side with the operating mode changing at ANY `usb_io` cycle, in particular
while a transmission is in flight (`Model/Phy/FsPhy.lean` = `FsTx.step` inside the op-mode switch `FsCodec.glue`,
co-simulated against the real `GatewarePHY` cycle by cycle by the harness cases of kind "phy").

Property clause: *the PHY never drives D+/D- in the UTMI non-driving operating mode* — here over every history:
whatever state the transmit pipeline is in (any `FsTx.St`, reachable or not: mid-SYNC, mid-byte, in a stuffed bit,
draining its last byte, in the EOP), in every `usb_io` cycle whose `op_mode` is non-driving (or the reserved value 3)
both output enables are low IN THAT SAME CYCLE (latency 0: the switch is combinational), and `tx_ready` is low.
-/
import LunaVerif.Model.Phy.FsPhy

namespace LunaVerif.FsPhy
open LunaVerif.FsCodec

/-- one cycle: non-driving (or reserved) mode ⇒ not driven, nothing accepted, the transmitter sees `i_oe = 0` -/
theorem step_nondriving (phase : Nat) (s : FsTx.St) (i : In) (h : i.opMode = OP_NONDRIVING ∨ i.opMode = 3) :
    (step phase s i).2.oe = false ∧ (step phase s i).2.ready = false ∧ (txIn i).valid = false := by
  rcases h with h | h <;> simp [step, out, glue, glueIn, txIn, h, OP_NONDRIVING, OP_NORMAL, OP_NO_ENCODING]

/-- **never drives in non-driving mode**, over every history of inputs (the mode may change in any cycle) from
every state of the transmit chain: each cycle with `op_mode` ∈ {non-driving, reserved} has `oe = 0` in that cycle. -/
theorem phy_never_drives_in_nondriving (phase : Nat) (s : FsTx.St) (is : List In) :
    ∀ p ∈ is.zip (run phase s is), (p.1.opMode = OP_NONDRIVING ∨ p.1.opMode = 3) → p.2.oe = false ∧ p.2.ready = false := by
  induction is generalizing s with
  | nil => simp [run]
  | cons i is ih =>
    intro p hp hm
    simp only [run, List.zip_cons_cons, List.mem_cons] at hp
    rcases hp with rfl | hp
    · exact ⟨(step_nondriving phase s i hm).1, (step_nondriving phase s i hm).2.1⟩
    · exact ih _ p hp hm

/-- **pull-up / pull-down follow the requests** in every cycle of every history, whatever is being transmitted. -/
theorem phy_pulls_follow_requests (phase : Nat) (s : FsTx.St) (is : List In) :
    ∀ p ∈ is.zip (run phase s is), p.2.pullup = p.1.termSelect ∧ p.2.pulldown = (p.1.dmPulldown || p.1.dpPulldown) := by
  induction is generalizing s with
  | nil => simp [run]
  | cons i is ih =>
    intro p hp
    simp only [run, List.zip_cons_cons, List.mem_cons] at hp
    rcases hp with rfl | hp
    · exact pulls_follow_requests_glue s i
    · exact ih _ p hp
where
  pulls_follow_requests_glue (s : FsTx.St) (i : In) :
      (step phase s i).2.pullup = i.termSelect ∧ (step phase s i).2.pulldown = (i.dmPulldown || i.dpPulldown) := by
    exact glue_pulls (glueIn s i)
  glue_pulls (g : GlueIn) :
      (glue g).pullup = g.termSelect ∧ (glue g).pulldown = (g.dmPulldown || g.dpPulldown) := by
    unfold glue; split <;> (try split) <;> simp

/-- in normal mode the PHY *is* the transmit chain the `C25Tx` theorems are about (same next state, same pins) -/
theorem phy_normal_is_tx (phase : Nat) (s : FsTx.St) (i : In) (h : i.opMode = OP_NORMAL) :
    (step phase s i).1 = (FsTx.step phase s ⟨i.txValid, i.txData⟩).1 ∧
    (step phase s i).2 = (let o := (FsTx.step phase s ⟨i.txValid, i.txData⟩).2
                          ⟨o.ready, o.dP, o.dN, o.oe, i.termSelect, i.dmPulldown || i.dpPulldown⟩) := by
  simp [step, out, glue, glueIn, txIn, h, FsTx.step, FsTx.St.out, OP_NORMAL]

/-- outside normal mode the transmit chain runs on with `tx_valid` = 0 and `tx_data` = 0 at its inputs -/
theorem phy_other_modes_idle_tx (phase : Nat) (s : FsTx.St) (i : In) (h : i.opMode ≠ OP_NORMAL) :
    (step phase s i).1 = (FsTx.step phase s ⟨false, 0⟩).1 ∧ (step phase s i).2.ready = false := by
  simp [step, out, txIn, h, FsTx.step]

/-- op_mode = 2 (no bit-stuffing / NRZI): `tx_data[0]` raw on D+, its complement on D-, driven while `tx_valid` -/
theorem phy_raw_drive (phase : Nat) (s : FsTx.St) (i : In) (h : i.opMode = OP_NO_ENCODING) :
    (step phase s i).2.oe = i.txValid ∧ (step phase s i).2.dP = i.txData.testBit 0 ∧
    (step phase s i).2.dN = !i.txData.testBit 0 := by
  simp [step, out, glue, glueIn, h, OP_NORMAL, OP_NO_ENCODING]

/-! Non-vacuity: a packet [0xA5] is started in normal mode (φ = 0); from cycle 40 (SYNC on the wire) the mode is
non-driving for 8 cycles with tx_valid held, then normal again.  The pins are driven before and after, and not
during — while the pipeline's own `o_oe` (the state's `io.oOe`) stays high underneath. -/
private def demoIn (k : Nat) : In :=
  ⟨if 40 ≤ k ∧ k < 48 then 1 else 0, true, 0xA5, true, false, false⟩

private def demoRun : Nat → Nat → FsTx.St → List (Bool × Bool)
  | 0, _, _ => []
  | n + 1, k, s => ((step 0 s (demoIn k)).2.oe, s.io.oOe) :: demoRun n (k + 1) (step 0 s (demoIn k)).1

example : ((demoRun 52 0 {}).drop 36).take 16 =
    [(true, true), (true, true), (true, true), (true, true),
     (false, true), (false, true), (false, true), (false, true), (false, true), (false, true), (false, true), (false, true),
     (true, true), (true, true), (true, true), (true, true)] := by decide +kernel

end LunaVerif.FsPhy
