import LunaVerif.Model.Usb3.IdleHandshake
import LunaVerif.Model.Usb3.LinkTimers
/-!
# C44 — Idle handshake and U0 link timers meet their timing rules

"The idle handshake completes only after at least eight consecutive valid logical-idle symbols were
received while at least sixteen symbols have been sent since it started. In U0 a keepalive is
scheduled whenever no link command has been sent for the keepalive interval (never later than
10 ms), and recovery is requested within one cycle of 1 ms without any received link command or
header packet, and never earlier."

Histories are presented most-recent-first (`past[0]` = previous cycle), as in C55; the `…_exact`
theorems tie the cycle model run from reset over an arbitrary input history to closed-form
specifications of that history, and the named property theorems are statements about those
specifications for an arbitrary history.

`IdleHandshakeHandler` is modelled as repaired for defect F19 (see the model file).
-/

namespace LunaVerif.IdleHandshake

/-! ## Idle handshake -/

/-- the current word is a received (valid) logical-idle word: four idle symbols -/
def isIdle (i : In) : Bool := i.valid && wordIdle i.data i.ctrl

/-- the most recent valid word of a history -/
def lastValid : List In → Option In
  | [] => none
  | x :: past => if x.valid then some x else lastValid past

/-- the most recently received word exists and was logical idle -/
def prevIdle (past : List In) : Bool :=
  match lastValid past with
  | some y => wordIdle y.data y.ctrl
  | none => false

/-- Eight consecutive valid logical-idle symbols end with the word of the current cycle: the
current word is valid idle and the previous *valid* word (invalid cycles carry no symbols) was idle. -/
def det (past : List In) (x : In) : Bool := prevIdle past && isIdle x

/-- number of most recent consecutive enabled cycles (4 symbols are sent in each) -/
def runLen : List In → Nat
  | [] => 0
  | x :: past => if x.enable then runLen past + 1 else 0

/-- in some cycle of the current (uninterrupted) enable run an 8-symbol idle sequence ended -/
def seenSpec : List In → Bool
  | [] => false
  | x :: past => x.enable && (seenSpec past || det past x)

/-- specification of the outputs of the cycle with input `x` after the history `past` -/
def outSpec (past : List In) (x : In) : Out :=
  ⟨det past x, x.enable && (seenSpec past && decide (cyclesRequired ≤ runLen past))⟩

def specRun : List In → List In → List Out
  | _, [] => []
  | past, x :: xs => outSpec past x :: specRun (x :: past) xs

/-- register state after a history -/
def stateAfter (past : List In) : State :=
  match lastValid past with
  | some y => ⟨y.data, y.ctrl, seenSpec past, min cyclesRequired (runLen past)⟩
  | none => ⟨0, 15, seenSpec past, min cyclesRequired (runLen past)⟩

theorem stateAfter_nil : stateAfter [] = init := rfl

theorem lastIdle_stateAfter (past : List In) :
    wordIdle (stateAfter past).lastWord (stateAfter past).lastCtrl = prevIdle past := by
  unfold stateAfter prevIdle
  cases lastValid past <;> simp [wordIdle]

theorem cnt_next (r : Nat) : (if min 4 r < 4 then min 4 r + 1 else min 4 r) = min 4 (r + 1) := by
  split <;> omega

theorem cnt_full (r : Nat) : (min 4 r == 4) = decide (4 ≤ r) := by
  by_cases h : 4 ≤ r <;> simp [h] <;> omega

theorem step_state (past : List In) (x : In) :
    (step (stateAfter past) x).1 = stateAfter (x :: past) := by
  have hl := lastIdle_stateAfter past
  unfold step
  simp only [hl]
  unfold stateAfter at *
  cases hv : x.valid <;> cases he : x.enable <;> cases hlv : lastValid past <;>
    simp [lastValid, hv, he, hlv, seenSpec, runLen, det, isIdle, cyclesRequired] <;>
    exact cnt_next _

theorem step_out (past : List In) (x : In) :
    (step (stateAfter past) x).2 = outSpec past x := by
  have hl := lastIdle_stateAfter past
  unfold step
  simp only [hl]
  unfold stateAfter outSpec det isIdle
  cases hlv : lastValid past <;> simp [cyclesRequired, cnt_full] <;> rfl

theorem run_eq_spec_from (past hist : List In) :
    run (stateAfter past) hist = specRun past hist := by
  induction hist generalizing past with
  | nil => rfl
  | cons x xs ih => simp only [run, specRun, step_out, step_state, ih]

/-- The model run from reset over ANY input history produces exactly the specified outputs:
`idle_detected` = "the last two valid words are logical idle, the second being the current one";
`idle_handshake_complete` = enabled now ∧ an 8-idle-symbol sequence ended in an earlier cycle of
this enable run ∧ at least 4 full cycles (16 symbols) of this run have passed. -/
theorem handshake_exact (hist : List In) : run init hist = specRun [] hist := by
  rw [← stateAfter_nil]; exact run_eq_spec_from [] hist

/-- `seenSpec` in closed form: some cycle `k` steps back, inside the current enable run, ended an
8-idle-symbol sequence. -/
theorem seenSpec_iff (past : List In) :
    seenSpec past = true ↔
      ∃ k y, k < runLen past ∧ past[k]? = some y ∧ det (past.drop (k + 1)) y = true := by
  induction past with
  | nil => simp [seenSpec, runLen]
  | cons x past ih =>
    cases he : x.enable
    · simp [seenSpec, runLen, he]
    · simp only [seenSpec, runLen, he, Bool.true_and, if_true, Bool.or_eq_true, ih]
      constructor
      · rintro (⟨k, y, hk, hy, hd⟩ | hd)
        · exact ⟨k + 1, y, by omega, by simpa using hy, by simpa using hd⟩
        · exact ⟨0, x, by omega, by simp, by simpa using hd⟩
      · rintro ⟨k, y, hk, hy, hd⟩
        cases k with
        | zero =>
          right
          simp at hy
          subst hy
          simpa using hd
        | succ k => exact Or.inl ⟨k, y, by omega, by simpa using hy, by simpa using hd⟩

/-- an enable run of length `n` means the `n` most recent cycles were all enabled -/
theorem runLen_enabled (past : List In) (k : Nat) (hk : k < runLen past) :
    ∃ y, past[k]? = some y ∧ y.enable = true := by
  induction past generalizing k with
  | nil => simp [runLen] at hk
  | cons x past ih =>
    cases he : x.enable
    · simp [runLen, he] at hk
    · cases k with
      | zero => exact ⟨x, by simp, he⟩
      | succ k =>
        simp only [runLen, he, if_true] at hk
        obtain ⟨y, hy, hye⟩ := ih k (by omega)
        exact ⟨y, by simpa using hy, hye⟩

/-- **C44 (idle handshake).**  For every input history: if `idle_handshake_complete` is asserted in
the cycle with input `x` after the history `past`, then
* the handler is enabled now and was enabled in (at least) the 4 preceding cycles — 16 symbols
  have been sent since the handshake started — and
* in some earlier cycle `k+1` cycles ago, inside this handshake (this uninterrupted enable run),
  the received word was a VALID logical-idle word and the valid word received before it was
  logical idle too: eight consecutive valid logical-idle symbols (see `det_iff_eight_idle_symbols`). -/
theorem handshake_needs_8_idle_and_16_sent (past : List In) (x : In)
    (h : (outSpec past x).complete = true) :
    x.enable = true ∧ 4 ≤ runLen past ∧
    (∀ j, j < 4 → ∃ y, past[j]? = some y ∧ y.enable = true) ∧
    ∃ k y, k < runLen past ∧ past[k]? = some y ∧ y.enable = true ∧ y.valid = true ∧
      det (past.drop (k + 1)) y = true := by
  simp only [outSpec, Bool.and_eq_true, cyclesRequired] at h
  obtain ⟨he, hs, hr⟩ := h
  have hr := of_decide_eq_true hr
  refine ⟨he, hr, fun j hj => runLen_enabled past j (by omega), ?_⟩
  obtain ⟨k, y, hk, hy, hd⟩ := (seenSpec_iff past).1 hs
  obtain ⟨y', hy', hye⟩ := runLen_enabled past k hk
  have : y' = y := by simpa [hy] using hy'.symm
  subst this
  refine ⟨k, y', hk, hy, hye, ?_, hd⟩
  simp only [det, isIdle, Bool.and_eq_true] at hd
  exact hd.2.1

/-- … and conversely the handshake does complete as soon as both conditions hold. -/
theorem handshake_completes (past : List In) (x : In) (he : x.enable = true)
    (hr : 4 ≤ runLen past)
    (hs : ∃ k y, k < runLen past ∧ past[k]? = some y ∧ det (past.drop (k + 1)) y = true) :
    (outSpec past x).complete = true := by
  simp only [outSpec, Bool.and_eq_true, cyclesRequired]
  exact ⟨he, (seenSpec_iff past).2 hs, decide_eq_true hr⟩

/-! ### `det` at symbol level -/

/-- the four symbols of a word, first received (least significant byte) first: (value, is-K) -/
def symbols (i : In) : List (Nat × Bool) :=
  [(i.data % 256, i.ctrl % 2 == 1), (i.data / 256 % 256, i.ctrl / 2 % 2 == 1),
   (i.data / 65536 % 256, i.ctrl / 4 % 2 == 1), (i.data / 16777216 % 256, i.ctrl / 8 % 2 == 1)]

/-- the received symbol stream, most recent symbol first (invalid cycles carry no symbols) -/
def rxSymbols : List In → List (Nat × Bool)
  | [] => []
  | x :: past => if x.valid then (symbols x).reverse ++ rxSymbols past else rxSymbols past

def idleSym : Nat × Bool := (0, false)

theorem wordIdle_iff_symbols (i : In) (hd : i.data < 2 ^ 32) (hc : i.ctrl < 16) :
    wordIdle i.data i.ctrl = true ↔ symbols i = List.replicate 4 idleSym := by
  simp only [wordIdle, symbols, idleSym, List.replicate, Bool.and_eq_true, beq_iff_eq,
    List.cons.injEq, Prod.mk.injEq, and_true, beq_eq_false_iff_ne, ne_eq]
  constructor
  · rintro ⟨h1, h2⟩; omega
  · intro h; omega

theorem rxSymbols_take4 (past : List In) :
    (rxSymbols past).take 4 =
      match lastValid past with
      | some y => (symbols y).reverse
      | none => [] := by
  induction past with
  | nil => rfl
  | cons x past ih =>
    cases hv : x.valid
    · simpa [rxSymbols, lastValid, hv] using ih
    · simp [rxSymbols, lastValid, hv, symbols]

/-- `det` holds exactly when the current word is valid and the eight most recently received
symbols (those of the current word included) exist and are all logical idle (D0.0, not K). -/
theorem det_iff_eight_idle_symbols (past : List In) (x : In)
    (hx : x.data < 2 ^ 32 ∧ x.ctrl < 16)
    (hp : ∀ y ∈ past, y.data < 2 ^ 32 ∧ y.ctrl < 16) :
    det past x = true ↔
      x.valid = true ∧ (rxSymbols (x :: past)).take 8 = List.replicate 8 idleSym := by
  cases hv : x.valid
  · simp [det, isIdle, hv]
  · have h8 : (rxSymbols (x :: past)).take 8 = (symbols x).reverse ++ (rxSymbols past).take 4 := by
      simp [rxSymbols, hv, symbols]
    rw [h8, rxSymbols_take4]
    have hxi := wordIdle_iff_symbols x hx.1 hx.2
    simp only [det, isIdle, prevIdle, hv, Bool.true_and, Bool.and_eq_true, true_and]
    cases hlv : lastValid past with
    | none =>
      simp only [Bool.false_eq_true, false_and, false_iff]
      intro h
      have := congrArg List.length h
      simp [symbols] at this
    | some y =>
      have hy : y ∈ past := by
        clear h8 hxi
        induction past with
        | nil => simp [lastValid] at hlv
        | cons z past ih =>
          by_cases hz : z.valid = true
          · simp [lastValid, hz] at hlv; subst hlv; simp
          · simp only [lastValid, hz] at hlv
            exact List.mem_cons_of_mem _ (ih (fun w hw => hp w (List.mem_cons_of_mem _ hw)) hlv)
      have hyi := wordIdle_iff_symbols y (hp y hy).1 (hp y hy).2
      simp only [hyi, hxi]
      constructor
      · rintro ⟨h1, h2⟩; rw [h1, h2]; rfl
      · intro h
        have hl : (symbols x).reverse.length = 4 := by simp [symbols]
        have := List.append_inj (s₁ := (symbols x).reverse) (s₂ := List.replicate 4 idleSym)
          (t₂ := List.replicate 4 idleSym) (by simpa [List.replicate] using h) (by simp [symbols])
        obtain ⟨ha, hb⟩ := this
        have hrev : ∀ l : List (Nat × Bool), l.reverse = List.replicate 4 idleSym →
            l = List.replicate 4 idleSym := by
          intro l hl
          have := congrArg List.reverse hl
          simpa using this
        exact ⟨hrev _ hb, hrev _ ha⟩

/-- Non-vacuity: two valid idle words during a handshake complete it in the fifth enabled cycle;
an invalid all-zero word between non-idle words does not (the F19 scenario). -/
example : run init [⟨true, true, 0, 0⟩, ⟨true, true, 0, 0⟩, ⟨true, true, 5, 0⟩, ⟨true, false, 0, 0⟩,
                    ⟨true, true, 7, 0⟩, ⟨true, true, 7, 0⟩]
    = [⟨false, false⟩, ⟨true, false⟩, ⟨false, false⟩, ⟨false, false⟩, ⟨false, true⟩, ⟨false, true⟩] := by
  decide
example : (run init (List.replicate 8 ⟨true, false, 0, 0⟩)).all (fun o => !o.complete && !o.idleDetected) := by
  decide

end LunaVerif.IdleHandshake

namespace LunaVerif.LinkTimers

/-! ## U0 link-maintenance timers -/

/-- clearing strobe of the keepalive timer / of the recovery timer -/
def txClr (i : In) : Bool := i.lcTx
def rxClr (i : In) : Bool := i.lcRx || i.pktRx

/-- Number of most recent consecutive cycles in which the link was enabled (U0) and the clearing
strobe was absent: with `quiet … past = q`, the current cycle is the `(q+1)`-th cycle since the
last strobe (or since U0 was entered / reset). -/
def quiet (clr : In → Bool) : List In → Nat
  | [] => 0
  | x :: past => if clr x || !x.enable then 0 else quiet clr past + 1

/-- strobe of a timer with threshold `n` cycles when the silence so far is `q` cycles -/
def fireSpec (n q : Nat) : Bool := q % 2 ^ rangeWidth n + 1 == n

def outSpec (c : Config) (past : List In) : Out :=
  ⟨fireSpec c.keepalive (quiet txClr past), fireSpec c.recovery (quiet rxClr past)⟩

def specRun (c : Config) : List In → List In → List Out
  | _, [] => []
  | past, x :: xs => outSpec c past :: specRun c (x :: past) xs

def stateAfter (c : Config) (past : List In) : State :=
  ⟨quiet txClr past % 2 ^ rangeWidth c.keepalive, quiet rxClr past % 2 ^ rangeWidth c.recovery⟩

theorem timerNext_quiet (n : Nat) (clr : In → Bool) (past : List In) (x : In) :
    timerNext n (quiet clr past % 2 ^ rangeWidth n) (clr x) x.enable
      = quiet clr (x :: past) % 2 ^ rangeWidth n := by
  unfold timerNext
  cases hc : clr x <;> cases he : x.enable <;> simp [quiet, hc, he, Nat.mod_add_mod]

theorem step_state (c : Config) (past : List In) (x : In) :
    (step c (stateAfter c past) x).1 = stateAfter c (x :: past) := by
  simp only [step, stateAfter]
  have h1 := timerNext_quiet c.keepalive txClr past x
  have h2 := timerNext_quiet c.recovery rxClr past x
  simp only [txClr, rxClr] at h1 h2
  simp only [h1, h2]

theorem step_out (c : Config) (past : List In) (x : In) :
    (step c (stateAfter c past) x).2 = outSpec c past := rfl

theorem run_eq_spec_from (c : Config) (past hist : List In) :
    run c (stateAfter c past) hist = specRun c past hist := by
  induction hist generalizing past with
  | nil => rfl
  | cons x xs ih => simp only [run, specRun, step_out, step_state, ih]

/-- For every pair of cycle counts and every input history, the strobes of the model run from reset
are `silence mod 2^w + 1 = count`, `silence` being the number of cycles since the last clearing
strobe (or since the link was (re-)enabled). -/
theorem timers_exact (c : Config) (hist : List In) : run c init hist = specRun c [] hist := by
  have : stateAfter c [] = init := by simp [stateAfter, quiet, init]
  rw [← this]; exact run_eq_spec_from c [] hist

/-- the timer register can hold `n - 1` -/
theorem lt_two_pow_rangeWidth (n : Nat) (hn : 1 ≤ n) : n - 1 < 2 ^ rangeWidth n := by
  unfold rangeWidth
  split
  · have : n = 1 := by omega
    subst this; simp
  · exact Nat.lt_log2_self

/-- … and wraps before twice the count -/
theorem two_pow_rangeWidth_lt (n : Nat) (hn : 1 ≤ n) : 2 ^ rangeWidth n < 2 * n := by
  unfold rangeWidth
  split
  · have : n = 1 := by omega
    subst this; simp
  · have := Nat.log2_self_le (n := n - 1) (by omega)
    rw [Nat.pow_succ]; omega

theorem quiet_drop (clr : In → Bool) (past : List In) (j : Nat) (hj : j ≤ quiet clr past) :
    quiet clr (past.drop j) = quiet clr past - j := by
  induction past generalizing j with
  | nil => simp [quiet] at *
  | cons x past ih =>
    cases j with
    | zero => simp
    | succ j =>
      by_cases h : (clr x || !x.enable) = true
      · simp [quiet, h] at hj
      · simp only [quiet, h] at hj ⊢
        simp only [Bool.false_eq_true, if_false] at hj ⊢
        rw [List.drop_succ_cons, ih j (by omega)]; omega

/-- every one of the `q` most recent cycles was enabled and free of the clearing strobe -/
theorem quiet_silent (clr : In → Bool) (past : List In) (k : Nat) (hk : k < quiet clr past) :
    ∃ y, past[k]? = some y ∧ clr y = false ∧ y.enable = true := by
  induction past generalizing k with
  | nil => simp [quiet] at hk
  | cons x past ih =>
    by_cases h : (clr x || !x.enable) = true
    · simp [quiet, h] at hk
    · simp only [quiet, h, Bool.false_eq_true, if_false] at hk
      cases k with
      | zero =>
        refine ⟨x, by simp, ?_⟩
        cases hc : clr x <;> cases he : x.enable <;> simp_all
      | succ k =>
        obtain ⟨y, hy, hy2⟩ := ih k (by omega)
        exact ⟨y, by simpa using hy, hy2⟩

/-- **C44 (recovery).**  For every recovery cycle count `R ≥ 1` and every history:
* *never earlier*: `transition_to_recovery` in the current cycle implies that the `R - 1` preceding
  cycles were all in U0 without a received link command or packet, i.e. the current cycle is at
  least the `R`-th since the last one;
* *exactly at the time-out*: when the current cycle is the `R`-th, the strobe is asserted.
With `R = ⌊1 ms · f⌋` (`floor_within_one_cycle`) that is within one cycle of 1 ms. -/
theorem recovery_exactly_at_timeout (c : Config) (hR : 1 ≤ c.recovery) (past : List In) :
    ((outSpec c past).transitionToRecovery = true →
        c.recovery ≤ quiet rxClr past + 1 ∧
        ∀ k, k + 1 < c.recovery → ∃ y, past[k]? = some y ∧ rxClr y = false ∧ y.enable = true) ∧
    (quiet rxClr past + 1 = c.recovery → (outSpec c past).transitionToRecovery = true) := by
  have hw := lt_two_pow_rangeWidth c.recovery hR
  simp only [outSpec, fireSpec, beq_iff_eq]
  refine ⟨fun h => ?_, fun h => ?_⟩
  · have hle := Nat.mod_le (quiet rxClr past) (2 ^ rangeWidth c.recovery)
    exact ⟨by omega, fun k hk => quiet_silent rxClr past k (by omega)⟩
  · rw [Nat.mod_eq_of_lt (by omega)]; exact h

/-- The strobe repeats only after a full wrap of the timer register: between two strobes in one
silence there are `2^w` cycles (the comment in the source calls this roll-over harmless). -/
theorem fire_period (n q : Nat) (h : fireSpec n q = true) : fireSpec n (q + 2 ^ rangeWidth n) = true := by
  simpa [fireSpec] using h

/-- **C44 (keepalive).**  For every keepalive cycle count `K ≥ 1` and every history:
* when the current cycle is the `K`-th since the last transmitted link command (in U0),
  `schedule_keepalive` is asserted;
* whenever no link command has been sent for at least that long, `schedule_keepalive` was asserted in
  the current cycle or one of the `2^w - 1 < 2K - 1` cycles before it (`j` cycles ago), so while the link
  stays silent a keepalive is scheduled at least every `2K` cycles = 20 µs ≤ 10 ms. -/
theorem keepalive_within_interval (c : Config) (hK : 1 ≤ c.keepalive) (past : List In) :
    (quiet txClr past + 1 = c.keepalive → (outSpec c past).scheduleKeepalive = true) ∧
    (c.keepalive ≤ quiet txClr past + 1 →
      ∃ j, j < 2 ^ rangeWidth c.keepalive ∧ j + 1 < 2 * c.keepalive ∧ j ≤ quiet txClr past ∧
        (outSpec c (past.drop j)).scheduleKeepalive = true) := by
  have hw := lt_two_pow_rangeWidth c.keepalive hK
  have hw2 := two_pow_rangeWidth_lt c.keepalive hK
  simp only [outSpec, fireSpec, beq_iff_eq]
  refine ⟨fun h => ?_, fun h => ?_⟩
  · rw [Nat.mod_eq_of_lt (by omega)]; exact h
  · generalize hM : 2 ^ rangeWidth c.keepalive = M at *
    generalize hq : quiet txClr past = q at *
    have hMpos : 0 < M := by omega
    let d := q - (c.keepalive - 1)
    have hjlt : d % M < M := Nat.mod_lt _ hMpos
    have hjle : d % M ≤ d := Nat.mod_le _ _
    refine ⟨d % M, hjlt, by omega, by omega, ?_⟩
    rw [quiet_drop txClr past (d % M) (by omega), hq]
    have hdm := Nat.div_add_mod d M
    have : q - d % M = (c.keepalive - 1) + M * (d / M) := by omega
    rw [this, Nat.add_mul_mod_self_left, Nat.mod_eq_of_lt (by omega)]; omega

/-- keepalives are never scheduled early either: a strobe implies `K - 1` silent cycles before it -/
theorem keepalive_not_early (c : Config) (past : List In)
    (h : (outSpec c past).scheduleKeepalive = true) : c.keepalive ≤ quiet txClr past + 1 := by
  simp only [outSpec, fireSpec, beq_iff_eq] at h
  have hle := Nat.mod_le (quiet txClr past) (2 ^ rangeWidth c.keepalive)
  omega

/-- The cycle counts are floors (`int(t·f)` for `t·f ≥ 0`; the harness checks that the float product
the class computes equals the exact floor for every frequency it uses): with `f` in Hz,
`R = ⌊f / 1000⌋` cycles last at most 1 ms and `R + 1` cycles last longer; `K = ⌊f / 100000⌋` cycles last
at most 10 µs. -/
theorem floor_within_one_cycle (f d : Nat) (hd : 0 < d) :
    (f / d) * d ≤ f ∧ f < (f / d + 1) * d := by
  constructor
  · exact Nat.div_mul_le_self f d
  · have := Nat.div_add_mod f d
    have := Nat.mod_lt f hd
    rw [Nat.add_mul, Nat.mul_comm]; omega

/-- the values at the real 125 MHz `ss` clock: 1250 and 125000 cycles, registers of 11 and 17 bits -/
example : (125000000 / 100000, 125000000 / 1000) = (1250, 125000) := by decide
example : (rangeWidth 1250, rangeWidth 125000) = (11, 17) := by decide +kernel

/-- Non-vacuity: K = 3, R = 6; silence from reset, a received packet in cycle 4, a transmission in
cycle 2. -/
example : run ⟨3, 6⟩ init
    [⟨true, false, false, false⟩, ⟨true, false, false, false⟩, ⟨true, false, false, true⟩,
     ⟨true, false, false, false⟩, ⟨true, false, true, false⟩, ⟨true, false, false, false⟩,
     ⟨true, false, false, false⟩, ⟨true, false, false, false⟩, ⟨true, false, false, false⟩,
     ⟨true, false, false, false⟩, ⟨true, false, false, false⟩]
    = [⟨false, false⟩, ⟨false, false⟩, ⟨true, false⟩, ⟨false, false⟩, ⟨false, false⟩, ⟨true, false⟩,
       ⟨false, false⟩, ⟨false, false⟩, ⟨false, false⟩, ⟨true, false⟩, ⟨false, true⟩] := by decide

end LunaVerif.LinkTimers
