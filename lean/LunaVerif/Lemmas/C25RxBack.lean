import LunaVerif.Lemmas.C25RxFront
import LunaVerif.Props.C25
/-!
# C25 receive chain, back end (packet detector, bit-stuff remover, shifter, latched error) at nominal rate

At nominal rate the NRZI decoder presents one bit every four cycles (`bitBlock`).  Between two bits the back end is
*quiet*: `conc a bd` (stall flag set, no error strobe, no put, `past_o_pkt_active` = detector in PKT_ACTIVE), with
`a : BB` the four registers that matter (detector state, bit-stuff counter, shift register, latched error).
`back_block` computes the four cycles of one bit (`bitStep`, `bitEv`); the rest of the file is the bit-level
analysis: SYNC (`sync_run`), stuffed data against `FsCodec.stuff` (`data_run`, by induction over the bits and over
the bytes), end of packet and idle (`eop_run`), a seventh 1 (`seven_ones_run`).
-/
set_option linter.unusedSimpArgs false
namespace LunaVerif.FsRx
open LunaVerif.FsCodec

/-- the registers of the back end that carry information from one bit time to the next -/
structure BB where
  det : Nat           -- RxPacketDetect FSM
  bs  : Nat           -- RxBitstuffRemover FSM
  sr  : List Bool     -- RxShifter.shift_reg
  err : Bool          -- receive_error
deriving DecidableEq, Repr

/-- the quiet back-end state between two bits; `bd` = `RxBitstuffRemover.o_data` (follows the held `o_data`) -/
def conc (a : BB) (bd : Bool) : Back :=
  { det := a.det, bs := a.bs, bsData := bd, bsStall := true, bsError := false, sr := a.sr, oPut := false,
    pastActive := a.det == 6, rxErr := a.err }

/-- what is written into the clock-domain crossing -/
inductive Ev | start | byte (b : Nat) | fin
deriving DecidableEq, Repr

def evOf (o : Out) : List Ev :=
  (if o.pktStart then [.start] else []) ++ (if o.pktEnd then [.fin] else []) ++ (if o.put then [.byte o.payData] else [])

def events : List Out → List Ev
  | [] => []
  | o :: os => evOf o ++ events os

theorem events_append (a b : List Out) : events (a ++ b) = events a ++ events b := by
  induction a with
  | nil => rfl
  | cons o os ih => simp only [List.cons_append, events, ih, List.append_assoc]

/-- RxShifter: shifting a bit in -/
def shiftIn (sr : List Bool) (d : Bool) : List Bool :=
  if sr.getD 8 false then [d, true, false, false, false, false, false, false, false] else d :: sr.take 8

def detStep (det : Nat) (d z : Bool) : Nat :=
  if det == 6 then (if z then 0 else 6)
  else if det == 5 then (if z then 0 else if d then 6 else 5)
  else if d || z then 0 else det + 1

def bsStep (bs : Nat) (d : Bool) : Nat := if bs == 6 then 0 else if d then bs + 1 else 0

/-- one bit time of the back end: bit `b.1`, SE0 flag `b.2` -/
def bitStep (a : BB) (b : Bool × Bool) : BB :=
  let act := a.det == 6 && !b.2
  let shv := !(a.bs == 6) && act
  { det := detStep a.det b.1 b.2,
    bs := bsStep a.bs b.1,
    sr := if shv then shiftIn a.sr b.1 else if a.det == 6 && b.2 then srInit else a.sr,
    err := if a.bs == 6 && b.1 && act then true else if a.det == 5 && !b.2 && b.1 then false else a.err }

def bitEv (a : BB) (b : Bool × Bool) : List Ev :=
  (if a.det == 5 && !b.2 && b.1 then [.start] else []) ++ (if a.det == 6 && b.2 then [.fin] else []) ++
  (if !(a.bs == 6) && (a.det == 6 && !b.2) && a.sr.getD 7 false && !a.sr.getD 8 false
   then [.byte (bitsVal ((shiftIn a.sr b.1).take 8).reverse)] else [])

/-- `o_receive_error` in the four cycles of a bit time -/
def bitErrs (a : BB) (b : Bool × Bool) : List Bool :=
  let e1 := if a.det == 5 && !b.2 && b.1 then false else a.err
  [a.err, e1, (bitStep a b).err, (bitStep a b).err]

theorem back_block (a : BB) (bd : Bool) (b : Bool × Bool) :
    runB (conc a bd) (bitBlock b) = conc (bitStep a b) b.1 ∧
    events (outsB (conc a bd) (bitBlock b)) = bitEv a b ∧
    (outsB (conc a bd) (bitBlock b)).map (·.rxErr) = bitErrs a b ∧
    (outsB (conc a bd) (bitBlock b)).map (·.pktStart) = [a.det == 5 && !b.2 && b.1, false, false, false] := by
  obtain ⟨d, z⟩ := b
  obtain ⟨det, bs, sr, err⟩ := a
  refine ⟨?_, ?_, ?_, ?_⟩
  · simp only [bitBlock, runB, conc, Back.next, Back.nextDet, Back.nextBs, Back.dropBit, Back.nextSr, Back.shValid,
      Back.srFull, Back.pktEnd, Back.pktActive, Back.pktStart, bitStep, detStep, bsStep, shiftIn]
    cases d <;> cases z <;> simp <;> split <;> simp_all
  · simp only [bitBlock, runB, outsB, conc, Back.next, Back.nextDet, Back.nextBs, Back.dropBit, Back.nextSr, Back.shValid,
      Back.srFull, Back.pktEnd, Back.pktActive, Back.pktStart, Back.out, Back.payData, events, evOf, bitEv, shiftIn]
    cases d <;> cases z <;> simp <;> split <;> simp_all <;> grind
  · simp only [bitBlock, runB, outsB, conc, Back.next, Back.nextDet, Back.nextBs, Back.dropBit, Back.nextSr, Back.shValid,
      Back.srFull, Back.pktEnd, Back.pktActive, Back.pktStart, Back.out, bitErrs, bitStep, List.map]
    cases d <;> cases z <;> simp
  · simp only [bitBlock, runB, outsB, conc, Back.next, Back.nextDet, Back.nextBs, Back.dropBit, Back.nextSr, Back.shValid,
      Back.srFull, Back.pktEnd, Back.pktActive, Back.pktStart, Back.out, List.map]
    cases d <;> cases z <;> simp

/-! ### bit level -/

def bitRun : BB → List (Bool × Bool) → BB
  | a, [] => a
  | a, b :: bs => bitRun (bitStep a b) bs

def bitEvs : BB → List (Bool × Bool) → List Ev
  | _, [] => []
  | a, b :: bs => bitEv a b ++ bitEvs (bitStep a b) bs

/-- (`o_pkt_start`, `o_receive_error`) per cycle -/
def bitSE (a : BB) (b : Bool × Bool) : List (Bool × Bool) :=
  [(a.det == 5 && !b.2 && b.1, a.err), (false, if a.det == 5 && !b.2 && b.1 then false else a.err),
   (false, (bitStep a b).err), (false, (bitStep a b).err)]

def bitSEs : BB → List (Bool × Bool) → List (Bool × Bool)
  | _, [] => []
  | a, b :: bs => bitSE a b ++ bitSEs (bitStep a b) bs

def lastD : Bool → List (Bool × Bool) → Bool
  | bd, [] => bd
  | _, b :: bs => lastD b.1 bs

def seOf (o : Out) : Bool × Bool := (o.pktStart, o.rxErr)

theorem back_block_se (a : BB) (bd : Bool) (b : Bool × Bool) :
    (outsB (conc a bd) (bitBlock b)).map seOf = bitSE a b := by
  obtain ⟨_, _, h3, h4⟩ := back_block a bd b
  have hl : (outsB (conc a bd) (bitBlock b)).length = 4 := by
    obtain ⟨d, z⟩ := b; rfl
  match h : outsB (conc a bd) (bitBlock b), hl with
  | [o0, o1, o2, o3], _ =>
    rw [h] at h3 h4
    simp only [List.map, bitErrs, List.cons.injEq, and_true] at h3 h4
    simp only [List.map, seOf, bitSE, h3.1, h3.2.1, h3.2.2.1, h3.2.2.2, h4.1, h4.2.1, h4.2.2.1, h4.2.2.2]

/-- **the back end at nominal rate is the bit-level machine** -/
theorem back_blocks (bits : List (Bool × Bool)) : ∀ (a : BB) (bd : Bool),
    runB (conc a bd) (bitBlocks bits) = conc (bitRun a bits) (lastD bd bits) ∧
    events (outsB (conc a bd) (bitBlocks bits)) = bitEvs a bits ∧
    (outsB (conc a bd) (bitBlocks bits)).map seOf = bitSEs a bits := by
  induction bits with
  | nil => intro a bd; exact ⟨rfl, rfl, rfl⟩
  | cons b bs ih =>
    intro a bd
    obtain ⟨h1, h2, _, _⟩ := back_block a bd b
    have h3 := back_block_se a bd b
    obtain ⟨i1, i2, i3⟩ := ih (bitStep a b) b.1
    simp only [bitBlocks, runB_append, outsB_append, events_append, List.map_append, h1, h2, h3, i1, i2, i3,
      bitRun, bitEvs, bitSEs, lastD]
    exact ⟨trivial, trivial, trivial⟩

theorem bitRun_append (x y : List (Bool × Bool)) : ∀ a, bitRun a (x ++ y) = bitRun (bitRun a x) y := by
  induction x with
  | nil => intro a; rfl
  | cons b bs ih => intro a; simp only [List.cons_append, bitRun, ih]

theorem bitEvs_append (x y : List (Bool × Bool)) : ∀ a, bitEvs a (x ++ y) = bitEvs a x ++ bitEvs (bitRun a x) y := by
  induction x with
  | nil => intro a; rfl
  | cons b bs ih => intro a; simp only [List.cons_append, bitRun, bitEvs, ih, List.append_assoc]

theorem bitSEs_append (x y : List (Bool × Bool)) : ∀ a, bitSEs a (x ++ y) = bitSEs a x ++ bitSEs (bitRun a x) y := by
  induction x with
  | nil => intro a; rfl
  | cons b bs ih => intro a; simp only [List.cons_append, bitRun, bitSEs, ih, List.append_assoc]

/-- does `o_receive_error` show in a cycle after one with `o_pkt_start`?  (`st` = a start has been seen) -/
def errAfter : Bool → List (Bool × Bool) → Bool
  | _, [] => false
  | st, (s, e) :: xs => (st && e) || errAfter (st || s) xs

theorem errAfter_append (x y : List (Bool × Bool)) : ∀ st,
    errAfter st (x ++ y) = (errAfter st x || errAfter (st || x.any (·.1)) y) := by
  induction x with
  | nil => intro st; simp [errAfter]
  | cons b bs ih => intro st; obtain ⟨s, e⟩ := b; simp [errAfter, ih, Bool.or_assoc]

theorem errAfter_clean (x : List (Bool × Bool)) (h : ∀ p ∈ x, p.2 = false) : ∀ st, errAfter st x = false := by
  induction x with
  | nil => intro st; rfl
  | cons b bs ih =>
    intro st; obtain ⟨s, e⟩ := b
    have he : e = false := h (s, e) (by simp)
    simp [errAfter, he, ih (fun p hp => h p (by simp [hp]))]

theorem errAfter_nostart (x : List (Bool × Bool)) (h : ∀ p ∈ x, p.1 = false) : errAfter false x = false := by
  induction x with
  | nil => rfl
  | cons b bs ih =>
    obtain ⟨s, e⟩ := b
    have hs : s = false := h (s, e) (by simp)
    simp [errAfter, hs, ih (fun p hp => h p (by simp [hp]))]

/-! #### SYNC -/

def fbits (bits : List Bool) : List (Bool × Bool) := bits.map (·, false)

theorem sync_run (c : Nat) (hc : c ≤ 6) (e : Bool) :
    bitRun ⟨0, c, srInit, e⟩ (fbits syncBits) = ⟨6, 1, srInit, false⟩ ∧
    bitEvs ⟨0, c, srInit, e⟩ (fbits syncBits) = [.start] ∧
    errAfter false (bitSEs ⟨0, c, srInit, e⟩ (fbits syncBits)) = false ∧
    (bitSEs ⟨0, c, srInit, e⟩ (fbits syncBits)).any (·.1) = true := by
  have : c = 0 ∨ c = 1 ∨ c = 2 ∨ c = 3 ∨ c = 4 ∨ c = 5 ∨ c = 6 := by omega
  rcases this with h | h | h | h | h | h | h <;> subst h <;> cases e <;> decide

/-! #### data: un-stuffing, then the shifter -/

/-- the shifter alone -/
def shRun : List Bool → List Bool → List Bool
  | sr, [] => sr
  | sr, d :: ds => shRun (shiftIn sr d) ds

def shEvs : List Bool → List Bool → List Ev
  | _, [] => []
  | sr, d :: ds =>
    (if sr.getD 7 false && !sr.getD 8 false then [Ev.byte (bitsVal ((shiftIn sr d).take 8).reverse)] else []) ++
      shEvs (shiftIn sr d) ds

/-- **un-stuffing**: in PKT_ACTIVE, the stuffed bit stream `stuff n bits` (`n` = the bit-stuff counter) shifts in
exactly `bits`, with no error. -/
theorem unstuff_run (bits : List Bool) : ∀ (n : Nat) (sr : List Bool), n ≤ 5 →
    (∃ n', n' ≤ 5 ∧ bitRun ⟨6, n, sr, false⟩ (fbits (stuff n bits)) = ⟨6, n', shRun sr bits, false⟩) ∧
    bitEvs ⟨6, n, sr, false⟩ (fbits (stuff n bits)) = shEvs sr bits ∧
    (∀ p ∈ bitSEs ⟨6, n, sr, false⟩ (fbits (stuff n bits)), p = (false, false)) := by
  induction bits with
  | nil => intro n sr hn; exact ⟨⟨n, hn, rfl⟩, rfl, by simp [stuff, fbits, bitSEs]⟩
  | cons b bs ih =>
    intro n sr hn
    have h6 : (n == 6) = false := by simp; omega
    cases b with
    | false =>
      obtain ⟨⟨n', hn', i1⟩, i2, i3⟩ := ih 0 (shiftIn sr false) (by omega)
      have hs : bitStep ⟨6, n, sr, false⟩ (false, false) = ⟨6, 0, shiftIn sr false, false⟩ := by
        simp [bitStep, detStep, bsStep, h6]
      refine ⟨⟨n', hn', ?_⟩, ?_, ?_⟩
      · simp only [stuff, fbits, List.map, bitRun, hs, shRun]; exact i1
      · simp only [stuff, fbits, List.map, bitEvs, hs, shEvs]
        rw [← i2]; simp [bitEv, h6, fbits]
      · simp only [stuff, fbits, List.map, bitSEs, hs]
        intro p hp
        rcases List.mem_append.mp hp with hp | hp
        · simp [bitSE, hs] at hp; first | exact hp | (rcases hp with h' | h' | h' | h' <;> exact h')
        · exact i3 p hp
    | true =>
      by_cases h : n + 1 = 6
      · obtain ⟨⟨n', hn', i1⟩, i2, i3⟩ := ih 0 (shiftIn sr true) (by omega)
        have hs : bitStep ⟨6, n, sr, false⟩ (true, false) = ⟨6, 6, shiftIn sr true, false⟩ := by
          simp [bitStep, detStep, bsStep, h6]; omega
        have hs2 : bitStep ⟨6, 6, shiftIn sr true, false⟩ (false, false) = ⟨6, 0, shiftIn sr true, false⟩ := by
          simp [bitStep, detStep, bsStep]
        refine ⟨⟨n', hn', ?_⟩, ?_, ?_⟩
        · simp only [stuff, h, if_true, fbits, List.map, bitRun, hs, hs2, shRun]; exact i1
        · simp only [stuff, h, if_true, fbits, List.map, bitEvs, hs, hs2, shEvs]
          rw [← i2]; simp [bitEv, h6, fbits]
        · simp only [stuff, h, if_true, fbits, List.map, bitSEs, hs, hs2]
          intro p hp
          rcases List.mem_append.mp hp with hp | hp
          · simp [bitSE, hs] at hp; first | exact hp | (rcases hp with h' | h' | h' | h' <;> exact h')
          rcases List.mem_append.mp hp with hp | hp
          · simp [bitSE, hs2] at hp; first | exact hp | (rcases hp with h' | h' | h' | h' <;> exact h')
          · exact i3 p hp
      · obtain ⟨⟨n', hn', i1⟩, i2, i3⟩ := ih (n + 1) (shiftIn sr true) (by omega)
        have hs : bitStep ⟨6, n, sr, false⟩ (true, false) = ⟨6, n + 1, shiftIn sr true, false⟩ := by
          simp [bitStep, detStep, bsStep, h6]
        refine ⟨⟨n', hn', ?_⟩, ?_, ?_⟩
        · simp only [stuff, h, if_false, fbits, List.map, bitRun, hs, shRun]; exact i1
        · simp only [stuff, h, if_false, fbits, List.map, bitEvs, hs, shEvs]
          rw [← i2]; simp [bitEv, h6, fbits]
        · simp only [stuff, h, if_false, fbits, List.map, bitSEs, hs]
          intro p hp
          rcases List.mem_append.mp hp with hp | hp
          · simp [bitSE, hs] at hp; first | exact hp | (rcases hp with h' | h' | h' | h' <;> exact h')
          · exact i3 p hp

/-- the shift register at a byte boundary: just reset, or full (sentinel in bit 8) -/
def Aligned (sr : List Bool) : Prop := sr.getD 8 false = true ∨ sr = srInit

theorem shiftIn_aligned (sr : List Bool) (h : Aligned sr) (d : Bool) :
    shiftIn sr d = [d, true, false, false, false, false, false, false, false] ∧
    (sr.getD 7 false && !sr.getD 8 false) = false := by
  rcases h with h | h
  · have h' : sr[8]?.getD false = true := by simpa [List.getD] using h
    simp [shiftIn, h']
  · subst h; cases d <;> decide

/-- **the shifter delivers the bytes**: from a byte boundary, the bits of `bytes` (LSB first) produce one write per
byte with exactly that byte, and end at a byte boundary. -/
theorem shifter_bytes (bytes : List Nat) (hb : ∀ b ∈ bytes, b < 256) : ∀ sr, Aligned sr →
    Aligned (shRun sr (bitsOf bytes)) ∧ shEvs sr (bitsOf bytes) = bytes.map Ev.byte := by
  induction bytes with
  | nil => intro sr h; exact ⟨h, rfl⟩
  | cons b bs ih =>
    intro sr h
    have hlt : b < 256 := hb b (by simp)
    have hv := bitsVal_byteBits ⟨b, hlt⟩
    rw [byteBits_eq] at hv
    obtain ⟨h1, h2⟩ := shiftIn_aligned sr h (b.testBit 0)
    have hal : Aligned [b.testBit 7, b.testBit 6, b.testBit 5, b.testBit 4, b.testBit 3, b.testBit 2, b.testBit 1,
        b.testBit 0, true] := Or.inl rfl
    obtain ⟨i1, i2⟩ := ih (fun x hx => hb x (by simp [hx])) _ hal
    simp only [bitsOf, byteBits_eq, List.cons_append, List.nil_append, shRun, shEvs, h1, h2]
    simp only [shiftIn, List.getD_cons_succ, List.getD_cons_zero, List.getD_nil, List.take, Bool.false_eq_true,
      if_false, Bool.and_self, Bool.not_false, Bool.and_false, Bool.false_and, List.nil_append, List.reverse_cons,
      List.reverse_nil, List.cons_append, if_true, Bool.not_true, Bool.true_and, List.map]
    refine ⟨i1, ?_⟩
    rw [i2]
    simp only [List.getD, List.getElem?_cons_succ, List.getElem?_cons_zero, Option.getD_some] at *
    simp only [hv]

/-! #### outside of a packet; end of packet -/

theorem bsStep_le (c : Nat) (d : Bool) (h : c ≤ 6) : bsStep c d ≤ 6 := by
  unfold bsStep; split <;> (try split) <;> simp_all <;> omega

/-- a bit while the detector is in D0..D4: nothing is written, the error latch keeps its value -/
theorem inactive_step (det c : Nat) (sr : List Bool) (e : Bool) (b : Bool × Bool) (hd : det ≤ 4) :
    bitStep ⟨det, c, sr, e⟩ b = ⟨detStep det b.1 b.2, bsStep c b.1, sr, e⟩ ∧
    bitEv ⟨det, c, sr, e⟩ b = [] ∧
    bitSE ⟨det, c, sr, e⟩ b = [(false, e), (false, e), (false, e), (false, e)] := by
  have h6 : (det == 6) = false := by simp; omega
  have h5 : (det == 5) = false := by simp; omega
  have hs : bitStep ⟨det, c, sr, e⟩ b = ⟨detStep det b.1 b.2, bsStep c b.1, sr, e⟩ := by
    simp [bitStep, h6, h5]
  refine ⟨hs, by simp [bitEv, h6, h5], ?_⟩
  simp [bitSE, hs, h5]

/-- idle (J after J = a 1) outside of a packet -/
theorem idle_bits (k : Nat) : ∀ (det c : Nat) (e : Bool), det ≤ 1 → c ≤ 6 →
    (∃ c', c' ≤ 6 ∧ bitRun ⟨det, c, srInit, e⟩ (List.replicate (k + 1) (true, false)) = ⟨0, c', srInit, e⟩) ∧
    bitEvs ⟨det, c, srInit, e⟩ (List.replicate (k + 1) (true, false)) = [] ∧
    (∀ p ∈ bitSEs ⟨det, c, srInit, e⟩ (List.replicate (k + 1) (true, false)), p = (false, e)) := by
  induction k with
  | zero =>
    intro det c e hd hc
    obtain ⟨h1, h2, h3⟩ := inactive_step det c srInit e (true, false) (by omega)
    have hdet : detStep det true false = 0 := by
      have : det = 0 ∨ det = 1 := by omega
      rcases this with h | h <;> subst h <;> rfl
    refine ⟨⟨bsStep c true, bsStep_le c true hc, ?_⟩, ?_, ?_⟩
    · simp only [List.replicate, bitRun, h1, hdet]
    · simp only [List.replicate, bitEvs, h2, List.append_nil]
    · simp only [List.replicate, bitSEs, h3, List.append_nil]
      intro p hp; simp at hp; exact hp
  | succ k ih =>
    intro det c e hd hc
    obtain ⟨h1, h2, h3⟩ := inactive_step det c srInit e (true, false) (by omega)
    have hdet : detStep det true false = 0 := by
      have : det = 0 ∨ det = 1 := by omega
      rcases this with h | h <;> subst h <;> rfl
    obtain ⟨⟨c', hc', i1⟩, i2, i3⟩ := ih 0 (bsStep c true) e (by omega) (bsStep_le c true hc)
    refine ⟨⟨c', hc', ?_⟩, ?_, ?_⟩
    · rw [List.replicate_succ]; simp only [bitRun, h1, hdet]; exact i1
    · rw [List.replicate_succ]; simp only [bitEvs, h1, h2, hdet, List.nil_append]; exact i2
    · rw [List.replicate_succ]; simp only [bitSEs, h1, h3, hdet]
      intro p hp
      rcases List.mem_append.mp hp with hp | hp
      · simp at hp; exact hp
      · exact i3 p hp

/-- **end of packet**: SE0 SE0 J after the last data bit (`x` = whatever the NRZI decoder makes of the first SE0)
writes the end flag, resets the shifter, raises no error. -/
theorem eop_run (n : Nat) (sr : List Bool) (x e : Bool) (hn : n ≤ 6) :
    (∃ c', c' ≤ 6 ∧ bitRun ⟨6, n, sr, e⟩ [(x, true), (true, true), (false, false)] = ⟨1, c', srInit, e⟩) ∧
    bitEvs ⟨6, n, sr, e⟩ [(x, true), (true, true), (false, false)] = [.fin] ∧
    (∀ p ∈ bitSEs ⟨6, n, sr, e⟩ [(x, true), (true, true), (false, false)], p = (false, e)) := by
  have hs : bitStep ⟨6, n, sr, e⟩ (x, true) = ⟨0, bsStep n x, srInit, e⟩ := by
    simp [bitStep, detStep]
  have hc1 := bsStep_le n x hn
  obtain ⟨a1, a2, a3⟩ := inactive_step 0 (bsStep n x) srInit e (true, true) (by omega)
  have hc2 := bsStep_le _ true hc1
  obtain ⟨b1, b2, b3⟩ := inactive_step 0 (bsStep (bsStep n x) true) srInit e (false, false) (by omega)
  have hd1 : detStep 0 true true = 0 := rfl
  have hd2 : detStep 0 false false = 1 := rfl
  refine ⟨⟨_, bsStep_le _ false hc2, ?_⟩, ?_, ?_⟩
  · simp only [bitRun, hs, a1, b1, hd1, hd2]
  · simp only [bitEvs, hs, a1, a2, b2, hd1, List.append_nil]
    simp [bitEv]
  · simp only [bitSEs, hs, a1, a3, b3, hd1, List.append_nil]
    intro p hp
    rcases List.mem_append.mp hp with hp | hp
    · simp [bitSE, hs] at hp; first | exact hp | (rcases hp with h' | h' | h' | h' <;> exact h')
    · simp at hp; exact hp

/-! #### a seventh 1 -/

/-- in PKT_ACTIVE, with the error latched, data bits keep it latched -/
theorem err_sticky (bits : List Bool) : ∀ (n : Nat) (sr : List Bool),
    ∃ n' sr', bitRun ⟨6, n, sr, true⟩ (fbits bits) = ⟨6, n', sr', true⟩ ∧ (n ≤ 6 → n' ≤ 6) := by
  induction bits with
  | nil => intro n sr; exact ⟨n, sr, rfl, id⟩
  | cons b bs ih =>
    intro n sr
    have hs : ∃ sr', bitStep ⟨6, n, sr, true⟩ (b, false) = ⟨6, bsStep n b, sr', true⟩ := by
      refine ⟨(bitStep ⟨6, n, sr, true⟩ (b, false)).sr, ?_⟩
      simp [bitStep, detStep]
    obtain ⟨sr1, hs⟩ := hs
    obtain ⟨n', sr', i1, i2⟩ := ih (bsStep n b) sr1
    exact ⟨n', sr', by simp only [fbits, List.map, bitRun, hs]; exact i1, fun h => i2 (bsStep_le n b h)⟩

/-- **seven consecutive 1s latch the error**, whatever the counter (≤ 6), shifter and latch were -/
theorem seven_ones_run (n : Nat) (hn : n ≤ 6) (sr : List Bool) (e : Bool) :
    ∃ n' sr', n' ≤ 6 ∧ bitRun ⟨6, n, sr, e⟩ (fbits (List.replicate 7 true)) = ⟨6, n', sr', true⟩ := by
  -- the detector, counter and latch do not depend on the shift register
  have key : ∀ (k : Nat) (n : Nat) (sr : List Bool) (e : Bool),
      ∃ sr', bitRun ⟨6, n, sr, e⟩ (fbits (List.replicate k true)) =
        ⟨6, (bitRun ⟨6, n, [], e⟩ (fbits (List.replicate k true))).bs, sr',
          (bitRun ⟨6, n, [], e⟩ (fbits (List.replicate k true))).err⟩ := by
    intro k
    induction k with
    | zero => intro n sr e; exact ⟨sr, rfl⟩
    | succ k ih =>
      intro n sr e
      have h1 : ∀ sr, ∃ sr', bitStep ⟨6, n, sr, e⟩ (true, false) =
          ⟨6, bsStep n true, sr', if n == 6 then true else e⟩ := by
        intro sr
        refine ⟨(bitStep ⟨6, n, sr, e⟩ (true, false)).sr, ?_⟩
        simp [bitStep, detStep]
      obtain ⟨s1, e1⟩ := h1 sr
      obtain ⟨s2, e2⟩ := h1 []
      obtain ⟨s3, e3⟩ := ih (bsStep n true) s1 (if n == 6 then true else e)
      obtain ⟨s4, e4⟩ := ih (bsStep n true) s2 (if n == 6 then true else e)
      refine ⟨s3, ?_⟩
      rw [List.replicate_succ]
      simp only [fbits, List.map, bitRun, e1, e2]
      simp only [fbits] at e3 e4
      rw [e3, e4]
  obtain ⟨sr', h⟩ := key 7 n sr e
  have : n = 0 ∨ n = 1 ∨ n = 2 ∨ n = 3 ∨ n = 4 ∨ n = 5 ∨ n = 6 := by omega
  refine ⟨(bitRun ⟨6, n, [], e⟩ (fbits (List.replicate 7 true))).bs, sr', ?_, ?_⟩
  · rcases this with h | h | h | h | h | h | h <;> subst h <;> cases e <;> decide
  · rw [h]
    congr 1
    rcases this with h | h | h | h | h | h | h <;> subst h <;> cases e <;> decide

/-- data bits keep the detector in PKT_ACTIVE (and the counter ≤ 6), whatever they are -/
theorem active_run (bits : List Bool) : ∀ (n : Nat) (sr : List Bool) (e : Bool), n ≤ 6 →
    ∃ n' sr' e', n' ≤ 6 ∧ bitRun ⟨6, n, sr, e⟩ (fbits bits) = ⟨6, n', sr', e'⟩ := by
  induction bits with
  | nil => intro n sr e hn; exact ⟨n, sr, e, hn, rfl⟩
  | cons b bs ih =>
    intro n sr e hn
    have hs : bitStep ⟨6, n, sr, e⟩ (b, false) =
        ⟨6, bsStep n b, (bitStep ⟨6, n, sr, e⟩ (b, false)).sr, (bitStep ⟨6, n, sr, e⟩ (b, false)).err⟩ := by
      simp [bitStep, detStep]
    obtain ⟨n', sr', e', h1, h2⟩ := ih (bsStep n b) _ (bitStep ⟨6, n, sr, e⟩ (b, false)).err (bsStep_le n b hn)
    refine ⟨n', sr', e', h1, ?_⟩
    simp only [fbits, List.map, bitRun]
    rw [hs]; exact h2

end LunaVerif.FsRx
