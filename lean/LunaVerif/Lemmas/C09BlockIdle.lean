import LunaVerif.Lemmas.C09Seq
import LunaVerif.Lemmas.C09BlockReq
/-!
Helper lemmas for C09: the block-ROM handler model is idle again when its response is over.

Shape argument: five cycles after `start` the FSM is in IDLE or SEND_DESCRIPTOR whatever the ROM
contains (every look-up state is left after one cycle); SEND_DESCRIPTOR always drives `valid`; so a
cycle ≥ 5 with a quiet output is a cycle in IDLE.  Which cycles are quiet is known from the proved
output trace.
-/
namespace LunaVerif.Desc.Block

def final (c : Config) : State → List In → State
  | s, [] => s
  | s, i :: is => final c (step c s i).1 is

theorem run_append (c : Config) (a b : List In) : ∀ s, run c s (a ++ b) = run c s a ++ run c (final c s a) b := by
  induction a with
  | nil => intro s; rfl
  | cons i is ih => intro s; simp only [List.cons_append, run, final, ih, List.cons_append]

theorem final_append (c : Config) (a b : List In) : ∀ s, final c s (a ++ b) = final c (final c s a) b := by
  induction a with
  | nil => intro s; rfl
  | cons i is ih => intro s; simp only [List.cons_append, final, ih]

/-- cycles until the FSM is in IDLE or SEND_DESCRIPTOR at the latest. -/
def stage : Fsm → Nat
  | .start => 4
  | .lookupType => 3
  | .lookupDescriptor => 2
  | .sendZlp => 1
  | .idle => 0
  | .sendDescriptor => 0

theorem stage_step (c : Config) (s : State) (i : In) (hi : i.start = false) :
    stage (step c s i).1.fsm ≤ stage s.fsm - 1 := by
  cases h : s.fsm <;> simp only [step, h, hi] <;> (repeat' split) <;> simp_all [stage]

theorem stage_hold (c : Config) (v l p : Nat) (rs : List Bool) : ∀ s,
    stage (final c s (holdInputs v l p rs)).fsm ≤ stage s.fsm - rs.length := by
  induction rs with
  | nil => intro s; simp [holdInputs, final]
  | cons r rs ih =>
    intro s
    rw [holdInputs_cons]
    simp only [final, List.length_cons]
    have h1 := ih (step c s ⟨v, l, p, false, r⟩).1
    have h2 := stage_step c s ⟨v, l, p, false, r⟩ rfl
    omega

theorem valid_of_send (c : Config) (s : State) (i : In) (h : s.fsm = .sendDescriptor) : (step c s i).2.valid = true := by
  simp only [step, h]
  (repeat' split) <;> rfl

theorem idle_of_stage0 (c : Config) (s : State) (i : In) (h0 : stage s.fsm = 0) (hq : (step c s i).2 = Beat.quiet) :
    s.fsm = .idle := by
  cases h : s.fsm with
  | idle => rfl
  | sendDescriptor =>
    have := valid_of_send c s i h
    rw [hq] at this
    simp [Beat.quiet] at this
  | _ => rw [h] at h0; simp [stage] at h0

theorem reqInputs_snoc (v l p : Nat) (r : Bool) (rs : List Bool) (x : Bool) :
    reqInputs v l p ((r :: rs) ++ [x]) = reqInputs v l p (r :: rs) ++ [⟨v, l, p, false, x⟩] := by
  simp [reqInputs]

/-- **return to idle**: if the output trace of a request is the abstract trace of a response that is
over within the window `rs` (at least five cycles long), the model is in IDLE at the end of `rs`. -/
theorem final_idle_of_trace (c : Config) (s0 : State) (v l p lat : Nat) (r : Response) (rs : List Bool)
    (h0 : s0.fsm = .idle) (h5 : 5 ≤ rs.length) (hc : CompleteAt lat r rs)
    (htrace : run c s0 (reqInputs v l p (rs ++ [false])) = respTrace lat r (rs ++ [false])) :
    (final c s0 (reqInputs v l p rs)).fsm = .idle := by
  cases rs with
  | nil => simp at h5
  | cons r0 rs =>
    have ht := htrace
    rw [respTrace_snoc r false lat _ hc, reqInputs_snoc, run_append] at ht
    have hlen : (run c s0 (reqInputs v l p (r0 :: rs))).length = (respTrace lat r (r0 :: rs)).length := by
      have h1 : ∀ (s : State) (is : List In), (run c s is).length = is.length := by
        intro s is
        induction is generalizing s with
        | nil => rfl
        | cons i is ih => simp [run, ih]
      rw [h1]
      have h2 : (respTrace lat r (r0 :: rs)).length = (r0 :: rs).length := by
        have h3 := congrArg List.length ht
        simp only [List.length_append, h1] at h3
        simp only [List.length_cons, List.length_nil] at h3 ⊢
        simp [reqInputs] at h3
        omega
      rw [h2]
      simp [reqInputs]
    have hlast := (List.append_inj ht hlen).2
    simp only [run] at hlast
    have hq : (step c (final c s0 (reqInputs v l p (r0 :: rs))) ⟨v, l, p, false, false⟩).2 = Beat.quiet := by
      injection hlast
    apply idle_of_stage0 c _ _ _ hq
    rw [reqInputs_cons]
    simp only [final]
    have hs := stage_hold c v l p rs (step c s0 ⟨v, l, p, true, r0⟩).1
    rw [step_idle c s0 _ h0] at hs ⊢
    simp only [if_true, stage] at hs ⊢
    simp only [List.length_cons] at h5
    omega

end LunaVerif.Desc.Block
