import LunaVerif.Lemmas.C37LiveBase
/-!
# C37 — liveness: every freed buffer gets its LCRD

`rankC T` bounds the number of ready cycles until `T` LCRDs have completed on the wire, for every
`T ≤ lcrds + credits_to_issue`.  Ahead of an owed LCRD: the rest of the command in progress, one LRTY per
retry request (*bad* cycles, cost 4), and all LGOODs — those owed and those for headers the partner may
still send with the credits it holds (`acks_to_send + (lcrds − accepted)`), each possibly in a SEND_ACKS
session of its own (cost 4 each).
-/
set_option linter.unusedSimpArgs false
set_option linter.unusedVariables false
namespace LunaVerif.HeaderRx

def rankC (T : Nat) (x : World) : Nat :=
  if T - x.g.lcrds.length = 0 then 0 else
  match x.s.fsm with
  | .issueCredits => ph x.s.gen + 3 * (T - x.g.lcrds.length - 1)
  | .dispatch => 1 + lr x.s + 4 * (x.s.acks + x.g.lcrds.length - x.g.accepted.length) +
      3 * (T - x.g.lcrds.length)
  | .sendAcks => ph x.s.gen + 4 * (x.s.acks + x.g.lcrds.length - x.g.accepted.length - 1) + 1 + lr x.s +
      3 * (T - x.g.lcrds.length)
  | .sendLrty => ph x.s.gen + 1 + 4 * (x.s.acks + x.g.lcrds.length - x.g.accepted.length) +
      3 * (T - x.g.lcrds.length)
  | _ => ph x.s.gen + 1 + lr x.s + 4 * (x.s.acks + x.g.lcrds.length - x.g.accepted.length) +
      3 * (T - x.g.lcrds.length)

def InvC (c : Config) (T : Nat) (x : World) : Prop := Inv c x.s x.g ∧ T ≤ x.g.lcrds.length + x.s.cti

def badC (_ : World) (i : In) : Bool := i.retryRequired

set_option hygiene false in
local macro "rank_go" hf:ident h0:ident h1:ident : tactic =>
  `(tactic| (
    have hlr : lr s = if s.lrty then 4 else 0 := rfl
    cases hg : s.gen <;> cases hr : i.srcReady <;> cases hl : s.lrty <;> cases hq : i.retryRequired <;>
      simp [$hf:ident, $h0:ident, $h1:ident, hg, hr, hl, hq, fsm_beq, gen_beq, fsmNext, genNext, done, lgoodDone, lcrdDone,
        dispatchNext, generate, ph, nf, nr, na, en, step_fsm, step_gen]
        at fa fc fb flg flc fac lgA lcC fA fC g0 lrD lrN hlr hz ⊢ <;>
      (repeat' split) <;> (try simp only [ph] at *) <;> omega))

set_option hygiene false in
local macro "rank_pre" : tactic =>
  `(tactic| (
    obtain ⟨fa, fc, fb, flg, flc, fac, a4, a3, bc, bc3, cr, hk, hc, pb, lgA, lcC, fA, fC, g0, en, nf, nr, accA,
      bcA, popB, aL, pL, lrN, lrD, lbI⟩ := facts_of (c := c) hI e
    have na := no_abort (c := c) hI e
    simp only [World.next, rankC] at hz ⊢
    simp only [flc, fac]))

section
variable {c : Config} {T : Nat} {s : State} {g : Ghost} {n : Cnt} {i : In}

theorem rankC_step_dispatch0 (hI : Inv c s g) (hT : T ≤ g.lcrds.length + s.cti) (e : EnvStep s g i)
    (hf : s.fsm = .dispatch) (h0 : s.acks = 0) (hz : rankC T ⟨s, g, n⟩ ≠ 0) :
    rankC T (World.next c ⟨s, g, n⟩ i) + (if i.srcReady then 1 else 0) ≤
      rankC T ⟨s, g, n⟩ + (if i.retryRequired then 4 else 0) := by
  rank_pre
  have h1 : ¬ s.cti = 0 := by
    intro h1; rw [h1] at hT; simp only [hf] at hz; split at hz <;> omega
  have hgi := g0 hf
  rank_go hf h0 h1

theorem rankC_step_dispatchN (hI : Inv c s g) (hT : T ≤ g.lcrds.length + s.cti) (e : EnvStep s g i)
    (hf : s.fsm = .dispatch) (h0 : ¬ s.acks = 0) (hz : rankC T ⟨s, g, n⟩ ≠ 0) :
    rankC T (World.next c ⟨s, g, n⟩ i) + (if i.srcReady then 1 else 0) ≤
      rankC T ⟨s, g, n⟩ + (if i.retryRequired then 4 else 0) := by
  rank_pre
  have hgi := g0 hf
  rank_go hf h0 h0

theorem rankC_step_sendAcks1 (hI : Inv c s g) (hT : T ≤ g.lcrds.length + s.cti) (e : EnvStep s g i)
    (hf : s.fsm = .sendAcks) (h0 : s.acks = 1) (hz : rankC T ⟨s, g, n⟩ ≠ 0) :
    rankC T (World.next c ⟨s, g, n⟩ i) + (if i.srcReady then 1 else 0) ≤
      rankC T ⟨s, g, n⟩ + (if i.retryRequired then 4 else 0) := by
  rank_pre
  rank_go hf h0 h0

theorem rankC_step_sendAcksN (hI : Inv c s g) (hT : T ≤ g.lcrds.length + s.cti) (e : EnvStep s g i)
    (hf : s.fsm = .sendAcks) (h0 : ¬ s.acks = 1) (hz : rankC T ⟨s, g, n⟩ ≠ 0) :
    rankC T (World.next c ⟨s, g, n⟩ i) + (if i.srcReady then 1 else 0) ≤
      rankC T ⟨s, g, n⟩ + (if i.retryRequired then 4 else 0) := by
  rank_pre
  rank_go hf h0 h0

theorem rankC_step_issueCredits1 (hI : Inv c s g) (hT : T ≤ g.lcrds.length + s.cti) (e : EnvStep s g i)
    (hf : s.fsm = .issueCredits) (h0 : s.cti = 1) (hz : rankC T ⟨s, g, n⟩ ≠ 0) :
    rankC T (World.next c ⟨s, g, n⟩ i) + (if i.srcReady then 1 else 0) ≤
      rankC T ⟨s, g, n⟩ + (if i.retryRequired then 4 else 0) := by
  rank_pre
  rank_go hf h0 h0

theorem rankC_step_issueCreditsN (hI : Inv c s g) (hT : T ≤ g.lcrds.length + s.cti) (e : EnvStep s g i)
    (hf : s.fsm = .issueCredits) (h0 : ¬ s.cti = 1) (hz : rankC T ⟨s, g, n⟩ ≠ 0) :
    rankC T (World.next c ⟨s, g, n⟩ i) + (if i.srcReady then 1 else 0) ≤
      rankC T ⟨s, g, n⟩ + (if i.retryRequired then 4 else 0) := by
  rank_pre
  rank_go hf h0 h0

theorem rankC_step_sendLbad (hI : Inv c s g) (hT : T ≤ g.lcrds.length + s.cti) (e : EnvStep s g i)
    (hf : s.fsm = .sendLbad) (hz : rankC T ⟨s, g, n⟩ ≠ 0) :
    rankC T (World.next c ⟨s, g, n⟩ i) + (if i.srcReady then 1 else 0) ≤
      rankC T ⟨s, g, n⟩ + (if i.retryRequired then 4 else 0) := by
  rank_pre
  rank_go hf hf hf

theorem rankC_step_sendLrty (hI : Inv c s g) (hT : T ≤ g.lcrds.length + s.cti) (e : EnvStep s g i)
    (hf : s.fsm = .sendLrty) (hz : rankC T ⟨s, g, n⟩ ≠ 0) :
    rankC T (World.next c ⟨s, g, n⟩ i) + (if i.srcReady then 1 else 0) ≤
      rankC T ⟨s, g, n⟩ + (if i.retryRequired then 4 else 0) := by
  rank_pre
  rank_go hf hf hf

theorem rankC_step_sendKeepalive (hI : Inv c s g) (hT : T ≤ g.lcrds.length + s.cti) (e : EnvStep s g i)
    (hf : s.fsm = .sendKeepalive) (hz : rankC T ⟨s, g, n⟩ ≠ 0) :
    rankC T (World.next c ⟨s, g, n⟩ i) + (if i.srcReady then 1 else 0) ≤
      rankC T ⟨s, g, n⟩ + (if i.retryRequired then 4 else 0) := by
  rank_pre
  rank_go hf hf hf

theorem rankC_step_sendLxu (hI : Inv c s g) (hT : T ≤ g.lcrds.length + s.cti) (e : EnvStep s g i)
    (hf : s.fsm = .sendLxu) (hz : rankC T ⟨s, g, n⟩ ≠ 0) :
    rankC T (World.next c ⟨s, g, n⟩ i) + (if i.srcReady then 1 else 0) ≤
      rankC T ⟨s, g, n⟩ + (if i.retryRequired then 4 else 0) := by
  rank_pre
  rank_go hf hf hf

theorem rankC_zero {T : Nat} {x : World} (hz : rankC T x = 0) : T ≤ x.g.lcrds.length := by
  simp only [rankC] at hz
  split at hz
  · omega
  · exfalso; revert hz; cases x.s.fsm <;> cases x.s.gen <;> simp [ph]

/-- **One cycle, LCRD rank.** -/
theorem rankC_step (c : Config) (T : Nat) :
    StepOk (World.next c) WOk (InvC c T) (rankC T) rdyW badC 4 := by
  intro x i hI e
  obtain ⟨s, g, n⟩ := x
  obtain ⟨hI, hT⟩ := hI
  simp only [WOk] at hI hT e
  have F := facts_of (c := c) hI e
  refine ⟨⟨inv_step hI e, ?_⟩, ?_, ?_⟩
  · have h1 := F.cti; have h2 := F.lc; have h3 := F.pL
    simp only [World.next]; omega
  · intro hz
    have h2 := F.lc
    have := rankC_zero hz
    simp only [rankC, World.next, h2]
    rw [if_pos (by simp only at this; omega)]
  · intro hz
    simp only [rdyW, badC]
    cases hf : s.fsm
    · by_cases h0 : s.acks = 0
      · exact rankC_step_dispatch0 hI hT e hf h0 hz
      · exact rankC_step_dispatchN hI hT e hf h0 hz
    · by_cases h0 : s.acks = 1
      · exact rankC_step_sendAcks1 hI hT e hf h0 hz
      · exact rankC_step_sendAcksN hI hT e hf h0 hz
    · by_cases h0 : s.cti = 1
      · exact rankC_step_issueCredits1 hI hT e hf h0 hz
      · exact rankC_step_issueCreditsN hI hT e hf h0 hz
    · exact rankC_step_sendLbad hI hT e hf hz
    · exact rankC_step_sendLrty hI hT e hf hz
    · exact rankC_step_sendKeepalive hI hT e hf hz
    · exact rankC_step_sendLxu hI hT e hf hz

theorem rankC_le (c : Config) (T : Nat) (x : World) (h : InvC c T x) : rankC T x ≤ 52 := by
  obtain ⟨s, g, n⟩ := x
  obtain ⟨hI, hT⟩ := h
  simp only at hI hT
  have h1 := hI.hbf; have h2 := hI.hcti; have h3 := hI.hcred; have h4 := hI.hacks4
  have hlr : lr s ≤ 4 := by simp only [lr]; split <;> omega
  simp only [rankC]
  split
  · omega
  · cases s.fsm <;> cases s.gen <;> simp only [ph] <;> omega

end

/-- **LCRD liveness, from any reachable state.**  If `T ≤ LCRDs sent + credits_to_issue` (the `T`-th LCRD is
owed) then it has completed on the wire once the history contains `52 + 4·(retry requests)` ready cycles. -/
theorem lcrd_live (c : Config) (T : Nat) (s : State) (g : Ghost) (h : Inv c s g)
    (hT : T ≤ g.lcrds.length + s.cti) (is : List In) (ho : EnvOk c s g is)
    (hn : 52 + 4 * countIn (·.retryRequired) is ≤ readyCount is) :
    T ≤ (runG c s g is).2.lcrds.length := by
  have hx : InvC c T ⟨s, g, Cnt.init⟩ := ⟨h, hT⟩
  have hle := rankC_le c T _ hx
  have hz := converge (World.next c) WOk (InvC c T) (rankC T) rdyW badC 4 (rankC_step c T) is ⟨s, g, Cnt.init⟩ hx
    ((okW_iff c is _).2 ho) (by
      rw [cnt_rdyW]
      have : cntS (World.next c) badC ⟨s, g, Cnt.init⟩ is = countIn (·.retryRequired) is :=
        cntS_in c (·.retryRequired) is _
      rw [this]; omega)
  have := rankC_zero hz
  have hsg := runW_sg c is ⟨s, g, Cnt.init⟩
  have : (runW c ⟨s, g, Cnt.init⟩ is).g = (runG c s g is).2 := by rw [← hsg]
  rw [← this]; assumption

end LunaVerif.HeaderRx
