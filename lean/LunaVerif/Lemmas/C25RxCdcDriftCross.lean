import LunaVerif.Lemmas.C25RxCdcDriftFifo
import LunaVerif.Lemmas.C25RxErrSeen
/-!
# C25: the two FIFOs side by side, segment by segment (clock drift)

`Seg φ ip P F E evs ip'`: over the cycle-level write streams `P` (payload FIFO), `F` (flags FIFO) and the per-cycle
`o_receive_error` values `E`, from ANY pair of empty, settled FIFOs (any pointers, memory contents, position of the `usb`
clock) with `o_pkt_in_progress = ip`: both FIFOs end empty and settled, the 12 MHz side sees exactly the events `evs`, and
`o_pkt_in_progress` ends as `ip'`.  Segments compose (`seg_append`).  The four kinds of segment of a packet:
`seg_idle` (nothing written, not in progress), `seg_start` (the start flag and ≥ 16 cycles), `seg_bytes` (a spaced block
stream of payload writes while in progress), `seg_last` (a payload write, then -- any number of cycles later -- the end
flag, ≥ 16 cycles: the byte is seen no later than the flag because the position of the ready sample is monotone in the
write cycle, `fifo_window` / `edges_mono`).
-/
set_option linter.unusedSimpArgs false
namespace LunaVerif.FsRxCdc

/-- per-cycle values sampled at the `usb` edges -/
def smpB (φ : Nat) : Nat → List Bool → List Bool
  | _, [] => []
  | c, x :: xs => (if c == φ then [x] else []) ++ smpB φ ((c + 1) % 4) xs

theorem smpB_length (φ : Nat) (xs : List Bool) : ∀ c, (smpB φ c xs).length = edges φ c xs.length := by
  induction xs with
  | nil => intro c; rfl
  | cons x xs ih => intro c; simp only [smpB, List.length_append, ih, List.length_cons, edges]; split <;> simp

theorem smpB_append (φ : Nat) (x y : List Bool) : ∀ c, c < 4 →
    smpB φ c (x ++ y) = smpB φ c x ++ smpB φ ((c + x.length) % 4) y := by
  induction x with
  | nil => intro c hc; simp [smpB, Nat.mod_eq_of_lt hc]
  | cons o os ih =>
    intro c hc
    have hcc : ((c + 1) % 4 + os.length) % 4 = (c + (os.length + 1)) % 4 := by omega
    simp only [List.cons_append, smpB, ih _ (Nat.mod_lt _ (by omega : 4 > 0)), List.length_cons, hcc,
      List.append_assoc]

theorem smpB_false (φ : Nat) (n : Nat) : ∀ c, smpB φ c (List.replicate n false) = List.replicate (edges φ c n) false := by
  induction n with
  | zero => intro c; rfl
  | succ n ih =>
    intro c
    rw [List.replicate_succ]
    simp only [smpB, ih, edges]
    split <;> simp [List.replicate_succ, Nat.add_comm 1]

theorem errSamples_smpB (φ : Nat) (os : List FsRx.Out) : ∀ c, errSamples φ c os = smpB φ c (os.map (·.rxErr)) := by
  induction os with
  | nil => intro c; rfl
  | cons o os ih => intro c; simp only [errSamples, List.map, smpB, ih]

theorem runFifo_length (φ : Nat) (W : List (Option Nat)) : ∀ c s, (runFifo φ c s W).2.length = edges φ c W.length := by
  induction W with
  | nil => intro c s; rfl
  | cons w ws ih => intro c s; simp only [runFifo, List.length_append, ih, List.length_cons, edges]; split <;> simp

/-! ### small facts about `usbEvN` / `usbEvO` -/

theorem usbEvN_nones (j : Nat) (ip : Bool) (ps fs : List (Option Nat)) :
    usbEvN ip (List.replicate j none ++ ps) (List.replicate j none ++ fs) = usbEvN ip ps fs := by
  induction j with
  | zero => rfl
  | succ j ih =>
    rw [List.replicate_succ]
    simp only [List.cons_append, usbEvN, oStart, oEnd, ipNextO]
    simpa using ih

theorem usbEvN_nil_right (ip : Bool) (ps : List (Option Nat)) : usbEvN ip ps [] = [] := by
  cases ps <;> simp [usbEvN]

/-- no flags: the bytes, if in progress -/
theorem usbEvN_noflags (ps : List (Option Nat)) : ∀ n, ps.length = n →
    usbEvN true ps (List.replicate n none) = (writesOf ps).map EvU.byte := by
  induction ps with
  | nil => intro n h; subst h; rfl
  | cons p ps ih =>
    intro n h
    obtain ⟨n', rfl⟩ : ∃ n', n = n' + 1 := ⟨n - 1, by simp at h; omega⟩
    rw [List.replicate_succ]
    simp only [usbEvN, oStart, oEnd, ipNextO, Bool.false_eq_true, if_false, List.nil_append, List.append_nil]
    rw [ih n' (by simpa using h)]
    cases p <;> simp [writesOf]

theorem usbEvN_idle (n m : Nat) : usbEvN false (List.replicate n none) (List.replicate m none) = [] := by
  induction n generalizing m with
  | zero => simp [usbEvN]
  | succ n ih =>
    cases m with
    | zero => simp [List.replicate_succ, usbEvN]
    | succ m =>
      rw [List.replicate_succ, List.replicate_succ]
      simp only [usbEvN, oStart, oEnd, ipNextO]
      simpa using ih m

theorem usbEvN_true_idle (n m : Nat) : usbEvN true (List.replicate n none) (List.replicate m none) = [] := by
  induction n generalizing m with
  | zero => simp [usbEvN]
  | succ n ih =>
    cases m with
    | zero => simp [List.replicate_succ, usbEvN]
    | succ m =>
      rw [List.replicate_succ, List.replicate_succ]
      simp only [usbEvN, oStart, oEnd, ipNextO]
      simpa using ih m

theorem usbEvO_false_idle (n : Nat) : ∀ (es : List Bool),
    usbEvO false (List.replicate n none) (List.replicate n none) es = [] := by
  induction n with
  | zero => intro es; simp [usbEvO]
  | succ n ih =>
    intro es
    cases es with
    | nil => simp [List.replicate_succ, usbEvO]
    | cons e es =>
      rw [List.replicate_succ]
      simp only [usbEvO, oStart, oEnd, ipNextO]
      simpa using ih es

theorem ipFinalO_nones (n : Nat) (ip : Bool) : ipFinalO ip (List.replicate n none) = ip := by
  have := ipFinalO_nones_left n ip []
  simpa [ipFinalO] using this

theorem all_false_replicate (n : Nat) : ∀ e ∈ List.replicate n false, e = false := by
  intro e he; exact (List.mem_replicate.mp he).2

/-! ### segments -/

def Seg (φ : Nat) (ip : Bool) (P F : List (Option Nat)) (E : List Bool) (evs : List EvU) (ip' : Bool) : Prop :=
  F.length = P.length ∧ E.length = P.length ∧
  ∀ (c pp pf : Nat) (memp memf : List Nat), c < 4 → pp < 8 → pf < 8 → memp.length = 4 → memf.length = 4 →
    ∃ pp' memp' pf' memf', pp' < 8 ∧ pf' < 8 ∧ memp'.length = 4 ∧ memf'.length = 4 ∧
      (runFifo φ c (settled pp memp) P).1 = settled pp' memp' ∧
      (runFifo φ c (settled pf memf) F).1 = settled pf' memf' ∧
      usbEvO ip ((runFifo φ c (settled pp memp) P).2.map rdyData) ((runFifo φ c (settled pf memf) F).2.map rdyData)
        (smpB φ c E) = evs ∧
      ipFinalO ip ((runFifo φ c (settled pf memf) F).2.map rdyData) = ip'

theorem seg_append (φ : Nat) (ip ip1 ip2 : Bool) (P1 F1 P2 F2 : List (Option Nat)) (E1 E2 : List Bool)
    (ev1 ev2 : List EvU) (h1 : Seg φ ip P1 F1 E1 ev1 ip1) (h2 : Seg φ ip1 P2 F2 E2 ev2 ip2) :
    Seg φ ip (P1 ++ P2) (F1 ++ F2) (E1 ++ E2) (ev1 ++ ev2) ip2 := by
  obtain ⟨a1, a2, a3⟩ := h1
  obtain ⟨b1, b2, b3⟩ := h2
  refine ⟨by simp [a1, b1], by simp [a2, b2], ?_⟩
  intro c pp pf memp memf hc hpp hpf hmp hmf
  obtain ⟨pp1, memp1, pf1, memf1, x1, x2, x3, x4, x5, x6, x7, x8⟩ := a3 c pp pf memp memf hc hpp hpf hmp hmf
  obtain ⟨pp2, memp2, pf2, memf2, y1, y2, y3, y4, y5, y6, y7, y8⟩ :=
    b3 ((c + P1.length) % 4) pp1 pf1 memp1 memf1 (Nat.mod_lt _ (by omega)) x1 x2 x3 x4
  refine ⟨pp2, memp2, pf2, memf2, y1, y2, y3, y4, ?_, ?_, ?_, ?_⟩
  · rw [runFifo_append φ _ _ c _ hc, x5]; exact y5
  · rw [runFifo_append φ _ _ c _ hc, x6, a1]; exact y6
  · rw [runFifo_append φ P1 P2 c _ hc, runFifo_append φ F1 F2 c _ hc, x5, x6, a1, smpB_append φ _ _ c hc, a2]
    simp only [List.map_append]
    rw [usbEvO_append _ _ _ _ _ _ _ (by simp [runFifo_length, a1]) (by simp [runFifo_length, smpB_length, a2]),
      x7, x8, y7]
  · rw [runFifo_append φ _ _ c _ hc, x6, a1]
    simp only [List.map_append]
    have happ : ∀ (xs ys : List (Option Nat)) (i : Bool), ipFinalO i (xs ++ ys) = ipFinalO (ipFinalO i xs) ys := by
      intro xs
      induction xs with
      | nil => intro ys i; rfl
      | cons x xs ih => intro ys i; simp only [List.cons_append, ipFinalO, ih]
    rw [happ, x8, y8]

/-- nothing written, not in progress: nothing seen (whatever `o_receive_error` shows) -/
theorem seg_idle (φ : Nat) (hφ : φ < 4) (n : Nat) (E : List Bool) (hE : E.length = n) :
    Seg φ false (List.replicate n none) (List.replicate n none) E [] false := by
  refine ⟨by simp, by simp [hE], ?_⟩
  intro c pp pf memp memf hc hpp hpf hmp hmf
  obtain ⟨a1, a2⟩ := fifo_idle_run φ hφ pp hpp memp hmp n c hc
  obtain ⟨b1, b2⟩ := fifo_idle_run φ hφ pf hpf memf hmf n c hc
  refine ⟨pp, memp, pf, memf, hpp, hpf, hmp, hmf, a1, b1, ?_, ?_⟩
  · rw [a2, b2]; exact usbEvO_false_idle _ _
  · rw [b2]; exact ipFinalO_nones _ _

theorem edges_window_ge (φ : Nat) (hφ : φ < 4) (c : Nat) (hc : c < 4) (t K : Nat) (hK : 16 ≤ K) :
    edges φ c (t + 1) + 4 ≤ edges φ c (t + 1 + K) := by
  rw [edges_add φ (t + 1) K c hc]
  have h1 := edges_mono φ 16 K hK ((c + (t + 1)) % 4) (Nat.mod_lt _ (by omega))
  have h2 : edges φ ((c + (t + 1)) % 4) 16 = 4 := edges_blocks φ hφ 4 _ (Nat.mod_lt _ (by omega))
  omega

theorem replicate_split (a b : Nat) (h : a ≤ b) :
    List.replicate b (none : Option Nat) = List.replicate a none ++ List.replicate (b - a) none := by
  rw [List.replicate_append_replicate]; congr 1; omega

/-- the start flag among idle samples; a stale error may show before the flag is seen -/
theorem usbEvO_start_shape (N a y : Nat) (E0 : List Bool) (M : Nat) (hN : N = a + 1 + y) (hE : E0.length ≤ a)
    (hM : E0.length + M = N) :
    usbEvO false (List.replicate N none) (List.replicate a none ++ some 2 :: List.replicate y none)
      (E0 ++ List.replicate M false) = [.start] := by
  subst hN
  rw [replicate_split E0.length (a + 1 + y) (by omega), replicate_split E0.length a hE, List.append_assoc,
    usbEvO_strip E0.length E0 _ _ _ rfl, usbEvO_noerr _ _ _ _ (all_false_replicate _) (by simp; omega)]
  have h1 : a + 1 + y - E0.length = (a - E0.length) + (1 + y) := by omega
  rw [h1, ← List.replicate_append_replicate, usbEvN_nones, Nat.add_comm 1 y, List.replicate_succ, usbEvN_start,
    usbEvN_true_idle]

/-- a byte, then (in the same sample or later) the end flag, while in progress -/
theorem usbEvO_last_shape (a x b y d M : Nat) (hab : a ≤ b) (hl : a + x = b + y) (hM : M = a + 1 + x) :
    usbEvO true (List.replicate a none ++ some d :: List.replicate x none)
      (List.replicate b none ++ some 1 :: List.replicate y none) (List.replicate M false) = [.byte d, .fin] := by
  subst hM
  rw [usbEvO_noerr _ _ _ _ (all_false_replicate _) (by simp; omega), replicate_split a b hab, List.append_assoc,
    usbEvN_nones]
  have e1 : oStart (some 1) = false := by decide
  have e2 : oEnd (some 1) = true := by decide
  by_cases h : b = a
  · subst h
    have : x = y := by omega
    subst this
    simp only [Nat.sub_self, List.replicate_zero, List.nil_append, usbEvN, e1, e2, ipNextO, Bool.false_eq_true,
      if_false, if_true, List.nil_append, List.cons_append, usbEvN_idle]
  · obtain ⟨g, hg⟩ : ∃ g, b - a = g + 1 := ⟨b - a - 1, by omega⟩
    have hx : x = g + (1 + y) := by omega
    rw [hg, List.replicate_succ, hx, ← List.replicate_append_replicate]
    simp only [List.cons_append, usbEvN, oStart, oEnd, ipNextO, Bool.false_eq_true, if_false, if_true,
      List.nil_append, List.append_nil]
    rw [usbEvN_nones, Nat.add_comm 1 y, List.replicate_succ]
    simp only [usbEvN, e1, e2, ipNextO, Bool.false_eq_true, if_false, if_true, List.nil_append, List.cons_append,
      usbEvN_idle]

/-- the start flag and `K ≥ 16` cycles; `o_receive_error` may still show a stale error in the cycle of the write -/
theorem seg_start (φ : Nat) (hφ : φ < 4) (K : Nat) (hK : 16 ≤ K) (e : Bool) :
    Seg φ false (List.replicate (K + 1) none) (some 2 :: List.replicate K none) (e :: List.replicate K false)
      [.start] true := by
  refine ⟨by simp, by simp, ?_⟩
  intro c pp pf memp memf hc hpp hpf hmp hmf
  obtain ⟨a1, a2⟩ := fifo_idle_run φ hφ pp hpp memp hmp (K + 1) c hc
  obtain ⟨b1, b2⟩ := fifo_window pf c φ hpf hc hφ memf hmf 0 2 K hK
  have hw : window 0 2 K = some 2 :: List.replicate K none := by simp [window]
  rw [hw] at b1 b2
  refine ⟨pp, memp, (pf + 1) % 8, memf.set (pf % 4) 2, hpp, Nat.mod_lt _ (by omega), hmp, by simp [hmf], a1, b1, ?_, ?_⟩
  · rw [a2, b2]
    simp only [smpB, smpB_false]
    have hge := edges_window_ge φ hφ c hc 0 K hK
    have hK1 : edges φ c (K + 1) = edges φ c (0 + 1 + K) := by congr 1; omega
    have hsp := edges_add φ 1 K c hc
    have hE : edges φ c 1 = (if c == φ then 1 else 0) := by simp [edges]
    apply usbEvO_start_shape
    · rw [hK1]; omega
    · split <;> simp
    · rw [hK1, show 0 + 1 + K = 1 + K by omega, hsp, hE]; split <;> simp
  · rw [b2, ipFinalO_nones_left]
    have h2 : ipNextO false (some 2) = true := by decide
    simp only [ipFinalO, h2, ipFinalO_nones]

/-- a spaced block stream of payload writes while in progress, no flags, no error: the bytes, each once, in order -/
theorem seg_bytes (φ : Nat) (hφ : φ < 4) (W : List (Nat × Option Nat)) (hl : ∀ x ∈ W, 3 ≤ x.1)
    (hs : SpacedV W = true) :
    Seg φ true (flatV 2 W) (List.replicate (flatV 2 W).length none) (List.replicate (flatV 2 W).length false)
      ((writesOf (W.map (·.2))).map EvU.byte) true := by
  refine ⟨by simp, by simp, ?_⟩
  intro c pp pf memp memf hc hpp hpf hmp hmf
  obtain ⟨⟨pp', memp', hpp', hmp', a1⟩, a2⟩ := fifo_vstream φ 2 hφ (Or.inr rfl) W hl hs pp memp c hpp hmp hc
  obtain ⟨b1, b2⟩ := fifo_idle_run φ hφ pf hpf memf hmf (flatV 2 W).length c hc
  refine ⟨pp', memp', pf, memf, hpp', hpf, hmp', hmf, a1, b1, ?_, ?_⟩
  · rw [b2, smpB_false, usbEvO_noerr _ _ _ _ (all_false_replicate _) (by simp [runFifo_length]),
      usbEvN_noflags _ _ (by simp [runFifo_length]), a2]
  · rw [b2]; exact ipFinalO_nones _ _

/-- nothing written while in progress, no error: nothing seen -/
theorem seg_quiet (φ : Nat) (hφ : φ < 4) (n : Nat) :
    Seg φ true (List.replicate n none) (List.replicate n none) (List.replicate n false) [] true := by
  refine ⟨by simp, by simp, ?_⟩
  intro c pp pf memp memf hc hpp hpf hmp hmf
  obtain ⟨a1, a2⟩ := fifo_idle_run φ hφ pp hpp memp hmp n c hc
  obtain ⟨b1, b2⟩ := fifo_idle_run φ hφ pf hpf memf hmf n c hc
  refine ⟨pp, memp, pf, memf, hpp, hpf, hmp, hmf, a1, b1, ?_, ?_⟩
  · rw [a2, b2, smpB_false, usbEvO_noerr _ _ _ _ (all_false_replicate _) (by simp), usbEvN_true_idle]
  · rw [b2]; exact ipFinalO_nones _ _

/-- **the last byte and the end flag**: a payload write in cycle `tp`, the end flag in cycle `tf ≥ tp`, then `K2 ≥ 16`
cycles: the byte is seen (while still in progress) no later than the flag, both once -/
theorem seg_last (φ : Nat) (hφ : φ < 4) (tp d K1 tf K2 : Nat) (ht : tp ≤ tf) (hK2 : 16 ≤ K2)
    (hL : tp + 1 + K1 = tf + 1 + K2) :
    Seg φ true (window tp d K1) (window tf 1 K2) (List.replicate (tp + 1 + K1) false) [.byte d, .fin] false := by
  refine ⟨by simp [window_length, hL], by simp [window_length], ?_⟩
  intro c pp pf memp memf hc hpp hpf hmp hmf
  obtain ⟨a1, a2⟩ := fifo_window pp c φ hpp hc hφ memp hmp tp d K1 (by omega)
  obtain ⟨b1, b2⟩ := fifo_window pf c φ hpf hc hφ memf hmf tf 1 K2 hK2
  refine ⟨(pp + 1) % 8, memp.set (pp % 4) d, (pf + 1) % 8, memf.set (pf % 4) 1, Nat.mod_lt _ (by omega),
    Nat.mod_lt _ (by omega), by simp [hmp], by simp [hmf], a1, b1, ?_, ?_⟩
  · rw [a2, b2, smpB_false]
    have g1 := edges_window_ge φ hφ c hc tp K1 (by omega)
    have g2 := edges_window_ge φ hφ c hc tf K2 hK2
    have g3 := edges_mono φ (tp + 1) (tf + 1) (by omega) c hc
    rw [hL] at g1 ⊢
    apply usbEvO_last_shape <;> omega
  · rw [b2, ipFinalO_nones_left]
    have h2 : ipNextO true (some 1) = false := by decide
    simp only [ipFinalO, h2, ipFinalO_nones]

/-- the end flag alone (no payload write in flight) while in progress -/
theorem seg_fin (φ : Nat) (hφ : φ < 4) (tf K2 : Nat) (hK2 : 16 ≤ K2) :
    Seg φ true (List.replicate (tf + 1 + K2) none) (window tf 1 K2) (List.replicate (tf + 1 + K2) false) [.fin] false := by
  refine ⟨by simp [window_length], by simp, ?_⟩
  intro c pp pf memp memf hc hpp hpf hmp hmf
  obtain ⟨a1, a2⟩ := fifo_idle_run φ hφ pp hpp memp hmp (tf + 1 + K2) c hc
  obtain ⟨b1, b2⟩ := fifo_window pf c φ hpf hc hφ memf hmf tf 1 K2 hK2
  refine ⟨pp, memp, (pf + 1) % 8, memf.set (pf % 4) 1, hpp, Nat.mod_lt _ (by omega), hmp, by simp [hmf], a1, b1, ?_, ?_⟩
  · rw [a2, b2, smpB_false, usbEvO_noerr _ _ _ _ (all_false_replicate _) (by simp)]
    have g2 := edges_window_ge φ hφ c hc tf K2 hK2
    generalize edges φ c (tf + 1 + K2) = N at *
    generalize edges φ c (tf + 1) = A at *
    have hN : N = (A + 3) + (1 + (N - (A + 4))) := by omega
    have e1 : oStart (some 1) = false := by decide
    have e2 : oEnd (some 1) = true := by decide
    rw [hN, ← List.replicate_append_replicate, usbEvN_nones, Nat.add_comm 1, List.replicate_succ]
    have : A + 3 + (N - (A + 4) + 1) - (A + 4) = N - (A + 4) := by omega
    rw [this]
    simp only [usbEvN, e1, e2, ipNextO, Bool.false_eq_true, if_false, if_true, List.nil_append, List.cons_append,
      usbEvN_idle]
  · rw [b2, ipFinalO_nones_left]
    have h2 : ipNextO true (some 1) = false := by decide
    simp only [ipFinalO, h2, ipFinalO_nones]

end LunaVerif.FsRxCdc
