import LunaVerif.Lemmas.C12SigRefine
import LunaVerif.Props.C13Foreign
/-!
# C12 / C14 — `cycle_refines_event` for the stream OUT endpoint (`USBStreamOutEndpoint`)

Cycle level: `StreamOutEndpoint.step` (Model/Usb2/StreamOutEndpoint.lean, C13's model: boundary detector +
transactional FIFO + ACK/NAK/toggle glue).  Event level: the `.sout` branch of `EpDev.epStep`.

The relation between the two state spaces is C13's simulation `Sim c p s w del` (Props/C13Stream.lean: detector by
acceptor phase, registers, FIFO as C18's commit/rollback queue, write-side invariant) with the host-side observer's
account `w.a` = the event-level (toggle, `transfer_active`) and the accepted entries `w.acc` = what the consumer
already has followed by the event-level FIFO (decoded), plus `committed_read_pointer = current_read_pointer` (the
consumer's last read is finalised, so `space_available` counts the committed entries only).  Every cycle of an
expansion is accepted by C13's `LegalHost` acceptor (`Phase.step`), so `sim_step` carries the simulation through it;
what is added here is the bookkeeping of the event-level state (`rel0_step`) and the decoding of the outputs.

The expansion of an event (`expand`) follows Lemmas/C12SigRefine.lean; in addition

  * a token leaves the acceptor in phase `tok` (`armed`); a PING for the endpoint is answered in the tokenizer's
    `ready_for_response` cycle from `space_available`;
  * a data event is ANY cycle sequence `seg ++ resp :: tail` that C13's acceptor takes from `tok t` back to `idle`
    and that carries the event's packet (`segOk`: PID toggle bit as `USBDevice` wires `rx_pid_toggle`, payload, CRC
    verdict; one response request `resp` for a valid packet, none for a corrupted one; any byte spacing, any response
    delay).  The ACK comes from C13's `no_loss_run` (the packet fits, so no byte meets a full FIFO) and
    `nak_iff_cannot_take_partial`, from an arbitrary related state;
  * a `consume n` event is `n` cycles with `stream.ready` (any idle cycles in between) and one more cycle, which
    finalises the last read; the consumer reads between transactions (DESIGN appendix D).

The bus observation (`cycWires`) decodes the endpoint's outputs: ACK / NAK requests and the consumer's transfers
`(payload, first, last)`.

  * a data packet that follows a token for ANOTHER device (no `new_token`, the token detector clears its PID
    register, the acceptor is in `idle`) moves nothing but the boundary detector (`ref_data_unarmed`).

Limits (stated as hypotheses `EvOk` / `histOk`): a data packet while the registers name this endpoint follows a token
accepted by this device and fits into the FIFO (the event level's `legalEvent`).  The packets of transactions to OTHER
endpoints or devices may have ANY length (C13's acceptor bounds a packet by `max_packet_size` only when the token
registers name the endpoint, `lenOk`): the 8-byte SETUP packets of control transfers next to a 4-byte OUT endpoint and
the packets of an endpoint with a larger `max_packet_size` are inside the hypotheses (`exHistory4` below).  `segOkStrict`
is the former hypothesis (every bus packet bounded by this endpoint's `max_packet_size`); it implies `segOk`
(`segOkStrict_imp`).
-/
set_option linter.unusedSimpArgs false
set_option linter.unusedVariables false

namespace LunaVerif.C12Out
open LunaVerif LunaVerif.StreamOutEndpoint
open LunaVerif.Device (HostEvent Resp PID_OUT PID_PING PID_ACK PID_NAK PID_DATA0 PID_DATA1 DevConfig DevState core)
open LunaVerif.EpDev (EpCfg OutState Shared EpOut epStep haltHits outData outPing outEntries outEntry pidToggleBit
  sharedOf)
open LunaVerif.C12Sig (Tk tkOf)

/-! ### Event level: the `.sout` branch of `epStep` as a function on `OutState` -/

def outPre (ec : EpCfg) (sh : Shared) (e : OutState) : OutState :=
  if haltHits ec false sh then { e with toggle := false } else e

def outEv (ec : EpCfg) (sh : Shared) (e : OutState) (ev : HostEvent) : OutState × EpOut :=
  let s := outPre ec sh e
  match ev with
  | .token _ _ _ =>
    if sh.newTok ∧ sh.tokEp = ec.num ∧ sh.tokPid = PID_PING then (s, { resp := outPing ec s }) else (s, {})
  | .data pid p crcOk =>
    if sh.tokEp = ec.num ∧ sh.tokPid = PID_OUT then
      ((outData ec.size s pid p crcOk).1, { resp := (outData ec.size s pid p crcOk).2 })
    else (s, {})
  | .consume ep n => if ep = ec.num then ({ s with fifo := s.fifo.drop n }, { app := s.fifo.take n }) else (s, {})
  | _ => (s, {})

theorem epStep_sout (ec : EpCfg) (sh : Shared) (e : OutState) (ev : HostEvent) :
    epStep ec sh (.sout e) ev = (.sout (outEv ec sh e ev).1, (outEv ec sh e ev).2) := by
  cases ev <;> simp only [epStep, outEv, outPre] <;> (try split) <;> rfl

/-! ### The cycle-level endpoint of an event-level configuration, the token registers as a `Tok` -/

def cfgOf (ec : EpCfg) : Config := ⟨ec.num, ec.size, ec.depth⟩

def tokOf (tk : Tk) : Tok := ⟨tk.ep, tk.pid == PID_OUT, tk.pid == PID_PING⟩

theorem tokOf_wf (tk : Tk) : (tokOf tk).wf = true := by
  simp only [Tok.wf, tokOf]
  by_cases h : tk.pid = PID_OUT
  · simp [h, PID_OUT, PID_PING]
  · simp [h]

theorem tokOf_targets (ec : EpCfg) (tk : Tk) :
    (tokOf tk).targets (cfgOf ec) = true ↔ (tk.ep = ec.num ∧ tk.pid = PID_OUT) := by
  simp [Tok.targets, tokOf, cfgOf]

/-- the host-side observer's bookkeeping (C13's `Acct`) is the event-level toggle / `transfer_active` -/
def acctOf (e : OutState) : Acct := ⟨e.toggle, e.active⟩

/-! ### Relation between the two state spaces

C13's simulation `Sim c p s w del` (detector by phase, registers, FIFO as a commit/rollback queue, write-side
invariant) with the observer's account `w.a` = the event-level (toggle, active) and the accepted entries `w.acc` =
what the consumer already has (`del`) followed by the event-level FIFO, decoded. -/

def Rel0 (c : Config) (e : OutState) (s : State) (p : Phase) : Prop :=
  ∃ w del, Sim c p s w del ∧ w.a = acctOf e ∧ w.acc = del ++ e.fifo.map dec

/-- … and the consumer's last read is finalised (`committed_read_pointer` has caught up: the FIFO's
`space_available` counts the committed entries only). -/
def Rel (c : Config) (e : OutState) (s : State) (p : Phase) : Prop :=
  Rel0 c e s p ∧ s.fifo.rr = s.fifo.cr

theorem rel_init (c : Config) : Rel c {} init .idle :=
  ⟨⟨_, _, sim_init c, rfl, rfl⟩, rfl⟩

/-- one accepted cycle, whatever it is: the relation is kept if the event-level state is updated as the observer's
account and the consumer's transfers say -/
theorem rel0_step {c : Config} (hmps : 1 ≤ c.mps) {e e' : OutState} {s : State} {p p' : Phase} {i : In}
    (h : Rel0 c e s p) (hs : p.step c i = some p')
    (ha : ((acctOf e).step c p i (step c s i).2.ack).1 = acctOf e')
    (hf : transfers [i] [(step c s i).2] ++ e'.fifo.map dec
            = e.fifo.map dec ++ ((acctOf e).step c p i (step c s i).2.ack).2) :
    Rel0 c e' (step c s i).1 p' := by
  obtain ⟨w, del, hsim, hwa, hacc⟩ := h
  have h1 := sim_step hmps hsim hs
  have hack : (hsG c s.det.out (TxnFifo.full c.depth s.fifo) (TxnFifo.space c.depth s.fifo) w.r i).1
      = (step c s i).2.ack := by
    rw [← hsim.regs, ← hs_eq]; rfl
  refine ⟨_, _, h1, ?_, ?_⟩
  · simp only [WState.next, hack, hwa]; exact ha
  · simp only [WState.next, hack, hwa, hacc, List.append_assoc]
    rw [hf]

/-- a transaction that has seen its token can be forgotten (the acceptor's `idle` asks for less) -/
theorem rel0_weaken {c : Config} {e : OutState} {s : State} {t : Tok} (h : Rel0 c e s (.tok t)) :
    Rel0 c e s .idle := by
  obtain ⟨w, del, ⟨hdet, hregs, hfifo, hinv⟩, hwa, hacc⟩ := h
  refine ⟨w, del, ⟨?_, hregs, hfifo, ?_⟩, hwa, hacc⟩
  · exact hdet
  · exact ⟨hinv.1, hinv.2.1, hinv.2.2.1, hinv.2.2.2.1, hinv.2.2.2.2.1⟩

/-- between transactions: nothing uncommitted, and the committed unread entries are the event-level FIFO -/
theorem rel0_fifo {c : Config} {e : OutState} {s : State} {p : Phase} (h : Rel0 c e s p) (hq : p.quiet = true) :
    ∃ q, TxnFifo.Rel c.depth s.fifo q ∧ q.W = [] ∧ q.C.map dec = e.fifo.map dec := by
  obtain ⟨w, del, ⟨_, _, ⟨q, hrel, hW, hdel⟩, hinv⟩, _, hacc⟩ := h
  refine ⟨q, hrel, ?_, ?_⟩
  · cases p <;> simp only [Phase.quiet] at hq <;> try (exact absurd hq (by decide))
    · rw [hW]; exact hinv.2.1
    · rw [hW]; exact hinv.2.1
  · have hcom : w.com.map dec = w.acc := by
      cases p <;> simp only [Phase.quiet] at hq <;> try (exact absurd hq (by decide))
      · exact hinv.2.2.2.2
      · exact hinv.2.2.2.2.1
    rw [hcom, hacc] at hdel
    exact List.append_cancel_left hdel

theorem rel0_regs {c : Config} {e : OutState} {s : State} {p : Phase} (h : Rel0 c e s p) :
    s.expectedToggle = e.toggle := by
  obtain ⟨w, del, ⟨_, hregs, _, hinv⟩, hwa, _⟩ := h
  have h1 : w.r.expectedToggle = w.a.toggle := hinv.1
  rw [← hregs, hwa] at h1
  exact h1

theorem rel0_tok_overflow {c : Config} {e : OutState} {s : State} {t : Tok} (h : Rel0 c e s (.tok t)) :
    s.overflow = false := by
  obtain ⟨w, del, ⟨_, hregs, _, hinv⟩, _, _⟩ := h
  have h1 : w.r.overflow = false := hinv.2.2.2.2.2.1
  rw [← hregs] at h1
  exact h1

/-- `space_available` between transactions, from the event-level FIFO -/
theorem rel_space_eq {c : Config} {e : OutState} {s : State} {p : Phase} (h : Rel c e s p) (hq : p.quiet = true) :
    TxnFifo.space c.depth s.fifo = c.depth - e.fifo.length ∧ used c s = e.fifo.length := by
  obtain ⟨q, hrel, hW, hC⟩ := rel0_fifo h.1 hq
  have hlen : q.C.length = e.fifo.length := by
    have := congrArg List.length hC
    simpa using this
  have hR : q.R.length = 0 := by
    have h1 := hrel.hrr
    rw [h.2] at h1
    have h2 : TxnFifo.adv c.depth s.fifo.cr 0 = s.fifo.cr := TxnFifo.adv_zero hrel.hcr
    have hle := hrel.hlen
    simp only [TxnFifo.Queue.held] at hle
    exact TxnFifo.adv_inj hrel.hcr (by omega) (by omega) (h1.symm.trans h2.symm)
  have hheld : q.held = e.fifo.length := by
    simp only [TxnFifo.Queue.held, hR, hW, hlen, List.length_nil]; omega
  exact ⟨by rw [TxnFifo.rel_space hrel, hheld], by rw [used_eq_held hrel, hheld]⟩

/-! ### Observing a cycle sequence -/

inductive Wire
  | ack                      -- `handshakes_out.ack`
  | nak                      -- `handshakes_out.nak`
  | xfer (x : Entry)         -- a consumer transfer `stream.valid ∧ stream.ready`: (payload, first, last)
deriving DecidableEq, Repr

def wire1 (i : In) (o : Out) : List Wire :=
  (if o.ack then [Wire.ack] else []) ++ (if o.nak then [Wire.nak] else []) ++ (transfers [i] [o]).map Wire.xfer

def cycWires (c : Config) : State → List In → List Wire
  | _, [] => []
  | s, i :: is => wire1 i (step c s i).2 ++ cycWires c (step c s i).1 is

theorem cycWires_append (c : Config) (s : State) (a b : List In) :
    cycWires c s (a ++ b) = cycWires c s a ++ cycWires c (runState c s a) b := by
  induction a generalizing s with
  | nil => rfl
  | cons i is ih => simp [cycWires, runState, ih]

/-- What the event-level outputs stand for: the handshake request, and the FIFO entries handed to the consumer
(decoded: payload, first, last). -/
def wiresOf (o : EpOut) : List Wire :=
  (match o.resp with
   | .hs pid => if pid = PID_ACK then [Wire.ack] else if pid = PID_NAK then [Wire.nak] else []
   | _ => []) ++ o.app.map (fun x => Wire.xfer (dec x))

/-- Running the cycles `is` from any cycle-level state related to `e` in phase `p` ends in a state related to `e'`
in phase `p'`, and the endpoint's outputs decode to `ws`. -/
def Ref (c : Config) (p p' : Phase) (e e' : OutState) (is : List In) (ws : List Wire) : Prop :=
  ∀ s, Rel c e s p → Rel c e' (runState c s is) p' ∧ cycWires c s is = ws

theorem Ref.nil {c : Config} {p : Phase} {e : OutState} : Ref c p p e e [] [] := fun s h => ⟨h, rfl⟩

theorem Ref.append {c : Config} {p p1 p2 : Phase} {e e1 e2 : OutState} {a b : List In} {w1 w2 : List Wire}
    (h1 : Ref c p p1 e e1 a w1) (h2 : Ref c p1 p2 e1 e2 b w2) : Ref c p p2 e e2 (a ++ b) (w1 ++ w2) := by
  intro s hr
  obtain ⟨a1, a2⟩ := h1 s hr
  obtain ⟨b1, b2⟩ := h2 _ a1
  exact ⟨by rw [runState_append]; exact b1, by rw [cycWires_append, a2, b2]⟩

theorem Ref.single {c : Config} {p p' : Phase} {e e' : OutState} {i : In} {ws : List Wire}
    (h : ∀ s, Rel c e s p → Rel c e' (step c s i).1 p' ∧ wire1 i (step c s i).2 = ws) : Ref c p p' e e' [i] ws := by
  intro s hr
  obtain ⟨a, b⟩ := h s hr
  exact ⟨a, by simp [cycWires, b]⟩

theorem Ref.wires_eq {c : Config} {p p' : Phase} {e e' : OutState} {is : List In} {w w' : List Wire}
    (h : Ref c p p' e e' is w) (hw : w = w') : Ref c p p' e e' is w' := hw ▸ h

theorem Ref.mono_cycles {c : Config} {p p' : Phase} {e e' : OutState} {is is' : List In} {w : List Wire}
    (h : Ref c p p' e e' is w) (hi : is = is') : Ref c p p' e e' is' w := hi ▸ h

theorem Ref.weaken {c : Config} {t : Tok} {p' : Phase} {e e' : OutState} {is : List In} {w : List Wire}
    (h : Ref c .idle p' e e' is w) : Ref c (.tok t) p' e e' is w :=
  fun s hr => h s ⟨rel0_weaken hr.1, hr.2⟩

/-! ### One cycle -/

/-- a cycle in which the consumer does not read finalises the previous read -/
theorem rrcr_step (c : Config) (s : State) (i : In) (h : i.ready = false) :
    (step c s i).1.fifo.rr = (step c s i).1.fifo.cr := by
  simp [step, TxnFifo.step, fifoIn, h]

theorem transfers_not_ready (i : In) (o : Out) (h : i.ready = false) : transfers [i] [o] = [] := by
  simp [transfers, h]

/-- the halt-clear strobe at event level -/
def clr (b : Bool) (e : OutState) : OutState := if b then { e with toggle := false } else e

/-- (U) a cycle that answers no packet addressed to the endpoint and in which the consumer does not read: the
event-level state changes by the halt-clear strobe only -/
theorem unanswered_step {c : Config} (hmps : 1 ≤ c.mps) {e : OutState} {s : State} {p p' : Phase} {i : In}
    (h : Rel0 c e s p) (hs : p.step c i = some p') (hu : p.answered c i = none) (hr : i.ready = false) :
    Rel c (clr i.clearHalt e) (step c s i).1 p' := by
  refine ⟨rel0_step hmps h hs ?_ ?_, rrcr_step c s i hr⟩
  · simp only [Acct.step, hu, acctOf, clr]
    cases i.clearHalt <;> rfl
  · simp only [Acct.step, hu, transfers_not_ready i _ hr, List.nil_append, List.append_nil, clr]
    cases i.clearHalt <;> rfl

theorem answered_none_of_rxReady {c : Config} {p : Phase} {i : In} (h : i.rxReady = false) :
    p.answered c i = none := by
  cases p <;> simp [Phase.answered, h]

/-- no response request answered, no PING: the handshake lines are low -/
theorem hs_low {c : Config} {s : State} {p p' : Phase} {i : In} (hs : p.step c i = some p')
    (hu : p.answered c i = none) (ht : i.tokReady = false) :
    (step c s i).2.ack = false ∧ (step c s i).2.nak = false := by
  by_cases hr : i.rxReady = false
  · simp [step, outOf, comb, hr, ht]
  · have hr : i.rxReady = true := by simpa using hr
    have key : ∀ t : Tok, Tok.of i = t → t.targets c = false →
        (step c s i).2.ack = false ∧ (step c s i).2.nak = false := by
      intro t htok htg
      subst htok
      simp only [Tok.targets, Tok.of] at htg
      simp [step, outOf, comb, ht, htg]
    cases p with
    | idle => have := (step_idle_inv hs).2.1; simp [hr] at this
    | tok t => have := (step_tok_inv hs).1; simp [hr] at this
    | rx t pid sent now buf => have := (step_rx_inv hs).2.1; simp [hr] at this
    | finByte t pid sent now ok =>
      have htok := (stable_inv (step_finByte_inv hs).1).1
      simp only [Phase.answered, hr, Bool.true_and] at hu
      exact key t htok (by cases h : t.targets c <;> simp_all)
    | finStrobe t pid bytes ok responded =>
      have htok := (stable_inv (step_finStrobe_inv hs).1).1
      simp only [Phase.answered, hr, Bool.true_and] at hu
      exact key t htok (by cases h : t.targets c <;> simp_all)
    | finWait t pid bytes =>
      have htok := (stable_inv (step_finWait_inv hs).1).1
      simp only [Phase.answered, hr, Bool.true_and] at hu
      exact key t htok (by cases h : t.targets c <;> simp_all)

theorem wire1_low {i : In} {o : Out} (h1 : o.ack = false) (h2 : o.nak = false) (h3 : i.ready = false) :
    wire1 i o = [] := by
  simp [wire1, h1, h2, transfers_not_ready i o h3]

/-- a cycle without a response request, a PING response request, a halt-clear strobe or a consumer read -/
structure Quiet (i : In) : Prop where
  rxReady   : i.rxReady = false
  tokReady  : i.tokReady = false
  clearHalt : i.clearHalt = false
  ready     : i.ready = false

theorem ref_quiet1 {c : Config} (hmps : 1 ≤ c.mps) {e : OutState} {p p' : Phase} {i : In}
    (hs : p.step c i = some p') (hq : Quiet i) : Ref c p p' e e [i] [] := by
  apply Ref.single
  intro s hr
  have hu : p.answered c i = none := answered_none_of_rxReady hq.rxReady
  have h1 := unanswered_step hmps hr.1 hs hu hq.ready
  rw [hq.clearHalt] at h1
  obtain ⟨a, b⟩ := hs_low (s := s) hs hu hq.tokReady
  exact ⟨h1, wire1_low a b hq.ready⟩

/-- any acceptor-legal run of quiet cycles leaves the event-level state alone -/
theorem ref_quiet {c : Config} (hmps : 1 ≤ c.mps) {e : OutState} (is : List In) :
    ∀ {p p' : Phase}, Phase.run c p is = some p' → (∀ j ∈ is, Quiet j) → Ref c p p' e e is [] := by
  induction is with
  | nil =>
    intro p p' hr _
    simp only [Phase.run, Option.some.injEq] at hr
    subst hr; exact Ref.nil
  | cons i is ih =>
    intro p p' hr hq
    simp only [Phase.run] at hr
    cases hs : p.step c i with
    | none => simp [hs] at hr
    | some p1 =>
      simp only [hs] at hr
      exact (ref_quiet1 hmps hs (hq i (by simp))).append (ih hr (fun j hj => hq j (by simp [hj])))

/-! ### The cycles between the strobes -/

/-- A cycle without any strobe while the token registers show `tk`: no receiver activity, no response request, the
consumer does not read.  `rx_pid_toggle` and the receiver's payload lines are taken from the arbitrary record `n`. -/
def envIn (tk : Tk) (n : In) : In :=
  { n with rx := ⟨false, false, n.rx.payload, false, false⟩, rxReady := false, tokEp := tk.ep,
           tokIsOut := tk.pid == PID_OUT, tokIsPing := tk.pid == PID_PING, tokReady := false, tokNew := false,
           clearHalt := false, ready := false }

def idle (tk : Tk) (ns : List In) : List In := ns.map (envIn tk)

/-- the acceptor's phase between transactions: `armed` = the last event was a token for this device (or left one
open), whose fields the registers `tk` still show -/
def phOf (armed : Bool) (tk : Tk) : Phase := if armed then .tok (tokOf tk) else .idle

theorem phOf_quiet (a : Bool) (tk : Tk) : (phOf a tk).quiet = true := by cases a <;> rfl

theorem quiet_env (tk : Tk) (n : In) : Quiet (envIn tk n) := ⟨rfl, rfl, rfl, rfl⟩

theorem step_env (c : Config) (a : Bool) (tk : Tk) (n : In) :
    (phOf a tk).step c (envIn tk n) = some (phOf a tk) := by
  cases a <;> simp [phOf, Phase.step, envIn, isByte, strobeAny, Tok.of, tokOf]

theorem run_idle (c : Config) (a : Bool) (tk : Tk) (ns : List In) :
    Phase.run c (phOf a tk) (idle tk ns) = some (phOf a tk) := by
  induction ns with
  | nil => rfl
  | cons n ns ih => simp only [idle, List.map_cons, Phase.run, step_env]; exact ih

theorem ref_idle {c : Config} (hmps : 1 ≤ c.mps) (e : OutState) (a : Bool) (tk : Tk) (ns : List In) :
    Ref c (phOf a tk) (phOf a tk) e e (idle tk ns) [] :=
  ref_quiet hmps _ (run_idle c a tk ns) (by
    intro j hj
    simp only [idle, List.mem_map] at hj
    obtain ⟨n, _, rfl⟩ := hj
    exact quiet_env tk n)

/-- idle cycles while the registers change from `tk` to `tk'` without a `new_token` strobe (a token for another
device clears the PID): an open token is forgotten -/
theorem ref_idle_switch {c : Config} (hmps : 1 ≤ c.mps) (e : OutState) (a : Bool) (tk tk' : Tk)
    (ns ms : List In) :
    Ref c (phOf a tk) (phOf (a && tk' == tk) tk') e e (idle tk ns ++ idle tk' ms) [] := by
  have h1 := ref_idle hmps e a tk ns
  by_cases hk : tk' = tk
  · subst hk
    simpa using h1.append (ref_idle hmps e a tk' ms)
  · have hb : (tk' == tk) = false := by simpa using hk
    rw [hb, Bool.and_false]
    have h2 : Ref c (phOf a tk) (phOf false tk') e e (idle tk' ms) [] := by
      cases a
      · exact ref_idle hmps e false tk' ms
      · exact (ref_idle hmps e false tk' ms).weaken
    simpa using h1.append h2

/-! ### Token -/

def ntIn (tk : Tk) (n : In) : In := { envIn tk n with tokNew := true }
def trIn (tk : Tk) (n : In) : In := { envIn tk n with tokReady := true }

/-- (K1) the cycle in which the token detector strobes `new_token` (registers already show the new token) -/
theorem ref_newToken {c : Config} (hmps : 1 ≤ c.mps) (e : OutState) (a : Bool) (tk tk' : Tk) (n : In) :
    Ref c (phOf a tk) (phOf true tk') e e [ntIn tk' n] [] := by
  apply ref_quiet1 hmps _ ⟨rfl, rfl, rfl, rfl⟩
  have hwf := tokOf_wf tk'
  have htk : Tok.of (ntIn tk' n) = tokOf tk' := rfl
  have hb : isByte (ntIn tk' n) = false := rfl
  have hr : (ntIn tk' n).rxReady = false := rfl
  have hn : (ntIn tk' n).tokNew = true := rfl
  cases a <;> simp [phOf, Phase.step, htk, hb, hr, hn, hwf]

def ownPing (ec : EpCfg) (tk : Tk) : Prop := tk.ep = ec.num ∧ tk.pid = PID_PING
instance (ec : EpCfg) (tk : Tk) : Decidable (ownPing ec tk) := by unfold ownPing; infer_instance

/-- (K2) the `ready_for_response` cycle of the token: a PING for this endpoint is answered ACK iff
`space_available ≥ max_packet_size`, where `space_available` = `buffer_size` − the committed entries -/
theorem ref_tokReady (ec : EpCfg) (hw : 0 < ec.size) (e : OutState) (tk : Tk) (n : In) :
    Ref (cfgOf ec) (phOf true tk) (phOf true tk) e e [trIn tk n]
      (if ownPing ec tk then wiresOf { resp := outPing ec e } else []) := by
  apply Ref.single
  intro s hr
  have hs : (phOf true tk).step (cfgOf ec) (trIn tk n) = some (phOf true tk) := by
    simp [phOf, Phase.step, trIn, envIn, isByte, strobeAny, Tok.of, tokOf]
  have hu : (phOf true tk).answered (cfgOf ec) (trIn tk n) = none := answered_none_of_rxReady rfl
  have h1 := unanswered_step (c := cfgOf ec) hw hr.1 hs hu rfl
  refine ⟨h1, ?_⟩
  have hsp := (rel_space_eq hr (phOf_quiet true tk)).1
  have hack : (step (cfgOf ec) s (trIn tk n)).2.ack
      = (tk.ep == ec.num && tk.pid == PID_PING && decide (ec.size ≤ ec.depth - e.fifo.length)) := by
    simp only [step, outOf, comb, hsp]
    simp [trIn, envIn, cfgOf]
    rfl
  have hnak : (step (cfgOf ec) s (trIn tk n)).2.nak
      = (tk.ep == ec.num && tk.pid == PID_PING && !decide (ec.size ≤ ec.depth - e.fifo.length)) := by
    simp only [step, outOf, comb, hsp]
    simp [trIn, envIn, cfgOf]
    rfl
  simp only [wire1, hack, hnak, transfers_not_ready (trIn tk n) _ rfl, List.map_nil, List.append_nil]
  by_cases ho : ownPing ec tk
  · obtain ⟨h1, h2⟩ := ho
    simp only [ownPing, h1, h2, and_self, if_true, wiresOf, outPing, List.map_nil, List.append_nil]
    by_cases hsz : ec.size ≤ ec.depth - e.fifo.length <;> simp [hsz, PID_ACK, PID_NAK]
  · simp only [ho, if_false]
    simp only [ownPing] at ho
    by_cases h1 : tk.ep = ec.num <;> by_cases h2 : tk.pid = PID_PING <;> simp_all

/-! ### Handshake (the halt-clear strobe accompanies a host ACK) -/

def hsIn (tk : Tk) (n : In) (halt : Bool) : In := { envIn tk n with clearHalt := halt }

theorem ref_hs {c : Config} (hmps : 1 ≤ c.mps) (e : OutState) (a : Bool) (tk : Tk) (n : In) (halt : Bool) :
    Ref c (phOf a tk) (phOf a tk) e (clr halt e) [hsIn tk n halt] [] := by
  apply Ref.single
  intro s hr
  have hs : (phOf a tk).step c (hsIn tk n halt) = some (phOf a tk) := by
    cases a <;> simp [phOf, Phase.step, hsIn, envIn, isByte, strobeAny, Tok.of, tokOf]
  have hu : (phOf a tk).answered c (hsIn tk n halt) = none := answered_none_of_rxReady rfl
  have h1 := unanswered_step hmps hr.1 hs hu rfl
  obtain ⟨x, y⟩ := hs_low (s := s) hs hu rfl
  exact ⟨h1, wire1_low (i := hsIn tk n halt) x y rfl⟩

/-! ### Consumer -/

def rdIn (tk : Tk) (n : In) : In := { envIn tk n with ready := true }

/-- (K4) a cycle in which the consumer reads: it gets the oldest committed entry, if there is one -/
theorem consume_step {c : Config} (hmps : 1 ≤ c.mps) (e : OutState) (a : Bool) (tk : Tk) (n : In) (s : State)
    (hr : Rel0 c e s (phOf a tk)) :
    Rel0 c { e with fifo := e.fifo.drop 1 } (step c s (rdIn tk n)).1 (phOf a tk) ∧
    wire1 (rdIn tk n) (step c s (rdIn tk n)).2 = (e.fifo.take 1).map (fun x => Wire.xfer (dec x)) := by
  have hs : (phOf a tk).step c (rdIn tk n) = some (phOf a tk) := by
    cases a <;> simp [phOf, Phase.step, rdIn, envIn, isByte, strobeAny, Tok.of, tokOf]
  have hu : (phOf a tk).answered c (rdIn tk n) = none := answered_none_of_rxReady rfl
  obtain ⟨q, hrel, _, hC⟩ := rel0_fifo hr (phOf_quiet a tk)
  have htr : transfers [rdIn tk n] [(step c s (rdIn tk n)).2] = (e.fifo.take 1).map dec := by
    rw [transfer_now _ hrel]
    have h0 : (if ((rdIn tk n).ready && !q.C.isEmpty) = true then q.C.take 1 else []) = q.C.take 1 := by
      cases q.C <;> simp [rdIn]
    rw [h0, List.map_take, hC, ← List.map_take]
  obtain ⟨x, y⟩ := hs_low (s := s) hs hu rfl
  refine ⟨rel0_step hmps hr hs ?_ ?_, ?_⟩
  · have hc : (rdIn tk n).clearHalt = false := rfl
    simp only [Acct.step, hu, hc]; rfl
  · simp only [Acct.step, hu, htr, List.append_nil, ← List.map_append, List.take_append_drop]
  · simp only [wire1, x, y, htr, List.map_map]; rfl

/-- The cycles of a `consume n` event: `n` cycles with `stream.ready`, any number of idle cycles (`gs k`) before
the `k`-th. -/
def consCyc (tk : Tk) (gs : Nat → List In) (ns : Nat → In) : Nat → Nat → List In
  | _, 0 => []
  | k, m + 1 => idle tk (gs k) ++ (rdIn tk (ns k) :: consCyc tk gs ns (k + 1) m)

theorem idle_rel0 {c : Config} (hmps : 1 ≤ c.mps) (e : OutState) (a : Bool) (tk : Tk) (ns : List In) (s : State)
    (hr : Rel0 c e s (phOf a tk)) :
    Rel0 c e (runState c s (idle tk ns)) (phOf a tk) ∧ cycWires c s (idle tk ns) = [] := by
  induction ns generalizing s with
  | nil => exact ⟨hr, rfl⟩
  | cons n ns ih =>
    have hs := step_env c a tk n
    have hu : (phOf a tk).answered c (envIn tk n) = none := answered_none_of_rxReady rfl
    have h1 := unanswered_step hmps hr hs hu rfl
    obtain ⟨x, y⟩ := hs_low (s := s) hs hu rfl
    obtain ⟨b1, b2⟩ := ih _ h1.1
    refine ⟨b1, ?_⟩
    simp only [idle, List.map_cons, cycWires, wire1_low (i := envIn tk n) x y rfl, List.nil_append]
    simpa only [idle] using b2

theorem consume_run {c : Config} (hmps : 1 ≤ c.mps) (a : Bool) (tk : Tk) (gs : Nat → List In) (ns : Nat → In)
    (m : Nat) : ∀ (k : Nat) (e : OutState) (s : State), Rel0 c e s (phOf a tk) →
      Rel0 c { e with fifo := e.fifo.drop m } (runState c s (consCyc tk gs ns k m)) (phOf a tk) ∧
      cycWires c s (consCyc tk gs ns k m) = (e.fifo.take m).map (fun x => Wire.xfer (dec x)) := by
  induction m with
  | zero => intro k e s hr; exact ⟨hr, rfl⟩
  | succ m ih =>
    intro k e s hr
    obtain ⟨a1, a2⟩ := idle_rel0 hmps e a tk (gs k) s hr
    obtain ⟨b1, b2⟩ := consume_step hmps e a tk (ns k) _ a1
    obtain ⟨d1, d2⟩ := ih (k + 1) _ _ b1
    refine ⟨?_, ?_⟩
    · simp only [consCyc, runState_append, runState]
      simpa [Nat.add_comm] using d1
    · simp only [consCyc, cycWires_append, cycWires, a2, b2, d2, List.nil_append, ← List.map_append]
      congr 1
      rw [Nat.add_comm m 1, List.take_add]

/-- the reads of a `consume n` event and the cycle after the last one (which finalises it) -/
theorem ref_consume {c : Config} (hmps : 1 ≤ c.mps) (e : OutState) (a : Bool) (tk : Tk) (gs : Nat → List In)
    (ns : Nat → In) (fin : In) (m : Nat) :
    Ref c (phOf a tk) (phOf a tk) e { e with fifo := e.fifo.drop m } (consCyc tk gs ns 0 m ++ [envIn tk fin])
      ((e.fifo.take m).map (fun x => Wire.xfer (dec x))) := by
  intro s hr
  obtain ⟨a1, a2⟩ := consume_run hmps a tk gs ns m 0 e s hr.1
  have hs := step_env c a tk fin
  have hu : (phOf a tk).answered c (envIn tk fin) = none := answered_none_of_rxReady rfl
  have h1 := unanswered_step hmps a1 hs hu rfl
  obtain ⟨x, y⟩ := hs_low (s := runState c s (consCyc tk gs ns 0 m)) hs hu rfl
  refine ⟨by simp only [runState_append, runState]; exact h1, ?_⟩
  simp only [cycWires_append, cycWires, a2, wire1_low (i := envIn tk fin) x y rfl, List.append_nil]

/-! ### The data transaction -/

/-- the token of the transaction in flight is `t` (or none is) -/
def tokIs (t : Tok) : Phase → Prop
  | .idle => True
  | .tok t' => t' = t
  | .rx t' _ _ _ _ => t' = t
  | .finByte t' _ _ _ _ => t' = t
  | .finStrobe t' _ _ _ _ => t' = t
  | .finWait t' _ _ => t' = t

theorem tokIs_step {c : Config} {t : Tok} {p p' : Phase} {i : In} (hs : p.step c i = some p')
    (hn : i.tokNew = false) (h : tokIs t p) : tokIs t p' := by
  cases p with
  | idle =>
    obtain ⟨_, _, h3⟩ := step_idle_inv hs
    rcases h3 with ⟨h1, _⟩ | ⟨_, rfl⟩
    · simp [hn] at h1
    · trivial
  | tok t' =>
    obtain ⟨_, h3⟩ := step_tok_inv hs
    rcases h3 with ⟨h1, _⟩ | ⟨_, _, _, _, _, rfl⟩ | ⟨_, _, _, _, rfl⟩ | ⟨_, _, _, _, rfl⟩
    · simp [hn] at h1
    all_goals exact h
  | rx t' pid sent now buf =>
    obtain ⟨_, _, h3⟩ := step_rx_inv hs
    rcases h3 with ⟨_, _, _, rfl⟩ | ⟨_, _, _, rfl⟩ | ⟨_, _, _, rfl⟩ <;> exact h
  | finByte t' pid sent now ok =>
    obtain ⟨_, _, _, rfl⟩ := step_finByte_inv hs
    exact h
  | finStrobe t' pid bytes ok responded =>
    obtain ⟨_, _, _, h3⟩ := step_finStrobe_inv hs
    rcases h3 with ⟨_, rfl⟩ | ⟨_, _, _, rfl⟩
    · trivial
    · exact h
  | finWait t' pid bytes =>
    obtain ⟨_, _, h3⟩ := step_finWait_inv hs
    rcases h3 with ⟨_, rfl⟩ | ⟨_, rfl⟩
    · trivial
    · exact h

theorem tokIs_run {c : Config} {t : Tok} (is : List In) : ∀ {p p' : Phase}, Phase.run c p is = some p' →
    (∀ j ∈ is, j.tokNew = false) → tokIs t p → tokIs t p' := by
  induction is with
  | nil => intro p p' hr _ h; simp only [Phase.run, Option.some.injEq] at hr; subst hr; exact h
  | cons i is ih =>
    intro p p' hr hn h
    simp only [Phase.run] at hr
    cases hs : p.step c i with
    | none => simp [hs] at hr
    | some p1 =>
      simp only [hs] at hr
      exact ih hr (fun j hj => hn j (by simp [hj])) (tokIs_step hs (hn i (by simp)) h)

/-- the data packet (PID toggle bits, payload) whose end the host has signalled -/
def pktOf : Phase → Option (Nat × List Nat)
  | .finByte _ pid sent now _ => some (pid, sent ++ now.toList)
  | .finStrobe _ pid bytes _ _ => some (pid, bytes)
  | .finWait _ pid bytes => some (pid, bytes)
  | _ => none

theorem answered_foreign {c : Config} {t : Tok} {p : Phase} (i : In) (h : tokIs t p) (ht : t.targets c = false) :
    p.answered c i = none := by
  cases p <;> simp only [tokIs] at h <;> simp [Phase.answered, h, ht]

theorem answered_own {c : Config} {t : Tok} {p : Phase} {i : In} {x : Nat × List Nat} (h : tokIs t p)
    (ht : t.targets c = true) (hp : pktOf p = some x) (hr : i.rxReady = true) : p.answered c i = some x := by
  cases p with
  | idle => simp [pktOf] at hp
  | tok t' => simp [pktOf] at hp
  | rx t' pid sent now buf => simp [pktOf] at hp
  | finByte t' pid sent now ok =>
    simp only [tokIs] at h; subst h
    simp only [pktOf] at hp
    simp only [Phase.answered, hr, ht, Bool.and_self, if_true]; exact hp
  | finStrobe t' pid bytes ok responded =>
    simp only [tokIs] at h; subst h
    simp only [pktOf] at hp
    simp only [Phase.answered, hr, ht, Bool.and_self, if_true]; exact hp
  | finWait t' pid bytes =>
    simp only [tokIs] at h; subst h
    simp only [pktOf] at hp
    simp only [Phase.answered, hr, ht, Bool.and_self, if_true]; exact hp

/-- an accepted packet at event level -/
def accept (mps : Nat) (e : OutState) (p : List Nat) : OutState :=
  { toggle := !e.toggle, fifo := e.fifo ++ outEntries mps e.active p, active := decide (p.length = mps) }

theorem dec_outEntry (mps len : Nat) (active : Bool) (i b : Nat) :
    dec (outEntry mps len active i b) = (b % 256, decide (i = 0) && !active, decide (i + 1 = len ∧ i + 1 ≠ mps)) := by
  have h : outEntry mps len active i b
      = entry b (decide (i + 1 = len ∧ i + 1 ≠ mps)) (decide (i = 0) && !active) := by
    simp only [outEntry, entry]
    by_cases h1 : i + 1 = len ∧ i + 1 ≠ mps <;> by_cases h2 : i = 0 <;> cases active <;> simp [h1, h2]
  rw [h, dec_entry]

theorem zip_marks (mps len : Nat) (active : Bool) (p : List Nat) :
    ∀ k, k + p.length = len →
      (List.zipWith (fun i b => outEntry mps len active i b) (List.range' k p.length) p).map dec
        = marks (decide (k = 0) && !active) (decide (len ≠ mps)) p := by
  induction p with
  | nil => intro k _; rfl
  | cons b bs ih =>
    intro k hk
    cases bs with
    | nil =>
      simp only [List.length_cons, List.length_nil] at hk
      simp [List.range', marks, dec_outEntry, hk]
    | cons b' bs' =>
      have := ih (k + 1) (by simp only [List.length_cons] at hk ⊢; omega)
      simp only [List.length_cons] at hk this
      simp only [List.length_cons, List.range', List.zipWith_cons_cons, List.map_cons, marks, dec_outEntry] at this ⊢
      rw [this]
      have h1 : ¬(k + 1 = len) := by omega
      simp [h1]

/-- the FIFO entries the event-level model appends for an accepted packet are, decoded, C13's `pktEntries` -/
theorem outEntries_dec (c : Config) (active : Bool) (p : List Nat) (h : p.length ≤ c.mps) :
    (outEntries c.mps active p).map dec = pktEntries c active p := by
  simp only [outEntries, pktEntries, List.range_eq_range']
  rw [zip_marks c.mps p.length active p 0 (by omega)]
  have : decide (p.length ≠ c.mps) = decide (p.length < c.mps) := by
    rw [Bool.eq_iff_iff]; simp only [decide_eq_true_eq]; omega
  simp [this]

theorem tn_inj (a b : Bool) : (tn a = tn b) ↔ a = b := by cases a <;> cases b <;> simp [tn]

/-- (K5) the response request for a packet addressed to the endpoint that has lost no byte: ACK; with the expected
toggle the packet's entries have been committed and the toggle advances -/
theorem resp_step {c : Config} (hmps : 1 ≤ c.mps) {e : OutState} {s : State} {pk p' : Phase} {i : In} {b : Bool}
    {bytes : List Nat} (h : Rel0 c e s pk) (hs : pk.step c i = some p')
    (ha : pk.answered c i = some (tn b, bytes)) (hlen : bytes.length ≤ c.mps)
    (hovf : s.overflow = false) (hnl : (comb c s i).dataIsLost = false)
    (hc : i.clearHalt = false) (hr : i.ready = false) :
    Rel c (if b = e.toggle then accept c.mps e bytes else e) (step c s i).1 p' ∧
    wire1 i (step c s i).2 = [Wire.ack] := by
  have hack : (step c s i).2.ack = true ∧ (step c s i).2.nak = false := by
    obtain ⟨w, del, hsim, _, _⟩ := h
    obtain ⟨hd, hp, _⟩ := answered_inv hsim hs ha
    have hnak := nak_iff_cannot_take_partial c s i hd hp
    have hex : (outOf c s i).ack = !(outOf c s i).nak := by
      simp only [outOf, comb] at hd hp ⊢
      grind
    have hn : (outOf c s i).nak = false := by
      cases hk : (outOf c s i).nak
      · rfl
      · have := (hnak.mp hk).2
        simp [hovf, hnl] at this
    exact ⟨by show (outOf c s i).ack = true; rw [hex, hn]; rfl, hn⟩
  refine ⟨⟨rel0_step hmps h hs ?_ ?_, rrcr_step c s i hr⟩, ?_⟩
  · simp only [Acct.step, ha, hack.1, hc, acctOf, Bool.true_and, beq_iff_eq, tn_inj]
    have hbe : (bytes.length == c.mps) = decide (bytes.length = c.mps) := by
      rw [Bool.eq_iff_iff]; simp
    by_cases hb : b = e.toggle
    · simp [hb, accept, hbe]
    · simp [hb]
  · simp only [Acct.step, ha, hack.1, hc, acctOf, Bool.true_and, beq_iff_eq, tn_inj,
      transfers_not_ready i _ hr, List.nil_append]
    by_cases hb : b = e.toggle
    · simp only [hb, if_true, accept, List.map_append, outEntries_dec c e.active bytes hlen]
    · simp [hb]
  · simp [wire1, hack.1, hack.2, transfers_not_ready i _ hr]

/-- cycles of a data transaction other than the response request -/
def calm (j : In) : Bool := !j.rxReady && !j.tokReady && !j.clearHalt && !j.ready && !j.tokNew

theorem calm_inv {j : In} (h : calm j = true) : Quiet j ∧ j.tokNew = false := by
  simp only [calm, Bool.and_eq_true, Bool.not_eq_true'] at h
  exact ⟨⟨h.1.1.1.1, h.1.1.1.2, h.1.1.2, h.1.2⟩, h.2⟩

/-- **The cycles of a `data pid p crcOk` event** (`seg`, then — for a CRC-valid packet — the response request `resp`
and `tail`) form a transaction of C13's `LegalHost` acceptor that follows the token `t`: from `tok t` the acceptor
runs through `seg` to a phase in which the receiver has signalled the end of a packet with PID toggle `pidT` and
payload `p`, accepts `resp` (which carries `rx_ready_for_response`) and returns to `idle` through `tail`; a corrupted
packet has no response request.  Outside `resp` there is no response request, no `tokenizer.ready_for_response`, no
halt-clear strobe, no new token, and the consumer does not read (stream events happen between transactions). -/
def segOk (c : Config) (t : Tok) (pidT : Nat) (p : List Nat) (crcOk : Bool) (seg : List In) (resp : In)
    (tail : List In) : Bool :=
  (seg ++ tail).all calm &&
  if crcOk then
    match Phase.run c (.tok t) seg with
    | some pk =>
      pktOf pk == some (pidT, p) &&
      (match pk.step c resp with
       | some p' => Phase.run c p' tail == some .idle
       | none => false) &&
      resp.rxReady && !resp.tokReady && !resp.clearHalt && !resp.ready && !resp.tokNew
    | none => false
  else Phase.run c (.tok t) (seg ++ tail) == some .idle

theorem segOk_good {c : Config} {t : Tok} {pidT : Nat} {p : List Nat} {seg tail : List In} {resp : In}
    (h : segOk c t pidT p true seg resp tail = true) :
    (∀ j ∈ seg, Quiet j ∧ j.tokNew = false) ∧ (∀ j ∈ tail, Quiet j ∧ j.tokNew = false) ∧
    ∃ pk p', Phase.run c (.tok t) seg = some pk ∧ pktOf pk = some (pidT, p) ∧ pk.step c resp = some p' ∧
      Phase.run c p' tail = some .idle ∧ resp.rxReady = true ∧ resp.tokReady = false ∧ resp.clearHalt = false ∧
      resp.ready = false ∧ resp.tokNew = false := by
  simp only [segOk, Bool.and_eq_true, List.all_eq_true, if_true] at h
  obtain ⟨hall, h2⟩ := h
  refine ⟨fun j hj => calm_inv (hall j (by simp [hj])), fun j hj => calm_inv (hall j (by simp [hj])), ?_⟩
  cases hrun : Phase.run c (.tok t) seg with
  | none => simp [hrun] at h2
  | some pk =>
    simp only [hrun, Bool.and_eq_true, beq_iff_eq, Bool.not_eq_true'] at h2
    obtain ⟨⟨⟨⟨⟨⟨h3, h4⟩, h5⟩, h6⟩, h7⟩, h8⟩, h9⟩ := h2
    cases hst : pk.step c resp with
    | none => simp [hst] at h4
    | some p' =>
      simp only [hst, beq_iff_eq] at h4
      exact ⟨pk, p', rfl, h3, hst, h4, h5, h6, h7, h8, h9⟩

theorem segOk_bad {c : Config} {t : Tok} {pidT : Nat} {p : List Nat} {seg tail : List In} {resp : In}
    (h : segOk c t pidT p false seg resp tail = true) :
    (∀ j ∈ seg ++ tail, Quiet j ∧ j.tokNew = false) ∧ Phase.run c (.tok t) (seg ++ tail) = some .idle := by
  simp only [segOk, Bool.and_eq_true, List.all_eq_true, Bool.false_eq_true, if_false, beq_iff_eq] at h
  exact ⟨fun j hj => calm_inv (h.1 j hj), h.2⟩

/-- the former, stricter hypothesis (C13's acceptor before its generalisation, `Phase.stepStrict`): EVERY packet on
the bus, also one that follows a token for another endpoint, is bounded by this endpoint's `max_packet_size` -/
def segOkStrict (c : Config) (t : Tok) (pidT : Nat) (p : List Nat) (crcOk : Bool) (seg : List In) (resp : In)
    (tail : List In) : Bool :=
  (seg ++ tail).all calm &&
  if crcOk then
    match Phase.runStrict c (.tok t) seg with
    | some pk =>
      pktOf pk == some (pidT, p) &&
      (match pk.stepStrict c resp with
       | some p' => Phase.runStrict c p' tail == some .idle
       | none => false) &&
      resp.rxReady && !resp.tokReady && !resp.clearHalt && !resp.ready && !resp.tokNew
    | none => false
  else Phase.runStrict c (.tok t) (seg ++ tail) == some .idle

/-- the former hypothesis implies the generalised one: the refinement theorems below also hold for it -/
theorem segOkStrict_imp {c : Config} {t : Tok} {pidT : Nat} {p : List Nat} {crcOk : Bool} {seg tail : List In}
    {resp : In} (h : segOkStrict c t pidT p crcOk seg resp tail = true) : segOk c t pidT p crcOk seg resp tail = true := by
  cases crcOk with
  | false =>
    simp only [segOkStrict, Bool.and_eq_true, Bool.false_eq_true, if_false, beq_iff_eq] at h
    simp only [segOk, Bool.and_eq_true, Bool.false_eq_true, if_false, beq_iff_eq]
    exact ⟨h.1, runStrict_imp h.2⟩
  | true =>
    simp only [segOkStrict, if_true] at h
    simp only [segOk, if_true]
    cases hr : Phase.runStrict c (.tok t) seg with
    | none => simp [hr] at h
    | some pk =>
      simp only [hr] at h
      simp only [runStrict_imp hr]
      cases hs : pk.stepStrict c resp with
      | none => simp [hs] at h
      | some p' =>
        simp only [hs] at h
        simp only [stepStrict_imp hs]
        cases ht : Phase.runStrict c p' tail with
        | none => simp [ht] at h
        | some pf =>
          simp only [ht] at h
          simp only [runStrict_imp ht]
          exact h

/-- the cycles of the event -/
def dataCyc (crcOk : Bool) (seg : List In) (resp : In) (tail : List In) : List In :=
  if crcOk then seg ++ resp :: tail else seg ++ tail

/-- a corrupted packet: nothing happens -/
theorem ref_data_bad {c : Config} (hmps : 1 ≤ c.mps) (e : OutState) {t : Tok} {pidT : Nat} {p : List Nat}
    {seg tail : List In} {resp : In} (h : segOk c t pidT p false seg resp tail = true) :
    Ref c (.tok t) .idle e e (dataCyc false seg resp tail) [] := by
  obtain ⟨hq, hrun⟩ := segOk_bad h
  exact ref_quiet hmps _ hrun (fun j hj => (hq j hj).1)

/-- a packet that follows a token for somebody else: nothing happens -/
theorem ref_data_foreign {c : Config} (hmps : 1 ≤ c.mps) (e : OutState) {t : Tok} {pidT : Nat} {p : List Nat}
    {seg tail : List In} {resp : In} (ht : t.targets c = false) (h : segOk c t pidT p true seg resp tail = true) :
    Ref c (.tok t) .idle e e (dataCyc true seg resp tail) [] := by
  obtain ⟨hq1, hq2, pk, p', hrun, _, hst, hrun2, _, htr, hch, hrd, _⟩ := segOk_good h
  have htk : tokIs t pk := tokIs_run seg hrun (fun j hj => (hq1 j hj).2) rfl
  have hu := answered_foreign (c := c) resp htk ht
  have hmid : Ref c pk p' e e [resp] [] := by
    apply Ref.single
    intro s hr
    have h1 := unanswered_step hmps hr.1 hst hu hrd
    rw [hch] at h1
    obtain ⟨x, y⟩ := hs_low (s := s) hst hu htr
    exact ⟨h1, wire1_low x y hrd⟩
  have := (ref_quiet (e := e) hmps seg hrun (fun j hj => (hq1 j hj).1)).append
    (hmid.append (ref_quiet hmps tail hrun2 (fun j hj => (hq2 j hj).1)))
  simpa [dataCyc] using this

/-- **a CRC-valid packet for this endpoint that fits into the FIFO**: no byte is lost (C13's `no_loss_run`), so
the response is ACK; with the expected toggle the packet is committed and the toggle advances, with the other
toggle (a retransmission whose ACK the host missed) nothing else happens -/
theorem ref_data_own {c : Config} (hmps : 1 ≤ c.mps) (e : OutState) {t : Tok} {b : Bool} {p : List Nat}
    {seg tail : List In} {resp : In} (ht : t.targets c = true) (hfit : e.fifo.length + p.length ≤ c.depth)
    (h : segOk c t (tn b) p true seg resp tail = true) :
    Ref c (.tok t) .idle e (if b = e.toggle then accept c.mps e p else e) (dataCyc true seg resp tail)
      [Wire.ack] := by
  obtain ⟨hq1, hq2, pk, p', hrun, hpkt, hst, hrun2, hrx, htr, hch, hrd, _⟩ := segOk_good h
  have hn1 : ∀ j ∈ seg, j.tokNew = false := fun j hj => (hq1 j hj).2
  have htk : tokIs t pk := tokIs_run seg hrun hn1 rfl
  have ha := answered_own (c := c) htk ht hpkt hrx
  have hlen : p.length ≤ c.mps := by
    rw [← answered_seen ha]
    exact seen_le_mps hrun (by simp [Phase.seen]) (answered_forUs ha)
  intro s hr
  -- up to the response request
  obtain ⟨a1, a2⟩ := ref_quiet (e := e) hmps seg hrun (fun j hj => (hq1 j hj).1) s hr
  -- no byte of the packet meets a full FIFO
  have hnl : anyLost c s (seg ++ [resp]) = false := by
    obtain ⟨w, del, hsim, _, _⟩ := hr.1
    have hused := (rel_space_eq hr rfl).2
    exact no_loss_run hmps hfit hst ha (Nat.le_refl _) seg hsim (by simp [HeldInv, hused]) hrun hn1
  rw [anyLost_append] at hnl
  simp only [Bool.or_eq_false_iff, anyLost, Bool.or_false] at hnl
  have hovf : (runState c s seg).overflow = false := by
    rw [overflow_run c s seg hn1, rel0_tok_overflow hr.1, hnl.1]; rfl
  obtain ⟨b1, b2⟩ := resp_step hmps a1.1 hst ha hlen hovf hnl.2 hch hrd
  obtain ⟨d1, d2⟩ := ref_quiet (e := (if b = e.toggle then accept c.mps e p else e)) hmps tail hrun2
    (fun j hj => (hq2 j hj).1) _ b1
  refine ⟨?_, ?_⟩
  · simp only [dataCyc, if_true, runState_append, runState]; exact d1
  · simp only [dataCyc, if_true, cycWires_append, cycWires, a2, b2, d2, List.nil_append, List.append_nil]

/-! ### A data packet that follows a token for another device

The token detector does not strobe `new_token` for a token with a foreign address (it clears its PID register), so
the acceptor is in phase `idle` when the data packet of such a transaction arrives; C13's write-side invariant does
not speak about it.  The registers do not name the endpoint, so nothing but the boundary detector moves: the detector
is followed through the packet by `detRel_step` (the acceptor's phases, entered at `tok t` for the registers' `t`,
serve as the description of the packet's shape only), everything else stays as between transactions. -/

/-- the detector in phase `p` of a foreign packet, everything else as in `Rel0 … idle` -/
def FRel (c : Config) (e : OutState) (s : State) (p : Phase) : Prop :=
  ∃ (w : WState) (del : List Entry), DetRel p s.det ∧ s.regs = w.r ∧
    (∃ q, TxnFifo.Rel c.depth s.fifo q ∧ q.W = w.W ∧ del ++ q.C.map dec = w.com.map dec) ∧
    w.Inv c .idle ∧ w.a = acctOf e ∧ w.acc = del ++ e.fifo.map dec

theorem frel_idle {c : Config} {e : OutState} {s : State} : FRel c e s .idle ↔ Rel0 c e s .idle :=
  ⟨fun ⟨w, del, h1, h2, h3, h4, h5, h6⟩ => ⟨w, del, ⟨h1, h2, h3, h4⟩, h5, h6⟩,
   fun ⟨w, del, ⟨h1, h2, h3, h4⟩, h5, h6⟩ => ⟨w, del, h1, h2, h3, h4, h5, h6⟩⟩

theorem frel_enter {c : Config} {e : OutState} {s : State} (t : Tok) (h : Rel0 c e s .idle) : FRel c e s (.tok t) := by
  obtain ⟨w, del, h1, h2, h3, h4, h5, h6⟩ := frel_idle.mpr h
  exact ⟨w, del, h1, h2, h3, h4, h5, h6⟩

/-- the registers of a cycle inside a transaction show its token -/
theorem step_tokOf {c : Config} {t : Tok} {p p' : Phase} {i : In} (hs : p.step c i = some p')
    (hn : i.tokNew = false) (h : tokIs t p) (hp : p ≠ .idle) : Tok.of i = t := by
  cases p with
  | idle => exact absurd rfl hp
  | tok t' =>
    simp only [tokIs] at h; subst h
    obtain ⟨_, h3⟩ := step_tok_inv hs
    rcases h3 with ⟨h1, _⟩ | ⟨_, h1, _⟩ | ⟨_, h1, _⟩ | ⟨_, h1, _⟩
    · simp [hn] at h1
    all_goals exact h1
  | rx t' pid sent now buf => simp only [tokIs] at h; subst h; exact (stable_inv (step_rx_inv hs).1).1
  | finByte t' pid sent now ok => simp only [tokIs] at h; subst h; exact (stable_inv (step_finByte_inv hs).1).1
  | finStrobe t' pid bytes ok r => simp only [tokIs] at h; subst h; exact (stable_inv (step_finStrobe_inv hs).1).1
  | finWait t' pid bytes => simp only [tokIs] at h; subst h; exact (stable_inv (step_finWait_inv hs).1).1

/-- a cycle without `tokenizer.ready_for_response`, halt-clear strobe, consumer read or new token -/
def calm' (j : In) : Bool := !j.tokReady && !j.clearHalt && !j.ready && !j.tokNew

theorem calm'_of_calm {j : In} (h : calm j = true) : calm' j = true := by
  simp only [calm, calm', Bool.and_eq_true, Bool.not_eq_true'] at h ⊢
  exact ⟨⟨⟨h.1.1.1.2, h.1.1.2⟩, h.1.2⟩, h.2⟩

/-- one cycle of a foreign packet: only the detector moves, the handshake lines stay low -/
theorem foreign_step {c : Config} {e : OutState} {s : State} {p p' : Phase} {i : In} (h : FRel c e s p)
    (hs : p.step c i = some p') (hnt : (i.tokEp == c.epNum && i.tokIsOut) = false) (hc : calm' i = true) :
    FRel c e (step c s i).1 p' ∧ wire1 i (step c s i).2 = [] ∧ (step c s i).1.fifo.rr = (step c s i).1.fifo.cr := by
  simp only [calm', Bool.and_eq_true, Bool.not_eq_true'] at hc
  obtain ⟨⟨⟨htr, hch⟩, hrd⟩, hnew⟩ := hc
  obtain ⟨w, del, hdet, hregs, ⟨q, hrel, hW, hdel⟩, hinv, hwa, hacc⟩ := h
  refine ⟨⟨w, del, detRel_step hdet hs, ?_, ?_, hinv, hwa, hacc⟩, ?_, rrcr_step c s i hrd⟩
  · rw [step_regs, ← hregs]
    obtain ⟨fifo, det, tg, ovf, cnt, ta, pif, phd⟩ := s
    simp [regsNext, combG, State.regs, hnt, hch, hnew]
  · have hlegal := fifo_inputs_legal c s i (view_not_both hdet.view)
    refine ⟨q.step c.depth (fifoIn c s i), TxnFifo.rel_step hrel hlegal, ?_, ?_⟩
    · rw [← hW]; simp [TxnFifo.Queue.step, fifoIn, comb, hnt, hrd]
    · rw [← hdel]; simp [TxnFifo.Queue.step, fifoIn, comb, hnt, hrd]
  · have h1 : (step c s i).2.ack = false := by simp [step, outOf, comb, hnt, htr]
    have h2 : (step c s i).2.nak = false := by simp [step, outOf, comb, hnt, htr]
    exact wire1_low h1 h2 hrd

theorem foreign_run {c : Config} (hmps : 1 ≤ c.mps) {e : OutState} {t : Tok} (ht : t.targets c = false)
    (is : List In) : ∀ {p p' : Phase} (s : State), Phase.run c p is = some p' → (∀ j ∈ is, calm' j = true) →
      tokIs t p → FRel c e s p → s.fifo.rr = s.fifo.cr →
      FRel c e (runState c s is) p' ∧ cycWires c s is = [] ∧
        (runState c s is).fifo.rr = (runState c s is).fifo.cr := by
  induction is with
  | nil =>
    intro p p' s hr _ _ h hrc
    simp only [Phase.run, Option.some.injEq] at hr
    subst hr; exact ⟨h, rfl, hrc⟩
  | cons i is ih =>
    intro p p' s hr hc htk h hrc
    simp only [Phase.run] at hr
    cases hs : p.step c i with
    | none => simp [hs] at hr
    | some p1 =>
      simp only [hs] at hr
      have hci := hc i (by simp)
      have hnew : i.tokNew = false := by
        simp only [calm', Bool.and_eq_true, Bool.not_eq_true'] at hci; exact hci.2
      have htk1 : tokIs t p1 := tokIs_step hs hnew htk
      have key : FRel c e (step c s i).1 p1 ∧ wire1 i (step c s i).2 = [] ∧
          (step c s i).1.fifo.rr = (step c s i).1.fifo.cr := by
        by_cases hp : p = .idle
        · subst hp
          have hq : Quiet i := by
            simp only [calm', Bool.and_eq_true, Bool.not_eq_true'] at hci
            exact ⟨(step_idle_inv hs).2.1, hci.1.1.1, hci.1.1.2, hci.1.2⟩
          have hp1 : p1 = .idle := by
            obtain ⟨_, _, h3⟩ := step_idle_inv hs
            rcases h3 with ⟨h1, _⟩ | ⟨_, h1⟩
            · simp [hnew] at h1
            · exact h1
          subst hp1
          obtain ⟨a, b⟩ := ref_quiet1 (e := e) hmps hs hq s ⟨frel_idle.mp h, hrc⟩
          simp only [runState, cycWires, List.append_nil] at a b
          exact ⟨frel_idle.mpr a.1, b, a.2⟩
        · have htok := step_tokOf hs hnew htk hp
          have hnt : (i.tokEp == c.epNum && i.tokIsOut) = false := by
            have := ht
            simp only [Tok.targets, ← htok, Tok.of] at this
            exact this
          exact foreign_step h hs hnt hci
      obtain ⟨k1, k2, k3⟩ := key
      obtain ⟨a, b, d⟩ := ih _ hr (fun j hj => hc j (by simp [hj])) htk1 k1 k3
      exact ⟨a, by simp only [cycWires, k2, b, List.append_nil], d⟩

/-- a data packet that follows a token for another device (the registers do not name the endpoint): nothing happens -/
theorem ref_data_unarmed {c : Config} (hmps : 1 ≤ c.mps) (e : OutState) {t : Tok} {pidT : Nat} {p : List Nat}
    {crcOk : Bool} {seg tail : List In} {resp : In} (ht : t.targets c = false)
    (h : segOk c t pidT p crcOk seg resp tail = true) :
    Ref c .idle .idle e e (dataCyc crcOk seg resp tail) [] := by
  have hrun : Phase.run c (.tok t) (dataCyc crcOk seg resp tail) = some .idle ∧
      ∀ j ∈ dataCyc crcOk seg resp tail, calm' j = true := by
    have hall : ∀ j ∈ seg ++ tail, calm' j = true := by
      have h1 := h
      simp only [segOk, Bool.and_eq_true, List.all_eq_true] at h1
      exact fun j hj => calm'_of_calm (h1.1 j hj)
    cases crcOk with
    | false => exact ⟨(segOk_bad h).2, by simpa [dataCyc] using hall⟩
    | true =>
      obtain ⟨_, _, pk, p', h1, _, h2, h3, _, h4, h5, h6, h7⟩ := segOk_good h
      refine ⟨?_, ?_⟩
      · simp only [dataCyc, if_true]
        rw [run_append h1]
        simp only [Phase.run, h2]; exact h3
      · intro j hj
        simp only [dataCyc, if_true, List.mem_append, List.mem_cons] at hj
        rcases hj with hj | rfl | hj
        · exact hall j (by simp [hj])
        · simp [calm', h4, h5, h6, h7]
        · exact hall j (by simp [hj])
  intro s hr
  obtain ⟨a, b, d⟩ := foreign_run (e := e) hmps ht _ s hrun.1 hrun.2 (show tokIs t (.tok t) from rfl)
    (frel_enter t hr.1) hr.2
  exact ⟨⟨frel_idle.mp a, d⟩, b⟩

/-! ### The expansion of an event -/

/-- The free parameters of an expansion (cf. `C12Sig.Gaps`): the free inputs of the idle cycles before / between /
after the strobes (any number of cycles each) and of the strobe cycles; `cgaps k` / `cn k` = the idle cycles before,
and the free inputs of, the consumer's `k`-th read, `fin` the cycle after the last read; `seg` / `resp` / `tail` =
the cycles of a data transaction (constrained by `segOk`). -/
structure Gaps where
  pre   : List In
  mid   : List In
  post  : List In
  n1    : In
  n2    : In
  cgaps : Nat → List In
  cn    : Nat → In
  fin   : In
  seg   : List In
  resp  : In
  tail  : List In

/-- The clock cycles the stream OUT endpoint sees for the event `ev`, received with the token registers `tk`; `sh` =
the shared front end's view of the event.  Token: `new_token` with the registers already showing the token, later
`ready_for_response`; handshake: one cycle carrying the halt-clear strobe; `consume n`: `n` cycles with
`stream.ready` and the cycle that finalises the last read; data: the transaction `seg ++ resp :: tail`. -/
def expand (ec : EpCfg) (tk : Tk) (sh : Shared) (ev : HostEvent) (g : Gaps) : List In :=
  let tk' := tkOf sh
  match ev with
  | .token _ _ _ =>
    if sh.newTok then
      idle tk g.pre ++ ([ntIn tk' g.n1] ++ (idle tk' g.mid ++ ([trIn tk' g.n2] ++ idle tk' g.post)))
    else idle tk g.pre ++ idle tk' g.post
  | .handshake _ => idle tk g.pre ++ ([hsIn tk' g.n1 (haltHits ec false sh)] ++ idle tk' g.post)
  | .consume ep n =>
    if ep = ec.num then
      idle tk g.pre ++ ((consCyc tk' g.cgaps g.cn 0 n ++ [envIn tk' g.fin]) ++ idle tk' g.post)
    else idle tk g.pre ++ idle tk' g.post
  | .data _ _ crcOk => dataCyc crcOk g.seg g.resp g.tail
  | _ => idle tk g.pre ++ idle tk' g.post

/-- Does the event leave a token open?  (`armed`: the acceptor is in phase `tok`, with the registers' token.) -/
def armedNext (a : Bool) (tk : Tk) (sh : Shared) (ev : HostEvent) : Bool :=
  match ev with
  | .token _ _ _ => if sh.newTok then true else a && tkOf sh == tk
  | .data _ _ _ => false
  | _ => a && tkOf sh == tk

/-- The environment hypotheses of a data event: the registers keep showing the token fields; its cycles are a
transaction of C13's acceptor carrying the event's PID toggle (`rx_pid_toggle = active_pid[3]`, as `USBDevice` wires
it), payload and CRC verdict (`segOk`); and, if the registers name this endpoint, the packet follows a token accepted
by this device (`armed`; after a token for another device the PID register is cleared) and fits into the FIFO (the
event level's `legalEvent`). -/
def EvOk (ec : EpCfg) (a : Bool) (tk : Tk) (sh : Shared) (e : OutState) (ev : HostEvent) (g : Gaps) : Prop :=
  match ev with
  | .data pid p crcOk =>
    tkOf sh = tk ∧
    segOk (cfgOf ec) (tokOf tk) (tn (pidToggleBit pid)) p crcOk g.seg g.resp g.tail = true ∧
    ((tk.ep = ec.num ∧ tk.pid = PID_OUT) → a = true ∧ e.fifo.length + p.length ≤ ec.depth)
  | _ => True

instance (ec : EpCfg) (a : Bool) (tk : Tk) (sh : Shared) (e : OutState) (ev : HostEvent) (g : Gaps) :
    Decidable (EvOk ec a tk sh e ev g) := by
  cases ev <;> unfold EvOk <;> infer_instance

theorem outPre_quiet (ec : EpCfg) (sh : Shared) (e : OutState) (h : sh.halt = none) : outPre ec sh e = e := by
  simp [outPre, C12Sig.haltHits_none ec false sh h]

theorem outData_good (mps : Nat) (e : OutState) (pid : Nat) (p : List Nat) :
    outData mps e pid p true = (if pidToggleBit pid = e.toggle then accept mps e p else e, .hs PID_ACK) := by
  simp only [outData, accept, beq_iff_eq]
  split <;> simp

theorem outData_bad (mps : Nat) (e : OutState) (pid : Nat) (p : List Nat) :
    outData mps e pid p false = (e, .none) := by
  simp only [outData]
  split <;> simp

/-- **`cycle_refines_event` for the stream OUT endpoint.**  For every host event, every event-level state `e`,
every view `tk` / `sh` of the shared front end satisfying `ShOk`, every choice of idle-cycle counts and free input
values `g`, and — for a data event — every transaction of C13's acceptor carrying the event's packet (`EvOk`):
running `StreamOutEndpoint.step` (detector, FIFO and glue logic) over the expansion from ANY cycle-level state
related to `e` ends in a state related to the event-level successor, and the endpoint's outputs decode to exactly
the event-level outputs: ACK / NAK for a PING according to the FIFO space, ACK for a CRC-valid packet (new or
repeated toggle), nothing for a corrupted or foreign one, and the FIFO entries handed to the consumer. -/
theorem out_cycle_refines_event (ec : EpCfg) (hw : 0 < ec.size) (a : Bool) (tk : Tk) (sh : Shared) (e : OutState)
    (ev : HostEvent) (g : Gaps) (hsh : C12Sig.ShOk ec sh ev) (hev : EvOk ec a tk sh e ev g) :
    Ref (cfgOf ec) (phOf a tk) (phOf (armedNext a tk sh ev) (tkOf sh)) e (outEv ec sh e ev).1
      (expand ec tk sh ev g) (wiresOf (outEv ec sh e ev).2) := by
  have hmps : 1 ≤ (cfgOf ec).mps := hw
  have hother : sh.newTok = false → sh.halt = none →
      Ref (cfgOf ec) (phOf a tk) (phOf (a && tkOf sh == tk) (tkOf sh)) e (outPre ec sh e)
        (idle tk g.pre ++ idle (tkOf sh) g.post) (wiresOf {}) := by
    intro _ h2
    rw [outPre_quiet ec sh e h2]
    exact ref_idle_switch hmps e a tk (tkOf sh) g.pre g.post
  cases ev with
  | token pid addr ep =>
    have hpre : outPre ec sh e = e := outPre_quiet ec sh e hsh
    by_cases hnt : sh.newTok = true
    · simp only [expand, armedNext, hnt, if_true, outEv, hpre, true_and]
      have := (ref_idle hmps e a tk g.pre).append ((ref_newToken hmps e a tk (tkOf sh) g.n1).append
        ((ref_idle hmps e true (tkOf sh) g.mid).append ((ref_tokReady ec hw e (tkOf sh) g.n2).append
          (ref_idle hmps e true (tkOf sh) g.post))))
      by_cases ho : ownPing ec (tkOf sh)
      · have ho' : sh.tokEp = ec.num ∧ sh.tokPid = PID_PING := ho
        simp only [ho', and_self, if_true]
        exact this.wires_eq (by simp [ho])
      · have ho' : ¬(sh.tokEp = ec.num ∧ sh.tokPid = PID_PING) := ho
        simp only [ho', if_false]
        exact this.wires_eq (by simp [ho, wiresOf])
    · have hnt : sh.newTok = false := by simpa using hnt
      have := hother hnt hsh
      simpa only [expand, armedNext, hnt, Bool.false_eq_true, if_false, outEv, false_and, hpre] using this
  | handshake pid =>
    have hpre : outPre ec sh e = clr (haltHits ec false sh) e := rfl
    have := (ref_idle_switch hmps e a tk (tkOf sh) g.pre []).append
      ((ref_hs hmps e (a && tkOf sh == tk) (tkOf sh) g.n1 (haltHits ec false sh)).append
        (ref_idle hmps _ (a && tkOf sh == tk) (tkOf sh) g.post))
    simp only [expand, armedNext, outEv, hpre]
    refine (this.wires_eq (by simp [wiresOf])).mono_cycles ?_
    simp [idle]
  | consume ep n =>
    have hpre : outPre ec sh e = e := outPre_quiet ec sh e hsh.2
    by_cases hep : ep = ec.num
    · simp only [expand, armedNext, outEv, hpre, hep, if_true]
      have := (ref_idle_switch hmps e a tk (tkOf sh) g.pre []).append
        ((ref_consume hmps e (a && tkOf sh == tk) (tkOf sh) g.cgaps g.cn g.fin n).append
          (ref_idle hmps _ (a && tkOf sh == tk) (tkOf sh) g.post))
      refine (this.wires_eq (by simp [wiresOf])).mono_cycles ?_
      simp [idle]
    · have := hother hsh.1 hsh.2
      simpa only [expand, armedNext, outEv, hep, if_false, hpre] using this
  | data pid p crcOk =>
    have hpre : outPre ec sh e = e := outPre_quiet ec sh e hsh.2
    obtain ⟨htk, hseg, hfit⟩ := hev
    have hsh' : sh.tokEp = tk.ep ∧ sh.tokPid = tk.pid := by rw [← htk]; exact ⟨rfl, rfl⟩
    simp only [expand, armedNext, outEv, hpre, hsh'.1, hsh'.2]
    have hidle : phOf false (tkOf sh) = .idle := rfl
    rw [hidle]
    by_cases hown : tk.ep = ec.num ∧ tk.pid = PID_OUT
    · have ht : (tokOf tk).targets (cfgOf ec) = true := (tokOf_targets ec tk).mpr hown
      obtain ⟨ha, hfit'⟩ := hfit hown
      subst ha
      have harm : phOf true tk = .tok (tokOf tk) := rfl
      rw [harm]
      simp only [hown, and_self, if_true]
      cases crcOk with
      | false =>
        rw [outData_bad]
        exact (ref_data_bad hmps e hseg).wires_eq (by simp [wiresOf])
      | true =>
        rw [outData_good]
        exact (ref_data_own hmps e ht hfit' hseg).wires_eq (by simp [wiresOf])
    · have ht : (tokOf tk).targets (cfgOf ec) = false := by
        cases h : (tokOf tk).targets (cfgOf ec)
        · rfl
        · exact absurd ((tokOf_targets ec tk).mp h) hown
      simp only [hown, if_false]
      cases a with
      | false => exact (ref_data_unarmed hmps e ht hseg).wires_eq (by simp [wiresOf])
      | true =>
        have harm : phOf true tk = .tok (tokOf tk) := rfl
        rw [harm]
        cases crcOk with
        | false => exact (ref_data_bad hmps e hseg).wires_eq (by simp [wiresOf])
        | true => exact (ref_data_foreign hmps e ht hseg).wires_eq (by simp [wiresOf])
  | setSignal ep v =>
    have := hother hsh.1 hsh.2
    simpa only [expand, armedNext, outEv] using this
  | sof f =>
    have := hother hsh.1 hsh.2
    simpa only [expand, armedNext, outEv] using this
  | malformed b =>
    have := hother hsh.1 hsh.2
    simpa only [expand, armedNext, outEv] using this
  | quiet =>
    have := hother hsh.1 hsh.2
    simpa only [expand, armedNext, outEv] using this
  | busReset =>
    have := hother hsh.1 hsh.2
    simpa only [expand, armedNext, outEv] using this
  | produce e' b l =>
    have := hother hsh.1 hsh.2
    simpa only [expand, armedNext, outEv] using this

/-! ### Histories of the slice machine control endpoint × stream OUT endpoint -/

def tkD (d : DevState) : Tk := ⟨d.tokPid, d.tokEp⟩

/-- The cycles of a whole history (every event with its own idle-cycle counts, free inputs and transaction). -/
def expandAll (c : DevConfig) (ec : EpCfg) : DevState → List (HostEvent × Gaps) → List In
  | _, [] => []
  | d, (ev, g) :: rest => expand ec (tkD d) (sharedOf c d ev) ev g ++ expandAll c ec (core c d ev).1 rest

/-- The decoded cycle-level outputs, event by event. -/
def cycObs (c : DevConfig) (ec : EpCfg) : DevState → State → List (HostEvent × Gaps) → List (List Wire)
  | _, _, [] => []
  | d, s, (ev, g) :: rest =>
    let is := expand ec (tkD d) (sharedOf c d ev) ev g
    cycWires (cfgOf ec) s is :: cycObs c ec (core c d ev).1 (runState (cfgOf ec) s is) rest

/-- `EvOk` along a history: every data event follows a token accepted by this device, its cycles are a transaction
of C13's acceptor carrying its packet, and a packet for this endpoint fits into the FIFO as the event-level model
has it at that point. -/
def histOk (c : DevConfig) (ec : EpCfg) : DevState → OutState → Bool → List (HostEvent × Gaps) → Bool
  | _, _, _, [] => true
  | d, e, a, (ev, g) :: rest =>
    decide (EvOk ec a (tkD d) (sharedOf c d ev) e ev g) &&
      histOk c ec (core c d ev).1 (outEv ec (sharedOf c d ev) e ev).1 (armedNext a (tkD d) (sharedOf c d ev) ev) rest

/-- **`cycle_refines_event`, histories (stream OUT).**  Along every event history of the device satisfying `histOk`
(tokens for any endpoint and address, PINGs, data packets good / corrupted / repeated / for other endpoints, control
transfers including CLEAR_FEATURE(ENDPOINT_HALT), handshakes, consumer reads, with arbitrary idle-cycle counts and
free inputs per event and any acceptor-legal cycle sequence per data packet): the cycle-level endpoint, run over
the concatenated expansions from any state related to the event-level start state, ends related to the event-level
final state of the slice machine (`C12.sliceFinal`, which `C12.slice_of_final` identifies with the endpoint's state
inside the whole device), and its outputs decode, event by event, to the event-level outputs. -/
theorem out_cycle_refines_run (c : DevConfig) (ec : EpCfg) (hw : 0 < ec.size) (hn : 0 < ec.num)
    (h : List (HostEvent × Gaps)) :
    ∀ (d : DevState) (e : OutState) (a : Bool) (s : State), histOk c ec d e a h = true →
      Rel (cfgOf ec) e s (phOf a (tkD d)) →
      ∃ e' a', (C12.sliceFinal c ec (d, .sout e) (h.map (·.1))).2 = .sout e' ∧
        Rel (cfgOf ec) e' (runState (cfgOf ec) s (expandAll c ec d h))
          (phOf a' (tkD (C12.sliceFinal c ec (d, .sout e) (h.map (·.1))).1)) ∧
        cycObs c ec d s h = (C12.sliceRun c ec (d, .sout e) (h.map (·.1))).map wiresOf := by
  induction h with
  | nil => intro d e a s _ hr; exact ⟨e, a, rfl, hr, rfl⟩
  | cons x rest ih =>
    obtain ⟨ev, g⟩ := x
    intro d e a s hok hr
    simp only [histOk, Bool.and_eq_true, decide_eq_true_eq] at hok
    obtain ⟨a1, a2⟩ := out_cycle_refines_event ec hw a (tkD d) (sharedOf c d ev) e ev g
      (C12Sig.shOk_sharedOf c ec hn d ev) hok.1 s hr
    have htk : tkOf (sharedOf c d ev) = tkD (core c d ev).1 := rfl
    rw [htk] at a1
    obtain ⟨e', a', b1, b2, b3⟩ := ih (core c d ev).1 (outEv ec (sharedOf c d ev) e ev).1 _ _ hok.2 a1
    have hstep : C12.sliceStep c ec (d, .sout e) ev =
        (((core c d ev).1, .sout (outEv ec (sharedOf c d ev) e ev).1), (outEv ec (sharedOf c d ev) e ev).2) := by
      simp only [C12.sliceStep, epStep_sout]
    refine ⟨e', a', ?_, ?_, ?_⟩
    · simp only [List.map_cons, C12.sliceFinal, hstep]; exact b1
    · simp only [List.map_cons, C12.sliceFinal, hstep, expandAll, runState_append]; exact b2
    · simp only [List.map_cons, cycObs, C12.sliceRun, hstep, a2, b3]

/-! ### `histOk` from the event level's legality conditions

`EpDev.legalEvent` lets a data packet only follow a token directly (`gPrevTok`) and makes an OUT packet for a stream
endpoint fit its FIFO.  That is enough for the `armed` part of `histOk`: the token before the packet was either
accepted by this device (so the acceptor is armed) or it was not (so the PID register has been cleared and the
registers do not name the endpoint). -/

def isToken : HostEvent → Bool
  | .token _ _ _ => true
  | _ => false

/-- every data event directly follows a token event (`prevTok`), its cycles are a transaction of C13's acceptor
carrying its packet, and it fits the FIFO if the registers name the endpoint -/
def legalOk (c : DevConfig) (ec : EpCfg) : DevState → OutState → Bool → List (HostEvent × Gaps) → Bool
  | _, _, _, [] => true
  | d, e, prevTok, (ev, g) :: rest =>
    (match ev with
     | .data pid p crcOk =>
       prevTok && segOk (cfgOf ec) (tokOf (tkD d)) (tn (pidToggleBit pid)) p crcOk g.seg g.resp g.tail &&
       decide ((d.tokEp = ec.num ∧ d.tokPid = PID_OUT) → e.fifo.length + p.length ≤ ec.depth)
     | _ => true) &&
    legalOk c ec (core c d ev).1 (outEv ec (sharedOf c d ev) e ev).1 (isToken ev) rest

theorem histOk_of_legalOk (c : DevConfig) (ec : EpCfg) (h : List (HostEvent × Gaps)) :
    ∀ (d : DevState) (e : OutState) (a prevTok : Bool), legalOk c ec d e prevTok h = true →
      (prevTok = true → a = true ∨ d.tokPid ≠ PID_OUT) → histOk c ec d e a h = true := by
  induction h with
  | nil => intro d e a pt _ _; rfl
  | cons x rest ih =>
    obtain ⟨ev, g⟩ := x
    intro d e a pt hl hj
    simp only [legalOk, Bool.and_eq_true] at hl
    obtain ⟨h1, h2⟩ := hl
    simp only [histOk, Bool.and_eq_true, decide_eq_true_eq]
    cases ev with
    | data pid p crcOk =>
      simp only [Bool.and_eq_true, decide_eq_true_eq] at h1
      obtain ⟨⟨hpt, hseg⟩, hfit⟩ := h1
      refine ⟨⟨?_, hseg, ?_⟩, ih _ _ _ _ h2 (by simp [isToken])⟩
      · have := Device.onData_tok c d p crcOk
        show (⟨(core c d (.data pid p crcOk)).1.tokPid, (core c d (.data pid p crcOk)).1.tokEp⟩ : Tk) = tkD d
        simp only [core, this.1, this.2, tkD]
      · intro hown
        refine ⟨?_, hfit hown⟩
        rcases hj hpt with ha | hne
        · exact ha
        · exact absurd hown.2 hne
    | token pid addr ep =>
      refine ⟨trivial, ih _ _ _ _ h2 ?_⟩
      intro _
      by_cases haddr : addr = d.address
      · left; simp [armedNext, sharedOf, EpDev.acceptedToken, haddr]
      · right; simp [core, haddr, PID_OUT]
    | handshake pid => exact ⟨trivial, ih _ _ _ _ h2 (by simp [isToken])⟩
    | sof f => exact ⟨trivial, ih _ _ _ _ h2 (by simp [isToken])⟩
    | malformed b => exact ⟨trivial, ih _ _ _ _ h2 (by simp [isToken])⟩
    | quiet => exact ⟨trivial, ih _ _ _ _ h2 (by simp [isToken])⟩
    | busReset => exact ⟨trivial, ih _ _ _ _ h2 (by simp [isToken])⟩
    | produce e' b l => exact ⟨trivial, ih _ _ _ _ h2 (by simp [isToken])⟩
    | consume e' k => exact ⟨trivial, ih _ _ _ _ h2 (by simp [isToken])⟩
    | setSignal e' v => exact ⟨trivial, ih _ _ _ _ h2 (by simp [isToken])⟩

/-- **`cycle_refines_event`, histories, from reset, under the event level's legality conditions** (`legalOk`: a data
packet directly follows a token, an OUT packet for the endpoint fits its FIFO; plus the shape of every packet's cycle
sequence, `segOk`). -/
theorem out_cycle_refines_legal (c : DevConfig) (ec : EpCfg) (hw : 0 < ec.size) (hn : 0 < ec.num)
    (h : List (HostEvent × Gaps)) (hl : legalOk c ec Device.init {} false h = true) :
    ∃ e' a', (C12.sliceFinal c ec (Device.init, .sout {}) (h.map (·.1))).2 = .sout e' ∧
      Rel (cfgOf ec) e' (runState (cfgOf ec) init (expandAll c ec Device.init h))
        (phOf a' (tkD (C12.sliceFinal c ec (Device.init, .sout {}) (h.map (·.1))).1)) ∧
      cycObs c ec Device.init init h = (C12.sliceRun c ec (Device.init, .sout {}) (h.map (·.1))).map wiresOf :=
  out_cycle_refines_run c ec hw hn h Device.init {} false init
    (histOk_of_legalOk c ec h Device.init {} false false hl (by simp)) (rel_init _)

/-! ### Non-vacuity: stream OUT endpoint 2, max packet size 8, buffer 12 -/

def exEc : EpCfg := ⟨.streamOut, 2, 8, 12⟩

/-- free inputs: every field the expansion determines is set to the "wrong" value on purpose -/
def exIn : In := ⟨⟨true, true, 0x77, true, true⟩, true, 3, 9, true, true, true, true, true, true⟩

/-- the cycles of a data packet as `USBDataPacketReceiver` presents it: two idle cycles, the bytes (a pause after
the first), `valid` without `next`, the `rx_complete` / `rx_invalid` strobe in the cycle `valid` falls, three idle
cycles; the response request; two idle cycles -/
def exIdl (tk : Tk) (pidT : Nat) : In := envIn tk { exIn with pidToggle := pidT }

def exSeg (tk : Tk) (pidT : Nat) (payload : List Nat) (ok : Bool) : List In :=
  [exIdl tk pidT, exIdl tk pidT] ++
  (payload.take 1).map (fun b => { exIdl tk pidT with rx := ⟨true, true, b, false, false⟩ }) ++
  [{ exIdl tk pidT with rx := ⟨true, false, 0, false, false⟩ }] ++
  (payload.drop 1).map (fun b => { exIdl tk pidT with rx := ⟨true, true, b, false, false⟩ }) ++
  [{ exIdl tk pidT with rx := ⟨true, false, 0, false, false⟩ },
   { exIdl tk pidT with rx := ⟨false, false, 0, ok, !ok⟩ }] ++ List.replicate 3 (exIdl tk pidT)

def exGaps : Gaps :=
  { pre := [exIn, { exIn with ready := false }], mid := [exIn], post := [exIn], n1 := exIn, n2 := exIn,
    cgaps := fun k => List.replicate k exIn, cn := fun _ => exIn, fin := exIn, seg := [], resp := exIn, tail := [] }

def exData (tk : Tk) (pid : Nat) (payload : List Nat) (ok : Bool) : HostEvent × Gaps :=
  (.data pid payload ok,
   { exGaps with seg := exSeg tk (tn (pidToggleBit pid)) payload ok,
                 resp := { exIdl tk (tn (pidToggleBit pid)) with rxReady := true },
                 tail := [exIdl tk (tn (pidToggleBit pid)), exIdl tk (tn (pidToggleBit pid))] })

def out2 : Tk := ⟨PID_OUT, 2⟩

/-- PING (ACK: the FIFO is empty); DATA0 `[11,12,13]` (ACK, committed); the same packet again (ACK, dropped);
DATA1 `[21,22]` corrupted (nothing), then good (ACK); PING (NAK: 12 − 5 < 8); the consumer reads 4 entries; an OUT
transaction for endpoint 1 (nothing); an OUT transaction for endpoint 2 of the device with address 5 (no `new_token`,
the PID register is cleared: nothing); DATA0 `[31]` (ACK; DATA1 is expected next); CLEAR_FEATURE(ENDPOINT_HALT) for
OUT 2; DATA0 `[41]` (ACK and committed: the toggle has been reset); the consumer reads the rest. -/
def exHistory : List (HostEvent × Gaps) :=
  [(.token PID_PING 0 2, exGaps),
   (.token PID_OUT 0 2, exGaps), exData out2 PID_DATA0 [11, 12, 13] true,
   (.token PID_OUT 0 2, exGaps), exData out2 PID_DATA0 [11, 12, 13] true,
   (.token PID_OUT 0 2, exGaps), exData out2 PID_DATA1 [21, 22] false,
   (.token PID_OUT 0 2, exGaps), (.quiet, exGaps), exData out2 PID_DATA1 [21, 22] true,
   (.token PID_PING 0 2, exGaps), (.consume 2 4, exGaps),
   (.token PID_OUT 0 1, exGaps), exData ⟨PID_OUT, 1⟩ PID_DATA0 [9] true,
   (.token PID_OUT 5 2, exGaps), exData ⟨0, 1⟩ PID_DATA1 [7, 7] true,
   (.token PID_OUT 0 2, exGaps), exData out2 PID_DATA0 [31] true,
   (.token Device.PID_SETUP 0 0, exGaps), exData ⟨Device.PID_SETUP, 0⟩ PID_DATA0 [0x02, 1, 0, 0, 0x02, 0, 0, 0] true,
   (.token Device.PID_IN 0 0, exGaps), (.handshake PID_ACK, exGaps),
   (.token PID_OUT 0 2, exGaps), exData out2 PID_DATA0 [41] true,
   (.consume 2 9, exGaps)]

example : histOk {} exEc Device.init {} false exHistory = true := by decide +kernel
/-- the history without its fourth OUT transaction, in which a `quiet` event separates token and data packet, also
satisfies the event level's legality conditions -/
example : legalOk {} exEc Device.init {} false (exHistory.take 7 ++ exHistory.drop 10) = true := by decide +kernel
example : (C12.sliceRun {} exEc (Device.init, .sout {}) (exHistory.map (·.1))).map wiresOf =
    [[.ack], [], [.ack], [], [.ack], [], [], [], [], [.ack], [.nak],
     [.xfer (11, true, false), .xfer (12, false, false), .xfer (13, false, true), .xfer (21, true, false)],
     [], [], [], [], [], [.ack], [], [], [], [], [], [.ack],
     [.xfer (22, false, true), .xfer (31, true, true), .xfer (41, true, true)]] := by decide +kernel
/-- … and without the CLEAR_FEATURE transfer `[41]` is ACKed as a repetition and dropped -/
example : ((C12.sliceRun {} exEc (Device.init, .sout {}) ((exHistory.take 18 ++ exHistory.drop 22).map (·.1))).map
    wiresOf).getLast? = some [.xfer (22, false, true), .xfer (31, true, true)] := by decide +kernel
example : cycObs {} exEc Device.init init exHistory =
    (C12.sliceRun {} exEc (Device.init, .sout {}) (exHistory.map (·.1))).map wiresOf := by decide +kernel
example : (expandAll {} exEc Device.init exHistory).length = 260 := by decide +kernel
/-- the hypotheses of `out_cycle_refines_run` hold for this history from reset -/
example : ∃ e' a', (C12.sliceFinal {} exEc (Device.init, .sout {}) (exHistory.map (·.1))).2 = .sout e' ∧
    Rel (cfgOf exEc) e' (runState (cfgOf exEc) init (expandAll {} exEc Device.init exHistory))
      (phOf a' (tkD (C12.sliceFinal {} exEc (Device.init, .sout {}) (exHistory.map (·.1))).1)) ∧
    cycObs {} exEc Device.init init exHistory
      = (C12.sliceRun {} exEc (Device.init, .sout {}) (exHistory.map (·.1))).map wiresOf :=
  out_cycle_refines_run {} exEc (by decide) (by decide) exHistory Device.init {} false init (by decide +kernel)
    (rel_init _)

/-! ### Non-vacuity of the generalised hypothesis: stream OUT endpoint 2, max packet size 4, buffer 7

The bus also carries a 20-byte packet for endpoint 1 and the 8-byte SETUP packet of a control transfer: both are
longer than this endpoint's max packet size; the former hypothesis (`segOkStrict`) rejects their cycle sequences. -/

def exEc4 : EpCfg := ⟨.streamOut, 2, 4, 7⟩

def exHistory4 : List (HostEvent × Gaps) :=
  [(.token PID_OUT 0 2, exGaps), exData out2 PID_DATA0 [11, 12, 13, 14] true,
   (.token PID_OUT 0 1, exGaps), exData ⟨PID_OUT, 1⟩ PID_DATA0 (List.range 20) true,
   (.token Device.PID_SETUP 0 0, exGaps), exData ⟨Device.PID_SETUP, 0⟩ PID_DATA0 [0x02, 1, 0, 0, 0x02, 0, 0, 0] true,
   (.token Device.PID_IN 0 0, exGaps), (.handshake PID_ACK, exGaps),
   (.token PID_OUT 0 2, exGaps), exData out2 PID_DATA0 [41] true,
   (.consume 2 9, exGaps)]

example : histOk {} exEc4 Device.init {} false exHistory4 = true := by decide +kernel
example :
    let g := (exData ⟨Device.PID_SETUP, 0⟩ PID_DATA0 [0x02, 1, 0, 0, 0x02, 0, 0, 0] true).2
    segOk (cfgOf exEc4) (tokOf ⟨Device.PID_SETUP, 0⟩) 0 [0x02, 1, 0, 0, 0x02, 0, 0, 0] true g.seg g.resp g.tail = true ∧
    segOkStrict (cfgOf exEc4) (tokOf ⟨Device.PID_SETUP, 0⟩) 0 [0x02, 1, 0, 0, 0x02, 0, 0, 0] true g.seg g.resp g.tail
      = false := by decide +kernel
example : cycObs {} exEc4 Device.init init exHistory4 =
    [[], [.ack], [], [], [], [], [], [], [], [.ack],
     [.xfer (11, true, false), .xfer (12, false, false), .xfer (13, false, false), .xfer (14, false, false),
      .xfer (41, false, true)]] := by decide +kernel
/-- the hypotheses of `out_cycle_refines_run` hold for this history from reset -/
example : ∃ e' a', (C12.sliceFinal {} exEc4 (Device.init, .sout {}) (exHistory4.map (·.1))).2 = .sout e' ∧
    Rel (cfgOf exEc4) e' (runState (cfgOf exEc4) init (expandAll {} exEc4 Device.init exHistory4))
      (phOf a' (tkD (C12.sliceFinal {} exEc4 (Device.init, .sout {}) (exHistory4.map (·.1))).1)) ∧
    cycObs {} exEc4 Device.init init exHistory4
      = (C12.sliceRun {} exEc4 (Device.init, .sout {}) (exHistory4.map (·.1))).map wiresOf :=
  out_cycle_refines_run {} exEc4 (by decide) (by decide) exHistory4 Device.init {} false init (by decide +kernel)
    (rel_init _)

end LunaVerif.C12Out
