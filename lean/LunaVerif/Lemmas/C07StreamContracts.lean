import LunaVerif.Lemmas.C07StreamMain
import LunaVerif.Model.Usb2.ControlCycSys
import LunaVerif.Props.C27
import LunaVerif.Props.C09
/-!
# The stream contracts of `cycle_refines_event_streams`, discharged on the models of the two streamers

`expandS` (Lemmas/C07StreamMain.lean) lets the `StreamSerializer` "transmitter" and the descriptor handler -- inputs
of the cycle-level model -- follow a stream contract: silent unless started; started, they answer with
`Desc.respTrace (lat + 1) R` for the answer `R` named by `streamOf`.  This file proves that this is what the MODELS
of those two modules do when they are driven by the wires of the standard request handler:

  * `streamers_not_started`, `ready_cycle_wires`, `window_wires`: what the handler drives towards the streamers
    (`start` only in the `ready_for_response` cycle of a data-stage IN token in a streaming state;
    `max_length` / `data` resp. `value` / `length` / `start_position` as the contract's answer assumes; `ready` =
    `tx.ready` during the window);
  * `transmitter_contract` (from C27 `ser_run_sim`, the proof of `serializer_emits_slice`): the serializer
    `StreamSerializer(data_length=2, max_length_width=2)` started in any idle state with `max_length = L`, `data`
    held, answers `respTrace 1 (.data (data.take L))` for EVERY `tx.ready` pattern;
  * `descriptorPacket_spec` + `block_handler_contract` (from C09 `block_packet_exact`): the block descriptor handler
    of a well-formed collection, started in any idle state at an in-order offset, answers
    `respTrace lat (descResp (descriptorPacket …))` with `1 ≤ lat ≤ 4` for EVERY `tx.ready` pattern -- the
    event-level `descriptorPacket` is C09's `specResponse`.

Not formal: the closed loop (the models of the streamers composed with `CtrlCyc.step`); the contracts are stated in
the vocabulary of the expansion (`Desc.respTrace`), so the remaining gap is the wiring itself.
-/
namespace LunaVerif.CtrlCyc
open LunaVerif.Device

/-! ### The wires -/

/-- Outside a `ready_for_response` cycle no streamer is started -- from ANY state, for ANY other input values. -/
theorem streamers_not_started (cyc : Cfg) (cs : CycState) (i : CycIn) (h : i.readyForResponse = false) :
    (step cyc cs i).2.h.tStart = false ∧ (step cyc cs i).2.h.dStart = false := by
  have hdr : (ctrlComb cyc cs.stage i).dataRequested = false := by simp [ctrlComb, h]
  rw [step_hout]
  simp only [stdStep]
  split
  · simp only [stdComb]
    cases cs.h.hstate <;> simp [simpleDataOut, regWriteZlp, handlerIn, hdr]
  · exact ⟨rfl, rfl⟩

theorem ctrlComb_ready (c : DevConfig) (d : DevState) (n : CycIn) :
    ctrlComb (cfgOf c) d.stage { envIn d n with readyForResponse := true } =
      ⟨readyDr d, readySr d, false, readyPing d⟩ := by
  unfold readyDr readySr readyPing
  by_cases h0 : d.tokEp = 0 <;> cases hs : d.stage <;> by_cases h1 : d.tokPid = PID_IN <;>
    by_cases h2 : d.tokPid = PID_PING <;> by_cases h3 : d.tokPid = PID_OUT <;>
    simp_all [ctrlComb, envIn, targeted, cfgOf, PID_IN, PID_PING, PID_OUT]

/-- The `ready_for_response` cycle of an event that starts a streamer (`streamOf`): the handler pulses `start` of
exactly that streamer; the transmitter gets `max_length` and `data` such that `data[0:max_length]` is the contract's
answer; the descriptor handler is started at the event-level `start_position` (its `value` / `length` inputs are
wired to the setup packet the cycle shows, `i.su = d.setup`). -/
theorem ready_cycle_wires (c : DevConfig) (d : DevState) (n : CycIn) (cs : CycState) (hr : Rel d cs) (fd : Bool)
    (R : Desc.Response) (h : streamOf c d = some (fd, R)) :
    let o := (step (cfgOf c) cs { envIn d n with readyForResponse := true }).2.h
    if fd then o.dStart = true ∧ o.tStart = false ∧ cs.h.startPos = d.startPos
    else o.tStart = true ∧ o.dStart = false ∧ (o.tMaxLen = 1 ∨ o.tMaxLen = 2) ∧
      R = .data ([o.tData0, 0].take o.tMaxLen) := by
  obtain ⟨hst, h1, h2, h3⟩ := hr
  unfold streamOf at h
  split at h
  · rename_i hc
    obtain ⟨hdr, hty⟩ := hc
    have hcc := ctrlComb_ready c d n
    simp only [step_hout, hst, hcc]
    cases hd : d.hstate <;> simp only [hd] at h <;> (first | (cases h; done) | skip)
    · simp only [Option.some.injEq, Prod.mk.injEq] at h
      obtain ⟨rfl, rfl⟩ := h
      simp [stdStep, hty, stdComb, h1, hd, simpleDataOut, handlerIn, hdr, envIn]
    · simp only [Option.some.injEq, Prod.mk.injEq] at h
      obtain ⟨rfl, rfl⟩ := h
      have := h3 (by rw [hd]; simp)
      simp [stdStep, hty, stdComb, h1, hd, handlerIn, hdr, this.1, envIn]
    · simp only [Option.some.injEq, Prod.mk.injEq] at h
      obtain ⟨rfl, rfl⟩ := h
      simp [stdStep, hty, stdComb, h1, hd, simpleDataOut, handlerIn, hdr, envIn]
  · exact absurd h (by simp)

/-- During the window the streamer's `ready` is the `tx.ready` of the cycle, the transmitter's `max_length` / `data`
and the descriptor handler's `start_position` are held. -/
theorem window_wires (c : DevConfig) (d : DevState) (fd : Bool) (b : Desc.Beat) (n : CycIn) (cs : CycState)
    (hr : Rel d cs) (hs : StreamState d fd) :
    let o := (step (cfgOf c) cs (envIn d (beatIn fd b n))).2.h
    if fd then o.dReady = n.txReady ∧ cs.h.startPos = d.startPos
    else o.tReady = n.txReady ∧
      ((d.hstate = .getStatus ∧ o.tMaxLen = 2 ∧ o.tData0 = 0) ∨
       (d.hstate = .getConfiguration ∧ o.tMaxLen = 1 ∧ o.tData0 = d.config % 256)) := by
  obtain ⟨hst, h1, h2, h3⟩ := hr
  obtain ⟨hty, hh⟩ := hs
  simp only [step_hout]
  cases fd
  · rcases hh with hh | hh <;>
      simp [stdStep, hty, stdComb, h1, hh, simpleDataOut, handlerIn, envIn, beatIn]
  · simp only [if_true] at hh
    have := h3 (by rw [hh]; simp)
    simp [stdStep, hty, stdComb, h1, hh, handlerIn, envIn, beatIn, this.1]

/-! ### The transmitter: `StreamSerializer(data_length=2, max_length_width=2)` (C27) -/

open LunaVerif.StreamGen in
/-- The serializer's inputs for one request: `start` pulsed in the first cycle; `start_position = 0`,
`max_length = L` and the data array held; `rs` is the `ready` pattern. -/
def serReqInputs (L : Nat) (data : List Nat) : List Bool → List SerIn
  | [] => []
  | r :: rs => ⟨true, 0, L, r, data⟩ :: rs.map (fun r => ⟨false, 0, L, r, data⟩)

def beatOfSer (o : StreamGen.SerOut) : Desc.Beat := ⟨o.valid, o.first, o.last, o.payload, false⟩

section
open LunaVerif.StreamGen

def serHold (L : Nat) (data : List Nat) (rs : List Bool) : List SerIn := rs.map (fun r => ⟨false, 0, L, r, data⟩)

theorem sendTrace_over_eq (bytes : List Nat) (k : Nat) (hk : ¬ k < bytes.length) (rs : List Bool) :
    Desc.sendTrace bytes k rs = Desc.idleTrace rs := by
  induction rs with
  | nil => rfl
  | cons r rs ih => simp only [Desc.sendTrace, hk, if_false, ih]; rfl

theorem txSpec_idle (L : Nat) (hL : L < 4) (data : List Nat) (rs : List Bool) :
    (serSpecRun txCfg .idle (serHold L data rs)).map beatOfSer = Desc.idleTrace rs ∧
    SerEnvRun txCfg .idle (serHold L data rs) := by
  induction rs with
  | nil => exact ⟨rfl, trivial⟩
  | cons r rs ih =>
    simp only [serHold, List.map_cons, serSpecRun, serSpecOut, serSpecNext, SerEnvRun, SerEnv] at ih ⊢
    simp only [Bool.false_eq_true, false_and, if_false]
    refine ⟨by rw [ih.1]; rfl, ⟨by simpa [txCfg] using hL, by simp⟩, ih.2⟩

theorem txSpec_done (L : Nat) (hL : L < 4) (data : List Nat) (rs : List Bool) :
    (serSpecRun txCfg .done (serHold L data rs)).map beatOfSer = Desc.idleTrace rs ∧
    SerEnvRun txCfg .done (serHold L data rs) := by
  cases rs with
  | nil => exact ⟨rfl, trivial⟩
  | cons r rs =>
    have ih := txSpec_idle L hL data rs
    simp only [serHold, List.map_cons, serSpecRun, serSpecOut, serSpecNext, SerEnvRun, SerEnv] at ih ⊢
    exact ⟨by rw [ih.1]; rfl, trivial, ih.2⟩

/-- the player inside an emission of `[a, b].take L`. -/
theorem txSpec_play (a b L : Nat) (hL : L = 1 ∨ L = 2) (rs : List Bool) : ∀ k, k < L →
    (serSpecRun txCfg (.play 0 L k) (serHold L [a, b] rs)).map beatOfSer = Desc.sendTrace ([a, b].take L) k rs ∧
    SerEnvRun txCfg (.play 0 L k) (serHold L [a, b] rs) := by
  induction rs with
  | nil => intro k _; exact ⟨rfl, trivial⟩
  | cons r rs ih =>
    intro k hk
    have hlen : ([a, b].take L).length = L := by rcases hL with rfl | rfl <;> rfl
    have hcnt : serCount txCfg 0 L = L := by rcases hL with rfl | rfl <;> rfl
    have hlim : ∀ r, serLimit txCfg ⟨false, 0, L, r, [a, b]⟩ = L := fun _ => rfl
    simp only [serHold, List.map_cons, serSpecRun, serSpecOut, serSpecNext, SerEnvRun, SerEnv, Desc.sendTrace, hlen, hk,
      if_true, hcnt, hlim] at ih ⊢
    have hkk : (L = 1 ∧ k = 0) ∨ (L = 2 ∧ k = 0) ∨ (L = 2 ∧ k = 1) := by omega
    have hd := txSpec_done L (by omega) [a, b] rs
    simp only [serHold] at hd
    cases r with
    | false =>
      simp only [Bool.false_eq_true, if_false]
      obtain ⟨i1, i2⟩ := ih k hk
      refine ⟨?_, ?_⟩
      · rw [i1]
        rcases hkk with ⟨rfl, rfl⟩ | ⟨rfl, rfl⟩ | ⟨rfl, rfl⟩ <;> rfl
      · simpa using i2
    | true =>
      simp only [if_true]
      by_cases hl : k + 1 = L
      · simp only [if_pos hl]
        rw [sendTrace_over_eq _ _ (by rw [hlen]; omega)]
        refine ⟨?_, ?_⟩
        · rw [hd.1]
          rcases hkk with ⟨rfl, rfl⟩ | ⟨rfl, rfl⟩ | ⟨rfl, rfl⟩ <;> first | rfl | omega
        · simpa using hd.2
      · simp only [if_neg hl]
        obtain ⟨i1, i2⟩ := ih (k + 1) (by omega)
        refine ⟨?_, ?_⟩
        · rw [i1]
          rcases hkk with ⟨rfl, rfl⟩ | ⟨rfl, rfl⟩ | ⟨rfl, rfl⟩ <;> first | rfl | omega
        · simpa using i2

/-- **The transmitter's contract** (C27): `StreamSerializer(data_length=2, max_length_width=2)`, in ANY idle state
(whatever its position / byte counters hold), started with `max_length = L ∈ {1, 2}` and the data array `[a, b]`
held, presents for EVERY `ready` pattern `rs` exactly `respTrace 1 (.data ([a, b].take L))`: one silent cycle, then
the bytes one by one with `first` / `last`, each held until `ready`, then silence (its `done` cycle included). -/
theorem transmitter_contract (a b L : Nat) (hL : L = 1 ∨ L = 2) (σ : SerState) (hσ : σ.fsm = .idle) (rs : List Bool) :
    (serRun txCfg σ (serReqInputs L [a, b] rs)).map beatOfSer = Desc.respTrace 1 (.data ([a, b].take L)) rs := by
  cases rs with
  | nil => rfl
  | cons r rs =>
    have hp := txSpec_play a b L hL rs 0 (by omega)
    have hE : SerEnvRun txCfg .idle (serReqInputs L [a, b] (r :: rs)) := by
      simp only [serReqInputs, SerEnvRun, SerEnv, serSpecNext]
      have hlim : serLimit txCfg ⟨true, 0, L, r, [a, b]⟩ = L := rfl
      simp only [hlim, true_and]
      rw [if_pos (by omega)]
      exact ⟨⟨by simp only [txCfg]; omega, fun _ _ => by simp [txCfg]⟩, hp.2⟩
    rw [ser_run_sim txCfg (by simp [txCfg]) σ .idle (by simpa [SerR] using hσ) _ hE]
    simp only [serReqInputs, serSpecRun, serSpecOut, serSpecNext, List.map_cons]
    have hlim : serLimit txCfg ⟨true, 0, L, r, [a, b]⟩ = L := rfl
    simp only [hlim, true_and]
    rw [if_pos (by omega)]
    have := hp.1
    simp only [serHold] at this
    rw [this]
    rfl

end

/-! ### The descriptor handler: `GetDescriptorHandlerBlock` (C09) -/

/-- The event-level descriptor table as a C09 collection. -/
def collOf (ds : List (Nat × Nat × List Nat)) : Desc.Collection := ds.map (fun x => ⟨x.1, x.2.1, x.2.2⟩)

theorem lookup_collOf (ds : List (Nat × Nat × List Nat)) (ty idx : Nat) :
    lookupDescriptor ds ty idx = Desc.descrBytes (collOf ds) ty idx := by
  induction ds with
  | nil => rfl
  | cons x ds ih =>
    obtain ⟨t, i, b⟩ := x
    simp only [lookupDescriptor, collOf, List.map_cons, Desc.descrBytes, Desc.find?, List.find?_cons] at ih ⊢
    by_cases h : t = ty ∧ i = idx
    · simp [h]
    · rw [if_neg h]
      have : (t == ty && i == idx) = false := by
        simp only [Bool.and_eq_false_imp, beq_iff_eq, beq_eq_false_iff_ne, ne_eq]
        intro h1 h2; exact h ⟨h1, h2⟩
      simp only [this]
      exact ih

theorem descResp_some_ne (x : List Nat) (h : x ≠ []) : descResp (some x) = .data x := by
  cases x with
  | nil => exact absurd rfl h
  | cons b bs => rfl

/-- **The event-level `descriptorPacket` is C09's `specResponse`** at every in-order offset (`p ≤ min wLength |d|`,
the position register wide enough for the descriptor). -/
theorem descriptorPacket_spec (c : DevConfig) (v l p : Nat) (hmp : 0 < c.maxPacket) (hl : l < 65536)
    (hp : ∀ d, lookupDescriptor c.descriptors (v / 256 % 256) (v % 256) = some d →
      p ≤ min l d.length ∧ d.length < 2 ^ c.posBits) :
    descResp (descriptorPacket c v l p) =
      Desc.specResponse (lookupDescriptor c.descriptors (v / 256 % 256) (v % 256)) l c.maxPacket p := by
  unfold descriptorPacket
  cases hlk : lookupDescriptor c.descriptors (v / 256 % 256) (v % 256) with
  | none => rfl
  | some d =>
    obtain ⟨hp1, hp2⟩ := hp d hlk
    have hrem : (l + 131072 - p) % 131072 = l - p := by omega
    have hpp : p % 2 ^ c.posBits = p := Nat.mod_eq_of_lt (by omega)
    simp only [hrem, hpp, Desc.specResponse]
    by_cases hlt : p < min l d.length
    · rw [if_pos hlt]
      have hlen : (if l - p ≤ c.maxPacket then l - p else c.maxPacket) ≠ 0 := by split <;> omega
      rw [if_neg hlen, if_neg (by omega)]
      have heq : ((d.take l).drop p).take c.maxPacket
          = (d.drop p).take (if l - p ≤ c.maxPacket then l - p else c.maxPacket) := by
        rw [List.drop_take, List.take_take]
        congr 1
        split <;> omega
      rw [heq, descResp_some_ne]
      intro hnil
      have := congrArg List.length hnil
      simp only [List.length_take, List.length_drop, List.length_nil] at this
      omega
    · rw [if_neg hlt]
      by_cases hz : (if l - p ≤ c.maxPacket then l - p else c.maxPacket) = 0
      · rw [if_pos hz]; rfl
      · have hlp : l - p ≠ 0 := by
          intro h; apply hz; split <;> omega
        rw [if_neg hz, if_pos (by omega)]; rfl

open LunaVerif.Desc in
/-- **The descriptor handler's contract** (C09 `block_packet_exact`): the block descriptor handler built from the
event-level descriptor table, in ANY idle state, started with the wires of the standard request handler
(`value` / `length` of the setup packet, `start_position`) at an in-order offset, presents for EVERY `tx.ready`
pattern `rs` exactly `respTrace lat R` for the answer `R = descResp (descriptorPacket …)` that `streamOf` puts into
the expansion, with a latency `1 ≤ lat ≤ 4`. -/
theorem block_handler_contract (c : DevConfig) (hwf : wellFormed (collOf c.descriptors) = true)
    (hm : c.maxPacket = 8 ∨ c.maxPacket = 16 ∨ c.maxPacket = 32 ∨ c.maxPacket = 64)
    (hpw : 2 ≤ (Rom.layout (collOf c.descriptors)).maxLen)
    (s0 : Block.State) (h0 : s0.fsm = .idle) (v l p : Nat) (hv : v < 65536) (hl : l < 65536)
    (hp : ∀ d, lookupDescriptor c.descriptors (v / 256 % 256) (v % 256) = some d →
      p ≤ min l d.length ∧ d.length < 2 ^ c.posBits)
    (rs : List Bool) :
    ∃ lat, 1 ≤ lat ∧ lat ≤ 4 ∧
      Block.run (blockOf (collOf c.descriptors) c.maxPacket) s0 (Block.reqInputs v l p rs)
        = respTrace lat (descResp (descriptorPacket c v l p)) rs := by
  have hty : v / 256 % 256 < 256 := Nat.mod_lt _ (by decide)
  have hidx : v % 256 < 256 := Nat.mod_lt _ (by decide)
  have hv' : v / 256 % 256 * 256 + v % 256 = v := by omega
  obtain ⟨lat, h1, h2, h3⟩ := block_packet_exact (collOf c.descriptors) c.maxPacket s0 (v / 256 % 256) (v % 256) l p rs
    hwf hm hpw hty hidx hl h0 (by
      intro d hd
      rw [← lookup_collOf] at hd
      exact (hp d hd).1)
  refine ⟨lat, h1, h2, ?_⟩
  rw [hv'] at h3
  rw [h3, descriptorPacket_spec c v l p (by omega) hl hp, lookup_collOf]

open LunaVerif.Desc in
/-- The same for `GetDescriptorHandlerDistributed` (C09 `dist_packet_exact`; its generators cannot be asked for
`start_position = wLength`, so `p < l`): `respTrace lat (descResp (descriptorPacket …))` with `lat ≤ 2` -- a missing
descriptor is STALLed in the start cycle itself (`lat = 0`: `GapsS.stallNow` in the expansion). -/
theorem dist_handler_contract (c : DevConfig)
    (hm : c.maxPacket = 8 ∨ c.maxPacket = 16 ∨ c.maxPacket = 32 ∨ c.maxPacket = 64)
    (hwf : ∀ d ∈ collOf c.descriptors, d.idx < 256)
    (s0 : Dist.State) (h0 : Dist.Quiescent (distOf (collOf c.descriptors) c.maxPacket) s0)
    (v l p : Nat) (hv : v < 65536) (hl : l < 65536)
    (hp : ∀ d, lookupDescriptor c.descriptors (v / 256 % 256) (v % 256) = some d →
      p ≤ min l d.length ∧ d.length < 2 ^ c.posBits ∧ p < l)
    (rs : List Bool) :
    ∃ lat, lat ≤ 2 ∧
      Dist.run (distOf (collOf c.descriptors) c.maxPacket) s0 (Dist.reqInputs v l p rs)
        = respTrace lat (descResp (descriptorPacket c v l p)) rs := by
  have hidx : v % 256 < 256 := Nat.mod_lt _ (by decide)
  have hv' : v / 256 % 256 * 256 + v % 256 = v := by omega
  obtain ⟨lat, h1, h3⟩ := dist_packet_exact (collOf c.descriptors) c.maxPacket s0 (v / 256 % 256) (v % 256) l p rs
    hm hwf hidx hl h0 (by
      intro d hd
      rw [← lookup_collOf] at hd
      exact ⟨(hp d hd).1, (hp d hd).2.2⟩)
  refine ⟨lat, h1, ?_⟩
  rw [hv'] at h3
  rw [h3, descriptorPacket_spec c v l p (by omega) hl (fun d hd => ⟨(hp d hd).1, (hp d hd).2.1⟩), lookup_collOf]

/-- The beats of the expansion's stream window (`streamWindow`: `Desc.delayed g.lat (Desc.bodyTrace R)` over the
`tx.ready` values after the start cycle) are the contract's `respTrace (g.lat + 1) R` from its second cycle on; its
first cycle, the start cycle itself, is silent. -/
theorem window_is_respTrace (lat : Nat) (R : Desc.Response) (r : Bool) (rs : List Bool) :
    Desc.respTrace (lat + 1) R (r :: rs) = Desc.Beat.quiet :: Desc.delayed lat (Desc.bodyTrace R) rs := rfl

/-! ### Non-vacuity -/

def exDescs : List (Nat × Nat × List Nat) :=
  [(1, 0, [18, 1, 0, 2, 0, 0, 0, 64, 9, 18, 1, 0, 0, 1, 1, 2, 3, 1]), (2, 0, List.range 70)]

-- the hypotheses of `block_handler_contract` for the second packet of GET_DESCRIPTOR(type 2, wLength 100)
example : Desc.wellFormed (collOf exDescs) = true ∧ 2 ≤ (Desc.Rom.layout (collOf exDescs)).maxLen := by decide +kernel
example : ∀ d, lookupDescriptor exDescs (0x200 / 256 % 256) (0x200 % 256) = some d → 64 ≤ min 100 d.length ∧ d.length < 2 ^ 7 := by
  intro d hd
  have : d = List.range 70 := by
    have h : lookupDescriptor exDescs (0x200 / 256 % 256) (0x200 % 256) = some (List.range 70) := by decide +kernel
    rw [h] at hd; injection hd with hd; exact hd.symm
  subst this; decide
-- its conclusion evaluated: latency 4 (the start cycle included), the six remaining bytes under a stalling `ready` pattern
example : Desc.Block.run (Desc.blockOf (collOf exDescs) 64) Desc.Block.init
      (Desc.Block.reqInputs 0x200 100 64 [true, true, true, true, true, false, true, true, true, true, true, true])
    = Desc.respTrace 4 (descResp (descriptorPacket { descriptors := exDescs, posBits := 7 } 0x200 100 64))
      [true, true, true, true, true, false, true, true, true, true, true, true] := by decide +kernel
-- `transmitter_contract` evaluated: GET_CONFIGURATION (1 byte) and GET_STATUS (2 bytes), from an idle state with stale counters
example : (StreamGen.serRun txCfg ⟨.idle, 1, 1⟩ (serReqInputs 1 [3, 0] [true, false, true, true])).map beatOfSer
    = Desc.respTrace 1 (.data [3]) [true, false, true, true] := by decide +kernel
example : (StreamGen.serRun txCfg ⟨.idle, 1, 1⟩ (serReqInputs 2 [0, 0] [true, false, true, false, true, true])).map beatOfSer
    = [Desc.Beat.quiet, ⟨true, true, false, 0, false⟩, ⟨true, true, false, 0, false⟩, ⟨true, false, true, 0, false⟩,
       ⟨true, false, true, 0, false⟩, Desc.Beat.quiet] := by decide +kernel

end LunaVerif.CtrlCyc
