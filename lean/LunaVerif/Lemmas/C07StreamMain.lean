import LunaVerif.Lemmas.C07StreamSeq
/-!
# `cycle_refines_event` for EVERY handler state — part 4: the stream window, the expansion, the theorems
(see Lemmas/C07Stream.lean for the set-up).
-/
namespace LunaVerif.CtrlCyc
open LunaVerif.Device

/-! ### The answer of a started streamer -/

/-- The window `rs` of `tx.ready` values (one per cycle after the start cycle) is long enough for the answer `R`
of a streamer that is silent for `lat` more cycles: the pulse is given / every byte is accepted within the window
(C09's `CompleteAt`, Lemmas/C09Seq.lean). -/
def Fits (lat : Nat) (R : Desc.Response) (rs : List Bool) : Bool :=
  decide (lat < rs.length) &&
    (match R with
     | .data b => decide (b.length ≤ (rs.drop lat).count true)
     | _ => true)

/-- The event-level handler state once the streamer's answer is over. -/
def streamEnd (d : DevState) (R : Desc.Response) : DevState :=
  if R = .stall then toIdle { d with expectingAck := false } else d

/-- The event-level response that corresponds to the streamer's answer. -/
def respOf (d : DevState) (R : Desc.Response) : Resp :=
  match R with
  | .data b => .data (dataPid d) b
  | .zlp => .data (dataPid d) []
  | .stall => .hs PID_STALL
  | .silent => .none

theorem idleTrace_quiet (rs : List Bool) : ∀ b ∈ Desc.idleTrace rs, b = Desc.Beat.quiet := by
  intro b hb
  simp only [Desc.idleTrace, List.mem_map] at hb
  obtain ⟨_, _, h⟩ := hb
  exact h.symm

/-- The cycle in which the descriptor handler reports a missing descriptor. -/
theorem sim_stall (c : DevConfig) (d : DevState) (n : CycIn) (hs : StreamState d true) :
    Sim1S (cfgOf c) d (toIdle { d with expectingAck := false }) (envIn d (beatIn true Desc.stallBeat n))
      (.hs PID_STALL) := by
  refine sim1s_core _ d _ _ _ (hin d (beatH true Desc.stallBeat (noiseH n)) false false false)
    ⟨false, false, false, false⟩ rfl (fun cs _ => by simp [ctrlComb, envIn]) (fun cs hr => ?_) rfl ?_
  · rw [← hr.stage]
    cases hst : cs.stage <;> simp [ctrlNext, envIn, toIdle]
  · intro hh hr
    obtain ⟨q1, q2, q3, q4⟩ := hs_stall (cfgOf c) d hh (noiseH n) hr hs
    exact ⟨q1, by simpa using q2, q4, by simp [q3.1, toIdle], by simp [q3.2, toIdle]⟩

/-- The answer itself, started without further delay. -/
theorem sim_body (c : DevConfig) (d : DevState) (fd : Bool) (R : Desc.Response) (hs : StreamState d fd)
    (hst : R = .stall → fd = true) (hne : ∀ b, R = .data b → b ≠ []) (hsil : R ≠ .silent) (ns : List CycIn)
    (hfit : Fits 0 R (ns.map (·.txReady)) = true) :
    SimS (cfgOf c) d (streamEnd d R) (streamSeg d fd (Desc.bodyTrace R (ns.map (·.txReady))) ns) (respOf d R) := by
  cases R with
  | data b =>
    have hb : 0 < b.length := List.length_pos_iff.mpr (hne b rfl)
    have hcnt : b.length - 0 ≤ (ns.map (·.txReady)).count true := by
      simp only [Fits, List.drop_zero, Bool.and_eq_true, decide_eq_true_eq] at hfit
      omega
    have := sim_send c d fd hs b ns 0 .idle hb hcnt (Or.inr ⟨rfl, rfl⟩)
    simpa [SimS, streamEnd, respOf, obsOf, Resp.isNone, Desc.bodyTrace] using this
  | zlp =>
    cases ns with
    | nil => simp [Fits] at hfit
    | cons n ns =>
      simp only [List.map_cons, Desc.bodyTrace, Desc.pulseTrace, streamSeg]
      have h1 : SimO (cfgOf c) d d [envIn d (beatIn fd Desc.zlpBeat n)] .idle (.done (.data (dataPid d) [])) := by
        apply SimO.of_step
        intro cs hr
        obtain ⟨q1, q2, q3, q4⟩ := beat_cycle c d fd Desc.zlpBeat n hs rfl cs hr
        refine ⟨q1, ?_, by rw [q3]; rfl, by rw [q4]; rfl⟩
        rw [q2]
        simp [obsStep, Desc.zlpBeat, Resp.isNone]
      have h2 := (sim_seg_quiet c d fd (fun n => calm_stream hs n) (Desc.idleTrace (ns.map (·.txReady))) ns
        (idleTrace_quiet _)).done (.data (dataPid d) [])
      have := SimO.cons h1 h2
      simpa [SimS, streamEnd, respOf, obsOf, Resp.isNone] using this
  | stall =>
    have hfd := hst rfl
    subst hfd
    cases ns with
    | nil => simp [Fits] at hfit
    | cons n ns =>
      simp only [List.map_cons, Desc.bodyTrace, Desc.pulseTrace, streamSeg]
      have h1 := SimS.single (sim_stall c d n hs)
      have h2 := sim_seg_quiet c (toIdle { d with expectingAck := false }) true (fun n => calm_idle rfl true n)
        (Desc.idleTrace (ns.map (·.txReady))) ns (idleTrace_quiet _)
      rw [streamSeg_congr (d := d) (d' := toIdle { d with expectingAck := false }) rfl rfl rfl rfl] at h2
      have := h1.append_none h2
      simpa [streamEnd, respOf] using this
  | silent => exact absurd rfl hsil

/-- **The stream window**: a streamer started in the previous cycle, silent for `lat` more cycles and then
answering `R` under ANY `tx.ready` pattern that takes the answer within the window, puts exactly `R` on the bus
(as a DATA packet with the handler's data PID, a zero-length packet, or a STALL). -/
theorem sim_window (c : DevConfig) (d : DevState) (fd : Bool) (R : Desc.Response) (hs : StreamState d fd)
    (hst : R = .stall → fd = true) (hne : ∀ b, R = .data b → b ≠ []) (hsil : R ≠ .silent) (lat : Nat) :
    ∀ (ns : List CycIn), Fits lat R (ns.map (·.txReady)) = true →
      SimS (cfgOf c) d (streamEnd d R)
        (streamSeg d fd (Desc.delayed lat (Desc.bodyTrace R) (ns.map (·.txReady))) ns) (respOf d R) := by
  induction lat with
  | zero => intro ns hfit; exact sim_body c d fd R hs hst hne hsil ns hfit
  | succ lat ih =>
    intro ns hfit
    cases ns with
    | nil => simp [Fits] at hfit
    | cons n ns =>
      simp only [List.map_cons, Desc.delayed, streamSeg]
      have hfit' : Fits lat R (ns.map (·.txReady)) = true := by
        simp only [Fits, List.map_cons, List.length_cons, List.drop_succ_cons, Bool.and_eq_true,
          decide_eq_true_eq] at hfit ⊢
        exact ⟨by omega, hfit.2⟩
      exact (SimS.single (sim_quiet_s c d _ (calm_stream hs n))).none_append (ih ns hfit')

/-! ### Which event starts a streamer, and with what answer -/

theorem ctrlComb_ready' (c : DevConfig) (d : DevState) (n : CycIn) :
    ctrlComb (cfgOf c) d.stage { envIn d n with readyForResponse := true } =
      ⟨readyDr d, readySr d, false, readyPing d⟩ := by
  unfold readyDr readySr readyPing
  by_cases h0 : d.tokEp = 0 <;> cases hs : d.stage <;> by_cases h1 : d.tokPid = PID_IN <;>
    by_cases h2 : d.tokPid = PID_PING <;> by_cases h3 : d.tokPid = PID_OUT <;>
    simp_all [ctrlComb, envIn, targeted, cfgOf, PID_IN, PID_PING, PID_OUT]

/-- The descriptor handler's answer (event level: `descriptorPacket`) as a stream response. -/
def descResp : Option (List Nat) → Desc.Response
  | none => .stall
  | some [] => .zlp
  | some (b :: bs) => .data (b :: bs)

/-- In the event-level state `d` (the token registers already show the token): does `ready_for_response` start a
streamer -- which one (`true` = the descriptor handler, `false` = the transmitter) and with what answer. -/
def streamOf (c : DevConfig) (d : DevState) : Option (Bool × Desc.Response) :=
  if readyDr d = true ∧ d.setup.type = TYPE_STANDARD then
    match d.hstate with
    | .getStatus => some (false, .data [0, 0])
    | .getConfiguration => some (false, .data [d.config % 256])
    | .getDescriptor => some (true, descResp (descriptorPacket c d.setup.value d.setup.length d.startPos))
    | _ => none
  else none

theorem ready_nostream (c : DevConfig) (d : DevState) (h : streamOf c d = none) :
    reqNowResult c d (readyDr d) (readySr d) (readyPing d) = readyResult c d := by
  rw [readyResult_eq]
  unfold streamOf at h
  unfold reqNowResult reqResult reqNow
  cases hdr : readyDr d
  · simp
  · by_cases hty : d.setup.type = TYPE_STANDARD
    · cases hd : d.hstate <;> simp_all
    · simp [hty]

theorem ready_stream (c : DevConfig) (hx : c.extra = []) (d : DevState) (hcfg : d.config < 256) (fd : Bool)
    (R : Desc.Response) (h : streamOf c d = some (fd, R)) :
    StreamState (reqNowResult c d (readyDr d) (readySr d) (readyPing d)).1 fd ∧
    (R = .stall → fd = true) ∧ (∀ b, R = .data b → b ≠ []) ∧ R ≠ .silent ∧
    readyResult c d = (streamEnd (reqNowResult c d (readyDr d) (readySr d) (readyPing d)).1 R,
      respOf (reqNowResult c d (readyDr d) (readySr d) (readyPing d)).1 R) ∧
    (reqNowResult c d (readyDr d) (readySr d) (readyPing d)).2 = .none ∧
    (reqNowResult c d (readyDr d) (readySr d) (readyPing d)).1.tokEp = d.tokEp ∧
    (reqNowResult c d (readyDr d) (readySr d) (readyPing d)).1.tokPid = d.tokPid ∧
    (reqNowResult c d (readyDr d) (readySr d) (readyPing d)).1.config = d.config ∧
    (reqNowResult c d (readyDr d) (readySr d) (readyPing d)).1.setup = d.setup := by
  rw [readyResult_eq]
  unfold streamOf at h
  split at h
  · rename_i hc
    obtain ⟨hdr, hty⟩ := hc
    simp only [reqNowResult, reqResult, hdr, if_true, reqNow, hty, and_self]
    rw [request_noextra c hx, if_pos hty]
    cases hd : d.hstate <;> simp only [hd] at h <;> (first | (cases h; done) | skip)
    · -- GET_STATUS
      simp only [Option.some.injEq, Prod.mk.injEq] at h
      obtain ⟨rfl, rfl⟩ := h
      simp [StreamState, hty, hd, stdRequest, streamEnd, respOf]
    · -- GET_DESCRIPTOR
      simp only [Option.some.injEq, Prod.mk.injEq] at h
      obtain ⟨rfl, rfl⟩ := h
      cases hp : descriptorPacket c d.setup.value d.setup.length d.startPos with
      | none => simp [StreamState, hty, hd, stdRequest, streamEnd, respOf, descResp, hp, toIdle]
      | some bytes =>
        cases bytes with
        | nil => simp [StreamState, hty, hd, stdRequest, streamEnd, respOf, descResp, hp, dataPid]
        | cons b bs => simp [StreamState, hty, hd, stdRequest, streamEnd, respOf, descResp, hp, dataPid]
    · -- GET_CONFIGURATION
      simp only [Option.some.injEq, Prod.mk.injEq] at h
      obtain ⟨rfl, rfl⟩ := h
      simp [StreamState, hty, hd, stdRequest, streamEnd, respOf, Nat.mod_eq_of_lt hcfg]
  · exact absurd h (by simp)

/-- The `ready_for_response` cycle in which the (distributed) descriptor handler, started in this very cycle,
reports a missing descriptor. -/
theorem sim_ready_stall (c : DevConfig) (d : DevState) (n : CycIn) (hdr : readyDr d = true) (hs : StreamState d true) :
    Sim1S (cfgOf c) d (toIdle { d with expectingAck := false })
      { envIn d (beatIn true Desc.stallBeat n) with readyForResponse := true } (.hs PID_STALL) := by
  have hsr : readySr d = false := by
    unfold readyDr at hdr; unfold readySr
    simp only [Bool.and_eq_true, decide_eq_true_eq] at hdr
    simp [hdr.1.2]
  have hpg : readyPing d = false := by
    unfold readyDr at hdr; unfold readyPing
    simp only [Bool.and_eq_true, decide_eq_true_eq] at hdr
    simp [hdr.1.2]
  refine sim1s_core _ d _ _ _ (hin d (beatH true Desc.stallBeat (noiseH n)) true false false)
    ⟨true, false, false, false⟩ rfl (fun cs hr => ?_) (fun cs hr => ?_) rfl ?_
  · have h := ctrlComb_ready' c d (beatIn true Desc.stallBeat n)
    rw [hr.stage, h, hdr, hsr, hpg]
  · rw [hr.stage]
    cases hst : d.stage <;> simp [ctrlNext, envIn, toIdle]
  · intro hh hr
    obtain ⟨q1, q2, q3, q4⟩ := hs_req_stall (cfgOf c) d hh (noiseH n) hr hs
    exact ⟨q1, by simpa using q2, q4, by simp [q3.1, toIdle], by simp [q3.2, toIdle]⟩

/-! ### The expansion of an event -/

/-- The free parameters of an expansion: the free inputs of the idle cycles before / between / after the strobes
(any number of cycles each) and of the strobe cycles themselves; for an event that starts a streamer, its
additional latency `lat` and the free inputs (in particular `tx.ready`) of the cycles of its window. -/
structure GapsS where
  pre    : List CycIn := []
  mid    : List CycIn := []
  mid2   : List CycIn := []
  post   : List CycIn := []
  n1     : CycIn := {}
  n2     : CycIn := {}
  n3     : CycIn := {}
  lat    : Nat := 0
  stream : List CycIn := []
  /-- the descriptor handler reports a missing descriptor in the start cycle itself (`GetDescriptorHandlerDistributed`;
  the block handler needs 1-4 cycles: `lat`, `stream`) -/
  stallNow : Bool := false

/-- The cycles after the `ready_for_response` cycle in which the started streamer answers. -/
def streamWindow (c : DevConfig) (d1 : DevState) (g : GapsS) : List CycIn :=
  match streamOf c d1 with
  | some (fd, R) => streamSeg d1 fd (Desc.delayed g.lat (Desc.bodyTrace R) (g.stream.map (·.txReady))) g.stream
  | none => []

/-- The event starts the descriptor handler, which answers STALL in the same cycle. -/
def stallsNow (c : DevConfig) (d1 : DevState) (g : GapsS) : Bool :=
  g.stallNow && decide (streamOf c d1 = some (true, .stall))

/-- The `ready_for_response` cycle and the started streamer's window. -/
def readySeg (c : DevConfig) (d1 : DevState) (g : GapsS) : List CycIn :=
  if stallsNow c d1 g then [{ envIn d1 (beatIn true Desc.stallBeat g.n2) with readyForResponse := true }]
  else [{ envIn d1 (calm d1 g.n2) with readyForResponse := true }] ++ streamWindow c d1 g

/-- The clock cycles the control endpoint sees for the event `e` received in the event-level state `d`: as
`expand` (Lemmas/C07RefineMain.lean), with the stream contract: a streamer that has not been started is silent
(`calm`); a data-stage IN token in a streaming state is followed by the streamer's window. -/
def expandS (c : DevConfig) (d : DevState) (e : HostEvent) (g : GapsS) : List CycIn :=
  let d' := (core c d e).1
  match e with
  | .token pid addr ep =>
      if addr = d.address then
        let d1 := afterToken d pid ep
        idleS d g.pre ++ ([{ envIn d1 (calm d1 g.n1) with newToken := true }] ++ (idleS d1 g.mid ++
          (readySeg c d1 g ++ idleS d' g.post)))
      else idleS d g.pre ++ idleS d' g.post
  | .data _ p ok =>
      if ok = true then
        if d.sdWait = true ∧ p.length = 8 ∧ d.tokPid = PID_SETUP then
          idleS d g.pre ++ ([{ envIn d (calm d g.n1) with received := true, su := parseSetup p }] ++ (idleS d' g.mid ++
            ([{ envIn d' (calm d' g.n2) with sdAck := true }] ++ (idleS d' g.mid2 ++
              ([{ envIn d' (calm d' g.n3) with rxReady := true }] ++ idleS d' g.post)))))
        else idleS d g.pre ++ ([{ envIn d (calm d g.n1) with rxReady := true }] ++ idleS d' g.post)
      else idleS d g.pre ++ idleS d' g.post
  | .handshake pid =>
      if pid = PID_ACK then idleS d g.pre ++ ([{ envIn d (calm d g.n1) with hsAck := true }] ++ idleS d' g.post)
      else idleS d g.pre ++ idleS d' g.post
  | _ => idleS d g.pre ++ idleS d' g.post

/-- The stream window of the event (if it starts a streamer) is long enough for the answer. -/
def StreamFits (c : DevConfig) (d : DevState) (e : HostEvent) (g : GapsS) : Bool :=
  match e with
  | .token pid addr ep =>
      if addr = d.address then
        if stallsNow c (afterToken d pid ep) g then true
        else match streamOf c (afterToken d pid ep) with
          | some (_, R) => Fits g.lat R (g.stream.map (·.txReady))
          | none => true
      else true
  | _ => true

theorem sim_idleS_only (c : DevConfig) (d : DevState) (a b : List CycIn) :
    SimS (cfgOf c) d d (idleS d a ++ idleS d b) .none :=
  (sim_idleS c d a).none_append (sim_idleS c d b)

/-- A good data packet that the setup decoder does not latch: only `rx_ready_for_response` is strobed. -/
theorem sim_plain_data_s (c : DevConfig) (hx : c.extra = []) (d : DevState) (p : List Nat) (n : CycIn)
    (hinv : Inv d) (hcalm : CalmH d.hstate (noiseH n))
    (hacc : ¬ (d.sdWait = true ∧ p.length = 8 ∧ d.tokPid = PID_SETUP)) :
    SimS (cfgOf c) d (onData c d p true).1 [{ envIn d n with rxReady := true }] (onData c d p true).2 := by
  have hrx := SimS.single (sim_rxReady_s c hx d n hcalm)
  by_cases hw : d.sdWait = true
  · have hsr : rxSr d = false := by
      rcases hinv.wait_pid hw with h | h <;> simp [rxSr, h, PID_SETUP, PID_OUT]
    rw [hsr] at hrx
    have hres : onData c d p true = ({ d with sdWait := false }, .none) ∨ onData c d p true = (d, .none) := by
      unfold onData
      simp only [Bool.not_true, Bool.false_eq_true, if_false, hw, if_true]
      by_cases h8 : p.length ≤ 8
      · left; simp only [h8, if_true]
        rw [if_neg]
        intro g; exact hacc ⟨hw, g.1, g.2⟩
      · right; simp [h8]
    rcases hres with h | h <;> rw [h]
    · have := hrx.append_none (SimS.relabel (d := d) (d' := { d with sdWait := false }) rfl rfl rfl rfl rfl rfl rfl)
      simpa [reqResult] using this
    · simpa [reqResult] using hrx
  · have hres : onData c d p true = reqResult c d false (rxSr d) false := by
      unfold onData reqResult rxSr
      simp only [Bool.not_true, Bool.false_eq_true, if_false, hw]
      by_cases h1 : d.stage = .statusOut <;> by_cases h2 : d.tokEp = 0 <;> by_cases h3 : d.tokPid = PID_OUT <;>
        simp [h1, h2, h3]
    rw [hres]; exact hrx

/-- The proof of `cycle_refines_event_streams` below; `max_packet_size = 64` is needed only for the event "host ACK"
(the `start_position` advance of `Device.stdAck`) -- every other event is simulated for EVERY `max_packet_size`
(Lemmas/C07Mps.lean uses this for the model with the advance by `max_packet_size`). -/
theorem cycle_refines_event_streams_gen (c : DevConfig) (hx : c.extra = []) (d : DevState)
    (e : HostEvent) (hmp : e = .handshake PID_ACK → c.maxPacket = 64)
    (g : GapsS) (hinv : Inv d) (hcfg : d.config < 256) (hfit : StreamFits c d e g = true)
    (hrst : e ≠ .busReset) :
    SimS (cfgOf c) d (core c d e).1 (expandS c d e g) (core c d e).2 := by
  cases e with
  | token pid addr ep =>
    by_cases ha : addr = d.address
    · subst ha
      have hcore : core c d (.token pid d.address ep) = readyResult c (afterToken d pid ep) := by
        simp [core, onToken_eq]
      simp only [expandS, if_true]
      simp only [StreamFits, if_true] at hfit
      rw [hcore]
      have hpre := sim_idleS c d g.pre
      have htok := SimS.single (sim_newToken_s c d pid ep (calm (afterToken d pid ep) g.n1)
        (calmH_calm (afterToken d pid ep) g.n1))
      have hmid := sim_idleS c (afterToken d pid ep) g.mid
      have hcfg1 : (afterToken d pid ep).config < 256 := hcfg
      by_cases hsn : stallsNow c (afterToken d pid ep) g = true
      · -- STALL in the start cycle
        simp only [readySeg, hsn, if_true]
        have hso : streamOf c (afterToken d pid ep) = some (true, .stall) := by
          simp only [stallsNow, Bool.and_eq_true, decide_eq_true_eq] at hsn; exact hsn.2
        obtain ⟨s1, -, -, -, s5, -, -, -, -, -⟩ := ready_stream c hx _ hcfg1 true .stall hso
        have hdr : readyDr (afterToken d pid ep) = true := by
          unfold streamOf at hso
          split at hso
          · rename_i hc; exact hc.1
          · exact absurd hso (by simp)
        have hm : (reqNowResult c (afterToken d pid ep) (readyDr (afterToken d pid ep)) (readySr (afterToken d pid ep))
            (readyPing (afterToken d pid ep))).1 = { afterToken d pid ep with expectingAck := true } := by
          have hh : (afterToken d pid ep).hstate = .getDescriptor := by
            unfold streamOf at hso
            split at hso
            · cases hd : (afterToken d pid ep).hstate <;> simp only [hd] at hso <;>
                first | rfl | (exact absurd hso (by simp))
            · exact absurd hso (by simp)
          have hty : (afterToken d pid ep).setup.type = TYPE_STANDARD := by
            unfold streamOf at hso
            split at hso
            · rename_i hc; exact hc.2
            · exact absurd hso (by simp)
          simp only [reqNowResult, hdr, if_true, reqNow, hty, and_self, hh]
        have hs1 : StreamState (afterToken d pid ep) true := by
          rw [hm] at s1; exact s1
        rw [s5, hm]
        have hst := SimS.single (sim_ready_stall c (afterToken d pid ep) g.n2 hdr hs1)
        have : streamEnd { afterToken d pid ep with expectingAck := true } Desc.Response.stall
            = toIdle { afterToken d pid ep with expectingAck := false } := by
          simp [streamEnd]
        rw [this]
        have hr2 : respOf { afterToken d pid ep with expectingAck := true } Desc.Response.stall = .hs PID_STALL := rfl
        rw [hr2]
        exact hpre.none_append (htok.none_append (hmid.none_append (hst.append_none (sim_idleS c _ g.post))))
      · simp only [readySeg, hsn, if_false, Bool.false_eq_true] at hfit ⊢
        have hrdy := SimS.single (sim_ready_s c hx (afterToken d pid ep) (calm (afterToken d pid ep) g.n2)
          (calmH_calm (afterToken d pid ep) g.n2))
        cases hso : streamOf c (afterToken d pid ep) with
        | none =>
          rw [ready_nostream c _ hso] at hrdy
          simp only [streamWindow, hso, List.append_nil]
          exact hpre.none_append (htok.none_append (hmid.none_append (hrdy.append_none (sim_idleS c _ g.post))))
        | some fr =>
          obtain ⟨fd, R⟩ := fr
          simp only [hso] at hfit
          obtain ⟨s1, s2, s3, s4, s5, s6, s7, s8, s9, s10⟩ := ready_stream c hx _ hcfg1 fd R hso
          rw [s6] at hrdy
          have hwin := sim_window c _ fd R s1 s2 s3 s4 g.lat g.stream hfit
          rw [streamSeg_congr s7 s8 s9 s10] at hwin
          simp only [streamWindow, hso]
          rw [s5]
          exact hpre.none_append (htok.none_append (hmid.none_append ((hrdy.none_append hwin).append_none
            (sim_idleS c _ g.post))))
    · have hcore : core c d (.token pid addr ep) = ({ d with tokPid := 0 }, .none) := by
        simp [core, ha]
      simp only [expandS, ha, if_false]
      rw [hcore]
      have := (sim_idleS c d g.pre).none_append
        ((SimS.relabel (cyc := cfgOf c) (d := d) (d' := { d with tokPid := 0 }) rfl rfl rfl rfl rfl rfl rfl).none_append
          (sim_idleS c _ g.post))
      simpa using this
  | data dp p ok =>
    cases ok with
    | false =>
      have hcore : core c d (.data dp p false) = (d, .none) := by simp [core, onData]
      simp only [expandS, Bool.false_eq_true, if_false]
      rw [hcore]
      exact sim_idleS_only c d _ _
    | true =>
      by_cases hacc : d.sdWait = true ∧ p.length = 8 ∧ d.tokPid = PID_SETUP
      · have hcore : core c d (.data dp p true) = onSetupData d p := by
          simp [core, onData, hacc.1, hacc.2.1, hacc.2.2]
        simp only [expandS, if_true, hacc, and_self]
        rw [hcore]
        have hsr : rxSr (onSetupData d p).1 = false := by
          have : (onSetupData d p).1.tokPid = PID_SETUP := by
            rw [← hacc.2.2]; unfold onSetupData; simp only []; split <;> rfl
          simp [rxSr, this, PID_SETUP, PID_OUT]
        have hrx := SimS.single (sim_rxReady_s c hx (onSetupData d p).1 (calm (onSetupData d p).1 g.n3)
          (calmH_calm _ _))
        rw [hsr] at hrx
        have hack : (onSetupData d p).2 = .hs PID_ACK := rfl
        rw [hack]
        exact (sim_idleS c d g.pre).none_append
          ((SimS.single (sim_received_s c d p (calm d g.n1) (calmH_calm _ _))).none_append
            ((sim_idleS c _ g.mid).none_append
              ((SimS.single (sim_sdAck_s c _ (calm (onSetupData d p).1 g.n2) (calmH_calm _ _))).append_none
                ((sim_idleS c _ g.mid2).none_append
                  (SimS.none_append (by simpa [reqResult] using hrx) (sim_idleS c _ g.post))))))
      · have hcore : core c d (.data dp p true) = onData c d p true := rfl
        simp only [expandS, if_true, hacc, if_false]
        rw [hcore]
        exact (sim_idleS c d g.pre).none_append
          ((sim_plain_data_s c hx d p (calm d g.n1) hinv (calmH_calm _ _) hacc).append_none (sim_idleS c _ g.post))
  | handshake pid =>
    by_cases hp : pid = PID_ACK
    · subst hp
      have hcore : core c d (.handshake PID_ACK) = (onHandshake d PID_ACK, .none) := rfl
      simp only [expandS, if_true]
      rw [hcore]
      exact (sim_idleS c d g.pre).none_append
        ((SimS.single (sim_hsAck_s c (hmp rfl) d (calm d g.n1) (calmH_calm _ _))).none_append (sim_idleS c _ g.post))
    · have hcore : core c d (.handshake pid) = (d, .none) := by
        simp [core, onHandshake, hp]
      simp only [expandS, hp, if_false]
      rw [hcore]
      exact sim_idleS_only c d _ _
  | busReset => exact absurd rfl hrst
  | sof f => exact sim_idleS_only c d _ _
  | malformed b => exact sim_idleS_only c d _ _
  | quiet => exact sim_idleS_only c d _ _
  | produce e' b l => exact sim_idleS_only c d _ _
  | consume e' k => exact sim_idleS_only c d _ _
  | setSignal e' v => exact sim_idleS_only c d _ _

/-- **`cycle_refines_event`, every handler state.**  For every host event `e` (bus reset excepted), every
event-level state `d` satisfying the model's invariant (and `configuration < 256`, which holds along every
history) and every choice of idle-cycle counts, free input values, streamer latency and `tx.ready` pattern `g` that
lets a started streamer finish within the event's window: running the cycle-level composition (control endpoint FSM
+ request multiplexer + standard request handler, endpoint 0, `max_packet_size = 64`) over the expansion of `e`,
from ANY cycle-level state related to `d`, ends in a state related to the event-level successor, puts exactly the
event-level response on the bus -- for GET_STATUS / GET_CONFIGURATION / GET_DESCRIPTOR data stages the DATA packet
whose payload is the bytes the packet generator takes from the `tx` stream, under the handler's data PID -- and
strobes `address_changed` / `config_changed` so that device.py's registers take the event-level values. -/
theorem cycle_refines_event_streams (c : DevConfig) (hx : c.extra = []) (hmp : c.maxPacket = 64) (d : DevState)
    (e : HostEvent) (g : GapsS) (hinv : Inv d) (hcfg : d.config < 256) (hfit : StreamFits c d e g = true)
    (hrst : e ≠ .busReset) :
    SimS (cfgOf c) d (core c d e).1 (expandS c d e g) (core c d e).2 :=
  cycle_refines_event_streams_gen c hx d e (fun _ => hmp) g hinv hcfg hfit hrst

end LunaVerif.CtrlCyc
