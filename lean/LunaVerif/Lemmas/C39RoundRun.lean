import LunaVerif.Lemmas.C39Round
/-!
# C39 — the retry round over a whole history

`Round s g pend`: the ghost "retry round" `pend` (unacknowledged headers of the last LBAD that have not
been handed to the raw transmitter since) is a prefix of the headers that are still to be latched, and
`retry_pending` is set while it is non-empty.  One preservation lemma per cycle (`round_step`, built on
the per-FSM-state lemmas of `C39Round`), the LBAD cycle establishes it (`round_start`), a latch emits its
head with the delayed bit (`round_emit`); `round_run` is the induction over the history.
-/
namespace LunaVerif.PacketTx
open LunaVerif.HeaderRx (Hdr Bufs bufQ)

/-- Environment of a cycle: `EnvStep` (link up, LGOOD only for outstanding headers, credits ≤ buffers) and
the partner acknowledges a header only after its transmission has been started — in the current retry
round, if there is one (`packets_to_send < packets_awaiting_ack`, or equal while the raw transmitter is
busy with the header at the read pointer). -/
structure EnvStepR (s : State) (g : Ghost) (i : In) : Prop where
  env : EnvStep s g i
  ackSent : retire s = true → s.pts < s.paa + (ctlOf s).nCur

def EnvOkR (c : Config) : State → Ghost → List In → Prop
  | _, _, [] => True
  | s, g, i :: is => EnvStepR s g i ∧ EnvOkR c (step c s i).1 (ghostStep s i g) is

theorem EnvOkR.envOk {c : Config} : ∀ {ins : List In} {s : State} {g : Ghost}, EnvOkR c s g ins → EnvOk c s g ins
  | [], _, _, _ => trivial
  | _ :: _, _, _, h => ⟨h.1.env, EnvOkR.envOk h.2⟩

theorem EnvOkR.append {c : Config} : ∀ {a b : List In} {s : State} {g : Ghost}, EnvOkR c s g (a ++ b) →
    EnvOkR c s g a ∧ EnvOkR c (runG c s g a).1 (runG c s g a).2 b
  | [], _, _, _, h => ⟨trivial, h⟩
  | _ :: _, _, _, _, h => ⟨⟨h.1, (EnvOkR.append h.2).1⟩, (EnvOkR.append h.2).2⟩

/-- the bookkeeping invariant of `Props/C39` together with the control invariant -/
structure InvR (s : State) (g : Ghost) : Prop where
  inv : Inv s g
  ctl : Ctl.Inv (ctlOf s)

theorem invR_init : InvR init Ghost.init :=
  ⟨inv_init, by constructor <;> simp [ctlOf, init, Ctl.active, Ctl.nCur, Ctl.cur]⟩

theorem evOk_of {s : State} {g : Ghost} {i : In} (h : Inv s g) (e : EnvStepR s g i) :
    Ctl.EvOk (ctlOf s) (evOf s i) := by
  obtain ⟨_, _, x3⟩ := excl h e.env
  have := h.hcred; have := h.hlim; have := h.hpaa
  refine ⟨fun hd => rawDone_not_idle hd, ?_, ?_, ?_, e.ackSent⟩
  · intro hL
    have hL' : retryRequired s = true := hL
    show retire s = false
    simp only [retryRequired, Bool.and_eq_true, beq_iff_eq] at hL'
    simp [retire, hL'.2, LBAD, LGOOD]
  · show s.paa ≤ 4; omega
  · intro he
    have := (x3 he).2
    show s.paa ≤ 3; omega

theorem invR_step {c : Config} {s : State} {g : Ghost} {i : In} (h : InvR s g) (e : EnvStepR s g i) :
    InvR (step c s i).1 (ghostStep s i g) :=
  ⟨inv_step h.inv e.env, by rw [ctlOf_step c s i e.env.en]; exact Ctl.inv_step h.ctl (evOk_of h.inv e)⟩

theorem invR_run (c : Config) (ins : List In) : ∀ (s : State) (g : Ghost), InvR s g → EnvOkR c s g ins →
    InvR (runG c s g ins).1 (runG c s g ins).2 := by
  induction ins with
  | nil => intro s g h _; exact h
  | cons i is ih => intro s g h e; exact ih _ _ (invR_step h e.1) e.2

theorem latch_eq (s : State) (i : In) : latch s i = (ctlOf s).latch (evOf s i) := by
  unfold latch generate Ctl.latch Ctl.gen
  cases hf : s.fsm <;> simp [ctlOf, evOf, hf]

/-! ## the round -/

/-- a header with the delayed bit forced, as WAIT_FOR_RETRY hands it to the raw transmitter -/
def dl (h : Hdr) : Hdr := { h with dw3 := setDelayed h.dw3 }

/-- `dl` sets the delayed bit and changes nothing else: words 0-2, sequence number, reserved field, hub
depth and deferred bit are kept (the CRCs are recomputed by the raw transmitter, `tx_word_carries_header`). -/
theorem dl_spec (h : Hdr) : (dl h).delayed = true ∧ (dl h).dw0 = h.dw0 ∧ (dl h).dw1 = h.dw1 ∧ (dl h).dw2 = h.dw2 ∧
    (dl h).seq = h.seq ∧ (dl h).dw3 % 33554432 = h.dw3 % 33554432 ∧ (dl h).dw3 / 67108864 = h.dw3 / 67108864 := by
  simp only [dl, HeaderRx.Hdr.delayed, HeaderRx.Hdr.seq, setDelayed, beq_iff_eq, true_and]
  refine ⟨?_, ?_, ?_, ?_⟩ <;> split <;> omega

/-- the headers that still have to be handed to the raw transmitter: the youngest `toLatch` taken ones -/
def toLatchList (s : State) (g : Ghost) : List Hdr := g.taken.drop (g.taken.length - (ctlOf s).toLatch)

structure Round (s : State) (g : Ghost) (pend : List Hdr) : Prop where
  split : ∃ new, toLatchList s g = pend ++ new
  rpend : pend ≠ [] → s.retryPending = true

theorem toLatch_le {s : State} {g : Ghost} (h : InvR s g) : (ctlOf s).toLatch ≤ g.taken.length := by
  have h1 := h.ctl.bLe; have h2 := h.inv.hpaa
  simp only [Ctl.toLatch]
  show s.pts - (ctlOf s).nCur ≤ _
  have : (ctlOf s).pts = s.pts := rfl
  have : (ctlOf s).paa = s.paa := rfl
  omega

theorem toLatchList_length {s : State} {g : Ghost} (h : InvR s g) :
    (toLatchList s g).length = (ctlOf s).toLatch := by
  have := toLatch_le h
  simp only [toLatchList, List.length_drop]; omega

theorem bufs_get_mod (b : Bufs) (k : Nat) : b.get k = b.get (k % 4) := by
  simp [Bufs.get]

/-- A latch with a non-empty round: it happens in WAIT_FOR_RETRY and hands over the head of the round
with the delayed bit set.  (No assumption on `retry_required` in this cycle.) -/
theorem round_emit {s : State} {g : Ghost} {i : In} {h : Hdr} {t : List Hdr} (hi : InvR s g)
    (e : EnvStepR s g i) (r : Round s g (h :: t)) (hl : latch s i = true) :
    s.fsm = .waitRetry ∧ txHeader s = dl h := by
  have o := evOk_of hi.inv e
  rw [latch_eq] at hl
  have hrp : s.retryPending = true := r.rpend (by simp)
  have hf : s.fsm = .waitRetry := Ctl.latch_retry hi.ctl o hl hrp
  obtain ⟨hq, hn⟩ := Ctl.latch_pos hi.ctl o hl
  refine ⟨hf, ?_⟩
  obtain ⟨new, hs⟩ := r.split
  have hle := hi.ctl.bLe; have hrpm := hi.ctl.bRp; have hpaa := hi.inv.hpaa; have hw := hi.inv.hwin
  have hap := hi.inv.hap
  simp only [hn, Nat.add_zero] at hle hrpm
  have e1 : (ctlOf s).pts = s.pts := rfl
  have e2 : (ctlOf s).paa = s.paa := rfl
  have e3 : (ctlOf s).rp = s.rp := rfl
  have e4 : (ctlOf s).ap = s.ap := rfl
  rw [e1, e2] at hle
  rw [e1, e2, e3, e4] at hrpm
  have hq' : 1 ≤ s.pts := by simp only [Ctl.toLatch, hn, e1] at hq; omega
  -- the header at the read pointer is the head of the to-latch list
  have hget : s.bufs.get s.rp = h := by
    have h0 : (toLatchList s g)[0]? = some h := by rw [hs]; rfl
    simp only [toLatchList, Ctl.toLatch, hn, e1, Nat.sub_zero, List.getElem?_drop, Nat.add_zero] at h0
    have h1 : (bufQ s.bufs s.ap s.paa)[s.paa - s.pts]? = some (s.bufs.get (s.ap + (s.paa - s.pts))) := by
      simp only [bufQ, List.getElem?_map]
      rw [List.getElem?_range (by omega)]; rfl
    rw [hw, List.getElem?_drop] at h1
    have : g.retired + (s.paa - s.pts) = g.taken.length - s.pts := by omega
    rw [this, h0] at h1
    rw [bufs_get_mod, hrpm, ← bufs_get_mod]
    exact (Option.some.inj h1).symm
  simp [txHeader, hf, dl, hget]

/-- one cycle without LBAD: the round loses its head exactly when a header is latched -/
theorem round_step {c : Config} {s : State} {g : Ghost} {i : In} {pend : List Hdr} (hi : InvR s g)
    (e : EnvStepR s g i) (r : Round s g pend) (hL : retryRequired s = false) :
    Round (step c s i).1 (ghostStep s i g) (if latch s i then pend.tail else pend) := by
  have o := evOk_of hi.inv e
  have hstep := Ctl.toLatch_step hi.ctl o hL
  have hle := toLatch_le hi
  have hlen := toLatchList_length hi
  obtain ⟨new, hs⟩ := r.split
  rw [← ctlOf_step c s i e.env.en, ← latch_eq] at hstep
  have he : (evOf s i).e = enq s i := rfl
  rw [he] at hstep
  constructor
  · -- the list
    simp only [toLatchList, ghostStep] at hs ⊢
    rcases Bool.eq_false_or_eq_true (latch s i) with hl | hl <;>
    rcases Bool.eq_false_or_eq_true (enq s i) with hq | hq <;>
      simp only [hl, hq, if_true, if_false, Bool.false_eq_true, Nat.add_zero] at hstep ⊢
    · -- latch and enqueue
      have hp := (Ctl.latch_pos hi.ctl o (by rw [← latch_eq]; exact hl)).1
      refine ⟨new.drop (1 - pend.length) ++ [{ i.qHdr with dw3 := setSeq i.qHdr.dw3 s.txSeq }], ?_⟩
      rw [List.length_append, List.length_singleton, List.drop_append_of_le_length (by omega)]
      have : g.taken.length + 1 - (ctlOf (step c s i).1).toLatch = (g.taken.length - (ctlOf s).toLatch) + 1 := by omega
      rw [this, ← List.drop_drop, hs, ← List.append_assoc]
      congr 1
      cases pend <;> simp
    · -- latch only
      have hp := (Ctl.latch_pos hi.ctl o (by rw [← latch_eq]; exact hl)).1
      refine ⟨new.drop (1 - pend.length), ?_⟩
      have : g.taken.length - (ctlOf (step c s i).1).toLatch = (g.taken.length - (ctlOf s).toLatch) + 1 := by omega
      rw [this, ← List.drop_drop, hs]
      cases pend <;> simp
    · -- enqueue only
      refine ⟨new ++ [{ i.qHdr with dw3 := setSeq i.qHdr.dw3 s.txSeq }], ?_⟩
      rw [List.length_append, List.length_singleton, List.drop_append_of_le_length (by omega)]
      have : g.taken.length + 1 - (ctlOf (step c s i).1).toLatch = g.taken.length - (ctlOf s).toLatch := by omega
      rw [this, hs, List.append_assoc]
    · exact ⟨new, by rw [show (ctlOf (step c s i).1).toLatch = (ctlOf s).toLatch by omega]; exact hs⟩
  · -- retry_pending stays while the round is not empty
    intro hne
    have hne' : pend ≠ [] := by
      intro h0; subst h0; revert hne; split <;> simp
    have hrp := r.rpend hne'
    have hpos : 1 ≤ (ctlOf s).toLatch := by
      rw [← hlen, hs]; cases pend with
      | nil => exact absurd rfl hne'
      | cons => simp
    have := Ctl.rpend_keep hi.ctl o hL hrp hpos
    rw [← ctlOf_step c s i e.env.en] at this
    exact this

/-- the LBAD cycle starts a round with all headers that are unacknowledged after it -/
theorem round_start {c : Config} {s : State} {g : Ghost} {i : In} (hi : InvR s g) (e : EnvStepR s g i)
    (hL : retryRequired s = true) :
    Round (step c s i).1 (ghostStep s i g) ((ghostStep s i g).taken.drop (ghostStep s i g).retired) := by
  have o := evOk_of hi.inv e
  obtain ⟨h1, _, h3, h4⟩ := Ctl.lbad_step hi.ctl o hL
  rw [← ctlOf_step c s i e.env.en] at h1 h3 h4
  have hi' := invR_step (c := c) hi e
  have hpaa := hi'.inv.hpaa
  refine ⟨⟨[], ?_⟩, fun _ => h4⟩
  have e1 : (ctlOf (step c s i).1).pts = (step c s i).1.pts := rfl
  have e2 : (ctlOf (step c s i).1).paa = (step c s i).1.paa := rfl
  rw [e1, e2] at h1
  simp only [toLatchList, Ctl.toLatch, h3, e1, List.append_nil]
  congr 1
  omega

/-! ## the history -/

/-- the headers handed to the raw transmitter (`packet_tx.header` in the cycles in which it latches) during
a history, in order -/
def latches (c : Config) : State → List In → List Hdr
  | _, [] => []
  | s, i :: is => (if latch s i then [txHeader s] else []) ++ latches c (step c s i).1 is

/-- Environment of the history after an LBAD: `EnvStepR` in every cycle, and a further LBAD ends the
history considered (its own cycle is still included). -/
def RoundEnv (c : Config) : State → Ghost → List In → Prop
  | _, _, [] => True
  | s, g, i :: is => EnvStepR s g i ∧ (retryRequired s = true → is.isEmpty = true) ∧
      RoundEnv c (step c s i).1 (ghostStep s i g) is

/-- **induction over the history**: with a round `pend`, the next `pend.length` headers handed to the raw
transmitter are `pend`, in order, each with the delayed bit — for every history without a further LBAD,
whatever the waiting times. -/
theorem round_run (c : Config) (ins : List In) : ∀ (s : State) (g : Ghost) (pend : List Hdr),
    InvR s g → Round s g pend → RoundEnv c s g ins →
    (latches c s ins).take pend.length <+: pend.map dl := by
  induction ins with
  | nil => intro s g pend _ _ _; simp [latches]
  | cons i is ih =>
    intro s g pend hi r ⟨e, hlast, henv⟩
    -- the rest of the history
    have hrest : ∀ pend', Round (step c s i).1 (ghostStep s i g) pend' ∨ is = [] →
        (latches c (step c s i).1 is).take pend'.length <+: pend'.map dl := by
      intro pend' h
      rcases h with h | h
      · exact ih _ _ pend' (invR_step hi e) h henv
      · subst h; simp [latches]
    have hr' : Round (step c s i).1 (ghostStep s i g) (if latch s i then pend.tail else pend) ∨ is = [] := by
      rcases Bool.eq_false_or_eq_true (retryRequired s) with hL | hL
      · right; simpa using hlast hL
      · left; exact round_step hi e r hL
    simp only [latches]
    rcases Bool.eq_false_or_eq_true (latch s i) with hl | hl
    · simp only [hl, if_true] at hr' ⊢
      cases pend with
      | nil => simp
      | cons h t =>
        obtain ⟨_, htx⟩ := round_emit hi e r hl
        simp only [List.length_cons, List.singleton_append, List.take_succ_cons, List.map_cons, htx]
        exact (List.cons_prefix_cons).2 ⟨rfl, hrest t hr'⟩
    · simp only [hl, Bool.false_eq_true, if_false, List.nil_append] at hr' ⊢
      exact hrest pend hr'

end LunaVerif.PacketTx
