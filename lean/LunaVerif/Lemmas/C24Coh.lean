import LunaVerif.Lemmas.C24World
/-!
# C24 — coherence of link and PHY for every legal PHY (safety)

`coh_step`: the invariant `Coh` of `Lemmas/C24World.lean` is preserved by every cycle that satisfies
the PHY-side hypotheses `safeCycle` (no NXT in the turnaround cycle, no abort of an accepted link
transmission, NXT with an idle parser only when a byte is on the bus) — whatever the UTMI
transmitter and the control inputs do.  One lemma per state of the register window.
-/
set_option linter.unusedSimpArgs false
namespace LunaVerif.Ulpi

theorem coh_step_startWrite (cfg : Config) (x : World) (i : UtmiIn) (h : Coh x)
    (hw : x.u.win.st = .startWrite)
    (hs : safeCycle x.p.bus x.e i (x.u.step cfg i).2 = true) : Coh (x.step cfg i) := by
  obtain ⟨⟨win, ctl, tx, rx, rdy, cnt⟩, ⟨pb, r4, rA, po, pw⟩, ⟨pd, wt, tl, mh, dn, a4, aA⟩⟩ := x
  obtain ⟨wst, ca, cw, d, oq, sp, wdn, rd⟩ := win
  obtain ⟨tst, treq⟩ := tx
  obtain ⟨c4, cA, cb⟩ := ctl
  obtain ⟨⟨dir, nxt, din⟩, txd, txv, ctrl⟩ := i
  simp only at hw
  subst hw
  simp only [Coh, BusyCommon, Latched] at h
  obtain ⟨h1, h2, ⟨hb, ht, ha, hd, hr4, hrA⟩, hpb, hsp, hpd⟩ := h
  subst h1 hb hd hr4 hrA hpb hsp
  cases ht
  simp only [safeCycle, Utmi.step, PhyBus.isIdle, PhyBus.isTx] at hs
  cases dir <;> cases nxt <;> simp_all [Coh, BusyCommon, Latched, World.step, Utmi.step, Window.step, Ctl.step, Ctl.comb, Tx.step,
    PhyRegs.step, Env.step, Utmi.ctlOut, Utmi.ctlBusIdle, Utmi.txBusIdle, Tx.busy, Window.busy, COMMAND_REG_WRITE]

theorem coh_step_sendWriteAddress (cfg : Config) (x : World) (i : UtmiIn) (h : Coh x)
    (hw : x.u.win.st = .sendWriteAddress)
    (hs : safeCycle x.p.bus x.e i (x.u.step cfg i).2 = true) : Coh (x.step cfg i) := by
  obtain ⟨⟨win, ctl, tx, rx, rdy, cnt⟩, ⟨pb, r4, rA, po, pw⟩, ⟨pd, wt, tl, mh, dn, a4, aA⟩⟩ := x
  obtain ⟨wst, ca, cw, d, oq, sp, wdn, rd⟩ := win
  obtain ⟨tst, treq⟩ := tx
  obtain ⟨c4, cA, cb⟩ := ctl
  obtain ⟨⟨dir, nxt, din⟩, txd, txv, ctrl⟩ := i
  simp only at hw
  subst hw
  simp only [Coh, BusyCommon, Latched] at h
  obtain ⟨h1, h2, ⟨hb, ht, ha, hd, hr4, hrA⟩, hpb, hsp, hdo, hpd⟩ := h
  subst h1 hb hd hr4 hrA hpb hsp hdo hpd
  cases ht
  simp only [safeCycle, Utmi.step, PhyBus.isIdle, PhyBus.isTx] at hs
  rcases ha with ⟨ha, hv⟩ | ⟨ha, hv⟩ <;> subst ha hv <;>
  cases dir <;> cases nxt <;> simp_all [Coh, BusyCommon, Latched, World.step, Utmi.step, Window.step, Ctl.step, Ctl.comb, Tx.step,
    PhyRegs.step, Env.step, Utmi.ctlOut, Utmi.ctlBusIdle, Utmi.txBusIdle, Tx.busy, Window.busy]

theorem coh_step_holdWrite (cfg : Config) (x : World) (i : UtmiIn) (h : Coh x)
    (hw : x.u.win.st = .holdWrite)
    (hs : safeCycle x.p.bus x.e i (x.u.step cfg i).2 = true) : Coh (x.step cfg i) := by
  obtain ⟨⟨win, ctl, tx, rx, rdy, cnt⟩, ⟨pb, r4, rA, po, pw⟩, ⟨pd, wt, tl, mh, dn, a4, aA⟩⟩ := x
  obtain ⟨wst, ca, cw, d, oq, sp, wdn, rd⟩ := win
  obtain ⟨tst, treq⟩ := tx
  obtain ⟨c4, cA, cb⟩ := ctl
  obtain ⟨⟨dir, nxt, din⟩, txd, txv, ctrl⟩ := i
  simp only at hw
  subst hw
  simp only [Coh, BusyCommon, Latched] at h
  obtain ⟨h1, h2, ⟨hb, ht, ha, hd, hr4, hrA⟩, hpb, hsp, hdo, hpd⟩ := h
  subst h1 hb hd hr4 hrA hpb hsp hdo hpd
  cases ht
  simp only [safeCycle, Utmi.step, PhyBus.isIdle, PhyBus.isTx] at hs
  cases dir <;> cases nxt <;> simp_all [Coh, BusyCommon, Latched, World.step, Utmi.step, Window.step, Ctl.step, Ctl.comb, Tx.step,
    PhyRegs.step, Env.step, Utmi.ctlOut, Utmi.ctlBusIdle, Utmi.txBusIdle, Tx.busy, Window.busy]

theorem coh_step_stopping (cfg : Config) (x : World) (i : UtmiIn) (h : Coh x)
    (hw : x.u.win.st = .stopping)
    (hs : safeCycle x.p.bus x.e i (x.u.step cfg i).2 = true) : Coh (x.step cfg i) := by
  obtain ⟨⟨win, ctl, tx, rx, rdy, cnt⟩, ⟨pb, r4, rA, po, pw⟩, ⟨pd, wt, tl, mh, dn, a4, aA⟩⟩ := x
  obtain ⟨wst, ca, cw, d, oq, sp, wdn, rd⟩ := win
  obtain ⟨tst, treq⟩ := tx
  obtain ⟨c4, cA, cb⟩ := ctl
  obtain ⟨⟨dir, nxt, din⟩, txd, txv, ctrl⟩ := i
  simp only at hw
  subst hw
  simp only [Coh, BusyCommon, Latched] at h
  obtain ⟨h1, h2, ⟨hb, ht, ha, hd, hr4, hrA⟩, hpb, hsp, hdo⟩ := h
  subst h1 hb hd hr4 hrA hpb hsp hdo
  cases ht
  simp only [safeCycle, Utmi.step, PhyBus.isIdle, PhyBus.isTx] at hs
  rcases ha with ⟨ha, hv⟩ | ⟨ha, hv⟩ <;> subst ha hv <;>
  cases dir <;> cases nxt <;> simp_all [Coh, BusyCommon, Latched, World.step, Utmi.step, Window.step, Ctl.step, Ctl.comb, Tx.step,
    PhyRegs.step, PhyRegs.commit, Env.step, Utmi.ctlOut, Utmi.ctlBusIdle, Utmi.txBusIdle, Tx.busy, Window.busy,
    ADDR_FUNCTION_CONTROL, ADDR_OTG_CONTROL]


theorem or64_div (n : Nat) (h : n < 16) : (64 ||| n) / 64 = 1 := by
  revert n; decide

theorem or64_ne (n : Nat) (h : n < 16) : (64 ||| n) ≠ 0 := by
  revert n; decide

theorem coh_step_idle (cfg : Config) (x : World) (i : UtmiIn) (h : Coh x)
    (hw : x.u.win.st = .idle)
    (hs : safeCycle x.p.bus x.e i (x.u.step cfg i).2 = true) : Coh (x.step cfg i) := by
  obtain ⟨⟨win, ctl, tx, rx, rdy, cnt⟩, ⟨pb, r4, rA, po, pw⟩, ⟨pd, wt, tl, mh, dn, a4, aA⟩⟩ := x
  obtain ⟨wst, ca, cw, d, oq, sp, wdn, rd⟩ := win
  obtain ⟨tst, treq⟩ := tx
  obtain ⟨c4, cA, cb⟩ := ctl
  obtain ⟨⟨dir, nxt, din⟩, txd, txv, ctrl⟩ := i
  simp only at hw
  subst hw
  simp only [Coh, BusyCommon, Latched] at h
  obtain ⟨h1, h2, hdo, hsp, h3⟩ := h
  subst h1 hdo hsp
  have hn := or64_div (txd % 16) (Nat.mod_lt _ (by decide))
  have hn0 := or64_ne (txd % 16) (Nat.mod_lt _ (by decide))
  simp only [safeCycle, Utmi.step, PhyBus.isIdle, PhyBus.isTx] at hs
  rcases h3 with ⟨hd, hb, ht, hpb, ha, hr4, hrA⟩ | ⟨hd, hb, hr4, hrA, h4⟩
  · subst hd hb hpb hr4 hrA
    cases ht
    rcases ha with ⟨ha, hv⟩ | ⟨ha, hv⟩ <;> subst ha hv <;>
    by_cases g4 : c4 = functionControl ctrl <;> by_cases gA : cA = otgControl ctrl <;>
    cases dir <;> cases nxt <;> simp_all [Coh, BusyCommon, Latched, World.step, Utmi.step, Window.step, Ctl.step, Ctl.comb, Tx.step,
      PhyRegs.step, PhyRegs.commit, Env.step, Utmi.ctlOut, Utmi.ctlBusIdle, Utmi.txBusIdle, Tx.busy, Window.busy,
      ADDR_FUNCTION_CONTROL, ADDR_OTG_CONTROL]
  · subst hd hb hr4 hrA
    rcases h4 with ⟨ht, hpb⟩ | ⟨ht, hpb⟩ | ⟨ht, hpb⟩ <;> cases ht <;> subst hpb
    · by_cases g4 : r4 = functionControl ctrl <;> by_cases gA : rA = otgControl ctrl <;>
      cases dir <;> cases nxt <;> cases rdy <;> cases txv <;>
      by_cases gn : ctrl.opMode % 4 = OP_MODE_NO_BIT_STUFFING <;>
      simp_all [Coh, BusyCommon, Latched, World.step, Utmi.step, Window.step, Ctl.step, Ctl.comb, Tx.step,
        PhyRegs.step, Env.step, Utmi.ctlOut, Utmi.ctlBusIdle, Utmi.txBusIdle, Tx.busy, Window.busy,
        ADDR_FUNCTION_CONTROL, ADDR_OTG_CONTROL, TRANSMIT_COMMAND]
    · by_cases g4 : r4 = functionControl ctrl <;> by_cases gA : rA = otgControl ctrl <;>
      cases dir <;> cases nxt <;> cases rdy <;> cases txv <;>
      by_cases gn : ctrl.opMode % 4 = OP_MODE_NO_BIT_STUFFING <;>
      simp_all [Coh, BusyCommon, Latched, World.step, Utmi.step, Window.step, Ctl.step, Ctl.comb, Tx.step,
        PhyRegs.step, Env.step, Utmi.ctlOut, Utmi.ctlBusIdle, Utmi.txBusIdle, Tx.busy, Window.busy,
        ADDR_FUNCTION_CONTROL, ADDR_OTG_CONTROL, TRANSMIT_COMMAND]
    · by_cases g4 : r4 = functionControl ctrl <;> by_cases gA : rA = otgControl ctrl <;>
      cases dir <;> cases nxt <;> cases rdy <;> cases txv <;>
      by_cases gn : ctrl.opMode % 4 = OP_MODE_NO_BIT_STUFFING <;>
      simp_all [Coh, BusyCommon, Latched, World.step, Utmi.step, Window.step, Ctl.step, Ctl.comb, Tx.step,
        PhyRegs.step, Env.step, Utmi.ctlOut, Utmi.ctlBusIdle, Utmi.txBusIdle, Tx.busy, Window.busy,
        ADDR_FUNCTION_CONTROL, ADDR_OTG_CONTROL, TRANSMIT_COMMAND]


/-- One legal cycle preserves coherence. -/
theorem coh_step (cfg : Config) (x : World) (i : UtmiIn) (h : Coh x)
    (hs : safeCycle x.p.bus x.e i (x.u.step cfg i).2 = true) : Coh (x.step cfg i) := by
  have hst : x.u.win.st = .idle ∨ x.u.win.st = .startWrite ∨ x.u.win.st = .sendWriteAddress ∨
      x.u.win.st = .holdWrite ∨ x.u.win.st = .stopping := by
    have h3 := h.2.2
    cases hw : x.u.win.st <;> simp_all
  rcases hst with hw | hw | hw | hw | hw
  · exact coh_step_idle cfg x i h hw hs
  · exact coh_step_startWrite cfg x i h hw hs
  · exact coh_step_sendWriteAddress cfg x i h hw hs
  · exact coh_step_holdWrite cfg x i h hw hs
  · exact coh_step_stopping cfg x i h hw hs

/-- Coherence along every legal history. -/
theorem coh_run (cfg : Config) (x : World) (h : List UtmiIn) (hx : Coh x) (hs : SafeOk cfg x h = true) :
    Coh (World.run cfg x h) := by
  induction h generalizing x with
  | nil => exact hx
  | cons i is ih =>
    simp only [SafeOk, Bool.and_eq_true] at hs
    exact ih _ (coh_step cfg x i hx hs.1) hs.2

end LunaVerif.Ulpi
