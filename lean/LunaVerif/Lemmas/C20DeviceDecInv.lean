import LunaVerif.Lemmas.C20DeviceDecAck
import LunaVerif.Lemmas.C20DeserRx
/-!
# C20 — the setup decoder's ACK and `received` clauses of `decHolds'` are theorems

`Lemmas/C20DeviceDec.lean` leaves `decOk'` assumed in every cycle.  Two of its clauses are proved here for every history
of the device with control endpoint and setup decoder (`DevDec`) at full / low speed (`hs = false`):

* (a) the decoder's `ack` is driven only in a cycle in which the receiver gives `ready_for_response` and the tokenizer
  shows SETUP.  Joint invariant `DJ`: the deserializer and the receiver parse in lock-step with equal CRC16 checks
  (`DeserRx.DR`); a `new_packet` of length 8 finds the receiver entering its inter-packet DELAY with the shared counter
  at 0 (`j3`), so READ_DATA never ACKs directly (`tx_allowed` needs `counter = delay >= 1`); the decoder is in DELAY only
  while the receiver is, with the counter not beyond the delay and the token detector's `pid` still SETUP (`j4`), so
  `tx_allowed` there IS the receiver's pulse.
* (c) no `received` while the control slot is armed or sending: `new_packet` comes in the cycle after `rx_active` fell,
  when the packet layer's invariant shows nothing owed (mode M0: window closed one cycle earlier), no pulse can come in
  that cycle nor in the next (a pulse needs `counter = delay >= 1` resp. an IN/PING pid), and an idle slot that keeps the
  contract stays idle without a pulse (`j1`, `j2`).

What remains assumed per cycle is `decOk2`: no forwarded host ACK while the control slot is armed / sending (the handshake
detector is not part of the composition), the legal-host clause on `start_position`, reset sequencer silent, and the
receive bytes are 8 bits wide.
-/
namespace LunaVerif.DevDec
open LunaVerif LunaVerif.DevCyc LunaVerif.DevCyc.Abs LunaVerif.C20Ctr LunaVerif.DevEp LunaVerif.CtrlCyc LunaVerif.DevCtl
open LunaVerif.SetupDecoder (Deser Dec deserStep decStep)
open LunaVerif.DeserRx (DR dr_step dr_new8 dr_init)

/-- Every rx-to-tx delay of the timer table is at least one cycle. -/
theorem delay_pos (tc : InterpacketTimer.Config) (speed : Nat) : 1 ≤ delayOf tc speed := by
  unfold delayOf InterpacketTimer.hsRxToTxDelay InterpacketTimer.fsRxToTxDelay InterpacketTimer.lsRxToTxDelay
  split
  · simp
  · split
    · cases tc.clk12 <;> simp
    · simp

/-- The decoder enters / stays in DELAY only without `tx_allowed`. -/
theorem dec_delay_origin (c : SetupDecoder.Config) (k : Dec) (tn : Bool) (tp : Nat) (dn : Bool) (dl : Nat)
    (p : List Nat) (ta : Bool) (h : (decStep c k tn tp dn dl p ta).1.fsm = .delay) :
    (k.fsm = .readData ∧ dn = true ∧ dl = 8 ∧ tp = SetupDecoder.SETUP_PID ∧ ta = false) ∨
    (k.fsm = .delay ∧ ta = false) := by
  cases hf : k.fsm <;> simp only [decStep, hf] at h
  · revert h; split <;> simp
  · left
    revert h
    (repeat' split) <;> simp_all
  · right
    revert h
    split <;> simp_all

/-! ### The receiver inside the device -/

theorem dev_rx_fsm (c : DevEp.Config) (S : DevEp.State) (x : Ext) :
    (DevEp.step c S x).1.dev.rx.fsm = (DataReceiver.fsmStep (rxCfg c.dev) S.dev.rx x.rx).1.fsm := rfl

theorem dev_rx_counter (c : DevEp.Config) (S : DevEp.State) (x : Ext) :
    (DevEp.step c S x).1.dev.rx.counter =
      DataReceiver.counterNext (rxCfg c.dev) S.dev.rx.counter
        ((DataReceiver.fsmStep (rxCfg c.dev) S.dev.rx x.rx).2.2.2.2 || x.restTimer) := rfl

theorem dev_rx_dr (c : DevEp.Config) (S : DevEp.State) (x : Ext) (d : Deser)
    (h : DR d (DataReceiver.fsmStep (rxCfg c.dev) S.dev.rx x.rx).1) : DR d (DevEp.step c S x).1.dev.rx := h

theorem fwd_crc (c : DevEp.Config) (S : DevEp.State) (x : Ext) :
    (fwd c S x).rxo.crcOut = DataCrc.output S.dev.rx.crc := rfl

theorem fwd_ready' (c : DevEp.Config) (hs : strobes c.dev.tok.timer c.dev.speed = true) (S : DevEp.State) (x : Ext) :
    (fwd c S x).rxo.ready =
      (S.dev.rx.fsm == .delay && S.dev.rx.counter == delayOf c.dev.tok.timer c.dev.speed) := by
  show (DataReceiver.fsmStep (rxCfg c.dev) S.dev.rx x.rx).2.2.2.1 = _
  rw [rx_ready, rx_delay c.dev hs]

theorem fwd_allowed (c : DevEp.Config) (hs : strobes c.dev.tok.timer c.dev.speed = true) (S : DevEp.State) (x : Ext) :
    (fwd c S x).txAllowed = (S.dev.rx.counter == delayOf c.dev.tok.timer c.dev.speed) := by
  show (InterpacketTimer.outputs c.dev.tok.timer S.dev.rx.counter c.dev.speed).txAllowed = _
  exact allowed_eq _ _ _ hs

/-! ### The joint invariant of decoder, deserializer, receiver and control slot -/

structure DJ (c : Config) (D : State) (q : Phs) : Prop where
  dr : DR D.ds D.w.ep.dev.rx
  j1 : D.ds.newPacket = true → q.r = .idle
  j2 : D.dec.received = true → q.r = .idle
  j3 : D.ds.newPacket = true → D.ds.length = 8 → D.w.ep.dev.rx.fsm = .delay ∧ D.w.ep.dev.rx.counter = 0
  j4 : D.dec.fsm = .delay → D.w.ep.dev.rx.fsm = .delay ∧
        D.w.ep.dev.rx.counter ≤ delayOf c.dc.ep.dev.tok.timer c.dc.ep.dev.speed ∧
        D.w.ep.dev.tok.tok.regs.pid = SetupDecoder.SETUP_PID

theorem dj_init (c : Config) : DJ c (init c) phs0 := by
  refine ⟨?_, ?_, ?_, ?_, ?_⟩
  · exact dr_init
  · intro _; rfl
  · intro _; rfl
  · intro h; simp [init, SetupDecoder.init] at h
  · intro h; simp [init, SetupDecoder.init] at h

/-- What is still assumed of the decoder's surroundings in one cycle (compare `decOk'`: the ACK clause and the `received`
clause are gone; the receive bytes are 8 bits wide). -/
def decOk2 (c : Config) (D : State) (q : Phs) (x : Ext) (ac : Nat) : Bool :=
  let o := fwd c.dc.ep D.w.ep x
  (q.r == .idle || !(ctrlComb c.dc.ctl D.w.ctl.cs.stage (ctlIn x (dOf c D x ac) o)).hsAck) &&
  (D.w.ctl.blk.fsm != .start || decide (D.w.ctl.cs.h.startPos < 2 ^ c.dc.blk.img.posW)) && !x.rsValid &&
  decide (x.rx.data < 256)

/-- In mode M0 (nothing owed) the merged slot, hence the rest slot, is idle. -/
theorem idle_of_closed (c : DevEp.Config) (p : Params) {S : DevEp.State} {g : Ghost} {q : Phs}
    (hg : Good c p S g q) (hw : g.win = .closed) :
    q.r = .idle ∧ aPulse (delayOf c.dev.tok.timer c.dev.speed) (skel S.dev) = false := by
  have hm : quietTx (skel S.dev) ∧ ¬ tokArmed (delayOf c.dev.tok.timer c.dev.speed) (skel S.dev) ∧
      (skel S.dev).rf ≠ .delay ∧ g.pend = none := by
    rcases hg.inv.mode with m | m | m | m | m
    · exact m
    · have := m.2.2.2.2; simp [hw] at this
    · obtain ⟨_, _, _, _, _, k, hk, _⟩ := m; simp [hw] at hk
    · obtain ⟨_, _, _, j, k, _, _, hk, _⟩ := m; simp [hw] at hk
    · exact absurd hw m.2.2.2.2
  obtain ⟨⟨_, hgf⟩, hna, hrd, hpend⟩ := hm
  refine ⟨?_, noPulse_of hna hrd⟩
  have hl := hg.link
  have : orPh q.r (orPh q.i (orPh q.o (orPh q.s .idle))) = .idle := by
    generalize orPh q.r (orPh q.i (orPh q.o (orPh q.s .idle))) = ph at hl ⊢
    cases ph with
    | idle => rfl
    | armed j => have := hl.armed j rfl; simp [hpend] at this
    | sending =>
      have hb := hl.send.mp rfl
      have hgf' : S.dev.gen.fsm = .idle := hgf
      rcases hb with ⟨h1, _⟩ | h1 <;> simp [hgf'] at h1
  exact (orPh_idle.mp this).1

/-- With the tokenizer showing SETUP and `rx_active` high two cycles ago there is no `ready_for_response` pulse. -/
theorem no_pulse_setup (c : DevEp.Config) (p : Params) {S : DevEp.State} {g : Ghost} {q : Phs}
    (hg : Good c p S g q) (hpid : S.dev.tok.tok.regs.pid = SetupDecoder.SETUP_PID) (ha2 : g.a2 = true) :
    aPulse (delayOf c.dev.tok.timer c.dev.speed) (skel S.dev) = false := by
  have hd := delay_pos c.dev.tok.timer c.dev.speed
  have harm : (skel S.dev).armed = false := by
    simp [skel, hpid, SetupDecoder.SETUP_PID, inPid, pingPid]
  cases hp : aPulse (delayOf c.dev.tok.timer c.dev.speed) (skel S.dev) with
  | false => rfl
  | true =>
    exfalso
    simp only [aPulse, harm, Bool.and_false, Bool.false_or, Bool.and_eq_true, beq_iff_eq] at hp
    obtain ⟨hrf, hcs⟩ := hp
    rcases hg.inv.mode with m | m | m | m | m
    · exact m.2.2.1 hrf
    · exact m.2.2.1 hrf
    · obtain ⟨_, _, _, _, _, k, _, hk, hka⟩ := m
      have : k = 0 := by
        rcases Nat.eq_zero_or_pos k with h0 | h0
        · exact h0
        · have := hka h0; simp [ha2] at this
      omega
    · exact m.2.2.1 hrf
    · exact m.2.2.1 hrf

/-- `decOk'` from the joint invariant and `decOk2`. -/
theorem decOk'_of (c : Config) (hs : strobes c.dc.ep.dev.tok.timer c.dc.ep.dev.speed = true)
    (hfs : c.hs = false) {D : State} {q : Phs} {x : Ext} {ac : Nat} (hj : DJ c D q)
    (h : decOk2 c D q x ac = true) : decOk' c D q x ac = true := by
  simp only [decOk2, Bool.and_eq_true, Bool.or_eq_true, Bool.not_eq_eq_eq_not, Bool.not_true, beq_iff_eq] at h
  obtain ⟨⟨⟨h3, h4⟩, h5⟩, _⟩ := h
  have hd := delay_pos c.dc.ep.dev.tok.timer c.dc.ep.dev.speed
  simp only [decOk', Bool.and_eq_true, Bool.or_eq_true, Bool.not_eq_eq_eq_not, Bool.not_true, beq_iff_eq]
  refine ⟨⟨⟨?_, ?_⟩, h4⟩, h5⟩
  · cases hack : (decCycle c D x).2 with
    | false => exact Or.inl rfl
    | true =>
      right
      rcases dec_ack_origin (decCfg c) _ _ _ _ _ _ _ hack with ⟨_, hn, hl, _, hta⟩ | ⟨hf, hta⟩
      · exfalso
        rcases hta with hta | hta
        · obtain ⟨_, h0⟩ := hj.j3 hn hl
          rw [fwd_allowed c.dc.ep hs, h0] at hta
          simp only [beq_iff_eq] at hta
          omega
        · simp [decCfg, hfs] at hta
      · obtain ⟨hrf, _, hpid⟩ := hj.j4 hf
        rw [fwd_allowed c.dc.ep hs] at hta
        refine ⟨?_, ?_⟩
        · rw [fwd_ready' c.dc.ep hs, hrf, hta]; rfl
        · rw [(pid_decode c.dc D.w x).2.2.1, fwd_regs, hpid]; rfl
  · rcases h3 with h3 | h3
    · exact Or.inl h3
    · cases hr : D.dec.received with
      | false => exact Or.inr ⟨rfl, h3⟩
      | true => exact Or.inl (hj.j2 hr)

/-- One cycle: the joint invariant is kept (and so are `Joint` and `DI`). -/
theorem dj_step (c : Config) (p : Params) (hs : strobes c.dc.ep.dev.tok.timer c.dc.ep.dev.speed = true)
    (hT : delayOf c.dc.ep.dev.tok.timer c.dc.ep.dev.speed + p.L + 2 < p.T) (hne : c.dc.ep.epIn ≠ c.dc.ep.sig.epNum)
    (he : epsOk c.dc) (hL : 3 ≤ p.L) (hfs : c.hs = false)
    {D : State} {g : Ghost} {q : Phs} {pty : Nat} {x : Ext} {ac : Nat}
    (hJ : Joint c.dc p D.w g q pty) (hi : DI D g pty) (hj : DJ c D q)
    (hh : hostOk g (fullIn c.dc.ep D.w.ep (extOf c.dc D.w (xOf D x) (dOf c D x ac))) = true)
    (h2 : decOk2 c D q x ac = true) :
    decOk' c D q x ac = true ∧
    Joint c.dc p (step c D x ac).w
      (ghostNext p g D.w.ep.dev (fullIn c.dc.ep D.w.ep (extOf c.dc D.w (xOf D x) (dOf c D x ac)))
        (DevEp.step c.dc.ep D.w.ep (extOf c.dc D.w (xOf D x) (dOf c D x ac))).2)
      (nextPhs p.L c.dc.ep D.w.ep (extOf c.dc D.w (xOf D x) (dOf c D x ac)) q) (suOf D.dec).type ∧
    DI (step c D x ac)
      (ghostNext p g D.w.ep.dev (fullIn c.dc.ep D.w.ep (extOf c.dc D.w (xOf D x) (dOf c D x ac)))
        (DevEp.step c.dc.ep D.w.ep (extOf c.dc D.w (xOf D x) (dOf c D x ac))).2) (suOf D.dec).type ∧
    DJ c (step c D x ac) (nextPhs p.L c.dc.ep D.w.ep (extOf c.dc D.w (xOf D x) (dOf c D x ac)) q) ∧
    (g.win = .closed → (nextPhs p.L c.dc.ep D.w.ep (extOf c.dc D.w (xOf D x) (dOf c D x ac)) q).r = .idle) := by
  have hok' := decOk'_of c hs hfs hj h2
  have hok := decOk_of c hi hok'
  obtain ⟨hr, hJ'⟩ := joint_step c.dc p hs hT hne he hL hJ hh hok
  have hI' : DI (step c D x ac)
      (ghostNext p g D.w.ep.dev (fullIn c.dc.ep D.w.ep (extOf c.dc D.w (xOf D x) (dOf c D x ac)))
        (DevEp.step c.dc.ep D.w.ep (extOf c.dc D.w (xOf D x) (dOf c D x ac))).2) (suOf D.dec).type :=
    di_step c p x ac _ _ rfl hi
  refine ⟨hok', hJ', hI', ?_⟩
  suffices hst : (q.r = .idle → aPulse (delayOf c.dc.ep.dev.tok.timer c.dc.ep.dev.speed) (skel D.w.ep.dev) = false →
      (nextPhs p.L c.dc.ep D.w.ep (extOf c.dc D.w (xOf D x) (dOf c D x ac)) q).r = .idle) ∧
      DJ c (step c D x ac) (nextPhs p.L c.dc.ep D.w.ep (extOf c.dc D.w (xOf D x) (dOf c D x ac)) q) by
    refine ⟨hst.2, fun hw => ?_⟩
    obtain ⟨hq, hp⟩ := idle_of_closed c.dc.ep p hJ.good hw
    exact hst.1 hq hp
  -- abbreviations
  have hd := delay_pos c.dc.ep.dev.tok.timer c.dc.ep.dev.speed
  have hb : x.rx.data < 256 := by
    simp only [decOk2, Bool.and_eq_true, decide_eq_true_eq] at h2
    exact h2.2
  have hinv := hJ.good.inv
  have hh' : aHostOk g (skelIn c.dc.ep.dev D.w.ep.dev
      (fullIn c.dc.ep D.w.ep (extOf c.dc D.w (xOf D x) (dOf c D x ac)))) = true := hh
  have hv : x.rx.valid = true → x.rx.active = true := by
    intro hv
    have := hh
    simp only [hostOk, Bool.and_eq_true, Bool.or_eq_true, Bool.not_eq_eq_eq_not, Bool.not_true] at this
    rcases this.2 with h | h
    · have hv' : (fullIn c.dc.ep D.w.ep (extOf c.dc D.w (xOf D x) (dOf c D x ac))).rx.valid = true := hv
      simp [hv'] at h
    · exact h
  have hdel : D.w.ep.dev.rx.fsm = .delay → x.rx.active = false ∧ g.a1 = false := by
    intro hrf
    have hw := delay_open hinv hrf
    obtain ⟨h1, h2, _, _⟩ := open_facts hinv hh' hw
    exact ⟨h1, h2⟩
  -- an idle rest slot without a pulse stays idle
  have stay : q.r = .idle → aPulse (delayOf c.dc.ep.dev.tok.timer c.dc.ep.dev.speed) (skel D.w.ep.dev) = false →
      (nextPhs p.L c.dc.ep D.w.ep (extOf c.dc D.w (xOf D x) (dOf c D x ac)) q).r = .idle := by
    intro hq hp
    have hpul : pulR c.dc.ep D.w.ep (extOf c.dc D.w (xOf D x) (dOf c D x ac)) = false := by
      have : pulse (fwd c.dc.ep D.w.ep (extOf c.dc D.w (xOf D x) (dOf c D x ac))) = false := by
        rw [← fwd_pulse, pulse_eq c.dc.ep.dev hs]; exact hp
      simp [pulR, this]
    simp only [cstep, Bool.and_eq_true, hq, hpul] at hr
    have := (idle_silent (L := p.L)
      (rdy := (fwd c.dc.ep D.w.ep (extOf c.dc D.w (xOf D x) (dOf c D x ac))).streamReady) hr.1).2.2.2.2
    show cnext p.L q.r (pulR c.dc.ep D.w.ep (extOf c.dc D.w (xOf D x) (dOf c D x ac))) _ _ = .idle
    rw [hq, hpul]; exact this
  obtain ⟨n1, _⟩ := deser_new D.ds (fwd c.dc.ep D.w.ep x).rxo.crcOut x.rx
  obtain ⟨_, t2⟩ := tok_facts c.dc.ep.dev.tok D.w.ep.dev.tok.tok ⟨x.rx, x.address⟩
  have htok : (step c D x ac).w.ep.dev.tok.tok =
      (TokenDetector.tokStep c.dc.ep.dev.tok D.w.ep.dev.tok.tok ⟨x.rx, x.address⟩).1 :=
    dev_tok c.dc.ep D.w.ep (extOf c.dc D.w (xOf D x) (dOf c D x ac))
  have hfsm : (step c D x ac).w.ep.dev.rx.fsm = (DataReceiver.fsmStep (rxCfg c.dc.ep.dev) D.w.ep.dev.rx x.rx).1.fsm :=
    dev_rx_fsm c.dc.ep D.w.ep (extOf c.dc D.w (xOf D x) (dOf c D x ac))
  have hcnt : (step c D x ac).w.ep.dev.rx.counter =
      DataReceiver.counterNext (rxCfg c.dc.ep.dev) D.w.ep.dev.rx.counter
        ((DataReceiver.fsmStep (rxCfg c.dc.ep.dev) D.w.ep.dev.rx x.rx).2.2.2.2 || D.ds.newPacket) :=
    dev_rx_counter c.dc.ep D.w.ep (extOf c.dc D.w (xOf D x) (dOf c D x ac))
  refine ⟨stay, ?_, ?_, ?_, ?_, ?_⟩
  · -- lock-step of deserializer and receiver
    apply dev_rx_dr c.dc.ep D.w.ep (extOf c.dc D.w (xOf D x) (dOf c D x ac))
    exact dr_step (rxCfg c.dc.ep.dev) D.ds D.w.ep.dev.rx x.rx hj.dr (fun h => (hdel h).1) hv hb
  · -- `new_packet` next cycle: `rx_active` was high one cycle ago, so the window is closed and nothing is owed
    intro hn
    obtain ⟨hne', _⟩ := n1 hn
    have hw := hinv.act (hi.i1 hne')
    obtain ⟨hq, hp⟩ := idle_of_closed c.dc.ep p hJ.good hw
    exact stay hq hp
  · -- `received` next cycle: `new_packet` now, under a SETUP pid
    intro hrc
    obtain ⟨hn, hpid⟩ := dec_received_origin (decCfg c) D.dec (fwd c.dc.ep D.w.ep x).tok.regs.newToken
      (fwd c.dc.ep D.w.ep x).tok.regs.pid D.ds.newPacket D.ds.length D.ds.packet (fwd c.dc.ep D.w.ep x).txAllowed hrc
    rw [fwd_regs] at hpid
    exact stay (hj.j1 hn) (no_pulse_setup c.dc.ep p hJ.good hpid (hi.i2 hn).2)
  · -- a `new_packet` of length 8 is accepted by the receiver in the same cycle
    intro hn hl
    obtain ⟨k1, k2⟩ := dr_new8 (rxCfg c.dc.ep.dev) D.ds D.w.ep.dev.rx x.rx hj.dr hn hl
    refine ⟨by rw [hfsm]; exact k2, ?_⟩
    rw [hcnt, k1]; simp [DataReceiver.counterNext]
  · -- decoder in DELAY next cycle
    intro hdl
    have hstay : D.w.ep.dev.rx.fsm = .delay →
        D.w.ep.dev.rx.counter ≠ delayOf c.dc.ep.dev.tok.timer c.dc.ep.dev.speed →
        (step c D x ac).w.ep.dev.rx.fsm = .delay := by
      intro hrf hcs
      rw [hfsm, rx_fsm, hrf, rx_delay c.dc.ep.dev hs]
      simp [rxNext, hcs]
    have hpid' : g.a1 = false → D.w.ep.dev.tok.tok.regs.pid = SetupDecoder.SETUP_PID →
        (step c D x ac).w.ep.dev.tok.tok.regs.pid = SetupDecoder.SETUP_PID := by
      intro ha1 hp
      rw [htok, t2 (hi.i4 ha1), hp]
    rcases dec_delay_origin (decCfg c) _ _ _ _ _ _ _ hdl with ⟨_, hn, hl, hpid, hta⟩ | ⟨hf, hta⟩
    · obtain ⟨hrf, h0⟩ := hj.j3 hn hl
      rw [fwd_regs] at hpid
      refine ⟨hstay hrf (by omega), ?_, hpid' (hi.i2 hn).1 hpid⟩
      rw [hcnt, hn]; simp [DataReceiver.counterNext]
    · obtain ⟨hrf, hle, hpid⟩ := hj.j4 hf
      rw [fwd_allowed c.dc.ep hs] at hta
      have hcs : D.w.ep.dev.rx.counter ≠ delayOf c.dc.ep.dev.tok.timer c.dc.ep.dev.speed := by
        simpa using hta
      refine ⟨hstay hrf hcs, ?_, hpid' (hdel hrf).2 hpid⟩
      rw [hcnt]
      simp only [DataReceiver.counterNext]
      split
      · omega
      · split <;> omega

/-! ### Along a history -/

/-- What is still assumed along the run (compare `decHolds'`). -/
def decHolds2 (c : Config) (p : Params) : State → Ghost → Phs → List (Ext × Nat) → Bool
  | _, _, _, [] => true
  | D, g, q, (x, ac) :: zs =>
    let x' := extOf c.dc D.w (xOf D x) (dOf c D x ac)
    decOk2 c D q x ac &&
      decHolds2 c p (step c D x ac) (ghostNext p g D.w.ep.dev (fullIn c.dc.ep D.w.ep x') (DevEp.step c.dc.ep D.w.ep x').2)
        (nextPhs p.L c.dc.ep D.w.ep x' q) zs

theorem decHolds'_of_dj (c : Config) (p : Params) (hs : strobes c.dc.ep.dev.tok.timer c.dc.ep.dev.speed = true)
    (hT : delayOf c.dc.ep.dev.tok.timer c.dc.ep.dev.speed + p.L + 2 < p.T) (hne : c.dc.ep.epIn ≠ c.dc.ep.sig.epNum)
    (he : epsOk c.dc) (hL : 3 ≤ p.L) (hfs : c.hs = false) (zs : List (Ext × Nat)) :
    ∀ (D : State) (g : Ghost) (q : Phs) (pty : Nat), Joint c.dc p D.w g q pty → DI D g pty → DJ c D q →
      hostHolds c.dc.ep.dev p D.w.ep.dev g (devIns c.dc.ep D.w.ep (extsOf c.dc D.w (ysOf c D zs))) = true →
      decHolds2 c p D g q zs = true → decHolds' c p D g q zs = true := by
  induction zs with
  | nil => intros; rfl
  | cons z zs ih =>
    intro D g q pty hJ hi hj hh h2
    obtain ⟨x, ac⟩ := z
    simp only [ysOf, extsOf, devIns, hostHolds, decHolds2, Bool.and_eq_true] at hh h2
    obtain ⟨hh1, hh2⟩ := hh
    obtain ⟨h21, h22⟩ := h2
    obtain ⟨hok, hJ', hI', hj', _⟩ := dj_step c p hs hT hne he hL hfs hJ hi hj hh1 h21
    simp only [decHolds', Bool.and_eq_true]
    exact ⟨hok, ih _ _ _ _ hJ' hI' hj' hh2 h22⟩

/-- **The decoder's ACK clause and `received` clause of `decHolds'` are theorems** (full / low speed): along every
history of the device with control endpoint and setup decoder, `hostHolds` + `decHolds2` imply `decHolds'`. -/
theorem decHolds'_of_dec (c : Config) (p : Params) (hs : strobes c.dc.ep.dev.tok.timer c.dc.ep.dev.speed = true)
    (hT : delayOf c.dc.ep.dev.tok.timer c.dc.ep.dev.speed + p.L + 2 < p.T) (hne : c.dc.ep.epIn ≠ c.dc.ep.sig.epNum)
    (he : epsOk c.dc) (hL : 3 ≤ p.L) (hfs : c.hs = false) (zs : List (Ext × Nat))
    (hh : hostHolds c.dc.ep.dev p DevCyc.init ghostInit (devIns c.dc.ep (DevEp.init c.dc.ep) (extsD c zs)) = true)
    (h2 : decHolds2 c p (init c) ghostInit phs0 zs = true) :
    decHolds' c p (init c) ghostInit phs0 zs = true :=
  decHolds'_of_dj c p hs hT hne he hL hfs zs (init c) ghostInit phs0 0 (joint_init c.dc p) (di_init c) (dj_init c) hh h2

/-- The device with its control endpoint and setup decoder never transmits while a received packet is in progress —
the decoder's ACK timing and `received` timing are no longer assumed. -/
theorem dec2_closed_tx_never_during_rx (c : Config) (p : Params)
    (hs : strobes c.dc.ep.dev.tok.timer c.dc.ep.dev.speed = true)
    (hT : delayOf c.dc.ep.dev.tok.timer c.dc.ep.dev.speed + p.L + 2 < p.T) (hne : c.dc.ep.epIn ≠ c.dc.ep.sig.epNum)
    (he : epsOk c.dc) (hL : 3 ≤ p.L) (hfs : c.hs = false) (zs : List (Ext × Nat))
    (hh : hostHolds c.dc.ep.dev p DevCyc.init ghostInit (devIns c.dc.ep (DevEp.init c.dc.ep) (extsD c zs)) = true)
    (h2 : decHolds2 c p (init c) ghostInit phs0 zs = true) :
    ∀ o ∈ DevEp.run c.dc.ep (DevEp.init c.dc.ep) (extsD c zs), o.txValid = true → o.rxActive = false :=
  dec_closed_tx_never_during_rx c p hs hT hne he hL zs hh (decHolds'_of_dec c p hs hT hne he hL hfs zs hh h2)

theorem dec2_closed_transmitters_exclusive (c : Config) (p : Params)
    (hs : strobes c.dc.ep.dev.tok.timer c.dc.ep.dev.speed = true)
    (hT : delayOf c.dc.ep.dev.tok.timer c.dc.ep.dev.speed + p.L + 2 < p.T) (hne : c.dc.ep.epIn ≠ c.dc.ep.sig.epNum)
    (he : epsOk c.dc) (hL : 3 ≤ p.L) (hfs : c.hs = false) (zs : List (Ext × Nat))
    (hh : hostHolds c.dc.ep.dev p DevCyc.init ghostInit (devIns c.dc.ep (DevEp.init c.dc.ep) (extsD c zs)) = true)
    (h2 : decHolds2 c p (init c) ghostInit phs0 zs = true) :
    ∀ o ∈ DevEp.run c.dc.ep (DevEp.init c.dc.ep) (extsD c zs), ¬ (o.hsValid = true ∧ o.genValid = true) :=
  dec_closed_transmitters_exclusive c p hs hT hne he hL zs hh (decHolds'_of_dec c p hs hT hne he hL hfs zs hh h2)

theorem dec2_closed_tx_only_in_response_window (c : Config) (p : Params)
    (hs : strobes c.dc.ep.dev.tok.timer c.dc.ep.dev.speed = true)
    (hT : delayOf c.dc.ep.dev.tok.timer c.dc.ep.dev.speed + p.L + 2 < p.T) (hne : c.dc.ep.epIn ≠ c.dc.ep.sig.epNum)
    (he : epsOk c.dc) (hL : 3 ≤ p.L) (hfs : c.hs = false) (zs : List (Ext × Nat))
    (hh : hostHolds c.dc.ep.dev p DevCyc.init ghostInit (devIns c.dc.ep (DevEp.init c.dc.ep) (extsD c zs)) = true)
    (h2 : decHolds2 c p (init c) ghostInit phs0 zs = true) :
    ∀ go ∈ traceG c.dc.ep.dev p DevCyc.init ghostInit (devIns c.dc.ep (DevEp.init c.dc.ep) (extsD c zs)),
      go.2.txValid = true → go.1.win ≠ .closed :=
  dec_closed_tx_only_in_response_window c p hs hT hne he hL zs hh (decHolds'_of_dec c p hs hT hne he hL hfs zs hh h2)

end LunaVerif.DevDec
