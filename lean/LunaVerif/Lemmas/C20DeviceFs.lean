import LunaVerif.Lemmas.C20DeviceDet
import LunaVerif.Lemmas.C20ResetSilent
/-!
# C20 — the closed device of a full-speed-only build: "reset sequencer silent" is a theorem too

`decHolds3` (Lemmas/C20DeviceDet.lean) still assumes `reset_sequencer.tx.valid = 0` in every cycle.  For a device whose
reset sequencer runs with `full_speed_only = 1`, `low_speed_only = 0` (what `USBDevice` builds on a plain UTMI bus:
`always_fs`) this is `ResetSeq.fs_only_silent`: when the `rsValid` column of the history is what the C19 model of
`USBResetSequencer` drives for ANY history of `line_state` / VBUS / `bus_busy` / `disconnect`, the three closed-device
theorems hold under `hostHolds` + `decHolds4`, where `decHolds4` is only the legal-host clause on `start_position` and
`rx_data < 256`.
-/
namespace LunaVerif.DevDet
open LunaVerif LunaVerif.DevCyc LunaVerif.DevCyc.Abs LunaVerif.C20Ctr LunaVerif.DevEp LunaVerif.CtrlCyc LunaVerif.DevCtl
open LunaVerif.DevDec (xOf dOf)

/-- `decOk3` without the reset-sequencer clause. -/
def decOk4 (c : DevDec.Config) (S : State) (x : Ext) : Bool :=
  (S.d.w.ctl.blk.fsm != .start || decide (S.d.w.ctl.cs.h.startPos < 2 ^ c.dc.blk.img.posW)) && decide (x.rx.data < 256)

def decHolds4 (c : DevDec.Config) (p : Params) : State → Ghost → Phs → List (Ext × Nat) → Bool
  | _, _, _, [] => true
  | S, g, q, (x, ac) :: zs =>
    let x' := extOf c.dc S.d.w (xOf S.d (xIn S x)) (dOf c S.d (xIn S x) ac)
    decOk4 c S x &&
      decHolds4 c p (step c S x ac)
        (ghostNext p g S.d.w.ep.dev (fullIn c.dc.ep S.d.w.ep x') (DevEp.step c.dc.ep S.d.w.ep x').2)
        (nextPhs p.L c.dc.ep S.d.w.ep x' q) zs

theorem decHolds3_of_silent (c : DevDec.Config) (p : Params) (zs : List (Ext × Nat)) :
    ∀ (S : State) (g : Ghost) (q : Phs), (∀ z ∈ zs, z.1.rsValid = false) → decHolds4 c p S g q zs = true →
      decHolds3 c p S g q zs = true := by
  induction zs with
  | nil => intros; rfl
  | cons z zs ih =>
    intro S g q hr h4
    obtain ⟨x, ac⟩ := z
    have hx : x.rsValid = false := hr (x, ac) (List.mem_cons_self ..)
    simp only [decHolds4, decOk4, Bool.and_eq_true] at h4
    simp only [decHolds3, decOk3, Bool.and_eq_true, hx, Bool.not_false, and_true]
    exact ⟨h4.1, ih _ _ _ (fun z hz => hr z (List.mem_cons_of_mem _ hz)) h4.2⟩

/-- The `reset_sequencer.tx.valid` column of the history is what the reset sequencer model drives on `ris`. -/
def rsDriven (rc : ResetSeq.Config) (ris : List ResetSeq.In) (zs : List (Ext × Nat)) : Prop :=
  zs.map (fun z => z.1.rsValid) = (ResetSeq.outs rc ResetSeq.init ris).map (·.txValid)

theorem silent_of_driven (rc : ResetSeq.Config) (ris : List ResetSeq.In) (zs : List (Ext × Nat))
    (hfo : ∀ i ∈ ris, i.fullOnly = true ∧ i.lowOnly = false) (hd : rsDriven rc ris zs) :
    ∀ z ∈ zs, z.1.rsValid = false := by
  intro z hz
  have : z.1.rsValid ∈ zs.map (fun z => z.1.rsValid) := List.mem_map.mpr ⟨z, hz, rfl⟩
  rw [hd] at this
  obtain ⟨o, ho, he⟩ := List.mem_map.mp this
  rw [← he]
  exact (ResetSeq.fs_only_silent rc ris hfo o ho).1

/-- Full-speed-only device: never transmits while a received packet is in progress; assumed are only the host's
half-duplex discipline (`hostHolds`), the legal-host clause on `start_position` and the byte width (`decHolds4`). -/
theorem fs_closed_tx_never_during_rx (c : DevDec.Config) (p : Params)
    (hs : strobes c.dc.ep.dev.tok.timer c.dc.ep.dev.speed = true)
    (hT : delayOf c.dc.ep.dev.tok.timer c.dc.ep.dev.speed + p.L + 2 < p.T) (hne : c.dc.ep.epIn ≠ c.dc.ep.sig.epNum)
    (he : epsOk c.dc) (hL : 3 ≤ p.L) (hfs : c.hs = false) (zs : List (Ext × Nat))
    (rc : ResetSeq.Config) (ris : List ResetSeq.In) (hfo : ∀ i ∈ ris, i.fullOnly = true ∧ i.lowOnly = false)
    (hd : rsDriven rc ris zs)
    (hh : hostHolds c.dc.ep.dev p DevCyc.init ghostInit (devIns c.dc.ep (DevEp.init c.dc.ep) (extsT c zs)) = true)
    (h4 : decHolds4 c p (init c) ghostInit phs0 zs = true) :
    ∀ o ∈ DevEp.run c.dc.ep (DevEp.init c.dc.ep) (extsT c zs), o.txValid = true → o.rxActive = false :=
  det_closed_tx_never_during_rx c p hs hT hne he hL hfs zs hh
    (decHolds3_of_silent c p zs _ _ _ (silent_of_driven rc ris zs hfo hd) h4)

theorem fs_closed_transmitters_exclusive (c : DevDec.Config) (p : Params)
    (hs : strobes c.dc.ep.dev.tok.timer c.dc.ep.dev.speed = true)
    (hT : delayOf c.dc.ep.dev.tok.timer c.dc.ep.dev.speed + p.L + 2 < p.T) (hne : c.dc.ep.epIn ≠ c.dc.ep.sig.epNum)
    (he : epsOk c.dc) (hL : 3 ≤ p.L) (hfs : c.hs = false) (zs : List (Ext × Nat))
    (rc : ResetSeq.Config) (ris : List ResetSeq.In) (hfo : ∀ i ∈ ris, i.fullOnly = true ∧ i.lowOnly = false)
    (hd : rsDriven rc ris zs)
    (hh : hostHolds c.dc.ep.dev p DevCyc.init ghostInit (devIns c.dc.ep (DevEp.init c.dc.ep) (extsT c zs)) = true)
    (h4 : decHolds4 c p (init c) ghostInit phs0 zs = true) :
    ∀ o ∈ DevEp.run c.dc.ep (DevEp.init c.dc.ep) (extsT c zs), ¬ (o.hsValid = true ∧ o.genValid = true) :=
  det_closed_transmitters_exclusive c p hs hT hne he hL hfs zs hh
    (decHolds3_of_silent c p zs _ _ _ (silent_of_driven rc ris zs hfo hd) h4)

theorem fs_closed_tx_only_in_response_window (c : DevDec.Config) (p : Params)
    (hs : strobes c.dc.ep.dev.tok.timer c.dc.ep.dev.speed = true)
    (hT : delayOf c.dc.ep.dev.tok.timer c.dc.ep.dev.speed + p.L + 2 < p.T) (hne : c.dc.ep.epIn ≠ c.dc.ep.sig.epNum)
    (he : epsOk c.dc) (hL : 3 ≤ p.L) (hfs : c.hs = false) (zs : List (Ext × Nat))
    (rc : ResetSeq.Config) (ris : List ResetSeq.In) (hfo : ∀ i ∈ ris, i.fullOnly = true ∧ i.lowOnly = false)
    (hd : rsDriven rc ris zs)
    (hh : hostHolds c.dc.ep.dev p DevCyc.init ghostInit (devIns c.dc.ep (DevEp.init c.dc.ep) (extsT c zs)) = true)
    (h4 : decHolds4 c p (init c) ghostInit phs0 zs = true) :
    ∀ go ∈ traceG c.dc.ep.dev p DevCyc.init ghostInit (devIns c.dc.ep (DevEp.init c.dc.ep) (extsT c zs)),
      go.2.txValid = true → go.1.win ≠ .closed :=
  det_closed_tx_only_in_response_window c p hs hT hne he hL hfs zs hh
    (decHolds3_of_silent c p zs _ _ _ (silent_of_driven rc ris zs hfo hd) h4)

end LunaVerif.DevDet
