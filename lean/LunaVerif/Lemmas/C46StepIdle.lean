import LunaVerif.Lemmas.C46Ghost
/-!
# C46 — the invariant is preserved in WAIT_FOR_DATA, REQUEST_IN_TOKEN and WAIT_TO_SEND
(one lemma per FSM state, one `vcontrol = {…}` equation per branch; includes the ZLP strobed from WAIT_TO_SEND)
-/
namespace LunaVerif.SSStreamIn

/-- bytes accepted from the producer in this cycle -/
def wbytes (c : Config) (v : View) (i : In) : List Nat :=
  if wen c v i then bytesOf (validBytes i.sValid) i.sData else []

theorem gProd_vout (c : Config) (v : View) (i : In) (g : Ghost) :
    gProd i (vout c v i) g = { g with prod := g.prod ++ wbytes c v i } := rfl

theorem gnext_quiet (i : In) (o : Out) (d : Bool) (g : Ghost) (h1 : o.txValid = 0) (h2 : o.txZlp = false) :
    gnext i o d g = gProd i o g := by
  simp [gnext, gZlp, gTx, h1, h2]

theorem memRead_lt (c : Config) (m : List Nat) (a : Nat) (h : a < 2 ^ c.aw) :
    memRead c m a = m[a]?.getD 0 := by
  simp [memRead, Nat.mod_eq_of_lt h]

theorem step_waitData (c : Config) (v : View) (g : Ghost) (i : In) (d : Bool) (hc : CfgOK c)
    (hI : Inv c v g) (he : EnvOK c g i (vout c v i)) (hf : v.fsm = .waitData) :
    Inv c (vnext c v i) (gnext i (vout c v i) d g) := by
  obtain ⟨hr, hp, hh⟩ := he
  obtain ⟨wl, wle, wal, wend, wen1, wdat⟩ := write_side c v i hc hI.lenW hI.fillW_le hI.fillW_al hI.endW hp
  change _ = _ ++ wbytes c v i at wdat
  obtain ⟨seqlt, lenW, lenR, fillW_le, fillW_al, endW, fillR_le, wd, idle, snd, wa, hs, cur0, curq, hdat⟩ := hI
  obtain ⟨hsp, htv, hhs⟩ := idle (Or.inl hf)
  have hfr := wd hf
  obtain ⟨hip, hcb⟩ := cur0 htv
  have hz : (vcontrol c v i).txZlp = false := by simp [vcontrol, hf]
  rw [gnext_quiet _ _ _ _ htv hz, gProd_vout]
  generalize hends : ((i.sValid % 2 == 1 && (decide (v.fillW + 4 ≥ c.mps) || i.sLast)) || v.endedW) = ends
  have hk : vcontrol c v i =
      { fsm := if ends then (if v.erdyReq || (i.ack && i.hsEp == c.ep && i.nump != 0) then .reqIn else .waitSend)
                 else .waitData
        nrdy := i.ack && i.hsEp == c.ep && i.nump != 0, setErdy := i.ack && i.hsEp == c.ep && i.nump != 0,
        flip := ends, clrEndR := ends, raddr := v.sendPos } := by
    simp [vcontrol, hf, hends]
  clear idle snd wa wd cur0
  simp only [hhs, hfr, if_true, bufBytes_zero, List.append_nil] at hdat
  cases ends
  · -- stays in WAIT_FOR_DATA
    constructor <;> simp only [vnext, hk] <;> simp [*]
    case fillW_al => exact wal
    case endW => exact wend
    case data => rw [← hdat]; simp
  · constructor <;> simp only [vnext, hk] <;> simp [*]
    case wd => split <;> simp
    case snd => split <;> simp
    case wa => split <;> simp
    case data => rw [← hdat]; simp

theorem gnext_txidle (i : In) (o : Out) (d : Bool) (g : Ghost) (h1 : o.txValid = 0) :
    gnext i o d g = gZlp o d (gProd i o g) := by
  simp [gnext, gTx, h1]

theorem step_reqIn (c : Config) (v : View) (g : Ghost) (i : In) (d : Bool) (hc : CfgOK c)
    (hI : Inv c v g) (he : EnvOK c g i (vout c v i)) (hf : v.fsm = .reqIn) :
    Inv c (vnext c v i) (gnext i (vout c v i) d g) := by
  obtain ⟨hr, hp, hh⟩ := he
  obtain ⟨wl, wle, wal, wend, wen1, wdat⟩ := write_side c v i hc hI.lenW hI.fillW_le hI.fillW_al hI.endW hp
  change _ = _ ++ wbytes c v i at wdat
  obtain ⟨seqlt, lenW, lenR, fillW_le, fillW_al, endW, fillR_le, wd, idle, snd, wa, hs, cur0, curq, hdat⟩ := hI
  obtain ⟨hsp, htv, hhs⟩ := idle (Or.inr (Or.inl hf))
  obtain ⟨hip, hcb⟩ := cur0 htv
  have hk : vcontrol c v i =
      { fsm := if i.done then .waitSend else .reqIn, erdy := true, clrErdy := i.done, raddr := v.sendPos } := by
    simp [vcontrol, hf]
  have hz : (vcontrol c v i).txZlp = false := by simp [hk]
  rw [gnext_quiet _ _ _ _ htv hz, gProd_vout]
  clear idle snd wa wd cur0
  simp only [hhs, if_true] at hdat
  constructor <;> simp only [vnext, hk] <;> simp [*]
  case fillW_al => exact wal
  case endW => exact wend
  case wd => split <;> simp
  case snd => split <;> simp
  case wa => split <;> simp
  case data => rw [← hdat]; simp

theorem step_waitSend (c : Config) (v : View) (g : Ghost) (i : In) (d : Bool) (hc : CfgOK c)
    (hI : Inv c v g) (he : EnvOK c g i (vout c v i)) (hf : v.fsm = .waitSend) :
    Inv c (vnext c v i) (gnext i (vout c v i) d g) := by
  obtain ⟨hr, hp, hh⟩ := he
  obtain ⟨wl, wle, wal, wend, wen1, wdat⟩ := write_side c v i hc hI.lenW hI.fillW_le hI.fillW_al hI.endW hp
  change _ = _ ++ wbytes c v i at wdat
  obtain ⟨seqlt, lenW, lenR, fillW_le, fillW_al, endW, fillR_le, wd, idle, snd, wa, hs, cur0, curq, hdat⟩ := hI
  obtain ⟨hsp, htv, hhs⟩ := idle (Or.inr (Or.inr hf))
  obtain ⟨hip, hcb⟩ := cur0 htv
  rw [gnext_txidle _ _ _ _ htv, gProd_vout]
  clear idle snd wa wd cur0
  simp only [hhs, if_true] at hdat
  cases htok : (i.ack && i.hsEp == c.ep && i.nump != 0)
  · have hk : vcontrol c v i = { fsm := .waitSend, raddr := v.sendPos } := by
      simp [vcontrol, hf, htok]
    constructor <;> simp only [vnext, vout, hk, gZlp] <;> simp [*]
    case fillW_al => exact wal
    case endW => exact wend
    case data => rw [← hdat]; simp
  · by_cases hfr : v.fillR = 0
    · have hk : vcontrol c v i =
          { fsm := .waitAck, txZlp := true, clrEndR := true, lpz := some true, raddr := v.sendPos } := by
        simp [vcontrol, hf, htok, hfr]
      constructor <;> simp only [vnext, vout, hk, gZlp] <;> simp [*]
      case fillW_al => exact wal
      case endW => exact wend
      case hs => cases d <;> simp [receive]
      case cur0 => cases d <;> simp [receive]
      case curq => cases d <;> simp [receive]
      case data => cases d <;> simp [receive] <;> rw [← hdat] <;> simp [hfr]
    · have hk : vcontrol c v i = { fsm := .send, lpz := some false, raddr := v.sendPos } := by
        simp [vcontrol, hf, htok, hfr]
      constructor <;> simp only [vnext, vout, hk, gZlp] <;> simp [*]
      case fillW_al => exact wal
      case endW => exact wend
      case snd => exact ⟨by omega, by simp [memRead]⟩
      case data => rw [← hdat]; simp

end LunaVerif.SSStreamIn
