import LunaVerif.Lemmas.C57Rx
/-!
# C57 — tx stream over whole-device histories: the invariant and one preservation lemma per event kind
-/
set_option linter.unusedSimpArgs false
namespace LunaVerif.C57
open LunaVerif LunaVerif.Device LunaVerif.Device.Full

/-- The four situations of the tx endpoint relative to the host (`hb` the host's sequence bit):
* WAIT_FOR_DATA: nothing to send, the host has everything that was sent;
* otherwise a packet (`rbuf`) is being (re)sent and
  - the host does not have it yet (`hb = pid`), or
  - the host has accepted it, the device has not seen the ACK (`unc`), or
  - (`redo`) a halt-clear in that situation made both sides restart with DATA0: the packet the host already has
    (`lp`) will be accepted once more. -/
def TxCoreV (fsm : InFsm) (pid : Bool) (rbuf wbuf : List Nat) (hb : Bool) (kept prod : List Nat) (redo unc : Bool)
    (lp : List Nat) : Prop :=
  match fsm with
  | .waitData => rbuf = [] ∧ hb = !pid ∧ kept ++ wbuf = prod ∧ redo = false ∧ unc = false
  | _ => (hb = pid ∧ redo = false ∧ unc = false ∧ kept ++ rbuf ++ wbuf = prod) ∨
         (hb = !pid ∧ redo = false ∧ unc = true ∧ rbuf = lp ∧ kept ++ wbuf = prod) ∨
         (hb = pid ∧ redo = true ∧ unc = false ∧ rbuf = lp ∧ kept ++ wbuf = prod)

def TxCore (d : InEp) (hb : Bool) (kept prod : List Nat) (redo unc : Bool) (lp : List Nat) : Prop :=
  TxCoreV d.fsm d.pid d.rbuf d.wbuf hb kept prod redo unc lp

/-- One byte: the invariant is kept with `prod` extended by that byte. -/
theorem txc_byte (mps : Nat) (d : InEp) (hb : Bool) (kept prod : List Nat) (redo unc : Bool) (lp : List Nat)
    (b : Nat) (last : Bool) (e' : InEp) (hi : TxCore d hb kept prod redo unc lp)
    (h : inByte mps d b last = some e') : TxCore e' hb kept (prod ++ [b]) redo unc lp := by
  rcases d with ⟨fsm, tg, pid, b0, b1, e0, e1⟩
  unfold inByte at h
  split at h
  · split at h
    · rename_i hw
      injection h with h; subst h
      simp only at hw
      obtain ⟨hf, _⟩ := hw
      subst hf
      cases tg <;> simp only [TxCore, TxCoreV, InEp.wbuf, InEp.rbuf, InEp.setW, InEp.setR] at hi ⊢ <;>
        (obtain ⟨h1, h2, hg, h3, h4⟩ := hi; subst_vars; simp [List.append_assoc])
    · injection h with h; subst h
      cases tg <;> cases fsm <;> simp only [TxCore, TxCoreV, InEp.wbuf, InEp.rbuf, InEp.setW, InEp.setR] at hi ⊢ <;>
        first
        | (obtain ⟨h1, h2, hg, h3, h4⟩ := hi; subst_vars; simp [List.append_assoc]; done)
        | (rcases hi with ⟨h1, h2, h3, hg⟩ | ⟨h1, h2, h3, h4, hg⟩ | ⟨h1, h2, h3, h4, hg⟩ <;> subst_vars <;>
            simp [List.append_assoc])
  · cases h

theorem inByte_waitAck (mps : Nat) (d : InEp) (b : Nat) (last : Bool) (e' : InEp)
    (h : inByte mps d b last = some e') (hf : e'.fsm = .waitAck) : d.fsm = .waitAck := by
  rcases d with ⟨fsm, tg, pid, b0, b1, e0, e1⟩
  unfold inByte at h
  split at h
  · split at h
    · injection h with h; subst h; cases tg <;> simp [InEp.setW, InEp.setR] at hf
    · injection h with h; subst h; cases tg <;> simpa [InEp.setW] using hf
  · cases h

theorem txc_produce (mps : Nat) (bytes : List Nat) (last : Bool) (d : InEp) (hb : Bool) (kept prod : List Nat)
    (redo unc : Bool) (lp : List Nat) (hi : TxCore d hb kept prod redo unc lp) :
    TxCore (inProduce mps d bytes last).1 hb kept (prod ++ bytes.take (inProduce mps d bytes last).2) redo unc lp ∧
    ((inProduce mps d bytes last).1.fsm = .waitAck → d.fsm = .waitAck) := by
  induction bytes generalizing d prod with
  | nil => simpa [inProduce] using hi
  | cons b bs ih =>
    unfold inProduce
    cases hbb : inByte mps d b (last && bs.isEmpty) with
    | none => simpa using hi
    | some e' =>
      have h1 := txc_byte mps d hb kept prod redo unc lp b _ e' hi hbb
      have h2 := ih e' (prod ++ [b]) h1
      refine ⟨by simpa [List.append_assoc] using h2.1, fun hf => ?_⟩
      exact inByte_waitAck mps d b _ e' hbb (h2.2 hf)

theorem txcV_busy (fsm : InFsm) (pid : Bool) (rbuf wbuf : List Nat) (hb : Bool) (kept prod : List Nat)
    (redo unc : Bool) (lp : List Nat) (h : fsm ≠ .waitData) :
    TxCoreV fsm pid rbuf wbuf hb kept prod redo unc lp ↔
      ((hb = pid ∧ redo = false ∧ unc = false ∧ kept ++ rbuf ++ wbuf = prod) ∨
       (hb = !pid ∧ redo = false ∧ unc = true ∧ rbuf = lp ∧ kept ++ wbuf = prod) ∨
       (hb = pid ∧ redo = true ∧ unc = false ∧ rbuf = lp ∧ kept ++ wbuf = prod)) := by
  cases fsm
  · exact absurd rfl h
  · exact Iff.rfl
  · exact Iff.rfl

/-! ## The invariant -/

def TxG (ctl : DevState) (d : InEp) (g : Ghost) : Prop :=
  TxCore d g.hostBit g.kept g.produced g.redo g.unconfirmed g.lastPkt ∧
  (d.fsm = .waitAck → ctl.tokEp = 4) ∧
  (g.lastGot = true → d.fsm = .waitAck ∧ g.hostBit = !d.pid) ∧
  (∀ x ∈ g.redone, x.1 = x.2) ∧
  g.redone.length + (if g.redo then 1 else 0) ≤ g.ambiguousClears

/-- The ghost's tx fields are unchanged and `lastGot` is cleared. -/
def SameTx (g g' : Ghost) : Prop :=
  g'.produced = g.produced ∧ g'.hostBit = g.hostBit ∧ g'.kept = g.kept ∧ g'.lastPkt = g.lastPkt ∧
  g'.unconfirmed = g.unconfirmed ∧ g'.redo = g.redo ∧ g'.redone = g.redone ∧
  g'.ambiguousClears = g.ambiguousClears ∧ g'.lastGot = false

/-- Events that leave the tx data alone: the endpoint may fall back from WAIT_FOR_ACK to "resend". -/
theorem txg_same (ctl ctl' : DevState) (d d' : InEp) (g g' : Ghost) (hi : TxG ctl d g) (hg : SameTx g g')
    (hf : d'.fsm = d.fsm ∨ (d.fsm ≠ .waitData ∧ d'.fsm ≠ .waitData)) (hp : d'.pid = d.pid) (hr : d'.rbuf = d.rbuf)
    (hw : d'.wbuf = d.wbuf) (ht : d'.fsm = .waitAck → ctl'.tokEp = 4) : TxG ctl' d' g' := by
  obtain ⟨h1, h2, h3, h4, h5⟩ := hi
  obtain ⟨g1, g2, g3, g4, g5, g6, g7, g8, g9⟩ := hg
  refine ⟨?_, ht, ?_, ?_, ?_⟩
  · unfold TxCore at h1 ⊢
    rw [hp, hr, hw, g1, g2, g3, g4, g5, g6]
    rcases hf with hf | ⟨hf1, hf2⟩
    · rw [hf]; exact h1
    · rw [txcV_busy _ _ _ _ _ _ _ _ _ _ hf1] at h1
      rw [txcV_busy _ _ _ _ _ _ _ _ _ _ hf2]; exact h1
  · intro h; rw [g9] at h; cases h
  · rw [g7]; exact h4
  · rw [g7, g6, g8]; exact h5

/-! ## Tokens -/

theorem resp_in_token (c : FullConfig) (hc : IsSerial c) (s : FullState) (a : InEp) (b : OutEp) (d : InEp)
    (hs : Shape s a b d) :
    (Full.step c s (.token PID_IN s.ctl.address 4)).2.resp = (inToken 4 d PID_IN 4).2 := by
  unfold Shape at hs
  unfold IsSerial at hc
  have h34 : ¬ ((4 : Nat) = 3) := by decide
  have hpp : ¬ (PID_IN = PID_PING) := by decide
  simp [Full.step, acmAcksData, hc, hs, epsStep, epStep, ctxOf, Device.step, core, onToken, afterToken,
    inToken, outToken, ep3, ep4o, ep4i, h34, hpp, firstResp, Resp.isNone]
  repeat' split
  all_goals simp_all

theorem tokEp_token_mine (c : FullConfig) (s : FullState) (pid ep : Nat) :
    (Full.step c s (.token pid s.ctl.address ep)).1.ctl.tokEp = ep := by
  rw [step_ctl, step_tokEp]
  simp only [core, if_true]
  rw [(onToken_ctl c.dev s.ctl pid ep).tokEp]
  rfl

theorem tokEp_token_other (c : FullConfig) (s : FullState) (pid addr ep : Nat) (h : addr ≠ s.ctl.address) :
    (Full.step c s (.token pid addr ep)).1.ctl.tokEp = s.ctl.tokEp := by
  rw [step_ctl, step_tokEp]
  simp only [core, if_neg h]

theorem tokEp_data (c : FullConfig) (s : FullState) (pid : Nat) (p : List Nat) (ok : Bool) :
    (Full.step c s (.data pid p ok)).1.ctl.tokEp = s.ctl.tokEp := by
  rw [step_ctl, step_tokEp]
  exact (onData_tok c.dev s.ctl p ok).2

theorem tokEp_handshake (c : FullConfig) (s : FullState) (pid : Nat) :
    (Full.step c s (.handshake pid)).1.ctl.tokEp = s.ctl.tokEp := by
  rw [step_ctl, step_tokEp]
  exact (onHandshake_tok s.ctl pid).2

/-- A token for our address that is not an IN token for endpoint 4: WAIT_FOR_ACK falls back to "resend". -/
theorem inToken_other (d : InEp) (pid ep : Nat) (h : ¬ (pid = PID_IN ∧ ep = 4)) :
    let d' := (inToken 4 d pid ep).1
    (d'.fsm = d.fsm ∨ (d.fsm = .waitAck ∧ d'.fsm = .waitSend)) ∧ d'.pid = d.pid ∧ d'.rbuf = d.rbuf ∧
    d'.wbuf = d.wbuf ∧ d'.fsm ≠ .waitAck := by
  rcases d with ⟨fsm, tg, pid', b0, b1, e0, e1⟩
  cases fsm <;> simp [inToken, h, InEp.rbuf, InEp.wbuf]

theorem ghost_token_other (s : FullState) (g : Ghost) (got : Bool) (pid addr ep : Nat) (o : Obs)
    (h : ¬ (pid = PID_IN ∧ addr = s.ctl.address ∧ ep = 4)) :
    ghostStep s g ⟨.token pid addr ep, got⟩ o = { g with lastGot := false } := by
  simp only [ghostStep, if_neg h]

theorem sameTx_clear (g : Ghost) : SameTx g { g with lastGot := false } :=
  ⟨rfl, rfl, rfl, rfl, rfl, rfl, rfl, rfl, rfl⟩

theorem tx_token (c : FullConfig) (hc : IsSerial c) (s : FullState) (a : InEp) (b : OutEp) (d : InEp)
    (hs : Shape s a b d) (g : Ghost) (got : Bool) (pid addr ep : Nat) (hi : TxG s.ctl d g) :
    ∃ d', (epStep ep4i (.sIn d) (ctxOf s.ctl (.token pid addr ep)) (.token pid addr ep)).1 = .sIn d' ∧
      TxG (Full.step c s (.token pid addr ep)).1.ctl d'
        (ghostStep s g ⟨.token pid addr ep, got⟩ (Full.step c s (.token pid addr ep)).2) := by
  have e4 : ep4i.num = 4 := rfl
  by_cases ha : addr = s.ctl.address
  · subst ha
    refine ⟨(inToken 4 d pid ep).1, by simp [epStep, ctxOf, e4], ?_⟩
    by_cases hpe : pid = PID_IN ∧ ep = 4
    · obtain ⟨hp, he⟩ := hpe
      subst hp he
      have hresp := resp_in_token c hc s a b d hs
      have htok := tokEp_token_mine c s PID_IN 4
      obtain ⟨h1, h2, h3, h4, h5⟩ := hi
      by_cases hf : d.fsm = .waitData
      · -- nothing to send: NAK
        rw [inToken_waitData 4 d hf] at hresp ⊢
        simp only [ghostStep, hresp, and_self, if_true]
        exact txg_same s.ctl _ d d g _ ⟨h1, h2, h3, h4, h5⟩ (sameTx_clear g) (Or.inl rfl) rfl rfl rfl
          (fun _ => htok)
      · obtain ⟨e', he, hfsm, hpid, hr, hw⟩ := inToken_send 4 d hf
        rw [he] at hresp ⊢
        simp only [ghostStep, hresp, and_self, if_true, pidToggle_dataPidOf]
        have hcase := (txcV_busy _ _ _ _ _ _ _ _ _ _ hf).1 h1
        have hf' : e'.fsm ≠ .waitData := by rw [hfsm]; decide
        cases got
        · -- the host misses the packet
          simp only [Bool.false_eq_true, if_false]
          refine txg_same s.ctl _ d e' g _ ⟨h1, h2, h3, h4, h5⟩ (sameTx_clear g) (Or.inr ⟨hf, ?_⟩) hpid hr hw
            (fun _ => htok)
          rw [hfsm]; decide
        · simp only [if_true]
          rcases hcase with ⟨c1, c2, c3, c4⟩ | ⟨c1, c2, c3, c4, c5⟩ | ⟨c1, c2, c3, c4, c5⟩
          · -- a new packet
            have hfresh : d.pid = g.hostBit := c1.symm
            simp only [hfresh, if_true, c2, Bool.false_eq_true, if_false]
            refine ⟨?_, fun _ => htok, fun _ => ⟨hfsm, by simp [hpid, hfresh]⟩, h4, ?_⟩
            · unfold TxCore TxCoreV
              rw [hfsm, hpid, hr, hw]
              exact Or.inr (Or.inl ⟨by simp [hfresh], rfl, rfl, rfl, by rw [← c4]⟩)
            · simpa [c2] using h5
          · -- a retransmission of what the host has
            have hne : ¬ (d.pid = g.hostBit) := by rw [c1]; cases d.pid <;> simp
            simp only [hne, if_false]
            refine ⟨?_, fun _ => htok, fun _ => ⟨hfsm, by rw [hpid]; exact c1⟩, h4, h5⟩
            unfold TxCore TxCoreV
            rw [hfsm, hpid, hr, hw]
            exact Or.inr (Or.inl ⟨c1, c2, c3, c4, c5⟩)
          · -- the re-delivery after an ambiguous halt-clear
            have hfresh : d.pid = g.hostBit := c1.symm
            simp only [hfresh, if_true, c2]
            refine ⟨?_, fun _ => htok, fun _ => ⟨hfsm, by simp [hpid, hfresh]⟩, ?_, ?_⟩
            · unfold TxCore TxCoreV
              rw [hfsm, hpid, hr, hw]
              exact Or.inr (Or.inl ⟨by simp [hfresh], rfl, rfl, rfl, c5⟩)
            · intro x hx
              simp only [List.mem_append, List.mem_singleton] at hx
              rcases hx with hx | hx
              · exact h4 x hx
              · rw [hx]; exact c4
            · simp only [List.length_append, List.length_singleton, Bool.false_eq_true, if_false] at h5 ⊢
              simpa [c2] using h5
    · -- another token for this device
      have ho := inToken_other d pid ep hpe
      simp only at ho
      obtain ⟨o1, o2, o3, o4, o5⟩ := ho
      rw [ghost_token_other s g got pid s.ctl.address ep _ (fun h => hpe ⟨h.1, h.2.2⟩)]
      refine txg_same s.ctl _ d _ g _ hi (sameTx_clear g) ?_ o2 o3 o4 (fun h => absurd h o5)
      rcases o1 with o1 | ⟨o1, o1'⟩
      · exact Or.inl o1
      · exact Or.inr ⟨by rw [o1]; decide, by rw [o1']; decide⟩
  · -- a token for another device
    have hm : (ctxOf s.ctl (.token pid addr ep)).mine = false := by simp [ctxOf, ha]
    refine ⟨d, by simp [epStep, hm], ?_⟩
    rw [ghost_token_other s g got pid addr ep _ (fun h => ha h.2.1)]
    refine txg_same s.ctl _ d d g _ hi (sameTx_clear g) (Or.inl rfl) rfl rfl rfl ?_
    rw [tokEp_token_other c s pid addr ep ha]
    exact hi.2.1

/-! ## Handshakes: the ACK of a tx packet, CLEAR_FEATURE(ENDPOINT_HALT) -/

/-- No halt-clear for IN 4 with this handshake and it is not the ACK of a received tx packet. -/
theorem ghost_hs_plain (s : FullState) (g : Ghost) (got : Bool) (pid : Nat) (o : Obs)
    (hr : haltFor (ctxOf s.ctl (.handshake pid)) true 4 = false)
    (ha : ¬ (pid = PID_ACK ∧ s.ctl.tokPid = PID_IN ∧ s.ctl.tokEp = 4 ∧ g.lastGot = true)) :
    SameTx g (ghostStep s g ⟨.handshake pid, got⟩ o) := by
  simp only [ghostStep, hr]
  generalize haltFor (ctxOf s.ctl (.handshake pid)) false 4 = hf
  cases hf <;> simp [ha, SameTx]

/-- The ACK of the packet the host has just received. -/
theorem ghost_hs_ack (s : FullState) (g : Ghost) (got : Bool) (pid : Nat) (o : Obs)
    (hr : haltFor (ctxOf s.ctl (.handshake pid)) true 4 = false)
    (ha : pid = PID_ACK ∧ s.ctl.tokPid = PID_IN ∧ s.ctl.tokEp = 4 ∧ g.lastGot = true) :
    SameTx { g with unconfirmed := false } (ghostStep s g ⟨.handshake pid, got⟩ o) := by
  simp only [ghostStep, hr]
  generalize haltFor (ctxOf s.ctl (.handshake pid)) false 4 = hf
  cases hf <;> simp [ha, SameTx]

/-- CLEAR_FEATURE(ENDPOINT_HALT) for IN 4 takes effect. -/
theorem ghost_hs_clear (s : FullState) (g : Ghost) (got : Bool) (pid : Nat) (o : Obs)
    (hr : haltFor (ctxOf s.ctl (.handshake pid)) true 4 = true) :
    let gh := ghostStep s g ⟨.handshake pid, got⟩ o
    gh.produced = g.produced ∧ gh.kept = g.kept ∧ gh.lastPkt = g.lastPkt ∧ gh.redone = g.redone ∧
    gh.lastGot = false ∧ gh.hostBit = false ∧ gh.unconfirmed = false ∧ gh.redo = (g.redo || g.unconfirmed) ∧
    gh.ambiguousClears = g.ambiguousClears + (if g.unconfirmed then 1 else 0) := by
  have h0 := (haltFor_ack s.ctl pid true 4 hr).2.1
  have ha : ¬ (pid = PID_ACK ∧ s.ctl.tokPid = PID_IN ∧ s.ctl.tokEp = 4 ∧ g.lastGot = true) := by
    intro h; rw [h0] at h; exact absurd h.2.2.1 (by decide)
  simp only [ghostStep, hr]
  generalize haltFor (ctxOf s.ctl (.handshake pid)) false 4 = hf
  cases hf <;> simp [ha]

theorem inAck_idle (mps : Nat) (d : InEp) : inAck mps d false false = d := by
  rcases d with ⟨fsm, tg, pid, b0, b1, e0, e1⟩
  cases fsm <;> simp [inAck]

theorem inAck_other (mps : Nat) (d : InEp) (h : d.fsm ≠ .waitAck) : inAck mps d true false = d := by
  rcases d with ⟨fsm, tg, pid, b0, b1, e0, e1⟩
  cases fsm <;> simp [inAck] at h ⊢

theorem inAck_clear (mps : Nat) (d : InEp) (h : d.fsm ≠ .waitAck) :
    inAck mps d false true = { d with pid := decide (d.fsm = .waitData) } := by
  rcases d with ⟨fsm, tg, pid, b0, b1, e0, e1⟩
  cases fsm <;> simp [inAck] at h ⊢

theorem tx_handshake (c : FullConfig) (s : FullState) (d : InEp) (g : Ghost) (got : Bool) (pid : Nat)
    (hi : TxG s.ctl d g) (hok : ackOk s g ⟨.handshake pid, got⟩ = true) :
    ∃ d', (epStep ep4i (.sIn d) (ctxOf s.ctl (.handshake pid)) (.handshake pid)).1 = .sIn d' ∧
      TxG (Full.step c s (.handshake pid)).1.ctl d'
        (ghostStep s g ⟨.handshake pid, got⟩ (Full.step c s (.handshake pid)).2) := by
  have e4 : ep4i.num = 4 := rfl
  have m4 : ep4i.mps = 64 := rfl
  have htok := tokEp_handshake c s pid
  by_cases hp : pid = PID_ACK
  · subst hp
    have hp : PID_ACK = PID_ACK := rfl
    cases hr : haltFor (ctxOf s.ctl (.handshake PID_ACK)) true 4
    · -- no halt-clear for IN 4
      by_cases hm : s.ctl.tokPid = PID_IN ∧ s.ctl.tokEp = 4
      · -- the handshake belongs to the IN token of endpoint 4
        have hm' : ((ctxOf s.ctl (.handshake PID_ACK)).tokPid == PID_IN && (ctxOf s.ctl (.handshake PID_ACK)).tokEp == 4) = true := by
          simp [ctxOf, hm.1, hm.2]
        refine ⟨inAck 64 d true false, by simp [epStep, hp, e4, m4, hm', hr] , ?_⟩
        have hlg : g.lastGot = true := by
          simp only [ackOk, hp, hm.1, hm.2, beq_self_eq_true, Bool.and_self, Bool.not_true, Bool.false_or] at hok
          exact hok
        obtain ⟨h1, h2, h3, h4, h5⟩ := hi
        obtain ⟨hfsm, hhb⟩ := h3 hlg
        have hg := ghost_hs_ack s g got PID_ACK (Full.step c s (.handshake PID_ACK)).2 hr ⟨hp, hm.1, hm.2, hlg⟩
        obtain ⟨g1, g2, g3, g4, g5, g6, g7, g8, g9⟩ := hg
        -- the host has the packet
        have hcase := (txcV_busy _ _ _ _ _ _ _ _ _ _ (by rw [hfsm]; decide)).1 h1
        have hB2 : g.redo = false ∧ g.kept ++ d.wbuf = g.produced := by
          rcases hcase with ⟨c1, _⟩ | ⟨c1, c2, c3, c4, c5⟩ | ⟨c1, _⟩
          · rw [hhb] at c1; cases hpd : d.pid <;> simp [hpd] at c1
          · exact ⟨c2, c5⟩
          · rw [hhb] at c1; cases hpd : d.pid <;> simp [hpd] at c1
        have hc := inAck_cases 64 d hfsm
        simp only at hc
        refine ⟨?_, ?_, ?_, ?_, ?_⟩
        · unfold TxCore
          rw [g1, g2, g3, g4, g5, g6]
          rcases hc with ⟨a1, a2, a3, a4⟩ | ⟨a1, a2, a3, a4⟩ | ⟨a1, a2, a3, a4⟩
          · rw [a1, a2, a3, a4]
            exact Or.inl ⟨hhb, hB2.1, rfl, by simpa using hB2.2⟩
          · rw [a1, a2, a3, a4]
            exact Or.inl ⟨hhb, hB2.1, rfl, by simpa using hB2.2⟩
          · rw [a1, a2, a3, a4]
            exact ⟨rfl, hhb, hB2.2, hB2.1, rfl⟩
        · intro hw
          rcases hc with ⟨a1, _⟩ | ⟨a1, _⟩ | ⟨a1, _⟩ <;> rw [a1] at hw <;> cases hw
        · intro h; rw [g9] at h; cases h
        · rw [g7]; exact h4
        · rw [g7, g6, g8]; exact h5
      · -- not for this endpoint
        have hm' : ((ctxOf s.ctl (.handshake PID_ACK)).tokPid == PID_IN && (ctxOf s.ctl (.handshake PID_ACK)).tokEp == 4) = false := by
          simp only [ctxOf, Bool.and_eq_false_iff, beq_eq_false_iff_ne]
          by_cases h1 : s.ctl.tokPid = PID_IN
          · exact Or.inr (fun h2 => hm ⟨h1, h2⟩)
          · exact Or.inl h1
        refine ⟨d, by simp [epStep, hp, e4, m4, hm', hr, inAck_idle], ?_⟩
        have hg := ghost_hs_plain s g got PID_ACK (Full.step c s (.handshake PID_ACK)).2 hr (fun h => hm ⟨h.2.1, h.2.2.1⟩)
        exact txg_same s.ctl _ d d g _ hi hg (Or.inl rfl) rfl rfl rfl (fun h => by rw [htok]; exact hi.2.1 h)
    · -- CLEAR_FEATURE(ENDPOINT_HALT) for IN 4
      obtain ⟨_, t0, tp⟩ := haltFor_ack s.ctl PID_ACK true 4 hr
      have hm' : ((ctxOf s.ctl (.handshake PID_ACK)).tokPid == PID_IN && (ctxOf s.ctl (.handshake PID_ACK)).tokEp == 4) = false := by
        simp [ctxOf, t0]
      obtain ⟨h1, h2, h3, h4, h5⟩ := hi
      have hna : d.fsm ≠ .waitAck := by
        intro h; have := h2 h; rw [t0] at this; exact absurd this (by decide)
      refine ⟨{ d with pid := decide (d.fsm = .waitData) },
        by simp [epStep, hp, e4, m4, hm', hr, inAck_clear 64 d hna], ?_⟩
      have hg := ghost_hs_clear s g got PID_ACK (Full.step c s (.handshake PID_ACK)).2 hr
      simp only at hg
      obtain ⟨g1, g2, g3, g4, g5, g6, g7, g8, g9⟩ := hg
      refine ⟨?_, fun h => absurd h hna, ?_, ?_, ?_⟩
      · unfold TxCore at h1 ⊢
        rw [g1, g2, g3, g6, g7, g8]
        have hrb : ({ d with pid := decide (d.fsm = .waitData) } : InEp).rbuf = d.rbuf := by simp [InEp.rbuf]
        have hwb : ({ d with pid := decide (d.fsm = .waitData) } : InEp).wbuf = d.wbuf := by simp [InEp.wbuf]
        rw [hrb, hwb]
        by_cases hf : d.fsm = .waitData
        · rw [hf] at h1 ⊢
          obtain ⟨c1, c2, c3, c4, c5⟩ := h1
          simp only [TxCoreV, hf, decide_true, Bool.not_true, c4, c5, Bool.or_self]
          exact ⟨c1, by trivial, c3, by trivial, by trivial⟩
        · have hcase := (txcV_busy _ _ _ _ _ _ _ _ _ _ hf).1 h1
          rw [txcV_busy _ _ _ _ _ _ _ _ _ _ hf]
          simp only [hf, decide_false]
          rcases hcase with ⟨c1, c2, c3, c4⟩ | ⟨c1, c2, c3, c4, c5⟩ | ⟨c1, c2, c3, c4, c5⟩
          · exact Or.inl ⟨by trivial, by simp [c2, c3], by trivial, c4⟩
          · exact Or.inr (Or.inr ⟨by trivial, by simp [c2, c3], by trivial, c4, c5⟩)
          · exact Or.inr (Or.inr ⟨by trivial, by simp [c2, c3], by trivial, c4, c5⟩)
      · intro h; rw [g5] at h; cases h
      · rw [g4]; exact h4
      · rw [g4, g8, g9]
        cases hrd : g.redo <;> cases hun : g.unconfirmed <;> simp [hrd, hun] at h5 ⊢ <;> omega
  · -- not an ACK
    have hr : haltFor (ctxOf s.ctl (.handshake pid)) true 4 = false := by
      cases h : haltFor (ctxOf s.ctl (.handshake pid)) true 4
      · rfl
      · exact absurd (haltFor_ack s.ctl pid true 4 h).1 hp
    refine ⟨d, by simp [epStep, hp], ?_⟩
    have hg := ghost_hs_plain s g got pid (Full.step c s (.handshake pid)).2 hr (fun h => hp h.1)
    exact txg_same s.ctl _ d d g _ hi hg (Or.inl rfl) rfl rfl rfl (fun h => by rw [htok]; exact hi.2.1 h)

/-! ## Stream and other events -/

theorem tx_produce (c : FullConfig) (hc : IsSerial c) (s : FullState) (a : InEp) (b : OutEp) (d : InEp)
    (hs : Shape s a b d) (g : Ghost) (got : Bool) (ep : Nat) (bytes : List Nat) (last : Bool) (hi : TxG s.ctl d g) :
    ∃ d', (epStep ep4i (.sIn d) (ctxOf s.ctl (.produce ep bytes last)) (.produce ep bytes last)).1 = .sIn d' ∧
      TxG (Full.step c s (.produce ep bytes last)).1.ctl d'
        (ghostStep s g ⟨.produce ep bytes last, got⟩ (Full.step c s (.produce ep bytes last)).2) := by
  have e4 : ep4i.num = 4 := rfl
  have m4 : ep4i.mps = 64 := rfl
  have hctl : (Full.step c s (.produce ep bytes last)).1.ctl.tokEp = s.ctl.tokEp := by
    rw [step_ctl, step_tokEp]; rfl
  by_cases he : ep = 4
  · subst he
    refine ⟨(inProduce 64 d bytes last).1, by simp [epStep, e4, m4], ?_⟩
    have hdel : (Full.step c s (.produce 4 bytes last)).2.delivery = { count := (inProduce 64 d bytes last).2 } := by
      rw [step_delivery c hc s a b d hs]
      have h43 : ¬ ((4 : Nat) = ep3.num) := by decide
      simp [epStep, e4, m4, h43, firstDelivery_last]
    obtain ⟨h1, h2, h3, h4, h5⟩ := hi
    have hp := txc_produce 64 bytes last d _ _ _ _ _ _ h1
    simp only [ghostStep, hdel, if_true]
    refine ⟨hp.1, fun h => ?_, fun h => (by cases h), h4, h5⟩
    rw [hctl]; exact h2 (hp.2 h)
  · refine ⟨d, by simp [epStep, e4, he], ?_⟩
    simp only [ghostStep, if_neg he]
    exact txg_same s.ctl _ d d g _ hi (sameTx_clear g) (Or.inl rfl) rfl rfl rfl (fun h => by rw [hctl]; exact hi.2.1 h)

theorem tx_data (c : FullConfig) (s : FullState) (d : InEp) (g : Ghost) (got : Bool) (pid : Nat) (p : List Nat)
    (ok : Bool) (hi : TxG s.ctl d g) :
    ∃ d', (epStep ep4i (.sIn d) (ctxOf s.ctl (.data pid p ok)) (.data pid p ok)).1 = .sIn d' ∧
      TxG (Full.step c s (.data pid p ok)).1.ctl d'
        (ghostStep s g ⟨.data pid p ok, got⟩ (Full.step c s (.data pid p ok)).2) := by
  refine ⟨d, rfl, ?_⟩
  have hg : SameTx g (ghostStep s g ⟨.data pid p ok, got⟩ (Full.step c s (.data pid p ok)).2) := by
    simp only [ghostStep]
    split <;> exact ⟨rfl, rfl, rfl, rfl, rfl, rfl, rfl, rfl, rfl⟩
  exact txg_same s.ctl _ d d g _ hi hg (Or.inl rfl) rfl rfl rfl (fun h => by rw [tokEp_data]; exact hi.2.1 h)

theorem tx_consume (c : FullConfig) (s : FullState) (d : InEp) (g : Ghost) (got : Bool) (ep n : Nat)
    (hi : TxG s.ctl d g) :
    ∃ d', (epStep ep4i (.sIn d) (ctxOf s.ctl (.consume ep n)) (.consume ep n)).1 = .sIn d' ∧
      TxG (Full.step c s (.consume ep n)).1.ctl d'
        (ghostStep s g ⟨.consume ep n, got⟩ (Full.step c s (.consume ep n)).2) := by
  refine ⟨d, rfl, ?_⟩
  have hg : SameTx g (ghostStep s g ⟨.consume ep n, got⟩ (Full.step c s (.consume ep n)).2) := by
    simp only [ghostStep]
    split <;> exact ⟨rfl, rfl, rfl, rfl, rfl, rfl, rfl, rfl, rfl⟩
  have hctl : (Full.step c s (.consume ep n)).1.ctl.tokEp = s.ctl.tokEp := by
    rw [step_ctl, step_tokEp]; rfl
  exact txg_same s.ctl _ d d g _ hi hg (Or.inl rfl) rfl rfl rfl (fun h => by rw [hctl]; exact hi.2.1 h)

/-- Events no endpoint reacts to (SOF, malformed packets, silence, bus reset, the status signal). -/
theorem tx_inert (c : FullConfig) (s : FullState) (d : InEp) (g : Ghost) (got : Bool) (ev : HostEvent)
    (hst : (epStep ep4i (.sIn d) (ctxOf s.ctl ev) ev).1 = .sIn d)
    (hgh : ghostStep s g ⟨ev, got⟩ (Full.step c s ev).2 = { g with lastGot := false })
    (hctl : (core c.dev s.ctl ev).1.tokEp = s.ctl.tokEp) (hi : TxG s.ctl d g) :
    ∃ d', (epStep ep4i (.sIn d) (ctxOf s.ctl ev) ev).1 = .sIn d' ∧
      TxG (Full.step c s ev).1.ctl d' (ghostStep s g ⟨ev, got⟩ (Full.step c s ev).2) := by
  refine ⟨d, hst, ?_⟩
  rw [hgh]
  have hc2 : (Full.step c s ev).1.ctl.tokEp = s.ctl.tokEp := by rw [step_ctl, step_tokEp]; exact hctl
  exact txg_same s.ctl _ d d g _ hi (sameTx_clear g) (Or.inl rfl) rfl rfl rfl (fun h => by rw [hc2]; exact hi.2.1 h)

/-- All event kinds together. -/
theorem tx_step (c : FullConfig) (hc : IsSerial c) (s : FullState) (a : InEp) (b : OutEp) (d : InEp)
    (hs : Shape s a b d) (g : Ghost) (ae : AEvent) (hi : TxG s.ctl d g) (hok : ackOk s g ae = true) :
    ∃ d', (epStep ep4i (.sIn d) (ctxOf s.ctl ae.ev) ae.ev).1 = .sIn d' ∧
      TxG (Full.step c s ae.ev).1.ctl d' (ghostStep s g ae (Full.step c s ae.ev).2) := by
  obtain ⟨ev, got⟩ := ae
  cases ev with
  | token pid addr ep => exact tx_token c hc s a b d hs g got pid addr ep hi
  | data pid p ok => exact tx_data c s d g got pid p ok hi
  | handshake pid => exact tx_handshake c s d g got pid hi hok
  | consume ep n => exact tx_consume c s d g got ep n hi
  | produce ep bytes last => exact tx_produce c hc s a b d hs g got ep bytes last hi
  | sof f => exact tx_inert c s d g got _ rfl rfl rfl hi
  | malformed bs => exact tx_inert c s d g got _ rfl rfl rfl hi
  | quiet => exact tx_inert c s d g got _ rfl rfl rfl hi
  | busReset => exact tx_inert c s d g got _ rfl rfl rfl hi
  | setSignal ep v => exact tx_inert c s d g got _ rfl rfl rfl hi

theorem ep3_step (a : InEp) (x : Ctx) (ev : HostEvent) : ∃ a', (epStep ep3 (.sIn a) x ev).1 = .sIn a' := by
  cases ev <;> simp only [epStep] <;> (repeat' split) <;> exact ⟨_, rfl⟩

theorem in4_step (d : InEp) (x : Ctx) (ev : HostEvent) : ∃ d', (epStep ep4i (.sIn d) x ev).1 = .sIn d' := by
  cases ev <;> simp only [epStep] <;> (repeat' split) <;> exact ⟨_, rfl⟩

end LunaVerif.C57
