import LunaVerif.Props.C33
/-!
# C33 — bounded fairness of the transmit CTC ("often enough ... whenever idle time permits")

`Props/C33.lean` proves the exact accounting of `CTCSkipInserter` under the hypothesis `NoWrap` (the
3-bit debt counter `skips_to_send` is never incremented at 7).  Here `NoWrap` becomes a CONSEQUENCE of
a hypothesis on the link layer's stream alone.

Potential: `P = 354·skips_to_send + data_bytes_elapsed` = bytes accepted and not yet paid for by SKP
ordered sets.  A word taken from the sink adds 4, an inserted SKP word (two ordered sets) removes 708,
and only ONE SKP word can be inserted per idle opportunity.  So one opportunity pays for 177 words —
itself included, because the idle filler word it replaces is counted in `data_bytes_elapsed` too.

Hypothesis, leaky-bucket form (`Bucket K`): a counter on the INPUTS only — `+1` for every valid word
offered without permission to insert, `−176` (floored at 0) for every cycle with `can_send_skip = 1` —
never exceeds `K`, with `K ≤ 530`.
Hypothesis, window form (`IdleEvery W`): fewer than `W` valid words are offered between two
consecutive cycles with `can_send_skip = 1`, with `1 ≤ W ≤ 177`.  It is the special case `K = W − 1`
of the bucket form (for `W ≤ 177` the bucket is emptied by every opportunity).

Conclusions, for EVERY stream (induction over the input list): `NoWrap`; debt
`≤ (711 + 4K)/354 ≤ 7` resp. `≤ (707 + 4W)/354 ≤ 3` after every cycle; from reset
`⌊n/354⌋ − B ≤ 2·(SKP words sent) ≤ ⌊n/354⌋` with `n = 4·transfers` symbols accepted; and (with `Env`)
the transmitted stream is the link layer's with idle words replaced, nothing else.

The ranges are as wide as the code allows: `W = 178` lets the debt grow by 4 bytes per window without
bound (`idle_every_178_not_enough`), and with no opportunity at all the counter wraps after 708 words
(`no_idle_debt_counter_wraps`).
-/
namespace LunaVerif.CtcInserter
open LunaVerif.Ss

/-! ## Hypotheses on the input stream -/

/-- The leaky bucket: a valid word offered without permission to insert a SKP word fills it by one; a
cycle with `can_send_skip = 1` drains 176 (the 177 words one SKP word pays for, less the idle word of
that very cycle). -/
def bucketNext (c : Nat) (i : In) : Nat :=
  if i.canSend then c - 176 else c + (if i.sink.valid then 1 else 0)

/-- The bucket, started at level `c`, never exceeds `K` along `ins`. -/
def Bucket (K : Nat) : Nat → List In → Prop
  | _, [] => True
  | c, i :: is => bucketNext c i ≤ K ∧ Bucket K (bucketNext c i) is

instance decBucket (K : Nat) : (c : Nat) → (ins : List In) → Decidable (Bucket K c ins)
  | _, [] => isTrue trivial
  | c, i :: is => @instDecidableAnd _ _ _ (decBucket K (bucketNext c i) is)

/-- Window form: `c` valid words have been offered since the last cycle with `can_send_skip = 1`; that
count stays below `W`, i.e. an idle opportunity comes at least once in every `W` words offered. -/
def IdleEvery (W : Nat) : Nat → List In → Prop
  | _, [] => True
  | c, i :: is =>
    if i.canSend then IdleEvery W 0 is
    else c + (if i.sink.valid then 1 else 0) < W ∧ IdleEvery W (c + (if i.sink.valid then 1 else 0)) is

instance decIdleEvery (W : Nat) : (c : Nat) → (ins : List In) → Decidable (IdleEvery W c ins)
  | _, [] => isTrue trivial
  | c, i :: is => by
    unfold IdleEvery
    cases i.canSend
    · exact @instDecidableAnd _ _ _ (decIdleEvery W (c + (if i.sink.valid then 1 else 0)) is)
    · exact decIdleEvery W 0 is

/-- The invariant: registers in range and the unpaid bytes bounded by the bucket level. -/
def Legal (s : State) (c : Nat) : Prop :=
  s.elapsed < 354 ∧ s.skips < 8 ∧ 354 * s.skips + s.elapsed ≤ 711 + 4 * c

theorem legal_init : Legal init 0 := by simp [Legal, init]

/-! ## One step -/

theorem step_fair (K : Nat) (hK : K ≤ 530) (s : State) (c : Nat) (i : In) (hl : Legal s c)
    (hb : bucketNext c i ≤ K) :
    (skipNeeded s i = true → sending s i = false → s.skips < 7) ∧ Legal (next s i) (bucketNext c i) := by
  obtain ⟨h1, h2, h3⟩ := hl
  unfold bucketNext at hb ⊢
  unfold Legal next skipNeeded sending xfer
  simp only [SKIP_BYTE_LIMIT] at *
  cases hv : i.sink.valid <;> cases hr : s.sinkReady <;> cases hc : i.canSend <;>
    by_cases h2 : 2 ≤ s.skips <;> by_cases hl : s.elapsed + 4 ≥ 354 <;>
    simp [hv, hc, h2, hl] at hb ⊢ <;> try omega
  have hs : s.skips = 0 ∨ s.skips = 1 := by omega
  have he : (s.elapsed - 350) % 512 = s.elapsed - 350 := Nat.mod_eq_of_lt (by omega)
  rcases hs with hs | hs <;> simp only [hs, he] <;> omega

/-! ## Every stream: induction over the input list -/

/-- Under the bucket hypothesis, from any state within the invariant: the debt counter never wraps, and
after EVERY cycle the unpaid bytes are at most `711 + 4K` (so the registers stay in range). -/
theorem bucket_run (K : Nat) (hK : K ≤ 530) (s : State) (c : Nat) (ins : List In) (hl : Legal s c)
    (hb : Bucket K c ins) :
    NoWrap s ins ∧
    (∀ st ∈ states s ins, st.elapsed < 354 ∧ 354 * st.skips + st.elapsed ≤ 711 + 4 * K) := by
  induction ins generalizing s c with
  | nil => exact ⟨trivial, by simp [states]⟩
  | cons i is ih =>
    obtain ⟨hb1, hb2⟩ := hb
    obtain ⟨h1, h2⟩ := step_fair K hK s c i hl hb1
    obtain ⟨g1, g2⟩ := ih (next s i) (bucketNext c i) h2 hb2
    refine ⟨⟨h1, g1⟩, ?_⟩
    intro st hst
    simp only [states, List.mem_cons] at hst
    rcases hst with rfl | hst
    · obtain ⟨a, _, b⟩ := h2
      exact ⟨a, by omega⟩
    · exact g2 st hst

theorem bucket_prefix (K c : Nat) (a b : List In) (h : Bucket K c (a ++ b)) : Bucket K c a := by
  induction a generalizing c with
  | nil => trivial
  | cons i is ih => exact ⟨h.1, ih _ h.2⟩

theorem final_mem_states (s : State) (i : In) (is : List In) : final s (i :: is) ∈ states s (i :: is) := by
  induction is generalizing s i with
  | nil => simp [final, states]
  | cons j js ih =>
    simp only [final, states, List.mem_cons]
    right
    simpa only [final, states, List.mem_cons] using ih (next s i) j

/-- The window hypothesis is the bucket hypothesis with `K = W − 1` (for `W ≤ 177` every opportunity
empties the bucket). -/
theorem idleEvery_bucket (W : Nat) (hW : W ≤ 177) (c : Nat) (hc : c < W) (ins : List In)
    (h : IdleEvery W c ins) : Bucket (W - 1) c ins := by
  induction ins generalizing c with
  | nil => trivial
  | cons i is ih =>
    unfold IdleEvery at h
    unfold Bucket bucketNext
    cases hcs : i.canSend
    · simp only [hcs, Bool.false_eq_true, if_false] at h ⊢
      exact ⟨by omega, ih _ h.1 h.2⟩
    · simp only [hcs, if_true] at h ⊢
      have h0 : c - 176 = 0 := by omega
      rw [h0]
      exact ⟨by omega, ih 0 (by omega) h⟩

/-! ## The bounded-fairness theorems -/

/-- **C33 (c), unconditional in the counter: leaky-bucket form.**  For EVERY stream from reset whose
bucket level never exceeds `K ≤ 530`:
1. the debt counter never wraps (`NoWrap` is a consequence);
2. after every cycle the debt is at most `(711 + 4K)/354` ordered sets (≤ 7);
3. after every prefix, with `n = 4·transfers` symbols accepted from the link layer, the number of SKP
   ordered sets sent (two per SKP word) lies between `⌊n/354⌋ − (711 + 4K)/354` and `⌊n/354⌋`, and the
   remainder `n mod 354` is kept;
4. (with `Env`) the transmitted stream is the link layer's with idle words replaced by SKP words in
   the flagged cycles, same length and order, and every non-idle beat passes unchanged. -/
theorem ctc_bounded_fairness_bucket (K : Nat) (hK : K ≤ 530) (idle : Beat → Prop) (ins : List In)
    (hb : Bucket K 0 ins) (he : Env idle ins) :
    NoWrap init ins ∧
    (∀ st ∈ states init ins, st.skips ≤ (711 + 4 * K) / 354) ∧
    (∀ pre suf, ins = pre ++ suf →
      2 * sentWords init pre ≤ 4 * transfers init pre / 354 ∧
      4 * transfers init pre / 354 ≤ 2 * sentWords init pre + (711 + 4 * K) / 354 ∧
      (final init pre).skips + 2 * sentWords init pre = 4 * transfers init pre / 354 ∧
      (final init pre).elapsed = 4 * transfers init pre % 354) ∧
    ((txBeats init ins).map (fun b => (b.valid, b.syms)) =
      List.zipWith (fun (i : In) (f : Bool) => if f then (true, SKP4) else (i.sink.valid, i.sink.syms))
        ins (sendFlags init ins) ∧
     (sendFlags init ins).length = ins.length ∧
     (∀ p ∈ List.zip ins (sendFlags init ins), p.2 = true → p.1.canSend = true ∧ idle p.1.sink)) ∧
    (∀ p ∈ List.zip ins (txBeats init ins), ¬ idle p.1.sink → p.2 = p.1.sink) := by
  obtain ⟨hnw, hst⟩ := bucket_run K hK init 0 ins legal_init hb
  refine ⟨hnw, ?_, ?_, tx_stream_is_input_with_idle_replaced idle init ins he,
    non_idle_words_pass_unchanged idle init ins he⟩
  · intro st h
    have := (hst st h).2
    omega
  · intro pre suf hps
    subst hps
    have hbp := bucket_prefix K 0 pre suf hb
    obtain ⟨hnwp, hstp⟩ := bucket_run K hK init 0 pre legal_init hbp
    obtain ⟨d1, d2⟩ := debt_from_reset pre hnwp
    have hfin : (final init pre).skips ≤ (711 + 4 * K) / 354 := by
      cases pre with
      | nil => simp [final, init]
      | cons i is =>
        have := (hstp _ (final_mem_states init i is)).2
        omega
    exact ⟨by omega, by omega, d1, d2⟩

/-- **C33 (c), window form.**  If the link layer offers an idle opportunity (`can_send_skip = 1`) at
least once in every `W` valid words, `1 ≤ W ≤ 177`, then for EVERY stream from reset: `NoWrap`; the
debt never exceeds `B(W) = (707 + 4W)/354 ≤ 3` ordered sets; after every prefix with `n = 4·transfers`
symbols accepted, `⌊n/354⌋ − B(W) ≤ 2·(SKP words sent) ≤ ⌊n/354⌋`; and the transmitted stream is the
link layer's with idle words replaced, nothing else replaced, dropped or reordered. -/
theorem ctc_bounded_fairness (W : Nat) (hW1 : 1 ≤ W) (hW : W ≤ 177) (idle : Beat → Prop) (ins : List In)
    (hi : IdleEvery W 0 ins) (he : Env idle ins) :
    NoWrap init ins ∧
    (∀ st ∈ states init ins, st.skips ≤ (707 + 4 * W) / 354 ∧ st.skips ≤ 3) ∧
    (∀ pre suf, ins = pre ++ suf →
      2 * sentWords init pre ≤ 4 * transfers init pre / 354 ∧
      4 * transfers init pre / 354 ≤ 2 * sentWords init pre + (707 + 4 * W) / 354) ∧
    ((txBeats init ins).map (fun b => (b.valid, b.syms)) =
      List.zipWith (fun (i : In) (f : Bool) => if f then (true, SKP4) else (i.sink.valid, i.sink.syms))
        ins (sendFlags init ins) ∧
     (sendFlags init ins).length = ins.length ∧
     (∀ p ∈ List.zip ins (sendFlags init ins), p.2 = true → p.1.canSend = true ∧ idle p.1.sink)) ∧
    (∀ p ∈ List.zip ins (txBeats init ins), ¬ idle p.1.sink → p.2 = p.1.sink) := by
  have hb := idleEvery_bucket W hW 0 (by omega) ins hi
  obtain ⟨a, b, c, d, e⟩ := ctc_bounded_fairness_bucket (W - 1) (by omega) idle ins hb he
  have hk : (711 + 4 * (W - 1)) / 354 = (707 + 4 * W) / 354 := by
    have : 711 + 4 * (W - 1) = 707 + 4 * W := by omega
    rw [this]
  rw [hk] at b c
  refine ⟨a, ?_, ?_, d, e⟩
  · intro st h
    have := b st h
    exact ⟨this, by omega⟩
  · intro pre suf hps
    obtain ⟨c1, c2, _, _⟩ := c pre suf hps
    exact ⟨c1, c2⟩

/-! ## Non-vacuity and tightness -/

/-- The arbiter's idle branch: IDL word, `can_send_skip = 1`. -/
def idleCycle : In := ⟨⟨true, IDLE4, false, false⟩, true, true⟩
/-- A packet/command word: valid, no permission to insert. -/
def busyCycle (d : Nat) : In := ⟨⟨true, unpack 4 d 0, false, false⟩, true, false⟩

/-- one idle word, then twice (176 packet words, one idle word)… -/
def tightStream : List In :=
  idleCycle :: (List.replicate 176 (busyCycle 0xA5A5A5A5) ++ idleCycle :: List.replicate 176 (busyCycle 0x5A5A5A5A))

example : IdleEvery 177 0 tightStream := by decide +kernel
example : Bucket 176 0 tightStream := by decide +kernel
example : Env isIdle tightStream := by
  intro i hi hc
  simp only [tightStream, List.mem_cons, List.mem_append, List.mem_replicate] at hi
  rcases hi with rfl | ⟨_, rfl⟩ | rfl | ⟨_, rfl⟩ <;> simp_all [idleCycle, busyCycle, isIdle]

/-- **Tightness of `B(W)`**: with `W = 177` the bound `(707 + 4·177)/354 = 3` is attained (the single
idle word between the two bursts is itself counted and raises the debt to 2 without being replaced;
the second burst brings it to 3). -/
example : (final init tightStream).skips = 3 ∧ (707 + 4 * 177) / 354 = 3 := by decide +kernel

/-- A maximum-size data packet (270 words > 177) followed by two idle words is inside the bucket form
(`K = 270`) though outside every admissible window. -/
example : Bucket 270 0 (idleCycle :: (List.replicate 270 (busyCycle 1) ++ [idleCycle, idleCycle])) := by
  decide +kernel

/-! ## The window hypothesis in plain form -/

/-- The plain reading of "an idle opportunity at least once in every window of `W` transfers": every
`W` consecutive cycles of the stream contain one with `can_send_skip = 1`. -/
def WindowsHaveIdle (W : Nat) (ins : List In) : Prop :=
  ∀ k, k + W ≤ ins.length → ∃ i ∈ (ins.drop k).take W, i.canSend = true

theorem idleEvery_of_windows_aux (W c : Nat) (ins : List In) (hc : c < W) (hw : WindowsHaveIdle W ins)
    (hf : W - c ≤ ins.length → ∃ i ∈ ins.take (W - c), i.canSend = true) : IdleEvery W c ins := by
  induction ins generalizing c with
  | nil => trivial
  | cons i is ih =>
    have hw' : WindowsHaveIdle W is := by
      intro k hk
      have := hw (k + 1) (by simp only [List.length_cons]; omega)
      simpa only [List.drop_succ_cons] using this
    unfold IdleEvery
    cases hcs : i.canSend
    · simp only [Bool.false_eq_true, if_false]
      have hm : W - c = (W - c - 1) + 1 := by omega
      have hlt : c + 1 < W := by
        apply Nat.lt_of_le_of_ne (by omega)
        intro hcw
        have h1 : W - c = 1 := by omega
        obtain ⟨j, hj, hjc⟩ := hf (by rw [h1]; simp)
        rw [h1] at hj
        simp only [List.take_succ_cons, List.take_zero, List.mem_singleton] at hj
        rw [hj, hcs] at hjc
        exact absurd hjc (by decide)
      have hv : (if i.sink.valid = true then 1 else 0) ≤ 1 := by split <;> omega
      refine ⟨by omega, ih _ (by omega) hw' ?_⟩
      intro hlen
      obtain ⟨j, hj, hjc⟩ := hf (by simp only [List.length_cons]; omega)
      rw [hm, List.take_succ_cons, List.mem_cons] at hj
      rcases hj with rfl | hj
      · rw [hcs] at hjc
        exact absurd hjc (by decide)
      · exact ⟨j, List.take_subset_take_left is (by omega) hj, hjc⟩
    · simp only [if_true]
      refine ih 0 (by omega) hw' ?_
      intro hlen
      have := hw 1 (by simp only [List.length_cons]; omega)
      simpa using this

/-- Every `W` consecutive cycles contain an idle opportunity ⇒ `IdleEvery W` (which only counts the
cycles in which a valid word is offered, so it is the weaker hypothesis). -/
theorem idleEvery_of_windows (W : Nat) (hW : 1 ≤ W) (ins : List In) (hw : WindowsHaveIdle W ins) :
    IdleEvery W 0 ins := by
  apply idleEvery_of_windows_aux W 0 ins (by omega) hw
  intro hlen
  have := hw 0 (by omega)
  simpa using this

/-- **C33 (c), plain window form**: an idle opportunity in every `W` consecutive cycles, `1 ≤ W ≤ 177`. -/
theorem ctc_bounded_fairness_windows (W : Nat) (hW1 : 1 ≤ W) (hW : W ≤ 177) (idle : Beat → Prop)
    (ins : List In) (hw : WindowsHaveIdle W ins) (he : Env idle ins) :
    NoWrap init ins ∧
    (∀ st ∈ states init ins, st.skips ≤ (707 + 4 * W) / 354 ∧ st.skips ≤ 3) ∧
    (∀ pre suf, ins = pre ++ suf →
      2 * sentWords init pre ≤ 4 * transfers init pre / 354 ∧
      4 * transfers init pre / 354 ≤ 2 * sentWords init pre + (707 + 4 * W) / 354) ∧
    ((txBeats init ins).map (fun b => (b.valid, b.syms)) =
      List.zipWith (fun (i : In) (f : Bool) => if f then (true, SKP4) else (i.sink.valid, i.sink.syms))
        ins (sendFlags init ins) ∧
     (sendFlags init ins).length = ins.length ∧
     (∀ p ∈ List.zip ins (sendFlags init ins), p.2 = true → p.1.canSend = true ∧ idle p.1.sink)) ∧
    (∀ p ∈ List.zip ins (txBeats init ins), ¬ idle p.1.sink → p.2 = p.1.sink) :=
  ctc_bounded_fairness W hW1 hW idle ins (idleEvery_of_windows W hW1 ins hw) he

example : WindowsHaveIdle 3 [idleCycle, busyCycle 1, busyCycle 2, idleCycle, busyCycle 3, idleCycle, idleCycle] := by
  have H : ∀ k, k ≤ 4 → ∃ i ∈ (List.drop k [idleCycle, busyCycle 1, busyCycle 2, idleCycle, busyCycle 3,
      idleCycle, idleCycle]).take 3, i.canSend = true := by decide
  intro k hk
  exact H k (by simp only [List.length_cons, List.length_nil] at hk; omega)

end LunaVerif.CtcInserter
