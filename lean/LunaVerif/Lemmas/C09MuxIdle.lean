import LunaVerif.Lemmas.C09Mux
import LunaVerif.Lemmas.C09BlockIdle
import LunaVerif.Lemmas.C09DistIdle
/-!
Helper lemmas for C09: the final state of the mux model is the pair of the two handlers' final states.
-/
namespace LunaVerif.Desc

theorem Complete.stall (L : Nat) (r : Response) (rs : List Bool) (h : Complete L r rs) : Complete L .stall rs :=
  ⟨h.1, fun _ hc => by cases hc⟩

/-- a response that is over one cycle before the end of the window is over at the end. -/
theorem Complete.of_dropLast (L : Nat) (r : Response) (rs : List Bool) (h : Complete L r rs.dropLast) :
    Complete L r rs := by
  rcases List.eq_nil_or_concat rs with rfl | ⟨dl, x, rfl⟩
  · exact h
  · rw [List.concat_eq_append, List.dropLast_concat] at h
    refine ⟨by have := h.1; simp; omega, fun c hc => ?_⟩
    rw [List.concat_eq_append, List.drop_append_of_le_length (by have := h.1; omega), List.count_append]
    exact Nat.le_trans (h.2 c hc) (Nat.le_add_right _ _)

namespace Mux

def final (c : Config) : State → List In → State
  | s, [] => s
  | s, i :: is => final c (step c s i).1 is

theorem run_append (c : Config) (a b : List In) : ∀ s, run c s (a ++ b) = run c s a ++ run c (final c s a) b := by
  induction a with
  | nil => intro s; rfl
  | cons i is ih => intro s; simp only [List.cons_append, run, final, ih, List.cons_append]

theorem final_append (c : Config) (a b : List In) : ∀ s, final c s (a ++ b) = final c (final c s a) b := by
  induction a with
  | nil => intro s; rfl
  | cons i is ih => intro s; simp only [List.cons_append, final, ih]

theorem final_parts (c : Config) (ins : List In) : ∀ s : State,
    (final c s ins).b = Block.final c.block s.b ins ∧ (final c s ins).d = Dist.final c.dist s.d (ins.map toDist) := by
  induction ins with
  | nil => intro s; exact ⟨rfl, rfl⟩
  | cons i is ih =>
    intro s
    simp only [final, Block.final, List.map_cons, Dist.final]
    exact ih _

end Mux
end LunaVerif.Desc
