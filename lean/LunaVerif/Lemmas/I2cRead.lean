import LunaVerif.Lemmas.I2cWrite
/-!
Byte-level invariant of the I2C initiator's read path (C52): with the ghost list `bits` = the
values of the synchronised SDA line sampled by `READ-DATA-SCL-H` since the read was accepted
(oldest first), the receive shift register holds them MSB first, exactly eight are taken, and
`data_o` is their value when the operation finishes.
-/
namespace LunaVerif.I2c

def val (bits : List Bool) : Nat := bits.foldl (fun a b => 2 * a + (if b then 1 else 0)) 0

theorem val_snoc (bits : List Bool) (b : Bool) : val (bits ++ [b]) = 2 * val bits + (if b then 1 else 0) := by
  simp [val, List.foldl_append]

/-- the cycle in which `READ-DATA-SCL-H` samples -/
def samples (c : Config) (s : State) : Bool :=
  s.fsm == .rdDataSclH && !stb s && s.sclO && (!c.clkStretch || s.sclI)

def rstep (c : Config) (s : State) (bits : List Bool) (i : In) : List Bool :=
  if s.fsm = .idle ∧ i.start = false ∧ i.stop = false ∧ i.write = false ∧ i.read = true then []
  else if samples c s then bits ++ [s.sdaI] else bits

def afterR (c : Config) : State × List Bool → List In → State × List Bool
  | sb, [] => sb
  | (s, b), i :: is => afterR c (step c s i, rstep c s b i) is

structure RInv (s : State) (bits : List Bool) : Prop where
  loop : LoopInv s
  lt   : s.rShreg < 256
  a    : (s.fsm = .rdDataSclL ∨ s.fsm = .rdDataSdaH ∨ s.fsm = .rdDataSclH) →
           bits.length = s.bitno ∧ s.rShreg % 2 ^ s.bitno = val bits
  b    : s.fsm = .rdDataSdaN → bits.length = s.bitno + 1 ∧ s.rShreg % 2 ^ (s.bitno + 1) = val bits
  c    : (s.fsm = .rdAckSclL ∨ s.fsm = .rdAckSdaX ∨ s.fsm = .rdAckSclH) →
           bits.length = 8 ∧ s.rShreg = val bits
  d    : s.fsm = .rdAckSdaN → bits.length = 8 ∧ s.dataO = val bits

theorem sample_arith (r k : Nat) (b : Bool) (hk : k < 8) :
    ((if b then 1 else 0) + r % 128 * 2) % 2 ^ (k + 1) = 2 * (r % 2 ^ k) + (if b then 1 else 0) := by
  have : k = 0 ∨ k = 1 ∨ k = 2 ∨ k = 3 ∨ k = 4 ∨ k = 5 ∨ k = 6 ∨ k = 7 := by omega
  rcases this with h | h | h | h | h | h | h | h <;> subst h <;> cases b <;> simp <;> omega

theorem rstep_other (c : Config) (s : State) (bits : List Bool) (i : In)
    (h1 : s.fsm ≠ .idle) (h2 : s.fsm ≠ .rdDataSclH) : rstep c s bits i = bits := by
  simp [rstep, samples, h1, h2]

theorem f_lt (c : Config) (s : State) (i : In) (h : s.rShreg < 256) : (step c s i).rShreg < 256 := by
  cases hf : s.fsm <;> simp only [step, hf, sclL, sclH, stbX, id] <;> (repeat' split) <;> simp_all <;> omega

/-! predecessors -/
theorem pred_rdDataSclL (c : Config) (s : State) (i : In) (h : (step c s i).fsm = .rdDataSclL) :
    (s.fsm = .idle ∧ i.start = false ∧ i.stop = false ∧ i.write = false ∧ i.read = true) ∨
      s.fsm = .rdDataSdaN ∨ s.fsm = .rdDataSclL := by
  cases hf : s.fsm <;> simp only [step, hf, sclL, sclH, stbX, id] at h <;> (repeat' split at h) <;> simp_all
theorem pred_rdDataSdaH (c : Config) (s : State) (i : In) (h : (step c s i).fsm = .rdDataSdaH) :
    s.fsm = .rdDataSclL ∨ s.fsm = .rdDataSdaH := by
  cases hf : s.fsm <;> simp only [step, hf, sclL, sclH, stbX, id] at h <;> (repeat' split at h) <;> simp_all
theorem pred_rdDataSclH (c : Config) (s : State) (i : In) (h : (step c s i).fsm = .rdDataSclH) :
    s.fsm = .rdDataSdaH ∨ s.fsm = .rdDataSclH := by
  cases hf : s.fsm <;> simp only [step, hf, sclL, sclH, stbX, id] at h <;> (repeat' split at h) <;> simp_all
theorem pred_rdDataSdaN (c : Config) (s : State) (i : In) (h : (step c s i).fsm = .rdDataSdaN) :
    s.fsm = .rdDataSclH ∨ s.fsm = .rdDataSdaN := by
  cases hf : s.fsm <;> simp only [step, hf, sclL, sclH, stbX, id] at h <;> (repeat' split at h) <;> simp_all
theorem pred_rdAckSclL (c : Config) (s : State) (i : In) (h : (step c s i).fsm = .rdAckSclL) :
    s.fsm = .rdDataSdaN ∨ s.fsm = .rdAckSclL := by
  cases hf : s.fsm <;> simp only [step, hf, sclL, sclH, stbX, id] at h <;> (repeat' split at h) <;> simp_all
theorem pred_rdAckSdaX (c : Config) (s : State) (i : In) (h : (step c s i).fsm = .rdAckSdaX) :
    s.fsm = .rdAckSclL ∨ s.fsm = .rdAckSdaX := by
  cases hf : s.fsm <;> simp only [step, hf, sclL, sclH, stbX, id] at h <;> (repeat' split at h) <;> simp_all
theorem pred_rdAckSclH (c : Config) (s : State) (i : In) (h : (step c s i).fsm = .rdAckSclH) :
    s.fsm = .rdAckSdaX ∨ s.fsm = .rdAckSclH := by
  cases hf : s.fsm <;> simp only [step, hf, sclL, sclH, stbX, id] at h <;> (repeat' split at h) <;> simp_all
theorem pred_rdAckSdaN (c : Config) (s : State) (i : In) (h : (step c s i).fsm = .rdAckSdaN) :
    s.fsm = .rdAckSclH ∨ s.fsm = .rdAckSdaN := by
  cases hf : s.fsm <;> simp only [step, hf, sclL, sclH, stbX, id] at h <;> (repeat' split at h) <;> simp_all

/-! invariant fields, one target state at a time -/

theorem g_a1 (c : Config) (s : State) (bits : List Bool) (i : In) (h : RInv s bits)
    (hn : (step c s i).fsm = .rdDataSclL) :
    (rstep c s bits i).length = (step c s i).bitno ∧
      (step c s i).rShreg % 2 ^ (step c s i).bitno = val (rstep c s bits i) := by
  rcases pred_rdDataSclL c s i hn with ⟨hf, h1, h2, h3, h4⟩ | hf | hf
  · have hb0 : s.bitno = 0 := h.loop.bit0 (by simp [hf, inBitLoop])
    simp [step, rstep, hf, h1, h2, h3, h4, hb0, val, Nat.mod_one]
  · have ⟨hb1, hb2⟩ := h.b hf
    have hlt := h.loop.bitLt
    rw [rstep_other c s bits i (by simp [hf]) (by simp [hf])]
    simp only [step, hf, stbX] at hn ⊢
    split at hn
    · rename_i hst
      simp only [hst, if_true] at hn ⊢
      by_cases h7 : s.bitno = 7
      · simp [h7] at hn
      · have : (s.bitno + 1) % 8 = s.bitno + 1 := by omega
        simp [this, hb1, hb2]
    · simp at hn
  · have ha := h.a (Or.inl hf)
    rw [rstep_other c s bits i (by simp [hf]) (by simp [hf])]
    simp only [step, hf, sclL] at hn ⊢
    split <;> simp_all

theorem g_a2 (c : Config) (s : State) (bits : List Bool) (i : In) (h : RInv s bits)
    (hn : (step c s i).fsm = .rdDataSdaH) :
    (rstep c s bits i).length = (step c s i).bitno ∧
      (step c s i).rShreg % 2 ^ (step c s i).bitno = val (rstep c s bits i) := by
  rcases pred_rdDataSdaH c s i hn with hf | hf
  · have ha := h.a (Or.inl hf)
    rw [rstep_other c s bits i (by simp [hf]) (by simp [hf])]
    simp only [step, hf, sclL] at hn ⊢
    split <;> simp_all
  · have ha := h.a (Or.inr (Or.inl hf))
    rw [rstep_other c s bits i (by simp [hf]) (by simp [hf])]
    simp only [step, hf, stbX] at hn ⊢
    split <;> simp_all

theorem g_a3 (c : Config) (s : State) (bits : List Bool) (i : In) (h : RInv s bits)
    (hn : (step c s i).fsm = .rdDataSclH) :
    (rstep c s bits i).length = (step c s i).bitno ∧
      (step c s i).rShreg % 2 ^ (step c s i).bitno = val (rstep c s bits i) := by
  rcases pred_rdDataSclH c s i hn with hf | hf
  · have ha := h.a (Or.inr (Or.inl hf))
    rw [rstep_other c s bits i (by simp [hf]) (by simp [hf])]
    simp only [step, hf, stbX] at hn ⊢
    split <;> simp_all
  · have ha := h.a (Or.inr (Or.inr hf))
    simp only [step, hf, sclH] at hn ⊢
    simp only [rstep, samples, hf]
    (repeat' split) <;> simp_all

theorem g_b (c : Config) (s : State) (bits : List Bool) (i : In) (h : RInv s bits)
    (hn : (step c s i).fsm = .rdDataSdaN) :
    (rstep c s bits i).length = (step c s i).bitno + 1 ∧
      (step c s i).rShreg % 2 ^ ((step c s i).bitno + 1) = val (rstep c s bits i) := by
  rcases pred_rdDataSdaN c s i hn with hf | hf
  · have ⟨ha1, ha2⟩ := h.a (Or.inr (Or.inr hf))
    have hk := sample_arith s.rShreg s.bitno s.sdaI h.loop.bitLt
    have hv := val_snoc bits s.sdaI
    simp only [step, hf, sclH] at hn ⊢
    simp only [rstep, samples, hf]
    (repeat' split) <;> simp_all
  · have hb := h.b hf
    rw [rstep_other c s bits i (by simp [hf]) (by simp [hf])]
    simp only [step, hf, stbX] at hn ⊢
    split at hn
    · rename_i hst
      simp only [hst, if_true] at hn
      split at hn <;> simp at hn
    · rename_i hst
      simp [hst, hb]

theorem g_c1 (c : Config) (s : State) (bits : List Bool) (i : In) (h : RInv s bits)
    (hn : (step c s i).fsm = .rdAckSclL) :
    (rstep c s bits i).length = 8 ∧ (step c s i).rShreg = val (rstep c s bits i) := by
  rcases pred_rdAckSclL c s i hn with hf | hf
  · have ⟨hb1, hb2⟩ := h.b hf
    have hlt := h.lt
    rw [rstep_other c s bits i (by simp [hf]) (by simp [hf])]
    simp only [step, hf, stbX] at hn ⊢
    split at hn
    · rename_i hst
      simp only [hst, if_true] at hn ⊢
      by_cases h7 : s.bitno = 7
      · rw [h7] at hb1 hb2
        have : s.rShreg % 2 ^ (7 + 1) = s.rShreg := Nat.mod_eq_of_lt (by simpa using hlt)
        simp [hb1, ← hb2, this]
      · simp [h7] at hn
    · simp at hn
  · have hc := h.c (Or.inl hf)
    rw [rstep_other c s bits i (by simp [hf]) (by simp [hf])]
    simp only [step, hf, sclL] at hn ⊢
    split <;> simp_all

theorem g_c2 (c : Config) (s : State) (bits : List Bool) (i : In) (h : RInv s bits)
    (hn : (step c s i).fsm = .rdAckSdaX) :
    (rstep c s bits i).length = 8 ∧ (step c s i).rShreg = val (rstep c s bits i) := by
  rcases pred_rdAckSdaX c s i hn with hf | hf
  · have hc := h.c (Or.inl hf)
    rw [rstep_other c s bits i (by simp [hf]) (by simp [hf])]
    simp only [step, hf, sclL] at hn ⊢
    split <;> simp_all
  · have hc := h.c (Or.inr (Or.inl hf))
    rw [rstep_other c s bits i (by simp [hf]) (by simp [hf])]
    simp only [step, hf, stbX] at hn ⊢
    split <;> simp_all

theorem g_c3 (c : Config) (s : State) (bits : List Bool) (i : In) (h : RInv s bits)
    (hn : (step c s i).fsm = .rdAckSclH) :
    (rstep c s bits i).length = 8 ∧ (step c s i).rShreg = val (rstep c s bits i) := by
  rcases pred_rdAckSclH c s i hn with hf | hf
  · have hc := h.c (Or.inr (Or.inl hf))
    rw [rstep_other c s bits i (by simp [hf]) (by simp [hf])]
    simp only [step, hf, stbX] at hn ⊢
    split <;> simp_all
  · have hc := h.c (Or.inr (Or.inr hf))
    rw [rstep_other c s bits i (by simp [hf]) (by simp [hf])]
    simp only [step, hf, sclH] at hn ⊢
    (repeat' split) <;> simp_all

theorem g_d (c : Config) (s : State) (bits : List Bool) (i : In) (h : RInv s bits)
    (hn : (step c s i).fsm = .rdAckSdaN) :
    (rstep c s bits i).length = 8 ∧ (step c s i).dataO = val (rstep c s bits i) := by
  rcases pred_rdAckSdaN c s i hn with hf | hf
  · have hc := h.c (Or.inr (Or.inr hf))
    rw [rstep_other c s bits i (by simp [hf]) (by simp [hf])]
    simp only [step, hf, sclH] at hn ⊢
    (repeat' split) <;> simp_all
  · have hd := h.d hf
    rw [rstep_other c s bits i (by simp [hf]) (by simp [hf])]
    simp only [step, hf, stbX] at hn ⊢
    split <;> simp_all

theorem rinv_step (c : Config) (s : State) (bits : List Bool) (i : In) (h : RInv s bits) :
    RInv (step c s i) (rstep c s bits i) :=
  ⟨loopInv_step c s i h.loop, f_lt c s i h.lt,
   fun hn => hn.elim (g_a1 c s bits i h) (fun hn => hn.elim (g_a2 c s bits i h) (g_a3 c s bits i h)),
   g_b c s bits i h,
   fun hn => hn.elim (g_c1 c s bits i h) (fun hn => hn.elim (g_c2 c s bits i h) (g_c3 c s bits i h)),
   g_d c s bits i h⟩

theorem rinv_init : RInv init [] := by
  refine ⟨loopInv_init, ?_, ?_, ?_, ?_, ?_⟩ <;> simp [init]

theorem rinv_reachable (c : Config) (h : List In) :
    RInv (afterR c (init, []) h).1 (afterR c (init, []) h).2 := by
  suffices ∀ sb : State × List Bool, RInv sb.1 sb.2 → RInv (afterR c sb h).1 (afterR c sb h).2 from
    this _ rinv_init
  induction h with
  | nil => intro sb hs; exact hs
  | cons i is ih => intro (s, b) hs; exact ih _ (rinv_step c s b i hs)

/-- **Read, byte level.**  After ANY input history, with `bits` the values of the synchronised SDA
line sampled (in `READ-DATA-SCL-H`, i.e. with SCL high — `read_samples_when_scl_high`) since the
read was accepted: when the read reaches its acknowledge clock exactly eight bits have been
sampled and the shift register is their value, first bit most significant; in the final state of
the operation (`READ-ACK-SDA-N`) `data_o` is that value. -/
theorem read_returns_sampled_octet (c : Config) (h : List In) :
    let s := (afterR c (init, []) h).1
    let bits := (afterR c (init, []) h).2
    ((s.fsm = .rdAckSclL ∨ s.fsm = .rdAckSdaX ∨ s.fsm = .rdAckSclH) → bits.length = 8 ∧ s.rShreg = val bits) ∧
    (s.fsm = .rdAckSdaN → bits.length = 8 ∧ s.dataO = val bits) := by
  intro s bits
  exact ⟨(rinv_reachable c h).c, (rinv_reachable c h).d⟩

end LunaVerif.I2c
