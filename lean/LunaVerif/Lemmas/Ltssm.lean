import LunaVerif.Model.Usb3.Ltssm
/-!
Projection lemmas for the LTSSM model (C41).  The model threads a pending register file through
`when`/`goto` in program order; these lemmas push a field projection through that chain, so that
`(next c s i).field` normalises to an if-tree over the current registers and inputs
(tactic `ltssm_norm [hst]`), without ever expanding nested structure updates.
-/
namespace LunaVerif.Ltssm

section whenIte
variable (b : Bool) (f : State → State) (n : State) {p : Prop} [Decidable p] (x y : State)
theorem when_st : (when b f n).st = if b then (f n).st else n.st := by unfold when; split <;> rfl
theorem when_cycles : (when b f n).cycles = if b then (f n).cycles else n.cycles := by unfold when; split <;> rfl
theorem when_pollingSeen : (when b f n).pollingSeen = if b then (f n).pollingSeen else n.pollingSeen := by unfold when; split <;> rfl
theorem when_ts2Seen : (when b f n).ts2Seen = if b then (f n).ts2Seen else n.ts2Seen := by unfold when; split <;> rfl
theorem when_hotResetSeen : (when b f n).hotResetSeen = if b then (f n).hotResetSeen else n.hotResetSeen := by unfold when; split <;> rfl
theorem when_loopbackSeen : (when b f n).loopbackSeen = if b then (f n).loopbackSeen else n.loopbackSeen := by unfold when; split <;> rfl
theorem when_disableScramblingSeen : (when b f n).disableScramblingSeen = if b then (f n).disableScramblingSeen else n.disableScramblingSeen := by unfold when; split <;> rfl
theorem when_burstMinimumMet : (when b f n).burstMinimumMet = if b then (f n).burstMinimumMet else n.burstMinimumMet := by unfold when; split <;> rfl
theorem when_lfpsBurstSeen : (when b f n).lfpsBurstSeen = if b then (f n).lfpsBurstSeen else n.lfpsBurstSeen := by unfold when; split <;> rfl
theorem when_targetLfpsCount : (when b f n).targetLfpsCount = if b then (f n).targetLfpsCount else n.targetLfpsCount := by unfold when; split <;> rfl
theorem when_requestHotReset : (when b f n).requestHotReset = if b then (f n).requestHotReset else n.requestHotReset := by unfold when; split <;> rfl
theorem when_requestNoScrambling : (when b f n).requestNoScrambling = if b then (f n).requestNoScrambling else n.requestNoScrambling := by unfold when; split <;> rfl
theorem when_invertRxPolarity : (when b f n).invertRxPolarity = if b then (f n).invertRxPolarity else n.invertRxPolarity := by unfold when; split <;> rfl
theorem ite_st : (if p then x else y).st = if p then x.st else y.st := by split <;> rfl
theorem ite_cycles : (if p then x else y).cycles = if p then x.cycles else y.cycles := by split <;> rfl
theorem ite_pollingSeen : (if p then x else y).pollingSeen = if p then x.pollingSeen else y.pollingSeen := by split <;> rfl
theorem ite_ts2Seen : (if p then x else y).ts2Seen = if p then x.ts2Seen else y.ts2Seen := by split <;> rfl
theorem ite_hotResetSeen : (if p then x else y).hotResetSeen = if p then x.hotResetSeen else y.hotResetSeen := by split <;> rfl
theorem ite_loopbackSeen : (if p then x else y).loopbackSeen = if p then x.loopbackSeen else y.loopbackSeen := by split <;> rfl
theorem ite_disableScramblingSeen : (if p then x else y).disableScramblingSeen = if p then x.disableScramblingSeen else y.disableScramblingSeen := by split <;> rfl
theorem ite_burstMinimumMet : (if p then x else y).burstMinimumMet = if p then x.burstMinimumMet else y.burstMinimumMet := by split <;> rfl
theorem ite_lfpsBurstSeen : (if p then x else y).lfpsBurstSeen = if p then x.lfpsBurstSeen else y.lfpsBurstSeen := by split <;> rfl
theorem ite_targetLfpsCount : (if p then x else y).targetLfpsCount = if p then x.targetLfpsCount else y.targetLfpsCount := by split <;> rfl
theorem ite_requestHotReset : (if p then x else y).requestHotReset = if p then x.requestHotReset else y.requestHotReset := by split <;> rfl
theorem ite_requestNoScrambling : (if p then x else y).requestNoScrambling = if p then x.requestNoScrambling else y.requestNoScrambling := by split <;> rfl
theorem ite_invertRxPolarity : (if p then x else y).invertRxPolarity = if p then x.invertRxPolarity else y.invertRxPolarity := by split <;> rfl
end whenIte

section goto
variable (i : In) (T : St) (n : State)
theorem goto_st : (goto i T n).st = T := rfl
theorem goto_cycles : (goto i T n).cycles = 0 := by cases T <;> rfl
theorem goto_pollingSeen : (goto i T n).pollingSeen = n.pollingSeen := by cases T <;> rfl
theorem goto_ts2Seen : (goto i T n).ts2Seen =
    if T = .PollingActive ∨ T = .RecoveryActive ∨ T = .PollingRxEQ ∨ T = .HotResetActive then false
    else n.ts2Seen := by cases T <;> rfl
theorem goto_hotResetSeen : (goto i T n).hotResetSeen =
    if T = .PollingActive ∨ T = .RecoveryActive ∨ T = .PollingRxEQ then false else n.hotResetSeen := by
  cases T <;> rfl
theorem goto_loopbackSeen : (goto i T n).loopbackSeen =
    if T = .PollingActive ∨ T = .RecoveryActive then false else n.loopbackSeen := by cases T <;> rfl
theorem goto_disableScramblingSeen : (goto i T n).disableScramblingSeen =
    if T = .PollingActive ∨ T = .RecoveryActive ∨ T = .PollingRxEQ then false
    else n.disableScramblingSeen := by cases T <;> rfl
theorem goto_burstMinimumMet : (goto i T n).burstMinimumMet =
    if T = .PollingActive ∨ T = .RecoveryActive then false else n.burstMinimumMet := by cases T <;> rfl
theorem goto_lfpsBurstSeen : (goto i T n).lfpsBurstSeen =
    if T = .PollingLFPS then false else n.lfpsBurstSeen := by cases T <;> rfl
theorem goto_targetLfpsCount : (goto i T n).targetLfpsCount =
    if T = .PollingLFPS then 16 else n.targetLfpsCount := by cases T <;> rfl
theorem goto_requestHotReset : (goto i T n).requestHotReset =
    if T = .HotResetActive then true else false := by cases T <;> rfl
theorem goto_requestNoScrambling : (goto i T n).requestNoScrambling =
    if T = .PollingActive ∨ T = .RecoveryActive ∨ T = .PollingRxEQ then i.disableScrambling
    else n.requestNoScrambling := by cases T <;> rfl
theorem goto_invertRxPolarity : (goto i T n).invertRxPolarity = n.invertRxPolarity := by cases T <;> rfl
end goto

/-- Normalise projections of `next c s i` (give the hypothesis `s.st = …` as argument). -/
macro "ltssm_norm" " [" ts:Lean.Parser.Tactic.simpLemma,* "]" : tactic =>
  `(tactic| simp only [next, fsmBody, warm, onTimeout, preamble, reduceCtorEq, or_self, or_false, false_or,
      if_false, if_true, ite_self,
      when_st, when_cycles, when_pollingSeen, when_ts2Seen, when_hotResetSeen, when_loopbackSeen, when_disableScramblingSeen, when_burstMinimumMet, when_lfpsBurstSeen, when_targetLfpsCount, when_requestHotReset, when_requestNoScrambling, when_invertRxPolarity,
      ite_st, ite_cycles, ite_pollingSeen, ite_ts2Seen, ite_hotResetSeen, ite_loopbackSeen, ite_disableScramblingSeen, ite_burstMinimumMet, ite_lfpsBurstSeen, ite_targetLfpsCount, ite_requestHotReset, ite_requestNoScrambling, ite_invertRxPolarity,
      goto_st, goto_cycles, goto_pollingSeen, goto_ts2Seen, goto_hotResetSeen, goto_loopbackSeen, goto_disableScramblingSeen, goto_burstMinimumMet, goto_lfpsBurstSeen, goto_targetLfpsCount, goto_requestHotReset, goto_requestNoScrambling, goto_invertRxPolarity, $ts,*])

end LunaVerif.Ltssm
