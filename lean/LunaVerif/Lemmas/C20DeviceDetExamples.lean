import LunaVerif.Lemmas.C20DeviceDet
import LunaVerif.Lemmas.C20DeviceDecExamples
/-!
# C20 — device + control endpoint + setup decoder + handshake detector: non-vacuity (kernel-evaluated)
-/
namespace LunaVerif.DevDet
open LunaVerif LunaVerif.DevCyc LunaVerif.DevCyc.Abs LunaVerif.C20Ctr LunaVerif.DevEp LunaVerif.CtrlCyc LunaVerif.DevCtl
open LunaVerif.DevDec (exD)

/-- SETUP token, DATA0 GET_DESCRIPTOR(DEVICE, 18) with CRC16, IN token, and - after the device's DATA1 packet has ended -
the host's ACK handshake (D2). -/
def z1 : List (Ext × Nat) :=
  (rxBytes [0x2d, 0x00, 0x10] ++ [quiet, quiet, quiet] ++ rxBytes [0xc3, 0x80, 6, 0, 1, 0, 0, 0x12, 0, 0xe0, 0xf4] ++
    List.replicate 11 quiet ++ rxBytes [0x69, 0x00, 0x10] ++ List.replicate 32 quiet ++ rxBytes [0xD2] ++
    List.replicate 6 quiet).map (fun x => (x, 0))

/-- The hypotheses of `det_closed_tx_never_during_rx` hold along this history (nothing about decoder or detector is fed
by hand) ... -/
example : exD.hs = false ∧ decHolds3 exD exPar (init exD) ghostInit phs0 z1 = true ∧
    hostHolds exD.dc.ep.dev exPar DevCyc.init ghostInit (devIns exD.dc.ep (DevEp.init exD.dc.ep) (extsT exD z1)) = true := by
  decide +kernel

/-- ... the device transmits ACK (cycle 24) and the DATA1 packet with the descriptor and its CRC16 (cycles 42-62), and the
detector model strobes `handshakes_in.ack` in cycle 69, two cycles after the host's handshake packet ended. -/
example : ((DevEp.run exD.dc.ep (DevEp.init exD.dc.ep) (extsT exD z1)).filter (·.txValid)).map (·.txData) =
      [0xD2, 0x4B, 18, 1, 0, 2, 0, 0, 0, 64, 0x50, 0x1d, 0x5c, 0x61, 0, 0, 1, 2, 3, 1, 0x2F, 0x84] ∧
    ((zsOf exD (init exD) z1).zip (List.range 200)).filterMap (fun ((x, _), n) => if x.hsAck then some n else none) =
      [69] := by decide +kernel

end LunaVerif.DevDet
