import LunaVerif.Lemmas.C07StreamRun
/-!
# Non-vacuity of `cycle_refines_event_streams_run`: a concrete enumeration-like history, evaluated by the kernel

GET_DESCRIPTOR of a 70-byte descriptor with wLength 100 (two data packets, 64 + 6 bytes, DATA1 / DATA0, the
`start_position` advance on the ACK in between, a bulk IN transaction with its own ACK between the two data-stage INs),
GET_STATUS, SET_CONFIGURATION(3), GET_CONFIGURATION (answer `[3]`), GET_DESCRIPTOR of a missing descriptor (STALL, after a latency and in the start cycle),
a zero-length data packet (descriptor of exactly 64 bytes, wLength 100), a bus reset.  Every stream window has stalled
`tx.ready` cycles and a streamer latency of 3 cycles.
-/
namespace LunaVerif.CtrlCyc
open LunaVerif.Device

def exCfgS : DevConfig :=
  { descriptors := [(1, 0, [18, 1, 0, 2, 0, 0, 0, 64, 9, 18, 1, 0, 0, 1, 1, 2, 3, 1]), (2, 0, List.range 70),
      (3, 0, List.range 64)],
    maxPacket := 64, posBits := 7 }

/-- a stream window: stalled cycles, then `n` accepting cycles with a stall in between, then idle. -/
def exWin (n : Nat) : List CycIn :=
  ([{}, { txReady := true }, {}, {}] : List CycIn) ++ List.replicate n ({ txReady := true } : CycIn) ++
    ([{}, { txReady := true }, {}] : List CycIn)

def exG (n : Nat) : GapsS :=
  { pre := [{}, { txReady := true, tValid := true, dValid := true, dStall := true }], mid := [{ dFirst := true }],
    post := [{}], lat := 2, stream := exWin n }

def setupTok : Stim × GapsS := (⟨.token PID_SETUP 0 0, .none⟩, exG 0)
def inTok : Nat → Stim × GapsS := fun n => (⟨.token PID_IN 0 0, .none⟩, exG n)
def hostAck : Stim × GapsS := (⟨.handshake PID_ACK, .none⟩, exG 0)
def statusOut : List (Stim × GapsS) :=
  [(⟨.token PID_OUT 0 0, .none⟩, exG 0), (⟨.data PID_DATA1 [] true, .none⟩, exG 0)]
def setupData (p : List Nat) : Stim × GapsS := (⟨.data PID_DATA0 p true, .none⟩, exG 0)

def exHistoryS : List (Stim × GapsS) :=
  -- GET_DESCRIPTOR(type 2, index 0, wLength 100): 64 bytes, bulk IN + ACK for endpoint 1, 6 bytes, status
  [setupTok, setupData [0x80, 6, 0, 2, 0, 0, 100, 0], inTok 70, hostAck,
   (⟨.token PID_IN 0 1, .data PID_DATA0 [7]⟩, exG 0), hostAck, inTok 10, hostAck] ++ statusOut ++
  -- GET_STATUS
  [setupTok, setupData [0x80, 0, 0, 0, 0, 0, 2, 0], inTok 2, hostAck] ++ statusOut ++
  -- SET_CONFIGURATION(3)
  [setupTok, setupData [0x00, 9, 3, 0, 0, 0, 0, 0], inTok 0, hostAck] ++
  -- GET_CONFIGURATION
  [setupTok, setupData [0x80, 8, 0, 0, 0, 0, 1, 0], inTok 1, hostAck] ++ statusOut ++
  -- GET_DESCRIPTOR(type 9): STALL after the block handler's latency; then STALL in the start cycle (distributed handler)
  [setupTok, setupData [0x80, 6, 0, 9, 0, 0, 18, 0], inTok 0] ++
  [setupTok, setupData [0x80, 6, 0, 9, 0, 0, 18, 0], (⟨.token PID_IN 0 0, .none⟩, { exG 0 with stallNow := true })] ++
  -- GET_DESCRIPTOR(type 3, 64 bytes, wLength 100): full packet, then a zero-length packet
  [setupTok, setupData [0x80, 6, 0, 3, 0, 0, 100, 0], inTok 64, hostAck, inTok 0, hostAck] ++ statusOut ++
  -- bus reset
  [(⟨.busReset, .none⟩, exG 0)]

-- the hypotheses of `cycle_refines_event_streams_from_reset`
example : exCfgS.extra = [] ∧ exCfgS.maxPacket = 64 := ⟨rfl, rfl⟩
example : FitsFrom exCfgS Device.init exHistoryS = true := by decide +kernel
example : (expandAllR exCfgS Device.init exHistoryS).length = 424 := by decide +kernel
-- what the event-level model answers
example : coreResps exCfgS Device.init (exHistoryS.map (·.1)) =
    [.none, .hs PID_ACK, .data PID_DATA1 (List.range 64), .none, .none, .none,
     .data PID_DATA0 [64, 65, 66, 67, 68, 69], .none, .none, .hs PID_ACK,
     .none, .hs PID_ACK, .data PID_DATA1 [0, 0], .none, .none, .hs PID_ACK,
     .none, .hs PID_ACK, .data PID_DATA1 [], .none,
     .none, .hs PID_ACK, .data PID_DATA1 [3], .none, .none, .hs PID_ACK,
     .none, .hs PID_ACK, .hs PID_STALL,
     .none, .hs PID_ACK, .hs PID_STALL,
     .none, .hs PID_ACK, .data PID_DATA1 (List.range 64), .none, .data PID_DATA0 [], .none, .none, .hs PID_ACK,
     .none] := by decide +kernel
-- the theorem's conclusion, evaluated independently on the cycle-level model
example : busResps exCfgS Device.init CtrlCyc.init exHistoryS = coreResps exCfgS Device.init (exHistoryS.map (·.1)) := by
  decide +kernel
-- the configuration register before the bus reset, and both registers after it
example : regsAfterR (0, 0) (outsR (cfgOf exCfgS) CtrlCyc.init (expandAllR exCfgS Device.init exHistoryS.dropLast)) = (0, 3) := by
  decide +kernel
example : regsAfterR (0, 0) (outsR (cfgOf exCfgS) CtrlCyc.init (expandAllR exCfgS Device.init exHistoryS)) = (0, 0) := by
  decide +kernel
-- a window that is too short is rejected by the hypothesis
example : FitsFrom exCfgS Device.init
    [setupTok, setupData [0x80, 0, 0, 0, 0, 0, 2, 0], (⟨.token PID_IN 0 0, .none⟩, { exG 0 with stream := [{}, {}, {}, { txReady := true }] })]
    = false := by decide +kernel

end LunaVerif.CtrlCyc
