import LunaVerif.Lemmas.C20CtrlDefs
/-!
# C20 — the control endpoint keeps the slot contract: the cycles in which a streamer is busy

`step_ser` (the `StreamSerializer` of GET_STATUS / GET_CONFIGURATION is streaming), `step_blk` (the block descriptor
handler of GET_DESCRIPTOR is looking up or streaming): one cycle of the closed loop `sys2Step` keeps the slot contract
and the relation `R` between the loop's state and the contract's phase, under the environment assumption `EnvF`.
-/
namespace LunaVerif.CtrlCyc
open LunaVerif.Device LunaVerif.StreamGen LunaVerif.C20Ctr
open LunaVerif.Desc

theorem step_ser (c : Cfg) (bc : Block.Config) (L : Nat) {S : Sys2State} {g : CG} {i : CycIn} {pul : Bool}
    (hb : SerBusy S g) (hp : g.ph = .sending ∨ (g.ph = .armed 0 ∧ S.ser.pos = 0)) (he : EnvF c bc S g i pul) :
    cok g.ph pul (ctlSig (sys2Step c bc S i).2) = true ∧
    R (sys2Step c bc S i).1 (cgNext L g i pul (sys2Step c bc S i).2) := by
  obtain ⟨hbi, hsf, hpt, hh⟩ := hb
  obtain ⟨f1, f2, f3, hbusy, _⟩ := he
  have hni : g.ph ≠ .idle := by rcases hp with h | h <;> simp [h]
  obtain ⟨hpul, hrc, hak, hty⟩ : pul = false ∧ i.received = false ∧ (ctrlComb c S.cs.stage i).hsAck = false ∧
      i.su.type = g.pty := by
    rcases hbusy with h | h
    · exact absurd h hni
    · exact h
  have hstd : i.su.type = TYPE_STANDARD := hty.trans hpt
  obtain ⟨s1, s2, s3, s4⟩ := f1 hpul
  have hgs : gs S.cs i = true := by rcases hh with h | h <;> simp [gs, hstd, h]
  have hgd : gd S.cs i = false := by rcases hh with h | h <;> simp [gd, h]
  obtain ⟨hbo, hbn⟩ := blk_idle' bc S.blk (blkInOf S.cs i (step c S.cs i).2.h) hbi
  rw [← bOut_eq] at hbo
  rw [← sys2_blk, wires_blk] at hbn
  simp only [hgd, Bool.false_and, Bool.false_eq_true, if_false] at hbn
  obtain ⟨w1, w2, w3, _⟩ := wires_ser c S.cs i
  obtain ⟨t1, t2, t3⟩ := ser_stream S.ser (serInOf (step c S.cs i).2.h) hsf w3
  rw [← sOut_eq] at t1 t2 t3
  rw [← sys2_ser (bc := bc), w2, hgs, Bool.true_and] at t3
  have hsig := sys2_sig c bc S i
  have hsig' : ctlSig (sys2Step c bc S i).2 = ⟨false, true, S.ser.pos == 0, (sOut c S i).last, false⟩ := by
    rw [hsig, hbo, t1, t2]
    rcases hh with h | h <;> simp [sigF, h, hstd, s2, s3, s4]
  have hkeep := h_keep_gs c S.cs (inOf c bc S i) hstd hh hrc s2
  rw [← sys2_cs] at hkeep
  have hpty : (cgNext L g i pul (sys2Step c bc S i).2).pty = TYPE_STANDARD := hstd
  have hphn : (cgNext L g i pul (sys2Step c bc S i).2).ph =
      cnext L g.ph pul i.txReady (ctlSig (sys2Step c bc S i).2) := rfl
  have hnext : cok g.ph pul (ctlSig (sys2Step c bc S i).2) = true ∧
      cnext L g.ph pul i.txReady (ctlSig (sys2Step c bc S i).2) =
        (if (i.txReady && (sOut c S i).last) = true then .idle else .sending) := by
    rw [hsig']
    rcases hp with h | ⟨h, h0⟩
    · simp [cok, cokB, cnext, cnextB, h]
    · simp [cok, cokB, cnext, cnextB, h, h0]
  refine ⟨hnext.1, ?_⟩
  by_cases hl : (i.txReady && (sOut c S i).last) = true
  · left
    rw [hphn, hnext.2, if_pos hl]
    rw [if_pos hl] at t3
    exact ⟨by simp, hbn, Or.inr t3⟩
  · right; left
    rw [hphn, hnext.2, if_neg hl]
    rw [if_neg hl] at t3
    exact ⟨⟨hbn, t3, hpty, by rw [hkeep]; exact hh⟩, Or.inl rfl⟩
/-- The descriptor handler's inputs while the slot is busy with it. -/
def blkW (S : Sys2State) (i : CycIn) : Block.In := ⟨i.su.value, i.su.length, S.cs.h.startPos, false, i.txReady⟩

structure BlkF (c : Cfg) (bc : Block.Config) (L : Nat) (S : Sys2State) (g : CG) (i : CycIn) (pul : Bool) : Prop where
  npul : pul = false
  sig  : ctlSig (sys2Step c bc S i).2 =
          ⟨(Block.step bc S.blk (blkW S i)).2.stall, (Block.step bc S.blk (blkW S i)).2.valid,
           (Block.step bc S.blk (blkW S i)).2.first, (Block.step bc S.blk (blkW S i)).2.last, false⟩
  serq : SerQ' (sys2Step c bc S i).1.ser
  pty  : (cgNext L g i pul (sys2Step c bc S i).2).pty = TYPE_STANDARD
  keep : (Block.step bc S.blk (blkW S i)).2.stall = false →
          (sys2Step c bc S i).1.cs.h.hstate = .getDescriptor ∧ (sys2Step c bc S i).1.cs.h.startPos = S.cs.h.startPos
  bn   : (sys2Step c bc S i).1.blk = (Block.step bc S.blk (blkW S i)).1

theorem blk_common (c : Cfg) (bc : Block.Config) (L : Nat) {S : Sys2State} {g : CG} {i : CycIn} {pul : Bool}
    (hb : BlkBusy S g) (hni : g.ph ≠ .idle) (he : EnvF c bc S g i pul) : BlkF c bc L S g i pul := by
  obtain ⟨hsq, hpt, hh⟩ := hb
  obtain ⟨f1, f2, f3, hbusy, _⟩ := he
  obtain ⟨hpul, hrc, hak, hty⟩ : pul = false ∧ i.received = false ∧ (ctrlComb c S.cs.stage i).hsAck = false ∧
      i.su.type = g.pty := by
    rcases hbusy with h | h
    · exact absurd h hni
    · exact h
  have hstd : i.su.type = TYPE_STANDARD := hty.trans hpt
  obtain ⟨s1, s2, s3, s4⟩ := f1 hpul
  have hgs : gs S.cs i = false := by simp [gs, hh]
  have hgd : gd S.cs i = true := by simp [gd, hstd, hh]
  have hw : blkInOf S.cs i (step c S.cs i).2.h = blkW S i := by
    rw [wires_blk, hgd, s1]; rfl
  have hbo : bOut c bc S i = (Block.step bc S.blk (blkW S i)).2 := by rw [bOut_eq, hw]
  obtain ⟨w1, w2, w3, _⟩ := wires_ser c S.cs i
  rw [hgs, Bool.false_and] at w1
  have hso : (sOut c S i).valid = false ∧ (sOut c S i).first = false ∧ (sOut c S i).last = false ∧
      SerQ' (sys2Step c bc S i).1.ser := by
    rw [sOut_eq, sys2_ser]
    rcases hsq with hs | hs
    · obtain ⟨a, b, c', d⟩ := ser_idle S.ser (serInOf (step c S.cs i).2.h) hs w3
      refine ⟨a, b, c', ?_⟩
      rcases d with d | d
      · exact Or.inl d
      · rw [w1] at d; simp at d
    · obtain ⟨a, b, c', d⟩ := ser_done S.ser (serInOf (step c S.cs i).2.h) hs
      exact ⟨a, b, c', Or.inl d⟩
  obtain ⟨so1, so2, so3, hsn⟩ := hso
  refine ⟨hpul, ?_, hsn, hstd, ?_, ?_⟩
  · rw [sys2_sig, hbo]
    simp [sigF, hh, hstd, s2, s3, s4]
  · intro hst
    rw [sys2_cs]
    exact h_keep_gd c S.cs (inOf c bc S i) hstd hh hrc s2 (by rw [inOf_ds, hbo]; exact hst) hak
  · rw [sys2_blk, hw]
theorem step_blk (c : Cfg) (bc : Block.Config) (L : Nat) (hL : 3 ≤ L) {S : Sys2State} {g : CG} {i : CycIn} {pul : Bool}
    (hb : BlkBusy S g)
    (hp : (g.ph = .sending ∧ S.blk.fsm = .sendDescriptor) ∨
       (g.ph = .armed 0 ∧ S.blk.fsm = .start) ∨
       (g.ph = .armed 1 ∧ S.blk.fsm = .lookupType ∧ S.blk.pos = S.cs.h.startPos) ∨
       (g.ph = .armed 2 ∧ S.blk.fsm = .lookupDescriptor ∧ S.blk.pos = S.cs.h.startPos) ∨
       (g.ph = .armed 3 ∧ S.blk.fsm = .sendDescriptor ∧ S.blk.pos = S.cs.h.startPos) ∨
       ((g.ph = .armed 2 ∨ g.ph = .armed 3) ∧ S.blk.fsm = .sendZlp))
    (he : EnvF c bc S g i pul) :
    cok g.ph pul (ctlSig (sys2Step c bc S i).2) = true ∧
    R (sys2Step c bc S i).1 (cgNext L g i pul (sys2Step c bc S i).2) := by
  have hni : g.ph ≠ .idle := by
    rcases hp with h | h | h | h | h | ⟨h | h, _⟩ <;> simp [h]
  have hpos := he.pos
  obtain ⟨hpul, hsig, hsq, hpty, hkeep, hbn⟩ := blk_common c bc L hb hni he
  have hphn : (cgNext L g i pul (sys2Step c bc S i).2).ph =
      cnext L g.ph pul i.txReady (ctlSig (sys2Step c bc S i).2) := rfl
  have hwp : (blkW S i).startPos = S.cs.h.startPos := rfl
  have hwr : (blkW S i).ready = i.txReady := rfl
  -- the three shapes of the next state
  have toQuiet : (sys2Step c bc S i).1.blk.fsm = .idle →
      cnext L g.ph pul i.txReady (ctlSig (sys2Step c bc S i).2) = .idle →
      R (sys2Step c bc S i).1 (cgNext L g i pul (sys2Step c bc S i).2) := by
    intro h1 h2; left; rw [hphn, h2]; exact ⟨by simp, h1, hsq⟩
  have busy' : (Block.step bc S.blk (blkW S i)).2.stall = false →
      BlkBusy (sys2Step c bc S i).1 (cgNext L g i pul (sys2Step c bc S i).2) := by
    intro h; exact ⟨hsq, hpty, (hkeep h).1⟩
  subst hpul
  rcases hp with ⟨hph, hf⟩ | ⟨hph, hf⟩ | ⟨hph, hf, hps⟩ | ⟨hph, hf, hps⟩ | ⟨hph, hf, hps⟩ | ⟨hph, hf⟩
  · -- streaming the descriptor
    obtain ⟨b1, b2, b3, b4⟩ := blk_send bc S.blk (blkW S i) hf
    rw [hwr] at b4
    rw [b1, b2] at hsig
    have hc : cnext L g.ph false i.txReady (ctlSig (sys2Step c bc S i).2) =
        (if (i.txReady && (Block.step bc S.blk (blkW S i)).2.last) = true then .idle else .sending) := by
      rw [hsig, hph]; simp [cnext, cnextB]
    refine ⟨by rw [hsig, hph]; simp [cok, cokB], ?_⟩
    by_cases hl : (i.txReady && (Block.step bc S.blk (blkW S i)).2.last) = true
    · apply toQuiet
      · rw [hbn, b4, if_pos hl]
      · rw [hc, if_pos hl]
    · right; right
      refine ⟨busy' b2, Or.inl ⟨?_, ?_⟩⟩
      · rw [hphn, hc, if_neg hl]
      · rw [hbn, b4, if_neg hl]
  · -- START
    have hlt := hpos hf
    rcases blk_start bc S.blk (blkW S i) hf with ⟨b1, b2, b3⟩ | ⟨b1, b2⟩
    · rw [b1] at hsig
      have hc : cnext L g.ph false i.txReady (ctlSig (sys2Step c bc S i).2) = .armed 1 := by
        rw [hsig, hph]; simp [cnext, cnextB, Beat.quiet, expire]; omega
      refine ⟨by rw [hsig, hph]; simp [cok, cokB, Beat.quiet], ?_⟩
      right; right
      refine ⟨busy' (by rw [b1]; rfl), Or.inr (Or.inr (Or.inl ⟨?_, ?_, ?_⟩))⟩
      · rw [hphn, hc]
      · rw [hbn, b2]
      · rw [hbn, b3, hwp, (hkeep (by rw [b1]; rfl)).2, Nat.mod_eq_of_lt hlt]
    · rw [b1] at hsig
      refine ⟨by rw [hsig, hph]; simp [cok, cokB, Beat.quiet], ?_⟩
      apply toQuiet
      · rw [hbn, b2]
      · rw [hsig, hph]; simp [cnext, cnextB]
  · -- LOOKUP_TYPE
    rcases blk_lookupType bc S.blk (blkW S i) hf with ⟨b1, b2, b3⟩ | ⟨b1, b2⟩
    · rw [b1] at hsig
      have hc : cnext L g.ph false i.txReady (ctlSig (sys2Step c bc S i).2) = .armed 2 := by
        rw [hsig, hph]; simp [cnext, cnextB, Beat.quiet, expire]; omega
      refine ⟨by rw [hsig, hph]; simp [cok, cokB, Beat.quiet], ?_⟩
      right; right
      refine ⟨busy' (by rw [b1]; rfl), ?_⟩
      rcases b3 with b3 | b3
      · refine Or.inr (Or.inr (Or.inr (Or.inl ⟨?_, ?_, ?_⟩)))
        · rw [hphn, hc]
        · rw [hbn, b3]
        · rw [hbn, b2, (hkeep (by rw [b1]; rfl)).2, hps]
      · refine Or.inr (Or.inr (Or.inr (Or.inr (Or.inr ⟨Or.inl ?_, ?_⟩))))
        · rw [hphn, hc]
        · rw [hbn, b3]
    · rw [b1] at hsig
      refine ⟨by rw [hsig, hph]; simp [cok, cokB, Beat.quiet], ?_⟩
      apply toQuiet
      · rw [hbn, b2]
      · rw [hsig, hph]; simp [cnext, cnextB]
  · -- LOOKUP_DESCRIPTOR
    obtain ⟨b1, b2, b3⟩ := blk_lookupDescriptor bc S.blk (blkW S i) hf
    rw [b1] at hsig
    have hc : cnext L g.ph false i.txReady (ctlSig (sys2Step c bc S i).2) = .armed 3 := by
      rw [hsig, hph]; simp [cnext, cnextB, Beat.quiet, expire]; omega
    refine ⟨by rw [hsig, hph]; simp [cok, cokB, Beat.quiet], ?_⟩
    right; right
    refine ⟨busy' (by rw [b1]; rfl), ?_⟩
    rcases b3 with b3 | b3
    · refine Or.inr (Or.inr (Or.inr (Or.inr (Or.inl ⟨?_, ?_, ?_⟩))))
      · rw [hphn, hc]
      · rw [hbn, b3]
      · rw [hbn, b2, (hkeep (by rw [b1]; rfl)).2, hps]
    · refine Or.inr (Or.inr (Or.inr (Or.inr (Or.inr ⟨Or.inr ?_, ?_⟩))))
      · rw [hphn, hc]
      · rw [hbn, b3]
  · -- the first byte of the descriptor
    obtain ⟨b1, b2, b3, b4⟩ := blk_send bc S.blk (blkW S i) hf
    rw [hwr] at b4
    rw [hwp, hps, beq_self_eq_true] at b3
    rw [b1, b2, b3] at hsig
    have hc : cnext L g.ph false i.txReady (ctlSig (sys2Step c bc S i).2) =
        (if (i.txReady && (Block.step bc S.blk (blkW S i)).2.last) = true then .idle else .sending) := by
      rw [hsig, hph]; simp [cnext, cnextB]
    refine ⟨by rw [hsig, hph]; simp [cok, cokB], ?_⟩
    by_cases hl : (i.txReady && (Block.step bc S.blk (blkW S i)).2.last) = true
    · apply toQuiet
      · rw [hbn, b4, if_pos hl]
      · rw [hc, if_pos hl]
    · right; right
      refine ⟨busy' b2, Or.inl ⟨?_, ?_⟩⟩
      · rw [hphn, hc, if_neg hl]
      · rw [hbn, b4, if_neg hl]
  · -- the zero-length packet
    obtain ⟨b1, b2⟩ := blk_sendZlp bc S.blk (blkW S i) hf
    rw [b1] at hsig
    refine ⟨by rw [hsig]; rcases hph with h | h <;> rw [h] <;> simp [cok, cokB], ?_⟩
    apply toQuiet
    · rw [hbn, b2]
    · rw [hsig]; rcases hph with h | h <;> rw [h] <;> simp [cnext, cnextB]
end LunaVerif.CtrlCyc
