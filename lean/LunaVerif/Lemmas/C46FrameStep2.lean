import LunaVerif.Lemmas.C46FrameStep1
/-!
# C46 — framing invariant `InvF` in WAIT_FOR_ACK
-/
namespace LunaVerif.SSStreamIn

theorem fstep_waitAck_quiet (c : Config) (v : View) (g : Ghost) (f : Frame) (i : In) (d : Bool) (hc : CfgOK c)
    (hI : Inv c v g) (hF : InvF c v g f) (he : EnvOK c g i (vout c v i)) (hf : v.fsm = .waitAck)
    (hack : (i.ack && i.hsEp == c.ep) = false) :
    InvF c (vnext c v i) (gnext i (vout c v i) d g) (fnext c.mps i (vout c v i) d g f) := by
  obtain ⟨hr, hp, hh⟩ := he
  obtain ⟨dl, hexp, hwp, hpart, hpk⟩ :=
    write_frame c v i f hc hI.lenW hI.fillW_le hI.fillW_al hI.endW hp hF.partEq
  obtain ⟨hlz, hnlz, hv1⟩ := hI.wa hf
  obtain ⟨hm4, hm8, haw⟩ := hc
  have hne := seq_succ_ne v.seq hI.seqlt
  have hk : vcontrol c v i = { fsm := .waitAck, clrTx := true, raddr := 0 } := by
    simp [vcontrol, hf, hack]
  constructor
  case partEq => rw [fnext_part, hpart]; simp only [vnext, hk]; simp
  case wdI => simp only [vnext, hk]; intro h; cases h
  case pk =>
    rw [fnext_pkts, fnext_exp, hpk, hexp]
    simp only [vnext, hk, Bool.false_eq_true, if_false]
    rw [hwp]
    refine pk_noflip _ _ _ _ _ _ _ _ _ hF.pk ?_
    by_cases htv : v.txValid = 0
    · simp [rpart, zowed, rxData, rxZlp, vout, hk, hf, htv, hr, gnext, gZlp, gTx, gProd]
    · obtain ⟨hlast, hmask, htd, hcb⟩ := hv1 htv
      have hq : (if g.inPkt = true then g.curSeq else v.seq) = v.seq := by
        cases hi : g.inPkt
        · simp
        · simp [hI.curq hi]
      have hlf : v.lpz = false := by
        cases h : v.lpz
        · rfl
        · exact absurd (hlz h).2 htv
      have hf1 := hnlz hlf
      have hemit := emitted_eq_bufBytes v.memR v.fillR hf1 (by have := hI.lenR; have := hI.fillR_le; omega)
      simp only [List.getD_eq_getElem?_getD] at hemit
      cases hrdy : i.txReady
      · simp [rpart, zowed, rxData, rxZlp, vout, hk, hf, htv, hr, gnext, gZlp, gTx, gProd, hrdy, hq]
      · by_cases hsq : g.hseq = v.seq
        · cases d <;>
            simp [rpart, zowed, rxData, rxZlp, vout, hk, hf, htv, hr, gnext, gZlp, gTx, gProd, hrdy, hq, hlast,
              receive, hsq, hne, hcb, htd, hmask, hemit, lastMask_ne_zero]
        · have hsq' : ¬ v.seq = g.hseq := fun h => hsq h.symm
          cases d <;>
            simp [rpart, zowed, rxData, rxZlp, vout, hk, hf, htv, hr, gnext, gZlp, gTx, gProd, hrdy, hq, hlast,
              receive, hsq, hsq', hne, hcb, htd, hmask, hemit, lastMask_ne_zero]

theorem fstep_waitAck_retry (c : Config) (v : View) (g : Ghost) (f : Frame) (i : In) (d : Bool) (hc : CfgOK c)
    (hI : Inv c v g) (hF : InvF c v g f) (he : EnvOK c g i (vout c v i)) (hf : v.fsm = .waitAck)
    (hack : (i.ack && i.hsEp == c.ep) = true)
    (hre : (i.retry || !(i.nextSeq == (v.seq + 1) % 32)) = true) :
    InvF c (vnext c v i) (gnext i (vout c v i) d g) (fnext c.mps i (vout c v i) d g f) := by
  obtain ⟨hr, hp, hh⟩ := he
  obtain ⟨dl, hexp, hwp, hpart, hpk⟩ :=
    write_frame c v i f hc hI.lenW hI.fillW_le hI.fillW_al hI.endW hp hF.partEq
  obtain ⟨hlz, hnlz, hv1⟩ := hI.wa hf
  obtain ⟨hm4, hm8, haw⟩ := hc
  have hne := seq_succ_ne v.seq hI.seqlt
  have hack' : i.ack = true ∧ i.hsEp = c.ep := by simpa using hack
  obtain ⟨htv, hns⟩ := hh hack'.1 hack'.2
  change v.txValid = 0 at htv
  cases hl : v.lpz
  · have hk : vcontrol c v i = { fsm := .send, clrTx := true, raddr := 0 } := by
      simp [vcontrol, hf, hack, hre, hl]
    constructor
    case partEq => rw [fnext_part, hpart]; simp only [vnext, hk]; simp
    case wdI => simp only [vnext, hk]; intro h; cases h
    case pk =>
      rw [fnext_pkts, fnext_exp, hpk, hexp]
      simp only [vnext, hk, Bool.false_eq_true, if_false]
      rw [hwp]
      refine pk_noflip _ _ _ _ _ _ _ _ _ hF.pk ?_
      simp [rpart, zowed, rxData, rxZlp, vout, hk, hf, htv, hr, gnext, gZlp, gTx, gProd]
  · have hk : vcontrol c v i = { fsm := .waitAck, txZlp := true, clrTx := true, raddr := 0 } := by
      simp [vcontrol, hf, hack, hre, hl]
    have hfr := (hlz hl).1
    have hmz : ¬ (0 = c.mps) := by omega
    constructor
    case partEq => rw [fnext_part, hpart]; simp only [vnext, hk]; simp
    case wdI => simp only [vnext, hk]; intro h; cases h
    case pk =>
      rw [fnext_pkts, fnext_exp, hpk, hexp]
      simp only [vnext, hk, Bool.false_eq_true, if_false]
      rw [hwp]
      refine pk_noflip _ _ _ _ _ _ _ _ _ hF.pk ?_
      by_cases hsq : g.hseq = v.seq
      · cases d <;>
          simp [rpart, zowed, rxData, rxZlp, vout, hk, hf, htv, hr, gnext, gZlp, gTx, gProd, receive, hfr, hne,
            hmz, hsq]
      · have hsq' : ¬ v.seq = g.hseq := fun h => hsq h.symm
        cases d <;>
          simp [rpart, zowed, rxData, rxZlp, vout, hk, hf, htv, hr, gnext, gZlp, gTx, gProd, receive, hfr, hne,
            hmz, hsq, hsq']

theorem fstep_waitAck_accept (c : Config) (v : View) (g : Ghost) (f : Frame) (i : In) (d : Bool)
    (hc : CfgOK c) (hI : Inv c v g) (hF : InvF c v g f) (he : EnvOK c g i (vout c v i))
    (hf : v.fsm = .waitAck) (hack : (i.ack && i.hsEp == c.ep) = true)
    (hre : (i.retry || !(i.nextSeq == (v.seq + 1) % 32)) = false) :
    InvF c (vnext c v i) (gnext i (vout c v i) d g) (fnext c.mps i (vout c v i) d g f) := by
  obtain ⟨hr, hp, hh⟩ := he
  obtain ⟨dl, hexp, hwp, hpart, hpk⟩ :=
    write_frame c v i f hc hI.lenW hI.fillW_le hI.fillW_al hI.endW hp hF.partEq
  obtain ⟨hlz, hnlz, hv1⟩ := hI.wa hf
  have hm8 := hc.2.1
  have hm4 := hc.1
  have hne := seq_succ_ne v.seq hI.seqlt
  have hack' : i.ack = true ∧ i.hsEp = c.ep := by simpa using hack
  obtain ⟨htv, hns⟩ := hh hack'.1 hack'.2
  change v.txValid = 0 at htv
  have hre' : i.retry = false ∧ i.nextSeq = (v.seq + 1) % 32 := by simpa using hre
  have hhs : g.hseq = (v.seq + 1) % 32 := by rw [← hns]; exact hre'.2
  have hmz : ¬ (0 = c.mps) := by omega
  have hne2 : ¬ (v.seq + 1 + 1) % 32 = (v.seq + 1) % 32 := by omega
  cases hfu : (v.fillR == c.mps && v.endedR)
  · have hz0 : zowed c v = [] := by
      simp only [Bool.and_eq_false_iff, beq_eq_false_iff_ne] at hfu
      simp only [zowed]
      rcases hfu with h | h <;> simp [h]
    have hr0 : rpart v g = [] := by simp [rpart, hf, hhs, hne]
    cases hfl : (!vinReady c v || (i.sValid % 2 == 1 && decide (v.fillW + 4 ≥ c.mps)))
    · have hk : vcontrol c v i =
          { fsm := .waitData, clrFillR := true, advance := true, nrdy := i.nump != 0,
            setErdy := i.nump != 0, clrTx := true, raddr := 0 } := by
        simp [vcontrol, hf, hack, hre, hfu, hfl]
      simp only [Bool.or_eq_false_iff, Bool.not_eq_false'] at hfl
      constructor
      case partEq => rw [fnext_part, hpart]; simp only [vnext, hk]; simp
      case wdI =>
        simp only [vnext, hk, Bool.false_eq_true, if_false]
        intro _
        have hrd := hfl.1
        simp only [vinReady, Bool.and_eq_true, decide_eq_true_eq, Bool.not_eq_true'] at hrd
        exact stay_room c v i hc hp hI.fillW_al hrd.1 hrd.2 hfl.2
      case pk =>
        rw [fnext_pkts, fnext_exp, hpk, hexp]
        simp only [vnext, hk, Bool.false_eq_true, if_false, if_true]
        rw [hwp]
        refine pk_noflip _ _ _ _ _ _ _ _ _ hF.pk ?_
        rw [hr0, hz0]
        simp [rpart, zowed, rxData, rxZlp, vout, hk, htv, hmz]
    · have hk : vcontrol c v i =
          { fsm := if i.nump != 0 then .send else .waitSend, clrFillR := true,
            advance := true, flip := true, clrEndR := true, lpz := if i.nump != 0 then some false else none,
            clrTx := true, raddr := 0 } := by
        simp [vcontrol, hf, hack, hre, hfu, hfl]
      have hcomp := flip_complete c v i hc hp hI.fillW_al hfl
      have hfsm : (if (i.nump != 0) = true then Fsm.send else Fsm.waitSend) ≠ Fsm.waitData := by
        split <;> simp
      constructor
      case partEq =>
        rw [fnext_part, hpart, ppart_complete _ _ _ _ hcomp]; simp only [vnext, hk]; simp [ppart]
      case wdI => simp only [vnext, hk]; intro h; exact absurd h hfsm
      case pk =>
        rw [fnext_pkts, fnext_exp, hpk, hexp]
        simp only [vnext, hk, if_true, Bool.false_eq_true, if_false]
        refine pk_flip _ _ _ _ _ _ _ _ _ _ hF.pk hr0 hz0 ?_ ?_ ?_
        · simp [rxData, rxZlp, vout, hk, htv]
        · simp [wpart]; omega
        · rw [hwp.symm, wpart_complete _ _ _ _ hcomp]
          cases hin : (i.nump != 0) <;> simp at hin <;>
            simp [rpart, zowed, hr, hhs, gnext, gZlp, gTx, gProd, vout, hk, htv, hin]
  · have hfu' : v.fillR = c.mps ∧ v.endedR = true := by simpa using hfu
    have hz1 : zowed c v = [[]] := by simp [zowed, hfu']
    have hr0 : rpart v g = [] := by simp [rpart, hf, hhs, hne]
    cases hin : (i.nump != 0)
    · have hk : vcontrol c v i =
          { fsm := .waitSend, clrFillR := true, advance := true, clrTx := true, raddr := 0 } := by
        simp [vcontrol, hf, hack, hre, hfu, hin]
      constructor
      case partEq => rw [fnext_part, hpart]; simp only [vnext, hk]; simp
      case wdI => simp only [vnext, hk]; intro h; cases h
      case pk =>
        rw [fnext_pkts, fnext_exp, hpk, hexp]
        simp only [vnext, hk, Bool.false_eq_true, if_false, if_true]
        rw [hwp]
        refine pk_noflip _ _ _ _ _ _ _ _ _ hF.pk ?_
        rw [hr0, hz1]
        simp [rpart, zowed, rxData, rxZlp, vout, hk, htv, hmz, hr, hhs, gnext, gZlp, gTx, gProd]
    · have hk : vcontrol c v i =
          { fsm := .waitAck, clrFillR := true, txZlp := true, advance := true,
            clrEndR := true, lpz := some true, clrTx := true, raddr := 0 } := by
        simp [vcontrol, hf, hack, hre, hfu, hin]
      constructor
      case partEq => rw [fnext_part, hpart]; simp only [vnext, hk]; simp
      case wdI => simp only [vnext, hk]; intro h; cases h
      case pk =>
        rw [fnext_pkts, fnext_exp, hpk, hexp]
        simp only [vnext, hk, Bool.false_eq_true, if_false, if_true]
        rw [hwp]
        refine pk_noflip _ _ _ _ _ _ _ _ _ hF.pk ?_
        rw [hr0, hz1]
        cases d <;>
          simp [rpart, zowed, rxData, rxZlp, vout, hk, htv, hmz, hr, hhs, gnext, gZlp, gTx, gProd, receive, hne2]

end LunaVerif.SSStreamIn
