import LunaVerif.Model.Usb3.SSStreamIn
/-!
# C46 — a toggle-free formulation of the SuperSpeedStreamInEndpoint model

`View` is the state of `Model/Usb3/SSStreamIn.lean` seen through `ping_pong_toggle`: instead of
buffer 0 / buffer 1 it has the *write* buffer and the *read* buffer.  `vnext` / `vout` are the step and
output functions on views; `view_next` / `out_eq_vout` prove them equal to the model's `next` / `out`, so
every statement proved about `vnext` is a statement about the co-simulated model.
-/
namespace LunaVerif.SSStreamIn

structure View where
  fsm     : Fsm
  seq     : Nat
  fillW   : Nat
  fillR   : Nat
  endedW  : Bool
  endedR  : Bool
  memW    : List Nat
  memR    : List Nat
  rdR     : Nat
  sendPos : Nat
  txValid : Nat
  txFirst : Bool
  txLast  : Bool
  txData  : Nat
  lpz     : Bool
  erdyReq : Bool

def memW (s : State) : List Nat := if s.toggle then s.mem1 else s.mem0

def view (s : State) : View :=
  { fsm := s.fsm, seq := s.seq, fillW := fillW s, fillR := fillR s, endedW := endedW s, endedR := endedR s,
    memW := memW s, memR := memR s, rdR := rdR s, sendPos := s.sendPos, txValid := s.txValid,
    txFirst := s.txFirst, txLast := s.txLast, txData := s.txData, lpz := s.lpz, erdyReq := s.erdyReq }

def vinReady (c : Config) (v : View) : Bool := decide (v.fillW + 4 ≤ c.mps) && !v.endedW

/-- `control` on views (same text as `control`). -/
def vcontrol (c : Config) (v : View) (i : In) : Ctl :=
  let ackUs := i.ack && i.hsEp == c.ep
  let isIn  := i.nump != 0
  let inTok := ackUs && isIn
  let v0    := i.sValid % 2 == 1
  let complete := decide (v.fillW + 4 ≥ c.mps)
  match v.fsm with
  | .waitData =>
    let ends := (v0 && (complete || i.sLast)) || v.endedW
    { fsm := if ends then (if v.erdyReq || inTok then .reqIn else .waitSend) else .waitData
      nrdy := inTok, setErdy := inTok, flip := ends, clrEndR := ends, raddr := v.sendPos }
  | .reqIn =>
    { fsm := if i.done then .waitSend else .reqIn, erdy := true, clrErdy := i.done, raddr := v.sendPos }
  | .waitSend =>
    if inTok then
      if v.fillR != 0 then { fsm := .send, lpz := some false, raddr := v.sendPos }
      else { fsm := .waitAck, txZlp := true, clrEndR := true, lpz := some true, raddr := v.sendPos }
    else { fsm := .waitSend, raddr := v.sendPos }
  | .send =>
    if v.txValid == 0 || i.txReady then
      let lastWord := decide ((v.sendPos + 1) * 4 ≥ v.fillR)
      { fsm := if lastWord then .waitAck else .send, loadTx := true, raddr := v.sendPos + 1 }
    else { fsm := .send, raddr := v.sendPos }
  | .waitAck =>
    if ackUs then
      let advancing := i.nextSeq == (v.seq + 1) % 32
      if i.retry || !advancing then
        if v.lpz then { fsm := .waitAck, txZlp := true, clrTx := true, raddr := 0 }
        else { fsm := .send, clrTx := true, raddr := 0 }
      else
        let followUp := v.fillR == c.mps && v.endedR
        if followUp then
          if isIn then
            { fsm := .waitAck, clrFillR := true, txZlp := true, advance := true, clrEndR := true,
              lpz := some true, clrTx := true, raddr := 0 }
          else { fsm := .waitSend, clrFillR := true, advance := true, clrTx := true, raddr := 0 }
        else if !vinReady c v || (v0 && complete) then
          { fsm := if isIn then .send else .waitSend, clrFillR := true, advance := true, flip := true,
            clrEndR := true, lpz := if isIn then some false else none, clrTx := true, raddr := 0 }
        else { fsm := .waitData, clrFillR := true, advance := true, nrdy := isIn, setErdy := isIn,
               clrTx := true, raddr := 0 }
    else { fsm := .waitAck, clrTx := true, raddr := 0 }

def vout (c : Config) (v : View) (i : In) : Out :=
  let k := vcontrol c v i
  { sReady := vinReady c v, txValid := v.txValid, txFirst := v.txFirst, txLast := v.txLast,
    txData := v.txData, txZlp := k.txZlp,
    txLength := v.fillR, txSeq := if k.advance then (v.seq + 1) % 32 else v.seq,
    txEp := c.ep, sendNrdy := k.nrdy, sendErdy := k.erdy }

/-- the write side of one cycle: `buffer_write.en`, and the write buffer's fill count, `stream_ended` flag and
memory after the clock edge -/
def wen (c : Config) (v : View) (i : In) : Bool := i.sValid != 0 && vinReady c v
def wFill (c : Config) (v : View) (i : In) : Nat :=
  if wen c v i then v.fillW + validBytes i.sValid else v.fillW
def wEnded (c : Config) (v : View) (i : In) : Bool := if i.sLast && wen c v i then true else v.endedW
def wMem (c : Config) (v : View) (i : In) : List Nat :=
  if wen c v i then v.memW.set (v.fillW / 4) i.sData else v.memW

/-- `next` on views: the write side works on `fillW/endedW/memW`, the read side on `fillR/endedR/memR`,
a flip exchanges them.  The read port of the buffer that becomes the read buffer by a flip was addressed
with 0 (the default of `buffer_read_ports[write].addr`). -/
def vnext (c : Config) (v : View) (i : In) : View :=
  let k := vcontrol c v i
  let fillR' := if k.clrFillR then 0 else v.fillR
  let endedR' := if k.clrEndR then false else v.endedR
  let lastWord := decide ((v.sendPos + 1) * 4 ≥ v.fillR)
  { fsm := k.fsm
    seq := if i.epReset then 0 else if k.advance then (v.seq + 1) % 32 else v.seq
    fillW := if k.flip then fillR' else wFill c v i
    fillR := if k.flip then wFill c v i else fillR'
    endedW := if k.flip then endedR' else wEnded c v i
    endedR := if k.flip then wEnded c v i else endedR'
    memW := if k.flip then v.memR else wMem c v i
    memR := if k.flip then wMem c v i else v.memR
    rdR := if k.flip then memRead c v.memW 0 else memRead c v.memR k.raddr
    sendPos := if k.clrTx then 0 else if k.loadTx then v.sendPos + 1 else v.sendPos
    txValid := if k.clrTx then (if i.txReady then 0 else v.txValid)
               else if k.loadTx then (if lastWord then lastMask v.fillR else 15) else v.txValid
    txFirst := if k.loadTx then v.sendPos == 0 else v.txFirst
    txLast := if k.loadTx then lastWord else v.txLast
    txData := if k.loadTx then v.rdR else v.txData
    lpz := k.lpz.getD v.lpz
    erdyReq := if k.clrErdy then false else v.erdyReq || k.setErdy }

theorem control_eq_vcontrol (c : Config) (s : State) (i : In) : control c s i = vcontrol c (view s) i := rfl

theorem inReady_eq (c : Config) (s : State) : inReady c s = vinReady c (view s) := rfl

theorem out_eq_vout (c : Config) (s : State) (i : In) : out c s i = vout c (view s) i := rfl

/-- a flip is only ever decided together with `raddr = 0` or in WAIT_FOR_DATA with `raddr = send_position`;
the view's `rdR` after a flip relies on the *write* buffer's port being addressed with 0, which the model
does regardless of `raddr`. -/
theorem view_next (c : Config) (s : State) (i : In) : view (next c s i) = vnext c (view s) i := by
  rw [vnext, ← control_eq_vcontrol]
  cases ht : s.toggle <;> cases hfl : (control c s i).flip <;>
    simp [view, next, wen, wFill, wEnded, wMem, vinReady, inReady, fillW, fillR, endedW, endedR, memW, memR, rdR, ht, hfl] <;>
    cases (control c s i).lpz <;> rfl

end LunaVerif.SSStreamIn
