import LunaVerif.Lemmas.C09Seq
import LunaVerif.Lemmas.C09DistReq
/-!
Helper lemmas for C09: the distributed handler model is quiescent again (every generator idle with
its registered `start` low, no `send_zlp`) one cycle after its response is over.

Entries the request's `value` does not select never leave (idle, start low).  The selected entry's
registered `start` and `send_zlp` are low from the second cycle after `start`; from then on a cycle
with a quiet output is a cycle in which its generator is in IDLE or DONE, hence in IDLE a cycle later.
-/
namespace LunaVerif.Desc.Dist

def final (c : Config) : State → List In → State
  | s, [] => s
  | s, i :: is => final c (step c s i).1 is

theorem run_append (c : Config) (a b : List In) : ∀ s, run c s (a ++ b) = run c s a ++ run c (final c s a) b := by
  induction a with
  | nil => intro s; rfl
  | cons i is ih => intro s; simp only [List.cons_append, run, final, ih, List.cons_append]

theorem final_append (c : Config) (a b : List In) : ∀ s, final c s (a ++ b) = final c (final c s a) b := by
  induction a with
  | nil => intro s; rfl
  | cons i is ih => intro s; simp only [List.cons_append, final, ih]

theorem run_length (c : Config) (is : List In) : ∀ s, (run c s is).length = is.length := by
  induction is with
  | nil => intro s; rfl
  | cons i is ih => intro s; simp [run, ih]

/-- no request in flight (the same predicate as `Dist.Quiescent` of `Props/C09.lean`). -/
def Quiet (c : Config) (s : State) : Prop :=
  s.sendZlp = false ∧ s.gens.length = c.entries.length ∧ ∀ g ∈ s.gens, g.1.fsm = .idle ∧ g.2 = false

theorem stepAll_gens (c : Config) (i : In) : ∀ (es : List Entry) (gs : List (Gen.State × Bool)),
    (stepAll c i es gs).1 = List.zipWith (fun e g => (stepEntry c i e g).1) es gs := by
  intro es
  induction es with
  | nil => intro gs; rfl
  | cons e es ih =>
    intro gs
    cases gs with
    | nil => rfl
    | cons g gs => simp only [stepAll, List.zipWith_cons_cons, ih]

/-- the entries a request for `v` does not select are at rest. -/
def Others (c : Config) (v : Nat) (s : State) : Prop :=
  s.gens.length = c.entries.length ∧
  ∀ (k : Nat) (e : Entry) (g : Gen.State × Bool), c.entries[k]? = some e → s.gens[k]? = some g → e.key ≠ v →
    g.1.fsm = .idle ∧ g.2 = false

theorem others_of_quiet (c : Config) (v : Nat) (s : State) (h : Quiet c s) : Others c v s :=
  ⟨h.2.1, fun _ _ g _ hg _ => h.2.2 g (List.mem_of_getElem? hg)⟩

theorem step_others (c : Config) (v l p : Nat) (st r : Bool) (s : State) (h : Others c v s) :
    Others c v (step c s ⟨v, l, p, st, r⟩).1 := by
  obtain ⟨hl, ho⟩ := h
  have hg : (step c s ⟨v, l, p, st, r⟩).1.gens
      = List.zipWith (fun e g => (stepEntry c ⟨v, l, p, st, r⟩ e g).1) c.entries s.gens := by
    simp only [step]; exact stepAll_gens c _ _ _
  refine ⟨by rw [hg, List.length_zipWith]; omega, ?_⟩
  intro k e g' he hg' hne
  rw [hg, List.getElem?_zipWith, he] at hg'
  cases hgk : s.gens[k]? with
  | none => rw [hgk] at hg'; simp at hg'
  | some g =>
    rw [hgk] at hg'
    simp only [Option.some.injEq] at hg'
    obtain ⟨hi, hs⟩ := ho k e g he hgk hne
    have hsel : (e.key == v) = false := beq_false_of_ne hne
    subst hg'
    simp only [stepEntry, hsel, Bool.false_and, Bool.false_eq_true, if_false]
    rw [Gen.step_idle _ _ _ hi]
    simp [hs]

theorem final_others (c : Config) (v l p : Nat) (rs : List Bool) : ∀ s, Others c v s →
    Others c v (final c s (holdInputs v l p rs)) := by
  induction rs with
  | nil => intro s h; exact h
  | cons r rs ih =>
    intro s h
    rw [holdInputs_cons]
    exact ih _ (step_others c v l p false r s h)

/-- a hold cycle with a quiet output, selected entry's `start` register low: a cycle later its
generator is idle, `start` and `send_zlp` low. -/
theorem settle (c : Config) (s : State) (v l p : Nat) (r : Bool) (j : Nat) (e : Entry) (g : Gen.State) (z : Bool)
    (hs : Selects c v j e) (hv : View s j g false z) (hq : (step c s ⟨v, l, p, false, r⟩).2 = Beat.quiet) :
    ∃ g', View (step c s ⟨v, l, p, false, r⟩).1 j g' false false ∧ g'.fsm = .idle := by
  obtain ⟨ho, hv'⟩ := step_view c s v l p false r j e g false z hs hv
  simp only [Bool.false_and] at hv'
  refine ⟨_, hv', ?_⟩
  rw [ho] at hq
  have hval : ((Gen.step e.gen g (genIn c e l p false r)).2.valid || z) = false := by
    have := congrArg Beat.valid hq
    simpa [beatOf, Beat.quiet] using this
  cases hf : g.fsm with
  | idle => rw [Gen.step_idle _ _ _ hf]; simp [genIn]
  | done => rw [Gen.step_done _ _ _ hf]
  | streaming =>
    exfalso
    have : (Gen.step e.gen g (genIn c e l p false r)).2.valid = true := by
      simp only [Gen.step, hf]
      (repeat' split) <;> rfl
    rw [this] at hval
    simp at hval

theorem reqInputs_snoc (v l p : Nat) (r : Bool) (rs : List Bool) (x : Bool) :
    reqInputs v l p ((r :: rs) ++ [x]) = reqInputs v l p (r :: rs) ++ [⟨v, l, p, false, x⟩] := by
  simp [reqInputs]

theorem holdInputs_snoc (v l p : Nat) (rs : List Bool) (x : Bool) :
    holdInputs v l p (rs ++ [x]) = holdInputs v l p rs ++ [⟨v, l, p, false, x⟩] := by
  simp [holdInputs]

/-- the last output of a run over `is ++ [i]` -/
theorem run_snoc_last (c : Config) (s : State) (is : List In) (i : In) (t : List Beat) (b : Beat)
    (h : run c s (is ++ [i]) = t ++ [b]) : (step c (final c s is) i).2 = b := by
  rw [run_append] at h
  have hlen : (run c s is).length = t.length := by
    have := congrArg List.length h
    simp only [List.length_append, run_length, List.length_cons, List.length_nil] at this
    rw [run_length]; omega
  have := (List.append_inj h hlen).2
  simp only [run] at this
  injection this

/-- **return to quiescence**, request for a wValue that entry `j` (and only it) selects: if the output
trace is the abstract trace of a response that is over one cycle before the end of the window
`r0 :: (mid ++ [y, x])`, the model is quiescent at the end of the window. -/
theorem final_quiet_sel (c : Config) (s0 : State) (v l p lat j : Nat) (e : Entry) (r : Response)
    (r0 y x : Bool) (mid : List Bool)
    (hQ : Quiet c s0) (hs : Selects c v j e)
    (huniq : ∀ (k : Nat) (e' : Entry), k ≠ j → c.entries[k]? = some e' → e'.key ≠ v)
    (hc : CompleteAt lat r (r0 :: (mid ++ [y])))
    (htrace : run c s0 (reqInputs v l p (r0 :: (mid ++ [y]) ++ [x])) = respTrace lat r (r0 :: (mid ++ [y]) ++ [x])) :
    Quiet c (final c s0 (reqInputs v l p (r0 :: (mid ++ [y]) ++ [x]))) := by
  rw [respTrace_snoc r x lat _ hc, reqInputs_snoc] at htrace
  have hq := run_snoc_last c s0 _ _ _ _ htrace
  rw [reqInputs_snoc, final_append]
  -- the state before the last-but-one cycle
  have hA : reqInputs v l p (r0 :: (mid ++ [y])) = reqInputs v l p (r0 :: mid) ++ [⟨v, l, p, false, y⟩] := by
    simp [reqInputs]
  rw [hA, final_append] at hq ⊢
  generalize hB : final c s0 (reqInputs v l p (r0 :: mid)) = sB at hq ⊢
  have hoB : Others c v sB := by
    rw [← hB, reqInputs_cons]
    exact final_others c v l p mid _ (step_others c v l p true r0 s0 (others_of_quiet c v s0 hQ))
  simp only [final] at hq ⊢
  have hjlt : j < sB.gens.length := by
    rw [hoB.1]; exact (List.getElem?_eq_some_iff.mp hs.hget).1
  obtain ⟨⟨gB, srB⟩, hgB⟩ : ∃ g, sB.gens[j]? = some g := ⟨sB.gens[j], List.getElem?_eq_getElem hjlt⟩
  have hvB : View sB j gB srB sB.sendZlp := ⟨hgB, rfl⟩
  have hvA := (step_view c sB v l p false y j e gB srB sB.sendZlp hs hvB).2
  simp only [Bool.false_and] at hvA
  obtain ⟨g', hv', hidle⟩ := settle c _ v l p x j e _ false hs hvA hq
  have hoF := step_others c v l p false x _ (step_others c v l p false y sB hoB)
  refine ⟨hv'.hz, hoF.1, ?_⟩
  intro g hg
  obtain ⟨k, hk⟩ := List.getElem?_of_mem hg
  by_cases hkj : k = j
  · subst hkj
    rw [hv'.hg] at hk
    injection hk with hk
    subst hk
    exact ⟨hidle, rfl⟩
  · have hklt : k < c.entries.length := by
      rw [← hoF.1]; exact (List.getElem?_eq_some_iff.mp hk).1
    exact hoF.2 k c.entries[k] g (List.getElem?_eq_getElem hklt) hk
      (huniq k _ hkj (List.getElem?_eq_getElem hklt))

/-- **return to quiescence**, request for a wValue no entry has: quiescent after the start cycle already. -/
theorem final_quiet_none (c : Config) (s0 : State) (v l p : Nat) (r0 : Bool) (rs : List Bool)
    (hQ : Quiet c s0) (hnone : ∀ e ∈ c.entries, e.key ≠ v) :
    Quiet c (final c s0 (reqInputs v l p (r0 :: rs))) := by
  rw [reqInputs_cons]
  simp only [final]
  have ho := final_others c v l p rs _ (step_others c v l p true r0 s0 (others_of_quiet c v s0 hQ))
  have hz : ∀ (rs : List Bool) (s : State), s.sendZlp = false → (final c s (holdInputs v l p rs)).sendZlp = false := by
    intro rs
    induction rs with
    | nil => intro s h; exact h
    | cons r rs ih =>
      intro s _
      rw [holdInputs_cons]
      exact ih _ (step_none c s ⟨v, l, p, false, r⟩ hnone).2
  refine ⟨hz rs _ (step_none c s0 ⟨v, l, p, true, r0⟩ hnone).2, ho.1, ?_⟩
  intro g hg
  obtain ⟨k, hk⟩ := List.getElem?_of_mem hg
  have hklt : k < c.entries.length := by
    rw [← ho.1]; exact (List.getElem?_eq_some_iff.mp hk).1
  exact ho.2 k c.entries[k] g (List.getElem?_eq_getElem hklt) hk
    (hnone _ (List.getElem_mem hklt))

end LunaVerif.Desc.Dist
